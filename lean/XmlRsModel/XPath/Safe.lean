import XmlRsModel.XPath.Eval
/-! Which expressions cannot see a PREFIX of the document (used by Thm/C10 `eval_ren` and by the driver op `thm10`, which
    measures how many expressions of a run the theorem speaks about). -/
namespace XmlRs.XPath
open XmlRs

/-- is the test a name test with a local part (`l`, `p:l`)? -/
def isNameTest : NodeTest → Bool
  | .name _ => true
  | _ => false

/-- the functions that show a prefix: `name()` always, `local-name()` on a namespace node -/
def showsPrefix (name : String) : Bool := name == "name" || name == "local-name"

/-! which expressions cannot see a prefix of the document -/
mutual
def safeE : Expr → Bool
  | .bin _ a b => safeE a && safeE b
  | .neg e => safeE e
  | .lit _ => true
  | .num _ => true
  | .var _ => true
  | .call f args => !showsPrefix (String.ofList f.loc) && safeEs args
  | .filter e ps => safeE e && safeEs ps
  | .path (some e) _ steps => safeE e && safeSs steps
  | .path none _ steps => safeSs steps
def safeEs : List Expr → Bool
  | [] => true
  | e :: r => safeE e && safeEs r
def safeS : Step → Bool
  | .mk a t ps => !(a == .namespace && isNameTest t) && safeEs ps
def safeSs : List Step → Bool
  | [] => true
  | s :: r => safeS s && safeSs r
end


end XmlRs.XPath
