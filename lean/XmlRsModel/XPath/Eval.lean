import XmlRsModel.XPath.Tree
import XmlRsModel.XPath.Num
import XmlRsModel.XPath.Ast
/-! XPath 1.0 evaluation (Recommendation sections 2 - 4) over the data model of `Tree.lean`,
    written the way the Recommendation is written.  Node-sets are lists of keys that are always
    kept as sub-lists of the document-order list of all keys (`normalize`). -/
namespace XmlRs.XPath
open XmlRs

inductive Value where
  | bool (b : Bool)
  | num (x : Bits)
  | str (s : Str)
  | nodes (ks : List Key)
  deriving Inhabited, DecidableEq

inductive XPErr where
  | type            -- an operand or argument of the wrong type (node-set expected)
  | arity           -- wrong number of arguments
  | nofunc          -- unknown function
  | nons            -- prefix without a binding
  | unsupported     -- variable reference, id()
  deriving DecidableEq, Inhabited, Repr

structure Env where
  doc : XDoc
  /-- caller's namespace bindings: (prefix, uri); prefix `none` = default element namespace -/
  ns : List (Option Str × Str)

structure Ctx where
  node : Key
  pos : Nat
  size : Nat

/-! ### axes (2.2) — every axis is a filter of the document-order list of all nodes -/

def isDescendantKey (anc k : Key) : Bool := anc.length < k.length && isPrefix anc k

/-- nodes of the axis in DOCUMENT order -/
def axisKeys (d : XDoc) (a : Axis) (c : Key) : List Key :=
  let all := allKeys d
  let tree := all.filter (fun k => !isAN k)         -- no attribute / namespace nodes
  match a with
  | .self => [c]
  | .child => if isAN c then [] else childKeys d c
  | .attribute => if isAN c then [] else attrKeys d c
  | .namespace => if isAN c then [] else nsKeys d c
  | .parent => match parentKey c with | some p => [p] | none => []
  | .ancestor => all.filter (fun k => isDescendantKey k c && !isAN k)
  | .ancestorOrSelf => all.filter (fun k => (isDescendantKey k c && !isAN k) || k == c)
  | .descendant => if isAN c then [] else tree.filter (fun k => isDescendantKey c k)
  | .descendantOrSelf => if isAN c then [c] else tree.filter (fun k => isDescendantKey c k || k == c)
  | .followingSibling =>
      if isAN c then [] else
      match parentKey c with
      | some p => (childKeys d p).filter (fun k => keyLt c k)
      | none => []
  | .precedingSibling =>
      if isAN c then [] else
      match parentKey c with
      | some p => (childKeys d p).filter (fun k => keyLt k c)
      | none => []
  | .following =>
      -- all nodes after the context node in document order, excluding descendants, attributes, namespaces
      tree.filter (fun k => keyLt c k && !isDescendantKey c k)
  | .preceding =>
      -- all nodes before the context node in document order, excluding ancestors, attributes, namespaces
      tree.filter (fun k => keyLt k c && !isDescendantKey k c)

def isReverse : Axis → Bool
  | .ancestor | .ancestorOrSelf | .preceding | .precedingSibling => true
  | _ => false

/-- principal node type of an axis (2.3) -/
def principal : Axis → Kind
  | .attribute => .attr
  | .namespace => .ns
  | _ => .elem

def kindOf (d : XDoc) (k : Key) : Kind := match lookup d k with | some t => t.kind | none => .root

/-- caller's binding of a prefix -/
def bindingOf (env : Env) (p : Option Str) : Option Str := (env.ns.find? (·.1 == p)).map (·.2)

/-- node test (2.3); `none` = error (unbound prefix) -/
def nodeTest (env : Env) (a : Axis) (t : NodeTest) (k : Key) : Except XPErr Bool :=
  let d := env.doc
  match t with
  | .node => .ok true
  | .text => .ok (kindOf d k == .text)
  | .comment => .ok (kindOf d k == .comment)
  | .pi none => .ok (kindOf d k == .pi)
  | .pi (some lit) => .ok (kindOf d k == .pi && (expandedName d k).map (·.1) == some lit)
  | .any => .ok (kindOf d k == principal a)
  | .nsAny p =>
      (match bindingOf env (some p) with
       | none => .error .nons
       | some uri => .ok (kindOf d k == principal a && (expandedName d k).map (·.2) == some uri))
  | .name q =>
      (match q.pre with
       | some p =>
           -- the prefix is looked up only for nodes of the principal node type (as the library does)
           if kindOf d k != principal a then .ok false else
           (match bindingOf env (some p) with
            | none => .error .nons
            | some uri => .ok (expandedName d k == some (q.loc, uri)))
       | none =>
           -- no prefix: null namespace URI (the caller's default element namespace, if bound, applies
           -- to element name tests only — library extension kept from `Context::add_ns(None, _)`)
           let uri := if principal a == .elem then (bindingOf env none).getD [] else []
           .ok (kindOf d k == principal a && expandedName d k == some (q.loc, uri)))

/-- a node-set in canonical form: document order, no duplicates -/
def normalize (d : XDoc) (ks : List Key) : List Key := (allKeys d).filter (fun k => ks.contains k)

/-! ### conversions (4.2 string, 4.3 boolean, 4.4 number) -/

def toStr (d : XDoc) : Value → Str
  | .bool b => if b then "true".toList else "false".toList
  | .num x => if d.negZeroQuirk && x == zeroBits true then "-0".toList else fmtNum x
  | .str s => s
  | .nodes ks => match ks with | k :: _ => strVal d k | [] => []

def toBool : Value → Bool
  | .bool b => b
  | .num x => !(isNaN x || eqB x 0)
  | .str s => !s.isEmpty
  | .nodes ks => !ks.isEmpty

def toNum (d : XDoc) : Value → Bits
  | .bool b => if b then ofNat 1 else 0
  | .num x => x
  | .str s => parseNum s
  | .nodes ks => parseNum (toStr d (.nodes ks))

/-! ### comparisons (3.4) -/

inductive Cmp where | eq | ne | lt | le | gt | ge deriving DecidableEq

def cmpNum (op : Cmp) (a b : Bits) : Bool :=
  match op with
  | .eq => eqB a b
  | .ne => !eqB a b            -- NaN != x is true
  | .lt => ltB a b
  | .le => leB a b
  | .gt => ltB b a
  | .ge => leB b a

def flipCmp : Cmp → Cmp
  | .lt => .gt | .le => .ge | .gt => .lt | .ge => .le | c => c

/-- comparison of two values neither of which is a node-set -/
def cmpScalar (d : XDoc) (op : Cmp) (a b : Value) : Bool :=
  match op with
  | .eq | .ne =>
    let r := match a, b with
      | .bool x, _ => x == toBool b
      | _, .bool y => toBool a == y
      | .num x, _ => eqB x (toNum d b)
      | _, .num y => eqB (toNum d a) y
      | _, _ => toStr d a == toStr d b
    if op == .eq then r else !r
  | _ => cmpNum op (toNum d a) (toNum d b)

def compare (d : XDoc) (op : Cmp) (a b : Value) : Bool :=
  match a, b with
  | .nodes xs, .nodes ys =>
      xs.any fun x => ys.any fun y =>
        (match op with
         | .eq => strVal d x == strVal d y
         | .ne => strVal d x != strVal d y
         | _ => cmpNum op (parseNum (strVal d x)) (parseNum (strVal d y)))
  | .nodes xs, .bool y => cmpScalar d op (.bool (!xs.isEmpty)) (.bool y)
  | .bool x, .nodes ys => cmpScalar d op (.bool x) (.bool (!ys.isEmpty))
  | .nodes xs, .num y => xs.any fun x => cmpNum op (parseNum (strVal d x)) y
  | .num x, .nodes ys => ys.any fun y => cmpNum op x (parseNum (strVal d y))
  | .nodes xs, .str y => xs.any fun x => cmpScalar d op (.str (strVal d x)) (.str y)
  | .str x, .nodes ys => ys.any fun y => cmpScalar d op (.str x) (.str (strVal d y))
  | _, _ => cmpScalar d op a b

/-! ### the core function library (4) on strings -/

def startsWithS (s p : Str) : Bool := (stripPrefix p s).isSome
def containsS (s p : Str) : Bool := (findSub p s).isSome
def substringBefore (s p : Str) : Str := match findSub p s with | some i => s.take i | none => []
def substringAfter (s p : Str) : Str := match findSub p s with | some i => s.drop (i + p.length) | none => []

/-- 4.2 substring: the characters whose position i (from 1) satisfies
    round(p) <= i  and, with a third argument,  i < round(p) + round(l)  — in IEEE arithmetic -/
def substringS (s : Str) (p : Bits) (l : Option Bits) : Str :=
  let rp := roundB p
  let stop := l.map fun x => addB rp (roundB x)
  let rec go : Str → Nat → Str
    | [], _ => []
    | c :: r, i =>
      let fi := ofNat i
      if leB rp fi && (match stop with | some e => ltB fi e | none => true) then c :: go r (i + 1) else go r (i + 1)
  go s 1

/-- 4.2 normalize-space: strip leading and trailing white space (#x20 #x9 #xD #xA), collapse runs -/
def normalizeSpace (s : Str) : Str :=
  let rec go : Str → Bool → Str
    | [], _ => []
    | c :: r, pend => if isXmlWs c then go r true else (if pend then ' ' :: c :: go r false else c :: go r false)
  match s.dropWhile isXmlWs with
  | [] => []
  | c :: r => c :: go r false

/-- 4.2 translate: first occurrence in `from` decides; no counterpart in `to` = removed -/
def translateS (s frm to : Str) : Str :=
  s.filterMap fun c =>
    match frm.findIdx? (· == c) with
    | none => some c
    | some i => to[i]?

def lowerAsciiC (c : Char) : Char := if 'A' ≤ c && c ≤ 'Z' then Char.ofNat (c.toNat + 32) else c

/-- 4.3 lang: the nearest xml:lang on the ancestor-or-self axis equals the argument ignoring case,
    or has it as a prefix followed by '-' -/
def langMatches (value arg : Str) : Bool :=
  let v := value.map lowerAsciiC
  let a := arg.map lowerAsciiC
  v == a || (match stripPrefix a v with | some ('-' :: _) => true | _ => false)

def xmlLangOf (d : XDoc) (k : Key) : Option Str :=
  match lookup d k with
  | some (.node (.elem _ _ as _)) => (as.find? fun (q, _) => q.pre == some "xml".toList && q.loc == "lang".toList).map (·.2)
  | _ => none

def langF (d : XDoc) (c : Key) (arg : Str) : Bool :=
  let start : Key := if isAN c then (parentKey c).getD [] else c
  let chain := ((allKeys d).filter (fun k => (isDescendantKey k start && !isAN k) || k == start)).reverse
  match chain.findSome? (xmlLangOf d) with
  | some v => langMatches v arg
  | none => false

/-- arity table of the core library (4): (name, min, max); `none` = unbounded -/
def funcTable : List (String × Nat × Option Nat) :=
  [("last", 0, some 0), ("position", 0, some 0), ("count", 1, some 1), ("id", 1, some 1),
   ("local-name", 0, some 1), ("namespace-uri", 0, some 1), ("name", 0, some 1),
   ("string", 0, some 1), ("concat", 2, none), ("starts-with", 2, some 2), ("contains", 2, some 2),
   ("substring-before", 2, some 2), ("substring-after", 2, some 2), ("substring", 2, some 3),
   ("string-length", 0, some 1), ("normalize-space", 0, some 1), ("translate", 3, some 3),
   ("boolean", 1, some 1), ("not", 1, some 1), ("true", 0, some 0), ("false", 0, some 0),
   ("lang", 1, some 1), ("number", 0, some 1), ("sum", 1, some 1), ("floor", 1, some 1),
   ("ceiling", 1, some 1), ("round", 1, some 1)]

def nodesArg (c : Ctx) : List Value → Except XPErr (List Key)
  | [] => .ok [c.node]
  | [.nodes ks] => .ok ks
  | _ => .error .type

def applyFunc (env : Env) (c : Ctx) (name : String) (args : List Value) : Except XPErr Value :=
  let d := env.doc
  let strArg0 : Str := match args with | a :: _ => toStr d a | [] => strVal d c.node
  let s (i : Nat) : Str := toStr d (args.getD i (.str []))
  let n (i : Nat) : Bits := toNum d (args.getD i (.str []))
  match name with
  | "last" => .ok (.num (ofNat c.size))
  | "position" => .ok (.num (ofNat c.pos))
  | "count" => (match args with | [.nodes ks] => .ok (.num (ofNat ks.length)) | _ => .error .type)
  | "id" => if d.hasDoctype then .error .unsupported else .ok (.nodes [])
  | "local-name" => (match nodesArg c args with
      | .ok (k :: _) => .ok (.str (((expandedName d k).map (·.1)).getD []))
      | .ok [] => .ok (.str [])
      | .error e => .error e)
  | "namespace-uri" => (match nodesArg c args with
      | .ok (k :: _) => .ok (.str (((expandedName d k).map (·.2)).getD []))
      | .ok [] => .ok (.str [])
      | .error e => .error e)
  | "name" => (match nodesArg c args with
      | .ok (k :: _) => .ok (.str (qnameOf d k))
      | .ok [] => .ok (.str [])
      | .error e => .error e)
  | "string" => .ok (.str strArg0)
  | "concat" => .ok (.str (args.flatMap (toStr d)))
  | "starts-with" => .ok (.bool (startsWithS (s 0) (s 1)))
  | "contains" => .ok (.bool (containsS (s 0) (s 1)))
  | "substring-before" => .ok (.str (substringBefore (s 0) (s 1)))
  | "substring-after" => .ok (.str (substringAfter (s 0) (s 1)))
  | "substring" => .ok (.str (substringS (s 0) (n 1) (if args.length ≥ 3 then some (n 2) else none)))
  | "string-length" => .ok (.num (ofNat strArg0.length))
  | "normalize-space" => .ok (.str (normalizeSpace strArg0))
  | "translate" => .ok (.str (translateS (s 0) (s 1) (s 2)))
  | "boolean" => .ok (.bool (toBool (args.getD 0 (.bool false))))
  | "not" => .ok (.bool (!toBool (args.getD 0 (.bool false))))
  | "true" => .ok (.bool true)
  | "false" => .ok (.bool false)
  | "lang" => .ok (.bool (langF d c.node (s 0)))
  | "number" => .ok (.num (match args with | a :: _ => toNum d a | [] => parseNum (strVal d c.node)))
  | "sum" => (match args with
      | [.nodes ks] => .ok (.num (ks.foldl (fun acc k => addB acc (parseNum (strVal d k))) 0))
      | _ => .error .type)
  | "floor" => .ok (.num (floorB (n 0)))
  | "ceiling" => .ok (.num (ceilB (n 0)))
  | "round" => .ok (.num (roundB (n 0)))
  | _ => .error .nofunc

/-! ### expressions (3) and location paths (2) -/

def cmpOf : BinOp → Option Cmp
  | .eq => some .eq | .ne => some .ne | .lt => some .lt | .le => some .le | .gt => some .gt | .ge => some .ge
  | _ => none

mutual
def eval (env : Env) : Expr → Ctx → Except XPErr Value
  | .lit s, _ => .ok (.str s)
  | .num s, _ => .ok (.num (parseNum s))
  | .var _, _ => .error .unsupported
  | .neg e, c => (match eval env e c with
      | .ok v => .ok (.num (negB (toNum env.doc v)))
      | .error x => .error x)
  | .bin op a b, c =>
      (match op with
       | .or => (match eval env a c with
           | .error x => .error x
           | .ok va => if toBool va then .ok (.bool true) else
               match eval env b c with | .ok vb => .ok (.bool (toBool vb)) | .error x => .error x)
       | .and => (match eval env a c with
           | .error x => .error x
           | .ok va => if !toBool va then .ok (.bool false) else
               match eval env b c with | .ok vb => .ok (.bool (toBool vb)) | .error x => .error x)
       | _ =>
         match eval env a c with
         | .error x => .error x
         | .ok va => match eval env b c with
           | .error x => .error x
           | .ok vb =>
             let d := env.doc
             match op with
             | .union => (match va, vb with
                 | .nodes xs, .nodes ys => .ok (.nodes (normalize d (xs ++ ys)))
                 | _, _ => .error .type)
             | .add => .ok (.num (addB (toNum d va) (toNum d vb)))
             | .sub => .ok (.num (subB (toNum d va) (toNum d vb)))
             | .mul => .ok (.num (mulB (toNum d va) (toNum d vb)))
             | .div => .ok (.num (divB (toNum d va) (toNum d vb)))
             | .mod => .ok (.num (modB (toNum d va) (toNum d vb)))
             | _ => match cmpOf op with
                 | some cp => .ok (.bool (compare d cp va vb))
                 | none => .error .type)
  | .call f args, c =>
      (match f.pre with
       | some p => if (bindingOf env (some p)).isSome then .error .nofunc else .error .nons
       | none =>
         let name := String.ofList f.loc
         match funcTable.find? (·.1 == name) with
         | none => .error .nofunc
         | some (_, lo, hi) =>
           if args.length < lo || (match hi with | some h => args.length > h | none => false) then .error .arity
           else match evalArgs env args c with
             | .error x => .error x
             | .ok vs => applyFunc env c name vs)
  | .filter e preds, c =>
      (match eval env e c with
       | .error x => .error x
       | .ok (.nodes ks) => (match filterPreds env preds false ks with
           | .ok r => .ok (.nodes (normalize env.doc r))
           | .error x => .error x)
       | .ok _ => .error .type)
  | .path start abs steps, c =>
      let first : Except XPErr (List Key) := match start with
        | some e => (match eval env e c with
            | .ok (.nodes ks) => .ok ks
            | .ok _ => .error .type
            | .error x => .error x)
        | none => .ok (if abs then [[]] else [c.node])
      (match first with
       | .error x => .error x
       | .ok ks => match evalSteps env steps (normalize env.doc ks) with
           | .ok r => .ok (.nodes r)
           | .error x => .error x)
def evalArgs (env : Env) : List Expr → Ctx → Except XPErr (List Value)
  | [], _ => .ok []
  | e :: r, c => match eval env e c with
      | .error x => .error x
      | .ok v => match evalArgs env r c with
          | .ok vs => .ok (v :: vs)
          | .error x => .error x
/-- apply the steps one after the other to a node-set (each result normalised) -/
def evalSteps (env : Env) : List Step → List Key → Except XPErr (List Key)
  | [], ks => .ok ks
  | st :: r, ks => match evalStepOn env st ks with
      | .error x => .error x
      | .ok ks' => evalSteps env r (normalize env.doc ks')
/-- one step from every node of a node-set (union of the results) -/
def evalStepOn (env : Env) : Step → List Key → Except XPErr (List Key)
  | _, [] => .ok []
  | st, k :: r => match evalStep env st k with
      | .error x => .error x
      | .ok a => match evalStepOn env st r with
          | .ok b => .ok (a ++ b)
          | .error x => .error x
/-- one step from one context node: axis, node test, then the predicates with proximity positions
    counted along the axis direction -/
def evalStep (env : Env) : Step → Key → Except XPErr (List Key)
  | .mk axis test preds, k =>
      let cand := axisKeys env.doc axis k
      let rec tests : List Key → Except XPErr (List Key)
        | [] => .ok []
        | x :: r => match nodeTest env axis test x with
            | .error e => .error e
            | .ok b => match tests r with
                | .ok xs => .ok (if b then x :: xs else xs)
                | .error e => .error e
      match tests cand with
      | .error e => .error e
      | .ok sel => filterPreds env preds (isReverse axis) sel
/-- predicates one after the other; `rev`: positions count in reverse document order -/
def filterPreds (env : Env) : List Expr → Bool → List Key → Except XPErr (List Key)
  | [], _, ks => .ok ks
  | p :: r, rev, ks =>
      let ordered := if rev then ks.reverse else ks
      match filterOne env p ordered 1 ordered.length with
      | .error x => .error x
      | .ok kept => filterPreds env r rev (if rev then kept.reverse else kept)
/-- one predicate over an ordered list: position i of n -/
def filterOne (env : Env) : Expr → List Key → Nat → Nat → Except XPErr (List Key)
  | _, [], _, _ => .ok []
  | p, k :: r, i, n =>
      match eval env p ⟨k, i, n⟩ with
      | .error x => .error x
      | .ok v =>
        let keep := match v with
          | .num x => eqB x (ofNat i)        -- a number is true iff it equals the context position
          | _ => toBool v
        match filterOne env p r (i + 1) n with
        | .ok ks => .ok (if keep then k :: ks else ks)
        | .error x => .error x
end

/-- `query`: parse, evaluate at the root node; the initial context position and size are 0 (the
    library's choice for an expression evaluated outside any predicate) -/
inductive QErr where
  | syntax | remain | fuel | eval (e : XPErr)
  deriving DecidableEq, Repr

def query (env : Env) (s : Str) : Except QErr Value :=
  match parseExpr s with
  | .error .syntax => .error .syntax
  | .error .remain => .error .remain
  | .error .fuel => .error .fuel
  | .ok e => match eval env e ⟨[], 0, 0⟩ with
      | .ok v => .ok v
      | .error x => .error (.eval x)

/-- `query` over the reviewed expression grammar -/
def queryRef (env : Env) (s : Str) : Except QErr Value :=
  match parseExprRef s with
  | .error .syntax => .error .syntax
  | .error .remain => .error .remain
  | .error .fuel => .error .fuel
  | .ok e => match eval env e ⟨[], 0, 0⟩ with
      | .ok v => .ok v
      | .error x => .error (.eval x)

end XmlRs.XPath
