import XmlRsModel.XPath.Ast
import XmlRsModel.Concrete
/-! Concrete XPath expressions: the abstract syntax together with every choice a spelling makes - abbreviated or
    unabbreviated steps, white space between tokens, redundant parentheses, quote characters.  The constructors mirror
    the layers of the expression grammar (or < and < equality < relational < additive < multiplicative < unary < union
    < path < filter < primary), so a concrete expression determines where parentheses stand.  `str` writes a concrete
    expression, `erase` gives the abstract syntax it denotes; used to state completeness of the XPath parser
    (property C08: every spelling of an expression is parsed to that expression). -/
namespace XmlRs.XPath
open XmlRs

inductive CAxis where
  /-- `axisname` ws `::` -/
  | named (a : Axis) (w : Str)
  /-- `@` -/
  | attr
  /-- omitted (`child::`) -/
  | omitted
  deriving Inhabited

inductive NodeType where
  | comment | text | pi | node
  deriving DecidableEq, Inhabited

inductive CTest where
  | star
  | nsStar (p : Str)
  | name (q : QN)
  /-- `text` w1 `(` w2 `)` -/
  | typeTest (t : NodeType) (w1 w2 : Str)
  /-- `processing-instruction` w1 `(` w2 literal w3 `)` -/
  | piLit (w1 w2 : Str) (q : Char) (s : Str) (w3 : Str)
  deriving Inhabited

mutual
inductive CX where
  /-- `lvl` 0..5 = or, and, equality, relational, additive, multiplicative: operand (ws op ws operand)* -/
  | chain (lvl : Nat) (first : CX) (rest : CXTail)
  /-- (`-` ws)* union-expression -/
  | unary (minus : List Str) (e : CX)
  /-- path (ws `|` ws path)* -/
  | union (first : CX) (rest : CXTail)
  /-- a filter expression alone -/
  | pathF (f : CX)
  /-- filter w1 (`/` | `//`) w2 relative-path -/
  | pathFR (f : CX) (w1 : Str) (ds : Bool) (w2 : Str) (rel : CRel)
  /-- (`/` | `//`) w relative-path -/
  | pathAbs (ds : Bool) (w : Str) (rel : CRel)
  | pathRel (rel : CRel)
  /-- `/` -/
  | pathRoot
  /-- primary (ws predicate)* -/
  | filter (p : CX) (preds : CPreds)
  | var (q : QN)
  /-- `(` w1 expr w2 `)` -/
  | paren (w1 : Str) (e : CX) (w2 : Str)
  | lit (q : Char) (s : Str)
  | num (s : Str)
  /-- name w1 `(` w2 args w3 `)` -/
  | call (f : QN) (w1 w2 : Str) (args : CArgs) (w3 : Str)
inductive CXTail where
  | nil
  | cons (w1 : Str) (op : BinOp) (w2 : Str) (e : CX) (t : CXTail)
inductive CArgs where
  | none
  | some (first : CX) (rest : CArgTail)
inductive CArgTail where
  | nil
  | cons (w1 w2 : Str) (e : CX) (t : CArgTail)
inductive CRel where
  | mk (first : CStep) (rest : CRelTail)
inductive CRelTail where
  | nil
  | cons (w1 : Str) (ds : Bool) (w2 : Str) (s : CStep) (t : CRelTail)
inductive CStep where
  | dot
  | dotdot
  /-- axis ws node-test predicates -/
  | full (ax : CAxis) (w : Str) (test : CTest) (preds : CPreds)
inductive CPreds where
  | nil
  /-- w `[` w1 expr w2 `]` -/
  | cons (w w1 : Str) (e : CX) (w2 : Str) (t : CPreds)
end

/-! ### writing -/
def axisText : Axis → Str
  | .ancestorOrSelf => ['a', 'n', 'c', 'e', 's', 't', 'o', 'r', '-', 'o', 'r', '-', 's', 'e', 'l', 'f']
  | .ancestor => ['a', 'n', 'c', 'e', 's', 't', 'o', 'r']
  | .attribute => ['a', 't', 't', 'r', 'i', 'b', 'u', 't', 'e']
  | .child => ['c', 'h', 'i', 'l', 'd']
  | .descendantOrSelf => ['d', 'e', 's', 'c', 'e', 'n', 'd', 'a', 'n', 't', '-', 'o', 'r', '-', 's', 'e', 'l', 'f']
  | .descendant => ['d', 'e', 's', 'c', 'e', 'n', 'd', 'a', 'n', 't']
  | .followingSibling => ['f', 'o', 'l', 'l', 'o', 'w', 'i', 'n', 'g', '-', 's', 'i', 'b', 'l', 'i', 'n', 'g']
  | .following => ['f', 'o', 'l', 'l', 'o', 'w', 'i', 'n', 'g']
  | .namespace => ['n', 'a', 'm', 'e', 's', 'p', 'a', 'c', 'e']
  | .parent => ['p', 'a', 'r', 'e', 'n', 't']
  | .precedingSibling => ['p', 'r', 'e', 'c', 'e', 'd', 'i', 'n', 'g', '-', 's', 'i', 'b', 'l', 'i', 'n', 'g']
  | .preceding => ['p', 'r', 'e', 'c', 'e', 'd', 'i', 'n', 'g']
  | .self => ['s', 'e', 'l', 'f']

def opText : BinOp → Str
  | .or => ['o', 'r'] | .and => ['a', 'n', 'd'] | .eq => ['='] | .ne => ['!', '=']
  | .lt => ['<'] | .le => ['<', '='] | .gt => ['>'] | .ge => ['>', '=']
  | .add => ['+'] | .sub => ['-'] | .mul => ['*'] | .div => ['d', 'i', 'v'] | .mod => ['m', 'o', 'd']
  | .union => ['|']

/-- the grammar layer of a binary operator (`union` has its own production) -/
def opLevel : BinOp → Nat
  | .or => 0 | .and => 1 | .eq => 2 | .ne => 2 | .lt => 3 | .le => 3 | .gt => 3 | .ge => 3
  | .add => 4 | .sub => 4 | .mul => 5 | .div => 5 | .mod => 5 | .union => 7

def typeText : NodeType → Str
  | .comment => ['c', 'o', 'm', 'm', 'e', 'n', 't']
  | .text => ['t', 'e', 'x', 't']
  | .pi => ['p', 'r', 'o', 'c', 'e', 's', 's', 'i', 'n', 'g', '-', 'i', 'n', 's', 't', 'r', 'u', 'c', 't', 'i', 'o', 'n']
  | .node => ['n', 'o', 'd', 'e']

def CAxis.str : CAxis → Str
  | .named a w => axisText a ++ (w ++ [':', ':'])
  | .attr => ['@']
  | .omitted => []

def CTest.str : CTest → Str
  | .star => ['*']
  | .nsStar p => p ++ [':', '*']
  | .name q => q.text
  | .typeTest t w1 w2 => typeText t ++ (w1 ++ ('(' :: (w2 ++ [')'])))
  | .piLit w1 w2 q s w3 => typeText .pi ++ (w1 ++ ('(' :: (w2 ++ (q :: (s ++ (q :: (w3 ++ [')'])))))))

def slashText (ds : Bool) : Str := if ds then ['/', '/'] else ['/']

def minusText : List Str → Str
  | [] => []
  | w :: r => '-' :: (w ++ minusText r)

mutual
def CX.str : CX → Str
  | .chain _ f r => f.str ++ r.str
  | .unary ms e => minusText ms ++ e.str
  | .union f r => f.str ++ r.str
  | .pathF f => f.str
  | .pathFR f w1 ds w2 rel => f.str ++ (w1 ++ (slashText ds ++ (w2 ++ rel.str)))
  | .pathAbs ds w rel => slashText ds ++ (w ++ rel.str)
  | .pathRel rel => rel.str
  | .pathRoot => ['/']
  | .filter p preds => p.str ++ preds.str
  | .var q => '$' :: q.text
  | .paren w1 e w2 => '(' :: (w1 ++ (e.str ++ (w2 ++ [')'])))
  | .lit q s => q :: (s ++ [q])
  | .num s => s
  | .call f w1 w2 args w3 => f.text ++ (w1 ++ ('(' :: (w2 ++ (args.str ++ (w3 ++ [')'])))))
def CXTail.str : CXTail → Str
  | .nil => []
  | .cons w1 op w2 e t => w1 ++ (opText op ++ (w2 ++ (e.str ++ t.str)))
def CArgs.str : CArgs → Str
  | .none => []
  | .some f r => f.str ++ r.str
def CArgTail.str : CArgTail → Str
  | .nil => []
  | .cons w1 w2 e t => w1 ++ (',' :: (w2 ++ (e.str ++ t.str)))
def CRel.str : CRel → Str
  | .mk f r => f.str ++ r.str
def CRelTail.str : CRelTail → Str
  | .nil => []
  | .cons w1 ds w2 s t => w1 ++ (slashText ds ++ (w2 ++ (s.str ++ t.str)))
def CStep.str : CStep → Str
  | .dot => ['.']
  | .dotdot => ['.', '.']
  | .full ax w test preds => ax.str ++ (w ++ (test.str ++ preds.str))
def CPreds.str : CPreds → Str
  | .nil => []
  | .cons w w1 e w2 t => w ++ ('[' :: (w1 ++ (e.str ++ (w2 ++ (']' :: t.str)))))
end

/-! ### the abstract syntax a concrete expression denotes -/
def CAxis.erase : CAxis → Axis
  | .named a _ => a
  | .attr => .attribute
  | .omitted => .child

def CTest.erase : CTest → NodeTest
  | .star => .any
  | .nsStar p => .nsAny p
  | .name q => .name q
  | .typeTest .comment _ _ => .comment
  | .typeTest .text _ _ => .text
  | .typeTest .pi _ _ => .pi none
  | .typeTest .node _ _ => .node
  | .piLit _ _ _ s _ => .pi (some s)

mutual
def CX.erase : CX → Expr
  | .chain _ f r => r.erase f.erase
  | .unary ms e => ms.foldl (fun acc _ => .neg acc) e.erase
  | .union f r => r.erase f.erase
  | .pathF f => f.erase
  | .pathFR f _ ds _ rel => .path (some f.erase) false ((if ds then [dosStep] else []) ++ rel.erase)
  | .pathAbs ds _ rel => .path none true ((if ds then [dosStep] else []) ++ rel.erase)
  | .pathRel rel => .path none false rel.erase
  | .pathRoot => .path none true []
  | .filter p preds => match preds with
      | .nil => p.erase
      | .cons w w1 e w2 t => .filter p.erase ((CPreds.cons w w1 e w2 t).erase)
  | .var q => .var q
  | .paren _ e _ => e.erase
  | .lit _ s => .lit s
  | .num s => .num s
  | .call f _ _ args _ => .call f args.erase
/-- left-associative fold of the tail onto the accumulated left operand -/
def CXTail.erase : CXTail → Expr → Expr
  | .nil, acc => acc
  | .cons _ op _ e t, acc => t.erase (.bin op acc e.erase)
def CArgs.erase : CArgs → List Expr
  | .none => []
  | .some f r => f.erase :: r.erase
def CArgTail.erase : CArgTail → List Expr
  | .nil => []
  | .cons _ _ e t => e.erase :: t.erase
def CRel.erase : CRel → List Step
  | .mk f r => f.erase :: r.erase
def CRelTail.erase : CRelTail → List Step
  | .nil => []
  | .cons _ ds _ s t => (if ds then [dosStep] else []) ++ (s.erase :: t.erase)
def CStep.erase : CStep → Step
  | .dot => .mk .self .node []
  | .dotdot => .mk .parent .node []
  | .full ax _ test preds => .mk ax.erase test.erase preds.erase
def CPreds.erase : CPreds → List Expr
  | .nil => []
  | .cons _ _ e _ t => e.erase :: t.erase
end

/-! ### which concrete expressions are spellings (the lexical side conditions) -/
/-- operators whose first character could continue a name: white space must separate them from the left operand -/
def opNeedsSpace : BinOp → Bool
  | .sub | .div | .mod | .and | .or => true
  | _ => false

def okDigits (s : Str) : Bool := !s.isEmpty && s.all P.isDigit

/-- Number ::= Digits ('.' Digits?)? | '.' Digits -/
def okNumber (s : Str) : Bool :=
  match spanP P.isDigit s with
  | (a, []) => !a.isEmpty
  | (a, '.' :: r) => r.all P.isDigit && (!a.isEmpty || !r.isEmpty)
  | _ => false

def isNodeTypeName (q : QN) : Bool :=
  q.pre.isNone && (q.loc == typeText .comment || q.loc == typeText .text || q.loc == typeText .pi || q.loc == typeText .node)

def okAxis : CAxis → Bool
  | .named _ w => okWs w
  | _ => true

def okTest : CTest → Bool
  | .star => true
  | .nsStar p => okNc p
  | .name q => okQN q
  | .typeTest _ w1 w2 => okWs w1 && okWs w2
  | .piLit w1 w2 q s w3 => okWs w1 && okWs w2 && isQuote q && s.all (· != q) && okWs w3

/-- operators that may follow a bare `/` (after `/` a name or `*` would be read as a step) -/
def opRootSafe : BinOp → Bool
  | .or | .and | .div | .mod | .mul => false
  | _ => true

mutual
/-- the text of the expression ends with the bare `/` of the root path -/
def endsRoot : CX → Bool
  | .chain _ f r => endsRootTail (endsRoot f) r
  | .unary _ e => endsRoot e
  | .union f r => endsRootTail (endsRoot f) r
  | .pathRoot => true
  | _ => false
def endsRootTail : Bool → CXTail → Bool
  | b, .nil => b
  | _, .cons _ _ _ e t => endsRootTail (endsRoot e) t
end

mutual
/-- `okAt l e`: `e` is a well-formed spelling of the grammar layer `l` (0..5 chain layers, 6 unary, 7 union, 8 path,
    9 filter, 10 primary) -/
def okAt : Nat → CX → Bool
  | l, .chain l' f r => l == l' && l ≤ 5 && okAt (l + 1) f && okTail l (l + 1) (endsRoot f) r
  | l, .unary ms e => l == 6 && ms.all okWs && okAt 7 e
  | l, .union f r => l == 7 && okAt 8 f && okTail 7 8 (endsRoot f) r
  | l, .pathF f => l == 8 && okAt 9 f
  | l, .pathFR f w1 _ w2 rel => l == 8 && okAt 9 f && okWs w1 && okWs w2 && okRel rel
  | l, .pathAbs _ w rel => l == 8 && okWs w && okRel rel
  | l, .pathRel rel => l == 8 && okRel rel
  | l, .pathRoot => l == 8
  | l, .filter p preds => l == 9 && okAt 10 p && okPreds preds
  | l, .var q => l == 10 && okQN q
  | l, .paren w1 e w2 => l == 10 && okWs w1 && okAt 0 e && okWs w2
  | l, .lit q s => l == 10 && isQuote q && s.all (· != q)
  | l, .num s => l == 10 && okNumber s
  | l, .call f w1 w2 args w3 => l == 10 && okQN f && !isNodeTypeName f && okWs w1 && okWs w2 && okArgs args && okWs w3 &&
      (match args with | .none => w3.isEmpty | _ => true)
/-- the operators of a tail belong to layer `l`, the operands to layer `lo`; `prevRoot`: the operand in front ends with a
    bare `/` -/
def okTail : Nat → Nat → Bool → CXTail → Bool
  | _, _, _, .nil => true
  | l, lo, prevRoot, .cons w1 op w2 e t =>
      opLevel op == l && okWs w1 && (!opNeedsSpace op || !w1.isEmpty) && (!prevRoot || opRootSafe op) && okWs w2 && okAt lo e &&
      okTail l lo (endsRoot e) t
def okArgs : CArgs → Bool
  | .none => true
  | .some f r => okAt 0 f && okArgTail r
def okArgTail : CArgTail → Bool
  | .nil => true
  | .cons w1 w2 e t => okWs w1 && okWs w2 && okAt 0 e && okArgTail t
def okRel : CRel → Bool
  | .mk f r => okStep f && okRelTail r
def okRelTail : CRelTail → Bool
  | .nil => true
  | .cons w1 _ w2 s t => okWs w1 && okWs w2 && okStep s && okRelTail t
def okStep : CStep → Bool
  | .dot => true
  | .dotdot => true
  | .full ax w test preds => okAxis ax && okWs w && okTest test && okPreds preds &&
      -- an omitted axis: the node test starts the step
      (match ax with | .omitted => w.isEmpty | _ => true)
def okPreds : CPreds → Bool
  | .nil => true
  | .cons w w1 e w2 t => okWs w && okWs w1 && okAt 0 e && okWs w2 && okPreds t
end

/-! ### nesting depth of `Expr` (parentheses, predicates, function arguments): what `MAX_EXPR_DEPTH` limits -/
mutual
def CX.nest : CX → Nat
  | .chain _ f r => max f.nest r.nest
  | .unary _ e => e.nest
  | .union f r => max f.nest r.nest
  | .pathF f => f.nest
  | .pathFR f _ _ _ rel => max f.nest rel.nest
  | .pathAbs _ _ rel => rel.nest
  | .pathRel rel => rel.nest
  | .pathRoot => 0
  | .filter p preds => max p.nest preds.nest
  | .var _ => 0
  | .paren _ e _ => e.nest + 1
  | .lit _ _ => 0
  | .num _ => 0
  | .call _ _ _ args _ => args.nest
def CXTail.nest : CXTail → Nat
  | .nil => 0
  | .cons _ _ _ e t => max e.nest t.nest
def CArgs.nest : CArgs → Nat
  | .none => 0
  | .some f r => max (f.nest + 1) r.nest
def CArgTail.nest : CArgTail → Nat
  | .nil => 0
  | .cons _ _ e t => max (e.nest + 1) t.nest
def CRel.nest : CRel → Nat
  | .mk f r => max f.nest r.nest
def CRelTail.nest : CRelTail → Nat
  | .nil => 0
  | .cons _ _ _ s t => max s.nest t.nest
def CStep.nest : CStep → Nat
  | .dot => 0
  | .dotdot => 0
  | .full _ _ _ preds => preds.nest
def CPreds.nest : CPreds → Nat
  | .nil => 0
  | .cons _ _ e _ t => max (e.nest + 1) t.nest
end

/-- a whole expression -/
def CX.ok (e : CX) : Bool := okAt 0 e

end XmlRs.XPath
