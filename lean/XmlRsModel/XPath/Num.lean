import XmlRsModel.Basic
/-! XPath 1.0 numbers: IEEE 754 binary64 values handled through their BIT PATTERNS with exact
    natural-number arithmetic (no `Float`, so every function here reduces in the kernel):
    decoding, correctly rounded (nearest, ties to even) conversion from an exact rational, the four
    operations and `mod`, comparisons, `floor` / `ceiling` / `round` with XPath's tie rule, the
    `string()` conversion (shortest digits that read back, no exponent) and the `number()` conversion
    (XPath lexical form).  Import-free. -/
namespace XmlRs.XPath

/-- a binary64 bit pattern (always < 2^64) -/
abbrev Bits := Nat

/-- exact reading of a bit pattern: `fin neg m e` is (-1)^neg * m * 2^e -/
inductive Fl where
  | nan
  | inf (neg : Bool)
  | fin (neg : Bool) (m : Nat) (e : Int)
  deriving DecidableEq, Inhabited, Repr

def two52 : Nat := 4503599627370496
def two53 : Nat := 9007199254740992
def two63 : Nat := 9223372036854775808

def nanBits : Bits := 0x7FF8000000000000
def infBits (neg : Bool) : Bits := if neg then 0xFFF0000000000000 else 0x7FF0000000000000
def zeroBits (neg : Bool) : Bits := if neg then two63 else 0

def decode (b : Bits) : Fl :=
  let s := b / two63 % 2 == 1
  let ex := b / two52 % 2048
  let fr := b % two52
  if ex == 2047 then (if fr == 0 then .inf s else .nan)
  else if ex == 0 then .fin s fr (-1074)
  else .fin s (fr + two52) ((ex : Int) - 1075)

def pow2 (n : Nat) : Nat := 2 ^ n

/-- quotient rounded to nearest, ties to even -/
def divRoundEven (num den : Nat) : Nat :=
  let q := num / den
  let r := num % den
  if 2 * r > den || (2 * r == den && q % 2 == 1) then q + 1 else q

/-- the binary64 nearest to (-1)^neg * p / q  (q > 0), ties to even, overflow to infinity,
    gradual underflow -/
def ofRat (neg : Bool) (p q : Nat) : Bits :=
  if p == 0 then zeroBits neg else
  -- first guess of the exponent e with 2^52 <= p / (q * 2^e) < 2^53
  let e0 : Int := (p.log2 : Int) - (q.log2 : Int) - 52
  let scaled (e : Int) : Nat × Nat := if e ≥ 0 then (p, q * pow2 e.toNat) else (p * pow2 (-e).toNat, q)
  -- adjust the guess (at most two steps either way)
  let fix (e : Int) : Int :=
    let (n, d) := scaled e
    if n / d ≥ two53 then e + 1 else if n / d < two52 then e - 1 else e
  let e := fix (fix (fix e0))
  let e := if e < -1074 then -1074 else e
  let (n, d) := scaled e
  let m := divRoundEven n d
  let (m, e) := if m ≥ two53 then (two52, e + 1) else (m, e)
  let sign := if neg then two63 else 0
  if m < two52 then sign + m                     -- subnormal (e = -1074) or zero after rounding
  else
    let field := e + 1075
    if field ≥ 2047 then infBits neg
    else sign + field.toNat * two52 + (m - two52)

def ofNat (n : Nat) : Bits := ofRat false n 1
def ofInt (i : Int) : Bits := ofRat (i < 0) i.natAbs 1

/-- (-1)^neg * m * 2^e as a double -/
def ofDy (neg : Bool) (m : Nat) (e : Int) : Bits :=
  if e ≥ 0 then ofRat neg (m * pow2 e.toNat) 1 else ofRat neg m (pow2 (-e).toNat)

def isNaN (b : Bits) : Bool := decode b == .nan

def negB (b : Bits) : Bits := if isNaN b then nanBits else if b ≥ two63 then b - two63 else b + two63

/-- signed integer numerators over a common power of two -/
def align (m1 : Nat) (e1 : Int) (m2 : Nat) (e2 : Int) : Nat × Nat × Int :=
  let e := if e1 ≤ e2 then e1 else e2
  (m1 * pow2 (e1 - e).toNat, m2 * pow2 (e2 - e).toNat, e)

def addB (a b : Bits) : Bits :=
  match decode a, decode b with
  | .nan, _ => nanBits
  | _, .nan => nanBits
  | .inf s, .inf t => if s == t then infBits s else nanBits
  | .inf s, _ => infBits s
  | _, .inf t => infBits t
  | .fin s m1 e1, .fin t m2 e2 =>
    let (n1, n2, e) := align m1 e1 m2 e2
    let i1 : Int := if s then -(n1 : Int) else n1
    let i2 : Int := if t then -(n2 : Int) else n2
    let sum := i1 + i2
    if sum == 0 then zeroBits (s && t) else ofDy (sum < 0) sum.natAbs e

def subB (a b : Bits) : Bits := addB a (negB b)

def mulB (a b : Bits) : Bits :=
  match decode a, decode b with
  | .nan, _ => nanBits
  | _, .nan => nanBits
  | .inf s, .inf t => infBits (s != t)
  | .inf s, .fin t m _ => if m == 0 then nanBits else infBits (s != t)
  | .fin s m _, .inf t => if m == 0 then nanBits else infBits (s != t)
  | .fin s m1 e1, .fin t m2 e2 => ofDy (s != t) (m1 * m2) (e1 + e2)

def divB (a b : Bits) : Bits :=
  match decode a, decode b with
  | .nan, _ => nanBits
  | _, .nan => nanBits
  | .inf _, .inf _ => nanBits
  | .inf s, .fin t _ _ => infBits (s != t)
  | .fin s _ _, .inf t => zeroBits (s != t)
  | .fin s m1 e1, .fin t m2 e2 =>
    if m2 == 0 then (if m1 == 0 then nanBits else infBits (s != t))
    else
      let d := e1 - e2
      if d ≥ 0 then ofRat (s != t) (m1 * pow2 d.toNat) m2 else ofRat (s != t) m1 (m2 * pow2 (-d).toNat)

/-- XPath `mod`: the remainder of a truncating division, sign of the dividend (IEEE fmod / Java %) -/
def modB (a b : Bits) : Bits :=
  match decode a, decode b with
  | .nan, _ => nanBits
  | _, .nan => nanBits
  | .inf _, _ => nanBits
  | .fin _ _ _, .inf _ => a
  | .fin s m1 e1, .fin _ m2 e2 =>
    if m2 == 0 then nanBits else
    let (n1, n2, e) := align m1 e1 m2 e2
    let r := n1 % n2
    if r == 0 then zeroBits s else ofDy s r e

/-- exact comparison of two finite-or-infinite values as (numerator, numerator) over a common scale;
    `none` when unordered (NaN) -/
def cmpB (a b : Bits) : Option Ordering :=
  match decode a, decode b with
  | .nan, _ => none
  | _, .nan => none
  | .inf s, .inf t => some (if s == t then .eq else if s then .lt else .gt)
  | .inf s, _ => some (if s then .lt else .gt)
  | _, .inf t => some (if t then .gt else .lt)
  | .fin s m1 e1, .fin t m2 e2 =>
    let (n1, n2, _) := align m1 e1 m2 e2
    let i1 : Int := if s then -(n1 : Int) else n1
    let i2 : Int := if t then -(n2 : Int) else n2
    some (if i1 < i2 then .lt else if i1 == i2 then .eq else .gt)

def ltB (a b : Bits) : Bool := cmpB a b == some .lt
def leB (a b : Bits) : Bool := cmpB a b == some .lt || cmpB a b == some .eq
def eqB (a b : Bits) : Bool := cmpB a b == some .eq

/-- floor of m * 2^e (m, result natural numbers) and whether something was cut off -/
def floorDy (m : Nat) (e : Int) : Nat × Bool :=
  if e ≥ 0 then (m * pow2 e.toNat, false)
  else (m / pow2 (-e).toNat, m % pow2 (-e).toNat != 0)

def floorB (b : Bits) : Bits :=
  match decode b with
  | .fin neg m e =>
    let (n, frac) := floorDy m e
    if !frac then b                                  -- already an integer (also both zeros)
    else if neg then ofInt (-(n + 1 : Nat))
    else ofNat n
  | _ => b

def ceilB (b : Bits) : Bits :=
  match decode b with
  | .fin neg m e =>
    let (n, frac) := floorDy m e
    if !frac then b
    else if neg then (if n == 0 then zeroBits true else ofInt (-(n : Int)))
    else ofNat (n + 1)
  | _ => b

/-- XPath 4.4 `round`: the integer closest to the argument; of two equally close ones the one
    closest to positive infinity; NaN, infinities and zeros unchanged; an argument in [-0.5, 0)
    gives negative zero -/
def roundB (b : Bits) : Bits :=
  match decode b with
  | .fin neg m e =>
    let (n, frac) := floorDy m e
    if !frac then b else
    -- |x| = n + f with 0 < f < 1;  twice the fraction compared with 1
    let den := pow2 (-e).toNat
    let r := m % den
    if neg then
      -- x = -(n + f): round to -n when f <= 1/2 (tie goes up), else -(n+1)
      (if 2 * r ≤ den then (if n == 0 then zeroBits true else ofInt (-(n : Int))) else ofInt (-(n + 1 : Nat)))
    else
      (if 2 * r ≥ den then ofNat (n + 1) else ofNat n)
  | _ => b

/-! ### number -> string (XPath 4.2 `string`) -/

def natDigits (n : Nat) : Str := (Nat.toDigits 10 n)

/-- the positive rational p/q rounded to `k` significant decimal digits: (digits d, exponent x) with
    value d * 10^x, 10^(k-1) <= d < 10^k -/
def roundSig (p q k : Nat) : Nat × Int :=
  -- estimate of floor(log10(p/q)) from binary logarithms, then corrected
  let l2 : Int := (p.log2 : Int) - (q.log2 : Int)
  let x0 : Int := l2 * 30103 / 100000 - (k - 1 : Nat)
  let val (x : Int) : Nat × Nat := if x ≥ 0 then (p, q * 10 ^ x.toNat) else (p * 10 ^ (-x).toNat, q)
  let fix (x : Int) : Int :=
    let (n, d) := val x
    if n / d ≥ 10 ^ k then x + 1 else if n / d < 10 ^ (k - 1) then x - 1 else x
  let x := fix (fix (fix (fix x0)))
  let (n, d) := val x
  let dd := divRoundEven n d
  if dd ≥ 10 ^ k then (dd / 10, x + 1) else (dd, x)

def ofDec (neg : Bool) (d : Nat) (x : Int) : Bits :=
  if x ≥ 0 then ofRat neg (d * 10 ^ x.toNat) 1 else ofRat neg d (10 ^ (-x).toNat)

/-- shortest (d, x) with d * 10^x reading back as the same double -/
def shortest (b : Bits) (m : Nat) (e : Int) : Nat × Int :=
  let (p, q) : Nat × Nat := if e ≥ 0 then (m * pow2 e.toNat, 1) else (m, pow2 (-e).toNat)
  let rec go (k : Nat) (fuel : Nat) : Nat × Int :=
    match fuel with
    | 0 => roundSig p q 17
    | fuel+1 =>
      let (d, x) := roundSig p q k
      if ofDec false d x == b % two63 then (d, x) else go (k + 1) fuel
  go 1 17

def stripTrailingZeros (s : Str) : Str := (s.reverse.dropWhile (· == '0')).reverse

/-- positional notation without exponent: d * 10^x -/
def positional (d : Nat) (x : Int) : Str :=
  let ds := natDigits d
  if x ≥ 0 then ds ++ List.replicate x.toNat '0'
  else
    let f := (-x).toNat                      -- number of fraction digits
    if ds.length > f then
      let ip := ds.take (ds.length - f)
      let fp := stripTrailingZeros (ds.drop (ds.length - f))
      if fp.isEmpty then ip else ip ++ '.' :: fp
    else
      let fp := stripTrailingZeros (List.replicate (f - ds.length) '0' ++ ds)
      if fp.isEmpty then ['0'] else '0' :: '.' :: fp

def fmtNum (b : Bits) : Str :=
  match decode b with
  | .nan => "NaN".toList
  | .inf neg => if neg then "-Infinity".toList else "Infinity".toList
  | .fin neg m e =>
    if m == 0 then ['0'] else
    let (d, x) := shortest b m e
    (if neg then ['-'] else []) ++ positional d x

/-! ### string -> number (XPath 4.4 `number`): optional white space, optional minus, Number, optional
    white space; anything else NaN -/
def isXmlWs (c : Char) : Bool := c == ' ' || c == '\t' || c == '\r' || c == '\n'
def isDigitC (c : Char) : Bool := '0' ≤ c && c ≤ '9'

def digitsVal (s : Str) : Nat := s.foldl (fun acc c => acc * 10 + (c.toNat - 48)) 0

/-- Number ::= Digits ('.' Digits?)? | '.' Digits  — `none` if `s` is not of that form -/
def parseDecimal (s : Str) : Option (Nat × Nat) :=     -- (all digits as one number, count of fraction digits)
  let ip := (spanP isDigitC s).1
  let r := (spanP isDigitC s).2
  match r with
  | [] => if ip.isEmpty then none else some (digitsVal ip, 0)
  | '.' :: r' =>
    let fp := (spanP isDigitC r').1
    if !(spanP isDigitC r').2.isEmpty then none
    else if ip.isEmpty && fp.isEmpty then none
    else some (digitsVal (ip ++ fp), fp.length)
  | _ => none

def trimWs (s : Str) : Str := ((s.dropWhile isXmlWs).reverse.dropWhile isXmlWs).reverse

def splitSign (t : Str) : Bool × Str := match t with | '-' :: r => (true, r) | _ => (false, t)

def parseNum (s : Str) : Bits :=
  match parseDecimal (splitSign (trimWs s)).2 with
  | none => nanBits
  | some (n, f) => ofRat (splitSign (trimWs s)).1 n (10 ^ f)

/-- canonical text of a bit pattern for the line protocol (all NaNs are one value) -/
def canonBits (b : Bits) : Bits := if isNaN b then nanBits else b

end XmlRs.XPath
