import XmlRsModel.AttrNorm
/-! XPath 1.0 data model (Recommendation section 5) over an immutable tree.
    Nodes are addressed by *keys* (`List Nat`): the root is `[]`; the i-th child of the node with key
    `p` is `p ++ [i + 2]`; the i-th namespace node of element `p` is `p ++ [0, i]`; its i-th attribute
    is `p ++ [1, i]`.  Document order is then the lexicographic order of keys with "a proper prefix
    comes first": an element precedes its namespace nodes, which precede its attributes, which
    precede its children (section 5).  Import-free apart from the infoset model. -/
namespace XmlRs.XPath
open XmlRs

abbrev Key := List Nat

inductive XNode where
  | elem (name : QN) (ns : List (Str × Str)) (attrs : List (QN × Str)) (kids : List XNode)
  | text (s : Str)
  | comment (s : Str)
  | pi (target : Str) (data : Str)
  deriving Inhabited

/-- the root node's children -/
structure XDoc where
  kids : List XNode
  /-- the document has a document type declaration (id() is only answered without one) -/
  hasDoctype : Bool := false
  /-- recorded finding `negzero-string`: string() of negative zero is "-0" -/
  negZeroQuirk : Bool := false
  deriving Inhabited

def xmlNsUri : Str := "http://www.w3.org/XML/1998/namespace".toList

/-! ### construction from the information set (merged-text view) -/

/-- namespace declarations written on a start tag: (prefix, uri); the default namespace has prefix `[]` -/
def nsDeclsOf (t : EntTable) (attrs : List (Attr × Bool)) : List (Str × Str) :=
  attrs.filterMap fun (a, _) =>
    if a.name.pre == some xmlnsS then
      (match normalizedValue t none a.vals with | .ok v => some (a.name.loc, v) | .error _ => none)
    else if a.name.pre == none && a.name.loc == xmlnsS then
      (match normalizedValue t none a.vals with | .ok v => some ([], v) | .error _ => none)
    else none

/-- in-scope namespaces of an element: its own declarations override the inherited ones; `xmlns=""`
    undeclares the default namespace; sorted by nothing — kept in the order: own declarations (as
    written), then inherited ones -/
def inScope (own inherited : List (Str × Str)) : List (Str × Str) :=
  let merged := own ++ inherited.filter (fun p => !own.any (·.1 == p.1))
  merged.filter (fun p => !(p.1.isEmpty && p.2.isEmpty))

/-- text contributed by one content item in the merged-text view; `none` = not a text-like item.
    `wsQuirk`: the library expands an entity reference in content the way it does inside an attribute
    value (white space of the replacement text normalised); the Recommendation includes the
    replacement text verbatim -/
def expandEntContent (t : EntTable) (wsQuirk : Bool) : Nat → List Str → Str → Except XErr Str
  | 0, _, _ => .error .reference
  | fuel+1, open_, name =>
    if open_.contains name then .error .reference else
    match lookupEnt t name with
    | none => .error .reference
    | some (.external _ _ _) => .ok []
    | some (.internal vs) =>
      let rec go : List Piece → Except XErr Str
        | [] => .ok []
        | .text s :: r => (match go r with | .ok x => .ok ((if wsQuirk then normalizeWs s else s) ++ x) | .error e => .error e)
        | .charRef d h :: r => (match charOfRef d h with
            | none => .error .reference
            | some c => match go r with | .ok x => .ok (c :: x) | .error e => .error e)
        | .entRef n :: r => (match expandEntContent t wsQuirk fuel (name :: open_) n with
            | .error e => .error e
            | .ok a => match go r with | .ok x => .ok (a ++ x) | .error e => .error e)
        | .peRef _ :: _ => .error .unsupported
      go vs

def textOf (t : EntTable) (wsQuirk : Bool) : Item → Option (Except XErr Str)
  | .text s => some (.ok s)
  | .cdata s => some (.ok s)
  | .charRef d h => some (match charOfRef d h with | some c => .ok [c] | none => .error .reference)
  | .entRef n => some (expandEntContent t wsQuirk (t.length + 6) [] n)
  | _ => none

structure BuildCfg where
  dt : Option Doctype
  ents : EntTable
  wsQuirk : Bool
  reqQuirk : Bool

mutual
def buildItem (cfg : BuildCfg) (inherited : List (Str × Str)) : Item → Except XErr XNode
  | .elem n attrs kids =>
      let all := elemAttrs cfg.reqQuirk cfg.dt n attrs
      let own := nsDeclsOf cfg.ents all
      let scope := inScope own inherited
      let plain := all.filter (fun (a, _) => !xmlnsQ a.name)
      let rec vals : List (Attr × Bool) → Except XErr (List (QN × Str))
        | [] => .ok []
        | (a, _) :: r =>
          match normalizedValue cfg.ents (((attDefsFor cfg.dt n).find? (·.name == a.name)).map (·.ty)) a.vals with
          | .error e => .error e
          | .ok v => match vals r with | .ok vs => .ok ((a.name, v) :: vs) | .error e => .error e
      match vals plain with
      | .error e => .error e
      | .ok as => match buildItems cfg scope kids none with
          | .error e => .error e
          | .ok ks => .ok (.elem n scope as ks)
  | .comment s => .ok (.comment s)
  | .pi t d => .ok (.pi t (d.getD []))
  | .text s => .ok (.text s)
  | .cdata s => .ok (.text s)
  | .charRef _ _ => .ok (.text [])
  | .entRef _ => .ok (.text [])
/-- children with maximal runs of text-like items merged into one text node; `pending` is the text
    collected so far for the current run -/
def buildItems (cfg : BuildCfg) (scope : List (Str × Str)) : List Item → Option Str → Except XErr (List XNode)
  | [], none => .ok []
  | [], some s => .ok [.text s]
  | i :: r, pending =>
    match textOf cfg.ents cfg.wsQuirk i with
    | some (.error e) => .error e
    | some (.ok s) => buildItems cfg scope r (some (pending.getD [] ++ s))
    | none =>
      match buildItem cfg scope i with
      | .error e => .error e
      | .ok n => match buildItems cfg scope r none with
          | .error e => .error e
          | .ok ns => .ok ((match pending with | some s => [XNode.text s] | none => []) ++ n :: ns)
end

def defaultScope : List (Str × Str) := [("xml".toList, xmlNsUri)]

def buildDoc (wsQuirk reqQuirk : Bool) (d : IDoc) : Except XErr XDoc :=
  let dt := d.kids.findSome? fun | .doctype x => some x | _ => none
  let ents := match dt with | some x => entTableOf x | none => []
  let cfg : BuildCfg := ⟨dt, ents, wsQuirk, reqQuirk⟩
  let rec tops : List TopItem → Except XErr (List XNode)
    | [] => .ok []
    | .comment s :: r => (match tops r with | .ok x => .ok (.comment s :: x) | .error e => .error e)
    | .pi t dd :: r => (match tops r with | .ok x => .ok (.pi t (dd.getD []) :: x) | .error e => .error e)
    | .doctype _ :: r => tops r
    | .elem e :: r => (match buildItem cfg defaultScope e with
        | .error e => .error e
        | .ok n => match tops r with | .ok x => .ok (n :: x) | .error e => .error e)
  match tops d.kids with
  | .error e => .error e
  | .ok ks => .ok { kids := ks, hasDoctype := dt.isSome }

/-! ### navigation by key -/

inductive Kind where
  | root | elem | text | comment | pi | attr | ns
  deriving DecidableEq, Inhabited, Repr

/-- what a key denotes in a document -/
inductive Target where
  | root
  | node (n : XNode)
  | attr (owner : XNode) (name : QN) (value : Str)
  | ns (owner : XNode) (pre : Str) (uri : Str)
  deriving Inhabited

def XNode.kids : XNode → List XNode
  | .elem _ _ _ ks => ks
  | _ => []

def XNode.attrs : XNode → List (QN × Str)
  | .elem _ _ as _ => as
  | _ => []

def XNode.nss : XNode → List (Str × Str)
  | .elem _ ns _ _ => ns
  | _ => []

/-- resolve a key starting from a list of children -/
def lookupIn : List XNode → Key → Option Target
  | _, [] => none
  | ks, [i] => if i ≥ 2 then (ks[i - 2]?).map .node else none
  | ks, i :: j :: r =>
    if i ≥ 2 then
      match ks[i - 2]? with
      | none => none
      | some n =>
        if j == 0 then (match r with
          | [k] => (n.nss[k]?).map fun (p, u) => .ns n p u
          | _ => none)
        else if j == 1 then (match r with
          | [k] => (n.attrs[k]?).map fun (q, v) => .attr n q v
          | _ => none)
        else lookupIn n.kids (j :: r)
    else none

def lookup (d : XDoc) : Key → Option Target
  | [] => some .root
  | k => lookupIn d.kids k

def Target.kind : Target → Kind
  | .root => .root
  | .node (.elem _ _ _ _) => .elem
  | .node (.text _) => .text
  | .node (.comment _) => .comment
  | .node (.pi _ _) => .pi
  | .attr _ _ _ => .attr
  | .ns _ _ _ => .ns

mutual
/-- keys of a subtree in document order (pre-order; element, its namespace nodes, its attributes,
    its children); `withAN` includes namespace and attribute nodes -/
def keysOf (withAN : Bool) (k : Key) : XNode → List Key
  | .elem _ ns as ks =>
      k :: ((if withAN then (List.range ns.length).map (fun i => k ++ [0, i]) ++
                            (List.range as.length).map (fun i => k ++ [1, i]) else []) ++
            keysOfL withAN k 0 ks)
  | _ => [k]
def keysOfL (withAN : Bool) (k : Key) : Nat → List XNode → List Key
  | _, [] => []
  | i, n :: r => keysOf withAN (k ++ [i + 2]) n ++ keysOfL withAN k (i + 1) r
end

/-- every node of the document in document order -/
def allKeys (d : XDoc) : List Key := [] :: keysOfL true [] 0 d.kids

/-- document order on keys: lexicographic, a proper prefix first -/
def keyLt : Key → Key → Bool
  | [], [] => false
  | [], _ :: _ => true
  | _ :: _, [] => false
  | a :: as, b :: bs => a < b || (a == b && keyLt as bs)

def isPrefix : Key → Key → Bool
  | [], _ => true
  | _ :: _, [] => false
  | a :: as, b :: bs => a == b && isPrefix as bs

/-- the key of the parent (for attribute and namespace nodes: the owner element) -/
def parentKey : Key → Option Key
  | [] => none
  | k =>
    let n := k.length
    if n ≥ 2 && (k.getD (n - 2) 9 == 0 || k.getD (n - 2) 9 == 1) && n ≥ 3 then some (k.take (n - 2))
    else some (k.dropLast)

/-- is the key an attribute or namespace node key? (its second-to-last component is 0 or 1; child
    components are ≥ 2) -/
def isAN (k : Key) : Bool :=
  let n := k.length
  n ≥ 2 && (k.getD (n - 2) 9 == 0 || k.getD (n - 2) 9 == 1)

def childKeys (d : XDoc) (k : Key) : List Key :=
  match lookup d k with
  | some .root => (List.range d.kids.length).map fun i => [i + 2]
  | some (.node n) => (List.range n.kids.length).map fun i => k ++ [i + 2]
  | _ => []

def attrKeys (d : XDoc) (k : Key) : List Key :=
  match lookup d k with
  | some (.node n) => (List.range n.attrs.length).map fun i => k ++ [1, i]
  | _ => []

def nsKeys (d : XDoc) (k : Key) : List Key :=
  match lookup d k with
  | some (.node n) => (List.range n.nss.length).map fun i => k ++ [0, i]
  | _ => []

/-! ### string-value (section 5.1 - 5.7) -/
mutual
/-- concatenation of the string-values of all TEXT node descendants, in document order -/
def textDesc : XNode → Str
  | .elem _ _ _ ks => textDescL ks
  | .text s => s
  | .comment _ => []
  | .pi _ _ => []
def textDescL : List XNode → Str
  | [] => []
  | n :: r => textDesc n ++ textDescL r
end

def strValNode : XNode → Str
  | .elem _ _ _ ks => textDescL ks
  | .text s => s
  | .comment s => s
  | .pi _ d => d

def strVal (d : XDoc) (k : Key) : Str :=
  match lookup d k with
  | some .root => textDescL d.kids
  | some (.node n) => strValNode n
  | some (.attr _ _ v) => v
  | some (.ns _ _ u) => u
  | none => []

/-! ### expanded names (section 5; Namespaces in XML) -/

/-- (local part, namespace URI) — URI `[]` = null -/
def expandedName (d : XDoc) (k : Key) : Option (Str × Str) :=
  match lookup d k with
  | some (.node (.elem q ns _ _)) =>
      some (q.loc, match q.pre with
        | some p => ((ns.find? (·.1 == p)).map (·.2)).getD []
        | none => ((ns.find? (·.1.isEmpty)).map (·.2)).getD [])
  | some (.attr owner q _) =>
      some (q.loc, match q.pre with
        | some p => ((owner.nss.find? (·.1 == p)).map (·.2)).getD []
        | none => [])
  | some (.node (.pi t _)) => some (t, [])
  | some (.ns _ p _) => some (p, [])
  | _ => none

/-- `name()`: the QName as written -/
def qnameOf (d : XDoc) (k : Key) : Str :=
  match lookup d k with
  | some (.node (.elem q _ _ _)) => q.text
  | some (.attr _ q _) => q.text
  | some (.node (.pi t _)) => t
  | some (.ns _ p _) => p
  | _ => []

end XmlRs.XPath
