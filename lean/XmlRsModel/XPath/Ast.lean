import XmlRsModel.Infoset
import XmlRsModel.Gen.XPathGrammar
import XmlRsModel.Gen.XPathGrammarRef
/-! XPath 1.0 abstract syntax and its construction from the concrete syntax tree of the grammar that is
    GENERATED from `xpath/src/expr/mod.rs` (`Gen/XPathGrammar.lean`).  The abstraction reads the tree
    by production labels, not by position, so that a harmless restructuring of a production does not
    break it.  Abbreviations are expanded here exactly as the Recommendation defines them (2.5). -/
namespace XmlRs.XPath
open XmlRs
open Gen.XPath

inductive Axis where
  | ancestor | ancestorOrSelf | attribute | child | descendant | descendantOrSelf | following
  | followingSibling | namespace | parent | preceding | precedingSibling | self
  deriving DecidableEq, Inhabited, Repr

inductive NodeTest where
  | any                       -- `*`
  | nsAny (pre : Str)         -- `p:*`
  | name (q : QN)
  | comment | text | node
  | pi (target : Option Str)
  deriving DecidableEq, Inhabited

inductive BinOp where
  | or | and | eq | ne | lt | le | gt | ge | add | sub | mul | div | mod | union
  deriving DecidableEq, Inhabited, Repr

mutual
inductive Expr where
  | bin (op : BinOp) (a b : Expr)
  | neg (e : Expr)
  | lit (s : Str)
  | num (s : Str)
  | var (q : QN)
  | call (f : QN) (args : List Expr)
  /-- a primary expression followed by predicates -/
  | filter (e : Expr) (preds : List Expr)
  /-- `start = some e`: FilterExpr '/' RelativeLocationPath; otherwise a location path, absolute
      (from the root) or relative (from the context node) -/
  | path (start : Option Expr) (abs : Bool) (steps : List Step)
inductive Step where
  | mk (axis : Axis) (test : NodeTest) (preds : List Expr)
end

instance : Inhabited Expr := ⟨.lit []⟩
instance : Inhabited Step := ⟨.mk .self .node []⟩

/-- `//` is short for `/descendant-or-self::node()/` -/
def dosStep : Step := .mk .descendantOrSelf .node []

/-- the axis names of production [6], as character lists -/
def axisTable : List (Str × Axis) :=
  [(['a', 'n', 'c', 'e', 's', 't', 'o', 'r', '-', 'o', 'r', '-', 's', 'e', 'l', 'f'], .ancestorOrSelf),
   (['a', 'n', 'c', 'e', 's', 't', 'o', 'r'], .ancestor),
   (['a', 't', 't', 'r', 'i', 'b', 'u', 't', 'e'], .attribute),
   (['c', 'h', 'i', 'l', 'd'], .child),
   (['d', 'e', 's', 'c', 'e', 'n', 'd', 'a', 'n', 't', '-', 'o', 'r', '-', 's', 'e', 'l', 'f'], .descendantOrSelf),
   (['d', 'e', 's', 'c', 'e', 'n', 'd', 'a', 'n', 't'], .descendant),
   (['f', 'o', 'l', 'l', 'o', 'w', 'i', 'n', 'g', '-', 's', 'i', 'b', 'l', 'i', 'n', 'g'], .followingSibling),
   (['f', 'o', 'l', 'l', 'o', 'w', 'i', 'n', 'g'], .following),
   (['n', 'a', 'm', 'e', 's', 'p', 'a', 'c', 'e'], .namespace),
   (['p', 'a', 'r', 'e', 'n', 't'], .parent),
   (['p', 'r', 'e', 'c', 'e', 'd', 'i', 'n', 'g', '-', 's', 'i', 'b', 'l', 'i', 'n', 'g'], .precedingSibling),
   (['p', 'r', 'e', 'c', 'e', 'd', 'i', 'n', 'g'], .preceding),
   (['s', 'e', 'l', 'f'], .self)]

def axisOfStr (s : Str) : Axis := ((axisTable.find? (·.1 == s)).map (·.2)).getD .self

def axisOfName (s : String) : Axis := axisOfStr s.toList

def isWsStr (s : Str) : Bool := s.all fun c => c == ' ' || c == '\t' || c == '\r' || c == '\n'

/-- the non-white-space leaves and the labelled nodes of a production body, in order -/
def sigToks (c : CST) : List Tok := c.toks.filter fun | .leaf s => !isWsStr s | .node _ _ => true

def absQ (c : CST) : QN := absQName c      -- body of `qname`

def absNameTest (c : CST) : NodeTest :=   -- body of `name_test`
  match sigToks c with
  | [.leaf _] => .any
  | [.node _ p, .leaf _] => .nsAny p.flatten
  | [.node _ q] => .name (absQ q)
  | _ => .any

def absLiteral (c : CST) : Str := (c.flatten.drop 1).dropLast

mutual
def absExprF : Nat → CST → Expr          -- body of any of the expression-level productions, by label
  | 0, _ => .lit []
  | f+1, c =>
    match c.kidsL with
    | [(n, b)] =>
      -- a production that merely delegates (expr, argument, predicate_expr, parse)
      if c.toks.length == 1 then absNode f n b else absBody f c
    | _ => absBody f c
/-- dispatch on the label of a node -/
def absNode : Nat → Nat → CST → Expr
  | 0, _, _ => .lit []
  | f+1, n, b =>
    if n == N.or_expr then absChain f [(['o', 'r'], BinOp.or)] b
    else if n == N.and_expr then absChain f [(['a', 'n', 'd'], BinOp.and)] b
    else if n == N.equality_expr then absChain f [(['='], BinOp.eq), (['!', '='], BinOp.ne)] b
    else if n == N.relation_expr then absChain f [(['<', '='], BinOp.le), (['>', '='], BinOp.ge), (['<'], BinOp.lt), (['>'], BinOp.gt)] b
    else if n == N.additive_expr then absChain f [(['+'], BinOp.add), (['-'], BinOp.sub)] b
    else if n == N.multiplicative_expr then absChain f [(['*'], BinOp.mul), (['d', 'i', 'v'], BinOp.div), (['m', 'o', 'd'], BinOp.mod)] b
    else if n == N.union_expr then absChain f [(['|'], BinOp.union)] b
    else if n == N.unary_expr then
      let minus := (sigToks b).filter fun | .leaf _ => true | _ => false
      let inner := match (sigToks b).filterMap (fun | .node m x => some (m, x) | _ => none) with
        | [(m, x)] => absNode f m x
        | _ => .lit []
      minus.foldl (fun acc _ => .neg acc) inner
    else if n == N.path_expr then absPath f b
    else if n == N.filter_expr then absFilter f b
    else if n == N.primary_expr then absPrimary f b
    else if n == N.function_call then absCall f b
    else if n == N.literal then .lit (absLiteral b)
    else if n == N.number then .num b.flatten
    else if n == N.variable_reference then
      (match b.kidsL with | [(_, q)] => .var (absQ q) | _ => .var ⟨none, []⟩)
    else if n == N.relative_location_path then .path none false (absRel f b)
    else absExprF f b          -- expr, argument, predicate_expr, parse: delegate
/-- a production without a label of its own reached through a delegating production -/
def absBody : Nat → CST → Expr
  | 0, _ => .lit []
  | f+1, c => match c.kidsL with
    | (n, b) :: _ => absNode f n b
    | [] => .lit []
/-- `operand (op operand)*`, left-associative -/
def absChain : Nat → List (Str × BinOp) → CST → Expr
  | 0, _, _ => .lit []
  | f+1, ops, c =>
    let rec go (acc : Option Expr) (pending : Option BinOp) : List Tok → Option Expr
      | [] => acc
      | .leaf s :: r =>
        go acc (((ops.find? (fun p => p.1 == s)).map (·.2)) <|> pending) r
      | .node n b :: r =>
        let e := absNode f n b
        match acc, pending with
        | some a, some op => go (some (.bin op a e)) none r
        | _, _ => go (some e) none r
    (go none none (sigToks c)).getD (.lit [])
def absPath : Nat → CST → Expr           -- body of `path_expr`
  | 0, _ => .lit []
  | f+1, c =>
    let ts := sigToks c
    let filt := ts.findSome? fun | .node n b => if n == N.filter_expr then some b else none | _ => none
    let rel := ts.findSome? fun | .node n b => if n == N.relative_location_path then some b else none | _ => none
    let op := ts.findSome? fun | .leaf s => some s | _ => none
    let dslash := op == some ['/', '/']
    match filt, rel with
    | some fe, none => absFilter f fe
    | some fe, some r => .path (some (absFilter f fe)) false ((if dslash then [dosStep] else []) ++ absRel f r)
    | none, some r =>
      (match op with
       | some _ => .path none true ((if dslash then [dosStep] else []) ++ absRel f r)
       | none => .path none false (absRel f r))
    | none, none => .path none true []        -- `/`
def absRel : Nat → CST → List Step        -- body of `relative_location_path`
  | 0, _ => []
  | f+1, c =>
    let rec go : List Tok → List Step
      | [] => []
      | .leaf s :: r => (if s == ['/', '/'] then [dosStep] else []) ++ go r
      | .node n b :: r => (if n == N.step then [absStep f b] else []) ++ go r
    go (sigToks c)
def absStep : Nat → CST → Step            -- body of `step`
  | 0, _ => .mk .self .node []
  | f+1, c =>
    match sigToks c with
    | [.leaf s] => if s == ['.', '.'] then .mk .parent .node [] else .mk .self .node []
    | ts =>
      let axis := match ts.findSome? fun | .node n b => if n == N.axis_specifier then some b else none | _ => none with
        | some a => (match a.kidsL with
            | [(_, nm)] => axisOfStr nm.flatten
            | _ => if a.flatten == ['@'] then Axis.attribute else Axis.child)
        | none => Axis.child
      let test := match ts.findSome? fun | .node n b => if n == N.node_test then some b else none | _ => none with
        | some t => absNodeTest t
        | none => NodeTest.node
      let preds := ts.filterMap fun | .node n b => if n == N.predicate then some (absPred f b) else none | _ => none
      .mk axis test preds
def absPred : Nat → CST → Expr            -- body of `predicate`
  | 0, _ => .lit []
  | f+1, c => match c.kidsL with
    | [(n, b)] => absNode f n b
    | _ => .lit []
def absFilter : Nat → CST → Expr          -- body of `filter_expr`
  | 0, _ => .lit []
  | f+1, c =>
    let ks := c.kidsL
    let prim := match ks.head? with | some (n, b) => absNode f n b | none => .lit []
    let preds := (ks.drop 1).filterMap fun (n, b) => if n == N.predicate then some (absPred f b) else none
    if preds.isEmpty then prim else .filter prim preds
def absPrimary : Nat → CST → Expr         -- body of `primary_expr`; parentheses are transparent
  | 0, _ => .lit []
  | f+1, c => match c.kidsL with
    | [(n, b)] => absNode f n b
    | _ => .lit []
def absCall : Nat → CST → Expr            -- body of `function_call`
  | 0, _ => .lit []
  | f+1, c =>
    let ks := c.kidsL
    let name := match ks.head? with
      | some (_, b) => (match b.kidsL with | [(_, q)] => absQ q | _ => absQ b)
      | none => ⟨none, []⟩
    .call name ((ks.drop 1).map fun (n, b) => absNode f n b)
def absNodeTest (c : CST) : NodeTest :=   -- body of `node_test`
  match sigToks c with
  | [.node n b] => if n == N.name_test then absNameTest b else .node
  | ts =>
    (match ts.findSome? fun | .node n b => if n == N.literal then some b else none | _ => none with
     | some l => .pi (some (absLiteral l))
     | none =>
       match ts.findSome? fun | .node n b => if n == N.node_type then some b else none | _ => none with
       | some t =>
         let s := t.flatten
         if s == ['c', 'o', 'm', 'm', 'e', 'n', 't'] then .comment else if s == ['t', 'e', 'x', 't'] then .text
         else if s == ['p', 'r', 'o', 'c', 'e', 's', 's', 'i', 'n', 'g', '-', 'i', 'n', 's', 't', 'r', 'u', 'c', 't', 'i', 'o', 'n'] then .pi none else .node
       | none => .node)
end

def xpathFuel (s : Str) : Nat := 200000 + 4096 * s.length

inductive ParseErr where
  | syntax | remain | fuel
  deriving DecidableEq, Repr

mutual
/-- nesting depth of `expr` (parentheses, predicates, function arguments) in a tree -/
def exprDepth : CST → Nat
  | .leaf _ => 0
  | .node n c => if n == N.expr then exprDepth c + 1 else exprDepth c
  | .seq ks => exprDepthL ks
  | .many ks => exprDepthL ks
def exprDepthL : List CST → Nat
  | [] => 0
  | c :: cs => max (exprDepth c) (exprDepthL cs)
end

/-- `expr::parse` + the "nothing may remain" test of `query`; an expression nested deeper than the
    limit read from the source (`MAX_EXPR_DEPTH`, 0 = no limit) is a syntax error -/
def parseExprFuel (f : Nat) (s : Str) : Except ParseErr Expr :=
  match run Gen.XPath.env f (.nt N.parse) s with
  | .fuel => .error .fuel
  | .fail => .error .syntax
  | .ok c rest =>
    if maxDepth_expr != 0 && exprDepth c > maxDepth_expr then .error .syntax
    else if rest.isEmpty then .ok (absNode (c.size + 2) N.parse (match c with | .node _ b => b | x => x)) else .error .remain

/-- `parseExprFuel` at the fuel the model runs with -/
def parseExpr (s : Str) : Except ParseErr Expr := parseExprFuel (xpathFuel s) s

/-- the same over the REVIEWED expression grammar (`Gen/XPathGrammarRef.lean`, from tools/ref/xpath.json)
    and its nesting limit: the reference that does not move when the source moves -/
def parseExprRef (s : Str) : Except ParseErr Expr :=
  match run Gen.XPathRef.env (xpathFuel s) (.nt N.parse) s with
  | .fuel => .error .fuel
  | .fail => .error .syntax
  | .ok c rest =>
    if Gen.XPathRef.maxDepth_expr != 0 && exprDepth c > Gen.XPathRef.maxDepth_expr then .error .syntax
    else if rest.isEmpty then .ok (absNode (c.size + 2) N.parse (match c with | .node _ b => b | x => x)) else .error .remain

end XmlRs.XPath
