import XmlRsModel.Basic
/-! DOM Level 1 `CharacterData` operations on a list of characters (16-bit-unit questions do not
    arise: the library counts Unicode scalar values, as property C16 states).
    `none` is the `INDEX_SIZE_ERR` exception.  Offsets and counts are unbounded naturals: whatever the
    code does at `usize::MAX` must equal what these functions return. -/
namespace XmlRs.CharData

def substringData (s : Str) (off cnt : Nat) : Option Str :=
  if s.length < off then none else some ((s.drop off).take cnt)

def insertData (s : Str) (off : Nat) (arg : Str) : Option Str :=
  if s.length < off then none else some (s.take off ++ arg ++ s.drop off)

def deleteData (s : Str) (off cnt : Nat) : Option Str :=
  if s.length < off then none else some (s.take off ++ s.drop (off + cnt))

def replaceData (s : Str) (off cnt : Nat) (arg : Str) : Option Str :=
  if s.length < off then none else some (s.take off ++ arg ++ s.drop (off + cnt))

def appendData (s arg : Str) : Str := s ++ arg

/-- `split_text`: the node keeps the first component, the new next sibling gets the second -/
def splitText (s : Str) (off : Nat) : Option (Str × Str) :=
  if s.length < off then none else some (s.take off, s.drop off)

/-- one operation of the line protocol -/
inductive Op where
  | len
  | sub (off cnt : Nat)
  | app (arg : Str)
  | set (arg : Str)
  | ins (off : Nat) (arg : Str)
  | del (off cnt : Nat)
  | rep (off cnt : Nat) (arg : Str)
  | split (off : Nat)

inductive Out where
  | okNat (n : Nat)
  | okStr (s : Str)
  | okUnit
  | okSplit (l r : Str)
  | indexSize
  deriving DecidableEq

/-- state = data of the node; returns new data and the observable result -/
def step (s : Str) : Op → Str × Out
  | .len => (s, .okNat s.length)
  | .sub o c => (s, match substringData s o c with | some t => .okStr t | none => .indexSize)
  | .app a => (appendData s a, .okUnit)
  | .set a => (a, .okUnit)
  | .ins o a => match insertData s o a with | some t => (t, .okUnit) | none => (s, .indexSize)
  | .del o c => match deleteData s o c with | some t => (t, .okUnit) | none => (s, .indexSize)
  | .rep o c a => match replaceData s o c a with | some t => (t, .okUnit) | none => (s, .indexSize)
  | .split o => match splitText s o with | some (l, r) => (l, .okSplit l r) | none => (s, .indexSize)

end XmlRs.CharData
