import XmlRsModel.Peg
import XmlRsModel.PegPreds
/-! GENERATED on every check run by tools/translate.py from the reviewed snapshot tools/ref/xml.json:
    the grammar as it was when it was last read against the Recommendation; the differential reference for
    the grammar translated from the current source. -/
namespace XmlRs.Gen.XmlRef
open XmlRs

namespace N
def ncname : Nat := 0
def qname : Nat := 1
def prefixed_name : Nat := 2
def multichar0 : Nat := 3
def multinamestartchar0 : Nat := 4
def multinamechar0 : Nat := 5
def nmtoken : Nat := 6
def multipubidchar0 : Nat := 7
def document : Nat := 8
def name : Nat := 9
def entity_value : Nat := 10
def att_value : Nat := 11
def system_literal : Nat := 12
def pubid_literal : Nat := 13
def char_data : Nat := 14
def comment : Nat := 15
def pi : Nat := 16
def pi_target : Nat := 17
def cdsect : Nat := 18
def prolog : Nat := 19
def xml_decl : Nat := 20
def version_info : Nat := 21
def eq : Nat := 22
def version_num : Nat := 23
def misc : Nat := 24
def doctype_decl : Nat := 25
def decl_sep : Nat := 26
def int_subset : Nat := 27
def markup_decl : Nat := 28
def sd_decl : Nat := 29
def element : Nat := 30
def element_body : Nat := 31
def stag : Nat := 32
def attribute_ : Nat := 33
def etag : Nat := 34
def content : Nat := 35
def empty_entity_tag : Nat := 36
def element_decl : Nat := 37
def content_spec : Nat := 38
def children : Nat := 39
def children_body : Nat := 40
def cp : Nat := 41
def group : Nat := 42
def mixed : Nat := 43
def attlist_decl : Nat := 44
def att_def : Nat := 45
def att_type : Nat := 46
def enumerated_type : Nat := 47
def notation_type : Nat := 48
def enumeration : Nat := 49
def default_decl : Nat := 50
def char_ref : Nat := 51
def reference : Nat := 52
def entity_ref : Nat := 53
def pe_reference : Nat := 54
def entity_decl : Nat := 55
def ge_decl : Nat := 56
def pe_decl : Nat := 57
def entity_def : Nat := 58
def pe_def : Nat := 59
def external_id : Nat := 60
def ndata_decl : Nat := 61
def encoding_decl : Nat := 62
def enc_name : Nat := 63
def notation_decl : Nat := 64
def public_id : Nat := 65
def ns_att_name : Nat := 66
end N

def ntNames : List (String × Nat) := [("ncname", 0), ("qname", 1), ("prefixed_name", 2), ("multichar0", 3), ("multinamestartchar0", 4), ("multinamechar0", 5), ("nmtoken", 6), ("multipubidchar0", 7), ("document", 8), ("name", 9), ("entity_value", 10), ("att_value", 11), ("system_literal", 12), ("pubid_literal", 13), ("char_data", 14), ("comment", 15), ("pi", 16), ("pi_target", 17), ("cdsect", 18), ("prolog", 19), ("xml_decl", 20), ("version_info", 21), ("eq", 22), ("version_num", 23), ("misc", 24), ("doctype_decl", 25), ("decl_sep", 26), ("int_subset", 27), ("markup_decl", 28), ("sd_decl", 29), ("element", 30), ("element_body", 31), ("stag", 32), ("attribute", 33), ("etag", 34), ("content", 35), ("empty_entity_tag", 36), ("element_decl", 37), ("content_spec", 38), ("children", 39), ("children_body", 40), ("cp", 41), ("group", 42), ("mixed", 43), ("attlist_decl", 44), ("att_def", 45), ("att_type", 46), ("enumerated_type", 47), ("notation_type", 48), ("enumeration", 49), ("default_decl", 50), ("char_ref", 51), ("reference", 52), ("entity_ref", 53), ("pe_reference", 54), ("entity_decl", 55), ("ge_decl", 56), ("pe_decl", 57), ("entity_def", 58), ("pe_def", 59), ("external_id", 60), ("ndata_decl", 61), ("encoding_decl", 62), ("enc_name", 63), ("notation_decl", 64), ("public_id", 65), ("ns_att_name", 66)]

namespace Prod
def ncname : G :=
  G.seq [G.one (fun c => (c != Char.ofNat 58) && P.isNameStartChar c), G.alt [G.cls1 (P.except P.isNameChar [Char.ofNat 58]), G.seq []]]
def qname : G :=
  G.alt [G.nt N.prefixed_name, G.nt N.ncname]
def prefixed_name : G :=
  G.seq [G.nt N.ncname, G.seq [G.tag [Char.ofNat 58], G.nt N.ncname]]
def multichar0 : G :=
  G.cls0 P.isChar
def multinamestartchar0 : G :=
  G.cls0 P.isNameStartChar
def multinamechar0 : G :=
  G.cls0 P.isNameChar
def nmtoken : G :=
  G.cls1 P.isNameChar
def multipubidchar0 : G :=
  G.cls0 P.isPubidChar
def document : G :=
  G.seq [G.nt N.prolog, G.nt N.element, G.many0 (G.nt N.misc)]
def name : G :=
  G.seq [G.nt N.multinamestartchar0, G.nt N.multinamechar0]
def entity_value : G :=
  G.alt [G.seq [G.tag [Char.ofNat 34], G.many0 (G.alt [G.cls1 (P.except P.isChar [Char.ofNat 37,Char.ofNat 38,Char.ofNat 34]), G.nt N.pe_reference, G.nt N.reference]), G.tag [Char.ofNat 34]], G.seq [G.tag [Char.ofNat 39], G.many0 (G.alt [G.cls1 (P.except P.isChar [Char.ofNat 37,Char.ofNat 38,Char.ofNat 39]), G.nt N.pe_reference, G.nt N.reference]), G.tag [Char.ofNat 39]]]
def att_value : G :=
  G.alt [G.seq [G.tag [Char.ofNat 34], G.many0 (G.alt [G.cls1 (P.except P.isChar [Char.ofNat 60,Char.ofNat 38,Char.ofNat 34]), G.nt N.reference]), G.tag [Char.ofNat 34]], G.seq [G.tag [Char.ofNat 39], G.many0 (G.alt [G.cls1 (P.except P.isChar [Char.ofNat 60,Char.ofNat 38,Char.ofNat 39]), G.nt N.reference]), G.tag [Char.ofNat 39]]]
def system_literal : G :=
  G.alt [G.seq [G.tag [Char.ofNat 34], G.cls0 (P.except P.isChar [Char.ofNat 34]), G.tag [Char.ofNat 34]], G.seq [G.tag [Char.ofNat 39], G.cls0 (P.except P.isChar [Char.ofNat 39]), G.tag [Char.ofNat 39]]]
def pubid_literal : G :=
  G.alt [G.seq [G.tag [Char.ofNat 34], G.nt N.multipubidchar0, G.tag [Char.ofNat 34]], G.seq [G.tag [Char.ofNat 39], G.cls0 (P.except P.isPubidChar [Char.ofNat 39]), G.tag [Char.ofNat 39]]]
def char_data : G :=
  G.until0 (P.except P.isChar [Char.ofNat 60,Char.ofNat 38]) [Char.ofNat 93,Char.ofNat 93,Char.ofNat 62]
def comment : G :=
  G.seq [G.tag [Char.ofNat 60,Char.ofNat 33,Char.ofNat 45,Char.ofNat 45], G.many0 (G.seq [G.alt [G.tag [Char.ofNat 45], G.seq []], G.cls1 (P.except P.isChar [Char.ofNat 45])]), G.tag [Char.ofNat 45,Char.ofNat 45,Char.ofNat 62]]
def pi : G :=
  G.seq [G.tag [Char.ofNat 60,Char.ofNat 63], G.seq [G.nt N.pi_target, G.alt [G.seq [G.cls1 P.isSpace, G.until0 P.isChar [Char.ofNat 63,Char.ofNat 62]], G.seq []]], G.tag [Char.ofNat 63,Char.ofNat 62]]
def pi_target : G :=
  G.verify (G.nt N.name) (fun c => !(P.eqIgnoreAsciiCase c.flatten [Char.ofNat 120,Char.ofNat 109,Char.ofNat 108]))
def cdsect : G :=
  G.seq [G.tag [Char.ofNat 60,Char.ofNat 33,Char.ofNat 91,Char.ofNat 67,Char.ofNat 68,Char.ofNat 65,Char.ofNat 84,Char.ofNat 65,Char.ofNat 91], G.until0 P.isChar [Char.ofNat 93,Char.ofNat 93,Char.ofNat 62], G.tag [Char.ofNat 93,Char.ofNat 93,Char.ofNat 62]]
def prolog : G :=
  G.seq [G.alt [G.nt N.xml_decl, G.seq []], G.many0 (G.nt N.misc), G.alt [G.seq [G.nt N.doctype_decl, G.many0 (G.nt N.misc)], G.seq []]]
def xml_decl : G :=
  G.seq [G.tag [Char.ofNat 60,Char.ofNat 63,Char.ofNat 120,Char.ofNat 109,Char.ofNat 108], G.seq [G.nt N.version_info, G.alt [G.nt N.encoding_decl, G.seq []], G.alt [G.nt N.sd_decl, G.seq []]], G.seq [G.cls0 P.isSpace, G.tag [Char.ofNat 63,Char.ofNat 62]]]
def version_info : G :=
  G.seq [G.seq [G.cls1 P.isSpace, G.tag [Char.ofNat 118,Char.ofNat 101,Char.ofNat 114,Char.ofNat 115,Char.ofNat 105,Char.ofNat 111,Char.ofNat 110], G.nt N.eq], G.alt [G.seq [G.tag [Char.ofNat 39], G.nt N.version_num, G.tag [Char.ofNat 39]], G.seq [G.tag [Char.ofNat 34], G.nt N.version_num, G.tag [Char.ofNat 34]]]]
def eq : G :=
  G.seq [G.cls0 P.isSpace, G.tag [Char.ofNat 61], G.cls0 P.isSpace]
def version_num : G :=
  G.seq [G.tag [Char.ofNat 49,Char.ofNat 46], G.cls1 P.isDigit]
def misc : G :=
  G.alt [G.nt N.comment, G.nt N.pi, G.cls1 P.isSpace]
def doctype_decl : G :=
  G.seq [G.seq [G.seq [G.tag [Char.ofNat 60,Char.ofNat 33,Char.ofNat 68,Char.ofNat 79,Char.ofNat 67,Char.ofNat 84,Char.ofNat 89,Char.ofNat 80,Char.ofNat 69], G.cls1 P.isSpace], G.nt N.qname], G.seq [G.alt [G.seq [G.cls1 P.isSpace, G.nt N.external_id], G.seq []], G.cls0 P.isSpace], G.seq [G.alt [G.seq [G.tag [Char.ofNat 91], G.nt N.int_subset, G.seq [G.tag [Char.ofNat 93], G.cls0 P.isSpace]], G.seq []], G.tag [Char.ofNat 62]]]
def decl_sep : G :=
  G.alt [G.nt N.pe_reference, G.cls1 P.isSpace]
def int_subset : G :=
  G.many0 (G.alt [G.nt N.markup_decl, G.nt N.decl_sep])
def markup_decl : G :=
  G.alt [G.nt N.element_decl, G.nt N.attlist_decl, G.nt N.entity_decl, G.nt N.notation_decl, G.nt N.pi, G.nt N.comment]
def sd_decl : G :=
  G.seq [G.seq [G.cls1 P.isSpace, G.tag [Char.ofNat 115,Char.ofNat 116,Char.ofNat 97,Char.ofNat 110,Char.ofNat 100,Char.ofNat 97,Char.ofNat 108,Char.ofNat 111,Char.ofNat 110,Char.ofNat 101], G.nt N.eq], G.alt [G.seq [G.tag [Char.ofNat 39], G.tag [Char.ofNat 121,Char.ofNat 101,Char.ofNat 115], G.tag [Char.ofNat 39]], G.seq [G.tag [Char.ofNat 34], G.tag [Char.ofNat 121,Char.ofNat 101,Char.ofNat 115], G.tag [Char.ofNat 34]], G.seq [G.tag [Char.ofNat 39], G.tag [Char.ofNat 110,Char.ofNat 111], G.tag [Char.ofNat 39]], G.seq [G.tag [Char.ofNat 34], G.tag [Char.ofNat 110,Char.ofNat 111], G.tag [Char.ofNat 34]]]]
def element : G :=
  G.nt N.element_body
def element_body : G :=
  G.alt [G.nt N.empty_entity_tag, G.verify (G.seq [G.nt N.stag, G.nt N.content, G.nt N.etag]) P.tagNamesMatch]
def stag : G :=
  G.seq [G.tag [Char.ofNat 60], G.seq [G.nt N.qname, G.many0 (G.seq [G.cls1 P.isSpace, G.nt N.attribute_])], G.seq [G.cls0 P.isSpace, G.tag [Char.ofNat 62]]]
def attribute_ : G :=
  G.alt [G.seq [G.nt N.ns_att_name, G.seq [G.nt N.eq, G.nt N.att_value]], G.seq [G.nt N.qname, G.seq [G.nt N.eq, G.nt N.att_value]]]
def etag : G :=
  G.seq [G.tag [Char.ofNat 60,Char.ofNat 47], G.nt N.qname, G.seq [G.cls0 P.isSpace, G.tag [Char.ofNat 62]]]
def content : G :=
  G.seq [G.alt [G.nt N.char_data, G.seq []], G.many0 (G.seq [G.alt [G.nt N.element, G.nt N.reference, G.nt N.cdsect, G.nt N.pi, G.nt N.comment], G.alt [G.nt N.char_data, G.seq []]])]
def empty_entity_tag : G :=
  G.seq [G.tag [Char.ofNat 60], G.seq [G.nt N.qname, G.many0 (G.seq [G.cls1 P.isSpace, G.nt N.attribute_])], G.seq [G.cls0 P.isSpace, G.tag [Char.ofNat 47,Char.ofNat 62]]]
def element_decl : G :=
  G.seq [G.seq [G.tag [Char.ofNat 60,Char.ofNat 33,Char.ofNat 69,Char.ofNat 76,Char.ofNat 69,Char.ofNat 77,Char.ofNat 69,Char.ofNat 78,Char.ofNat 84], G.cls1 P.isSpace], G.seq [G.nt N.qname, G.seq [G.cls1 P.isSpace, G.nt N.content_spec]], G.seq [G.cls0 P.isSpace, G.tag [Char.ofNat 62]]]
def content_spec : G :=
  G.alt [G.tag [Char.ofNat 69,Char.ofNat 77,Char.ofNat 80,Char.ofNat 84,Char.ofNat 89], G.tag [Char.ofNat 65,Char.ofNat 78,Char.ofNat 89], G.nt N.mixed, G.nt N.children]
def children : G :=
  G.nt N.children_body
def children_body : G :=
  G.seq [G.nt N.group, G.alt [G.alt [G.tag [Char.ofNat 63], G.tag [Char.ofNat 42], G.tag [Char.ofNat 43]], G.seq []]]
def cp : G :=
  G.alt [G.nt N.children, G.seq [G.nt N.qname, G.alt [G.alt [G.tag [Char.ofNat 63], G.tag [Char.ofNat 42], G.tag [Char.ofNat 43]], G.seq []]]]
def group : G :=
  G.seq [G.seq [G.tag [Char.ofNat 40], G.cls0 P.isSpace], G.seq [G.nt N.cp, G.alt [G.seq [G.seq [G.seq [G.cls0 P.isSpace, G.tag [Char.ofNat 124], G.cls0 P.isSpace], G.nt N.cp], G.many0 (G.seq [G.seq [G.cls0 P.isSpace, G.tag [Char.ofNat 124], G.cls0 P.isSpace], G.nt N.cp])], G.many0 (G.seq [G.seq [G.cls0 P.isSpace, G.tag [Char.ofNat 44], G.cls0 P.isSpace], G.nt N.cp])]], G.seq [G.cls0 P.isSpace, G.tag [Char.ofNat 41]]]
def mixed : G :=
  G.alt [G.seq [G.seq [G.tag [Char.ofNat 40], G.cls0 P.isSpace, G.tag [Char.ofNat 35,Char.ofNat 80,Char.ofNat 67,Char.ofNat 68,Char.ofNat 65,Char.ofNat 84,Char.ofNat 65]], G.many0 (G.seq [G.seq [G.cls0 P.isSpace, G.tag [Char.ofNat 124], G.cls0 P.isSpace], G.nt N.qname]), G.seq [G.cls0 P.isSpace, G.tag [Char.ofNat 41,Char.ofNat 42]]], G.seq [G.tag [Char.ofNat 40], G.cls0 P.isSpace, G.tag [Char.ofNat 35,Char.ofNat 80,Char.ofNat 67,Char.ofNat 68,Char.ofNat 65,Char.ofNat 84,Char.ofNat 65], G.cls0 P.isSpace, G.tag [Char.ofNat 41]]]
def attlist_decl : G :=
  G.seq [G.seq [G.tag [Char.ofNat 60,Char.ofNat 33,Char.ofNat 65,Char.ofNat 84,Char.ofNat 84,Char.ofNat 76,Char.ofNat 73,Char.ofNat 83,Char.ofNat 84], G.cls1 P.isSpace], G.seq [G.nt N.qname, G.many0 (G.nt N.att_def)], G.seq [G.cls0 P.isSpace, G.tag [Char.ofNat 62]]]
def att_def : G :=
  G.seq [G.seq [G.cls1 P.isSpace, G.alt [G.nt N.qname, G.nt N.ns_att_name]], G.seq [G.cls1 P.isSpace, G.nt N.att_type], G.seq [G.cls1 P.isSpace, G.nt N.default_decl]]
def att_type : G :=
  G.alt [G.nt N.enumerated_type, G.tag [Char.ofNat 67,Char.ofNat 68,Char.ofNat 65,Char.ofNat 84,Char.ofNat 65], G.tag [Char.ofNat 73,Char.ofNat 68,Char.ofNat 82,Char.ofNat 69,Char.ofNat 70,Char.ofNat 83], G.tag [Char.ofNat 73,Char.ofNat 68,Char.ofNat 82,Char.ofNat 69,Char.ofNat 70], G.tag [Char.ofNat 73,Char.ofNat 68], G.tag [Char.ofNat 69,Char.ofNat 78,Char.ofNat 84,Char.ofNat 73,Char.ofNat 84,Char.ofNat 73,Char.ofNat 69,Char.ofNat 83], G.tag [Char.ofNat 69,Char.ofNat 78,Char.ofNat 84,Char.ofNat 73,Char.ofNat 84,Char.ofNat 89], G.tag [Char.ofNat 78,Char.ofNat 77,Char.ofNat 84,Char.ofNat 79,Char.ofNat 75,Char.ofNat 69,Char.ofNat 78,Char.ofNat 83], G.tag [Char.ofNat 78,Char.ofNat 77,Char.ofNat 84,Char.ofNat 79,Char.ofNat 75,Char.ofNat 69,Char.ofNat 78]]
def enumerated_type : G :=
  G.alt [G.nt N.notation_type, G.nt N.enumeration]
def notation_type : G :=
  G.seq [G.seq [G.tag [Char.ofNat 78,Char.ofNat 79,Char.ofNat 84,Char.ofNat 65,Char.ofNat 84,Char.ofNat 73,Char.ofNat 79,Char.ofNat 78], G.cls1 P.isSpace, G.tag [Char.ofNat 40], G.cls0 P.isSpace], G.seq [G.nt N.name, G.many0 (G.seq [G.seq [G.cls0 P.isSpace, G.tag [Char.ofNat 124], G.cls0 P.isSpace], G.nt N.name])], G.seq [G.cls0 P.isSpace, G.tag [Char.ofNat 41]]]
def enumeration : G :=
  G.seq [G.seq [G.tag [Char.ofNat 40], G.cls0 P.isSpace], G.seq [G.nt N.nmtoken, G.many0 (G.seq [G.seq [G.cls0 P.isSpace, G.tag [Char.ofNat 124], G.cls0 P.isSpace], G.nt N.nmtoken])], G.seq [G.cls0 P.isSpace, G.tag [Char.ofNat 41]]]
def default_decl : G :=
  G.alt [G.tag [Char.ofNat 35,Char.ofNat 82,Char.ofNat 69,Char.ofNat 81,Char.ofNat 85,Char.ofNat 73,Char.ofNat 82,Char.ofNat 69,Char.ofNat 68], G.tag [Char.ofNat 35,Char.ofNat 73,Char.ofNat 77,Char.ofNat 80,Char.ofNat 76,Char.ofNat 73,Char.ofNat 69,Char.ofNat 68], G.seq [G.alt [G.seq [G.tag [Char.ofNat 35,Char.ofNat 70,Char.ofNat 73,Char.ofNat 88,Char.ofNat 69,Char.ofNat 68], G.cls1 P.isSpace], G.seq []], G.nt N.att_value]]
def char_ref : G :=
  G.alt [G.seq [G.tag [Char.ofNat 38,Char.ofNat 35], G.cls1 P.isDigit, G.tag [Char.ofNat 59]], G.seq [G.tag [Char.ofNat 38,Char.ofNat 35,Char.ofNat 120], G.cls1 P.isHexDigit, G.tag [Char.ofNat 59]]]
def reference : G :=
  G.alt [G.nt N.entity_ref, G.nt N.char_ref]
def entity_ref : G :=
  G.seq [G.tag [Char.ofNat 38], G.nt N.name, G.tag [Char.ofNat 59]]
def pe_reference : G :=
  G.seq [G.tag [Char.ofNat 37], G.nt N.name, G.tag [Char.ofNat 59]]
def entity_decl : G :=
  G.alt [G.nt N.ge_decl, G.nt N.pe_decl]
def ge_decl : G :=
  G.seq [G.seq [G.seq [G.tag [Char.ofNat 60,Char.ofNat 33,Char.ofNat 69,Char.ofNat 78,Char.ofNat 84,Char.ofNat 73,Char.ofNat 84,Char.ofNat 89], G.cls1 P.isSpace], G.nt N.name, G.cls1 P.isSpace], G.seq [G.nt N.entity_def, G.seq [G.cls0 P.isSpace, G.tag [Char.ofNat 62]]]]
def pe_decl : G :=
  G.seq [G.seq [G.seq [G.tag [Char.ofNat 60,Char.ofNat 33,Char.ofNat 69,Char.ofNat 78,Char.ofNat 84,Char.ofNat 73,Char.ofNat 84,Char.ofNat 89], G.cls1 P.isSpace, G.tag [Char.ofNat 37], G.cls1 P.isSpace], G.nt N.name, G.cls1 P.isSpace], G.seq [G.nt N.pe_def, G.seq [G.cls0 P.isSpace, G.tag [Char.ofNat 62]]]]
def entity_def : G :=
  G.alt [G.nt N.entity_value, G.seq [G.nt N.external_id, G.alt [G.nt N.ndata_decl, G.seq []]]]
def pe_def : G :=
  G.alt [G.nt N.entity_value, G.nt N.external_id]
def external_id : G :=
  G.alt [G.seq [G.seq [G.tag [Char.ofNat 83,Char.ofNat 89,Char.ofNat 83,Char.ofNat 84,Char.ofNat 69,Char.ofNat 77], G.cls1 P.isSpace], G.nt N.system_literal], G.seq [G.seq [G.tag [Char.ofNat 80,Char.ofNat 85,Char.ofNat 66,Char.ofNat 76,Char.ofNat 73,Char.ofNat 67], G.cls1 P.isSpace], G.seq [G.nt N.pubid_literal, G.seq [G.cls1 P.isSpace, G.nt N.system_literal]]]]
def ndata_decl : G :=
  G.seq [G.seq [G.cls1 P.isSpace, G.tag [Char.ofNat 78,Char.ofNat 68,Char.ofNat 65,Char.ofNat 84,Char.ofNat 65], G.cls1 P.isSpace], G.nt N.name]
def encoding_decl : G :=
  G.seq [G.seq [G.cls1 P.isSpace, G.tag [Char.ofNat 101,Char.ofNat 110,Char.ofNat 99,Char.ofNat 111,Char.ofNat 100,Char.ofNat 105,Char.ofNat 110,Char.ofNat 103], G.nt N.eq], G.alt [G.seq [G.tag [Char.ofNat 39], G.nt N.enc_name, G.tag [Char.ofNat 39]], G.seq [G.tag [Char.ofNat 34], G.nt N.enc_name, G.tag [Char.ofNat 34]]]]
def enc_name : G :=
  G.seq [G.cls1 P.isAlpha, G.cls0 P.isEncName]
def notation_decl : G :=
  G.seq [G.seq [G.seq [G.tag [Char.ofNat 60,Char.ofNat 33,Char.ofNat 78,Char.ofNat 79,Char.ofNat 84,Char.ofNat 65,Char.ofNat 84,Char.ofNat 73,Char.ofNat 79,Char.ofNat 78], G.cls1 P.isSpace], G.nt N.name], G.seq [G.cls1 P.isSpace, G.alt [G.nt N.external_id, G.nt N.public_id], G.seq [G.cls0 P.isSpace, G.tag [Char.ofNat 62]]]]
def public_id : G :=
  G.seq [G.seq [G.tag [Char.ofNat 80,Char.ofNat 85,Char.ofNat 66,Char.ofNat 76,Char.ofNat 73,Char.ofNat 67], G.cls1 P.isSpace], G.nt N.pubid_literal]
def ns_att_name : G :=
  G.alt [G.seq [G.tag [Char.ofNat 120,Char.ofNat 109,Char.ofNat 108,Char.ofNat 110,Char.ofNat 115,Char.ofNat 58], G.nt N.ncname], G.tag [Char.ofNat 120,Char.ofNat 109,Char.ofNat 108,Char.ofNat 110,Char.ofNat 115]]
end Prod

def env : Env
  | 0 => Prod.ncname
  | 1 => Prod.qname
  | 2 => Prod.prefixed_name
  | 3 => Prod.multichar0
  | 4 => Prod.multinamestartchar0
  | 5 => Prod.multinamechar0
  | 6 => Prod.nmtoken
  | 7 => Prod.multipubidchar0
  | 8 => Prod.document
  | 9 => Prod.name
  | 10 => Prod.entity_value
  | 11 => Prod.att_value
  | 12 => Prod.system_literal
  | 13 => Prod.pubid_literal
  | 14 => Prod.char_data
  | 15 => Prod.comment
  | 16 => Prod.pi
  | 17 => Prod.pi_target
  | 18 => Prod.cdsect
  | 19 => Prod.prolog
  | 20 => Prod.xml_decl
  | 21 => Prod.version_info
  | 22 => Prod.eq
  | 23 => Prod.version_num
  | 24 => Prod.misc
  | 25 => Prod.doctype_decl
  | 26 => Prod.decl_sep
  | 27 => Prod.int_subset
  | 28 => Prod.markup_decl
  | 29 => Prod.sd_decl
  | 30 => Prod.element
  | 31 => Prod.element_body
  | 32 => Prod.stag
  | 33 => Prod.attribute_
  | 34 => Prod.etag
  | 35 => Prod.content
  | 36 => Prod.empty_entity_tag
  | 37 => Prod.element_decl
  | 38 => Prod.content_spec
  | 39 => Prod.children
  | 40 => Prod.children_body
  | 41 => Prod.cp
  | 42 => Prod.group
  | 43 => Prod.mixed
  | 44 => Prod.attlist_decl
  | 45 => Prod.att_def
  | 46 => Prod.att_type
  | 47 => Prod.enumerated_type
  | 48 => Prod.notation_type
  | 49 => Prod.enumeration
  | 50 => Prod.default_decl
  | 51 => Prod.char_ref
  | 52 => Prod.reference
  | 53 => Prod.entity_ref
  | 54 => Prod.pe_reference
  | 55 => Prod.entity_decl
  | 56 => Prod.ge_decl
  | 57 => Prod.pe_decl
  | 58 => Prod.entity_def
  | 59 => Prod.pe_def
  | 60 => Prod.external_id
  | 61 => Prod.ndata_decl
  | 62 => Prod.encoding_decl
  | 63 => Prod.enc_name
  | 64 => Prod.notation_decl
  | 65 => Prod.public_id
  | 66 => Prod.ns_att_name
  | _ => G.alt []

def maxDepth_children : Nat := 128
def maxDepth_element : Nat := 128

end XmlRs.Gen.XmlRef
