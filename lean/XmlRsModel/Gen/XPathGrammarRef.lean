import XmlRsModel.Peg
import XmlRsModel.PegPreds
/-! GENERATED on every check run by tools/translate.py from the reviewed snapshot tools/ref/xpath.json:
    the grammar as it was when it was last read against the Recommendation; the differential reference for
    the grammar translated from the current source. -/
namespace XmlRs.Gen.XPathRef
open XmlRs

namespace N
def ncname : Nat := 0
def qname : Nat := 1
def prefixed_name : Nat := 2
def parse : Nat := 3
def relative_location_path : Nat := 4
def step : Nat := 5
def axis_specifier : Nat := 6
def axis_name : Nat := 7
def node_test : Nat := 8
def predicate : Nat := 9
def predicate_expr : Nat := 10
def expr : Nat := 11
def primary_expr : Nat := 12
def function_call : Nat := 13
def argument : Nat := 14
def union_expr : Nat := 15
def path_expr : Nat := 16
def filter_expr : Nat := 17
def or_expr : Nat := 18
def and_expr : Nat := 19
def equality_expr : Nat := 20
def relation_expr : Nat := 21
def additive_expr : Nat := 22
def multiplicative_expr : Nat := 23
def unary_expr : Nat := 24
def literal : Nat := 25
def number : Nat := 26
def function_name : Nat := 27
def variable_reference : Nat := 28
def name_test : Nat := 29
def node_type : Nat := 30
end N

def ntNames : List (String × Nat) := [("ncname", 0), ("qname", 1), ("prefixed_name", 2), ("parse", 3), ("relative_location_path", 4), ("step", 5), ("axis_specifier", 6), ("axis_name", 7), ("node_test", 8), ("predicate", 9), ("predicate_expr", 10), ("expr", 11), ("primary_expr", 12), ("function_call", 13), ("argument", 14), ("union_expr", 15), ("path_expr", 16), ("filter_expr", 17), ("or_expr", 18), ("and_expr", 19), ("equality_expr", 20), ("relation_expr", 21), ("additive_expr", 22), ("multiplicative_expr", 23), ("unary_expr", 24), ("literal", 25), ("number", 26), ("function_name", 27), ("variable_reference", 28), ("name_test", 29), ("node_type", 30)]

namespace Prod
def ncname : G :=
  G.seq [G.one (fun c => (c != Char.ofNat 58) && P.isNameStartChar c), G.alt [G.cls1 (P.except P.isNameChar [Char.ofNat 58]), G.seq []]]
def qname : G :=
  G.alt [G.nt N.prefixed_name, G.nt N.ncname]
def prefixed_name : G :=
  G.seq [G.nt N.ncname, G.seq [G.tag [Char.ofNat 58], G.nt N.ncname]]
def parse : G :=
  G.nt N.expr
def relative_location_path : G :=
  G.seq [G.nt N.step, G.many0 (G.seq [G.seq [G.cls0 P.isSpace, G.alt [G.tag [Char.ofNat 47,Char.ofNat 47], G.tag [Char.ofNat 47]], G.cls0 P.isSpace], G.nt N.step])]
def step : G :=
  G.alt [G.tag [Char.ofNat 46,Char.ofNat 46], G.tag [Char.ofNat 46], G.seq [G.nt N.axis_specifier, G.seq [G.cls0 P.isSpace, G.nt N.node_test], G.many0 (G.seq [G.cls0 P.isSpace, G.nt N.predicate])]]
def axis_specifier : G :=
  G.alt [G.seq [G.nt N.axis_name, G.seq [G.cls0 P.isSpace, G.tag [Char.ofNat 58,Char.ofNat 58]]], G.alt [G.tag [Char.ofNat 64], G.seq []]]
def axis_name : G :=
  G.alt [G.tag [Char.ofNat 97,Char.ofNat 110,Char.ofNat 99,Char.ofNat 101,Char.ofNat 115,Char.ofNat 116,Char.ofNat 111,Char.ofNat 114,Char.ofNat 45,Char.ofNat 111,Char.ofNat 114,Char.ofNat 45,Char.ofNat 115,Char.ofNat 101,Char.ofNat 108,Char.ofNat 102], G.tag [Char.ofNat 97,Char.ofNat 110,Char.ofNat 99,Char.ofNat 101,Char.ofNat 115,Char.ofNat 116,Char.ofNat 111,Char.ofNat 114], G.tag [Char.ofNat 97,Char.ofNat 116,Char.ofNat 116,Char.ofNat 114,Char.ofNat 105,Char.ofNat 98,Char.ofNat 117,Char.ofNat 116,Char.ofNat 101], G.tag [Char.ofNat 99,Char.ofNat 104,Char.ofNat 105,Char.ofNat 108,Char.ofNat 100], G.tag [Char.ofNat 100,Char.ofNat 101,Char.ofNat 115,Char.ofNat 99,Char.ofNat 101,Char.ofNat 110,Char.ofNat 100,Char.ofNat 97,Char.ofNat 110,Char.ofNat 116,Char.ofNat 45,Char.ofNat 111,Char.ofNat 114,Char.ofNat 45,Char.ofNat 115,Char.ofNat 101,Char.ofNat 108,Char.ofNat 102], G.tag [Char.ofNat 100,Char.ofNat 101,Char.ofNat 115,Char.ofNat 99,Char.ofNat 101,Char.ofNat 110,Char.ofNat 100,Char.ofNat 97,Char.ofNat 110,Char.ofNat 116], G.tag [Char.ofNat 102,Char.ofNat 111,Char.ofNat 108,Char.ofNat 108,Char.ofNat 111,Char.ofNat 119,Char.ofNat 105,Char.ofNat 110,Char.ofNat 103,Char.ofNat 45,Char.ofNat 115,Char.ofNat 105,Char.ofNat 98,Char.ofNat 108,Char.ofNat 105,Char.ofNat 110,Char.ofNat 103], G.tag [Char.ofNat 102,Char.ofNat 111,Char.ofNat 108,Char.ofNat 108,Char.ofNat 111,Char.ofNat 119,Char.ofNat 105,Char.ofNat 110,Char.ofNat 103], G.tag [Char.ofNat 110,Char.ofNat 97,Char.ofNat 109,Char.ofNat 101,Char.ofNat 115,Char.ofNat 112,Char.ofNat 97,Char.ofNat 99,Char.ofNat 101], G.tag [Char.ofNat 112,Char.ofNat 97,Char.ofNat 114,Char.ofNat 101,Char.ofNat 110,Char.ofNat 116], G.tag [Char.ofNat 112,Char.ofNat 114,Char.ofNat 101,Char.ofNat 99,Char.ofNat 101,Char.ofNat 100,Char.ofNat 105,Char.ofNat 110,Char.ofNat 103,Char.ofNat 45,Char.ofNat 115,Char.ofNat 105,Char.ofNat 98,Char.ofNat 108,Char.ofNat 105,Char.ofNat 110,Char.ofNat 103], G.tag [Char.ofNat 112,Char.ofNat 114,Char.ofNat 101,Char.ofNat 99,Char.ofNat 101,Char.ofNat 100,Char.ofNat 105,Char.ofNat 110,Char.ofNat 103], G.tag [Char.ofNat 115,Char.ofNat 101,Char.ofNat 108,Char.ofNat 102]]
def node_test : G :=
  G.alt [G.seq [G.seq [G.tag [Char.ofNat 112,Char.ofNat 114,Char.ofNat 111,Char.ofNat 99,Char.ofNat 101,Char.ofNat 115,Char.ofNat 115,Char.ofNat 105,Char.ofNat 110,Char.ofNat 103,Char.ofNat 45,Char.ofNat 105,Char.ofNat 110,Char.ofNat 115,Char.ofNat 116,Char.ofNat 114,Char.ofNat 117,Char.ofNat 99,Char.ofNat 116,Char.ofNat 105,Char.ofNat 111,Char.ofNat 110], G.cls0 P.isSpace, G.tag [Char.ofNat 40], G.cls0 P.isSpace], G.nt N.literal, G.seq [G.cls0 P.isSpace, G.tag [Char.ofNat 41]]], G.seq [G.nt N.node_type, G.seq [G.cls0 P.isSpace, G.tag [Char.ofNat 40], G.cls0 P.isSpace, G.tag [Char.ofNat 41]]], G.nt N.name_test]
def predicate : G :=
  G.seq [G.seq [G.tag [Char.ofNat 91], G.cls0 P.isSpace], G.nt N.predicate_expr, G.seq [G.cls0 P.isSpace, G.tag [Char.ofNat 93]]]
def predicate_expr : G :=
  G.nt N.expr
def expr : G :=
  G.nt N.or_expr
def primary_expr : G :=
  G.alt [G.nt N.variable_reference, G.seq [G.seq [G.tag [Char.ofNat 40], G.cls0 P.isSpace], G.nt N.expr, G.seq [G.cls0 P.isSpace, G.tag [Char.ofNat 41]]], G.nt N.literal, G.nt N.number, G.nt N.function_call]
def function_call : G :=
  G.seq [G.nt N.function_name, G.seq [G.seq [G.cls0 P.isSpace, G.tag [Char.ofNat 40], G.cls0 P.isSpace], G.alt [G.seq [G.nt N.argument, G.many0 (G.seq [G.seq [G.cls0 P.isSpace, G.tag [Char.ofNat 44], G.cls0 P.isSpace], G.nt N.argument])], G.seq []], G.seq [G.cls0 P.isSpace, G.tag [Char.ofNat 41]]]]
def argument : G :=
  G.nt N.expr
def union_expr : G :=
  G.seq [G.nt N.path_expr, G.many0 (G.seq [G.seq [G.cls0 P.isSpace, G.tag [Char.ofNat 124], G.cls0 P.isSpace], G.nt N.path_expr])]
def path_expr : G :=
  G.alt [G.seq [G.nt N.filter_expr, G.alt [G.seq [G.seq [G.cls0 P.isSpace, G.alt [G.tag [Char.ofNat 47,Char.ofNat 47], G.tag [Char.ofNat 47]], G.cls0 P.isSpace], G.nt N.relative_location_path], G.seq []]], G.seq [G.seq [G.alt [G.tag [Char.ofNat 47,Char.ofNat 47], G.tag [Char.ofNat 47]], G.cls0 P.isSpace], G.nt N.relative_location_path], G.nt N.relative_location_path, G.tag [Char.ofNat 47]]
def filter_expr : G :=
  G.seq [G.nt N.primary_expr, G.many0 (G.seq [G.cls0 P.isSpace, G.nt N.predicate])]
def or_expr : G :=
  G.seq [G.nt N.and_expr, G.many0 (G.seq [G.seq [G.cls0 P.isSpace, G.tag [Char.ofNat 111,Char.ofNat 114], G.cls0 P.isSpace], G.nt N.and_expr])]
def and_expr : G :=
  G.seq [G.nt N.equality_expr, G.many0 (G.seq [G.seq [G.cls0 P.isSpace, G.tag [Char.ofNat 97,Char.ofNat 110,Char.ofNat 100], G.cls0 P.isSpace], G.nt N.equality_expr])]
def equality_expr : G :=
  G.seq [G.nt N.relation_expr, G.many0 (G.seq [G.seq [G.cls0 P.isSpace, G.alt [G.tag [Char.ofNat 61], G.tag [Char.ofNat 33,Char.ofNat 61]], G.cls0 P.isSpace], G.nt N.relation_expr])]
def relation_expr : G :=
  G.seq [G.nt N.additive_expr, G.many0 (G.seq [G.seq [G.cls0 P.isSpace, G.alt [G.tag [Char.ofNat 60,Char.ofNat 61], G.tag [Char.ofNat 62,Char.ofNat 61], G.tag [Char.ofNat 60], G.tag [Char.ofNat 62]], G.cls0 P.isSpace], G.nt N.additive_expr])]
def additive_expr : G :=
  G.seq [G.nt N.multiplicative_expr, G.many0 (G.seq [G.seq [G.cls0 P.isSpace, G.alt [G.tag [Char.ofNat 43], G.tag [Char.ofNat 45]], G.cls0 P.isSpace], G.nt N.multiplicative_expr])]
def multiplicative_expr : G :=
  G.seq [G.nt N.unary_expr, G.many0 (G.seq [G.seq [G.cls0 P.isSpace, G.alt [G.tag [Char.ofNat 42], G.tag [Char.ofNat 100,Char.ofNat 105,Char.ofNat 118], G.tag [Char.ofNat 109,Char.ofNat 111,Char.ofNat 100]], G.cls0 P.isSpace], G.nt N.unary_expr])]
def unary_expr : G :=
  G.seq [G.many0 (G.seq [G.tag [Char.ofNat 45], G.cls0 P.isSpace]), G.nt N.union_expr]
def literal : G :=
  G.alt [G.seq [G.tag [Char.ofNat 34], G.cls0 (fun c => c != Char.ofNat 34), G.tag [Char.ofNat 34]], G.seq [G.tag [Char.ofNat 39], G.cls0 (fun c => c != Char.ofNat 39), G.tag [Char.ofNat 39]]]
def number : G :=
  G.alt [G.seq [G.cls1 P.isDigit, G.alt [G.seq [G.tag [Char.ofNat 46], G.cls0 P.isDigit], G.seq []]], G.seq [G.tag [Char.ofNat 46], G.cls1 P.isDigit]]
def function_name : G :=
  G.verify (G.nt N.qname) (fun c => !([[Char.ofNat 99,Char.ofNat 111,Char.ofNat 109,Char.ofNat 109,Char.ofNat 101,Char.ofNat 110,Char.ofNat 116], [Char.ofNat 116,Char.ofNat 101,Char.ofNat 120,Char.ofNat 116], [Char.ofNat 112,Char.ofNat 114,Char.ofNat 111,Char.ofNat 99,Char.ofNat 101,Char.ofNat 115,Char.ofNat 115,Char.ofNat 105,Char.ofNat 110,Char.ofNat 103,Char.ofNat 45,Char.ofNat 105,Char.ofNat 110,Char.ofNat 115,Char.ofNat 116,Char.ofNat 114,Char.ofNat 117,Char.ofNat 99,Char.ofNat 116,Char.ofNat 105,Char.ofNat 111,Char.ofNat 110], [Char.ofNat 110,Char.ofNat 111,Char.ofNat 100,Char.ofNat 101]]).contains c.flatten)
def variable_reference : G :=
  G.seq [G.tag [Char.ofNat 36], G.nt N.qname]
def name_test : G :=
  G.alt [G.tag [Char.ofNat 42], G.seq [G.nt N.ncname, G.tag [Char.ofNat 58,Char.ofNat 42]], G.nt N.qname]
def node_type : G :=
  G.alt [G.tag [Char.ofNat 99,Char.ofNat 111,Char.ofNat 109,Char.ofNat 109,Char.ofNat 101,Char.ofNat 110,Char.ofNat 116], G.tag [Char.ofNat 116,Char.ofNat 101,Char.ofNat 120,Char.ofNat 116], G.tag [Char.ofNat 112,Char.ofNat 114,Char.ofNat 111,Char.ofNat 99,Char.ofNat 101,Char.ofNat 115,Char.ofNat 115,Char.ofNat 105,Char.ofNat 110,Char.ofNat 103,Char.ofNat 45,Char.ofNat 105,Char.ofNat 110,Char.ofNat 115,Char.ofNat 116,Char.ofNat 114,Char.ofNat 117,Char.ofNat 99,Char.ofNat 116,Char.ofNat 105,Char.ofNat 111,Char.ofNat 110], G.tag [Char.ofNat 110,Char.ofNat 111,Char.ofNat 100,Char.ofNat 101]]
end Prod

def env : Env
  | 0 => Prod.ncname
  | 1 => Prod.qname
  | 2 => Prod.prefixed_name
  | 3 => Prod.parse
  | 4 => Prod.relative_location_path
  | 5 => Prod.step
  | 6 => Prod.axis_specifier
  | 7 => Prod.axis_name
  | 8 => Prod.node_test
  | 9 => Prod.predicate
  | 10 => Prod.predicate_expr
  | 11 => Prod.expr
  | 12 => Prod.primary_expr
  | 13 => Prod.function_call
  | 14 => Prod.argument
  | 15 => Prod.union_expr
  | 16 => Prod.path_expr
  | 17 => Prod.filter_expr
  | 18 => Prod.or_expr
  | 19 => Prod.and_expr
  | 20 => Prod.equality_expr
  | 21 => Prod.relation_expr
  | 22 => Prod.additive_expr
  | 23 => Prod.multiplicative_expr
  | 24 => Prod.unary_expr
  | 25 => Prod.literal
  | 26 => Prod.number
  | 27 => Prod.function_name
  | 28 => Prod.variable_reference
  | 29 => Prod.name_test
  | 30 => Prod.node_type
  | _ => G.alt []

def maxDepth_expr : Nat := 32

end XmlRs.Gen.XPathRef
