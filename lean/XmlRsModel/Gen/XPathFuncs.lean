/-! GENERATED on every check run by tools/translate.py from xpath/src/eval/func.rs (`table()`): the core function library as the
    evaluator declares it - name, least and greatest number of arguments (`none` = no upper bound).  Thm/C06
    `arity_table_is_the_sources` states that the model's table is this one. -/
namespace XmlRs.Gen.XPathFuncs

def table : List (String × Nat × Option Nat) :=
  [("last", 0, some 0),
   ("position", 0, some 0),
   ("count", 1, some 1),
   ("id", 1, some 1),
   ("local-name", 0, some 1),
   ("namespace-uri", 0, some 1),
   ("name", 0, some 1),
   ("string", 0, some 1),
   ("concat", 2, none),
   ("starts-with", 2, some 2),
   ("contains", 2, some 2),
   ("substring-before", 2, some 2),
   ("substring-after", 2, some 2),
   ("substring", 2, some 3),
   ("string-length", 0, some 1),
   ("normalize-space", 0, some 1),
   ("translate", 3, some 3),
   ("boolean", 1, some 1),
   ("not", 1, some 1),
   ("true", 0, some 0),
   ("false", 0, some 0),
   ("lang", 1, some 1),
   ("number", 0, some 1),
   ("sum", 1, some 1),
   ("floor", 1, some 1),
   ("ceiling", 1, some 1),
   ("round", 1, some 1)]

end XmlRs.Gen.XPathFuncs
