/-! GENERATED on every check run by tools/translate.py from info/src/lib.rs (`Context::entity`): the entities the library knows
    without a declaration, with their replacement text.  Thm/C01 `predefined_is_the_sources` states that the model's table is this one. -/
namespace XmlRs.Gen.Predefined

def table : List (List Char × List Char) :=
  [(['l', 't'], ['<']),
   (['g', 't'], ['>']),
   (['a', 'm', 'p'], ['&']),
   (['a', 'p', 'o', 's'], ['\'']),
   (['q', 'u', 'o', 't'], ['"'])]

end XmlRs.Gen.Predefined
