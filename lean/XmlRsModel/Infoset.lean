import XmlRsModel.Peg
import XmlRsModel.Gen.XmlGrammar
/-! XML Information Set model: abstract documents (`IDoc`), their construction from the concrete
    syntax tree of the generated grammar (`absDoc`, the model of `xml_info::XmlDocument::new` and the
    `parser::model` conversions), the well-formedness constraints the EBNF cannot express, and the
    compact printer (`fmt::Display` of the info items). Import-free apart from the grammar. -/
namespace XmlRs
open Gen.Xml

/-- a piece of an attribute value literal or of an entity value literal -/
inductive Piece where
  | text (s : Str)
  | charRef (digits : Str) (hex : Bool)
  | entRef (name : Str)
  | peRef (name : Str)
  deriving DecidableEq, Inhabited

structure QN where
  pre : Option Str
  loc : Str
  deriving DecidableEq, Inhabited

structure Attr where
  name : QN           -- `xmlns` = (none, xmlns); `xmlns:p` = (some xmlns, p)
  vals : List Piece
  deriving DecidableEq, Inhabited

inductive Item where
  | text (s : Str)
  | charRef (digits : Str) (hex : Bool)
  | entRef (name : Str)
  | cdata (s : Str)
  | pi (target : Str) (data : Option Str)
  | comment (s : Str)
  | elem (name : QN) (attrs : List Attr) (kids : List Item)
  deriving Inhabited

inductive AttType where
  | cdata | id | idref | idrefs | entity | entities | nmtoken | nmtokens
  | notation (names : List Str) | enumeration (toks : List Str)
  deriving DecidableEq, Inhabited

inductive AttDefault where
  | required | implied
  | value (fixed : Bool) (vals : List Piece)
  deriving DecidableEq, Inhabited

structure AttDef where
  name : QN
  ty : AttType
  dflt : AttDefault
  deriving DecidableEq, Inhabited

inductive EntDef where
  | internal (vals : List Piece)
  | external (pub : Option Str) (sys : Str) (ndata : Option Str)
  deriving DecidableEq, Inhabited

inductive DtdItem where
  | attlist (elem : QN) (defs : List AttDef)
  | entity (name : Str) (d : EntDef)
  | notation (name : Str) (pub : Option Str) (sys : Option Str)
  | pi (target : Str) (data : Option Str)
  deriving DecidableEq, Inhabited

structure Doctype where
  name : QN
  pub : Option Str
  sys : Option Str
  kids : List DtdItem
  deriving DecidableEq, Inhabited

inductive TopItem where
  | comment (s : Str)
  | pi (target : Str) (data : Option Str)
  | doctype (d : Doctype)
  | elem (e : Item)
  deriving Inhabited

structure IDoc where
  version : Option Str
  encoding : Option Str
  standalone : Option Bool
  kids : List TopItem
  deriving Inhabited

inductive XErr where
  | syntax            -- the grammar does not match (nom Err)
  | rest              -- a document was parsed but input is left over
  | reference         -- undeclared entity / non-character code point
  | duplicateAttr
  | unsupported       -- parameter entities
  | shape             -- the CST does not have the shape `abs` expects (translator drift)
  | fuel
  deriving DecidableEq, Inhabited, Repr

def findL (n : Nat) (l : List (Nat × CST)) : Option CST := (l.find? (·.1 == n)).map (·.2)
def allL (n : Nat) (l : List (Nat × CST)) : List CST := (l.filter (·.1 == n)).map (·.2)

/-! ### names -/
def absQName (c : CST) : QN :=   -- body of `qname`
  match c.kidsL with
  | [(_, b)] => match b.kidsL with
      | [(_, p), (_, l)] => if (b.kidsL.length == 2) then ⟨some p.flatten, l.flatten⟩ else ⟨none, b.flatten⟩
      | _ => ⟨none, b.flatten⟩
  | _ => ⟨none, c.flatten⟩

def xmlnsS : Str := ['x', 'm', 'l', 'n', 's']

def absNsAttName (c : CST) : QN :=   -- body of `ns_att_name`
  match c.kidsL with
  | [(_, p)] => ⟨some xmlnsS, p.flatten⟩
  | _ => ⟨none, xmlnsS⟩

def QN.text (q : QN) : Str := match q.pre with | some p => p ++ ':' :: q.loc | none => q.loc

/-! ### references and literals -/
def absCharRef (c : CST) : Piece :=   -- body of `char_ref`: "&#ddd;" or "&#xhhh;"
  let t := c.flatten
  match t with
  | '&' :: '#' :: 'x' :: r => .charRef (r.dropLast) true
  | '&' :: '#' :: r => .charRef (r.dropLast) false
  | _ => .charRef [] false

def absReference (c : CST) : Piece :=   -- body of `reference`
  match c.kidsL with
  | [(n, b)] => if n == N.char_ref then absCharRef b else
      (match b.kidsL with | [(_, nm)] => .entRef nm.flatten | _ => .entRef [])
  | _ => .entRef []

def absPieces (c : CST) : List Piece :=   -- body of `att_value` / `entity_value`: drop the quotes
  let ts := c.toks
  let inner := (ts.drop 1).dropLast
  inner.map fun
    | .leaf s => .text s
    | .node n b => if n == N.reference then absReference b
                   else if n == N.pe_reference then (match b.kidsL with | [(_, nm)] => .peRef nm.flatten | _ => .peRef [])
                   else .text b.flatten

def unquote (s : Str) : Str := (s.drop 1).dropLast

def absExternalId (c : CST) : Option Str × Str :=   -- body of `external_id`: (public, system)
  match c.kidsL with
  | [(_, s)] => (none, unquote s.flatten)
  | [(_, p), (_, s)] => (some (unquote p.flatten), unquote s.flatten)
  | _ => (none, [])

/-! ### comments, PIs, CDATA -/
def absComment (c : CST) : Str := ((c.flatten.drop 4).dropLast).dropLast.dropLast
def absCData (c : CST) : Str := ((c.flatten.drop 9).dropLast).dropLast.dropLast

def isWs (c : Char) : Bool := c == ' ' || c == '\t' || c == '\r' || c == '\n'

def absPI (c : CST) : Str × Option Str :=   -- body of `pi`
  let target := match findL N.pi_target c.kidsL with | some t => t.flatten | none => []
  let after := (c.flatten.drop (2 + target.length))
  let body := after.dropLast.dropLast
  match body with
  | [] => (target, none)
  | _ => (target, some (body.dropWhile isWs))

/-! ### attributes and elements -/
def absAttribute (c : CST) : Attr :=   -- body of `attribute`
  let ks := c.kidsL
  let name := match ks.head? with
    | some (n, b) => if n == N.ns_att_name then absNsAttName b else absQName b
    | none => ⟨none, []⟩
  let vals := match findL N.att_value ks with | some v => absPieces v | none => []
  ⟨name, vals⟩

def absTag (c : CST) : QN × List Attr :=   -- body of `stag` / `empty_entity_tag`
  let ks := c.kidsL
  let name := match findL N.qname ks with | some q => absQName q | none => ⟨none, []⟩
  (name, (allL N.attribute_ ks).map absAttribute)

/-- the labelled children an element is read from: `element` delegates to `element_body` behind the recursion-depth guard -/
def elemKids (c : CST) : List (Nat × CST) :=
  match c.kidsL with | [(n, b)] => if n == N.element_body then b.kidsL else c.kidsL | l => l

mutual
/-- body of `element`; fuel bounds the nesting depth (supplied as the size of the tree) -/
def absElement : Nat → CST → Item
  | 0, _ => .elem ⟨none, []⟩ [] []
  | f+1, c =>
    let ks := elemKids c
    match findL N.empty_entity_tag ks with
    | some t => let (n, as) := absTag t; .elem n as []
    | none =>
      let (n, as) := match findL N.stag ks with | some t => absTag t | none => (⟨none, []⟩, [])
      let kids := match findL N.content ks with | some ct => absContent f ct.kidsL | none => []
      .elem n as kids
def absContent : Nat → List (Nat × CST) → List Item
  | _, [] => []
  | f, (n, b) :: rest =>
    let tail := absContent f rest
    if n == N.char_data then (if b.flatten.isEmpty then tail else .text b.flatten :: tail)
    else if n == N.element then absElement f b :: tail
    else if n == N.reference then
      (match absReference b with
       | .charRef d h => .charRef d h :: tail
       | .entRef nm => .entRef nm :: tail
       | _ => tail)
    else if n == N.cdsect then .cdata (absCData b) :: tail
    else if n == N.pi then (let (t, d) := absPI b; .pi t d :: tail)
    else if n == N.comment then .comment (absComment b) :: tail
    else tail
end

/-! ### DTD -/
def startsWith (p s : Str) : Bool := (stripPrefix p s).isSome

def absAttType (c : CST) : AttType :=   -- body of `att_type`
  match c.kidsL with
  | [(_, e)] => (match e.kidsL with
      | [(n, b)] => if n == N.notation_type then .notation ((allL N.name b.kidsL).map (·.flatten))
                    else .enumeration ((allL N.nmtoken b.kidsL).map (·.flatten))
      | _ => .cdata)
  | _ =>
    let t := c.flatten
    if startsWith ['C', 'D', 'A', 'T', 'A'] t then .cdata else if startsWith ['I', 'D', 'R', 'E', 'F', 'S'] t then .idrefs
    else if startsWith ['I', 'D', 'R', 'E', 'F'] t then .idref else if startsWith ['I', 'D'] t then .id
    else if startsWith ['E', 'N', 'T', 'I', 'T', 'I', 'E', 'S'] t then .entities else if startsWith ['E', 'N', 'T', 'I', 'T', 'Y'] t then .entity
    else if startsWith ['N', 'M', 'T', 'O', 'K', 'E', 'N', 'S'] t then .nmtokens else .nmtoken

def absDefault (c : CST) : AttDefault :=   -- body of `default_decl`
  let t := c.flatten
  if startsWith ['#', 'R', 'E', 'Q', 'U', 'I', 'R', 'E', 'D'] t then .required
  else if startsWith ['#', 'I', 'M', 'P', 'L', 'I', 'E', 'D'] t then .implied
  else .value (startsWith ['#', 'F', 'I', 'X', 'E', 'D'] t)
    (match findL N.att_value c.kidsL with | some v => absPieces v | none => [])

def absAttDef (c : CST) : AttDef :=   -- body of `att_def`
  let ks := c.kidsL
  let name := match ks.head? with
    | some (n, b) => if n == N.ns_att_name then absNsAttName b else absQName b
    | none => ⟨none, []⟩
  ⟨name, (match findL N.att_type ks with | some t => absAttType t | none => .cdata),
         (match findL N.default_decl ks with | some d => absDefault d | none => .implied)⟩

/-- one `markup_decl`; `none` = dropped by the library (element declarations, comments);
    parameter-entity declarations are reported as unsupported -/
def absMarkup (c : CST) : Except XErr (Option DtdItem) :=
  match c.kidsL with
  | [(n, b)] =>
    if n == N.attlist_decl then
      let ks := b.kidsL
      .ok (some (.attlist (match findL N.qname ks with | some q => absQName q | none => ⟨none, []⟩)
        ((allL N.att_def ks).map absAttDef)))
    else if n == N.entity_decl then
      (match b.kidsL with
       | [(m, g)] =>
         if m == N.ge_decl then
           let ks := g.kidsL
           let name := match findL N.name ks with | some x => x.flatten | none => []
           let d := match findL N.entity_def ks with
             | some ed => (match ed.kidsL with
                 | [(k, v)] => if k == N.entity_value then EntDef.internal (absPieces v)
                               else let (p, s) := absExternalId v; .external p s none
                 | [(_, v), (_, nd)] => let (p, s) := absExternalId v
                     .external p s (some (match nd.kidsL with | [(_, x)] => x.flatten | _ => []))
                 | _ => .internal [])
             | none => .internal []
           .ok (some (.entity name d))
         else .error .unsupported
       | _ => .error .shape)
    else if n == N.notation_decl then
      let ks := b.kidsL
      let name := match findL N.name ks with | some x => x.flatten | none => []
      (match ks with
       | [_, (k, v)] =>
         if k == N.external_id then let (p, s) := absExternalId v; .ok (some (.notation name p (some s)))
         else .ok (some (.notation name (some (match v.kidsL with | [(_, x)] => unquote x.flatten | _ => [])) none))
       | _ => .error .shape)
    else if n == N.pi then let (t, d) := absPI b; .ok (some (.pi t d))
    else .ok none
  | _ => .error .shape

def absIntSubset : List (Nat × CST) → Except XErr (List DtdItem)
  | [] => .ok []
  | (n, b) :: rest =>
    if n == N.markup_decl then
      match absMarkup b with
      | .error e => .error e
      | .ok x => match absIntSubset rest with
          | .error e => .error e
          | .ok xs => .ok (match x with | some i => i :: xs | none => xs)
    else if n == N.decl_sep then
      (if b.kidsL.isEmpty then absIntSubset rest else .error .unsupported)
    else absIntSubset rest

def absDoctype (c : CST) : Except XErr Doctype :=   -- body of `doctype_decl`
  let ks := c.kidsL
  let name := match findL N.qname ks with | some q => absQName q | none => ⟨none, []⟩
  let (p, s) := match findL N.external_id ks with
    | some e => let (p, s) := absExternalId e; (p, some s)
    | none => (none, none)
  match (match findL N.int_subset ks with | some i => absIntSubset i.kidsL | none => .ok []) with
  | .error e => .error e
  | .ok kids => .ok ⟨name, p, s, kids⟩

/-! ### document -/
def absMisc (c : CST) : Option TopItem :=   -- body of `misc`
  match c.kidsL with
  | [(n, b)] => if n == N.comment then some (.comment (absComment b))
                else if n == N.pi then (let (t, d) := absPI b; some (.pi t d)) else none
  | _ => none

mutual
/-- element nesting depth of a tree (number of nested `element` nodes) -/
def CST.elemDepth : CST → Nat
  | .leaf _ => 0
  | .node n c => if n == N.element then c.elemDepth + 1 else c.elemDepth
  | .seq ks => elemDepthL ks
  | .many ks => elemDepthL ks
def elemDepthL : List CST → Nat
  | [] => 0
  | c :: cs => max c.elemDepth (elemDepthL cs)
end

mutual
/-- nesting depth of nodes of nonterminal `nt` in a tree -/
def CST.ntDepth (nt : Nat) : CST → Nat
  | .leaf _ => 0
  | .node n c => if n == nt then c.ntDepth nt + 1 else c.ntDepth nt
  | .seq ks => ntDepthL nt ks
  | .many ks => ntDepthL nt ks
def ntDepthL (nt : Nat) : List CST → Nat
  | [] => 0
  | c :: cs => max (c.ntDepth nt) (ntDepthL nt cs)
end

def absProlog : List (Nat × CST) → Except XErr (List TopItem)
  | [] => .ok []
  | (n, b) :: rest =>
    match absProlog rest with
    | .error e => .error e
    | .ok xs =>
      if n == N.misc then .ok (match absMisc b with | some i => i :: xs | none => xs)
      else if n == N.doctype_decl then
        (match absDoctype b with | .error e => .error e | .ok d => .ok (.doctype d :: xs))
      else .ok xs

def absDocument (c : CST) : Except XErr IDoc :=   -- body of `document`
  let ks := c.kidsL
  let prolog := match findL N.prolog ks with | some p => p.kidsL | none => []
  let xd := findL N.xml_decl prolog
  let version := xd.bind fun x => (findL N.version_info x.kidsL).bind fun v =>
    (findL N.version_num v.kidsL).map (·.flatten)
  let encoding := xd.bind fun x => (findL N.encoding_decl x.kidsL).bind fun v =>
    (findL N.enc_name v.kidsL).map (·.flatten)
  let standalone := xd.bind fun x => (findL N.sd_decl x.kidsL).map fun v =>
    hasSub ['y', 'e', 's'] v.flatten
  match absProlog prolog with
  | .error e => .error e
  | .ok heads =>
    let root := match findL N.element ks with
      | some e => [TopItem.elem (absElement (e.size + 1) e)]
      | none => []
    let tails := (allL N.misc ks).filterMap absMisc
    .ok ⟨version, encoding, standalone, heads ++ root ++ tails⟩

end XmlRs
