import XmlRsModel.XmlDoc
/-! Attribute defaults and attribute-value normalisation (XML 1.0 3.3.2, 3.3.3); model of
    `XmlElement::attributes`, `XmlAttribute::normalized_value`, `attr_value_from_name`, `normalize_ws`. -/
namespace XmlRs

def xmlnsQ (q : QN) : Bool := q.pre == some xmlnsS || (q.pre == none && q.loc == xmlnsS)

/-- all attribute definitions for an element type: every ATTLIST for that name is consulted, the
    first definition of an attribute name is binding (XML 1.0 3.3) -/
def attDefsFor (dt : Option Doctype) (e : QN) : List AttDef :=
  match dt with
  | none => []
  | some d =>
    let all := d.kids.flatMap fun | .attlist n defs => if n == e then defs else [] | _ => []
    all.foldl (fun acc d => if acc.any (·.name == d.name) then acc else acc ++ [d]) []

/-- the attributes of an element with their `specified` flag: those written in the tag, then one
    per declared default that is not written.  `reqQuirk`: the library also materialises
    `#REQUIRED` declarations as empty unspecified attributes (pinned by its test-suite, recorded
    finding `required-default`). -/
def elemAttrs (reqQuirk : Bool) (dt : Option Doctype) (e : QN) (attrs : List Attr) : List (Attr × Bool) :=
  let written := attrs.map (·, true)
  let defaults := (attDefsFor dt e).filterMap fun d =>
    if attrs.any (·.name == d.name) then none else
    match d.dflt with
    | .value _ vs => some (⟨d.name, vs⟩, false)
    | .required => if reqQuirk then some (⟨d.name, []⟩, false) else none
    | .implied => none
  written ++ defaults

def normWsChar (c : Char) : Char := if c == '\t' || c == '\n' || c == '\r' then ' ' else c

/-- 3.3.3: white space characters become spaces -/
def normalizeWs (s : Str) : Str := s.map normWsChar

/-- recursive expansion of an entity reference inside an attribute value; `fuel` bounds the depth
    by the number of declared entities, `open_` is the chain of names being expanded -/
def expandEnt (t : EntTable) : Nat → List Str → Str → Except XErr Str
  | 0, _, _ => .error .reference
  | fuel+1, open_, name =>
    if open_.contains name then .error .reference else
    match lookupEnt t name with
    | none => .error .reference
    | some (.external _ _ _) => .ok []
    | some (.internal vs) =>
      let rec go : List Piece → Except XErr Str
        | [] => .ok []
        | .text s :: r => (match go r with | .ok x => .ok (normalizeWs s ++ x) | .error e => .error e)
        | .charRef d h :: r => (match charOfRef d h with
            | none => .error .reference
            | some c => match go r with | .ok x => .ok (c :: x) | .error e => .error e)
        | .entRef n :: r => (match expandEnt t fuel (name :: open_) n with
            | .error e => .error e
            | .ok a => match go r with | .ok x => .ok (a ++ x) | .error e => .error e)
        | .peRef _ :: _ => .error .unsupported
      go vs

/-- collapse: drop leading/trailing spaces, runs of spaces become one (only #x20) -/
def collapseSpaces (s : Str) : Str :=
  let rec go : Str → Bool → Str   -- pending: a space is owed before the next non-space
    | [], _ => []
    | c :: r, pend => if c == ' ' then go r true else (if pend then ' ' :: c :: go r false else c :: go r false)
  match s.dropWhile (· == ' ') with
  | [] => []
  | c :: r => c :: go r false

def normalizedValue (t : EntTable) (ty : Option AttType) (vals : List Piece) : Except XErr Str :=
  let rec go : List Piece → Except XErr Str
    | [] => .ok []
    | .text s :: r => (match go r with | .ok x => .ok (normalizeWs s ++ x) | .error e => .error e)
    | .charRef d h :: r => (match charOfRef d h with
        | none => .error .reference
        | some c => match go r with | .ok x => .ok (c :: x) | .error e => .error e)
    | .entRef n :: r => (match expandEnt t (t.length + 6) [] n with
        | .error e => .error e
        | .ok a => match go r with | .ok x => .ok (a ++ x) | .error e => .error e)
    | .peRef _ :: _ => .error .unsupported
  match go vals with
  | .error e => .error e
  | .ok v => match ty with
      | some .cdata => .ok v
      | none => .ok v
      | some _ => .ok (collapseSpaces v)

end XmlRs
