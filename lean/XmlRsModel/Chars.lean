import XmlRsModel.Basic
/-! XML 1.0 Fifth Edition character-class productions, transcribed in the Recommendation's order.
    These are SPECIFICATION text (trusted transcription); the implementation's tables are in
    `Gen/CharTables.lean`, extracted from the running code on every check run. -/
namespace XmlRs.Spec

/-- [2] Char ::= #x9 | #xA | #xD | [#x20-#xD7FF] | [#xE000-#xFFFD] | [#x10000-#x10FFFF] -/
def charRanges : List (Nat × Nat) :=
  [(0x9,0x9),(0xA,0xA),(0xD,0xD),(0x20,0xD7FF),(0xE000,0xFFFD),(0x10000,0x10FFFF)]

/-- [4] NameStartChar ::= ":" | [A-Z] | "_" | [a-z] | [#xC0-#xD6] | [#xD8-#xF6] | [#xF8-#x2FF] |
    [#x370-#x37D] | [#x37F-#x1FFF] | [#x200C-#x200D] | [#x2070-#x218F] | [#x2C00-#x2FEF] |
    [#x3001-#xD7FF] | [#xF900-#xFDCF] | [#xFDF0-#xFFFD] | [#x10000-#xEFFFF] -/
def nameStartRanges : List (Nat × Nat) :=
  [(0x3A,0x3A),(0x41,0x5A),(0x5F,0x5F),(0x61,0x7A),(0xC0,0xD6),(0xD8,0xF6),(0xF8,0x2FF),
   (0x370,0x37D),(0x37F,0x1FFF),(0x200C,0x200D),(0x2070,0x218F),(0x2C00,0x2FEF),
   (0x3001,0xD7FF),(0xF900,0xFDCF),(0xFDF0,0xFFFD),(0x10000,0xEFFFF)]

/-- [4a] NameChar ::= NameStartChar | "-" | "." | [0-9] | #xB7 | [#x0300-#x036F] | [#x203F-#x2040] -/
def nameCharRanges : List (Nat × Nat) :=
  nameStartRanges ++ [(0x2D,0x2D),(0x2E,0x2E),(0x30,0x39),(0xB7,0xB7),(0x300,0x36F),(0x203F,0x2040)]

/-- [13] PubidChar ::= #x20 | #xD | #xA | [a-zA-Z0-9] | [-'()+,./:=?;!*#@$_%] -/
def pubidRanges : List (Nat × Nat) :=
  [(0x20,0x20),(0xD,0xD),(0xA,0xA),(0x61,0x7A),(0x41,0x5A),(0x30,0x39),
   (0x2D,0x2D),(0x27,0x27),(0x28,0x28),(0x29,0x29),(0x2B,0x2B),(0x2C,0x2C),(0x2E,0x2E),(0x2F,0x2F),
   (0x3A,0x3A),(0x3D,0x3D),(0x3F,0x3F),(0x3B,0x3B),(0x21,0x21),(0x2A,0x2A),(0x23,0x23),(0x40,0x40),
   (0x24,0x24),(0x5F,0x5F),(0x25,0x25)]

/-- [81] EncName ::= [A-Za-z] ([A-Za-z0-9._] | '-')*  — the class of the non-initial characters -/
def encNameRanges : List (Nat × Nat) :=
  [(0x41,0x5A),(0x61,0x7A),(0x30,0x39),(0x2E,0x2E),(0x5F,0x5F),(0x2D,0x2D)]

def isChar (c : Nat) : Bool := inRanges charRanges c
def isNameStartChar (c : Nat) : Bool := inRanges nameStartRanges c
def isNameChar (c : Nat) : Bool := inRanges nameCharRanges c
def isPubidChar (c : Nat) : Bool := inRanges pubidRanges c
def isEncNameChar (c : Nat) : Bool := inRanges encNameRanges c

/-- [5] Name ::= NameStartChar (NameChar)* -/
def isName : Str → Bool
  | [] => false
  | c :: cs => isNameStartChar c.toNat && cs.all (fun d => isNameChar d.toNat)

/-- [7] Nmtoken ::= (NameChar)+ -/
def isNmtoken (s : Str) : Bool := !s.isEmpty && s.all (fun d => isNameChar d.toNat)

/-- Namespaces [4] NCName ::= Name - (Char* ':' Char*) -/
def isNCName (s : Str) : Bool := isName s && !s.contains ':'

/-- Namespaces [7] QName ::= PrefixedName | UnprefixedName: at most one colon separating two
    non-empty NCNames -/
def isQName (s : Str) : Bool :=
  isNCName s ||
  (match (spanP (· != ':') s) with
   | (p, ':' :: l) => isNCName p && isNCName l
   | _ => false)

/-- the reserved target: ('X'|'x')('M'|'m')('L'|'l') -/
def isXmlReserved : Str → Bool
  | [a, b, c] => (a = 'x' || a = 'X') && (b = 'm' || b = 'M') && (c = 'l' || c = 'L')
  | _ => false

/-- [17] PITarget ::= Name - (('X'|'x')('M'|'m')('L'|'l')) -/
def isPITarget (s : Str) : Bool := isName s && !isXmlReserved s

end XmlRs.Spec
