import XmlRsModel.XmlDoc
/-! Concrete documents: abstract items together with the surface-syntax choices a rendering makes (white space inside
    tags, quote characters, empty-element tag versus start/end pair).  `str` writes a concrete document, `erase`
    forgets the choices; `canon` is the layout the compact printer uses (`str (canon i) = printItem i`).
    Used to state completeness of the parser: EVERY rendering of an abstract document parses to that document
    (properties C01 and C04).  Profile covered so far: optional XML declaration, no DOCTYPE. -/
namespace XmlRs
open Gen.Xml

structure CAttr where
  ws : Str        -- S before the attribute (at least one character)
  name : QN
  ws1 : Str       -- S? before `=`
  ws2 : Str       -- S? after `=`
  q : Char        -- the quote character
  vals : List Piece
  deriving Inhabited

inductive CItem where
  | text (s : Str)
  | charRef (digits : Str) (hex : Bool)
  | entRef (name : Str)
  | cdata (s : Str)
  /-- `body` is everything between the target and `?>`: empty, or white space followed by the data -/
  | pi (target : Str) (body : Str)
  | comment (s : Str)
  /-- `empty = true`: `<n attrs ws/>` (then `kids = []`); otherwise `<n attrs ws>kids</n ws'>` -/
  | elem (name : QN) (attrs : List CAttr) (ws : Str) (empty : Bool) (kids : List CItem) (ws' : Str)
  deriving Inhabited

/-- Misc ::= Comment | PI | S -/
inductive CMisc where
  | comment (s : Str)
  | pi (target : Str) (body : Str)
  | ws (w : Str)
  deriving Inhabited

/-- `<?xml` S `version` Eq q 1.n q (S `encoding` Eq q name q)? (S `standalone` Eq q yes|no q)? S? `?>` -/
structure CDecl where
  wsV : Str
  eqV1 : Str
  eqV2 : Str
  qV : Char
  minor : Str         -- the digits after `1.`
  enc : Option (Str × Str × Str × Char × Str)     -- S, S? `=` S?, quote, name
  sd : Option (Str × Str × Str × Char × Bool)
  wsEnd : Str
  deriving Inhabited


/-! ### concrete syntax of the DOCTYPE declaration and its internal subset -/
inductive Occ where
  | one | opt | star | plus
  deriving Inhabited, DecidableEq

def Occ.str : Occ → Str
  | .one => [] | .opt => ['?'] | .star => ['*'] | .plus => ['+']

mutual
/-- content particle: a name or a parenthesised choice / sequence, with an occurrence indicator -/
inductive CCp where
  | name (n : QN) (o : Occ)
  /-- `(` ws0 first (w1 sep w2 cp)* ws1 `)` o, `sep` = `|` if `choice` else `,` -/
  | group (ws0 : Str) (first : CCp) (choice : Bool) (rest : CCpTail) (ws1 : Str) (o : Occ)
inductive CCpTail where
  | nil
  | cons (w1 w2 : Str) (p : CCp) (t : CCpTail)
end

inductive CSpec where
  | empty | any
  /-- `(` ws0 `#PCDATA` (w1 `|` w2 Name)* ws1 `)*` -/
  | mixedStar (ws0 : Str) (names : List (Str × Str × QN)) (ws1 : Str)
  /-- `(` ws0 `#PCDATA` ws1 `)` -/
  | mixedPlain (ws0 ws1 : Str)
  /-- a group with its occurrence indicator -/
  | children (ws0 : Str) (first : CCp) (choice : Bool) (rest : CCpTail) (ws1 : Str) (o : Occ)

inductive CAttType where
  | kw (t : AttType)
  /-- `NOTATION` ws0 `(` ws1 Name (w `|` w' Name)* ws2 `)` -/
  | notationTy (ws0 ws1 : Str) (first : Str) (rest : List (Str × Str × Str)) (ws2 : Str)
  /-- `(` ws0 Nmtoken (w `|` w' Nmtoken)* ws1 `)` -/
  | enumeration (ws0 : Str) (first : Str) (rest : List (Str × Str × Str)) (ws1 : Str)

inductive CDefault where
  | required | implied
  /-- (`#FIXED` ws)? quote value quote -/
  | value (fixed : Option Str) (q : Char) (vals : List Piece)

structure CAttDef where
  ws0 : Str
  name : QN
  ws1 : Str
  ty : CAttType
  ws2 : Str
  dflt : CDefault

inductive CExtId where
  /-- `SYSTEM` ws quote literal quote -/
  | sysId (ws : Str) (q : Char) (lit : Str)
  /-- `PUBLIC` ws quote pubid quote ws2 quote literal quote -/
  | pubId (ws : Str) (qp : Char) (pub : Str) (ws2 : Str) (qs : Char) (sys : Str)

inductive CEntDef where
  | internal (q : Char) (vals : List Piece)
  /-- external id, then optionally ws `NDATA` ws' Name -/
  | external (id : CExtId) (ndata : Option (Str × Str × Str))

inductive CNotId where
  | ext (id : CExtId)
  /-- `PUBLIC` ws quote pubid quote -/
  | pubOnly (ws : Str) (q : Char) (pub : Str)

inductive CDtdItem where
  | ws (w : Str)
  | comment (s : Str)
  | pi (target : Str) (body : Str)
  /-- `<!ELEMENT` ws0 name ws1 spec ws2 `>` -/
  | elementDecl (ws0 : Str) (name : QN) (ws1 : Str) (spec : CSpec) (ws2 : Str)
  /-- `<!ATTLIST` ws0 name defs ws1 `>` -/
  | attlist (ws0 : Str) (elem : QN) (defs : List CAttDef) (ws1 : Str)
  /-- `<!ENTITY` ws0 name ws1 def ws2 `>` -/
  | entity (ws0 : Str) (name : Str) (ws1 : Str) (d : CEntDef) (ws2 : Str)
  /-- `<!NOTATION` ws0 name ws1 id ws2 `>` -/
  | notationDecl (ws0 : Str) (name : Str) (ws1 : Str) (id : CNotId) (ws2 : Str)

/-- `<!DOCTYPE` ws0 name (wsE extid)? ws1 (`[` items `]` ws2)? `>` -/
structure CDoctype where
  ws0 : Str
  name : QN
  ext : Option (Str × CExtId)
  ws1 : Str
  subset : Option (List CDtdItem × Str)

structure CDoc where
  decl : Option CDecl
  before : List CMisc
  root : CItem
  after : List CMisc
  /-- the DOCTYPE declaration and the Misc items between it and the document element -/
  doctype : Option (CDoctype × List CMisc)

/-! ### writing -/
def isQuote (q : Char) : Bool := q == '"' || q == '\''

def CAttr.str (a : CAttr) : Str :=
  a.ws ++ (a.name.text ++ (a.ws1 ++ ('=' :: (a.ws2 ++ (a.q :: (printPieces a.vals ++ [a.q]))))))

def attrsText : List CAttr → Str
  | [] => []
  | a :: r => a.str ++ attrsText r

def piText (t b : Str) : Str := '<' :: '?' :: (t ++ (b ++ ['?', '>']))
def commentText (s : Str) : Str := '<' :: '!' :: '-' :: '-' :: (s ++ ['-', '-', '>'])
def cdataOpen : Str := ['<', '!', '[', 'C', 'D', 'A', 'T', 'A', '[']
def cdataText (s : Str) : Str := cdataOpen ++ (s ++ [']', ']', '>'])

mutual
def CItem.str : CItem → Str
  | .text s => s
  | .charRef d h => printPiece (.charRef d h)
  | .entRef n => printPiece (.entRef n)
  | .cdata s => cdataText s
  | .pi t b => piText t b
  | .comment s => commentText s
  | .elem n as w e ks w' =>
      '<' :: (n.text ++ (attrsText as ++ (w ++
        (if e then ['/', '>'] else '>' :: (strL ks ++ ('<' :: '/' :: (n.text ++ (w' ++ ['>']))))))))
def strL : List CItem → Str
  | [] => []
  | i :: r => i.str ++ strL r
end

def CMisc.str : CMisc → Str
  | .comment s => commentText s
  | .pi t b => piText t b
  | .ws w => w

def miscText : List CMisc → Str
  | [] => []
  | m :: r => m.str ++ miscText r

def kwVersion : Str := ['v', 'e', 'r', 's', 'i', 'o', 'n']
def kwEncoding : Str := ['e', 'n', 'c', 'o', 'd', 'i', 'n', 'g']
def kwStandalone : Str := ['s', 't', 'a', 'n', 'd', 'a', 'l', 'o', 'n', 'e']
def yesNo (b : Bool) : Str := if b then ['y', 'e', 's'] else ['n', 'o']

def encText : Option (Str × Str × Str × Char × Str) → Str
  | none => []
  | some (w, e1, e2, q, name) => w ++ (kwEncoding ++ (e1 ++ ('=' :: (e2 ++ (q :: (name ++ [q]))))))

def sdText : Option (Str × Str × Str × Char × Bool) → Str
  | none => []
  | some (w, e1, e2, q, b) => w ++ (kwStandalone ++ (e1 ++ ('=' :: (e2 ++ (q :: (yesNo b ++ [q]))))))

def CDecl.str (x : CDecl) : Str :=
  ['<', '?', 'x', 'm', 'l'] ++ (x.wsV ++ (kwVersion ++ (x.eqV1 ++ ('=' :: (x.eqV2 ++ (x.qV :: ('1' :: '.' :: (x.minor ++ (x.qV ::
    (encText x.enc ++ (sdText x.sd ++ (x.wsEnd ++ ['?', '>']))))))))))))

def declText : Option CDecl → Str
  | none => []
  | some x => x.str


/-! ### forgetting the layout -/
def CAttr.erase (a : CAttr) : Attr := ⟨a.name, a.vals⟩

def piData (b : Str) : Option Str := match b with | [] => none | _ => some (b.dropWhile isWs)

mutual
def CItem.erase : CItem → Item
  | .text s => .text s
  | .charRef d h => .charRef d h
  | .entRef n => .entRef n
  | .cdata s => .cdata s
  | .pi t b => .pi t (piData b)
  | .comment s => .comment s
  | .elem n as _ _ ks _ => .elem n (as.map CAttr.erase) (eraseL ks)
def eraseL : List CItem → List Item
  | [] => []
  | i :: r => i.erase :: eraseL r
end

def CMisc.erase : CMisc → Option TopItem
  | .comment s => some (.comment s)
  | .pi t b => some (.pi t (piData b))
  | .ws _ => none

/-! ### which concrete documents are renderings (the lexical side conditions of the productions) -/
abbrev ncRestC : Char → Bool := P.except P.isNameChar [':']

/-- NCName: a NameStartChar other than ':' followed by NameChars other than ':' -/
def okNc : Str → Bool
  | [] => false
  | c :: r => (c != ':' && P.isNameStartChar c) && r.all ncRestC

def okQN (q : QN) : Bool := (match q.pre with | some p => okNc p | none => true) && okNc q.loc

def okWs (w : Str) : Bool := w.all P.isSpace

/-- a piece of an attribute value written between quotes `q` -/
def okPiece (q : Char) : Piece → Bool
  | .text s => !s.isEmpty && s.all (P.except P.isChar ['<', '&', q])
  | .charRef d h => !d.isEmpty && d.all (if h then P.isHexDigit else P.isDigit)
  | .entRef n => n.all P.isNameChar
  | .peRef _ => false

/-- two text pieces next to each other would be read as one -/
def adjText : List Piece → Bool
  | .text _ :: .text _ :: _ => true
  | _ :: r => adjText r
  | [] => false

def okAttr (a : CAttr) : Bool :=
  !a.ws.isEmpty && okWs a.ws && okQN a.name && okWs a.ws1 && okWs a.ws2 && (a.q == '"' || a.q == '\'') &&
  a.vals.all (okPiece a.q) && !adjText a.vals

/-- [15] the text between `<!--` and `-->`: `((Char - '-') | ('-' (Char - '-')))*` -/
def okCommentBody : Str → Bool
  | [] => true
  | ['-'] => false
  | '-' :: d :: r => P.isChar d && d != '-' && okCommentBody r
  | c :: r => P.isChar c && okCommentBody r

def okPI (t b : Str) : Bool :=
  t.all P.isNameChar && !P.eqIgnoreAsciiCase t ['x', 'm', 'l'] &&
  (match b with | [] => true | c :: _ => P.isSpace c) && b.all P.isChar && !hasSub ['?', '>'] b

def isTextItem : CItem → Bool
  | .text _ => true
  | _ => false

def adjTextI : List CItem → Bool
  | [] => false
  | i :: r => (isTextItem i && (match r with | j :: _ => isTextItem j | [] => false)) || adjTextI r

mutual
def okItem : CItem → Bool
  | .text s => !s.isEmpty && s.all (P.except P.isChar ['<', '&']) && !hasSub [']', ']', '>'] s
  | .charRef d h => !d.isEmpty && d.all (if h then P.isHexDigit else P.isDigit)
  | .entRef n => n.all P.isNameChar
  | .cdata s => s.all P.isChar && !hasSub [']', ']', '>'] s
  | .pi t b => okPI t b
  | .comment s => okCommentBody s
  | .elem n as w e ks w' =>
      okQN n && as.all okAttr && okWs w && okWs w' && (!e || ks.isEmpty) && okItems ks && !adjTextI ks
def okItems : List CItem → Bool
  | [] => true
  | i :: r => okItem i && okItems r
end

def okMisc : CMisc → Bool
  | .comment s => okCommentBody s
  | .pi t b => okPI t b
  | .ws w => !w.isEmpty && okWs w

def isElemItem : CItem → Bool
  | .elem .. => true
  | _ => false

/-! ### writing the DOCTYPE declaration -/
def kwELEMENT : Str := ['<', '!', 'E', 'L', 'E', 'M', 'E', 'N', 'T']
def kwATTLIST : Str := ['<', '!', 'A', 'T', 'T', 'L', 'I', 'S', 'T']
def kwENTITY : Str := ['<', '!', 'E', 'N', 'T', 'I', 'T', 'Y']
def kwNOTATION : Str := ['<', '!', 'N', 'O', 'T', 'A', 'T', 'I', 'O', 'N']
def kwDOCTYPE : Str := ['<', '!', 'D', 'O', 'C', 'T', 'Y', 'P', 'E']
def kwPCDATA : Str := ['#', 'P', 'C', 'D', 'A', 'T', 'A']
def kwSYSTEM : Str := ['S', 'Y', 'S', 'T', 'E', 'M']
def kwPUBLIC : Str := ['P', 'U', 'B', 'L', 'I', 'C']
def kwNDATA : Str := ['N', 'D', 'A', 'T', 'A']
def kwNOTATIONty : Str := ['N', 'O', 'T', 'A', 'T', 'I', 'O', 'N']
def kwFIXED : Str := ['#', 'F', 'I', 'X', 'E', 'D']
def kwREQUIRED : Str := ['#', 'R', 'E', 'Q', 'U', 'I', 'R', 'E', 'D']
def kwIMPLIED : Str := ['#', 'I', 'M', 'P', 'L', 'I', 'E', 'D']

def sepChar (choice : Bool) : Char := if choice then '|' else ','

mutual
def CCp.str : CCp → Str
  | .name n o => n.text ++ o.str
  | .group w0 f ch rest w1 o => '(' :: (w0 ++ (f.str ++ (CCpTail.str ch rest ++ (w1 ++ (')' :: o.str)))))
def CCpTail.str (ch : Bool) : CCpTail → Str
  | .nil => []
  | .cons a b p t => a ++ (sepChar ch :: (b ++ (p.str ++ CCpTail.str ch t)))
end

/-- (S? `|` S? token)* -/
def sepTextG {α : Type} (txt : α → Str) : List (Str × Str × α) → Str
  | [] => []
  | (a, b, n) :: r => a ++ ('|' :: (b ++ (txt n ++ sepTextG txt r)))

def namesText (l : List (Str × Str × QN)) : Str := sepTextG QN.text l

def CSpec.str : CSpec → Str
  | .empty => ['E', 'M', 'P', 'T', 'Y']
  | .any => ['A', 'N', 'Y']
  | .mixedStar w0 names w1 => '(' :: (w0 ++ (kwPCDATA ++ (namesText names ++ (w1 ++ [')', '*']))))
  | .mixedPlain w0 w1 => '(' :: (w0 ++ (kwPCDATA ++ (w1 ++ [')'])))
  | .children w0 f ch rest w1 o => (CCp.group w0 f ch rest w1 o).str

def tokensText (l : List (Str × Str × Str)) : Str := sepTextG id l

def CAttType.str : CAttType → Str
  | .kw t => printAttType t
  | .notationTy w0 w1 f rest w2 => kwNOTATIONty ++ (w0 ++ ('(' :: (w1 ++ (f ++ (tokensText rest ++ (w2 ++ [')']))))))
  | .enumeration w0 f rest w1 => '(' :: (w0 ++ (f ++ (tokensText rest ++ (w1 ++ [')']))))

def CDefault.str : CDefault → Str
  | .required => kwREQUIRED
  | .implied => kwIMPLIED
  | .value fixed q vals => (match fixed with | some w => kwFIXED ++ w | none => []) ++ (q :: (printPieces vals ++ [q]))

def CAttDef.str (a : CAttDef) : Str := a.ws0 ++ (a.name.text ++ (a.ws1 ++ (a.ty.str ++ (a.ws2 ++ a.dflt.str))))

def attDefsText : List CAttDef → Str
  | [] => []
  | a :: r => a.str ++ attDefsText r

def CExtId.str : CExtId → Str
  | .sysId w q l => kwSYSTEM ++ (w ++ (q :: (l ++ [q])))
  | .pubId w qp p w2 qs l => kwPUBLIC ++ (w ++ (qp :: (p ++ (qp :: (w2 ++ (qs :: (l ++ [qs])))))))

def CEntDef.str : CEntDef → Str
  | .internal q vals => q :: (printPieces vals ++ [q])
  | .external id nd => id.str ++ (match nd with | some (a, b, n) => a ++ (kwNDATA ++ (b ++ n)) | none => [])

def CNotId.str : CNotId → Str
  | .ext id => id.str
  | .pubOnly w q p => kwPUBLIC ++ (w ++ (q :: (p ++ [q])))

def CDtdItem.str : CDtdItem → Str
  | .ws w => w
  | .comment s => commentText s
  | .pi t b => piText t b
  | .elementDecl w0 n w1 spec w2 => kwELEMENT ++ (w0 ++ (n.text ++ (w1 ++ (spec.str ++ (w2 ++ ['>'])))))
  | .attlist w0 e defs w1 => kwATTLIST ++ (w0 ++ (e.text ++ (attDefsText defs ++ (w1 ++ ['>']))))
  | .entity w0 n w1 d w2 => kwENTITY ++ (w0 ++ (n ++ (w1 ++ (d.str ++ (w2 ++ ['>'])))))
  | .notationDecl w0 n w1 id w2 => kwNOTATION ++ (w0 ++ (n ++ (w1 ++ (id.str ++ (w2 ++ ['>'])))))

def dtdText : List CDtdItem → Str
  | [] => []
  | i :: r => i.str ++ dtdText r

def extText : Option (Str × CExtId) → Str
  | none => []
  | some (w, id) => w ++ id.str

def subsetText : Option (List CDtdItem × Str) → Str
  | none => []
  | some (items, w2) => '[' :: (dtdText items ++ (']' :: w2))

def CDoctype.str (d : CDoctype) : Str :=
  kwDOCTYPE ++ (d.ws0 ++ (d.name.text ++ (extText d.ext ++ (d.ws1 ++ (subsetText d.subset ++ ['>'])))))

/-! ### forgetting the layout of the DOCTYPE declaration -/
def CAttType.erase : CAttType → AttType
  | .kw t => t
  | .notationTy _ _ f rest _ => .notation (f :: rest.map (·.2.2))
  | .enumeration _ f rest _ => .enumeration (f :: rest.map (·.2.2))

def CDefault.erase : CDefault → AttDefault
  | .required => .required
  | .implied => .implied
  | .value fixed _ vals => .value fixed.isSome vals

def CAttDef.erase (a : CAttDef) : AttDef := ⟨a.name, a.ty.erase, a.dflt.erase⟩

def CExtId.erase : CExtId → Option Str × Str
  | .sysId _ _ l => (none, l)
  | .pubId _ _ p _ _ l => (some p, l)

def CEntDef.erase : CEntDef → EntDef
  | .internal _ vals => .internal vals
  | .external id nd => .external id.erase.1 id.erase.2 (nd.map (·.2.2))

def CDtdItem.erase : CDtdItem → Option DtdItem
  | .ws _ => none
  | .comment _ => none
  | .pi t b => some (.pi t (piData b))
  | .elementDecl .. => none
  | .attlist _ e defs _ => some (.attlist e (defs.map CAttDef.erase))
  | .entity _ n _ d _ => some (.entity n d.erase)
  | .notationDecl _ n _ (.ext id) _ => some (.notation n id.erase.1 (some id.erase.2))
  | .notationDecl _ n _ (.pubOnly _ _ p) _ => some (.notation n (some p) none)

def extErasePub : Option (Str × CExtId) → Option Str
  | some (_, id) => id.erase.1
  | none => none

def extEraseSys : Option (Str × CExtId) → Option Str
  | some (_, id) => some id.erase.2
  | none => none

def subsetErase : Option (List CDtdItem × Str) → List DtdItem
  | some (items, _) => items.filterMap CDtdItem.erase
  | none => []

def CDoctype.erase (d : CDoctype) : Doctype := ⟨d.name, extErasePub d.ext, extEraseSys d.ext, subsetErase d.subset⟩

/-! ### lexical side conditions of the DOCTYPE productions -/
def okWs1 (w : Str) : Bool := !w.isEmpty && okWs w

mutual
def okCp : CCp → Bool
  | .name n _ => okQN n
  | .group w0 f ch rest w1 _ => okWs w0 && okCp f && okTail rest && okWs w1 && (!ch || (match rest with | .nil => false | _ => true))
def okTail : CCpTail → Bool
  | .nil => true
  | .cons a b p t => okWs a && okWs b && okCp p && okTail t
end

def okSpec : CSpec → Bool
  | .empty => true
  | .any => true
  | .mixedStar w0 names w1 => okWs w0 && names.all (fun (a, b, n) => okWs a && okWs b && okQN n) && okWs w1
  | .mixedPlain w0 w1 => okWs w0 && okWs w1
  | .children w0 f ch rest w1 o => okCp (.group w0 f ch rest w1 o)

def okNameTok (n : Str) : Bool := !n.isEmpty && n.all P.isNameChar

def isKwType : AttType → Bool
  | .notation _ => false
  | .enumeration _ => false
  | _ => true

def okAttType : CAttType → Bool
  | .kw t => isKwType t
  | .notationTy w0 w1 f rest w2 => okWs1 w0 && okWs w1 && okNameTok f && rest.all (fun (a, b, n) => okWs a && okWs b && okNameTok n) && okWs w2
  | .enumeration w0 f rest w1 => okWs w0 && okNameTok f && rest.all (fun (a, b, n) => okWs a && okWs b && okNameTok n) && okWs w1

def okDefault : CDefault → Bool
  | .required => true
  | .implied => true
  | .value fixed q vals => (match fixed with | some w => okWs1 w | none => true) && isQuote q && vals.all (okPiece q) && !adjText vals

def okAttDef (a : CAttDef) : Bool :=
  okWs1 a.ws0 && okQN a.name && okWs1 a.ws1 && okAttType a.ty && okWs1 a.ws2 && okDefault a.dflt

def okExtId : CExtId → Bool
  | .sysId w q l => okWs1 w && isQuote q && l.all (P.except P.isChar [q])
  | .pubId w qp p w2 qs l => okWs1 w && isQuote qp && p.all (P.except P.isPubidChar [qp]) && okWs1 w2 && isQuote qs && l.all (P.except P.isChar [qs])

/-- a piece of an entity value written between quotes `q` -/
def okPieceE (q : Char) : Piece → Bool
  | .text s => !s.isEmpty && s.all (P.except P.isChar ['%', '&', q])
  | .charRef d h => !d.isEmpty && d.all (if h then P.isHexDigit else P.isDigit)
  | .entRef n => n.all P.isNameChar
  | .peRef n => n.all P.isNameChar

def okEntDef : CEntDef → Bool
  | .internal q vals => isQuote q && vals.all (okPieceE q) && !adjText vals
  | .external id nd => okExtId id && (match nd with | some (a, b, n) => okWs1 a && okWs1 b && okNameTok n | none => true)

def okNotId : CNotId → Bool
  | .ext id => okExtId id
  | .pubOnly w q p => okWs1 w && isQuote q && p.all (P.except P.isPubidChar [q])

def okDtdItem : CDtdItem → Bool
  | .ws w => okWs1 w
  | .comment s => okCommentBody s
  | .pi t b => okPI t b
  | .elementDecl w0 n w1 spec w2 => okWs1 w0 && okQN n && okWs1 w1 && okSpec spec && okWs w2
  | .attlist w0 e defs w1 => okWs1 w0 && okQN e && defs.all okAttDef && okWs w1
  | .entity w0 n w1 d w2 => okWs1 w0 && okNameTok n && okWs1 w1 && okEntDef d && okWs w2
  | .notationDecl w0 n w1 id w2 => okWs1 w0 && okNameTok n && okWs1 w1 && okNotId id && okWs w2

def isWsDtd : CDtdItem → Bool
  | .ws _ => true
  | _ => false

def adjWsD : List CDtdItem → Bool
  | [] => false
  | m :: r => (isWsDtd m && (match r with | j :: _ => isWsDtd j | [] => false)) || adjWsD r

def okDoctype (d : CDoctype) : Bool :=
  okWs1 d.ws0 && okQN d.name && (match d.ext with | some (w, id) => okWs1 w && okExtId id | none => true) && okWs d.ws1 &&
  (match d.subset with | some (items, w2) => items.all okDtdItem && !adjWsD items && okWs w2 | none => true)

/-! ### nesting depth of content-model groups -/
mutual
def CCp.gdepth : CCp → Nat
  | .name _ _ => 0
  | .group _ f _ rest _ _ => max f.gdepth rest.gdepth + 1
def CCpTail.gdepth : CCpTail → Nat
  | .nil => 0
  | .cons _ _ p t => max p.gdepth t.gdepth
end

def CSpec.gdepth : CSpec → Nat
  | .children w0 f ch rest w1 o => (CCp.group w0 f ch rest w1 o).gdepth
  | _ => 0

def CDtdItem.gdepth : CDtdItem → Nat
  | .elementDecl _ _ _ spec _ => spec.gdepth
  | _ => 0

def dtdDepth : List CDtdItem → Nat
  | [] => 0
  | i :: r => max i.gdepth (dtdDepth r)

def CDoctype.gdepth (d : CDoctype) : Nat := match d.subset with | some (items, _) => dtdDepth items | none => 0

/-- nesting depth of the content-model groups of the document's DOCTYPE -/
def doctypeDepth : Option (CDoctype × List CMisc) → Nat
  | none => 0
  | some (dt, _) => dt.gdepth

def isWsMisc : CMisc → Bool
  | .ws _ => true
  | _ => false

/-- two runs of white space next to each other would be read as one -/
def adjWs : List CMisc → Bool
  | [] => false
  | m :: r => (isWsMisc m && (match r with | j :: _ => isWsMisc j | [] => false)) || adjWs r

/-- EncName ::= [A-Za-z] ([A-Za-z0-9._] | '-')* -/
def okEncName : Str → Bool
  | [] => false
  | c :: r => P.isAlpha c && r.all P.isEncName

def okDecl (x : CDecl) : Bool :=
  !x.wsV.isEmpty && okWs x.wsV && okWs x.eqV1 && okWs x.eqV2 && isQuote x.qV && !x.minor.isEmpty && x.minor.all P.isDigit &&
  (match x.enc with
   | none => true
   | some (w, e1, e2, q, name) => !w.isEmpty && okWs w && okWs e1 && okWs e2 && isQuote q && okEncName name) &&
  (match x.sd with
   | none => true
   | some (w, e1, e2, q, _) => !w.isEmpty && okWs w && okWs e1 && okWs e2 && isQuote q) &&
  okWs x.wsEnd

def doctypeText : Option (CDoctype × List CMisc) → Str
  | none => []
  | some (dt, ms) => dt.str ++ miscText ms

def CDoc.str (d : CDoc) : Str :=
  declText d.decl ++ (miscText d.before ++ (doctypeText d.doctype ++ (d.root.str ++ miscText d.after)))

def doctypeErase : Option (CDoctype × List CMisc) → List TopItem
  | none => []
  | some (dt, ms) => TopItem.doctype dt.erase :: ms.filterMap CMisc.erase

def CDoc.erase (d : CDoc) : IDoc :=
  ⟨d.decl.map (fun x => '1' :: '.' :: x.minor), d.decl.bind (fun x => x.enc.map (fun e => e.2.2.2.2)),
   d.decl.bind (fun x => x.sd.map (fun e => e.2.2.2.2)),
   d.before.filterMap CMisc.erase ++ (doctypeErase d.doctype ++ ([.elem d.root.erase] ++ d.after.filterMap CMisc.erase))⟩

def CDoc.ok (d : CDoc) : Bool :=
  (match d.decl with | none => true | some x => okDecl x) && d.before.all okMisc && !adjWs d.before && isElemItem d.root && okItem d.root &&
  d.after.all okMisc && !adjWs d.after &&
  (match d.doctype with | some (dt, ms) => okDoctype dt && ms.all okMisc && !adjWs ms | none => true)

/-! ### nesting depth of elements -/
mutual
def CItem.depth : CItem → Nat
  | .elem _ _ _ _ ks _ => depthL ks + 1
  | _ => 0
def depthL : List CItem → Nat
  | [] => 0
  | i :: r => max i.depth (depthL r)
end

/-! ### the layout of the compact printer -/
/-- the quote the printer chooses: a single quote when the value holds a double quote -/
def canonQuote (v : Str) : Char := if v.contains '"' then '\'' else '"'

def canonAttr (a : Attr) : CAttr := ⟨[' '], a.name, [], [], canonQuote (printPieces a.vals), a.vals⟩

def canonPIBody : Option Str → Str
  | none => []
  | some x => ' ' :: x

mutual
def canonItem : Item → CItem
  | .text s => .text s
  | .charRef d h => .charRef d h
  | .entRef n => .entRef n
  | .cdata s => .cdata s
  | .pi t d => .pi t (canonPIBody d)
  | .comment s => .comment s
  | .elem n attrs kids =>
      match kids with
      | [] => .elem n (attrs.map canonAttr) [' '] true [] []
      | k :: ks => .elem n (attrs.map canonAttr) [] false (canonItem k :: canonItems ks) []
def canonItems : List Item → List CItem
  | [] => []
  | i :: r => canonItem i :: canonItems r
end

/-- Misc items in front of / behind the document element; `none` when the list holds something else -/
def canonMiscs : List TopItem → Option (List CMisc)
  | [] => some []
  | .comment s :: r => (canonMiscs r).map (CMisc.comment s :: ·)
  | .pi t d :: r => (canonMiscs r).map (CMisc.pi t (canonPIBody d) :: ·)
  | _ :: _ => none

/-- the concrete document the printer writes for `d`, for the profile of the completeness theorem: no DOCTYPE,
    comments and PIs around exactly one element -/
def canonTop : List TopItem → Option (List CMisc × CItem × List CMisc)
  | [] => none
  | .elem e :: r => (canonMiscs r).map fun after => ([], canonItem e, after)
  | .comment s :: r => (canonTop r).map fun (b, e, a) => (CMisc.comment s :: b, e, a)
  | .pi t d :: r => (canonTop r).map fun (b, e, a) => (CMisc.pi t (canonPIBody d) :: b, e, a)
  | .doctype _ :: _ => none

/-! ### the DOCTYPE declaration as the printer writes it -/
def canonTokens : List Str → Str × List (Str × Str × Str)
  | [] => ([], [])
  | f :: rest => (f, rest.map fun n => ([], [], n))

def canonAttType : AttType → CAttType
  | .notation ns => .notationTy [' '] [] (canonTokens ns).1 (canonTokens ns).2 []
  | .enumeration ts => .enumeration [] (canonTokens ts).1 (canonTokens ts).2 []
  | t => .kw t

def canonDefault : AttDefault → CDefault
  | .required => .required
  | .implied => .implied
  | .value f vs => .value (if f then some [' '] else none) (canonQuote (printPieces vs)) vs

def canonAttDef (a : AttDef) : CAttDef := ⟨[' '], a.name, [' '], canonAttType a.ty, [' '], canonDefault a.dflt⟩

def canonExt : Option Str → Option Str → Option CExtId
  | some p, some s => some (.pubId [' '] (canonQuote p) p [' '] (canonQuote s) s)
  | none, some s => some (.sysId [' '] (canonQuote s) s)
  | _, none => none

def canonDtdItem : DtdItem → Option CDtdItem
  | .attlist e defs => some (.attlist [' '] e (defs.map canonAttDef) [])
  | .entity n (.internal vs) => some (.entity [' '] n [' '] (.internal (canonQuote (printPieces vs)) vs) [])
  | .entity n (.external p s nd) =>
      (canonExt p (some s)).map fun id => .entity [' '] n [' '] (.external id (nd.map fun x => ([' '], [' '], x))) []
  | .notation n p s =>
      match p, s with
      | some p, none => some (.notationDecl [' '] n [' '] (.pubOnly [' '] (canonQuote p) p) [])
      | p, s => (canonExt p s).map fun id => .notationDecl [' '] n [' '] (.ext id) []
  | .pi t d => some (.pi t (canonPIBody d))

def canonDtdItems : List DtdItem → Option (List CDtdItem)
  | [] => some []
  | i :: r => match canonDtdItem i, canonDtdItems r with
      | some c, some cs => some (c :: cs)
      | _, _ => none

def canonDoctypeExt : Option Str → Option Str → Option (Option (Str × CExtId))
  | none, none => some none
  | p, s => (canonExt p s).map fun id => some ([' '], id)

def wsBeforeSubset : List CDtdItem → Str
  | [] => []
  | _ => [' ']

def subsetOf : List CDtdItem → Option (List CDtdItem × Str)
  | [] => none
  | is => some (is, [])

def canonDoctype (d : Doctype) : Option CDoctype :=
  match canonDoctypeExt d.pub d.sys, canonDtdItems d.kids with
  | some ext, some items => some ⟨[' '], d.name, ext, wsBeforeSubset items, subsetOf items⟩
  | _, _ => none

/-- the XML declaration as the printer writes it: one space, no space around `=`, double quotes; `none` = the document
    cannot be written faithfully (a version that is not `1.n`, pseudo-attributes without a version, an empty encoding) -/
def canonDecl (d : IDoc) : Option (Option CDecl) :=
  match d.version with
  | none => if d.encoding.isSome || d.standalone.isSome then none else some none
  | some ('1' :: '.' :: minor) =>
      some (some ⟨[' '], [], [], '"', minor, d.encoding.map (fun e => ([' '], [], [], '"', e)),
                  d.standalone.map (fun b => ([' '], [], [], '"', b)), []⟩)
  | some _ => none

/-- Misc items, optional DOCTYPE with Misc items, the element, Misc items -/
def canonTopD : List TopItem → Option (List CMisc × Option (CDoctype × List CMisc) × CItem × List CMisc)
  | [] => none
  | .elem e :: r => (canonMiscs r).map fun after => ([], none, canonItem e, after)
  | .comment s :: r => (canonTopD r).map fun (b, dt, e, a) => (CMisc.comment s :: b, dt, e, a)
  | .pi t d :: r => (canonTopD r).map fun (b, dt, e, a) => (CMisc.pi t (canonPIBody d) :: b, dt, e, a)
  | .doctype d :: r =>
      match canonDoctype d, canonTop r with
      | some cd, some (b2, e, a) => some ([], some (cd, b2), e, a)
      | _, _ => none

def canonDoc (d : IDoc) : Option CDoc :=
  match canonDecl d with
  | none => none
  | some decl => (canonTopD d.kids).map fun (b, dt, e, a) => ⟨decl, b, e, a, dt⟩

/-- the data of a PI does not start with white space (the parser gives that white space to the separator) -/
def piFaithful : Option Str → Bool
  | some (c :: _) => !isWs c
  | _ => true

mutual
def faithfulItem : Item → Bool
  | .pi _ d => piFaithful d
  | .elem _ _ kids => faithfulItems kids
  | _ => true
def faithfulItems : List Item → Bool
  | [] => true
  | i :: r => faithfulItem i && faithfulItems r
end

def faithfulDtd : DtdItem → Bool
  | .pi _ d => piFaithful d
  | _ => true

def faithfulTop : TopItem → Bool
  | .pi _ d => piFaithful d
  | .elem e => faithfulItem e
  | .doctype d => d.kids.all faithfulDtd
  | _ => true

end XmlRs
