import XmlRsModel.XmlDoc
/-! Concrete documents: abstract items together with the surface-syntax choices a rendering makes (white space inside
    tags, quote characters, empty-element tag versus start/end pair).  `str` writes a concrete document, `erase`
    forgets the choices; `canon` is the layout the compact printer uses (`str (canon i) = printItem i`).
    Used to state completeness of the parser: EVERY rendering of an abstract document parses to that document
    (properties C01 and C04).  Profile covered so far: optional XML declaration, no DOCTYPE. -/
namespace XmlRs
open Gen.Xml

structure CAttr where
  ws : Str        -- S before the attribute (at least one character)
  name : QN
  ws1 : Str       -- S? before `=`
  ws2 : Str       -- S? after `=`
  q : Char        -- the quote character
  vals : List Piece
  deriving Inhabited

inductive CItem where
  | text (s : Str)
  | charRef (digits : Str) (hex : Bool)
  | entRef (name : Str)
  | cdata (s : Str)
  /-- `body` is everything between the target and `?>`: empty, or white space followed by the data -/
  | pi (target : Str) (body : Str)
  | comment (s : Str)
  /-- `empty = true`: `<n attrs ws/>` (then `kids = []`); otherwise `<n attrs ws>kids</n ws'>` -/
  | elem (name : QN) (attrs : List CAttr) (ws : Str) (empty : Bool) (kids : List CItem) (ws' : Str)
  deriving Inhabited

/-- Misc ::= Comment | PI | S -/
inductive CMisc where
  | comment (s : Str)
  | pi (target : Str) (body : Str)
  | ws (w : Str)
  deriving Inhabited

/-- `<?xml` S `version` Eq q 1.n q (S `encoding` Eq q name q)? (S `standalone` Eq q yes|no q)? S? `?>` -/
structure CDecl where
  wsV : Str
  eqV1 : Str
  eqV2 : Str
  qV : Char
  minor : Str         -- the digits after `1.`
  enc : Option (Str × Str × Str × Char × Str)     -- S, S? `=` S?, quote, name
  sd : Option (Str × Str × Str × Char × Bool)
  wsEnd : Str
  deriving Inhabited

structure CDoc where
  decl : Option CDecl
  before : List CMisc
  root : CItem
  after : List CMisc
  deriving Inhabited

/-! ### writing -/
def CAttr.str (a : CAttr) : Str :=
  a.ws ++ (a.name.text ++ (a.ws1 ++ ('=' :: (a.ws2 ++ (a.q :: (printPieces a.vals ++ [a.q]))))))

def attrsText : List CAttr → Str
  | [] => []
  | a :: r => a.str ++ attrsText r

def piText (t b : Str) : Str := '<' :: '?' :: (t ++ (b ++ ['?', '>']))
def commentText (s : Str) : Str := '<' :: '!' :: '-' :: '-' :: (s ++ ['-', '-', '>'])
def cdataOpen : Str := ['<', '!', '[', 'C', 'D', 'A', 'T', 'A', '[']
def cdataText (s : Str) : Str := cdataOpen ++ (s ++ [']', ']', '>'])

mutual
def CItem.str : CItem → Str
  | .text s => s
  | .charRef d h => printPiece (.charRef d h)
  | .entRef n => printPiece (.entRef n)
  | .cdata s => cdataText s
  | .pi t b => piText t b
  | .comment s => commentText s
  | .elem n as w e ks w' =>
      '<' :: (n.text ++ (attrsText as ++ (w ++
        (if e then ['/', '>'] else '>' :: (strL ks ++ ('<' :: '/' :: (n.text ++ (w' ++ ['>']))))))))
def strL : List CItem → Str
  | [] => []
  | i :: r => i.str ++ strL r
end

def CMisc.str : CMisc → Str
  | .comment s => commentText s
  | .pi t b => piText t b
  | .ws w => w

def miscText : List CMisc → Str
  | [] => []
  | m :: r => m.str ++ miscText r

def kwVersion : Str := ['v', 'e', 'r', 's', 'i', 'o', 'n']
def kwEncoding : Str := ['e', 'n', 'c', 'o', 'd', 'i', 'n', 'g']
def kwStandalone : Str := ['s', 't', 'a', 'n', 'd', 'a', 'l', 'o', 'n', 'e']
def yesNo (b : Bool) : Str := if b then ['y', 'e', 's'] else ['n', 'o']

def encText : Option (Str × Str × Str × Char × Str) → Str
  | none => []
  | some (w, e1, e2, q, name) => w ++ (kwEncoding ++ (e1 ++ ('=' :: (e2 ++ (q :: (name ++ [q]))))))

def sdText : Option (Str × Str × Str × Char × Bool) → Str
  | none => []
  | some (w, e1, e2, q, b) => w ++ (kwStandalone ++ (e1 ++ ('=' :: (e2 ++ (q :: (yesNo b ++ [q]))))))

def CDecl.str (x : CDecl) : Str :=
  ['<', '?', 'x', 'm', 'l'] ++ (x.wsV ++ (kwVersion ++ (x.eqV1 ++ ('=' :: (x.eqV2 ++ (x.qV :: ('1' :: '.' :: (x.minor ++ (x.qV ::
    (encText x.enc ++ (sdText x.sd ++ (x.wsEnd ++ ['?', '>']))))))))))))

def declText : Option CDecl → Str
  | none => []
  | some x => x.str

def CDoc.str (d : CDoc) : Str := declText d.decl ++ (miscText d.before ++ (d.root.str ++ miscText d.after))

/-! ### forgetting the layout -/
def CAttr.erase (a : CAttr) : Attr := ⟨a.name, a.vals⟩

def piData (b : Str) : Option Str := match b with | [] => none | _ => some (b.dropWhile isWs)

mutual
def CItem.erase : CItem → Item
  | .text s => .text s
  | .charRef d h => .charRef d h
  | .entRef n => .entRef n
  | .cdata s => .cdata s
  | .pi t b => .pi t (piData b)
  | .comment s => .comment s
  | .elem n as _ _ ks _ => .elem n (as.map CAttr.erase) (eraseL ks)
def eraseL : List CItem → List Item
  | [] => []
  | i :: r => i.erase :: eraseL r
end

def CMisc.erase : CMisc → Option TopItem
  | .comment s => some (.comment s)
  | .pi t b => some (.pi t (piData b))
  | .ws _ => none

def CDoc.erase (d : CDoc) : IDoc :=
  ⟨d.decl.map (fun x => '1' :: '.' :: x.minor), d.decl.bind (fun x => x.enc.map (fun e => e.2.2.2.2)),
   d.decl.bind (fun x => x.sd.map (fun e => e.2.2.2.2)),
   d.before.filterMap CMisc.erase ++ [.elem d.root.erase] ++ d.after.filterMap CMisc.erase⟩

/-! ### which concrete documents are renderings (the lexical side conditions of the productions) -/
abbrev ncRestC : Char → Bool := P.except P.isNameChar [':']

/-- NCName: a NameStartChar other than ':' followed by NameChars other than ':' -/
def okNc : Str → Bool
  | [] => false
  | c :: r => (c != ':' && P.isNameStartChar c) && r.all ncRestC

def okQN (q : QN) : Bool := (match q.pre with | some p => okNc p | none => true) && okNc q.loc

def okWs (w : Str) : Bool := w.all P.isSpace

/-- a piece of an attribute value written between quotes `q` -/
def okPiece (q : Char) : Piece → Bool
  | .text s => !s.isEmpty && s.all (P.except P.isChar ['<', '&', q])
  | .charRef d h => !d.isEmpty && d.all (if h then P.isHexDigit else P.isDigit)
  | .entRef n => n.all P.isNameChar
  | .peRef _ => false

/-- two text pieces next to each other would be read as one -/
def adjText : List Piece → Bool
  | .text _ :: .text _ :: _ => true
  | _ :: r => adjText r
  | [] => false

def okAttr (a : CAttr) : Bool :=
  !a.ws.isEmpty && okWs a.ws && okQN a.name && okWs a.ws1 && okWs a.ws2 && (a.q == '"' || a.q == '\'') &&
  a.vals.all (okPiece a.q) && !adjText a.vals

/-- [15] the text between `<!--` and `-->`: `((Char - '-') | ('-' (Char - '-')))*` -/
def okCommentBody : Str → Bool
  | [] => true
  | ['-'] => false
  | '-' :: d :: r => P.isChar d && d != '-' && okCommentBody r
  | c :: r => P.isChar c && okCommentBody r

def okPI (t b : Str) : Bool :=
  t.all P.isNameChar && !P.eqIgnoreAsciiCase t ['x', 'm', 'l'] &&
  (match b with | [] => true | c :: _ => P.isSpace c) && b.all P.isChar && !hasSub ['?', '>'] b

def isTextItem : CItem → Bool
  | .text _ => true
  | _ => false

def adjTextI : List CItem → Bool
  | [] => false
  | i :: r => (isTextItem i && (match r with | j :: _ => isTextItem j | [] => false)) || adjTextI r

mutual
def okItem : CItem → Bool
  | .text s => !s.isEmpty && s.all (P.except P.isChar ['<', '&']) && !hasSub [']', ']', '>'] s
  | .charRef d h => !d.isEmpty && d.all (if h then P.isHexDigit else P.isDigit)
  | .entRef n => n.all P.isNameChar
  | .cdata s => s.all P.isChar && !hasSub [']', ']', '>'] s
  | .pi t b => okPI t b
  | .comment s => okCommentBody s
  | .elem n as w e ks w' =>
      okQN n && as.all okAttr && okWs w && okWs w' && (!e || ks.isEmpty) && okItems ks && !adjTextI ks
def okItems : List CItem → Bool
  | [] => true
  | i :: r => okItem i && okItems r
end

def okMisc : CMisc → Bool
  | .comment s => okCommentBody s
  | .pi t b => okPI t b
  | .ws w => !w.isEmpty && okWs w

def isElemItem : CItem → Bool
  | .elem .. => true
  | _ => false

def isWsMisc : CMisc → Bool
  | .ws _ => true
  | _ => false

/-- two runs of white space next to each other would be read as one -/
def adjWs : List CMisc → Bool
  | [] => false
  | m :: r => (isWsMisc m && (match r with | j :: _ => isWsMisc j | [] => false)) || adjWs r

def isQuote (q : Char) : Bool := q == '"' || q == '\''

/-- EncName ::= [A-Za-z] ([A-Za-z0-9._] | '-')* -/
def okEncName : Str → Bool
  | [] => false
  | c :: r => P.isAlpha c && r.all P.isEncName

def okDecl (x : CDecl) : Bool :=
  !x.wsV.isEmpty && okWs x.wsV && okWs x.eqV1 && okWs x.eqV2 && isQuote x.qV && !x.minor.isEmpty && x.minor.all P.isDigit &&
  (match x.enc with
   | none => true
   | some (w, e1, e2, q, name) => !w.isEmpty && okWs w && okWs e1 && okWs e2 && isQuote q && okEncName name) &&
  (match x.sd with
   | none => true
   | some (w, e1, e2, q, _) => !w.isEmpty && okWs w && okWs e1 && okWs e2 && isQuote q) &&
  okWs x.wsEnd

def CDoc.ok (d : CDoc) : Bool :=
  (match d.decl with | none => true | some x => okDecl x) && d.before.all okMisc && !adjWs d.before && isElemItem d.root && okItem d.root &&
  d.after.all okMisc && !adjWs d.after

/-! ### nesting depth of elements -/
mutual
def CItem.depth : CItem → Nat
  | .elem _ _ _ _ ks _ => depthL ks + 1
  | _ => 0
def depthL : List CItem → Nat
  | [] => 0
  | i :: r => max i.depth (depthL r)
end

/-! ### the layout of the compact printer -/
/-- the quote the printer chooses: a single quote when the value holds a double quote -/
def canonQuote (v : Str) : Char := if v.contains '"' then '\'' else '"'

def canonAttr (a : Attr) : CAttr := ⟨[' '], a.name, [], [], canonQuote (printPieces a.vals), a.vals⟩

def canonPIBody : Option Str → Str
  | none => []
  | some x => ' ' :: x

mutual
def canonItem : Item → CItem
  | .text s => .text s
  | .charRef d h => .charRef d h
  | .entRef n => .entRef n
  | .cdata s => .cdata s
  | .pi t d => .pi t (canonPIBody d)
  | .comment s => .comment s
  | .elem n attrs kids =>
      match kids with
      | [] => .elem n (attrs.map canonAttr) [' '] true [] []
      | k :: ks => .elem n (attrs.map canonAttr) [] false (canonItem k :: canonItems ks) []
def canonItems : List Item → List CItem
  | [] => []
  | i :: r => canonItem i :: canonItems r
end

/-- Misc items in front of / behind the document element; `none` when the list holds something else -/
def canonMiscs : List TopItem → Option (List CMisc)
  | [] => some []
  | .comment s :: r => (canonMiscs r).map (CMisc.comment s :: ·)
  | .pi t d :: r => (canonMiscs r).map (CMisc.pi t (canonPIBody d) :: ·)
  | _ :: _ => none

/-- the concrete document the printer writes for `d`, for the profile of the completeness theorem: no DOCTYPE,
    comments and PIs around exactly one element -/
def canonTop : List TopItem → Option (List CMisc × CItem × List CMisc)
  | [] => none
  | .elem e :: r => (canonMiscs r).map fun after => ([], canonItem e, after)
  | .comment s :: r => (canonTop r).map fun (b, e, a) => (CMisc.comment s :: b, e, a)
  | .pi t d :: r => (canonTop r).map fun (b, e, a) => (CMisc.pi t (canonPIBody d) :: b, e, a)
  | .doctype _ :: _ => none

/-- the XML declaration as the printer writes it: one space, no space around `=`, double quotes; `none` = the document
    cannot be written faithfully (a version that is not `1.n`, pseudo-attributes without a version, an empty encoding) -/
def canonDecl (d : IDoc) : Option (Option CDecl) :=
  match d.version with
  | none => if d.encoding.isSome || d.standalone.isSome then none else some none
  | some ('1' :: '.' :: minor) =>
      some (some ⟨[' '], [], [], '"', minor, d.encoding.map (fun e => ([' '], [], [], '"', e)),
                  d.standalone.map (fun b => ([' '], [], [], '"', b)), []⟩)
  | some _ => none

def canonDoc (d : IDoc) : Option CDoc :=
  match canonDecl d with
  | none => none
  | some decl => (canonTop d.kids).map fun (b, e, a) => ⟨decl, b, e, a⟩

/-- the data of a PI does not start with white space (the parser gives that white space to the separator) -/
def piFaithful : Option Str → Bool
  | some (c :: _) => !isWs c
  | _ => true

mutual
def faithfulItem : Item → Bool
  | .pi _ d => piFaithful d
  | .elem _ _ kids => faithfulItems kids
  | _ => true
def faithfulItems : List Item → Bool
  | [] => true
  | i :: r => faithfulItem i && faithfulItems r
end

def faithfulTop : TopItem → Bool
  | .pi _ d => piFaithful d
  | .elem e => faithfulItem e
  | _ => true

end XmlRs
