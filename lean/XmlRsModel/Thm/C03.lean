import XmlRsModel.AttrNorm
import XmlRsModel.Lemmas.PegSound
import XmlRsModel.Thm.C02
/-! Property C03: parsing and printing are total.
    What a theorem can carry here: every function of the model is total by construction (Lean accepts
    only terminating definitions: the printers and the abstraction by structural recursion, entity
    expansion by a fuel bounded by the number of declared entities plus a visited list, the parser by
    fuel); unsupported constructs and hostile shapes are ERRORS of the model, not stuck states; a
    non-`fuel` answer of the parser does not depend on the amount of fuel.
    What it cannot carry (measured by the check, stated as partial): real stack use and running time;
    `xml_fuel_sufficient` (the driver's fuel formula never runs out) is checked on every explored input
    (outcome class `fuel` never appears) but not proved. -/
namespace XmlRs.C03
open XmlRs Gen.Xml

/-- the answer of the parser does not depend on the fuel once it is not `fuel`: more fuel, same answer -/
theorem parse_answer_stable (ev : Env) (f f' : Nat) (hle : f ≤ f') (s : Str) (out : Res CST)
    (h : run ev f (.nt N.document) s = out) (hne : out ≠ .fuel) :
    run ev f' (.nt N.document) s = out := run_mono_le ev hle h hne

/-- hostile shape 1, cyclic entity definitions: expanding an entity that refers to itself is an
    error, for every entity table and every declared type -/
theorem cyclic_entity_is_error (t : EntTable) (ty : Option AttType) (name : Str)
    (h : lookupEnt t name = some (.internal [.entRef name])) :
    normalizedValue t ty [.entRef name] = .error .reference := by
  have h1 : ∀ fuel, expandEnt t (fuel + 2) [] name = .error .reference := by
    intro fuel
    simp [expandEnt, h, expandEnt.go]
  have : t.length + 6 = (t.length + 4) + 2 := by omega
  simp [normalizedValue, normalizedValue.go, this, h1]

/-- two-entity cycle -/
theorem cyclic_pair_is_error (t : EntTable) (ty : Option AttType) (a b : Str) (hab : a ≠ b)
    (ha : lookupEnt t a = some (.internal [.entRef b])) (hb : lookupEnt t b = some (.internal [.entRef a])) :
    normalizedValue t ty [.entRef a] = .error .reference := by
  have h1 : ∀ fuel, expandEnt t (fuel + 3) [] a = .error .reference := by
    intro fuel
    simp [expandEnt, ha, hb, expandEnt.go, hab, Ne.symm hab]
  have : t.length + 6 = (t.length + 3) + 3 := by omega
  simp [normalizedValue, normalizedValue.go, this, h1]

/-- unsupported construct: a parameter-entity reference in the internal subset is reported as
    an error (class `unsupported`), whatever follows -/
theorem pe_reference_is_error (b : CST) (rest : List (Nat × CST)) (h : b.kidsL.isEmpty = false) :
    absIntSubset ((N.decl_sep, b) :: rest) = .error .unsupported := by
  have h1 : (N.decl_sep == N.markup_decl) = false := by decide
  simp [absIntSubset, h1, h]

/-- hostile shape 2, very deep nesting: no accepted document nests elements, or the groups of a
    content model, deeper than the limits read from the source (`MAX_ELEMENT_DEPTH`,
    `MAX_GROUP_DEPTH`), so every recursion over an accepted document is bounded by those constants -/
theorem depth_refused (ev : Env) (st : Bool) (s : Str) (d : IDoc) (rest : Str)
    (h : parseDocWith ev st s = .ok (d, rest)) (hlim : maxDepth_element ≠ 0) (hlim2 : maxDepth_children ≠ 0) :
    ∃ c, c.flatten ++ rest = s ∧ absDocument c = .ok d ∧ c.elemDepth ≤ maxDepth_element ∧
      c.ntDepth N.children ≤ maxDepth_children := by
  unfold parseDocWith at h
  split at h
  · cases h
  · cases h
  · next m c r hr =>
    obtain ⟨_, hf⟩ := (run_sound ev _).1 _ _ _ _ hr
    split at h
    · cases h
    · next hdepth =>
      split at h
      · cases h
      · next hdepth2 =>
        split at h
        · cases h
        · next d' hd2 =>
          split at h
          · cases h
          · split at h
            · cases h
            · simp only [Except.ok.injEq, Prod.mk.injEq] at h
              obtain ⟨rfl, rfl⟩ := h
              refine ⟨c, by simpa [CST.flatten] using hf, hd2, ?_, ?_⟩
              · apply Nat.le_of_not_lt
                intro hgt
                apply hdepth
                simp [hlim, hgt]
              · apply Nat.le_of_not_lt
                intro hgt
                apply hdepth2
                simp [hlim2, hgt]
  · cases h

/-- the limits in the current source are positive constants -/
theorem depth_limit_present : maxDepth_element ≠ 0 ∧ maxDepth_children ≠ 0 := by decide

/-- every outcome of the model is one of the listed classes; there is no `panic` outcome to reach:
    the pipeline is a total function into `Except XErr _` -/
theorem pipeline_total (s : Str) : ∃ r : Except XErr (IDoc × Str), parseDoc s = r := ⟨_, rfl⟩

end XmlRs.C03
