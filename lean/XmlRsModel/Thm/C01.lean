import XmlRsModel.XmlDoc
import XmlRsModel.Thm.C02
import XmlRsModel.Lemmas.AbsDoc
import XmlRsModel.Gen.Predefined
/-! Property C01: well-formed documents are accepted and yield the infoset they denote.
    FULL STATEMENT (completeness direction):  `∀ d st, WFA d → parseDoc (render st d) = .ok (denote d, [])`.
    PROVED for the whole supported profile - XML declaration, Misc, DOCTYPE with internal subset (element, attribute-list,
    general-entity and notation declarations, comments, PIs), element tree (`rendering_parses`, `rendering_parses_at_model_fuel`,
    `surface_syntax_is_irrelevant`): a concrete document `CDoc` is an abstract document together with every
    surface-syntax choice a rendering can make (white space inside tags and around `=`, either quote, empty-element
    tag or start/end pair, the layout of the XML declaration and of every declaration of the internal subset, Misc items
    and white space around the root); EVERY concrete document that meets the
    lexical side conditions of the productions (`CDoc.ok`, decidable) is parsed by the grammar translated from the
    current source, completely, to exactly the abstract document it renders.  The proof is a completeness proof of
    the PEG (`Lemmas/Runs*.lean`: ordered choice and greedy repetition never take a wrong turn on a rendering)
    followed by `abs (tree) = erase` (`Lemmas/Abs*.lean`).  Outside the theorem: parameter entities (the library
    reports them as unsupported) and the entity-usage constraints recorded as finding `entity-wfc`.
    Also proved: what a character reference denotes (for every digit string), determinism and
    rest-discipline of the parse, and that the reported items are exactly an abstraction of one
    derivation tree of the whole text (no item can come from nowhere). -/
namespace XmlRs.C01
open XmlRs Gen.Xml

theorem parseNat_append_digit (base : Nat) (s : Str) (c : Char) :
    parseNat base (s ++ [c]) = parseNat base s * base + digitVal c := by
  simp [parseNat, List.foldl_append]

/-- a code point denotes exactly the XML Char with that number, and nothing else: `charOfNat n`
    answers `some c` iff `n` fits `u32`, is a Char of production [2] (extracted table, proved equal
    to the Recommendation in C18) and `c` is that scalar value -/
theorem charOfNat_spec (n : Nat) (c : Char) :
    charOfNat n = some c ↔ (n < 4294967296 ∧ Gen.isChar n = true ∧ c.toNat = n) := by
  unfold charOfNat
  constructor
  · intro h
    split at h
    · next hv =>
      split at h
      · next hc =>
        simp only [Bool.and_eq_true, decide_eq_true_eq] at hc
        simp only [Option.some.injEq] at h
        subst h
        exact ⟨hc.1, hc.2, rfl⟩
      · cases h
    · cases h
  · rintro ⟨h1, h2, h3⟩
    have hv : n.isValidChar := by rw [← h3]; exact c.valid
    rw [dif_pos hv, if_pos (by simp [h1, h2])]
    congr 1
    apply Char.ext
    subst h3
    rfl

/-- a character reference `&#digits;` / `&#xdigits;` denotes `charOfNat` of the number it spells -/
theorem charOfRef_spec (digits : Str) (hex : Bool) :
    charOfRef digits hex = charOfNat (parseNat (if hex then 16 else 10) digits) := rfl

/-- parsing is a function of the text: one text, one answer (stated for completeness; it holds
    because `parseDoc` is a Lean function — the content is that the model has no hidden state and
    the tie shows the code behaves like it; see C19) -/
theorem parse_deterministic (s : Str) (r1 r2 : Except XErr (IDoc × Str))
    (h1 : parseDoc s = r1) (h2 : parseDoc s = r2) : r1 = r2 := h1 ▸ h2

/-- the items of an accepted document are the abstraction of ONE derivation tree whose leaves
    spell the consumed text: nothing reported can come from outside the input -/
theorem items_come_from_the_text_partial (s : Str) (d : IDoc) (rest : Str)
    (h : parseDoc s = .ok (d, rest)) :
    ∃ c, Derives env (.nt N.document) (.node N.document c) ∧ c.flatten ++ rest = s ∧
      absDocument c = .ok d := by
  obtain ⟨c, h1, h2, h3, _⟩ := C02.accepted_is_derivable env false s d rest h
  exact ⟨c, h1, h2, h3⟩

/-! ### completeness on renderings -/
open Lex in
/-- EVERY rendering is parsed to the document it renders: for every concrete document whose pieces meet the lexical side conditions (`CDoc.ok`), whose nesting stays within the parser's limit
    and whose references are declared (`checkDoc`), the parser - run with any sufficient amount of fuel - consumes the
    whole text and returns exactly the abstract document, whatever white space, quotes and tag forms were chosen -/
theorem rendering_parses (d : CDoc) (hok : d.ok = true) (hdepth : d.root.depth ≤ maxDepth_element)
    (hgroups : doctypeDepth d.doctype ≤ maxDepth_children) (hchk : checkDoc d.erase = .ok ()) :
    ∃ f0, ∀ f, f0 ≤ f → parseDocFuel env false f d.str = .ok (d.erase, []) := by
  obtain ⟨f0, hrun⟩ := runs_document d hok
  refine ⟨f0, fun f hf => ?_⟩
  have hd := docBody_depth d
  have h1 : ¬ ((docBody d).elemDepth > maxDepth_element) := by omega
  have h2 : ¬ ((docBody d).ntDepth N.children > maxDepth_children) := by rw [hd.2]; omega
  simp only [parseDocFuel, hrun f hf, cstDoc_eq, absDocument_cst d hok, hchk, h1, h2, decide_false, Bool.and_false,
    Bool.false_and, Bool.false_eq_true, if_false]

/-- the same at the fuel the model's `parseDoc` uses: the answer is the document, unless the fuel formula of the
    model were too small (an artefact of the model, never observed by the tie; see C03 `parse_answer_stable`) -/
theorem rendering_parses_at_model_fuel (d : CDoc) (hok : d.ok = true) (hdepth : d.root.depth ≤ maxDepth_element)
    (hgroups : doctypeDepth d.doctype ≤ maxDepth_children) (hchk : checkDoc d.erase = .ok ()) :
    parseDoc d.str = .ok (d.erase, []) ∨ parseDoc d.str = .error .fuel := by
  have hrun := Lex.runs_document d hok
  have hd := Lex.docBody_depth d
  have h1 : ¬ ((Lex.docBody d).elemDepth > maxDepth_element) := by omega
  have h2 : ¬ ((Lex.docBody d).ntDepth N.children > maxDepth_children) := by rw [hd.2]; omega
  rcases hrun.at_fuel (xmlFuel d.str) with h | h
  · left
    simp only [parseDoc, parseDocWith_eq, parseDocFuel, h, Lex.cstDoc_eq, Lex.absDocument_cst d hok, hchk, h1, h2, decide_false,
      Bool.and_false, Bool.false_and, Bool.false_eq_true, if_false]
  · right
    simp only [parseDoc, parseDocWith_eq, parseDocFuel, h]

/-- surface-syntax choices never change the result: two renderings of the same abstract document parse to the same
    document -/
theorem surface_syntax_is_irrelevant (d1 d2 : CDoc) (h1 : d1.ok = true) (h2 : d2.ok = true) (he : d1.erase = d2.erase)
    (hd1 : d1.root.depth ≤ maxDepth_element) (hd2 : d2.root.depth ≤ maxDepth_element)
    (hg1 : doctypeDepth d1.doctype ≤ maxDepth_children) (hg2 : doctypeDepth d2.doctype ≤ maxDepth_children) (hchk : checkDoc d1.erase = .ok ()) :
    ∃ f0, ∀ f, f0 ≤ f → parseDocFuel env false f d1.str = parseDocFuel env false f d2.str := by
  obtain ⟨f1, hf1⟩ := rendering_parses d1 h1 hd1 hg1 hchk
  obtain ⟨f2, hf2⟩ := rendering_parses d2 h2 hd2 hg2 (he ▸ hchk)
  exact ⟨max f1 f2, fun f hf => by rw [hf1 f (by omega), hf2 f (by omega), he]⟩

/-- the hypotheses are satisfiable by a document that uses every construct of the profile (PI and white space in the
    prolog, `xmlns:p`, a prefixed attribute in single quotes holding a double quote and references, an attribute whose
    name merely starts with `xmlns`, white space inside tags, an empty-element tag, text, a reference, a CDATA section
    ending in `]`, a comment with a single dash, nested elements, a PI without data, a comment in the epilogue) -/
def exAttr1 : CAttr := ⟨[' '], ⟨some ['x', 'm', 'l', 'n', 's'], ['p']⟩, [], [' '], '"', [.text ['u']]⟩
def exAttr2 : CAttr := ⟨['\n', ' '], ⟨some ['p'], ['k']⟩, [' '], [], '\'', [.text ['v', '"'], .entRef ['a','m','p'], .charRef ['6','5'] false]⟩
def exAttr3 : CAttr := ⟨[' '], ⟨none, ['x', 'm', 'l', 'n', 's', 'f', 'o', 'o']⟩, [], [], '"', [.text ['1']]⟩
def exDoctype : CDoctype := ⟨[' '], ⟨none, ['a']⟩, some ([' '], .pubId [' '] '"' ['-', '/', '/', 'X'] ['\n'] '\'' ['u', '.', 'd', 't', 'd']), [' '],
  some ([.ws ['\n'],
         .elementDecl [' '] ⟨none, ['a']⟩ [' '] (.children [] (.name ⟨none, ['b']⟩ .opt) false
            (.cons [] [' '] (.group [' '] (.name ⟨none, ['c']⟩ .one) true (.cons [' '] [' '] (.name ⟨some ['p'], ['d']⟩ .star) .nil) [] .plus) .nil) [' '] .star) [],
         .elementDecl [' '] ⟨none, ['c']⟩ [' '] (.mixedStar [] [([' '], [' '], ⟨none, ['b']⟩)] [' ']) [' '],
         .elementDecl [' '] ⟨none, ['b']⟩ ['\t'] .empty [],
         .attlist [' '] ⟨none, ['a']⟩ [⟨[' '], ⟨some ['p'], ['k']⟩, [' '], .kw .cdata, [' '], .implied⟩,
            ⟨['\n', ' '], ⟨none, ['t']⟩, [' '], .enumeration [] ['x'] [([' '], [], ['y'])] [], [' '], .value (some [' ']) '"' [.text ['x']]⟩,
            ⟨[' '], ⟨none, ['n']⟩, [' '], .notationTy [' '] [] ['g'] [] [' '], [' '], .required⟩] [' '],
         .entity [' '] ['e'] [' '] (.internal '\'' [.text ['v', '"'], .charRef ['6', '5'] false, .peRef ['q'], .entRef ['l', 't']]) [],
         .entity [' '] ['u'] [' '] (.external (.sysId [' '] '"' ['f']) (some ([' '], [' '], ['g']))) [' '],
         .notationDecl [' '] ['g'] [' '] (.pubOnly [' '] '\'' ['i', 'd']) [' '],
         .pi ['t'] [], .comment ['c']], [' '])⟩
def exDoc : CDoc := ⟨some ⟨[' ', '\n'], [' '], [], '\'', ['0'], some ([' '], [], [' '], '"', ['U', 'T', 'F', '-', '8']), some (['\t'], [], [], '\'', false), [' ']⟩,
  [.ws ['\n'], .pi ['x', 'm', 'l', '-', 's'] [' ', 'x'], .ws [' ']],
  .elem ⟨none, ['a']⟩ [exAttr1, exAttr2, exAttr3] [' '] false
    [.elem ⟨none, ['b']⟩ [] [] true [] [], .text ['t'], .entRef ['l','t'], .cdata ['c', ']'], .comment ['c', '-', 'd'],
     .elem ⟨none, ['c']⟩ [] [' '] false [.text ['z']] [' '], .pi ['q'] []] ['\t'],
  [.ws ['\n'], .comment ['e']],
  some (exDoctype, [.ws ['\n']])⟩
example : exDoc.ok = true ∧ exDoc.root.depth ≤ maxDepth_element ∧ doctypeDepth exDoc.doctype ≤ maxDepth_children := by decide
example : checkDoc exDoc.erase = .ok () := by rfl

example : charOfRef ['6', '5'] false = some 'A' ∧ charOfRef ['4', '1'] true = some 'A' ∧
    charOfRef ['0'] false = none ∧ charOfRef ['D', '8', '0', '0'] true = none := by decide

/-- the predefined entities of the model - names and replacement texts, in the order they are tried - ARE the ones the source
    answers with when no declaration of that name exists (`Gen/Predefined.lean` is regenerated from info/src/lib.rs
    `Context::entity` on every run) -/
theorem predefined_is_the_sources :
    predefined.map (fun p => (p.1, match p.2 with | .internal [.text t] => t | _ => [])) = Gen.Predefined.table := rfl

end XmlRs.C01
