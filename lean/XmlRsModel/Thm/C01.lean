import XmlRsModel.XmlDoc
import XmlRsModel.Thm.C02
/-! Property C01: well-formed documents are accepted and yield the infoset they denote.
    FULL STATEMENT (completeness direction; not yet proved in general, covered by the tie against the
    independent denotation oracle):  `∀ d st, WFA d → parseDoc (render st d) = .ok (denote d, [])`.
    Proved so far: what a character reference denotes (for every digit string), determinism and
    rest-discipline of the parse, and that the reported items are exactly an abstraction of one
    derivation tree of the whole text (no item can come from nowhere). -/
namespace XmlRs.C01
open XmlRs Gen.Xml

theorem parseNat_append_digit (base : Nat) (s : Str) (c : Char) :
    parseNat base (s ++ [c]) = parseNat base s * base + digitVal c := by
  simp [parseNat, List.foldl_append]

/-- a code point denotes exactly the XML Char with that number, and nothing else: `charOfNat n`
    answers `some c` iff `n` fits `u32`, is a Char of production [2] (extracted table, proved equal
    to the Recommendation in C18) and `c` is that scalar value -/
theorem charOfNat_spec (n : Nat) (c : Char) :
    charOfNat n = some c ↔ (n < 4294967296 ∧ Gen.isChar n = true ∧ c.toNat = n) := by
  unfold charOfNat
  constructor
  · intro h
    split at h
    · next hv =>
      split at h
      · next hc =>
        simp only [Bool.and_eq_true, decide_eq_true_eq] at hc
        simp only [Option.some.injEq] at h
        subst h
        exact ⟨hc.1, hc.2, rfl⟩
      · cases h
    · cases h
  · rintro ⟨h1, h2, h3⟩
    have hv : n.isValidChar := by rw [← h3]; exact c.valid
    rw [dif_pos hv, if_pos (by simp [h1, h2])]
    congr 1
    apply Char.ext
    subst h3
    rfl

/-- a character reference `&#digits;` / `&#xdigits;` denotes `charOfNat` of the number it spells -/
theorem charOfRef_spec (digits : Str) (hex : Bool) :
    charOfRef digits hex = charOfNat (parseNat (if hex then 16 else 10) digits) := rfl

/-- parsing is a function of the text: one text, one answer (stated for completeness; it holds
    because `parseDoc` is a Lean function — the content is that the model has no hidden state and
    the tie shows the code behaves like it; see C19) -/
theorem parse_deterministic (s : Str) (r1 r2 : Except XErr (IDoc × Str))
    (h1 : parseDoc s = r1) (h2 : parseDoc s = r2) : r1 = r2 := h1 ▸ h2

/-- the items of an accepted document are the abstraction of ONE derivation tree whose leaves
    spell the consumed text: nothing reported can come from outside the input -/
theorem items_come_from_the_text_partial (s : Str) (d : IDoc) (rest : Str)
    (h : parseDoc s = .ok (d, rest)) :
    ∃ c, Derives env (.nt N.document) (.node N.document c) ∧ c.flatten ++ rest = s ∧
      absDocument c = .ok d := by
  obtain ⟨c, h1, h2, h3, _⟩ := C02.accepted_is_derivable env false s d rest h
  exact ⟨c, h1, h2, h3⟩

example : charOfRef ['6', '5'] false = some 'A' ∧ charOfRef ['4', '1'] true = some 'A' ∧
    charOfRef ['0'] false = none ∧ charOfRef ['D', '8', '0', '0'] true = none := by decide

end XmlRs.C01
