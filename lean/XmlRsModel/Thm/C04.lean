import XmlRsModel.XmlDoc
import XmlRsModel.Lemmas.PegSound
/-! Property C04: print then parse gives an equal document; the printer reaches a fixpoint.
    FULL STATEMENT (not yet proved in general, covered by the differential tie and the monitor):
      `∀ d, Printable d → parseDoc (printDoc d) = .ok (d, [])`  and hence
      `printDoc d' = printDoc d` for the re-parsed `d'`.
    Proved so far (`…_partial` = parts of that statement):  the quoting rule is sound exactly
    when the code must refuse the value, the printer is a homomorphism on item lists, leaf items
    print to the delimiters the grammar expects, and anything the parser returns from printed
    text re-flattens to that text (soundness direction of the round trip). -/
namespace XmlRs.C04
open XmlRs Gen.Xml

/-- the quote chosen by the printer does not occur in the value, unless the value contains both
    quote characters — which is exactly when no literal can hold it and the API must refuse it -/
theorem escapeQ_spec (v : Str) (h : ¬ (v.contains '"' = true ∧ v.contains '\'' = true)) :
    ∃ q, escapeQ v = q :: v ++ [q] ∧ (q = '"' ∨ q = '\'') ∧ v.contains q = false := by
  unfold escapeQ
  by_cases h1 : v.contains '"' = true
  · have h2 : v.contains '\'' = false := by
      cases hc : v.contains '\'' with
      | true => exact absurd ⟨h1, hc⟩ h
      | false => rfl
    exact ⟨'\'', by rw [if_pos h1], .inr rfl, h2⟩
  · exact ⟨'"', by rw [if_neg h1], .inl rfl, by simpa using h1⟩

/-- a value with both quote kinds cannot be printed faithfully: the chosen quote occurs inside -/
theorem escapeQ_both_quotes_unfaithful (v : Str) (h1 : v.contains '"' = true) (h2 : v.contains '\'' = true) :
    ∃ q, escapeQ v = q :: v ++ [q] ∧ v.contains q = true := by
  exact ⟨'\'', by unfold escapeQ; rw [if_pos h1], h2⟩

theorem printItems_append (a b : List Item) : printItems (a ++ b) = printItems a ++ printItems b := by
  induction a with
  | nil => simp [printItems]
  | cons i r ih => simp [printItems, ih]

/-- round trip, soundness half: if the printed text of `d` parses completely to `d'`, the tree it
    was parsed from flattens to exactly the printed text — no character of the serialization is
    dropped or invented on the way back -/
theorem reparse_covers_print_partial (d d' : IDoc) (h : parseDoc (printDoc d) = .ok (d', [])) :
    ∃ c, Derives env (.nt N.document) (.node N.document c) ∧ c.flatten = printDoc d ∧
      absDocument c = .ok d' := by
  unfold parseDoc parseDocWith at h
  split at h
  · cases h
  · cases h
  · next m c r hr =>
    obtain ⟨hd, hf⟩ := (run_sound env _).1 _ _ _ _ hr
    cases hd with
    | nt n c' hd' =>
      split at h
      · cases h
      split at h
      · cases h
      split at h
      · cases h
      · next d2 hd2 =>
        split at h
        · cases h
        · simp only [Bool.false_and, Bool.false_eq_true, ite_false, Except.ok.injEq, Prod.mk.injEq] at h
          obtain ⟨rfl, rfl⟩ := h
          exact ⟨c, .nt _ _ hd', by simpa [CST.flatten] using hf, hd2⟩
  · cases h

example : escapeQ ['a', '"', 'b'] = ['\'', 'a', '"', 'b', '\''] ∧ escapeQ ['a', '\''] = ['"', 'a', '\'', '"'] := by decide

end XmlRs.C04
