import XmlRsModel.XmlDoc
import XmlRsModel.Lemmas.PegSound
import XmlRsModel.Lemmas.Canon
import XmlRsModel.Thm.C01
/-! Property C04: print then parse gives an equal document; the printer reaches a fixpoint.
    FULL STATEMENT:  `∀ d, Printable d → parseDoc (printDoc d) = .ok (d, [])`  and hence
      `printDoc d' = printDoc d` for the re-parsed `d'`.
    PROVED for the whole supported profile, DOCTYPE with internal subset included (`print_parse_roundtrip`, `printer_fixpoint`): the compact
    printer writes one particular rendering (`canonDoc`: one space in front of each attribute, no space around `=`,
    the quote that does not occur in the value, ` />` for an element without children), and every rendering parses to
    the document it renders (C01 `rendering_parses`, the completeness proof of the grammar translated from the current
    source).  `Printable` is spelled out: `canonDoc d = some cd` (the profile), `cd.ok` (the lexical side conditions of
    the productions, decidable), PI data does not start with white space (`faithfulTop`), references declared
    (`checkDoc`), nesting within the parser's limit.  Not covered: element declarations and comments of the internal
    subset are not part of the abstract document (the library drops them), so they are not printed either.
    Also proved (`…_partial` = parts of the full statement for every document):  the quoting rule is sound exactly
    when the code must refuse the value, the printer is a homomorphism on item lists, leaf items
    print to the delimiters the grammar expects, and anything the parser returns from printed
    text re-flattens to that text (soundness direction of the round trip). -/
namespace XmlRs.C04
open XmlRs Gen.Xml

/-- the quote chosen by the printer does not occur in the value, unless the value contains both
    quote characters — which is exactly when no literal can hold it and the API must refuse it -/
theorem escapeQ_spec (v : Str) (h : ¬ (v.contains '"' = true ∧ v.contains '\'' = true)) :
    ∃ q, escapeQ v = q :: v ++ [q] ∧ (q = '"' ∨ q = '\'') ∧ v.contains q = false := by
  unfold escapeQ
  by_cases h1 : v.contains '"' = true
  · have h2 : v.contains '\'' = false := by
      cases hc : v.contains '\'' with
      | true => exact absurd ⟨h1, hc⟩ h
      | false => rfl
    exact ⟨'\'', by rw [if_pos h1], .inr rfl, h2⟩
  · exact ⟨'"', by rw [if_neg h1], .inl rfl, by simpa using h1⟩

/-- a value with both quote kinds cannot be printed faithfully: the chosen quote occurs inside -/
theorem escapeQ_both_quotes_unfaithful (v : Str) (h1 : v.contains '"' = true) (h2 : v.contains '\'' = true) :
    ∃ q, escapeQ v = q :: v ++ [q] ∧ v.contains q = true := by
  exact ⟨'\'', by unfold escapeQ; rw [if_pos h1], h2⟩

theorem printItems_append (a b : List Item) : printItems (a ++ b) = printItems a ++ printItems b := by
  induction a with
  | nil => simp [printItems]
  | cons i r ih => simp [printItems, ih]

/-- round trip, soundness half: if the printed text of `d` parses completely to `d'`, the tree it
    was parsed from flattens to exactly the printed text — no character of the serialization is
    dropped or invented on the way back -/
theorem reparse_covers_print_partial (d d' : IDoc) (h : parseDoc (printDoc d) = .ok (d', [])) :
    ∃ c, Derives env (.nt N.document) (.node N.document c) ∧ c.flatten = printDoc d ∧
      absDocument c = .ok d' := by
  unfold parseDoc parseDocWith at h
  split at h
  · cases h
  · cases h
  · next m c r hr =>
    obtain ⟨hd, hf⟩ := (run_sound env _).1 _ _ _ _ hr
    cases hd with
    | nt n c' hd' =>
      split at h
      · cases h
      split at h
      · cases h
      split at h
      · cases h
      · next d2 hd2 =>
        split at h
        · cases h
        · simp only [Bool.false_and, Bool.false_eq_true, ite_false, Except.ok.injEq, Prod.mk.injEq] at h
          obtain ⟨rfl, rfl⟩ := h
          exact ⟨c, .nt _ _ hd', by simpa [CST.flatten] using hf, hd2⟩
  · cases h

/-- ROUND TRIP: the serialization of a printable document is accepted with nothing left
    over and denotes the same document - for every sufficient amount of fuel -/
theorem print_parse_roundtrip (d : IDoc) (cd : CDoc) (hc : canonDoc d = some cd) (hok : cd.ok = true)
    (hf : d.kids.all faithfulTop = true) (hdepth : cd.root.depth ≤ maxDepth_element)
    (hgroups : doctypeDepth cd.doctype ≤ maxDepth_children) (hchk : checkDoc d = .ok ()) :
    ∃ f0, ∀ f, f0 ≤ f → parseDocFuel env false f (printDoc d) = .ok (d, []) := by
  obtain ⟨h1, h2⟩ := Lex.canonDoc_spec d cd hc hf hok
  have := C01.rendering_parses cd hok hdepth hgroups (by rw [h2]; exact hchk)
  rw [h1, ← h2]
  rw [h2] at this ⊢
  exact this

/-- FIXPOINT: whatever the parser returns for the serialization of a printable document prints to the identical
    string -/
theorem printer_fixpoint (d : IDoc) (cd : CDoc) (hc : canonDoc d = some cd) (hok : cd.ok = true)
    (hf : d.kids.all faithfulTop = true) (hdepth : cd.root.depth ≤ maxDepth_element)
    (hgroups : doctypeDepth cd.doctype ≤ maxDepth_children) (hchk : checkDoc d = .ok ()) :
    ∃ f0, ∀ f, f0 ≤ f → ∀ d' rest, parseDocFuel env false f (printDoc d) = .ok (d', rest) → rest = [] ∧ printDoc d' = printDoc d := by
  obtain ⟨f0, h⟩ := print_parse_roundtrip d cd hc hok hf hdepth hgroups hchk
  refine ⟨f0, fun f hf' d' rest h' => ?_⟩
  rw [h f hf'] at h'
  simp only [Except.ok.injEq, Prod.mk.injEq] at h'
  exact ⟨h'.2.symm, by rw [← h'.1]⟩

/-- at the fuel the model uses: the document, or the model's fuel artefact -/
theorem print_parse_roundtrip_at_model_fuel (d : IDoc) (cd : CDoc) (hc : canonDoc d = some cd) (hok : cd.ok = true)
    (hf : d.kids.all faithfulTop = true) (hdepth : cd.root.depth ≤ maxDepth_element)
    (hgroups : doctypeDepth cd.doctype ≤ maxDepth_children) (hchk : checkDoc d = .ok ()) :
    parseDoc (printDoc d) = .ok (d, []) ∨ parseDoc (printDoc d) = .error .fuel := by
  obtain ⟨h1, h2⟩ := Lex.canonDoc_spec d cd hc hf hok
  have := C01.rendering_parses_at_model_fuel cd hok hdepth hgroups (by rw [h2]; exact hchk)
  rw [h1]
  rw [h2] at this
  exact this

/-- the premises are met by a document with attributes (one value holding a double quote), nested elements, text,
    references, CDATA, comment and PIs -/
def exItem : Item := .elem ⟨none, ['a']⟩ [⟨⟨some ['p'], ['k']⟩, [.text ['v', '"'], .entRef ['a', 'm', 'p']]⟩, ⟨⟨none, ['x']⟩, [.text ['\'']]⟩]
  [.elem ⟨none, ['b']⟩ [] [], .text ['t'], .charRef ['6', '5'] false, .cdata ['c'], .comment ['-', 'c'], .pi ['q'] (some ['d', ' '])]
def exDoctype : Doctype := ⟨⟨none, ['a']⟩, some ['-', '/', '/', 'X'], some ['u', '"'],
  [.attlist ⟨none, ['a']⟩ [⟨⟨some ['p'], ['k']⟩, .cdata, .implied⟩, ⟨⟨none, ['t']⟩, .enumeration [['x'], ['y']], .value true [.text ['x']]⟩,
     ⟨⟨none, ['n']⟩, .notation [['g']], .required⟩],
   .entity ['e'] (.internal [.text ['v', '"'], .charRef ['6', '5'] false, .peRef ['q']]),
   .entity ['u'] (.external none ['f'] (some ['g'])), .notation ['g'] (some ['i', 'd']) none, .pi ['t'] none]⟩
def exIDoc : IDoc := ⟨some ['1', '.', '0'], some ['U', 'T', 'F', '-', '8'], some true, [.comment ['h'], .doctype exDoctype, .pi ['y'] none, .elem exItem, .pi ['z'] none]⟩
example : ∃ cd, canonDoc exIDoc = some cd ∧ cd.ok = true ∧ exIDoc.kids.all faithfulTop = true ∧ cd.root.depth ≤ maxDepth_element ∧
    doctypeDepth cd.doctype ≤ maxDepth_children :=
  ⟨_, rfl, by decide, by decide, by decide, by decide⟩
example : checkDoc exIDoc = .ok () := by rfl

example : escapeQ ['a', '"', 'b'] = ['\'', 'a', '"', 'b', '\''] ∧ escapeQ ['a', '\''] = ['"', 'a', '\'', '"'] := by decide

end XmlRs.C04
