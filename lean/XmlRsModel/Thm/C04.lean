import XmlRsModel.XmlDoc
import XmlRsModel.Lemmas.PegSound
import XmlRsModel.Lemmas.Canon
import XmlRsModel.Thm.C01
/-! Property C04: print then parse gives an equal document; the printer reaches a fixpoint.
    FULL STATEMENT:  `∀ d, Printable d → parseDoc (printDoc d) = .ok (d, [])`  and hence
      `printDoc d' = printDoc d` for the re-parsed `d'`.
    PROVED for the whole supported profile, DOCTYPE with internal subset included (`print_parse_roundtrip`, `printer_fixpoint`): the compact
    printer writes one particular rendering (`canonDoc`: one space in front of each attribute, no space around `=`,
    the quote that does not occur in the value, ` />` for an element without children), and every rendering parses to
    the document it renders (C01 `rendering_parses`, the completeness proof of the grammar translated from the current
    source).  `Printable` is spelled out: `canonDoc d = some cd` (the profile), `cd.ok` (the lexical side conditions of
    the productions, decidable), PI data does not start with white space (`faithfulTop`), references declared
    (`checkDoc`), nesting within the parser's limit.  Not covered: element declarations and comments of the internal
    subset are not part of the abstract document (the library drops them), so they are not printed either.
    Also proved (`…_partial` = parts of the full statement for every document):  the quoting rule is sound exactly
    when the code must refuse the value, the printer is a homomorphism on item lists, leaf items
    print to the delimiters the grammar expects, and anything the parser returns from printed
    text re-flattens to that text (soundness direction of the round trip). -/
namespace XmlRs.C04
open XmlRs Gen.Xml

/-- the quote chosen by the printer does not occur in the value, unless the value contains both
    quote characters — which is exactly when no literal can hold it and the API must refuse it -/
theorem escapeQ_spec (v : Str) (h : ¬ (v.contains '"' = true ∧ v.contains '\'' = true)) :
    ∃ q, escapeQ v = q :: v ++ [q] ∧ (q = '"' ∨ q = '\'') ∧ v.contains q = false := by
  unfold escapeQ
  by_cases h1 : v.contains '"' = true
  · have h2 : v.contains '\'' = false := by
      cases hc : v.contains '\'' with
      | true => exact absurd ⟨h1, hc⟩ h
      | false => rfl
    exact ⟨'\'', by rw [if_pos h1], .inr rfl, h2⟩
  · exact ⟨'"', by rw [if_neg h1], .inl rfl, by simpa using h1⟩

/-- a value with both quote kinds cannot be printed faithfully: the chosen quote occurs inside -/
theorem escapeQ_both_quotes_unfaithful (v : Str) (h1 : v.contains '"' = true) (h2 : v.contains '\'' = true) :
    ∃ q, escapeQ v = q :: v ++ [q] ∧ v.contains q = true := by
  exact ⟨'\'', by unfold escapeQ; rw [if_pos h1], h2⟩

theorem printItems_append (a b : List Item) : printItems (a ++ b) = printItems a ++ printItems b := by
  induction a with
  | nil => simp [printItems]
  | cons i r ih => simp [printItems, ih]

/-- round trip, soundness half: if the printed text of `d` parses completely to `d'`, the tree it
    was parsed from flattens to exactly the printed text — no character of the serialization is
    dropped or invented on the way back -/
theorem reparse_covers_print_partial (d d' : IDoc) (h : parseDoc (printDoc d) = .ok (d', [])) :
    ∃ c, Derives env (.nt N.document) (.node N.document c) ∧ c.flatten = printDoc d ∧
      absDocument c = .ok d' := by
  unfold parseDoc parseDocWith at h
  split at h
  · cases h
  · cases h
  · next m c r hr =>
    obtain ⟨hd, hf⟩ := (run_sound env _).1 _ _ _ _ hr
    cases hd with
    | nt n c' hd' =>
      split at h
      · cases h
      split at h
      · cases h
      split at h
      · cases h
      · next d2 hd2 =>
        split at h
        · cases h
        · simp only [Bool.false_and, Bool.false_eq_true, ite_false, Except.ok.injEq, Prod.mk.injEq] at h
          obtain ⟨rfl, rfl⟩ := h
          exact ⟨c, .nt _ _ hd', by simpa [CST.flatten] using hf, hd2⟩
  · cases h

/-- ROUND TRIP: the serialization of a printable document is accepted with nothing left
    over and denotes the same document - for every sufficient amount of fuel -/
theorem print_parse_roundtrip (d : IDoc) (cd : CDoc) (hc : canonDoc d = some cd) (hok : cd.ok = true)
    (hf : d.kids.all faithfulTop = true) (hdepth : cd.root.depth ≤ maxDepth_element)
    (hgroups : doctypeDepth cd.doctype ≤ maxDepth_children) (hchk : checkDoc d = .ok ()) :
    ∃ f0, ∀ f, f0 ≤ f → parseDocFuel env false f (printDoc d) = .ok (d, []) := by
  obtain ⟨h1, h2⟩ := Lex.canonDoc_spec d cd hc hf hok
  have := C01.rendering_parses cd hok hdepth hgroups (by rw [h2]; exact hchk)
  rw [h1, ← h2]
  rw [h2] at this ⊢
  exact this

/-- FIXPOINT: whatever the parser returns for the serialization of a printable document prints to the identical
    string -/
theorem printer_fixpoint (d : IDoc) (cd : CDoc) (hc : canonDoc d = some cd) (hok : cd.ok = true)
    (hf : d.kids.all faithfulTop = true) (hdepth : cd.root.depth ≤ maxDepth_element)
    (hgroups : doctypeDepth cd.doctype ≤ maxDepth_children) (hchk : checkDoc d = .ok ()) :
    ∃ f0, ∀ f, f0 ≤ f → ∀ d' rest, parseDocFuel env false f (printDoc d) = .ok (d', rest) → rest = [] ∧ printDoc d' = printDoc d := by
  obtain ⟨f0, h⟩ := print_parse_roundtrip d cd hc hok hf hdepth hgroups hchk
  refine ⟨f0, fun f hf' d' rest h' => ?_⟩
  rw [h f hf'] at h'
  simp only [Except.ok.injEq, Prod.mk.injEq] at h'
  exact ⟨h'.2.symm, by rw [← h'.1]⟩

/-- at the fuel the model uses: the document, or the model's fuel artefact -/
theorem print_parse_roundtrip_at_model_fuel (d : IDoc) (cd : CDoc) (hc : canonDoc d = some cd) (hok : cd.ok = true)
    (hf : d.kids.all faithfulTop = true) (hdepth : cd.root.depth ≤ maxDepth_element)
    (hgroups : doctypeDepth cd.doctype ≤ maxDepth_children) (hchk : checkDoc d = .ok ()) :
    parseDoc (printDoc d) = .ok (d, []) ∨ parseDoc (printDoc d) = .error .fuel := by
  obtain ⟨h1, h2⟩ := Lex.canonDoc_spec d cd hc hf hok
  have := C01.rendering_parses_at_model_fuel cd hok hdepth hgroups (by rw [h2]; exact hchk)
  rw [h1]
  rw [h2] at this
  exact this

/-- the premises are met by a document with attributes (one value holding a double quote), nested elements, text,
    references, CDATA, comment and PIs -/
def exItem : Item := .elem ⟨none, ['a']⟩ [⟨⟨some ['p'], ['k']⟩, [.text ['v', '"'], .entRef ['a', 'm', 'p']]⟩, ⟨⟨none, ['x']⟩, [.text ['\'']]⟩]
  [.elem ⟨none, ['b']⟩ [] [], .text ['t'], .charRef ['6', '5'] false, .cdata ['c'], .comment ['-', 'c'], .pi ['q'] (some ['d', ' '])]
def exDoctype : Doctype := ⟨⟨none, ['a']⟩, some ['-', '/', '/', 'X'], some ['u', '"'],
  [.attlist ⟨none, ['a']⟩ [⟨⟨some ['p'], ['k']⟩, .cdata, .implied⟩, ⟨⟨none, ['t']⟩, .enumeration [['x'], ['y']], .value true [.text ['x']]⟩,
     ⟨⟨none, ['n']⟩, .notation [['g']], .required⟩],
   .entity ['e'] (.internal [.text ['v', '"'], .charRef ['6', '5'] false, .peRef ['q']]),
   .entity ['u'] (.external none ['f'] (some ['g'])), .notation ['g'] (some ['i', 'd']) none, .pi ['t'] none]⟩
def exIDoc : IDoc := ⟨some ['1', '.', '0'], some ['U', 'T', 'F', '-', '8'], some true, [.comment ['h'], .doctype exDoctype, .pi ['y'] none, .elem exItem, .pi ['z'] none]⟩
example : ∃ cd, canonDoc exIDoc = some cd ∧ cd.ok = true ∧ exIDoc.kids.all faithfulTop = true ∧ cd.root.depth ≤ maxDepth_element ∧
    doctypeDepth cd.doctype ≤ maxDepth_children :=
  ⟨_, rfl, by decide, by decide, by decide, by decide⟩
example : checkDoc exIDoc = .ok () := by rfl

example : escapeQ ['a', '"', 'b'] = ['\'', 'a', '"', 'b', '\''] ∧ escapeQ ['a', '\''] = ['"', 'a', '\'', '"'] := by decide

/-! ### the serialization followed by a line feed (what the command-line tools write) -/

def noWs (l : List CMisc) : Bool := l.all fun m => !isWsMisc m

theorem canonMiscs_noWs : ∀ (ts : List TopItem) (ms : List CMisc), canonMiscs ts = some ms → noWs ms = true
  | [], ms, h => by simp only [canonMiscs, Option.some.injEq] at h; subst h; rfl
  | .comment s :: r, ms, h => by
    simp only [canonMiscs, Option.map_eq_some_iff] at h
    obtain ⟨a, ha, rfl⟩ := h
    simp only [noWs, List.all_cons, isWsMisc, Bool.not_false, Bool.true_and]
    exact canonMiscs_noWs r a ha
  | .pi t d :: r, ms, h => by
    simp only [canonMiscs, Option.map_eq_some_iff] at h
    obtain ⟨a, ha, rfl⟩ := h
    simp only [noWs, List.all_cons, isWsMisc, Bool.not_false, Bool.true_and]
    exact canonMiscs_noWs r a ha
  | .doctype _ :: _, _, h => by simp [canonMiscs] at h
  | .elem _ :: _, _, h => by simp [canonMiscs] at h

theorem canonTop_noWs : ∀ (ts : List TopItem) (b : List CMisc) (e : CItem) (a : List CMisc), canonTop ts = some (b, e, a) → noWs a = true
  | [], _, _, _, h => by simp [canonTop] at h
  | .elem x :: r, b, e, a, h => by
    simp only [canonTop, Option.map_eq_some_iff, Prod.mk.injEq] at h
    obtain ⟨a', ha, _, _, rfl⟩ := h
    exact canonMiscs_noWs r a' ha
  | .comment s :: r, b, e, a, h => by
    simp only [canonTop, Option.map_eq_some_iff] at h
    obtain ⟨⟨b', e', a'⟩, hr, hh⟩ := h
    simp only [Prod.mk.injEq] at hh
    obtain ⟨_, _, rfl⟩ := hh
    exact canonTop_noWs r b' e' a' hr
  | .pi t d :: r, b, e, a, h => by
    simp only [canonTop, Option.map_eq_some_iff] at h
    obtain ⟨⟨b', e', a'⟩, hr, hh⟩ := h
    simp only [Prod.mk.injEq] at hh
    obtain ⟨_, _, rfl⟩ := hh
    exact canonTop_noWs r b' e' a' hr
  | .doctype _ :: _, _, _, _, h => by simp [canonTop] at h

theorem canonTopD_noWs : ∀ (ts : List TopItem) (b : List CMisc) (dt : Option (CDoctype × List CMisc)) (e : CItem) (a : List CMisc),
    canonTopD ts = some (b, dt, e, a) → noWs a = true
  | [], _, _, _, _, h => by simp [canonTopD] at h
  | .elem x :: r, b, dt, e, a, h => by
    simp only [canonTopD, Option.map_eq_some_iff, Prod.mk.injEq] at h
    obtain ⟨a', ha, _, _, _, rfl⟩ := h
    exact canonMiscs_noWs r a' ha
  | .comment s :: r, b, dt, e, a, h => by
    simp only [canonTopD, Option.map_eq_some_iff] at h
    obtain ⟨⟨b', dt', e', a'⟩, hr, hh⟩ := h
    simp only [Prod.mk.injEq] at hh
    obtain ⟨_, _, _, rfl⟩ := hh
    exact canonTopD_noWs r b' dt' e' a' hr
  | .pi t d :: r, b, dt, e, a, h => by
    simp only [canonTopD, Option.map_eq_some_iff] at h
    obtain ⟨⟨b', dt', e', a'⟩, hr, hh⟩ := h
    simp only [Prod.mk.injEq] at hh
    obtain ⟨_, _, _, rfl⟩ := hh
    exact canonTopD_noWs r b' dt' e' a' hr
  | .doctype d :: r, b, dt, e, a, h => by
    simp only [canonTopD] at h
    split at h
    · next cd b2 e2 a2 _ hr =>
      simp only [Option.some.injEq, Prod.mk.injEq] at h
      obtain ⟨_, _, _, rfl⟩ := h
      exact canonTop_noWs r b2 e2 a2 hr
    · cases h

theorem canonDoc_after_noWs (d : IDoc) (cd : CDoc) (hc : canonDoc d = some cd) : noWs cd.after = true := by
  unfold canonDoc at hc
  split at hc
  · cases hc
  · next decl _ =>
    simp only [Option.map_eq_some_iff] at hc
    obtain ⟨⟨b, dt, e, a⟩, hr, rfl⟩ := hc
    exact canonTopD_noWs d.kids b dt e a hr

theorem adjWs_snoc_ws : ∀ (l : List CMisc) (w : Str), noWs l = true → adjWs (l ++ [CMisc.ws w]) = false
  | [], w, _ => by simp [adjWs, isWsMisc]
  | m :: r, w, h => by
    simp only [noWs, List.all_cons, Bool.and_eq_true, Bool.not_eq_true'] at h
    simp only [List.cons_append, adjWs, h.1, Bool.false_and, Bool.false_or]
    exact adjWs_snoc_ws r w (by simpa [noWs] using h.2)

theorem miscText_append : ∀ (a b : List CMisc), miscText (a ++ b) = miscText a ++ miscText b
  | [], b => rfl
  | m :: r, b => by simp only [List.cons_append, miscText, miscText_append r b, List.append_assoc]

/-- the concrete document with one line feed behind everything else -/
def withNL (cd : CDoc) : CDoc := { cd with after := cd.after ++ [CMisc.ws ['\n']] }

theorem withNL_ok (cd : CDoc) (hok : cd.ok = true) (hn : noWs cd.after = true) : (withNL cd).ok = true := by
  simp only [CDoc.ok, Bool.and_eq_true, Bool.not_eq_true'] at hok ⊢
  obtain ⟨⟨⟨⟨⟨⟨⟨h1, h2⟩, h3⟩, h4⟩, h5⟩, h6⟩, h7⟩, h8⟩ := hok
  refine ⟨⟨⟨⟨⟨⟨⟨h1, h2⟩, h3⟩, h4⟩, h5⟩, ?_⟩, ?_⟩, h8⟩
  · simp only [withNL, List.all_append, h6, Bool.true_and, List.all_cons, List.all_nil, Bool.and_true]
    decide
  · exact adjWs_snoc_ws cd.after ['\n'] hn

theorem withNL_str (cd : CDoc) : (withNL cd).str = cd.str ++ ['\n'] := by
  simp only [withNL, CDoc.str, miscText_append, miscText, CMisc.str, List.append_nil, List.append_assoc]

theorem withNL_erase (cd : CDoc) : (withNL cd).erase = cd.erase := by
  simp only [withNL, CDoc.erase, List.filterMap_append, List.filterMap_cons, CMisc.erase, List.filterMap_nil, List.append_nil]

/-- ROUND TRIP OF WHAT THE TOOLS WRITE: the serialization of a printable document followed by a line feed is accepted
    with nothing left over and denotes the same document -/
theorem print_newline_roundtrip (d : IDoc) (cd : CDoc) (hc : canonDoc d = some cd) (hok : cd.ok = true)
    (hf : d.kids.all faithfulTop = true) (hdepth : cd.root.depth ≤ maxDepth_element)
    (hgroups : doctypeDepth cd.doctype ≤ maxDepth_children) (hchk : checkDoc d = .ok ()) :
    ∃ f0, ∀ f, f0 ≤ f → parseDocFuel env false f (printDoc d ++ ['\n']) = .ok (d, []) := by
  obtain ⟨h1, h2⟩ := Lex.canonDoc_spec d cd hc hf hok
  have hn := canonDoc_after_noWs d cd hc
  have := C01.rendering_parses (withNL cd) (withNL_ok cd hok hn) hdepth hgroups (by rw [withNL_erase, h2]; exact hchk)
  rw [withNL_str, withNL_erase, ← h1, h2] at this
  exact this

end XmlRs.C04
