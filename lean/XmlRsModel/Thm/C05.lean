import XmlRsModel.Lemmas.XPathOrder
import XmlRsModel.Thm.C07
/-! Property C05: XPath evaluation returns the value XPath 1.0 prescribes.
    The evaluator (`XPath/Eval.lean`) is written the way the Recommendation is written; so that the
    executable definition is not its own specification, the axes are characterised here
    declaratively in terms of document order and the prefix (ancestor) relation on keys, and the
    Recommendation's own sentence (2.2) is proved: the ancestor, descendant, following, preceding
    and self axes partition the document. -/
namespace XmlRs.C05
open XmlRs XmlRs.XPath

/-! ### the axes, declaratively (context node that is not an attribute / namespace node) -/

theorem mem_ancestor (d : XDoc) (c k : Key) :
    k ∈ axisKeys d .ancestor c ↔ k ∈ allKeys d ∧ isDescendantKey k c = true ∧ isAN k = false := by
  simp [axisKeys, List.mem_filter]

theorem mem_descendant (d : XDoc) (c k : Key) (hc : isAN c = false) :
    k ∈ axisKeys d .descendant c ↔ k ∈ allKeys d ∧ isAN k = false ∧ isDescendantKey c k = true := by
  simp only [axisKeys, hc, List.mem_filter, Bool.false_eq_true, if_false, Bool.not_eq_true', Bool.and_eq_true]
  constructor
  · rintro ⟨⟨h1, h2⟩, h3⟩; exact ⟨h1, h2, h3⟩
  · rintro ⟨h1, h2, h3⟩; exact ⟨⟨h1, h2⟩, h3⟩

/-- following: after the context node in document order, not a descendant, not an attribute or
    namespace node -/
theorem mem_following (d : XDoc) (c k : Key) :
    k ∈ axisKeys d .following c ↔
      k ∈ allKeys d ∧ isAN k = false ∧ keyLt c k = true ∧ isDescendantKey c k = false := by
  simp only [axisKeys, List.mem_filter, Bool.not_eq_true', Bool.and_eq_true]
  constructor
  · rintro ⟨⟨h1, h2⟩, h3, h4⟩; exact ⟨h1, h2, h3, h4⟩
  · rintro ⟨h1, h2, h3, h4⟩; exact ⟨⟨h1, h2⟩, h3, h4⟩

/-- preceding: before the context node in document order, not an ancestor, not an attribute or
    namespace node -/
theorem mem_preceding (d : XDoc) (c k : Key) :
    k ∈ axisKeys d .preceding c ↔
      k ∈ allKeys d ∧ isAN k = false ∧ keyLt k c = true ∧ isDescendantKey k c = false := by
  simp only [axisKeys, List.mem_filter, Bool.not_eq_true', Bool.and_eq_true]
  constructor
  · rintro ⟨⟨h1, h2⟩, h3, h4⟩; exact ⟨h1, h2, h3, h4⟩
  · rintro ⟨h1, h2, h3, h4⟩; exact ⟨⟨h1, h2⟩, h3, h4⟩

theorem mem_self (d : XDoc) (c k : Key) : k ∈ axisKeys d .self c ↔ k = c := by simp [axisKeys]

/-- `lookupIn` (a key below the root) never answers `root` -/
theorem lookupIn_ne_root : ∀ (ks : List XNode) (key : Key) (t : Target), lookupIn ks key = some t → t ≠ .root
  | _, [], _, h => by simp [lookupIn] at h
  | ks, [i], t, h => by
      simp only [lookupIn] at h
      split at h
      · simp only [Option.map_eq_some_iff] at h
        obtain ⟨n, _, rfl⟩ := h
        intro hr; cases hr
      · cases h
  | ks, i :: j :: r, t, h => by
      simp only [lookupIn] at h
      split at h
      · split at h
        · cases h
        · next n _ =>
          split at h
          · split at h
            · simp only [Option.map_eq_some_iff] at h
              obtain ⟨p, _, rfl⟩ := h
              intro hr; cases hr
            · cases h
          · split at h
            · split at h
              · simp only [Option.map_eq_some_iff] at h
                obtain ⟨p, _, rfl⟩ := h
                intro hr; cases hr
              · cases h
            · exact lookupIn_ne_root n.kids (j :: r) t h
      · cases h

/-- children are exactly one step below the context node (element or root) -/
theorem mem_child (d : XDoc) (c k : Key) (h : k ∈ axisKeys d .child c) : ∃ i, k = c ++ [i + 2] := by
  simp only [axisKeys] at h
  split at h
  · simp at h
  · simp only [childKeys] at h
    split at h
    · next heq =>
      have hc : c = [] := by
        cases c with
        | nil => rfl
        | cons x xs =>
          simp only [lookup] at heq
          cases hx : lookupIn d.kids (x :: xs) with
          | none => simp [hx] at heq
          | some t =>
            exfalso
            simp only [hx, Option.some.injEq] at heq
            exact lookupIn_ne_root _ _ _ hx heq
      subst hc
      simp only [List.mem_map, List.mem_range] at h
      obtain ⟨i, _, rfl⟩ := h
      exact ⟨i, rfl⟩
    · simp only [List.mem_map, List.mem_range] at h
      obtain ⟨i, _, rfl⟩ := h
      exact ⟨i, rfl⟩
    · cases h

/-! ### "The ancestor, descendant, following, preceding and self axes partition a document (ignoring
    attribute and namespace nodes): they do not overlap and together they contain all the nodes" -/

/-- together they contain all the nodes -/
theorem axes_cover (d : XDoc) (c k : Key) (hc : isAN c = false) (hk : k ∈ allKeys d) (hkn : isAN k = false) :
    k ∈ axisKeys d .self c ∨ k ∈ axisKeys d .ancestor c ∨ k ∈ axisKeys d .descendant c ∨
    k ∈ axisKeys d .following c ∨ k ∈ axisKeys d .preceding c := by
  rw [mem_self, mem_ancestor, mem_descendant d c k hc, mem_following, mem_preceding]
  rcases keyLt_total k c with rfl | hlt | hgt
  · exact Or.inl rfl
  · -- k before c: an ancestor or a preceding node
    cases hd : isDescendantKey k c with
    | true => exact Or.inr (Or.inl ⟨hk, rfl, hkn⟩)
    | false => exact Or.inr (Or.inr (Or.inr (Or.inr ⟨hk, hkn, hlt, rfl⟩)))
  · cases hd : isDescendantKey c k with
    | true => exact Or.inr (Or.inr (Or.inl ⟨hk, hkn, rfl⟩))
    | false => exact Or.inr (Or.inr (Or.inr (Or.inl ⟨hk, hkn, hgt, rfl⟩)))

/-- they do not overlap -/
theorem axes_disjoint (d : XDoc) (c k : Key) (hc : isAN c = false) :
    ¬ (k ∈ axisKeys d .self c ∧ k ∈ axisKeys d .ancestor c) ∧
    ¬ (k ∈ axisKeys d .self c ∧ k ∈ axisKeys d .descendant c) ∧
    ¬ (k ∈ axisKeys d .self c ∧ k ∈ axisKeys d .following c) ∧
    ¬ (k ∈ axisKeys d .self c ∧ k ∈ axisKeys d .preceding c) ∧
    ¬ (k ∈ axisKeys d .ancestor c ∧ k ∈ axisKeys d .descendant c) ∧
    ¬ (k ∈ axisKeys d .ancestor c ∧ k ∈ axisKeys d .following c) ∧
    ¬ (k ∈ axisKeys d .ancestor c ∧ k ∈ axisKeys d .preceding c) ∧
    ¬ (k ∈ axisKeys d .descendant c ∧ k ∈ axisKeys d .following c) ∧
    ¬ (k ∈ axisKeys d .descendant c ∧ k ∈ axisKeys d .preceding c) ∧
    ¬ (k ∈ axisKeys d .following c ∧ k ∈ axisKeys d .preceding c) := by
  rw [mem_self, mem_ancestor, mem_descendant d c k hc, mem_following, mem_preceding]
  have irr := keyLt_irrefl c
  refine ⟨?_, ?_, ?_, ?_, ?_, ?_, ?_, ?_, ?_, ?_⟩
  · rintro ⟨rfl, _, h, _⟩; have := descendant_after h; simp [irr] at this
  · rintro ⟨rfl, _, _, h⟩; have := descendant_after h; simp [irr] at this
  · rintro ⟨rfl, _, _, h, _⟩; simp [irr] at h
  · rintro ⟨rfl, _, _, h, _⟩; simp [irr] at h
  · rintro ⟨⟨_, h1, _⟩, _, _, h2⟩
    have := keyLt_asymm (descendant_after h1); simp [descendant_after h2] at this
  · rintro ⟨⟨_, h1, _⟩, _, _, h2, _⟩
    have := keyLt_asymm (descendant_after h1); simp [h2] at this
  · rintro ⟨⟨_, h1, _⟩, _, _, _, h2⟩; simp [h1] at h2
  · rintro ⟨⟨_, _, h1⟩, _, _, _, h2⟩; simp [h1] at h2
  · rintro ⟨⟨_, _, h1⟩, _, _, h2, _⟩
    have := keyLt_asymm (descendant_after h1); simp [h2] at this
  · rintro ⟨⟨_, _, h1, _⟩, _, _, h2, _⟩
    have := keyLt_asymm h1; simp [h2] at this

/-! ### node tests select the principal node type (2.3) -/

theorem principal_node_type_any (env : XPath.Env) (a : Axis) (k : Key) (h : nodeTest env a .any k = .ok true) :
    kindOf env.doc k = principal a := by
  simpa [nodeTest] using h

theorem principal_node_type_name (env : XPath.Env) (a : Axis) (q : QN) (k : Key)
    (h : nodeTest env a (.name q) k = .ok true) : kindOf env.doc k = principal a := by
  simp only [nodeTest] at h
  split at h
  · -- prefixed: the kind is tested before the prefix is looked up
    split at h
    · next hk => simp at h
    · next hk => simpa using hk
  · simp only [Except.ok.injEq, Bool.and_eq_true, beq_iff_eq] at h; exact h.1

theorem principal_is_element_except_attr_ns (a : Axis) (h1 : a ≠ .attribute) (h2 : a ≠ .namespace) :
    principal a = .elem := by
  cases a <;> simp_all [principal]

/-! ### proximity position counts along the axis direction (2.4) -/

theorem predicate_positions_forward (env : XPath.Env) (p : Expr) (ks : List Key) :
    filterPreds env [p] false ks = (match filterOne env p ks 1 ks.length with
      | .ok kept => .ok kept | .error x => .error x) := by
  simp only [filterPreds]
  cases hF : filterOne env p ks 1 ks.length <;> simp [hF, filterPreds]

/-- on a reverse axis the candidates (kept in document order) are numbered from the END: position 1
    is the node closest to the context node -/
theorem predicate_positions_reverse (env : XPath.Env) (p : Expr) (ks : List Key) :
    filterPreds env [p] true ks = (match filterOne env p ks.reverse 1 ks.length with
      | .ok kept => .ok kept.reverse | .error x => .error x) := by
  simp only [filterPreds, List.length_reverse]
  cases hF : filterOne env p ks.reverse 1 ks.length <;> simp [hF, filterPreds]

theorem reverse_axes : (isReverse .ancestor ∧ isReverse .ancestorOrSelf ∧ isReverse .preceding ∧
    isReverse .precedingSibling) ∧ (isReverse .child = false ∧ isReverse .descendant = false ∧
    isReverse .following = false ∧ isReverse .attribute = false ∧ isReverse .self = false) := by decide

/-- a number-valued predicate is true exactly when the number equals the context position -/
theorem numeric_predicate_is_position_test (env : XPath.Env) (s : Str) (k : Key) (r : List Key) (i n : Nat) :
    filterOne env (.num s) (k :: r) i n = (match filterOne env (.num s) r (i + 1) n with
      | .ok ks => .ok (if eqB (parseNum s) (ofNat i) then k :: ks else ks)
      | .error x => .error x) := by
  simp only [filterOne, eval]
  cases hF : filterOne env (.num s) r (i + 1) n <;> simp [hF]

/-! ### string-values (5.1 - 5.7) -/

theorem strVal_attribute (d : XDoc) (k : Key) (o : XNode) (q : QN) (v : Str)
    (h : lookup d k = some (.attr o q v)) : strVal d k = v := by simp [strVal, h]

theorem strVal_element (d : XDoc) (k : Key) (q : QN) (ns : List (Str × Str)) (as : List (QN × Str)) (ks : List XNode)
    (h : lookup d k = some (.node (.elem q ns as ks))) : strVal d k = textDescL ks := by simp [strVal, strValNode, h]

theorem strVal_root (d : XDoc) : strVal d [] = textDescL d.kids := by simp [strVal, lookup]

/-- comments and processing instructions contribute nothing to the string-value of what contains them -/
theorem textDesc_skips_comment_pi (s t u : Str) : textDesc (.comment s) = [] ∧ textDesc (.pi t u) = [] := by
  simp [textDesc]

/-! ### relations between axes (added 2026-09-23) -/
/-- ancestor-or-self is ancestor plus the context node (for a context node of the document), as sets -/
theorem mem_ancestor_or_self (d : XDoc) (c k : Key) (hc : c ∈ allKeys d) :
    k ∈ axisKeys d .ancestorOrSelf c ↔ k ∈ axisKeys d .ancestor c ∨ k ∈ axisKeys d .self c := by
  simp only [axisKeys, List.mem_filter, Bool.or_eq_true, Bool.and_eq_true, beq_iff_eq, List.mem_singleton]
  constructor
  · rintro ⟨h1, h2 | h2⟩
    · exact Or.inl ⟨h1, h2⟩
    · exact Or.inr h2
  · rintro (⟨h1, h2⟩ | h)
    · exact ⟨h1, Or.inl h2⟩
    · subst h; exact ⟨hc, Or.inr rfl⟩

/-- descendant-or-self is descendant plus the context node, as sets (context node of the tree proper) -/
theorem mem_descendant_or_self (d : XDoc) (c k : Key) (hc : c ∈ allKeys d) (hcn : isAN c = false) :
    k ∈ axisKeys d .descendantOrSelf c ↔ k ∈ axisKeys d .descendant c ∨ k ∈ axisKeys d .self c := by
  simp only [axisKeys, hcn, Bool.false_eq_true, if_false, List.mem_filter, Bool.or_eq_true,
    beq_iff_eq, List.mem_singleton, Bool.not_eq_true']
  constructor
  · rintro ⟨h1, h2 | h2⟩
    · exact Or.inl ⟨h1, h2⟩
    · exact Or.inr h2
  · rintro (⟨h1, h2⟩ | h)
    · exact ⟨h1, Or.inl h2⟩
    · subst h; exact ⟨⟨hc, hcn⟩, Or.inr rfl⟩

/-- from an attribute or namespace node descendant-or-self is the node itself, and it has no children, attributes,
    namespace nodes, descendants or siblings -/
theorem axes_of_attribute_node (d : XDoc) (c : Key) (hc : isAN c = true) :
    axisKeys d .descendantOrSelf c = [c] ∧ axisKeys d .child c = [] ∧ axisKeys d .attribute c = [] ∧
    axisKeys d .namespace c = [] ∧ axisKeys d .descendant c = [] ∧ axisKeys d .followingSibling c = [] ∧
    axisKeys d .precedingSibling c = [] := by
  simp [axisKeys, hc]

end XmlRs.C05
