import XmlRsModel.XPath.Eval
import XmlRsModel.Lemmas.PegSound
import XmlRsModel.Lemmas.XDepth
/-! Property C08: equivalent XPath spellings evaluate identically; precedence per grammar.
    The abbreviations are removed by the abstraction `CST → Expr` (`XPath/Ast.lean`), which maps the
    abbreviated and the unabbreviated spelling to the SAME abstract syntax; here the semantic side
    is proved on abstract syntax (what `.`, `..`, `//`, `[n]` mean), and the grammar side: an
    accepted expression is a derivation of the layered expression grammar generated from the source
    (or < and < equality < relational < additive < multiplicative < unary < union), consuming the
    whole string.
    FULL STATEMENT, proved below over concrete expressions (`XPath/Concrete.lean`: an abstract expression plus every
    surface choice -- white space, quotes, abbreviated or spelled-out axes, `//`, redundant layers): every well-formed
    spelling `e` is parsed to the abstract expression `e.erase` it denotes (`spelling_parses`), hence two spellings
    of one expression evaluate identically (`equivalent_spellings_evaluate_identically`), and the abbreviations denote
    their expansions (`abbreviations_denote_their_expansions`). -/
namespace XmlRs.C08
open XmlRs XmlRs.XPath

/-- `.` selects the context node and nothing else -/
theorem dot_is_self_node (env : XPath.Env) (k : Key) : evalStep env (.mk .self .node []) k = .ok [k] := by
  simp [evalStep, axisKeys, evalStep.tests, nodeTest, filterPreds]

/-- `..` selects the parent (for an attribute or namespace node: the owner element; for the root: nothing) -/
theorem dotdot_is_parent_node (env : XPath.Env) (k : Key) :
    evalStep env (.mk .parent .node []) k = .ok (match parentKey k with | some p => [p] | none => []) := by
  simp only [evalStep, axisKeys, filterPreds]
  cases parentKey k <;> simp [evalStep.tests, nodeTest]

/-- `//` is `/descendant-or-self::node()/`: the abstraction inserts exactly that step -/
theorem dslash_step : dosStep = .mk .descendantOrSelf .node [] := rfl

private theorem ord_eq_swap (i j : Int) :
    ((if i < j then Ordering.lt else if i == j then Ordering.eq else Ordering.gt) == Ordering.eq) =
    ((if j < i then Ordering.lt else if j == i then Ordering.eq else Ordering.gt) == Ordering.eq) := by
  by_cases h1 : i < j
  · have h2 : ¬ j < i := by omega
    have h3 : ¬ j = i := by omega
    simp [h1, h2, h3]
  · by_cases h2 : j < i
    · have h3 : ¬ i = j := by omega
      simp [h1, h2, h3]
    · have h3 : i = j := by omega
      subst h3; simp

private theorem align_swap (m1 : Nat) (e1 : Int) (m2 : Nat) (e2 : Int) :
    (align m1 e1 m2 e2).1 = (align m2 e2 m1 e1).2.1 ∧ (align m1 e1 m2 e2).2.1 = (align m2 e2 m1 e1).1 := by
  simp only [align]
  by_cases h1 : e1 ≤ e2 <;> by_cases h2 : e2 ≤ e1 <;> simp [h1, h2]
  · have : e1 = e2 := by omega
    subst this; simp
  · omega

private theorem cmpB_swap (a b : Bits) : (cmpB a b == some .eq) = (cmpB b a == some .eq) := by
  unfold cmpB
  cases decode a with
  | nan => cases decode b <;> simp
  | inf s =>
    cases decode b with
    | nan => simp
    | inf t => cases s <;> cases t <;> simp
    | fin t m e => cases s <;> simp
  | fin s m1 e1 =>
    cases decode b with
    | nan => simp
    | inf t => cases t <;> simp
    | fin t m2 e2 =>
      obtain ⟨ha, hb⟩ := align_swap m1 e1 m2 e2
      simp only [ha, hb]
      generalize (align m2 e2 m1 e1).1 = p
      generalize (align m2 e2 m1 e1).2.1 = q
      have := ord_eq_swap (if s then -(q : Int) else q) (if t then -(p : Int) else p)
      simpa using this

theorem eqB_comm (a b : Bits) : eqB a b = eqB b a := by unfold eqB; exact cmpB_swap a b

/-- `[n]` is `[position() = n]` for EVERY number n (also fractions, NaN, negative numbers): both
    predicates keep exactly the same nodes -/
theorem numeric_predicate (env : XPath.Env) (s : Str) : ∀ (ks : List Key) (i n : Nat),
    filterOne env (.num s) ks i n =
      filterOne env (.bin .eq (.call ⟨none, "position".toList⟩ []) (.num s)) ks i n
  | [], _, _ => by simp [filterOne]
  | k :: r, i, n => by
      have ih := numeric_predicate env s r (i + 1) n
      have hpos : eval env (.call ⟨none, "position".toList⟩ []) ⟨k, i, n⟩ = .ok (.num (ofNat i)) := by
        simp [eval, funcTable, evalArgs, applyFunc]
      have hc : XPath.compare env.doc .eq (.num (ofNat i)) (.num (parseNum s)) = eqB (parseNum s) (ofNat i) := by
        simp [XPath.compare, cmpScalar, toNum, eqB_comm]
      simp only [filterOne, eval, hpos, ih, cmpOf, hc, XPath.toBool]
      cases filterOne env (.bin .eq (.call ⟨none, "position".toList⟩ []) (.num s)) r (i + 1) n <;> rfl

/-- an omitted axis is `child::`, `@` is `attribute::` -/
theorem abbreviated_axes (nm : Str) : axisOfName "child" = .child ∧ axisOfName "attribute" = .attribute ∧
    axisOfName "descendant-or-self" = .descendantOrSelf ∧ axisOfName "self" = .self ∧ axisOfName "parent" = .parent := by
  decide

/-- an accepted expression is a derivation of the generated (layered) grammar that spells exactly the
    whole input: operators bind as the productions nest -/
theorem parse_sound (s : Str) (e : Expr) (h : parseExpr s = .ok e) :
    ∃ c, Derives Gen.XPath.env (.nt Gen.XPath.N.parse) c ∧ c.flatten = s := by
  unfold parseExpr parseExprFuel at h
  split at h
  · cases h
  · cases h
  · next c rest hr =>
    split at h
    · cases h
    · split at h
      · next hrest =>
        obtain ⟨hd, hf⟩ := (run_sound Gen.XPath.env _).1 _ _ _ _ hr
        have : rest = [] := by cases rest <;> simp_all
        subst this
        exact ⟨c, hd, by simpa using hf⟩
      · cases h

/-- no accepted expression nests parentheses, predicates and function arguments deeper than the
    limit read from the source: every recursion over an accepted expression is bounded -/
theorem depth_refused (s : Str) (e : Expr) (h : parseExpr s = .ok e) (hlim : Gen.XPath.maxDepth_expr ≠ 0) :
    ∃ c rest, run Gen.XPath.env (xpathFuel s) (.nt Gen.XPath.N.parse) s = .ok c rest ∧
      exprDepth c ≤ Gen.XPath.maxDepth_expr := by
  unfold parseExpr parseExprFuel at h
  split at h
  · cases h
  · cases h
  · next c rest hr =>
    refine ⟨c, rest, hr, ?_⟩
    split at h
    · cases h
    · next hd =>
      apply Nat.le_of_not_lt
      intro hgt
      apply hd
      simp [hlim, hgt]

/-! ### completeness: every spelling of an expression is parsed to that expression -/
open XmlRs.XLex in
/-- the tree the expression parser builds for a spelling -/
theorem spelling_runs (e : CX) (hok : e.ok = true) :
    Runs Gen.XPath.env (.nt Gen.XPath.N.parse) e.str (.ok (.node Gen.XPath.N.parse (.node Gen.XPath.N.expr (cstX e))) []) := by
  have h := runs_x e 0 hok [] (Cont.nil 0) (fun _ => rootSafe_nil)
  simp only [ntOfLevel, levelNt, List.append_nil] at h
  apply Runs.nt_of Gen.XPath.env_parse
  show Runs Gen.XPath.env (.nt Gen.XPath.N.expr) _ _
  apply Runs.nt_of Gen.XPath.env_expr
  rw [expr_prod]
  exact h

open XmlRs.XLex in
private theorem abs_of_tree (e : CX) (hok : e.ok = true) :
    absNode ((CST.node Gen.XPath.N.parse (.node Gen.XPath.N.expr (cstX e))).size + 2) Gen.XPath.N.parse (.node Gen.XPath.N.expr (cstX e)) = e.erase := by
  have h := abs_x e 0 hok (cstX e).size (Nat.le_refl _)
  have e1 : (CST.node Gen.XPath.N.parse (.node Gen.XPath.N.expr (cstX e))).size + 2 = (cstX e).size + 2 + 2 := by simp [CST.size]
  rw [e1, absNode_parse, cstX_eq e, absNode_expr, ← cstX_eq e, h]

open XmlRs.XLex in
private theorem depth_of_tree (e : CX) : exprDepth (CST.node Gen.XPath.N.parse (.node Gen.XPath.N.expr (cstX e))) = e.nest + 1 := by
  rw [depth_node_other (by decide), depth_node_expr, depth_x]

/-- EVERY SPELLING IS PARSED TO THE EXPRESSION IT DENOTES.  `e` ranges over concrete expressions: an abstract expression
    together with every surface choice (white space around operators, parentheses, brackets, commas and `::`; quote
    characters; `@`/`attribute::`, omitted/`child::`, `.`/`..`/`//` or their expansions; which grammar layers are passed
    through); `e.ok` says the choices are lexically admissible (e.g. white space between a name and `div`), `e.nest` is
    the nesting of parentheses, predicates and arguments, limited by `MAX_EXPR_DEPTH` (0 = no limit).  For every fuel
    from some point on, the parser generated from the source returns exactly `e.erase`. -/
theorem spelling_parses (e : CX) (hok : e.ok = true) (hdepth : Gen.XPath.maxDepth_expr = 0 ∨ e.nest + 1 ≤ Gen.XPath.maxDepth_expr) :
    ∃ f0, ∀ f, f0 ≤ f → parseExprFuel f e.str = .ok e.erase := by
  obtain ⟨f0, h⟩ := spelling_runs e hok
  refine ⟨f0, fun f hf => ?_⟩
  have hd : (Gen.XPath.maxDepth_expr != 0 && decide (exprDepth (CST.node Gen.XPath.N.parse (.node Gen.XPath.N.expr (XLex.cstX e))) > Gen.XPath.maxDepth_expr)) = false := by
    rw [depth_of_tree]
    rcases hdepth with h0 | h1
    · simp [h0]
    · have : ¬ (e.nest + 1 > Gen.XPath.maxDepth_expr) := by omega
      simp [this]
  simp only [parseExprFuel, h f hf, hd, Bool.false_eq_true, if_false, List.isEmpty_nil, if_true, abs_of_tree e hok]

/-- the same at the fuel the model's `parseExpr` runs with: the answer is the expression, unless the fuel formula of
    the model were too small (an artefact of the model, never observed by the tie) -/
theorem spelling_parses_at_model_fuel (e : CX) (hok : e.ok = true) (hdepth : Gen.XPath.maxDepth_expr = 0 ∨ e.nest + 1 ≤ Gen.XPath.maxDepth_expr) :
    parseExpr e.str = .ok e.erase ∨ parseExpr e.str = .error .fuel := by
  have hrun := spelling_runs e hok
  have hd : (Gen.XPath.maxDepth_expr != 0 && decide (exprDepth (CST.node Gen.XPath.N.parse (.node Gen.XPath.N.expr (XLex.cstX e))) > Gen.XPath.maxDepth_expr)) = false := by
    rw [depth_of_tree]
    rcases hdepth with h0 | h1
    · simp [h0]
    · have : ¬ (e.nest + 1 > Gen.XPath.maxDepth_expr) := by omega
      simp [this]
  rcases hrun.at_fuel (xpathFuel e.str) with h | h
  · left
    simp only [parseExpr, parseExprFuel, h, hd, Bool.false_eq_true, if_false, List.isEmpty_nil, if_true, abs_of_tree e hok]
  · right
    simp only [parseExpr, parseExprFuel, h]

/-- two spellings of one abstract expression are parsed alike -/
theorem equivalent_spellings_parse_alike (e1 e2 : CX) (h1 : e1.ok = true) (h2 : e2.ok = true) (he : e1.erase = e2.erase)
    (hd1 : Gen.XPath.maxDepth_expr = 0 ∨ e1.nest + 1 ≤ Gen.XPath.maxDepth_expr) (hd2 : Gen.XPath.maxDepth_expr = 0 ∨ e2.nest + 1 ≤ Gen.XPath.maxDepth_expr) :
    ∃ f0, ∀ f, f0 ≤ f → parseExprFuel f e1.str = parseExprFuel f e2.str := by
  obtain ⟨f1, hf1⟩ := spelling_parses e1 h1 hd1
  obtain ⟨f2, hf2⟩ := spelling_parses e2 h2 hd2
  exact ⟨max f1 f2, fun f hf => by rw [hf1 f (by omega), hf2 f (by omega), he]⟩

/-- EQUIVALENT SPELLINGS EVALUATE IDENTICALLY: over any document and context, the two queries give the same value or
    the same error (unless the model's fuel formula gave out on one of them) -/
theorem equivalent_spellings_evaluate_identically (env : XPath.Env) (e1 e2 : CX) (h1 : e1.ok = true) (h2 : e2.ok = true) (he : e1.erase = e2.erase)
    (hd1 : Gen.XPath.maxDepth_expr = 0 ∨ e1.nest + 1 ≤ Gen.XPath.maxDepth_expr) (hd2 : Gen.XPath.maxDepth_expr = 0 ∨ e2.nest + 1 ≤ Gen.XPath.maxDepth_expr) :
    query env e1.str = query env e2.str ∨ query env e1.str = .error .fuel ∨ query env e2.str = .error .fuel := by
  rcases spelling_parses_at_model_fuel e1 h1 hd1 with p1 | p1
  · rcases spelling_parses_at_model_fuel e2 h2 hd2 with p2 | p2
    · left; simp only [query, p1, p2, he]
    · right; right; simp only [query, p2]
  · right; left; simp only [query, p1]

/-- the abbreviations denote their expansions: `.` is `self::node()`, `..` is `parent::node()`, `@n` is `attribute::n`,
    an omitted axis is `child::`, and `a//b` is `a/descendant-or-self::node()/b` -/
theorem abbreviations_denote_their_expansions (w1 w2 w3 w4 : Str) (t : CTest) (p : CPreds) (s : CStep) (r : CRelTail) :
    CStep.dot.erase = (CStep.full (.named .self w1) w2 (.typeTest .node w3 w4) .nil).erase ∧
    CStep.dotdot.erase = (CStep.full (.named .parent w1) w2 (.typeTest .node w3 w4) .nil).erase ∧
    (CStep.full .attr w2 t p).erase = (CStep.full (.named .attribute w1) w2 t p).erase ∧
    (CStep.full .omitted [] t p).erase = (CStep.full (.named .child w1) w2 t p).erase ∧
    (CRelTail.cons w1 true w2 s r).erase =
      (CRelTail.cons w1 false w2 (.full (.named .descendantOrSelf w3) w4 (.typeTest .node w3 w4) .nil) (.cons w1 false w2 s r)).erase := by
  simp [CStep.erase, CAxis.erase, CTest.erase, CPreds.erase, CRelTail.erase, dosStep]

/-! ### the hypotheses are satisfiable: two spellings of one expression, abbreviated and spelled out -/
/-- pass a path expression up through the operator layers -/
def up8 (p : CX) : CX :=
  .chain 0 (.chain 1 (.chain 2 (.chain 3 (.chain 4 (.chain 5 (.unary [] (.union p .nil)) .nil) .nil) .nil) .nil) .nil) .nil
def exOne : CX := up8 (.pathF (.filter (.num ['1']) .nil))
def exNameA : CTest := .name ⟨none, ['a']⟩
def exNameB : CTest := .name ⟨none, ['b']⟩
/-- `a//b[1]` -/
def exAbbrev : CX := up8 (.pathRel (.mk (.full .omitted [] exNameA .nil) (.cons [] true [] (.full .omitted [] exNameB (.cons [] [] exOne [] .nil)) .nil)))
/-- `child::a/descendant-or-self::node()/child :: b [ 1 ]` -/
def exFull : CX := up8 (.pathRel (.mk (.full (.named .child []) [] exNameA .nil)
  (.cons [] false [] (.full (.named .descendantOrSelf []) [] (.typeTest .node [] []) .nil)
    (.cons [] false [] (.full (.named .child [' ']) [' '] exNameB (.cons [' '] [' '] exOne [' '] .nil)) .nil))))

example : exAbbrev.str = ['a', '/', '/', 'b', '[', '1', ']'] := by decide
example : exFull.str = "child::a/descendant-or-self::node()/child :: b [ 1 ]".toList := by decide
example : exAbbrev.ok = true ∧ exFull.ok = true ∧ exAbbrev.str ≠ exFull.str ∧
    exAbbrev.nest + 1 ≤ Gen.XPath.maxDepth_expr ∧ exFull.nest + 1 ≤ Gen.XPath.maxDepth_expr := by decide
example : exAbbrev.erase = exFull.erase := by rfl

/-- operators: `1 - -1 div 1 or $v` with and without the optional white space -/
def exVar : CX := .unary [] (.union (.pathF (.filter (.var ⟨none, ['v']⟩) .nil)) .nil)
def exNum5 : CX := .chain 5 (.unary [] (.union (.pathF (.filter (.num ['1']) .nil)) .nil)) .nil
def exNeg : CX := .unary [[]] (.union (.pathF (.filter (.num ['1']) .nil)) .nil)
def exOps (w : Str) : CX :=
  .chain 0 (.chain 1 (.chain 2 (.chain 3 (.chain 4 exNum5 (.cons [' '] .sub w (.chain 5 exNeg (.cons [' '] .div w (.unary [] (.union (.pathF (.filter (.num ['1']) .nil)) .nil)) .nil)) .nil)) .nil) .nil) .nil)
    (.cons [' '] .or w (.chain 1 (.chain 2 (.chain 3 (.chain 4 (.chain 5 exVar .nil) .nil) .nil) .nil) .nil) .nil)
example : (exOps []).str = "1 --1 div1 or$v".toList ∧ (exOps [' ']).str = "1 - -1 div 1 or $v".toList := by decide
example : (exOps []).ok = true ∧ (exOps [' ']).ok = true := by decide
example : (exOps []).erase = (exOps [' ']).erase := by rfl

end XmlRs.C08
