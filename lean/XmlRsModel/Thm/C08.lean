import XmlRsModel.XPath.Eval
import XmlRsModel.Lemmas.PegSound
/-! Property C08: equivalent XPath spellings evaluate identically; precedence per grammar.
    The abbreviations are removed by the abstraction `CST → Expr` (`XPath/Ast.lean`), which maps the
    abbreviated and the unabbreviated spelling to the SAME abstract syntax; here the semantic side
    is proved on abstract syntax (what `.`, `..`, `//`, `[n]` mean), and the grammar side: an
    accepted expression is a derivation of the layered expression grammar generated from the source
    (or < and < equality < relational < additive < multiplicative < unary < union), consuming the
    whole string.
    FULL STATEMENT not yet proved (completeness direction, covered by the tie on every spelling of
    every generated expression):  `∀ e st₁ st₂, eval (parse (spell st₁ e)) = eval (parse (spell st₂ e))`. -/
namespace XmlRs.C08
open XmlRs XmlRs.XPath

/-- `.` selects the context node and nothing else -/
theorem dot_is_self_node (env : XPath.Env) (k : Key) : evalStep env (.mk .self .node []) k = .ok [k] := by
  simp [evalStep, axisKeys, evalStep.tests, nodeTest, filterPreds]

/-- `..` selects the parent (for an attribute or namespace node: the owner element; for the root: nothing) -/
theorem dotdot_is_parent_node (env : XPath.Env) (k : Key) :
    evalStep env (.mk .parent .node []) k = .ok (match parentKey k with | some p => [p] | none => []) := by
  simp only [evalStep, axisKeys, filterPreds]
  cases parentKey k <;> simp [evalStep.tests, nodeTest]

/-- `//` is `/descendant-or-self::node()/`: the abstraction inserts exactly that step -/
theorem dslash_step : dosStep = .mk .descendantOrSelf .node [] := rfl

private theorem ord_eq_swap (i j : Int) :
    ((if i < j then Ordering.lt else if i == j then Ordering.eq else Ordering.gt) == Ordering.eq) =
    ((if j < i then Ordering.lt else if j == i then Ordering.eq else Ordering.gt) == Ordering.eq) := by
  by_cases h1 : i < j
  · have h2 : ¬ j < i := by omega
    have h3 : ¬ j = i := by omega
    simp [h1, h2, h3]
  · by_cases h2 : j < i
    · have h3 : ¬ i = j := by omega
      simp [h1, h2, h3]
    · have h3 : i = j := by omega
      subst h3; simp

private theorem align_swap (m1 : Nat) (e1 : Int) (m2 : Nat) (e2 : Int) :
    (align m1 e1 m2 e2).1 = (align m2 e2 m1 e1).2.1 ∧ (align m1 e1 m2 e2).2.1 = (align m2 e2 m1 e1).1 := by
  simp only [align]
  by_cases h1 : e1 ≤ e2 <;> by_cases h2 : e2 ≤ e1 <;> simp [h1, h2]
  · have : e1 = e2 := by omega
    subst this; simp
  · omega

private theorem cmpB_swap (a b : Bits) : (cmpB a b == some .eq) = (cmpB b a == some .eq) := by
  unfold cmpB
  cases decode a with
  | nan => cases decode b <;> simp
  | inf s =>
    cases decode b with
    | nan => simp
    | inf t => cases s <;> cases t <;> simp
    | fin t m e => cases s <;> simp
  | fin s m1 e1 =>
    cases decode b with
    | nan => simp
    | inf t => cases t <;> simp
    | fin t m2 e2 =>
      obtain ⟨ha, hb⟩ := align_swap m1 e1 m2 e2
      simp only [ha, hb]
      generalize (align m2 e2 m1 e1).1 = p
      generalize (align m2 e2 m1 e1).2.1 = q
      have := ord_eq_swap (if s then -(q : Int) else q) (if t then -(p : Int) else p)
      simpa using this

theorem eqB_comm (a b : Bits) : eqB a b = eqB b a := by unfold eqB; exact cmpB_swap a b

/-- `[n]` is `[position() = n]` for EVERY number n (also fractions, NaN, negative numbers): both
    predicates keep exactly the same nodes -/
theorem numeric_predicate (env : XPath.Env) (s : Str) : ∀ (ks : List Key) (i n : Nat),
    filterOne env (.num s) ks i n =
      filterOne env (.bin .eq (.call ⟨none, "position".toList⟩ []) (.num s)) ks i n
  | [], _, _ => by simp [filterOne]
  | k :: r, i, n => by
      have ih := numeric_predicate env s r (i + 1) n
      have hpos : eval env (.call ⟨none, "position".toList⟩ []) ⟨k, i, n⟩ = .ok (.num (ofNat i)) := by
        simp [eval, funcTable, evalArgs, applyFunc]
      have hc : XPath.compare env.doc .eq (.num (ofNat i)) (.num (parseNum s)) = eqB (parseNum s) (ofNat i) := by
        simp [XPath.compare, cmpScalar, toNum, eqB_comm]
      simp only [filterOne, eval, hpos, ih, cmpOf, hc, XPath.toBool]
      cases filterOne env (.bin .eq (.call ⟨none, "position".toList⟩ []) (.num s)) r (i + 1) n <;> rfl

/-- an omitted axis is `child::`, `@` is `attribute::` -/
theorem abbreviated_axes (nm : Str) : axisOfName "child" = .child ∧ axisOfName "attribute" = .attribute ∧
    axisOfName "descendant-or-self" = .descendantOrSelf ∧ axisOfName "self" = .self ∧ axisOfName "parent" = .parent := by
  decide

/-- an accepted expression is a derivation of the generated (layered) grammar that spells exactly the
    whole input: operators bind as the productions nest -/
theorem parse_sound (s : Str) (e : Expr) (h : parseExpr s = .ok e) :
    ∃ c, Derives Gen.XPath.env (.nt Gen.XPath.N.parse) c ∧ c.flatten = s := by
  unfold parseExpr at h
  split at h
  · cases h
  · cases h
  · next c rest hr =>
    split at h
    · cases h
    · split at h
      · next hrest =>
        obtain ⟨hd, hf⟩ := (run_sound Gen.XPath.env _).1 _ _ _ _ hr
        have : rest = [] := by cases rest <;> simp_all
        subst this
        exact ⟨c, hd, by simpa using hf⟩
      · cases h

/-- no accepted expression nests parentheses, predicates and function arguments deeper than the
    limit read from the source: every recursion over an accepted expression is bounded -/
theorem depth_refused (s : Str) (e : Expr) (h : parseExpr s = .ok e) (hlim : Gen.XPath.maxDepth_expr ≠ 0) :
    ∃ c rest, run Gen.XPath.env (xpathFuel s) (.nt Gen.XPath.N.parse) s = .ok c rest ∧
      exprDepth c ≤ Gen.XPath.maxDepth_expr := by
  unfold parseExpr at h
  split at h
  · cases h
  · cases h
  · next c rest hr =>
    refine ⟨c, rest, hr, ?_⟩
    split at h
    · cases h
    · next hd =>
      apply Nat.le_of_not_lt
      intro hgt
      apply hd
      simp [hlim, hgt]

end XmlRs.C08
