import XmlRsModel.CharData
import XmlRsModel.Lemmas.DomStep
/-! Property C16: character-data operations work on character offsets with DOM Level 1 semantics.
    The executable model (`CharData.step`) is characterised here by the sentences of DOM Level 1
    (`substringData`, `insertData`, `deleteData`, `replaceData`, `splitText`): which characters
    come out, what is preserved, when INDEX_SIZE_ERR is raised, and that counts are clipped. -/
namespace XmlRs.C16
open XmlRs CharData

/-- substringData: INDEX_SIZE_ERR exactly when the offset is greater than the length -/
theorem substring_error_iff (s : Str) (o c : Nat) : substringData s o c = none ↔ s.length < o := by
  unfold substringData; split <;> simp_all

/-- substringData: the i-th character of the result is the (offset+i)-th of the data, and the
    result has min(count, length - offset) characters ("all characters to the end" when the sum
    exceeds the length) -/
theorem substring_spec (s t : Str) (o c : Nat) (h : substringData s o c = some t) :
    t.length = min c (s.length - o) ∧ ∀ i, i < t.length → t[i]? = s[o + i]? := by
  unfold substringData at h
  split at h
  · cases h
  · next hlt =>
    simp only [Option.some.injEq] at h; subst h
    obtain ⟨p, q, rfl, rfl⟩ : ∃ p q, s = p ++ q ∧ p.length = o :=
      ⟨s.take o, s.drop o, (List.take_append_drop o s).symm, by simp [List.length_take]; omega⟩
    simp only [List.drop_left', List.length_take, List.length_append, Nat.add_sub_cancel_left]
    refine ⟨trivial, fun i hi => ?_⟩
    rw [List.getElem?_take, if_pos (by omega), List.getElem?_append_right (by omega)]
    simp

/-- a count reaching past the end behaves like the count that reaches exactly the end
    (so `usize::MAX` is not special) -/
theorem substring_clip (s : Str) (o c : Nat) (h : s.length - o ≤ c) :
    substringData s o c = substringData s o (s.length - o) := by
  unfold substringData; split
  · rfl
  · rw [List.take_of_length_le (by simp [List.length_drop]; omega),
      List.take_of_length_le (by simp [List.length_drop])]

theorem insert_error_iff (s a : Str) (o : Nat) : insertData s o a = none ↔ s.length < o := by
  unfold insertData; split <;> simp_all

/-- insertData: prefix and suffix are preserved, the argument sits at the offset -/
theorem insert_spec (s a t : Str) (o : Nat) (h : insertData s o a = some t) :
    t.take o = s.take o ∧ (t.drop o).take a.length = a ∧ t.drop (o + a.length) = s.drop o ∧
    t.length = s.length + a.length := by
  unfold insertData at h
  split at h
  · cases h
  · next hlt =>
    simp only [Option.some.injEq] at h; subst h
    obtain ⟨p, q, rfl, rfl⟩ : ∃ p q, s = p ++ q ∧ p.length = o :=
      ⟨s.take o, s.drop o, (List.take_append_drop o s).symm, by simp [List.length_take]; omega⟩
    simp only [List.take_left', List.drop_left', List.append_assoc]
    refine ⟨by simp, by simp, ?_, by simp; omega⟩
    rw [← List.append_assoc, ← List.length_append, List.drop_left' rfl]

theorem delete_error_iff (s : Str) (o c : Nat) : deleteData s o c = none ↔ s.length < o := by
  unfold deleteData; split <;> simp_all

/-- deleteData: everything before the offset and everything from offset+count on is kept,
    nothing else; the count is clipped at the end of the data -/
theorem delete_spec (s t : Str) (o c : Nat) (h : deleteData s o c = some t) :
    t.take o = s.take o ∧ t.drop o = s.drop (o + c) ∧ t.length = s.length - min c (s.length - o) := by
  unfold deleteData at h
  split at h
  · cases h
  · next hlt =>
    simp only [Option.some.injEq] at h; subst h
    obtain ⟨p, q, rfl, rfl⟩ : ∃ p q, s = p ++ q ∧ p.length = o :=
      ⟨s.take o, s.drop o, (List.take_append_drop o s).symm, by simp [List.length_take]; omega⟩
    simp only [List.take_left', List.drop_left', List.drop_append]
    refine ⟨by simp, by simp, by simp; omega⟩

theorem delete_clip (s : Str) (o c : Nat) (h : s.length - o ≤ c) :
    deleteData s o c = deleteData s o (s.length - o) := by
  unfold deleteData; split
  · rfl
  · rw [List.drop_of_length_le (by omega), List.drop_of_length_le (by omega)]

/-- replaceData is deleteData followed by insertData at the same offset -/
theorem replace_eq_delete_insert (s a : Str) (o c : Nat) :
    replaceData s o c a = (deleteData s o c).bind (fun t => insertData t o a) := by
  unfold replaceData deleteData insertData
  split
  · simp
  · next hlt =>
    obtain ⟨p, q, rfl, rfl⟩ : ∃ p q, s = p ++ q ∧ p.length = o :=
      ⟨s.take o, s.drop o, (List.take_append_drop o s).symm, by simp [List.length_take]; omega⟩
    simp

theorem append_spec (s a : Str) : insertData s s.length a = some (appendData s a) := by
  simp [insertData, appendData]

/-- splitText: the two parts concatenate to the original and the first has `offset` characters -/
theorem split_concat (s l r : Str) (o : Nat) (h : splitText s o = some (l, r)) :
    l ++ r = s ∧ l.length = o := by
  unfold splitText at h
  split at h
  · cases h
  · simp only [Option.some.injEq, Prod.mk.injEq] at h
    obtain ⟨rfl, rfl⟩ := h
    exact ⟨List.take_append_drop o s, by simp [List.length_take]; omega⟩

/-- an offset beyond the length is an index-size error for every operation, and the data is unchanged -/
theorem offset_beyond_length_is_index_size (s a : Str) (o c : Nat) (h : s.length < o) :
    step s (.sub o c) = (s, .indexSize) ∧ step s (.ins o a) = (s, .indexSize) ∧
    step s (.del o c) = (s, .indexSize) ∧ step s (.rep o c a) = (s, .indexSize) ∧
    step s (.split o) = (s, .indexSize) := by
  simp [step, substringData, insertData, deleteData, replaceData, splitText, h]

/-- with an offset inside the data no operation fails (totality: every argument combination has a
    defined result; there is no third outcome) -/
theorem in_range_never_fails (s a : Str) (o c : Nat) (h : o ≤ s.length) :
    (step s (.sub o c)).2 ≠ .indexSize ∧ (step s (.ins o a)).2 ≠ .indexSize ∧
    (step s (.del o c)).2 ≠ .indexSize ∧ (step s (.rep o c a)).2 ≠ .indexSize ∧
    (step s (.split o)).2 ≠ .indexSize := by
  have : ¬ s.length < o := by omega
  simp [step, substringData, insertData, deleteData, replaceData, splitText, this]

-- non-vacuity: a clipped deleteData and a splitText on a string with an astral character
example : deleteData ['a', 'b', '𝒳', 'd', 'e'] 3 10 = some ['a', 'b', '𝒳'] ∧
    splitText ['a', '𝒳', 'c'] 2 = some (['a', '𝒳'], ['c']) ∧ substringData ['a', 'b'] 3 0 = none := by decide


-- inverse laws, frame of failing and reading calls, length bookkeeping (added 2026-09-23)
/-- what was inserted is what `substringData` reads back at the same offset -/
theorem insert_then_substring (s a t : Str) (o : Nat) (h : insertData s o a = some t) :
    substringData t o a.length = some a := by
  unfold insertData at h
  split at h
  · cases h
  · next hlt =>
    simp only [Option.some.injEq] at h; subst h
    obtain ⟨p, q, rfl, rfl⟩ : ∃ p q, s = p ++ q ∧ p.length = o :=
      ⟨s.take o, s.drop o, (List.take_append_drop o s).symm, by simp [List.length_take]; omega⟩
    simp [substringData]

/-- `deleteData` of the inserted stretch undoes `insertData` (for every offset, argument and data) -/
theorem insert_then_delete (s a t : Str) (o : Nat) (h : insertData s o a = some t) :
    deleteData t o a.length = some s := by
  unfold insertData at h
  split at h
  · cases h
  · next hlt =>
    simp only [Option.some.injEq] at h; subst h
    obtain ⟨p, q, rfl, rfl⟩ : ∃ p q, s = p ++ q ∧ p.length = o :=
      ⟨s.take o, s.drop o, (List.take_append_drop o s).symm, by simp [List.length_take]; omega⟩
    have e1 : (p ++ a ++ q).take p.length = p := by rw [List.append_assoc]; exact List.take_left' rfl
    have e2 : (p ++ a ++ q).drop (p.length + a.length) = q := by
      rw [← List.length_append]; exact List.drop_left' rfl
    have e3 : ¬ (p ++ a ++ q).length < p.length := by simp
    simp only [List.take_left', List.drop_left', deleteData, if_neg e3, e1, e2]

/-- re-inserting what `substringData` read before a `deleteData` with the same arguments restores the
    data - also when the count was clipped -/
theorem delete_then_insert (s m t : Str) (o c : Nat) (hm : substringData s o c = some m)
    (h : deleteData s o c = some t) : insertData t o m = some s := by
  unfold deleteData at h; unfold substringData at hm
  split at h
  · cases h
  · next hlt =>
    rw [if_neg hlt] at hm
    simp only [Option.some.injEq] at h hm; subst h; subst hm
    obtain ⟨p, q, rfl, rfl⟩ : ∃ p q, s = p ++ q ∧ p.length = o :=
      ⟨s.take o, s.drop o, (List.take_append_drop o s).symm, by simp [List.length_take]; omega⟩
    simp [insertData, List.drop_append]
    rw [List.drop_of_length_le (by omega)]; simp

/-- a failing operation leaves the data as it was, whatever the operation -/
theorem failed_step_keeps_data (s : Str) (op : Op) (h : (step s op).2 = .indexSize) :
    (step s op).1 = s := by
  cases op <;> simp only [step] at h ⊢ <;> (try cases h) <;> split <;> simp_all

/-- the two reading operations never change the data -/
theorem reads_keep_data (s : Str) (o c : Nat) : (step s .len).1 = s ∧ (step s (.sub o c)).1 = s := by
  simp [step]

/-- reading everything gives the data -/
theorem substring_whole (s : Str) : substringData s 0 s.length = some s := by
  simp [substringData]

/-- length bookkeeping over a whole history: the data after any sequence of operations is determined
    by folding `step`, and its length after a successful insert/append grows by exactly the argument's
    length (no unit other than the character is involved) -/
theorem step_length (s : Str) (op : Op) :
    ((step s op).1).length =
      match op with
      | .len | .sub _ _ => s.length
      | .app a => s.length + a.length
      | .set a => a.length
      | .ins o a => if s.length < o then s.length else s.length + a.length
      | .del o c => if s.length < o then s.length else s.length - min c (s.length - o)
      | .rep o c a => if s.length < o then s.length else s.length - min c (s.length - o) + a.length
      | .split o => if s.length < o then s.length else o := by
  cases op with
  | len => rfl
  | sub o c => rfl
  | app a => simp [step, appendData]
  | set a => rfl
  | ins o a => by_cases hl : s.length < o <;> simp [step, insertData, hl]; omega
  | del o c => by_cases hl : s.length < o <;> simp [step, deleteData, hl]; omega
  | rep o c a => by_cases hl : s.length < o <;> simp [step, replaceData, hl]; omega
  | split o => by_cases hl : s.length < o <;> simp [step, splitText, hl]; omega

example : insertData ['a', '𝒳'] 1 ['é'] = some ['a', 'é', '𝒳'] ∧
    deleteData ['a', 'é', '𝒳'] 1 1 = some ['a', '𝒳'] := by decide
-- whole histories (added 2026-09-23)
/-- the data after a sequence of calls -/
def runOps (s : Str) (ops : List Op) : Str := ops.foldl (fun s op => (step s op).1) s

/-- the calls of a history that did not raise INDEX_SIZE_ERR (judged in the state each one ran in) -/
def okOps : Str → List Op → List Op
  | _, [] => []
  | s, op :: r => if (step s op).2 = .indexSize then okOps s r else op :: okOps (step s op).1 r

/-- over any history, on any data: the calls that failed might as well not have been made - the final data is that
    of the successful calls alone (no partial effect of a refused call survives, however the calls are interleaved) -/
theorem failed_calls_leave_no_trace (ops : List Op) (s : Str) : runOps s ops = runOps s (okOps s ops) := by
  induction ops generalizing s with
  | nil => rfl
  | cons op r ih =>
    unfold okOps
    by_cases h : (step s op).2 = .indexSize
    · rw [if_pos h]
      have := failed_step_keeps_data s op h
      simp only [runOps, List.foldl_cons] at ih ⊢
      rw [this]; exact ih s
    · rw [if_neg h]
      simp only [runOps, List.foldl_cons] at ih ⊢
      exact ih _

/-- reads can be dropped from a history as well -/
theorem reads_leave_no_trace (ops : List Op) (s : Str) :
    runOps s ops = runOps s (ops.filter fun | .len | .sub _ _ => false | _ => true) := by
  induction ops generalizing s with
  | nil => rfl
  | cons op r ih =>
    cases op <;> exact ih _

example : runOps ['a', 'b'] [.ins 5 ['x'], .del 1 9, .sub 7 1, .app ['𝒳']] = ['a', '𝒳'] ∧
    (okOps ['a', 'b'] [.ins 5 ['x'], .del 1 9, .sub 7 1, .app ['𝒳']]).length = 2 := by decide

-- splitText in the tree: where the second half goes (added 2026-09-23)
section SplitPlace
open XmlRs.Dom
theorem insertBeforeL_at (x nx : Node) (a r : List Node) (h : ∀ m ∈ a, m.id ≠ nx.id) :
    insertBeforeL x (some nx.id) (a ++ nx :: r) = a ++ x :: nx :: r := by
  induction a with
  | nil => simp [insertBeforeL]
  | cons m a ih =>
    have hm : (m.id == nx.id) = false := by simpa using h m (by simp)
    simp only [List.cons_append, insertBeforeL, hm]
    rw [ih (fun m' hm' => h m' (by simp [hm']))]; rfl

theorem dropWhile_ne_at (n : Nat) (nd : Node) (pre post : List Node) (hid : nd.id = n)
    (h : ∀ m ∈ pre, m.id ≠ n) :
    (pre ++ nd :: post).dropWhile (·.id != n) = nd :: post := by
  induction pre with
  | nil => simp [hid]
  | cons m a ih =>
    have hm : (m.id != n) = true := by simpa using h m (by simp)
    simp only [List.cons_append, List.dropWhile, hm]
    exact ih (fun m' hm' => h m' (by simp [hm']))

/-- splitText leaves TWO ADJACENT SIBLINGS: whenever the children of the parent carry pairwise distinct
    identities (C12's invariant), the new node is placed immediately after the split node - not at the end of
    the list, not before it - and every other child keeps its place -/
theorem split_places_new_node_next (n : Nat) (new nd : Node) (pre post : List Node) (hid : nd.id = n)
    (hn : ((pre ++ nd :: post).map (·.id)).Nodup) :
    splitPlace n new (pre ++ nd :: post) = pre ++ nd :: new :: post := by
  have hn' := hn
  simp only [List.map_append, List.map_cons, List.nodup_append, List.nodup_cons, List.mem_map,
    List.mem_cons] at hn'
  obtain ⟨_, ⟨hnd, hpost⟩, hdis⟩ := hn'
  have hpre : ∀ m ∈ pre, m.id ≠ n := fun m hm e => by
    have := hdis (m.id) ⟨m, hm, rfl⟩ nd.id (Or.inl rfl)
    exact this (by rw [e, hid])
  unfold splitPlace
  rw [dropWhile_ne_at n nd pre post hid hpre]
  cases post with
  | nil => simp
  | cons nx rest =>
    simp only [List.drop_one, List.tail_cons]
    have : pre ++ nd :: nx :: rest = (pre ++ [nd]) ++ nx :: rest := by simp
    rw [this, insertBeforeL_at]
    · simp
    · intro m hm e
      rcases List.mem_append.mp hm with hm | hm
      · exact hdis m.id ⟨m, hm, rfl⟩ nx.id (Or.inr ⟨nx, List.mem_cons_self, rfl⟩) e
      · simp only [List.mem_singleton] at hm; subst hm
        exact hnd ⟨nx, List.mem_cons_self, e.symm⟩

example : splitPlace 2 (.mk 9 .text ['b'] [] []) [.mk 1 .text [] [] [], .mk 2 .text ['a'] [] [], .mk 3 .comment [] [] []]
    = [.mk 1 .text [] [] [], .mk 2 .text ['a'] [] [], .mk 9 .text ['b'] [] [], .mk 3 .comment [] [] []] := by rfl
/-- splitText in the DOM model, success: the receiver is a Text or CDATA node, the offset is within its data,
    the answer is a fresh node (the next identity), and the two halves concatenate to the data with `off` characters
    in the first -/
theorem splitText_ok_shape (s s' : St) (n off k : Nat) (h : Dom.step s (.splitText n off) = (s', .node k)) :
    ∃ nn l r, s.find n = some nn ∧ (nn.kind = .text ∨ nn.kind = .cdata) ∧
      CharData.splitText nn.data off = some (l, r) ∧ l ++ r = nn.data ∧ l.length = off ∧
      k = s.next ∧ s'.next = s.next + 1 ∧ s'.handles = s.handles ++ [some s.next] := by
  simp only [Dom.step] at h
  cases hf : s.find n with
  | none => simp only [hf] at h; cases h
  | some nn =>
    simp only [hf] at h
    cases hk : nn.kind <;> simp only [hk] at h <;>
      first
      | (exfalso; simp at h; done)
      | (cases hsp : CharData.splitText nn.data off with
         | none => simp only [hsp] at h; exfalso; simp at h
         | some lr =>
           obtain ⟨l, r⟩ := lr
           simp only [hsp, Prod.mk.injEq, Res.node.injEq] at h
           obtain ⟨rfl, rfl⟩ := h
           exact ⟨nn, l, r, rfl, by simp [hk], hsp, (split_concat _ _ _ _ hsp).1, (split_concat _ _ _ _ hsp).2, rfl, rfl, rfl⟩)

/-- splitText in the DOM model, offset beyond the data: INDEX_SIZE_ERR and no tree changes -/
theorem splitText_index_size (s : St) (n off : Nat) (nn : Node) (hf : s.find n = some nn)
    (hk : nn.kind = .text ∨ nn.kind = .cdata) (ho : nn.data.length < off) :
    (Dom.step s (.splitText n off)).2 = .err .indexSize ∧
    (Dom.step s (.splitText n off)).1.doc = s.doc ∧ (Dom.step s (.splitText n off)).1.detached = s.detached := by
  have hsp : CharData.splitText nn.data off = none := by simp [CharData.splitText, ho]
  simp only [Dom.step, hf]
  rcases hk with hk | hk <;> simp [hk, hsp]
/-- splitText on a node that is neither Text nor CDATA (a comment, a PI, an element, ...) is refused and changes no tree -/
theorem splitText_wrong_kind (s : St) (n off : Nat) (nn : Node) (hf : s.find n = some nn)
    (h1 : nn.kind ≠ .text) (h2 : nn.kind ≠ .cdata) :
    (Dom.step s (.splitText n off)).2 = .err .hierarchy ∧
    (Dom.step s (.splitText n off)).1.doc = s.doc ∧ (Dom.step s (.splitText n off)).1.detached = s.detached := by
  simp only [Dom.step, hf]
  cases hk : nn.kind <;> simp_all
end SplitPlace

end XmlRs.C16
