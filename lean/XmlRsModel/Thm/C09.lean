import XmlRsModel.XPath.Eval
/-! Property C09: core functions and operators compute the XPath 1.0 scalar semantics.
    The string functions are characterised for ALL arguments by the sentences of section 4.2; the
    numeric functions are total functions on bit patterns defined by exact natural-number arithmetic
    (module `XPath.Num`): their special-value and tie behaviour is stated here for the whole classes
    "every NaN / infinity / zero" and, where a statement ranges over all doubles, proved through the
    exact decoding.  Statements that are only evaluated instances are marked `example` (tests, not
    theorems). -/
namespace XmlRs.C09
open XmlRs XmlRs.XPath
set_option maxRecDepth 100000

/-! ### 4.2 string functions -/

/-- string-length counts characters (the model's strings are lists of Unicode scalar values) -/
theorem string_length_chars (env : XPath.Env) (c : Ctx) (s : Str) :
    applyFunc env c "string-length" [.str s] = .ok (.num (ofNat s.length)) := rfl

/-- substring, declaratively: the characters whose 1-based position i satisfies
    round(p) <= i and (if l is given) i < round(p) + round(l), comparisons and sum in IEEE arithmetic -/
def inWindow (p : Bits) (l : Option Bits) (i : Nat) : Bool :=
  leB (roundB p) (ofNat i) && (match l with | some x => ltB (ofNat i) (addB (roundB p) (roundB x)) | none => true)

theorem substring_go_spec (p : Bits) (l : Option Bits) : ∀ (s : Str) (i : Nat),
    substringS.go (roundB p) (l.map fun x => addB (roundB p) (roundB x)) s i =
      ((s.zipIdx i).filter (fun ci => inWindow p l ci.2)).map (·.1) := by
  intro s
  induction s with
  | nil => intro i; simp [substringS.go]
  | cons c r ih =>
    intro i
    have hstep : substringS.go (roundB p) (l.map fun x => addB (roundB p) (roundB x)) (c :: r) i =
        if inWindow p l i then c :: substringS.go (roundB p) (l.map fun x => addB (roundB p) (roundB x)) r (i + 1)
        else substringS.go (roundB p) (l.map fun x => addB (roundB p) (roundB x)) r (i + 1) := by
      cases l <;> simp [substringS.go, inWindow]
    rw [hstep, ih (i + 1)]
    simp only [List.zipIdx_cons, List.filter_cons]
    split <;> simp

/-- for every string and every pair of numbers (NaN, infinities, negative, fractional, huge) -/
theorem substring_spec (s : Str) (p : Bits) (l : Option Bits) :
    substringS s p l = ((s.zipIdx 1).filter (fun ci => inWindow p l ci.2)).map (·.1) := by
  unfold substringS; exact substring_go_spec p l s 1

/-- the result is always a subsequence of the argument: no panic, no invented or split character -/
theorem substring_sublist (s : Str) (p : Bits) (l : Option Bits) : (substringS s p l).Sublist s := by
  rw [substring_spec]
  have h1 : (((s.zipIdx 1).filter (fun ci => inWindow p l ci.2)).map (·.1)).Sublist ((s.zipIdx 1).map (·.1)) :=
    List.Sublist.map _ List.filter_sublist
  simpa [List.zipIdx_map_fst] using h1

/-- NaN as start or as length selects nothing (no position compares with NaN) -/
theorem inWindow_nan_start (l : Option Bits) (i : Nat) : inWindow nanBits l i = false := by
  simp [inWindow, leB, cmpB, roundB, decode, nanBits, two52, two63]

/-- translate: a character that does not occur in the second argument is kept; one that occurs first at
    index i is replaced by the i-th character of the third argument or removed if there is none -/
theorem translate_spec (frm to : Str) (c : Char) :
    translateS [c] frm to = (match frm.findIdx? (· == c) with
      | none => [c]
      | some i => (match to[i]? with | some d => [d] | none => [])) := by
  simp only [translateS, List.filterMap_cons, List.filterMap_nil]
  cases frm.findIdx? (· == c) with
  | none => simp
  | some i => cases h : to[i]? <;> simp [h]

theorem translate_append (a b frm to : Str) :
    translateS (a ++ b) frm to = translateS a frm to ++ translateS b frm to := by
  simp [translateS, List.filterMap_append]

/-- starts-with / contains / substring-before / substring-after in terms of list decomposition -/
theorem starts_with_iff (s p : Str) : startsWithS s p = true ↔ ∃ r, s = p ++ r := by
  unfold startsWithS
  constructor
  · intro h
    cases hsp : stripPrefix p s with
    | none => simp [hsp] at h
    | some r => exact ⟨r, stripPrefix_some hsp⟩
  · rintro ⟨r, rfl⟩; simp [stripPrefix_append]

theorem findSub_some : ∀ (p s : Str) (i : Nat), findSub p s = some i →
    ∃ r, s = s.take i ++ p ++ r ∧ i ≤ s.length
  | p, [], i, h => by
      simp only [findSub] at h
      split at h
      · next hp => cases h; exact ⟨[], by simp [hp], by simp⟩
      · cases h
  | p, c :: cs, i, h => by
      simp only [findSub] at h
      split at h
      · next r hr =>
        cases h
        exact ⟨r, by simpa using stripPrefix_some hr, by simp⟩
      · next hr =>
        cases hf : findSub p cs with
        | none => simp [hf] at h
        | some j =>
          simp only [hf, Option.map_some, Option.some.injEq] at h
          subst h
          obtain ⟨r, hr', hle⟩ := findSub_some p cs j hf
          refine ⟨r, ?_, by simp; omega⟩
          simp only [List.take_succ_cons, List.cons_append, List.cons.injEq, true_and]
          simpa using hr'

/-- substring-before / substring-after split the first argument around an occurrence of the second -/
theorem before_after_spec (s p : Str) (h : containsS s p = true) :
    s = substringBefore s p ++ p ++ substringAfter s p := by
  unfold containsS at h
  cases hf : findSub p s with
  | none => simp [hf] at h
  | some i =>
    obtain ⟨r, hr, hle⟩ := findSub_some p s i hf
    simp only [substringBefore, substringAfter, hf]
    have : s.drop (i + p.length) = r := by
      conv => lhs; rw [hr]
      have hl : (s.take i ++ p).length = i + p.length := by simp [List.length_take]; omega
      rw [← hl, List.append_assoc, ← List.append_assoc, List.drop_left']
      rfl
    rw [this]; exact hr

theorem not_contains_gives_empty (s p : Str) (h : containsS s p = false) :
    substringBefore s p = [] ∧ substringAfter s p = [] := by
  unfold containsS at h
  cases hf : findSub p s with
  | none => simp [substringBefore, substringAfter, hf]
  | some i => simp [hf] at h

/-! ### 4.4 number functions: special values (whole classes), then evaluated instances -/

theorem round_specials : roundB nanBits = nanBits ∧ roundB (infBits false) = infBits false ∧
    roundB (infBits true) = infBits true ∧ roundB (zeroBits false) = zeroBits false ∧
    roundB (zeroBits true) = zeroBits true := by decide

theorem floor_ceiling_specials : floorB nanBits = nanBits ∧ ceilB nanBits = nanBits ∧
    floorB (infBits true) = infBits true ∧ ceilB (infBits false) = infBits false ∧
    floorB (zeroBits true) = zeroBits true ∧ ceilB (zeroBits true) = zeroBits true := by decide

/-- an argument that is already an integer (no fraction bits below the binary point) is returned
    unchanged by floor, ceiling and round — in particular every double of magnitude >= 2^52 -/
theorem integral_unchanged (b : Bits) (neg : Bool) (m : Nat) (e : Int) (hd : decode b = .fin neg m e)
    (hi : (floorDy m e).2 = false) : floorB b = b ∧ ceilB b = b ∧ roundB b = b := by
  simp [floorB, ceilB, roundB, hd, hi]

theorem nonneg_exponent_integral (m : Nat) (e : Int) (he : 0 ≤ e) : (floorDy m e).2 = false := by
  simp [floorDy, he]

/-- number -> string: the three special forms, for every NaN payload and both zeros -/
theorem fmt_specials (b : Bits) :
    (decode b = .nan → fmtNum b = "NaN".toList) ∧
    (decode b = .inf false → fmtNum b = "Infinity".toList) ∧
    (decode b = .inf true → fmtNum b = "-Infinity".toList) ∧
    (∀ neg e, decode b = .fin neg 0 e → fmtNum b = "0".toList) := by
  refine ⟨?_, ?_, ?_, ?_⟩ <;> intros <;> simp_all [fmtNum]

/-- string -> number: anything that is not  ws* '-'? Number ws*  is NaN; an exponent, a plus sign,
    a second sign, hexadecimal or the words Infinity / NaN are not part of the lexical form -/
theorem parseNum_rejects (s : Str) (h : parseDecimal (splitSign (trimWs s)).2 = none) :
    parseNum s = nanBits := by
  simp [parseNum, h]

/-- ... and what is of that form is the correctly rounded value of the decimal -/
theorem parseNum_accepts (s : Str) (n f : Nat) (h : parseDecimal (splitSign (trimWs s)).2 = some (n, f)) :
    parseNum s = ofRat (splitSign (trimWs s)).1 n (10 ^ f) := by
  simp [parseNum, h]

/-! evaluated instances (tests of the definitions above on the Recommendation's examples) -/
example : substringS "12345".toList (parseNum "1.5".toList) (some (parseNum "2.6".toList)) = "234".toList := by decide
example : substringS "12345".toList 0 (some (ofNat 3)) = "12".toList := by decide
example : substringS "12345".toList nanBits (some (ofNat 3)) = [] := by decide
example : substringS "12345".toList (ofNat 1) (some nanBits) = [] := by decide
example : substringS "12345".toList (ofInt (-42)) (some (infBits false)) = "12345".toList := by decide
example : substringS "12345".toList (infBits true) (some (infBits false)) = [] := by decide
example : roundB (parseNum "-0.5".toList) = zeroBits true := by decide
example : roundB (parseNum "2.5".toList) = ofNat 3 := by decide
example : roundB (parseNum "-1.5".toList) = ofInt (-1) := by decide
example : roundB (parseNum "0.49999999999999994".toList) = 0 := by decide
example : fmtNum (divB (ofNat 1) (ofNat 3)) = "0.3333333333333333".toList := by decide
example : fmtNum (parseNum "1000000000000000000000".toList) = "1000000000000000000000".toList := by decide
example : fmtNum (negB 0) = "0".toList := by decide
example : parseNum " 12 ".toList = ofNat 12 ∧ parseNum "1e3".toList = nanBits ∧ parseNum "+1".toList = nanBits ∧
    parseNum "Infinity".toList = nanBits ∧ parseNum ".5".toList = divB (ofNat 1) (ofNat 2) ∧
    parseNum "5.".toList = ofNat 5 := by decide
example : divB (ofNat 1) (negB 0) = infBits true := by decide
example : modB (ofNat 5) (ofInt (-2)) = ofNat 1 ∧ modB (ofInt (-5)) (ofNat 2) = ofInt (-1) := by decide

/-- translate never lengthens: each character becomes one character or none -/
theorem translate_length_le (s frm to : Str) : (translateS s frm to).length ≤ s.length := by
  unfold translateS; exact List.length_filterMap_le _ _

/-- with an empty second argument translate is the identity -/
theorem translate_nothing (s to : Str) : translateS s [] to = s := by
  unfold translateS
  induction s with
  | nil => rfl
  | cons c r ih => simp at ih ⊢

/-- characters outside the second argument pass through unchanged, wherever they stand -/
theorem translate_untouched (s frm to : Str) (h : ∀ c ∈ s, c ∉ frm) : translateS s frm to = s := by
  unfold translateS
  induction s with
  | nil => rfl
  | cons c r ih =>
    have hc : frm.findIdx? (· == c) = none := by
      rw [List.findIdx?_eq_none_iff]
      intro x hx; have := h c (by simp)
      simp only [beq_eq_false_iff_ne, ne_eq]
      intro e; subst e; exact this hx
    simp only [List.filterMap_cons, hc]
    rw [ih (fun c' hc' => h c' (by simp [hc']))]

/-! ### normalize-space, for every string (added 2026-09-23) -/
/-- every white-space character is a single U+0020 directly followed by a non-white-space character -/
def wellSpaced : Str → Bool
  | [] => true
  | c :: r => (if isXmlWs c then c == ' ' && (match r with | d :: _ => !isXmlWs d | [] => false) else true) && wellSpaced r

theorem go_wellSpaced : ∀ (r : Str) (pend : Bool), wellSpaced (normalizeSpace.go r pend) = true := by
  intro r
  induction r with
  | nil => intro pend; rfl
  | cons c r ih =>
    intro pend
    by_cases hc : isXmlWs c = true
    · simp only [normalizeSpace.go, hc, if_true]; exact ih true
    · have hc' : isXmlWs c = false := by simpa using hc
      cases pend
      · simp [normalizeSpace.go, hc', wellSpaced, ih false]
      · have hs : isXmlWs ' ' = true := by decide
        simp [normalizeSpace.go, hc', wellSpaced, ih false, hs]

theorem go_nonws : ∀ (r : Str) (pend : Bool),
    (normalizeSpace.go r pend).filter (fun c => !isXmlWs c) = r.filter (fun c => !isXmlWs c) := by
  intro r
  induction r with
  | nil => intro pend; rfl
  | cons c r ih =>
    intro pend
    by_cases hc : isXmlWs c = true
    · simp [normalizeSpace.go, hc, ih true]
    · have hc' : isXmlWs c = false := by simpa using hc
      have hs : isXmlWs ' ' = true := by decide
      cases pend <;> simp [normalizeSpace.go, hc', hs, ih false]

theorem filter_dropWhile_ws (s : Str) :
    (s.dropWhile isXmlWs).filter (fun c => !isXmlWs c) = s.filter (fun c => !isXmlWs c) := by
  induction s with
  | nil => rfl
  | cons c r ih =>
    by_cases hc : isXmlWs c = true
    · simp [List.dropWhile, hc, ih]
    · have hc' : isXmlWs c = false := by simpa using hc
      simp [List.dropWhile, hc']

/-- normalize-space keeps exactly the non-white-space characters, in order, for every string -/
theorem normalize_space_keeps_nonws (s : Str) :
    (normalizeSpace s).filter (fun c => !isXmlWs c) = s.filter (fun c => !isXmlWs c) := by
  rw [← filter_dropWhile_ws s]
  unfold normalizeSpace
  cases h : s.dropWhile isXmlWs with
  | nil => rfl
  | cons c r =>
    simp only [List.filter_cons, go_nonws]

/-- in the result every white-space character is one U+0020 between two non-white-space characters:
    no leading, no trailing, no repeated white space, and tab / CR / LF never survive -/
theorem normalize_space_wellSpaced (s : Str) :
    wellSpaced (normalizeSpace s) = true ∧ (∀ c, (normalizeSpace s).head? = some c → isXmlWs c = false) := by
  unfold normalizeSpace
  cases h : s.dropWhile isXmlWs with
  | nil => exact ⟨rfl, by simp⟩
  | cons c r =>
    have hc : isXmlWs c = false := by
      have := List.head_dropWhile_not isXmlWs (l := s) (by simp [h])
      simpa [h] using this
    refine ⟨by simp [wellSpaced, hc, go_wellSpaced], ?_⟩
    intro c' hc'; simp at hc'; subst hc'; exact hc

example : normalizeSpace " \ta  b\n c ".toList = "a b c".toList ∧ wellSpaced "a b c".toList = true ∧
    wellSpaced "a  b".toList = false ∧ wellSpaced "a ".toList = false := by decide

theorem wellSpaced_tail (c : Char) (r : Str) (h : wellSpaced (c :: r) = true) : wellSpaced r = true := by
  simp only [wellSpaced, Bool.and_eq_true] at h; exact h.2

theorem go_fixed : ∀ (t : Str), wellSpaced t = true →
    normalizeSpace.go t false = t ∧
    (∀ hd tl, t = hd :: tl → isXmlWs hd = false → normalizeSpace.go t true = ' ' :: t) := by
  intro t
  induction t with
  | nil => intro _; exact ⟨rfl, fun _ _ h => by cases h⟩
  | cons c r ih =>
    intro h
    have hr := wellSpaced_tail c r h
    obtain ⟨ih1, ih2⟩ := ih hr
    constructor
    · by_cases hc : isXmlWs c = true
      · simp only [wellSpaced, hc, if_true, Bool.and_eq_true, beq_iff_eq] at h
        obtain ⟨⟨rfl, hd⟩, _⟩ := h
        cases r with
        | nil => simp at hd
        | cons d r' =>
          have hd' : isXmlWs d = false := by simpa using hd
          simp only [normalizeSpace.go, hc, if_true]
          exact ih2 d r' rfl hd'
      · have hc' : isXmlWs c = false := by simpa using hc
        simp [normalizeSpace.go, hc', ih1]
    · intro hd tl e hhd
      cases e
      simp [normalizeSpace.go, hhd, ih1]

/-- a string that is already normalized is left as it is -/
theorem normalize_space_fixed (t : Str) (h : wellSpaced t = true)
    (hh : ∀ c, t.head? = some c → isXmlWs c = false) : normalizeSpace t = t := by
  cases t with
  | nil => rfl
  | cons c r =>
    have hc : isXmlWs c = false := hh c rfl
    unfold normalizeSpace
    simp only [List.dropWhile, hc]
    rw [(go_fixed r (wellSpaced_tail c r h)).1]

/-- normalize-space is idempotent, for every string -/
theorem normalize_space_idempotent (s : Str) : normalizeSpace (normalizeSpace s) = normalizeSpace s :=
  normalize_space_fixed _ (normalize_space_wellSpaced s).1 (normalize_space_wellSpaced s).2

end XmlRs.C09
