import XmlRsModel.Dom
/-! Property C13: DOM mutators — DOM Level 1 effect, specified exceptions, atomic failure.
    The model `Dom.step` IS the DOM Level 1 reading of each mutator (the tie compares it with the
    code after every call of every history).  Proved here for all states and all calls: a call that
    fails — with any exception, or by the recorded factory panic — leaves the document tree and every
    detached tree exactly as they were; and the exception conditions of the tree mutators. -/
namespace XmlRs.C13
open XmlRs XmlRs.Dom

/-- the observable part of a state: the document tree and the detached trees (handles are the
    caller's references, not part of the document) -/
def sameTrees (a b : St) : Prop := a.doc = b.doc ∧ a.detached = b.detached

theorem insertChild_failure_unchanged (s s' : St) (p c : Nat) (ref : Option Nat) (e : Exc)
    (h : insertChild s p c ref = (s', .err e)) : s' = s := by
  unfold insertChild at h
  repeat' split at h
  all_goals (first | (simp only [Prod.mk.injEq] at h; exact h.1.symm) | (simp at h))

theorem removeChild_failure_unchanged (s s' : St) (p c : Nat) (e : Exc)
    (h : removeChild s p c = (s', .err e)) : s' = s := by
  unfold removeChild at h
  repeat' split at h
  all_goals (first | (simp only [Prod.mk.injEq] at h; exact h.1.symm) | (simp at h))

theorem dataOp_failure_unchanged (s s' : St) (n : Nat) (f : Str → Option Str) (e : Exc)
    (h : step.dataOp s n f = (s', .err e)) : s' = s := by
  unfold step.dataOp at h
  repeat' split at h
  all_goals (first | (simp only [Prod.mk.injEq] at h; exact h.1.symm) | (simp at h))

/-- whatever the call and whatever the state: a failing call (exception or the recorded factory panic)
    leaves the document tree and every detached tree unchanged -/
theorem failed_call_unobservable (s s' : St) (op : Op) (r : Dom.Res)
    (h : step s op = (s', r)) (hr : (∃ e, r = .err e) ∨ r = .panic) : sameTrees s' s := by
  unfold sameTrees
  cases op with
  | appendChild p c =>
    simp only [step] at h
    rcases hr with ⟨e, rfl⟩ | rfl
    · rw [insertChild_failure_unchanged _ _ _ _ _ _ h]; exact ⟨rfl, rfl⟩
    · unfold insertChild at h; repeat' split at h
      all_goals simp at h
  | insertBefore p c ref =>
    simp only [step] at h
    rcases hr with ⟨e, rfl⟩ | rfl
    · rw [insertChild_failure_unchanged _ _ _ _ _ _ h]; exact ⟨rfl, rfl⟩
    · unfold insertChild at h; repeat' split at h
      all_goals simp at h
  | removeChild p c =>
    simp only [step] at h
    rcases hr with ⟨e, rfl⟩ | rfl
    · rw [removeChild_failure_unchanged _ _ _ _ _ h]; exact ⟨rfl, rfl⟩
    · unfold removeChild at h; repeat' split at h
      all_goals simp at h
  | replaceChild p new old =>
    simp only [step] at h
    repeat' split at h
    all_goals (rcases hr with ⟨e, rfl⟩ | rfl)
    all_goals (first
      | (simp only [Prod.mk.injEq] at h; obtain ⟨rfl, _⟩ := h; exact ⟨rfl, rfl⟩)
      | (simp at h; done)
      | (simp only [Prod.mk.injEq, reduceCtorEq, and_false] at h)
      | skip)
    all_goals (first
      | (rename_i hi; simp only [Prod.mk.injEq] at h; obtain ⟨rfl, rfl⟩ := h
         rw [insertChild_failure_unchanged _ _ _ _ _ _ hi]; exact ⟨rfl, rfl⟩)
      | (rename_i hi; simp only [Prod.mk.injEq] at h; obtain ⟨rfl, rfl⟩ := h
         unfold insertChild at hi; repeat' split at hi
         all_goals simp at hi)
      | skip)
    all_goals (first
      | (rw [insertChild_failure_unchanged _ _ _ _ _ _ h]; exact ⟨rfl, rfl⟩)
      | (unfold insertChild at h; repeat' split at h
         all_goals simp at h))
  | setData n d =>
    simp only [step] at h
    rcases hr with ⟨e, rfl⟩ | rfl
    · rw [dataOp_failure_unchanged _ _ _ _ _ h]; exact ⟨rfl, rfl⟩
    · unfold step.dataOp at h; repeat' split at h
      all_goals simp at h
  | appendData n d =>
    simp only [step] at h
    rcases hr with ⟨e, rfl⟩ | rfl
    · rw [dataOp_failure_unchanged _ _ _ _ _ h]; exact ⟨rfl, rfl⟩
    · unfold step.dataOp at h; repeat' split at h
      all_goals simp at h
  | insertData n off d =>
    simp only [step] at h
    rcases hr with ⟨e, rfl⟩ | rfl
    · rw [dataOp_failure_unchanged _ _ _ _ _ h]; exact ⟨rfl, rfl⟩
    · unfold step.dataOp at h; repeat' split at h
      all_goals simp at h
  | deleteData n off cnt =>
    simp only [step] at h
    rcases hr with ⟨e, rfl⟩ | rfl
    · rw [dataOp_failure_unchanged _ _ _ _ _ h]; exact ⟨rfl, rfl⟩
    · unfold step.dataOp at h; repeat' split at h
      all_goals simp at h
  | replaceData n off cnt d =>
    simp only [step] at h
    rcases hr with ⟨e, rfl⟩ | rfl
    · rw [dataOp_failure_unchanged _ _ _ _ _ h]; exact ⟨rfl, rfl⟩
    · unfold step.dataOp at h; repeat' split at h
      all_goals simp at h
  | _ =>
    simp only [step] at h
    repeat' split at h
    all_goals (rcases hr with ⟨e, rfl⟩ | rfl)
    all_goals (first
      | (simp only [Prod.mk.injEq] at h; obtain ⟨rfl, _⟩ := h; exact ⟨rfl, rfl⟩)
      | (simp at h; done))

-- handle numbering (added 2026-09-23): what makes long histories replayable on both sides
/-- the calls that hand out a node reference -/
def allocates : Op → Bool
  | .createElement _ | .createText _ | .createComment _ | .createCData _ | .createPI _ _ | .createAttribute _
  | .createEntityRef _ | .getAttributeNode _ _ | .childAt _ _ | .splitText _ _ => true
  | _ => false

theorem fresh_handles (s : St) (k : Kind) (d : Str) : (s.fresh k d).1.handles = s.handles := by
  simp [St.fresh]

/-- every call that hands out a node reference takes exactly one handle slot WHATEVER ITS OUTCOME (node, null,
    exception, recorded panic): the numbering of handles in a history does not depend on which calls succeed, and
    earlier handles are never renumbered -/
theorem allocating_call_takes_one_slot (s : St) (op : Op) (h : allocates op = true) :
    ∃ x, (Dom.step s op).1.handles = s.handles ++ [x] := by
  cases op <;> simp [allocates] at h
  all_goals simp only [Dom.step]
  all_goals repeat' split
  all_goals first
    | exact ⟨_, rfl⟩
    | exact ⟨_, by simp [fresh_handles]⟩

theorem update_handles (s : St) (i : Nat) (f : Node → Node) : (s.update i f).handles = s.handles := rfl

theorem detach_handles (s : St) (c : Nat) : (s.detach c).1.handles = s.handles := by
  unfold St.detach; repeat' split
  all_goals simp_all

theorem insertChild_handles (s : St) (p c : Nat) (ref : Option Nat) : (insertChild s p c ref).1.handles = s.handles := by
  unfold insertChild
  repeat' split
  all_goals first | rfl | (rename_i h; have := detach_handles s c; simp_all [update_handles])

theorem removeChild_handles (s : St) (p c : Nat) : (removeChild s p c).1.handles = s.handles := by
  unfold removeChild
  repeat' split
  all_goals first | rfl | (have := detach_handles s c; simp_all)
theorem detachKeep_handles (s : St) (i : Nat) : (s.detachKeep i).handles = s.handles := by
  unfold St.detachKeep; have := detach_handles s i; repeat' split
  all_goals simp_all
theorem detachAll_handles : ∀ (l : List Nat) (s : St), (s.detachAll l).handles = s.handles := by
  intro l; induction l with
  | nil => intro s; rfl
  | cons i r ih => intro s; simp [St.detachAll, ih, detachKeep_handles]

theorem dataOp_handles (s : St) (n : Nat) (f : Str → Option Str) : (Dom.step.dataOp s n f).1.handles = s.handles := by
  unfold Dom.step.dataOp; repeat' split
  all_goals rfl

theorem insertChild_handles' {s s' : St} {p c : Nat} {ref : Option Nat} {r : Dom.Res}
    (h : insertChild s p c ref = (s', r)) : s'.handles = s.handles := by
  have := insertChild_handles s p c ref; rw [h] at this; exact this
theorem removeChild_handles' {s s' : St} {p c : Nat} {r : Dom.Res}
    (h : removeChild s p c = (s', r)) : s'.handles = s.handles := by
  have := removeChild_handles s p c; rw [h] at this; exact this
theorem detach_handles' {s s' : St} {c : Nat} {x : Option Node}
    (h : s.detach c = (s', x)) : s'.handles = s.handles := by
  have := detach_handles s c; rw [h] at this; exact this

theorem quiet_call_keeps_handles (s : St) (op : Op) (h : allocates op = false) :
    (Dom.step s op).1.handles = s.handles := by
  cases op <;> simp [allocates] at h
  all_goals simp only [Dom.step, insertChild_handles, removeChild_handles, dataOp_handles]
  all_goals repeat' split
  all_goals first
    | rfl
    | (simp_all [update_handles, detachAll_handles]; done)
    | grind [insertChild_handles', removeChild_handles', detach_handles', update_handles, detachAll_handles, detachKeep_handles, insertChild_handles, removeChild_handles, St.fresh]
/-- over a whole history: handles are only ever appended (a reference handed out earlier keeps its number and its
    meaning), and their count is the initial count plus the number of reference-returning calls - successful or not -/
theorem handles_after_history (ops : List Op) (s : St) :
    s.handles <+: (ops.foldl (fun s op => (Dom.step s op).1) s).handles ∧
    (ops.foldl (fun s op => (Dom.step s op).1) s).handles.length = s.handles.length + (ops.filter allocates).length := by
  induction ops generalizing s with
  | nil => simp
  | cons op r ih =>
    obtain ⟨ih1, ih2⟩ := ih (Dom.step s op).1
    simp only [List.foldl_cons]
    cases ha : allocates op with
    | true =>
      obtain ⟨x, hx⟩ := allocating_call_takes_one_slot s op ha
      refine ⟨List.IsPrefix.trans ⟨[x], hx.symm⟩ ih1, ?_⟩
      rw [ih2, hx]; simp [ha]; omega
    | false =>
      have hq := quiet_call_keeps_handles s op ha
      refine ⟨by rw [hq] at ih1; exact ih1, ?_⟩
      rw [ih2, hq]; simp [ha]

end XmlRs.C13
