import XmlRsModel.Lemmas.XPathOrder
/-! Property C07: node-sets are duplicate-free, document-ordered and obey set algebra.
    Every node-set value the evaluator can return is a sub-list of `allKeys d`, the list of all nodes
    in document order, which is strictly increasing for the document order `keyLt`
    (`Lemmas/XPathOrder`).  Union is list concatenation followed by `normalize`, for which the set
    laws are proved. -/
namespace XmlRs.C07
open XmlRs XmlRs.XPath

theorem normalize_sublist (d : XDoc) (ks : List Key) : (normalize d ks).Sublist (allKeys d) :=
  List.filter_sublist

/-- a normalised node-set is strictly increasing in document order ... -/
theorem normalize_sorted (d : XDoc) (ks : List Key) : (normalize d ks).Pairwise KLt :=
  (allKeys_pairwise d).sublist (normalize_sublist d ks)

/-- ... hence contains each node at most once -/
theorem normalize_nodup (d : XDoc) (ks : List Key) : (normalize d ks).Nodup :=
  (allKeys_nodup d).sublist (normalize_sublist d ks)

theorem mem_normalize (d : XDoc) (ks : List Key) (k : Key) :
    k ∈ normalize d ks ↔ k ∈ allKeys d ∧ k ∈ ks := by
  simp [normalize, List.mem_filter]

/-- the canonical form depends only on WHICH nodes are in the list -/
theorem normalize_ext (d : XDoc) (xs ys : List Key) (h : ∀ k, k ∈ xs ↔ k ∈ ys) :
    normalize d xs = normalize d ys := by
  unfold normalize
  apply List.filter_congr
  intro k _
  have := h k
  by_cases hx : k ∈ xs
  · simp [List.contains_iff_mem, hx, this.1 hx]
  · have hy : k ∉ ys := fun hy => hx (this.2 hy)
    simp [List.contains_iff_mem, hx, hy]

/-- A | B = B | A -/
theorem union_comm (d : XDoc) (xs ys : List Key) : normalize d (xs ++ ys) = normalize d (ys ++ xs) :=
  normalize_ext d _ _ (by intro k; simp [or_comm])

/-- A | A = A (for a node-set in canonical form, see `normalize_of_normal`) -/
theorem union_idem (d : XDoc) (xs : List Key) : normalize d (xs ++ xs) = normalize d xs :=
  normalize_ext d _ _ (by intro k; simp)

/-- (A | B) | C = A | (B | C) -/
theorem union_assoc (d : XDoc) (xs ys zs : List Key) :
    normalize d (normalize d (xs ++ ys) ++ zs) = normalize d (xs ++ normalize d (ys ++ zs)) := by
  unfold normalize
  apply List.filter_congr
  intro k hk
  rw [Bool.eq_iff_iff]
  simp [List.mem_filter, hk, or_assoc]

private theorem filter_mem_sublist : ∀ (l s : List Key), l.Nodup → s.Sublist l → l.filter (fun k => s.contains k) = s
  | [], s, _, h => by cases h; rfl
  | a :: l, s, hn, h => by
      rw [List.nodup_cons] at hn
      cases h with
      | cons _ h' =>
        have ha : a ∉ s := fun hs => hn.1 (h'.subset hs)
        rw [List.filter_cons]
        simp only [List.contains_iff_mem, ha, decide_false, Bool.false_eq_true, if_false]
        exact filter_mem_sublist l s hn.2 h'
      | cons_cons _ h' =>
        rename_i s'
        rw [List.filter_cons]
        simp only [List.contains_iff_mem, List.mem_cons, true_or, decide_true, if_true]
        congr 1
        have : l.filter (fun k => (a :: s').contains k) = l.filter (fun k => s'.contains k) := by
          apply List.filter_congr
          intro k hk
          have hka : k ≠ a := fun e => hn.1 (e ▸ hk)
          simp [List.contains_iff_mem, hka]
        rw [this]
        exact filter_mem_sublist l s' hn.2 h'

/-- a node-set that is already in canonical form is left alone by `normalize`; with `union_idem`:
    A | A = A -/
theorem normalize_of_normal (d : XDoc) (xs : List Key) (h : xs.Sublist (allKeys d)) : normalize d xs = xs :=
  filter_mem_sublist _ _ (allKeys_nodup d) h

theorem union_self (d : XDoc) (xs : List Key) (h : xs.Sublist (allKeys d)) : normalize d (xs ++ xs) = xs := by
  rw [union_idem, normalize_of_normal d xs h]

private theorem filter_mem_length_le : ∀ (l m : List Key), l.Nodup → (l.filter (fun k => m.contains k)).length ≤ m.length
  | [], _, _ => by simp
  | a :: l, m, hn => by
      rw [List.nodup_cons] at hn
      rw [List.filter_cons]
      by_cases ha : a ∈ m
      · simp only [List.contains_iff_mem, ha, decide_true, if_true, List.length_cons]
        have : l.filter (fun k => m.contains k) = l.filter (fun k => (m.erase a).contains k) := by
          apply List.filter_congr
          intro k hk
          have hka : k ≠ a := fun e => hn.1 (e ▸ hk)
          simp [List.contains_iff_mem, List.mem_erase_of_ne hka]
        rw [this]
        have ih := filter_mem_length_le l (m.erase a) hn.2
        have hl : (m.erase a).length = m.length - 1 := List.length_erase_of_mem ha
        have hpos : 0 < m.length := List.length_pos_of_mem ha
        omega
      · simp only [List.contains_iff_mem, ha, decide_false, Bool.false_eq_true, if_false]
        exact filter_mem_length_le l m hn.2

/-- count(A | B) <= count(A) + count(B) -/
theorem count_union_le (d : XDoc) (xs ys : List Key) :
    (normalize d (xs ++ ys)).length ≤ xs.length + ys.length := by
  have := filter_mem_length_le (allKeys d) (xs ++ ys) (allKeys_nodup d)
  simpa [normalize] using this

/-! ### every node-set the evaluator returns is in canonical form -/

theorem evalSteps_sublist (env : XPath.Env) : ∀ (steps : List Step) (ks r : List Key),
    ks.Sublist (allKeys env.doc) → evalSteps env steps ks = .ok r → r.Sublist (allKeys env.doc)
  | [], ks, r, hs, h => by simp only [evalSteps] at h; cases h; exact hs
  | st :: rest, ks, r, _, h => by
      simp only [evalSteps] at h
      split at h
      · cases h
      · exact evalSteps_sublist env rest _ r (normalize_sublist _ _) h

/-- the only node-set a core function returns is the empty one (id() on a document without DOCTYPE) -/
theorem applyFunc_nodes_empty (env : XPath.Env) (c : Ctx) (name : String) (vs : List Value) (ks : List Key)
    (h : applyFunc env c name vs = .ok (.nodes ks)) : ks = [] := by
  unfold applyFunc at h
  split at h
  all_goals (repeat' split at h)
  all_goals (first | (simp at h; done) | (simp at h; exact h.symm) |
    ((try dsimp only at h); by_cases hd : env.doc.hasDoctype = true <;> simp [hd] at h <;> first | exact h | exact h.symm) | simp_all)

/-- whatever expression produced it: a node-set value lists nodes of the document in document order,
    each at most once -/
theorem eval_nodeset_normal (env : XPath.Env) (e : Expr) (c : Ctx) (ks : List Key)
    (h : eval env e c = .ok (.nodes ks)) : ks.Sublist (allKeys env.doc) := by
  cases e with
  | lit s => simp [eval] at h
  | num s => simp [eval] at h
  | var q => simp [eval] at h
  | neg e => simp only [eval] at h; split at h <;> simp at h
  | call f args =>
    simp only [eval] at h
    repeat' split at h
    all_goals first
      | (simp at h; done)
      | (have := applyFunc_nodes_empty _ _ _ _ _ h; subst this; exact List.nil_sublist _)
  | filter e preds =>
    simp only [eval] at h
    cases hE : eval env e c with
    | error x => simp [hE] at h
    | ok v =>
      cases v with
      | nodes ks0 =>
        simp only [hE] at h
        cases hF : filterPreds env preds false ks0 with
        | error x => simp [hF] at h
        | ok r => simp only [hF, Except.ok.injEq, Value.nodes.injEq] at h; subst h; exact normalize_sublist _ _
      | bool b => simp [hE] at h
      | num x => simp [hE] at h
      | str x => simp [hE] at h
  | path start abs steps =>
    have key : ∀ first : Except XPErr (List Key),
        (match first with
          | .error x => (Except.error x : Except XPErr Value)
          | .ok ks0 => match evalSteps env steps (normalize env.doc ks0) with
              | .ok r => .ok (.nodes r)
              | .error x => .error x) = .ok (.nodes ks) → ks.Sublist (allKeys env.doc) := by
      intro first hf
      cases first with
      | error x => simp at hf
      | ok ks0 =>
        simp only at hf
        cases hr : evalSteps env steps (normalize env.doc ks0) with
        | error x => simp [hr] at hf
        | ok r =>
          simp only [hr, Except.ok.injEq, Value.nodes.injEq] at hf; subst hf
          exact evalSteps_sublist env steps _ _ (normalize_sublist _ _) hr
    cases start with
    | none => simp only [eval] at h; exact key (.ok (if abs then [[]] else [c.node])) h
    | some e0 => simp only [eval] at h; exact key _ h
  | bin op a b =>
    cases op <;> simp only [eval] at h <;> (repeat' split at h) <;>
      first
        | (simp at h; done)
        | (simp only [Except.ok.injEq, Value.nodes.injEq] at h; subst h; exact normalize_sublist _ _)

/-- ... so it is strictly increasing in document order and duplicate-free -/
theorem eval_nodeset_sorted (env : XPath.Env) (e : Expr) (c : Ctx) (ks : List Key)
    (h : eval env e c = .ok (.nodes ks)) : ks.Pairwise KLt ∧ ks.Nodup :=
  ⟨(allKeys_pairwise env.doc).sublist (eval_nodeset_normal env e c ks h),
   (allKeys_nodup env.doc).sublist (eval_nodeset_normal env e c ks h)⟩

/-- a positional filter on a parenthesised node-set counts in document order: the predicate is
    evaluated over the (document-ordered) value of the inner expression with positions 1..n -/
theorem filter_counts_doc_order (env : XPath.Env) (e p : Expr) (c : Ctx) (ks : List Key)
    (h : eval env e c = .ok (.nodes ks)) :
    eval env (.filter e [p]) c = (match filterOne env p ks 1 ks.length with
      | .ok kept => .ok (.nodes (normalize env.doc kept))
      | .error x => .error x) := by
  simp only [eval, h, filterPreds]
  cases hF : filterOne env p ks 1 ks.length <;> simp [hF]

/-- non-vacuity: a two-element document has a non-trivial order -/
example : allKeys { kids := [.elem ⟨none, ['a']⟩ [] [(⟨none, ['x']⟩, ['1'])] [.text ['t']]] } = [[], [2], [2, 1, 0], [2, 2]] := by
  decide

end XmlRs.C07
