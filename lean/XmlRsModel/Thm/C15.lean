import XmlRsModel.Dom
import XmlRsModel.Thm.C13
import XmlRsModel.Lemmas.DomEffect
import XmlRsModel.Lemmas.DomHeight
import XmlRsModel.Thm.C12
import XmlRsModel.Thm.C03
import XmlRsModel.Lemmas.AbsDepth
import XmlRsModel.Lemmas.DataValid
import XmlRsModel.Lemmas.DataValidPI
/-! Property C15: edits that succeed keep the document serializable and faithful.
    The library validates supplied data by re-parsing a fragment with its own grammar productions; the
    model's validity predicates ARE those productions (`Dom.validText` = production `char_data` of the
    grammar generated from the source, and so on), so they change when the source changes.  Proved:
    what `char_data`, `cdsect`, `comment` and `pi` (target and data) accept, in closed form (for comments: exactly production [15] of
    the Recommendation, and that production in words); every data edit stores only data that passed the
    predicate for the node's kind — computed on the OUTCOME of the edit, so a forbidden sequence that
    only arises from combining harmless pieces is refused too; a refused edit changes nothing. -/
namespace XmlRs.C15
open XmlRs XmlRs.Dom Gen.Xml XmlRs.Names

theorem spanP_all_iff (p : Char → Bool) : ∀ s : Str, (spanP p s).2 = [] ↔ s.all p = true
  | [] => by simp [spanP]
  | c :: cs => by
      simp only [spanP]
      split
      · next h => simp [h, spanP_all_iff p cs]
      · next h => simp [h]

theorem spanP_fst_of_all (p : Char → Bool) : ∀ s : Str, s.all p = true → (spanP p s).1 = s
  | [], _ => rfl
  | c :: cs, h => by
      simp only [List.all_cons, Bool.and_eq_true] at h
      simp [spanP, h.1, spanP_fst_of_all p cs h.2]

theorem splitAtSub_snd_ne_nil (pat : Str) (hp : pat ≠ []) : ∀ (s a b : Str), splitAtSub pat s = some (a, b) → b ≠ []
  | [], a, b, h => by simp [splitAtSub, hp] at h
  | c :: cs, a, b, h => by
      simp only [splitAtSub] at h
      split at h
      · simp only [Option.some.injEq, Prod.mk.injEq] at h; obtain ⟨_, rfl⟩ := h; simp
      · split at h
        · next a' b' hs =>
          simp only [Option.some.injEq, Prod.mk.injEq] at h; obtain ⟨_, rfl⟩ := h
          exact splitAtSub_snd_ne_nil pat hp cs a' _ hs
        · cases h

/-- character data the library accepts for a Text node, in closed form: every character is a Char
    other than '<' and '&', and "]]>" does not occur — exactly production [14] CharData -/
theorem validText_iff (s : Str) :
    validText s = (s.all (P.except P.isChar ['<', '&']) && !hasSub [']', ']', '>'] s) := by
  have hfuel : ∃ f, 100000 + 64 * s.length = f + 2 := ⟨99998 + 64 * s.length, by omega⟩
  obtain ⟨f, hf⟩ := hfuel
  have e1 : [Char.ofNat 93, Char.ofNat 93, Char.ofNat 62] = [']', ']', '>'] := by decide +kernel
  have e2 : [Char.ofNat 60, Char.ofNat 38] = ['<', '&'] := by decide +kernel
  simp only [validText, fullMatch, hf, run, env_char_data, Prod.char_data, e1, e2, runUntil0, hasSub]
  by_cases hall : s.all (P.except P.isChar ['<', '&']) = true
  · have h1 := spanP_fst_of_all _ s hall
    have h2 := (spanP_all_iff _ s).2 hall
    rw [h1, h2, hall]
    cases hs : splitAtSub [']', ']', '>'] s with
    | none => rfl
    | some ab =>
      obtain ⟨a, b⟩ := ab
      have hb := splitAtSub_snd_ne_nil _ (by decide) _ a b hs
      cases b with
      | nil => exact absurd rfl hb
      | cons x xs => simp
  · have hne : (spanP (P.except P.isChar ['<', '&']) s).2 ≠ [] := by
      intro h0; exact hall ((spanP_all_iff _ s).1 h0)
    have hall' : s.all (P.except P.isChar ['<', '&']) = false := by simpa using hall
    rw [hall']
    cases hs : splitAtSub [']', ']', '>'] (spanP (P.except P.isChar ['<', '&']) s).1 with
    | none =>
      cases hr : (spanP (P.except P.isChar ['<', '&']) s).2 with
      | nil => exact absurd hr hne
      | cons x xs => simp
    | some ab =>
      obtain ⟨a, b⟩ := ab
      cases hr : b ++ (spanP (P.except P.isChar ['<', '&']) s).2 with
      | nil =>
        have := splitAtSub_snd_ne_nil _ (by decide) _ a b hs
        simp at hr; exact absurd hr.1 this
      | cons x xs => simp [hr]

/-- CDATA section data the library accepts, in closed form: every character is a Char and "]]>" does not occur -/
theorem validCData_iff (s : Str) : validCData s = (s.all P.isChar && !hasSub [']', ']', '>'] s) := by
  have e0 : "<![CDATA[".toList = [Char.ofNat 60,Char.ofNat 33,Char.ofNat 91,Char.ofNat 67,Char.ofNat 68,Char.ofNat 65,Char.ofNat 84,Char.ofNat 65,Char.ofNat 91] := by decide +kernel
  have e1 : [Char.ofNat 93, Char.ofNat 93, Char.ofNat 62] = suf := by decide +kernel
  have e2 : "]]>".toList = suf := by decide +kernel
  simp only [validCData, fullMatch]
  generalize hF : 100000 + 64 * ("<![CDATA[".toList ++ s ++ "]]>".toList).length = F
  obtain ⟨f, rfl⟩ : ∃ f, F = f + 3 := ⟨F - 3, by omega⟩
  simp only [run, env_cdsect, Prod.cdsect, runSeq, e0, e1, e2, List.append_assoc, stripPrefix_append]
  have key := until_suf_key s
  cases hs : stripPrefix suf (runUntil0 P.isChar suf (s ++ suf)).2 with
  | none =>
    have : ¬ (s.all P.isChar = true ∧ hasSub suf s = false) := fun h => by simp [key.2 h] at hs
    simp only [hs]
    cases h1 : s.all P.isChar <;> cases h2 : hasSub suf s <;> simp_all
  | some r =>
    cases r with
    | nil =>
      obtain ⟨h1, h2⟩ := key.1 hs
      simp [hs, h1, h2]
    | cons x xs =>
      have : ¬ (s.all P.isChar = true ∧ hasSub suf s = false) := fun h => by simp [key.2 h] at hs
      simp only [hs]
      cases h1 : s.all P.isChar <;> cases h2 : hasSub suf s <;> simp_all



/-- comment data the library accepts = production [15] of XML 1.0 -/
theorem validComment_iff (s : Str) : validComment s = isCommentBody s := by
  have e0 : "<!--".toList = [Char.ofNat 60,Char.ofNat 33,Char.ofNat 45,Char.ofNat 45] := by decide +kernel
  have e1 : [Char.ofNat 45,Char.ofNat 45,Char.ofNat 62] = dashEnd := by decide +kernel
  have e2 : "-->".toList = dashEnd := by decide +kernel
  simp only [validComment, fullMatch]
  generalize hF : 100000 + 64 * ("<!--".toList ++ s ++ "-->".toList).length = F
  have hlen : s.length + 5 + 3 ≤ F := by
    rw [← hF]; simp only [List.length_append]; omega
  obtain ⟨f, rfl⟩ : ∃ f, F = f + 3 := ⟨F - 3, by omega⟩
  obtain ⟨ks, t', h1, h2⟩ := loop s.length s (Nat.le_refl _) f (by omega)
  simp only [run, env_comment, Prod.comment, runSeq, e0, e1, e2, List.append_assoc, stripPrefix_append, gC_eq, h1]
  cases t' with
  | nil =>
    have := h2.1 rfl
    simp [this, dashEnd, stripPrefix]
  | cons x xs =>
    have hb : isCommentBody s = false := by
      cases h : isCommentBody s with
      | false => rfl
      | true => exact absurd (h2.2 h) (by simp)
    rw [hb]
    cases hs : stripPrefix dashEnd (x :: xs ++ dashEnd) with
    | none => simp [hs]
    | some r =>
      have := congrArg List.length (stripPrefix_some hs)
      simp only [List.length_append, List.length_cons] at this
      cases r with
      | nil => simp at this
      | cons y ys => simp [hs]



/-- production [15] in words: only Chars, no "--" inside, no '-' at the end (which would make "--->") -/
theorem commentBody_closed (s : Str) :
    isCommentBody s = (s.all P.isChar && !hasSub ['-', '-'] s && !(s.getLast? == some '-')) := by
  fun_induction isCommentBody s with
  | case1 => decide
  | case2 => decide
  | case3 d r ih =>
    rw [ih, hasSub_dd_cons '-' (d :: r), hasSub_dd_cons d r]
    simp only [List.all_cons, isChar_dash, List.head?_cons, List.getLast?_cons_cons]
    by_cases hd : d = '-'
    · subst hd; simp
    · cases r with
      | nil => simp [hd, hasSub, splitAtSub, bne]
      | cons e r' =>
        have hb : (d == '-') = false := by simpa using hd
        simp [hd, List.getLast?_cons_cons, bne]
        simp only [hb, dd]
        generalize P.isChar d = a
        generalize P.isChar e = b
        generalize r'.all P.isChar = c
        generalize hasSub ['-', '-'] (e :: r') = x
        generalize ((e :: r').getLast? == some '-') = y
        cases a <;> cases b <;> cases c <;> cases x <;> cases y <;> simp
  | case4 c r h1 h2 ih =>
    have hc : ¬ c = '-' := by
      intro e
      cases r with
      | nil => exact h1 e rfl
      | cons d r1 => exact h2 d r1 e rfl
    have hb : (c == '-') = false := by simpa using hc
    rw [ih, hasSub_dd_cons c r]
    cases r with
    | nil => simp [hb, hasSub, splitAtSub]
    | cons e r' =>
      simp [hc, hb, List.getLast?_cons_cons]
      simp only [dd]
      generalize P.isChar c = a
      generalize P.isChar e = b
      generalize r'.all P.isChar = c
      generalize hasSub ['-', '-'] (e :: r') = x
      generalize ((e :: r').getLast? == some '-') = y
      cases a <;> cases b <;> cases c <;> cases x <;> cases y <;> simp [hc]

/-- comment data the library accepts, in words -/
theorem validComment_closed (s : Str) :
    validComment s = (s.all P.isChar && !hasSub ['-', '-'] s && !(s.getLast? == some '-')) := by
  rw [validComment_iff, commentBody_closed]

example : validCData ['a', ']', ']'] = true ∧ validCData ['a', ']', ']', '>', 'b'] = false := by
  rw [validCData_iff, validCData_iff]; decide
example : validComment ['a', '-', 'b'] = true ∧ validComment ['a', '-', '-', 'b'] = false ∧ validComment ['a', '-'] = false := by
  rw [validComment_closed, validComment_closed, validComment_closed]; decide

/-- PI targets the factory accepts, in closed form: a Name that is not `xml` in any letter case -/
theorem validPITarget_iff (t : Str) : validPITarget t = (isName t && !P.eqIgnoreAsciiCase t xmlS) := by
  simp only [validPITarget]
  cases hn : isName t with
  | false => simp
  | true =>
    have ha := isName_all t hn
    simp only [Bool.true_and]
    cases hx : P.eqIgnoreAsciiCase t xmlS with
    | true =>
      cases hm : fullMatch N.pi ("<?".toList ++ t ++ "?>".toList) with
      | false => rfl
      | true => have := target_not_xml t ha hm; simp [this] at hx
    | false =>
      have e0 : "<?".toList = [Char.ofNat 60,Char.ofNat 63] := by decide +kernel
      have e1 : [Char.ofNat 63,Char.ofNat 62] = qg := by decide +kernel
      have e2 : "?>".toList = qg := by decide +kernel
      simp only [fullMatch]
      generalize hF : 100000 + 64 * ("<?".toList ++ t ++ "?>".toList).length = F
      obtain ⟨f, rfl⟩ : ∃ f, F = f + 11 := ⟨F - 11, by omega⟩
      obtain ⟨h1, h2⟩ := span_span_split '?' ['>'] nc_q t ha
      have hin : "<?".toList ++ t ++ "?>".toList = "<?".toList ++ (t ++ '?' :: ['>']) := by simp [e2]
      rw [hin]
      have ex : [Char.ofNat 120, Char.ofNat 109, Char.ofNat 108] = xmlS := by decide
      have hsq : spanP P.isSpace qg = ([], qg) := by decide
      simp only [run, env_pi, Prod.pi, runSeq, runAlt, e0, e1, e2, List.append_assoc, stripPrefix_append,
        env_pi_target, Prod.pi_target, env_name, Prod.name, env_multinamestartchar0, Prod.multinamestartchar0,
        env_multinamechar0, Prod.multinamechar0, CST.flatten, flattenL, List.append_nil, h1, h2, ex, hx]
      simp only [Bool.not_false, if_true]
      rw [hsq]
      simp [stripPrefix]

/-- PI data the library accepts for a target it accepts, in closed form: only Chars, no "?>" -/
theorem validPI_iff (t d : Str) (ht : validPITarget t = true) :
    validPI t d = (d.all P.isChar && !hasSub ['?', '>'] d) := by
  simp only [validPITarget, Bool.and_eq_true] at ht
  have ha := isName_all t ht.1
  exact pi_data_run t d ha (target_not_xml t ha ht.2)

example : validPITarget ['t'] = true ∧ validPITarget ['X', 'm', 'L'] = false ∧ validPITarget ['1'] = false := by
  rw [validPITarget_iff, validPITarget_iff, validPITarget_iff]; decide
example : validPI ['t'] [' ', 'a', '?'] = true ∧ validPI ['t'] ['a', '?', '>', 'b'] = false := by
  rw [validPI_iff _ _ (by rw [validPITarget_iff]; decide), validPI_iff _ _ (by rw [validPITarget_iff]; decide)]; decide

/-- a data edit that succeeds stores data that passed the validity predicate of the node's kind,
    evaluated on the OUTCOME of the edit (insert / delete / replace / set / append alike) -/
theorem data_edit_validates_outcome (s s' : St) (n : Nat) (f : Str → Option Str) (nn : Node)
    (hn : s.find n = some nn) (h : step.dataOp s n f = (s', .ok)) :
    ∃ d', f nn.data = some d' ∧ validData nn.kind d' = true := by
  unfold step.dataOp at h
  simp only [hn] at h
  cases hf : f nn.data with
  | none =>
    simp only [hf] at h
    repeat' split at h
    all_goals simp at h
  | some d' =>
    simp only [hf] at h
    by_cases hv : validData nn.kind d' = true
    · exact ⟨d', rfl, hv⟩
    · simp only [hv] at h
      repeat' split at h
      all_goals (first | (simp at h; done) | (rename_i hcontra; simp at hcontra))

/-- the data a node of kind `k` holds after a successful edit whose outcome is `d` -/
def storedData (k : Kind) (d : Str) : Str := match k with | .pi _ => storedPIData d | _ => d

/-- EFFECT and FRAME of a data edit that succeeds (set / append / insert / delete / replace): the node holds the
    outcome of the edit - which passed the validity predicate of its kind -, and no other node of the document or of
    any detached tree changed its identity, kind or data -/
theorem data_edit_effect (s s' : St) (n : Nat) (f : Str → Option Str) (nn : Node) (hi : Inv s)
    (hn : s.find n = some nn) (h : step.dataOp s n f = (s', .ok)) :
    ∃ d', f nn.data = some d' ∧ validData nn.kind d' = true ∧
      s'.find n = some (nn.withData (storedData nn.kind d')) ∧
      ∀ m, m ≠ n → (s'.find m).map sigD = (s.find m).map sigD := by
  obtain ⟨d', hf, hv⟩ := data_edit_validates_outcome s s' n f nn hn h
  refine ⟨d', hf, hv, ?_⟩
  have hs' : s' = s.update n (Node.withData (storedData nn.kind d')) := by
    unfold step.dataOp at h
    simp only [hn, hf] at h
    rw [hv] at h
    cases hk : nn.kind <;> simp only [hk, isCharData, storedData, Bool.false_or, Bool.true_or, if_true, if_false,
      Bool.false_eq_true, Prod.mk.injEq, and_true, reduceCtorEq, and_false] at h ⊢ <;> first | exact h.symm | exact absurd h (by simp)
  subst hs'
  refine ⟨find_update s n _ (fun x => by cases x; rfl) nn hi.1 hn, fun m hm => ?_⟩
  unfold St.find
  rw [update_roots]
  exact findInL_updateInL_other n m _ hm s.roots

/-- a refused edit leaves the node as it was -/
theorem refused_edit_changes_nothing (s s' : St) (n : Nat) (f : Str → Option Str) (e : Exc)
    (h : step.dataOp s n f = (s', .err e)) : s' = s := C13.dataOp_failure_unchanged s s' n f e h

/-! ### the depth the parser reads back is never exceeded -/

/-- every operation keeps every tree of the state (the document and every detached tree) within the nesting depth the
    parser accepts, `MAX_ELEMENT_DEPTH` (translated from the source as `maxDepth_element`) -/
theorem step_keeps_depth (s : St) (op : Op) (hi : Inv s) (hh : HeightInv s) : HeightInv (step s op).1 :=
  step_heightInv s op hi hh

/-- AFTER ANY HISTORY: if the trees of the initial state are within the depth - a parsed document is, the parser refuses
    anything deeper (`C03.depth_refused`) -, no sequence of DOM calls makes a tree deeper than the parser reads back: the depth
    clause of "no sequence of calls that each report success leaves a document whose serialization the parser rejects" -/
theorem depth_bounded_after_any_history (s : St) (ops : List Op) (hi : Inv s) (hh : HeightInv s) :
    HeightInv (C12.run s ops) ∧ elemHeight (C12.run s ops).doc ≤ Gen.Xml.maxDepth_element := by
  have key : ∀ (ops : List Op) (s : St), Inv s → HeightInv s → HeightInv (C12.run s ops) := by
    intro ops
    induction ops with
    | nil => intro s _ hh; exact hh
    | cons op r ih => intro s hi hh; exact ih _ (C12.inv_step s op hi) (step_heightInv s op hi hh)
  have h := key ops s hi hh
  exact ⟨h, ((heightInv_iff _).mp h).1⟩

/-- for a parsed document: if its elements nest no deeper than the bound (the parser refuses anything deeper), then after any
    history of DOM operations the document tree nests no deeper than the parser reads back -/
theorem parsed_document_stays_within_depth (d : IDoc) (ops : List Op) (hd : topsDepth d.kids ≤ Gen.Xml.maxDepth_element) :
    elemHeight (C12.run (buildSt d) ops).doc ≤ Gen.Xml.maxDepth_element :=
  (depth_bounded_after_any_history (buildSt d) ops (buildSt_inv d) (buildSt_heightInv d hd)).2

/-- END TO END: whatever text the (translated) parser accepts, and whatever DOM operations follow, the document tree never nests
    elements deeper than `MAX_ELEMENT_DEPTH` - the depth at which the parser stops reading.  (parser: `C03.depth_refused` on the
    syntax tree; `absDocument_depth` from the syntax tree to the abstract document; `buildSt_heightInv`; the invariant) -/
theorem parsed_and_edited_stays_within_depth (text : Str) (d : IDoc) (rest : Str) (ops : List Op)
    (h : parseDoc text = .ok (d, rest)) :
    elemHeight (C12.run (buildSt d) ops).doc ≤ Gen.Xml.maxDepth_element := by
  obtain ⟨c, _, habs, hdepth, _⟩ := C03.depth_refused _ _ text d rest h (by decide) (by decide)
  exact parsed_document_stays_within_depth d ops (Nat.le_trans (absDocument_depth c d habs) hdepth)

example : topsDepth [TopItem.elem (.elem ⟨none, ['r']⟩ [] [.elem ⟨none, ['a']⟩ [] [], .text ['t']])] = 2 := by decide

/-- the guard is what does it: an append that would reach depth `maxDepth_element + 1` is refused and changes nothing -/
theorem too_deep_insert_refused (s s1 : St) (p c : Nat) (ref : Option Nat) (pn x : Node)
    (hp : s.find p = some pn) (hd : s.detach c = (s1, some x)) (htd : tooDeep s1 pn x = true) :
    (insertChild s p c ref).1 = s := by
  unfold insertChild
  repeat' split
  all_goals first
    | rfl
    | (simp_all)

end XmlRs.C15
