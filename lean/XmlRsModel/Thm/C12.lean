import XmlRsModel.Dom
import XmlRsModel.Thm.C13
import XmlRsModel.Lemmas.DomStep
import XmlRsModel.Lemmas.DomInit
import XmlRsModel.Lemmas.DomNav
import XmlRsModel.Lemmas.DomDoc
import XmlRsModel.Thm.C02
/-! Property C12: the DOM stays a tree — navigation views agree after any edit history.

    The model keeps a forest (the document tree and the detached trees); `parent`, `find`, child lists
    are read off that forest.  What has to be PROVED is the invariant that makes those readings
    agree: after ANY sequence of operations, successful or refused, starting from ANY parsed
    document, every node id occurs exactly once in the forest (`Inv`).  From it: the node whose child
    list holds `c` is the parent reported for `c` and conversely, a root has no parent, no node lies
    beneath itself, moving never loses or duplicates a node.  The real code keeps the redundancy
    (child vectors, parent ids, an id map); the check evaluates the navigation views of the real
    nodes after every step (monitor) and compares the tree with the model's (tie). -/
namespace XmlRs.C12
open XmlRs XmlRs.Dom List Gen.Xml

/-- a history: the operations are applied one after the other, whatever each one answers -/
def run (s : St) (ops : List Op) : St := ops.foldl (fun s op => (step s op).1) s

/-- ONE STEP: whatever the operation, whatever it answers -/
theorem inv_step (s : St) (op : Op) (h : Inv s) : Inv (step s op).1 := h.of_grow (step_grow s op h)

/-- EVERY REACHABLE STATE: induction over the history -/
theorem inv_run (s : St) (ops : List Op) (h : Inv s) : Inv (run s ops) := by
  induction ops generalizing s with
  | nil => exact h
  | cons op r ih => exact ih _ (inv_step s op h)

/-- for every parsed document and every history of DOM operations: no node occurs twice — neither
    in one tree, nor in two trees, nor as child and attribute — and every id in use was allocated -/
theorem no_node_twice (d : IDoc) (ops : List Op) :
    (idsOfL (run (buildSt d) ops).roots).Nodup ∧
    ∀ i ∈ idsOfL (run (buildSt d) ops).roots, i < (run (buildSt d) ops).next := by
  have h := inv_run (buildSt d) ops (buildSt_inv d)
  refine ⟨nodup_iff_count.mpr h.1, fun i hi => h.2 i ?_⟩
  exact (mem_idsL_iff i _).mp hi

/-- CHILD LIST ⇒ PARENT: the node in whose child list `c` stands is what `parent` reports for `c` -/
theorem child_reports_parent (s : St) (h : Inv s) (p c : Nat) (pn : Node) (hf : s.find p = some pn)
    (hk : pn.kids.any (·.id == c) = true) : s.parent c = some p :=
  parentInL_of_kid p c s.roots pn h.1 hf hk

/-- PARENT ⇒ CHILD LIST: what `parent` reports for `c` is a live node whose child list holds `c` -/
theorem parent_lists_child (s : St) (h : Inv s) (p c : Nat) (hp : s.parent c = some p) :
    ∃ pn, s.find p = some pn ∧ pn.kids.any (·.id == c) = true :=
  kid_of_parentInL p c s.roots h.1 hp

/-- the two views agree in every reachable state -/
theorem views_agree_after_any_history (d : IDoc) (ops : List Op) (p c : Nat) :
    (run (buildSt d) ops).parent c = some p ↔
    ∃ pn, (run (buildSt d) ops).find p = some pn ∧ pn.kids.any (·.id == c) = true := by
  have h := inv_run (buildSt d) ops (buildSt_inv d)
  exact ⟨parent_lists_child _ h p c, fun ⟨pn, hf, hk⟩ => child_reports_parent _ h p c pn hf hk⟩

/-- a removed node (a root of a detached tree) and the document node have no parent -/
theorem root_has_no_parent (s : St) (h : Inv s) (r : Node) (hr : r ∈ s.roots) : s.parent r.id = none :=
  root_no_parent s.roots h.1 r hr

/-- what `removeChild` hands back is afterwards a detached root, hence without parent -/
theorem removed_node_has_no_parent (s : St) (h : Inv s) (p c : Nat) (hok : (removeChild s p c).2 = .node c) :
    (removeChild s p c).1.parent c = none := by
  have hi' : Inv (removeChild s p c).1 := h.of_sameIds (removeChild_sameIds s p c h)
  rcases removeChild_shape s p c with ⟨e, hs⟩ | ⟨s1, x, hd, heq⟩
  · rw [hs] at hok; cases hok
  · obtain ⟨_, _, hsome, _⟩ := detach_count s s1 c (some x) h.1 hd
    have hid := (hsome x rfl).1
    have hx : x ∈ (removeChild s p c).1.roots := by rw [heq]; simp [St.roots]
    have := root_has_no_parent _ hi' x hx
    rw [hid] at this; exact this

/-- no node lies beneath itself -/
theorem no_node_beneath_itself (s : St) (h : Inv s) (p : Nat) (pn : Node) (hf : s.find p = some pn) :
    p ∉ idsOfL pn.attrs ∧ p ∉ idsOfL pn.kids := by
  have := not_below_itself s.roots h.1 p pn hf
  unfold below at this
  constructor
  · intro hm; have := (mem_idsL_iff p _).mp hm; omega
  · intro hm; have := (mem_idsL_iff p _).mp hm; omega

/-- MOVES: a successful or refused `insertBefore` / `appendChild` / `removeChild` / `replaceChild`
    leaves exactly the nodes that were there — none lost, none duplicated, none invented -/
theorem insert_preserves_nodes (s : St) (h : Inv s) (p c : Nat) (ref : Option Nat) :
    (idsOfL (insertChild s p c ref).1.roots).Perm (idsOfL s.roots) :=
  perm_iff_count.mpr (insertChild_sameIds s p c ref h).2

theorem remove_preserves_nodes (s : St) (h : Inv s) (p c : Nat) :
    (idsOfL (removeChild s p c).1.roots).Perm (idsOfL s.roots) :=
  perm_iff_count.mpr (removeChild_sameIds s p c h).2

theorem replace_preserves_nodes (s : St) (h : Inv s) (p new old : Nat) :
    (idsOfL (step s (.replaceChild p new old)).1.roots).Perm (idsOfL s.roots) :=
  perm_iff_count.mpr (replaceChild_sameIds s p new old h).2

/-! ### at most one document element and one document type -/

/-- ONE STEP keeps both invariants together -/
theorem both_step (s : St) (op : Op) (h : Inv s ∧ DocInv s) : Inv (step s op).1 ∧ DocInv (step s op).1 :=
  ⟨inv_step s op h.1, step_docInv s op h.1 h.2⟩

theorem both_run (s : St) (ops : List Op) (h : Inv s ∧ DocInv s) : Inv (run s ops) ∧ DocInv (run s ops) := by
  induction ops generalizing s with
  | nil => exact h
  | cons op r ih => exact ih _ (both_step s op h)

/-- for every document with at most one document element and one document type (what the parser
    delivers) and every history of DOM operations, successful or refused: the document node still has
    at most one element child and at most one document type child -/
theorem one_element_one_doctype (d : IDoc) (hd : OneRoot d) (ops : List Op) :
    cntK isElemK (run (buildSt d) ops).doc.kids ≤ 1 ∧ cntK isDoctypeK (run (buildSt d) ops).doc.kids ≤ 1 :=
  (both_run (buildSt d) ops ⟨buildSt_inv d, buildSt_docInv d hd⟩).2.2

/-- the hypothesis is met: what `absDocument` builds has at most one element at top level (prolog and
    trailing Misc contribute comments, processing instructions and document types only) -/
theorem parsed_has_at_most_one_element (c : CST) (d : IDoc) (h : absDocument c = .ok d) :
    d.kids.countP isElemTop ≤ 1 := by
  unfold absDocument at h
  simp only at h
  split at h
  · cases h
  · next heads hh =>
    simp only [Except.ok.injEq] at h
    subst h
    simp only [List.countP_append]
    have h1 : ∀ (l : List (Nat × CST)) (xs : List TopItem), absProlog l = .ok xs → xs.countP isElemTop = 0 := by
      intro l
      induction l with
      | nil => intro xs hx; simp [absProlog] at hx; subst hx; rfl
      | cons p r ih =>
        intro xs hx
        obtain ⟨n, b⟩ := p
        simp only [absProlog] at hx
        cases hr : absProlog r with
        | error e => simp [hr] at hx
        | ok ys =>
          have iy := ih ys hr
          simp only [hr] at hx
          split at hx
          · simp only [Except.ok.injEq] at hx
            subst hx
            cases hm : absMisc b with
            | none => simpa using iy
            | some i =>
              simp only [List.countP_cons, iy]
              unfold absMisc at hm
              split at hm
              · split at hm
                · simp at hm; subst hm; rfl
                · split at hm
                  · simp at hm; subst hm; rfl
                  · cases hm
              · cases hm
          · split at hx
            · split at hx
              · cases hx
              · simp only [Except.ok.injEq] at hx; subst hx
                simp [List.countP_cons, iy, isElemTop]
            · simp only [Except.ok.injEq] at hx; subst hx; exact iy
    have h2 : ∀ (l : List CST), (l.filterMap absMisc).countP isElemTop = 0 := by
      intro l
      rw [List.countP_eq_zero]
      intro t ht
      simp only [List.mem_filterMap] at ht
      obtain ⟨b, _, hm⟩ := ht
      unfold absMisc at hm
      split at hm
      · split at hm
        · simp at hm; subst hm; simp [isElemTop]
        · split at hm
          · simp at hm; subst hm; simp [isElemTop]
          · cases hm
      · cases hm
    rw [h1 _ heads hh, h2]
    split <;> simp [List.countP_cons, isElemTop]

def dtCount (l : List (Nat × CST)) : Nat := l.countP (fun p => p.1 == N.doctype_decl)

theorem dtCount_append (a b : List (Nat × CST)) : dtCount (a ++ b) = dtCount a + dtCount b := by
  simp [dtCount, List.countP_append]

/-- a run of `misc` nodes has no document type among its outermost nodes -/
theorem derivesAll_misc_dt (ks : List CST) (h : DerivesAll env (.nt N.misc) ks) : dtCount (kidsLL ks) = 0 := by
  induction ks with
  | nil => simp [kidsLL, dtCount]
  | cons c cs ih =>
    cases h with
    | cons _ _ _ hc hcs =>
      cases hc with
      | nt n b hb =>
        simp only [kidsLL, CST.kidsL, dtCount_append, ih hcs]
        simp [dtCount]; decide

/-- production [22] prolog as translated: at most one document type declaration -/
theorem prolog_one_doctype (p : CST) (h : Derives env (env N.prolog) p) : dtCount p.kidsL ≤ 1 := by
  rw [env_prolog] at h
  unfold Prod.prolog at h
  cases h with
  | seq _ ks hs =>
    cases hs with
    | cons _ _ a r1 ha hs1 =>
      cases hs1 with
      | cons _ _ m r2 hm hs2 =>
        cases hs2 with
        | cons _ _ d r3 hd hs3 =>
          cases hs3
          simp only [CST.kidsL, kidsLL, dtCount_append, List.append_nil]
          -- the XML declaration part
          have h1 : dtCount a.kidsL = 0 := by
            cases ha with
            | alt _ g _ hg hd' =>
              simp only [List.mem_cons, List.mem_singleton, List.not_mem_nil, or_false] at hg
              rcases hg with rfl | rfl
              · cases hd' with
                | nt n b hb => simp [CST.kidsL, dtCount]; decide
              · cases hd' with
                | seq _ ks' hs' => cases hs'; simp [CST.kidsL, kidsLL, dtCount]
          have h2 : dtCount m.kidsL = 0 := by
            cases hm with
            | many _ ks' hall => simpa [CST.kidsL] using derivesAll_misc_dt ks' hall
          have h3 : dtCount d.kidsL ≤ 1 := by
            cases hd with
            | alt _ g _ hg hd' =>
              simp only [List.mem_cons, List.mem_singleton, List.not_mem_nil, or_false] at hg
              rcases hg with rfl | rfl
              · cases hd' with
                | seq _ ks' hs' =>
                  cases hs' with
                  | cons _ _ x r4 hx hs4 =>
                    cases hs4 with
                    | cons _ _ y r5 hy hs5 =>
                      cases hs5
                      cases hx with
                      | nt n b hb =>
                        cases hy with
                        | many _ ks'' hall =>
                          simp only [CST.kidsL, kidsLL, dtCount_append, List.append_nil, derivesAll_misc_dt ks'' hall]
                          simp [dtCount]
              · cases hd' with
                | seq _ ks' hs' => cases hs'; simp [CST.kidsL, kidsLL, dtCount]
          omega

theorem absProlog_doctypes : ∀ (l : List (Nat × CST)) (xs : List TopItem), absProlog l = .ok xs →
    xs.countP isDoctypeTop ≤ dtCount l
  | [], xs, h => by simp [absProlog] at h; subst h; simp [dtCount]
  | (n, b) :: r, xs, h => by
    simp only [absProlog] at h
    cases hr : absProlog r with
    | error e => simp [hr] at h
    | ok ys =>
      have ih := absProlog_doctypes r ys hr
      simp only [hr] at h
      have hc : dtCount ((n, b) :: r) = (if n == N.doctype_decl then 1 else 0) + dtCount r := by
        simp only [dtCount, List.countP_cons]; omega
      rw [hc]
      split at h
      · next hm =>
        have hnd : (n == N.doctype_decl) = false := by
          have : n = N.misc := by simpa using hm
          subst this; decide
        simp only [Except.ok.injEq] at h
        subst h
        cases hmm : absMisc b with
        | none => simp [hnd]; exact ih
        | some i =>
          have hi : isDoctypeTop i = false := by
            unfold absMisc at hmm
            split at hmm
            · split at hmm
              · simp at hmm; subst hmm; rfl
              · split at hmm
                · simp at hmm; subst hmm; rfl
                · cases hmm
            · cases hmm
          simp [List.countP_cons, hi, hnd]; exact ih
      · split at h
        · next hd =>
          split at h
          · cases h
          · simp only [Except.ok.injEq] at h; subst h
            simp [List.countP_cons, isDoctypeTop, hd]; omega
        · next hd =>
          simp only [Except.ok.injEq] at h; subst h
          have : (n == N.doctype_decl) = false := by simpa using hd
          simp [this]; exact ih

/-- what the parser delivers has at most one document element and at most one document type: the
    hypothesis `OneRoot` of `one_element_one_doctype` holds for every parsed document -/
theorem parsed_is_oneRoot (s : Str) (d : IDoc) (rest : Str) (h : parseDoc s = .ok (d, rest)) : OneRoot d := by
  obtain ⟨c, hder, _, habs, _⟩ := C02.accepted_is_derivable env false s d rest h
  refine ⟨parsed_has_at_most_one_element c d habs, ?_⟩
  -- the document body: prolog, element, Misc*
  cases hder with
  | nt _ _ hbody =>
    rw [env_document] at hbody
    unfold Prod.document at hbody
    cases hbody with
    | seq _ ks hs =>
      cases hs with
      | cons _ _ a r1 ha hs1 =>
        cases hs1 with
        | cons _ _ e r2 he hs2 =>
          cases hs2 with
          | cons _ _ m r3 hm hs3 =>
            cases hs3
            cases ha with
            | nt _ p hp =>
              cases he with
              | nt _ eb heb =>
                cases hm with
                | many _ ms hall =>
                  have hp1 := prolog_one_doctype p hp
                  unfold absDocument at habs
                  have hf : findL N.prolog (CST.seq [CST.node N.prolog p, CST.node N.element eb, CST.many ms]).kidsL = some p := by
                    simp [CST.kidsL, kidsLL, findL]
                  simp only [hf] at habs
                  split at habs
                  · cases habs
                  · next heads hh =>
                    simp only [Except.ok.injEq] at habs
                    subst habs
                    have h1 := absProlog_doctypes p.kidsL heads hh
                    have h2 : ∀ (l : List CST), (l.filterMap absMisc).countP isDoctypeTop = 0 := by
                      intro l
                      rw [List.countP_eq_zero]
                      intro t ht
                      simp only [List.mem_filterMap] at ht
                      obtain ⟨b, _, hm'⟩ := ht
                      unfold absMisc at hm'
                      split at hm'
                      · split at hm'
                        · simp at hm'; subst hm'; simp [isDoctypeTop]
                        · split at hm'
                          · simp at hm'; subst hm'; simp [isDoctypeTop]
                          · cases hm'
                      · cases hm'
                    simp only [List.countP_append, h2]
                    split
                    · simp only [List.countP_cons, List.countP_nil, isDoctypeTop, Bool.false_eq_true, if_false]; omega
                    · simp only [List.countP_nil]; omega

/-- the C12 statement for documents as the parser delivers them: no hypothesis left -/
theorem one_element_one_doctype_parsed (s : Str) (d : IDoc) (rest : Str) (h : parseDoc s = .ok (d, rest)) (ops : List Op) :
    cntK isElemK (run (buildSt d) ops).doc.kids ≤ 1 ∧ cntK isDoctypeK (run (buildSt d) ops).doc.kids ≤ 1 :=
  one_element_one_doctype d (parsed_is_oneRoot s d rest h) ops

example : OneRoot ⟨none, none, none, [.comment [], .elem (.elem ⟨none, ['a']⟩ [] [])]⟩ := by
  constructor <;> decide

/-- a node cannot be made a child of itself or of one of its descendants: the call is refused -/
theorem insert_cycle_refused (s s' : St) (p c : Nat) (ref : Option Nat) (r : Dom.Res)
    (h : insertChild s p c ref = (s', r)) (hc : s.isAncestorOrSelf c p = true) : ∃ e, r = .err e := by
  unfold insertChild at h
  repeat' split at h
  all_goals (first
    | (simp only [Prod.mk.injEq] at h; exact ⟨_, h.2.symm⟩)
    | (simp_all))

/-- a refused insertion changes nothing (so the views cannot disagree afterwards) -/
theorem refused_insert_changes_nothing (s s' : St) (p c : Nat) (ref : Option Nat) (e : Exc)
    (h : insertChild s p c ref = (s', .err e)) : s' = s :=
  C13.insertChild_failure_unchanged s s' p c ref e h

-- identities over whole histories (added 2026-09-23)
/-- IDENTITIES ARE NEVER RE-USED OR INVENTED, over any history: the allocation counter never goes back, and an
    identity below the counter occurs afterwards at most as often as it did before (0 stays 0: the slot of a refused
    factory call, or any number never handed out, never turns up in a tree; 1 stays at most 1) -/
theorem identities_never_reused (s : St) (ops : List Op) (h : Inv s) (a : Nat) (ha : a < s.next) :
    s.next ≤ (run s ops).next ∧ cntL a (run s ops).roots ≤ cntL a s.roots := by
  induction ops generalizing s with
  | nil => exact ⟨Nat.le_refl _, Nat.le_refl _⟩
  | cons op r ih =>
    have hg := step_grow s op h
    have hi := inv_step s op h
    obtain ⟨h1, h2⟩ := ih (step s op).1 hi (by have := hg.1; omega)
    have h3 := hg.2 a
    rw [if_neg (by omega)] at h3
    exact ⟨by have := hg.1; show s.next ≤ (run (step s op).1 r).next; omega,
           by show cntL a (run (step s op).1 r).roots ≤ _; omega⟩

/-- a node created during a history is different from every node that existed before it -/
theorem new_nodes_are_new (s : St) (ops : List Op) (h : Inv s) (a : Nat)
    (hnew : cntL a s.roots = 0) (hthere : 0 < cntL a (run s ops).roots) : s.next ≤ a := by
  by_cases ha : a < s.next
  · have := (identities_never_reused s ops h a ha).2; omega
  · omega

/-- histories compose: running `a ++ b` is running `b` from where `a` ended - so every theorem about "any history from a
    state satisfying the invariant" applies at every intermediate point of a longer history -/
theorem run_append (s : St) (a b : List Op) : run s (a ++ b) = run (run s a) b := by
  simp [run, List.foldl_append]

/-- the invariant at EVERY PREFIX of a history, not only at its end -/
theorem inv_at_every_prefix (d : IDoc) (ops : List Op) (k : Nat) : Inv (run (buildSt d) (ops.take k)) :=
  inv_run _ _ (buildSt_inv d)

end XmlRs.C12
