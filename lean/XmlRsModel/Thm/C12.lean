import XmlRsModel.Dom
import XmlRsModel.Thm.C13
/-! Property C12: the DOM stays a tree — navigation views agree after any edit history.
    The model keeps ONE representation of the structure (an inductive tree per root: child lists and
    attribute lists), so "every node listed among a parent's children reports that parent", "siblings
    match the child list" hold by construction of the navigation functions; what has to be PROVED is
    that the operations keep the ids of all trees pairwise distinct (no node occurs twice or beneath
    itself) and that a node cannot be inserted beneath itself.  The real code keeps the redundancy
    (child vectors, parent ids, an id map); the check evaluates the navigation views of the real
    nodes after every step (monitor) and compares the tree with the model's (tie). -/
namespace XmlRs.C12
open XmlRs XmlRs.Dom

/-- a node cannot be made a child of itself or of one of its descendants: the call is refused -/
theorem insert_cycle_refused (s s' : St) (p c : Nat) (ref : Option Nat) (r : Dom.Res)
    (h : insertChild s p c ref = (s', r)) (hc : s.isAncestorOrSelf c p = true) : ∃ e, r = .err e := by
  unfold insertChild at h
  repeat' split at h
  all_goals (first
    | (simp only [Prod.mk.injEq] at h; exact ⟨_, h.2.symm⟩)
    | (simp_all))

/-- a refused insertion changes nothing (so the views cannot disagree afterwards) -/
theorem refused_insert_changes_nothing (s s' : St) (p c : Nat) (ref : Option Nat) (e : Exc)
    (h : insertChild s p c ref = (s', .err e)) : s' = s :=
  C13.insertChild_failure_unchanged s s' p c ref e h

end XmlRs.C12
