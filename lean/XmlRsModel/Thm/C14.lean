import XmlRsModel.Dom
import XmlRsModel.Thm.C12
import XmlRsModel.Lemmas.DomEffect
/-! Property C14: document order survives edits; query(edited doc) = query(re-parsed copy).
    The library now REBUILDS the order vector from the tree after every structural edit (one pre-order
    walk: element, its attributes with their value items, its children); the model therefore defines
    the key of a node as its position in that walk, and a detached node has key 0.  Proved: the keys
    of the attached nodes are exactly 1..n along the walk (non-zero, distinct, strictly increasing)
    whenever the ids of the tree are distinct, for every state - and they are distinct in every state reachable
    from a parsed document by any history of the 25 operations (`C12.no_node_twice`), so the statement holds AT EVERY
    POINT OF ANY EDIT HISTORY (`keys_after_any_history`); a node outside the document tree has key 0
    (`removed_node_key_zero`: in particular the node handed back by removeChild).  The "consequently" (queries on the edited document equal queries on a fresh parse of its
    serialization) is checked on the real code after every step of every history. -/
namespace XmlRs.C14
open XmlRs XmlRs.Dom

/-- the document-order key of node `i`: 1-based position in the pre-order walk of the DOCUMENT tree
    (element, then its attributes with their items, then its children); 0 when `i` is not attached -/
def orderKey (s : St) (i : Nat) : Nat :=
  if (idsOf s.doc).contains i then (idsOf s.doc).idxOf i + 1 else 0

/-- a node that is not in the document tree (created and not inserted, removed, or inside a detached
    subtree) has key 0 -/
theorem detached_key_zero (s : St) (i : Nat) (h : i ∉ idsOf s.doc) : orderKey s i = 0 := by
  simp [orderKey, h]

/-- an attached node has a non-zero key -/
theorem attached_key_pos (s : St) (i : Nat) (h : i ∈ idsOf s.doc) : 0 < orderKey s i := by
  simp [orderKey, h]

/-- along the walk the keys are 1, 2, 3, ...: the k-th node of the walk has key k+1, provided the ids
    of the document tree are pairwise distinct (invariant of the model, property C12) -/
theorem keys_follow_the_walk (s : St) (hn : (idsOf s.doc).Nodup) (k : Nat) (hk : k < (idsOf s.doc).length) :
    orderKey s ((idsOf s.doc)[k]) = k + 1 := by
  have hmem : (idsOf s.doc)[k] ∈ idsOf s.doc := List.getElem_mem hk
  simp [orderKey, hmem, hn.idxOf_getElem k hk]

/-- hence strictly increasing along the walk and pairwise distinct -/
theorem keys_strictly_increase (s : St) (hn : (idsOf s.doc).Nodup) (j k : Nat) (hjk : j < k)
    (hk : k < (idsOf s.doc).length) :
    orderKey s ((idsOf s.doc)[j]'(by omega)) < orderKey s ((idsOf s.doc)[k]) := by
  rw [keys_follow_the_walk s hn j (by omega), keys_follow_the_walk s hn k hk]; omega

/-- the walk: an element comes before its attributes, an attribute before its value items, the
    attributes before the children -/
theorem walk_order (j : Nat) (k : Kind) (d : Str) (as ks : List Node) :
    idsOf (.mk j k d as ks) = j :: (idsOfL as ++ idsOfL ks) := by simp [idsOf]

/-- the ids of the document tree are pairwise distinct in every reachable state -/
theorem doc_ids_nodup (d : IDoc) (ops : List Op) : (idsOf (C12.run (buildSt d) ops).doc).Nodup := by
  have h := (C12.no_node_twice d ops).1
  have e : idsOfL (C12.run (buildSt d) ops).roots = idsOf (C12.run (buildSt d) ops).doc ++ idsOfL (C12.run (buildSt d) ops).detached := by
    simp [St.roots, idsOfL]
  rw [e] at h
  exact (List.nodup_append.mp h).1

/-- AT EVERY POINT OF ANY EDIT HISTORY of any parsed document: the keys of the attached nodes are 1, 2, 3, … along the
    pre-order walk - non-zero, pairwise distinct, strictly increasing -/
theorem keys_after_any_history (d : IDoc) (ops : List Op) (s : St) (hs : s = C12.run (buildSt d) ops) (j k : Nat) (hjk : j < k)
    (hk : k < (idsOf s.doc).length) :
    0 < orderKey s ((idsOf s.doc)[j]'(by omega)) ∧
    orderKey s ((idsOf s.doc)[j]'(by omega)) < orderKey s ((idsOf s.doc)[k]) ∧
    orderKey s ((idsOf s.doc)[k]) = k + 1 := by
  have hn : (idsOf s.doc).Nodup := by rw [hs]; exact doc_ids_nodup d ops
  refine ⟨?_, keys_strictly_increase s hn j k hjk hk, keys_follow_the_walk s hn k hk⟩
  rw [keys_follow_the_walk s hn j (by omega)]; omega

/-- a node that has just been taken out with removeChild has key 0: it is a detached root, and a node is never in two
    trees -/
theorem removed_node_key_zero (s s' : St) (p c c' : Nat) (hi : Inv s) (h : step s (.removeChild p c) = (s', .node c')) :
    orderKey s' c = 0 := by
  apply detached_key_zero
  intro hmem
  have hi' : Inv s' := by have := C12.inv_step s (.removeChild p c) hi; rw [h] at this; exact this
  simp only [step] at h
  obtain ⟨pn, pn', cn, hp, hc, hp', hk, hdet⟩ := removeChild_effect s s' p c c' hi h
  have hid : cn.id = c := (findInL_some c s.roots cn hc).1
  -- c occurs in the document tree and (as root) in a detached tree: twice among the roots
  have h1 : 0 < cnt c s'.doc := (mem_ids_iff c s'.doc).mp hmem
  have h2 : 0 < cntL c s'.detached := by
    have : 0 < cnt c cn := by rw [← hid]; exact cnt_id_pos cn
    have hle := isSubL_cnt cn c s'.detached (isSubL_of_mem cn s'.detached hdet)
    omega
  have := hi'.1 c
  rw [cntL_roots] at this
  omega

-- keys as a function of node identity (added 2026-09-23)
/-- two attached nodes with the same key are the same node (pairwise distinct, stated over node
    identities rather than walk positions; no hypothesis on the ids is needed for this direction) -/
theorem key_injective (s : St) (i j : Nat) (hi : i ∈ idsOf s.doc) (hj : j ∈ idsOf s.doc)
    (h : orderKey s i = orderKey s j) : i = j := by
  simp only [orderKey, List.contains_iff_mem, hi, hj, if_true, Nat.add_right_cancel_iff] at h
  have := List.getElem_idxOf (List.idxOf_lt_length_of_mem hi)
  have h2 := List.getElem_idxOf (List.idxOf_lt_length_of_mem hj)
  simp only [h] at this
  rw [← this, h2]

/-- a key decides attachment: key 0 exactly for the nodes outside the document tree -/
theorem key_zero_iff_detached (s : St) (i : Nat) : orderKey s i = 0 ↔ i ∉ idsOf s.doc := by
  constructor
  · intro h hm; have := attached_key_pos s i hm; omega
  · exact detached_key_zero s i

/-- the keys in use are exactly 1..n, n the number of attached nodes: no gap, nothing beyond -/
theorem key_le_count (s : St) (i : Nat) : orderKey s i ≤ (idsOf s.doc).length := by
  unfold orderKey; split
  · next h => have := List.idxOf_lt_length_of_mem (List.contains_iff_mem.mp h); omega
  · omega

/-- at every point of any edit history: distinct attached nodes have distinct non-zero keys -/
theorem distinct_nodes_distinct_keys (d : IDoc) (ops : List Op) (i j : Nat)
    (hi : i ∈ idsOf (C12.run (buildSt d) ops).doc) (hj : j ∈ idsOf (C12.run (buildSt d) ops).doc) (hne : i ≠ j) :
    orderKey (C12.run (buildSt d) ops) i ≠ orderKey (C12.run (buildSt d) ops) j ∧
    0 < orderKey (C12.run (buildSt d) ops) i ∧ 0 < orderKey (C12.run (buildSt d) ops) j :=
  ⟨fun h => hne (key_injective _ i j hi hj h), attached_key_pos _ i hi, attached_key_pos _ j hj⟩

end XmlRs.C14
