import XmlRsModel.Dom
/-! Property C14: document order survives edits; query(edited doc) = query(re-parsed copy).
    The library now REBUILDS the order vector from the tree after every structural edit (one pre-order
    walk: element, its attributes with their value items, its children); the model therefore defines
    the key of a node as its position in that walk, and a detached node has key 0.  Proved: the keys
    of the attached nodes are exactly 1..n along the walk (non-zero, distinct, strictly increasing)
    whenever the ids of the tree are distinct, for every state; a node outside the document tree has
    key 0.  The "consequently" (queries on the edited document equal queries on a fresh parse of its
    serialization) is checked on the real code after every step of every history. -/
namespace XmlRs.C14
open XmlRs XmlRs.Dom

/-- the document-order key of node `i`: 1-based position in the pre-order walk of the DOCUMENT tree
    (element, then its attributes with their items, then its children); 0 when `i` is not attached -/
def orderKey (s : St) (i : Nat) : Nat :=
  if (idsOf s.doc).contains i then (idsOf s.doc).idxOf i + 1 else 0

/-- a node that is not in the document tree (created and not inserted, removed, or inside a detached
    subtree) has key 0 -/
theorem detached_key_zero (s : St) (i : Nat) (h : i ∉ idsOf s.doc) : orderKey s i = 0 := by
  simp [orderKey, h]

/-- an attached node has a non-zero key -/
theorem attached_key_pos (s : St) (i : Nat) (h : i ∈ idsOf s.doc) : 0 < orderKey s i := by
  simp [orderKey, h]

/-- along the walk the keys are 1, 2, 3, ...: the k-th node of the walk has key k+1, provided the ids
    of the document tree are pairwise distinct (invariant of the model, property C12) -/
theorem keys_follow_the_walk (s : St) (hn : (idsOf s.doc).Nodup) (k : Nat) (hk : k < (idsOf s.doc).length) :
    orderKey s ((idsOf s.doc)[k]) = k + 1 := by
  have hmem : (idsOf s.doc)[k] ∈ idsOf s.doc := List.getElem_mem hk
  simp [orderKey, hmem, hn.idxOf_getElem k hk]

/-- hence strictly increasing along the walk and pairwise distinct -/
theorem keys_strictly_increase (s : St) (hn : (idsOf s.doc).Nodup) (j k : Nat) (hjk : j < k)
    (hk : k < (idsOf s.doc).length) :
    orderKey s ((idsOf s.doc)[j]'(by omega)) < orderKey s ((idsOf s.doc)[k]) := by
  rw [keys_follow_the_walk s hn j (by omega), keys_follow_the_walk s hn k hk]; omega

/-- the walk: an element comes before its attributes, an attribute before its value items, the
    attributes before the children -/
theorem walk_order (j : Nat) (k : Kind) (d : Str) (as ks : List Node) :
    idsOf (.mk j k d as ks) = j :: (idsOfL as ++ idsOfL ks) := by simp [idsOf]

end XmlRs.C14
