import XmlRsModel.XPath.Eval
import XmlRsModel.Lemmas.PegSound
import XmlRsModel.Gen.XPathFuncs
/-! Property C06: XPath parsing and evaluation are total.
    The model's parser is the fuel interpreter of the grammar generated from `xpath/src/expr/mod.rs`;
    its evaluator is defined by structural recursion on the expression (Lean's termination checker
    accepts it: that acceptance IS the termination proof) into `Except XPErr Value` — there is no
    panic outcome to reach.  Stated here: what the unsupported features and the empty selections
    evaluate to, and that a parser answer does not depend on the fuel.
    Not provable on a model (measured by the check): running time and stack use of the real code. -/
namespace XmlRs.C06
open XmlRs XmlRs.XPath
set_option maxRecDepth 100000

/-- a variable reference is reported as an error (class `unsupported`), in any context -/
theorem variable_is_error (env : XPath.Env) (q : QN) (c : Ctx) : eval env (.var q) c = .error .unsupported := by
  simp [eval]

/-- id() is reported as an error when the document has a DOCTYPE (the only case in which it could select
    anything), and is the empty node-set otherwise — whatever its argument evaluates to -/
theorem id_is_error_or_empty (env : XPath.Env) (c : Ctx) (vs : List Value) :
    applyFunc env c "id" vs = (if env.doc.hasDoctype then .error .unsupported else .ok (.nodes [])) := rfl

/-- a call of a function that is not in the core library is an error, not a crash -/
theorem unknown_function_is_error (env : XPath.Env) (c : Ctx) (name : Str) (args : List Expr)
    (h : funcTable.find? (·.1 == String.ofList name) = none) :
    eval env (.call ⟨none, name⟩ args) c = .error .nofunc := by
  simp [eval, h]

/-- a call with too few or too many arguments is an error before any argument is evaluated -/
theorem arity_is_checked (env : XPath.Env) (c : Ctx) (name : Str) (args : List Expr) (lo : Nat) (hi : Option Nat)
    (h : funcTable.find? (·.1 == String.ofList name) = some (String.ofList name, lo, hi))
    (hbad : args.length < lo ∨ (∃ m, hi = some m ∧ args.length > m)) :
    eval env (.call ⟨none, name⟩ args) c = .error .arity := by
  simp only [eval, h]
  rcases hbad with hl | ⟨m, rfl, hm⟩
  · simp [hl]
  · simp [hm]

/-- the table of the core library the model evaluates with IS the table the evaluator's source declares (names, least and
    greatest number of arguments; `Gen/XPathFuncs.lean` is regenerated from xpath/src/eval/func.rs on every run): a function added,
    dropped or given another arity in the source breaks this statement -/
theorem arity_table_is_the_sources : funcTable = Gen.XPathFuncs.table := rfl

/-- a name test with a prefix the caller has not bound is an error -/
theorem unbound_prefix_is_error (env : XPath.Env) (a : Axis) (p l : Str) (k : Key)
    (h : bindingOf env (some p) = none) :
    nodeTest env a (.nsAny p) k = .error .nons ∧
    (kindOf env.doc k = principal a → nodeTest env a (.name ⟨some p, l⟩) k = .error .nons) := by
  constructor
  · simp [nodeTest, h]
  · intro hk; simp [nodeTest, h, hk]

/-- the parent of the root: the empty node-set -/
theorem parent_of_root_empty (d : XDoc) : axisKeys d .parent [] = [] := rfl

/-- the parent of an attribute / of a namespace node: the element that bears it -/
theorem parent_of_attribute_is_owner (d : XDoc) (k : Key) (i : Nat) (hk : k ≠ []) :
    axisKeys d .parent (k ++ [1, i]) = [k] ∧ axisKeys d .parent (k ++ [0, i]) = [k] := by
  constructor <;>
  · simp only [axisKeys, parentKey]
    cases k with
    | nil => exact absurd rfl hk
    | cons x xs =>
      have hl : ∀ c : Nat, (x :: xs ++ [c, i]).length = xs.length + 3 := by intro c; simp
      simp [hl, List.getD_eq_getElem?_getD, List.getElem?_append_right, List.take_append_of_le_length]

/-- the axes never fail: every axis from every node is a list (possibly empty) -/
theorem axis_total (d : XDoc) (a : Axis) (k : Key) : ∃ l : List Key, axisKeys d a k = l := ⟨_, rfl⟩

/-- the answer of the expression parser does not depend on the fuel once it is not `fuel` -/
theorem parse_answer_stable (f f' : Nat) (hle : f ≤ f') (s : Str) (out : Res CST)
    (h : run Gen.XPath.env f (.nt Gen.XPath.N.parse) s = out) (hne : out ≠ .fuel) :
    run Gen.XPath.env f' (.nt Gen.XPath.N.parse) s = out := run_mono_le _ hle h hne

end XmlRs.C06
