import XmlRsModel.Thm.C15
import XmlRsModel.Thm.C18
import XmlRsModel.Lemmas.DomValidStep
import XmlRsModel.Lemmas.AttValueInv
/-! Property C15, the invariant over histories: EVERY node of EVERY tree of a reachable state (the document and all
    detached trees) holds data and a name that passed the library's validity check for its kind - whatever sequence of
    factories, insertions, removals, replacements, attribute operations, data edits, `splitText` and `normalize` led
    there, and whether the calls succeeded or failed.  `Thm/C15.lean` has the single-step facts and the closed forms of
    the validity predicates; here they are combined into what holds of every reachable state, in words:
    no Text node ever holds `<` or `&`, no comment `--` or a trailing `-`, no CDATA section `]]>`, no PI `?>`. -/
namespace XmlRs.C15
open XmlRs XmlRs.Dom Gen.Xml

/-- what a node of kind `k` with data `d` must satisfy.  For Text nodes the weaker `weakText` (only Chars, no `<`, no
    `&`): a Text node inside an attribute value may hold `]]>` and `>`; the stronger `validText` is what every data edit
    checks (`Thm/C15.data_edit_validates_outcome`). -/
def nodeOK : Kind → Str → Bool
  | .text, d => weakText d
  | .comment, d => validComment d
  | .cdata, d => validCData d
  | .pi t, d => validPITarget t && validPI t d
  | .elem n, _ => validQName n
  | .attr n _, _ => validQName n
  | _, _ => true

theorem hasSub_append_left (pat : Str) : ∀ (s t : Str), hasSub pat t = true → hasSub pat (s ++ t) = true
  | [], t, h => h
  | c :: cs, t, h => by
    have ih := hasSub_append_left pat cs t h
    simp only [hasSub, List.cons_append, splitAtSub] at ih ⊢
    cases hs : stripPrefix pat (c :: (cs ++ t)) with
    | some r => rfl
    | none =>
      cases hsp : splitAtSub pat (cs ++ t) with
      | some ab => rfl
      | none => rw [hsp] at ih; cases ih

theorem noSub_parts (pat a b : Str) (h : hasSub pat (a ++ b) = false) : hasSub pat a = false ∧ hasSub pat b = false := by
  constructor
  · cases ha : hasSub pat a with
    | false => rfl
    | true => rw [hasSub_append_right pat a b ha] at h; cases h
  · cases hb : hasSub pat b with
    | false => rfl
    | true => rw [hasSub_append_left pat a b hb] at h; cases h

theorem validText_weak (d : Str) (h : validText d = true) : weakText d = true := by
  rw [validText_iff, Bool.and_eq_true] at h
  simp only [weakText, List.all_eq_true] at h ⊢
  intro c hc
  have := h.1 c hc
  simp only [P.except, Bool.and_eq_true, List.contains_cons, Bool.not_eq_true', Bool.or_eq_false_iff] at this
  simp only [avChar, Bool.and_eq_true, bne_iff_ne, ne_eq]
  refine ⟨⟨this.1, ?_⟩, ?_⟩
  · intro e; subst e; simp at this
  · intro e; subst e; simp at this

theorem dropWhile_eq_drop {α : Type} (p : α → Bool) (l : List α) : ∃ n, l.dropWhile p = l.drop n := by
  induction l with
  | nil => exact ⟨0, rfl⟩
  | cons x r ih =>
    simp only [List.dropWhile]
    split
    · obtain ⟨n, hn⟩ := ih; exact ⟨n + 1, by simp [hn]⟩
    · exact ⟨0, rfl⟩

theorem all_drop (p : Char → Bool) (d : Str) (n : Nat) (h : d.all p = true) : (d.drop n).all p = true := by
  simp only [List.all_eq_true] at h ⊢
  intro c hc; exact h c (List.mem_of_mem_drop hc)

theorem all_take (p : Char → Bool) (d : Str) (n : Nat) (h : d.all p = true) : (d.take n).all p = true := by
  simp only [List.all_eq_true] at h ⊢
  intro c hc; exact h c (List.mem_of_mem_take hc)

/-- the stored PI data (leading white space belongs to the separator) is valid when the supplied data is -/
theorem validPI_stored (t d : Str) (ht : validPITarget t = true) (h : validPI t d = true) : validPI t (storedPIData d) = true := by
  rw [validPI_iff t _ ht, Bool.and_eq_true] at h ⊢
  obtain ⟨n, hn⟩ := dropWhile_eq_drop isWs d
  unfold storedPIData
  rw [hn]
  have hsplit : d = d.take n ++ d.drop n := (List.take_append_drop n d).symm
  refine ⟨all_drop _ d n h.1, ?_⟩
  have h2 := h.2
  simp only [Bool.not_eq_true'] at h2 ⊢
  rw [hsplit] at h2
  exact (noSub_parts _ _ _ h2).2

theorem nodeOK_facts : QFacts nodeOK where
  text := fun d h => validText_weak d h
  comment := fun d h => h
  cdata := fun d h => h
  pi := fun t d ht h => by simp only [nodeOK, Bool.and_eq_true]; exact ⟨ht, validPI_stored t d ht h⟩
  elem := fun n h => h
  attr := fun n sp h => h
  ref := fun n _ _ => rfl
  pieces := fun v ps h p hp => by
    have := parseAttrValue_pieces v ps h p hp
    cases p <;> first | exact this | rfl
  edit := fun k d0 d' h0 hv => by
    cases k with
    | text => exact validText_weak d' hv
    | comment => exact hv
    | cdata => exact hv
    | pi t =>
      simp only [nodeOK, Bool.and_eq_true] at h0 ⊢
      exact ⟨h0.1, validPI_stored t d' h0.1 hv⟩
    | _ => simp [validData] at hv
  split := fun k d off l r hk h hsp => by
    unfold CharData.splitText at hsp
    split at hsp
    · cases hsp
    · simp only [Option.some.injEq, Prod.mk.injEq] at hsp
      obtain ⟨rfl, rfl⟩ := hsp
      rcases hk with rfl | rfl
      · exact ⟨all_take _ d off h, all_drop _ d off h⟩
      · simp only [nodeOK] at h ⊢
        rw [validCData_iff, Bool.and_eq_true] at h
        rw [validCData_iff, validCData_iff, Bool.and_eq_true, Bool.and_eq_true]
        have h2 := h.2
        simp only [Bool.not_eq_true'] at h2 ⊢
        rw [← List.take_append_drop off d] at h2
        have := noSub_parts _ _ _ h2
        exact ⟨⟨all_take _ d off h.1, this.1⟩, all_drop _ d off h.1, this.2⟩

/-- ONE STEP: whatever the operation and whatever it answers, every node still holds validated data -/
theorem step_keeps_valid (s : St) (op : Op) (hi : Inv s) (hv : ValidInv nodeOK s) : ValidInv nodeOK (step s op).1 :=
  step_valid nodeOK_facts s op hi hv

/-- AFTER ANY HISTORY -/
theorem valid_after_any_history (s : St) (ops : List Op) (hi : Inv s) (hv : ValidInv nodeOK s) : ValidInv nodeOK (C12.run s ops) := by
  induction ops generalizing s with
  | nil => exact hv
  | cons op r ih => exact ih _ (C12.inv_step s op hi) (step_keeps_valid s op hi hv)

/-! ### what that means for a node of a reachable state, in closed form -/
/-- a node of any tree of the state -/
def St.has (s : St) (n : Node) : Prop := ∃ i, s.find i = some n

theorem node_is_valid (s : St) (hv : ValidInv nodeOK s) (n : Node) (hn : St.has s n) : nodeOK n.kind n.data = true := by
  obtain ⟨i, hi⟩ := hn
  exact own_Q nodeOK n (found_valid nodeOK s hv i n hi)

/-- NO TEXT NODE of a state reached by any history holds anything but Chars, and never `<` or `&` -/
theorem reachable_text_is_clean (s0 : St) (ops : List Op) (hi : Inv s0) (hv : ValidInv nodeOK s0) (n : Node)
    (hn : St.has (C12.run s0 ops) n) (hk : n.kind = .text) :
    ∀ c ∈ n.data, P.isChar c = true ∧ c ≠ '<' ∧ c ≠ '&' := by
  have := node_is_valid _ (valid_after_any_history s0 ops hi hv) n hn
  rw [hk] at this
  simp only [nodeOK, weakText, List.all_eq_true] at this
  intro c hc
  have h := this c hc
  simp only [avChar, Bool.and_eq_true, bne_iff_ne, ne_eq] at h
  exact ⟨h.1.1, h.1.2, h.2⟩

/-- NO COMMENT of a reachable state holds `--` or ends in `-`: its data is a body of production [15] -/
theorem reachable_comment_is_production15 (s0 : St) (ops : List Op) (hi : Inv s0) (hv : ValidInv nodeOK s0) (n : Node)
    (hn : St.has (C12.run s0 ops) n) (hk : n.kind = .comment) : isCommentBody n.data = true := by
  have := node_is_valid _ (valid_after_any_history s0 ops hi hv) n hn
  rw [hk] at this
  simpa [nodeOK, validComment_iff] using this

/-- NO CDATA SECTION of a reachable state holds `]]>` -/
theorem reachable_cdata_has_no_terminator (s0 : St) (ops : List Op) (hi : Inv s0) (hv : ValidInv nodeOK s0) (n : Node)
    (hn : St.has (C12.run s0 ops) n) (hk : n.kind = .cdata) :
    n.data.all P.isChar = true ∧ hasSub [']', ']', '>'] n.data = false := by
  have := node_is_valid _ (valid_after_any_history s0 ops hi hv) n hn
  rw [hk] at this
  simp only [nodeOK, validCData_iff, Bool.and_eq_true, Bool.not_eq_true'] at this
  exact this

/-- NO PROCESSING INSTRUCTION of a reachable state has a target that is not a Name or is `xml`, or data holding `?>` -/
theorem reachable_pi_is_wellformed (s0 : St) (ops : List Op) (hi : Inv s0) (hv : ValidInv nodeOK s0) (n : Node) (t : Str)
    (hn : St.has (C12.run s0 ops) n) (hk : n.kind = .pi t) :
    isName t = true ∧ P.eqIgnoreAsciiCase t xmlS = false ∧ n.data.all P.isChar = true ∧ hasSub ['?', '>'] n.data = false := by
  have := node_is_valid _ (valid_after_any_history s0 ops hi hv) n hn
  rw [hk] at this
  simp only [nodeOK, Bool.and_eq_true] at this
  obtain ⟨ht, hd⟩ := this
  rw [validPI_iff t _ ht, Bool.and_eq_true, Bool.not_eq_true'] at hd
  rw [validPITarget_iff, Bool.and_eq_true, Bool.not_eq_true'] at ht
  exact ⟨ht.1, ht.2, hd.1, hd.2⟩

/-- every element and attribute of a reachable state has a name the `qname` production accepts -/
theorem reachable_names_are_qnames (s0 : St) (ops : List Op) (hi : Inv s0) (hv : ValidInv nodeOK s0) (n : Node)
    (hn : St.has (C12.run s0 ops) n) :
    (∀ nm, n.kind = .elem nm → validQName nm = true) ∧ (∀ nm sp, n.kind = .attr nm sp → validQName nm = true) := by
  have := node_is_valid _ (valid_after_any_history s0 ops hi hv) n hn
  constructor
  · intro nm hk; rw [hk] at this; exact this
  · intro nm sp hk; rw [hk] at this; exact this

/-! ### the initial state: a document whose items are valid (decidable; evaluated on every parsed document of a run) -/
theorem mkItems_ok (ps : List Piece) (next : Nat) (h : ps.all pieceOK = true) : allQL nodeOK (mkItems next ps).1 = true := by
  refine mkItems_allQ ps next (fun p hp => ?_)
  have := (List.all_eq_true.mp h) p hp
  cases p <;> first | exact this | rfl

theorem buildAttrs_ok : ∀ (as : List Attr) (next : Nat), as.all attrOK = true → allQL nodeOK (buildAttrs next as).1 = true
  | [], _, _ => by simp [buildAttrs, allQL]
  | a :: r, next, h => by
    simp only [List.all_cons, Bool.and_eq_true] at h
    unfold buildAttrs
    split
    · exact buildAttrs_ok r next h.2
    · simp only [attrOK, Bool.and_eq_true] at h
      simp only [allQL_cons, allQ_mk, allQL, Bool.and_true, Bool.and_eq_true]
      exact ⟨⟨h.1.1, mkItems_ok _ _ h.1.2⟩, buildAttrs_ok r _ h.2⟩

mutual
theorem buildNode_ok : (next : Nat) → (i : Item) → itemOK i = true → allQ nodeOK (buildNode next i).1 = true
  | next, .text s, h => by simpa [buildNode, allQ_mk, allQL, nodeOK, itemOK] using h
  | next, .cdata s, h => by simpa [buildNode, allQ_mk, allQL, nodeOK, itemOK] using h
  | next, .comment s, h => by simpa [buildNode, allQ_mk, allQL, nodeOK, itemOK] using h
  | next, .pi t d, h => by simpa [buildNode, allQ_mk, allQL, nodeOK, itemOK] using h
  | next, .charRef d hx, _ => by simp [buildNode, allQ_mk, allQL, nodeOK]
  | next, .entRef n, _ => by simp [buildNode, allQ_mk, allQL, nodeOK]
  | next, .elem q attrs kids, h => by
    simp only [itemOK, Bool.and_eq_true] at h
    have h1 := buildAttrs_ok attrs (next + 1) h.1.2
    have h2 := buildNodes_ok (buildAttrs (next + 1) attrs).2 kids h.2
    simp only [buildNode, allQ_mk, Bool.and_eq_true, nodeOK]
    exact ⟨⟨h.1.1, h1⟩, h2⟩
theorem buildNodes_ok : (next : Nat) → (l : List Item) → itemsOK l = true → allQL nodeOK (buildNodes next l).1 = true
  | next, [], _ => by simp [buildNodes, allQL]
  | next, k :: r, h => by
    simp only [itemsOK, Bool.and_eq_true] at h
    simp only [buildNodes, allQL_cons, Bool.and_eq_true]
    exact ⟨buildNode_ok next k h.1, buildNodes_ok _ r h.2⟩
end

theorem buildTops_ok : ∀ (next : Nat) (l : List TopItem), l.all topOK = true → allQL nodeOK (buildTops next l).1 = true
  | next, [], _ => by simp [buildTops, allQL]
  | next, t :: r, h => by
    simp only [List.all_cons, Bool.and_eq_true] at h
    simp only [buildTops, allQL_cons, Bool.and_eq_true]
    refine ⟨?_, buildTops_ok _ r h.2⟩
    cases t with
    | elem e => exact buildNode_ok next e h.1
    | comment s => simpa [buildTop, allQ_mk, allQL, nodeOK, topOK] using h.1
    | pi tg d => simpa [buildTop, allQ_mk, allQL, nodeOK, topOK] using h.1
    | doctype dt => simp [buildTop, allQ_mk, allQL, nodeOK]

theorem buildSt_valid (d : IDoc) (h : docOK d = true) : ValidInv nodeOK (buildSt d) := by
  rw [validInv_iff]
  simp only [buildSt, allQ_mk, allQL, nodeOK, Bool.true_and, Bool.and_eq_true, and_true]
  exact buildTops_ok 1 d.kids h

/-- FROM A DOCUMENT: start from any document whose items are valid (every parsed document of every run is checked to be),
    apply any sequence of DOM operations: every node of the document tree and of every detached tree holds validated data -/
theorem document_stays_valid (d : IDoc) (ops : List Op) (h : docOK d = true) : ValidInv nodeOK (C12.run (buildSt d) ops) :=
  valid_after_any_history (buildSt d) ops (buildSt_inv d) (buildSt_valid d h)

/-! ### names, in closed form: exactly the QNames of Namespaces in XML [7] -/
theorem validQName_iff (s : Str) : validQName s = Spec.isQName s := by
  rw [← C18.qname_accepts_iff, C18.matchesAll_qname]
  unfold validQName fullMatch
  have hf : 100000 + 64 * s.length = (99988 + 64 * s.length) + 12 := by omega
  rw [hf]
  have h := Names.qname_run_rest (99988 + 64 * s.length) s
  revert h
  cases run env (99988 + 64 * s.length + 12) (.nt N.qname) s with
  | ok c r =>
    intro h
    cases hq : Names.qnameP s with
    | none => simp [hq] at h
    | some ar =>
      obtain ⟨a, r'⟩ := ar
      simp only [hq, Option.map_some, Option.some.injEq] at h
      subst h
      cases r <;> rfl
  | fail =>
    intro h
    cases hq : Names.qnameP s with
    | none => rfl
    | some ar => simp [hq] at h
  | fuel =>
    intro h
    cases hq : Names.qnameP s with
    | none => rfl
    | some ar => simp [hq] at h

/-- every element and attribute of a reachable state is named by a QName: an NCName, or two NCNames around one colon -/
theorem reachable_names_are_QNames (s0 : St) (ops : List Op) (hi : Inv s0) (hv : ValidInv nodeOK s0) (n : Node)
    (hn : St.has (C12.run s0 ops) n) :
    (∀ nm, n.kind = .elem nm → Spec.isQName nm = true) ∧ (∀ nm sp, n.kind = .attr nm sp → Spec.isQName nm = true) := by
  have h := reachable_names_are_qnames s0 ops hi hv n hn
  exact ⟨fun nm hk => by rw [← validQName_iff]; exact h.1 nm hk, fun nm sp hk => by rw [← validQName_iff]; exact h.2 nm sp hk⟩

/-! ### the hypothesis is satisfiable: a document with every kind of item, an attribute value holding `]]>` and a reference -/
def exDoc : IDoc := { (default : IDoc) with kids := [.comment ['c'], .elem (.elem ⟨none, ['r']⟩ [⟨⟨some ['p'], ['a']⟩, [.text ['x', ']', ']', '>'], .entRef ['l', 't']]⟩]
  [.text ['t'], .comment ['-', 'c'], .cdata [']', ']'], .pi ['p'] (some ['d', '?']), .elem ⟨none, ['e']⟩ [] []])] }

example : docOK exDoc = true := by
  have hp : validPITarget ['p'] = true := by rw [validPITarget_iff]; decide
  simp only [docOK, exDoc, List.all_cons, List.all_nil, topOK, itemOK, itemsOK, attrOK, pieceOK, QN.text, Option.getD, validComment_iff,
    validCData_iff, hp, validPI_iff _ _ hp, validQName_iff]
  decide +kernel

end XmlRs.C15
