import XmlRsModel.Chars
import XmlRsModel.Gen.CharTables
import XmlRsModel.Lemmas.Names
/-! Property C18, part 1: the five character classes of the running code (extracted exhaustively,
    `Gen.CharTables`) agree with productions [2] [4] [4a] [13] [81] for EVERY natural number, hence
    for every Unicode scalar value.  Re-proved on every run against the freshly extracted tables. -/
namespace XmlRs.C18

set_option maxRecDepth 8000

theorem isChar_spec : ∀ c : Nat, Gen.isChar c = Spec.isChar c := by
  intro c
  simp only [Gen.isChar, Spec.isChar, Gen.charRuns, Spec.charRanges, inRanges, Bool.or_false]
  try (rw [Bool.eq_iff_iff]; simp only [Bool.or_eq_true, Bool.and_eq_true, decide_eq_true_eq]; omega)

theorem isNameStartChar_spec : ∀ c : Nat, Gen.isNameStartChar c = Spec.isNameStartChar c := by
  intro c
  simp only [Gen.isNameStartChar, Spec.isNameStartChar, Gen.nameStartRuns, Spec.nameStartRanges,
    inRanges, Bool.or_false]
  try (rw [Bool.eq_iff_iff]; simp only [Bool.or_eq_true, Bool.and_eq_true, decide_eq_true_eq]; omega)

theorem isNameChar_spec : ∀ c : Nat, Gen.isNameChar c = Spec.isNameChar c := by
  intro c
  simp only [Gen.isNameChar, Spec.isNameChar, Gen.nameCharRuns, Spec.nameCharRanges,
    Spec.nameStartRanges, inRanges, List.cons_append, List.nil_append, Bool.or_false]
  try (rw [Bool.eq_iff_iff]; simp only [Bool.or_eq_true, Bool.and_eq_true, decide_eq_true_eq]; omega)

theorem isPubidChar_spec : ∀ c : Nat, Gen.isPubidChar c = Spec.isPubidChar c := by
  intro c
  simp only [Gen.isPubidChar, Spec.isPubidChar, Gen.pubidRuns, Spec.pubidRanges, inRanges,
    Bool.or_false]
  try (rw [Bool.eq_iff_iff]; simp only [Bool.or_eq_true, Bool.and_eq_true, decide_eq_true_eq]; omega)

theorem isEncNameChar_spec : ∀ c : Nat, Gen.isEncNameChar c = Spec.isEncNameChar c := by
  intro c
  simp only [Gen.isEncNameChar, Spec.isEncNameChar, Gen.encNameRuns, Spec.encNameRanges, inRanges,
    Bool.or_false]
  try (rw [Bool.eq_iff_iff]; simp only [Bool.or_eq_true, Bool.and_eq_true, decide_eq_true_eq]; omega)

-- non-vacuity: the classes are neither empty nor everything
example : Gen.isNameStartChar 0x2FEF = true ∧ Gen.isNameStartChar 0x30 = false ∧
    Gen.isNameChar 0x30 = true ∧ Gen.isChar 0xFFFE = false ∧ Gen.isChar 0x10FFFF = true := by decide

/-! Part 2: the names accepted by the (generated) productions are exactly the strings the
    Recommendations describe.  `Names.matchesAll n s` runs production `n` of the grammar translated
    from the Rust source on `s` and demands that everything is consumed. -/
open Names Gen.Xml

theorem P_nameStart (c : Char) : P.isNameStartChar c = Spec.isNameStartChar c.toNat := isNameStartChar_spec _
theorem P_nameChar (c : Char) : P.isNameChar c = Spec.isNameChar c.toNat := isNameChar_spec _

theorem matchesAll_ncname (s : Str) :
    matchesAll N.ncname s = (match ncnameP s with | some (_, []) => true | _ => false) := by
  unfold matchesAll
  show (match run env (39+1) (.nt N.ncname) s with | .ok _ [] => true | _ => false) = _
  simp only [run]
  rw [show (39 : Nat) = 34 + 5 from rfl, ncname_body]
  cases h : ncnameP s with
  | none => simp
  | some ar => obtain ⟨a, r⟩ := ar; cases r <;> simp

theorem all_ncRest (cs : Str) : cs.all ncRest = (cs.all P.isNameChar && !cs.contains ':') := by
  induction cs with
  | nil => simp
  | cons d cs ih =>
    simp only [List.all_cons, ih, List.contains_cons, ncRest, P.except]
    rw [Bool.eq_iff_iff]
    simp only [Bool.and_eq_true, Bool.not_eq_true', Bool.or_eq_false_iff, List.contains_nil,
      Bool.or_false, beq_eq_false_iff_ne, ne_eq]
    constructor
    · rintro ⟨⟨h1, h2⟩, h3, h4⟩; exact ⟨⟨h1, h3⟩, fun h => h2 h.symm, h4⟩
    · rintro ⟨⟨h1, h3⟩, h2, h4⟩; exact ⟨⟨h1, fun h => h2 h.symm⟩, h3, h4⟩

/-- C18: the strings accepted as NCName are exactly Names without a colon (Namespaces [4]) -/
theorem ncname_accepts_iff (s : Str) : matchesAll N.ncname s = Spec.isNCName s := by
  rw [matchesAll_ncname]
  cases s with
  | nil => simp [ncnameP, Spec.isNCName, Spec.isName]
  | cons c cs =>
    simp only [ncnameP, Spec.isNCName, Spec.isName, List.contains_cons]
    by_cases h1 : (c != ':' && P.isNameStartChar c) = true
    · simp only [h1, ite_true]
      have hrest : (match (spanP ncRest cs).2 with | [] => true | _ => false) = cs.all ncRest := by
        rw [Bool.eq_iff_iff, ← spanP_rest_nil_iff]
        cases (spanP ncRest cs).2 <;> simp
      have hsplit : (match (some (c :: (spanP ncRest cs).1, (spanP ncRest cs).2) : Option (Str × Str)) with
          | some (_, []) => true | _ => false) = (match (spanP ncRest cs).2 with | [] => true | _ => false) := by
        cases (spanP ncRest cs).2 <;> rfl
      rw [hsplit, hrest, all_ncRest]
      simp only [Bool.and_eq_true, bne_iff_ne, ne_eq] at h1
      have hc : (':' == c) = false := by simp [Ne.symm h1.1]
      have hfun : P.isNameChar = fun d => Spec.isNameChar d.toNat := funext P_nameChar
      rw [← P_nameStart, h1.2, hc, hfun]
      simp
    · simp only [h1]
      simp only [Bool.and_eq_true, bne_iff_ne, ne_eq, not_and, Bool.not_eq_true] at h1
      by_cases hc : c = ':'
      · subst hc; simp
      · have := h1 hc; rw [P_nameStart] at this; simp [this]

theorem matchesAll_name (s : Str) :
    matchesAll N.name s = (match (spanP P.isNameChar (spanP P.isNameStartChar s).2).2 with | [] => true | _ => false) := by
  unfold matchesAll
  have h := name_run_rest 34 s
  revert h
  show (match run env 40 (.nt N.name) s with | .ok _ r => some r | _ => none) = _ → _
  cases run env 40 (.nt N.name) s with
  | ok c r =>
    intro h; simp only [Option.some.injEq] at h; subst h
    cases (spanP P.isNameChar (spanP P.isNameStartChar s).2).2 <;> rfl
  | fail => intro h; cases h
  | fuel => intro h; cases h

theorem nameStart_sub_nameChar (c : Char) : P.isNameStartChar c = true → P.isNameChar c = true := by
  rw [P_nameStart, P_nameChar]
  simp only [Spec.isNameStartChar, Spec.isNameChar, Spec.nameCharRanges]
  generalize Spec.nameStartRanges = rs
  induction rs with
  | nil => simp [inRanges]
  | cons r rs ih => obtain ⟨lo, hi⟩ := r; simp only [inRanges, List.cons_append, Bool.or_eq_true]; rintro (h | h); exact .inl h; exact .inr (ih h)

theorem all_of_span_span (s : Str) :
    (spanP P.isNameChar (spanP P.isNameStartChar s).2).2 = [] ↔ s.all P.isNameChar = true := by
  induction s with
  | nil => simp [spanP]
  | cons c cs ih =>
    by_cases h : P.isNameStartChar c = true
    · simp [spanP, h, ih, nameStart_sub_nameChar c h]
    · rw [show spanP P.isNameStartChar (c :: cs) = ([], c :: cs) by simp [spanP, h]]
      exact spanP_rest_nil_iff _ _

/-- C18, what the code does today for production [5] Name (used for PI targets, entity names and
    notation names): `NameStartChar* NameChar*`, i.e. ANY possibly empty run of NameChars.
    The pinned test-suite uses the entity name `1`, so this cannot be repaired without editing a
    test; it is listed in KNOWN_FINDINGS.txt as `name-lax`. -/
theorem name_current_behaviour (s : Str) : matchesAll N.name s = s.all P.isNameChar := by
  rw [matchesAll_name, Bool.eq_iff_iff, ← all_of_span_span]
  cases (spanP P.isNameChar (spanP P.isNameStartChar s).2).2 <;> simp

/-- completeness direction of the full statement: every Name is accepted -/
theorem name_accepts_partial (s : Str) (h : Spec.isName s = true) : matchesAll N.name s = true := by
  rw [name_current_behaviour]
  cases s with
  | nil => simp [Spec.isName] at h
  | cons c cs =>
    simp only [Spec.isName, Bool.and_eq_true] at h
    have hfun : P.isNameChar = fun d => Spec.isNameChar d.toNat := funext P_nameChar
    simp only [List.all_cons, Bool.and_eq_true]
    exact ⟨nameStart_sub_nameChar c (by rw [P_nameStart]; exact h.1), by rw [hfun]; exact h.2⟩

/-- witness for the known finding `name-lax`: `1` and the empty string are accepted as Names -/
theorem name_lax_witness : matchesAll N.name ['1'] = true ∧ Spec.isName ['1'] = false ∧
    matchesAll N.name [] = true ∧ Spec.isName [] = false :=
  ⟨by rw [name_current_behaviour]; decide, by decide, by rw [name_current_behaviour]; rfl, rfl⟩

/-- C18: Nmtoken [7] is exactly a non-empty run of NameChars -/
theorem nmtoken_accepts_iff (s : Str) : matchesAll N.nmtoken s = Spec.isNmtoken s := by
  unfold matchesAll
  have h := nmtoken_run_rest 36 s
  revert h
  show (match run env 40 (.nt N.nmtoken) s with | .ok _ r => some r | _ => none) = _ → _
  have hfun : P.isNameChar = fun d => Spec.isNameChar d.toNat := funext P_nameChar
  cases s with
  | nil => cases run env 40 (.nt N.nmtoken) [] <;> simp [spanP, Spec.isNmtoken]
  | cons c cs =>
    simp only [Spec.isNmtoken, List.isEmpty_cons, Bool.not_false, Bool.true_and, ← hfun]
    cases hr : run env 40 (.nt N.nmtoken) (c :: cs) with
    | ok t r =>
      simp only
      split
      · intro h; cases h
      · next hne =>
        intro h; simp only [Option.some.injEq] at h; subst h
        rw [Bool.eq_iff_iff, ← spanP_rest_nil_iff]
        cases (spanP P.isNameChar (c :: cs)).2 <;> simp
    | fail =>
      simp only
      split
      · next he =>
        intro _
        have : P.isNameChar c = false := by
          simp only [spanP] at he; split at he <;> simp_all
        simp [this]
      · intro h; cases h
    | fuel =>
      simp only
      split
      · next he =>
        intro _
        have : P.isNameChar c = false := by
          simp only [spanP] at he; split at he <;> simp_all
        simp [this]
      · intro h; cases h

end XmlRs.C18
