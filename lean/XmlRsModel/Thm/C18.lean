import XmlRsModel.Chars
import XmlRsModel.Gen.CharTables
import XmlRsModel.Lemmas.Names
/-! Property C18, part 1: the five character classes of the running code (extracted exhaustively,
    `Gen.CharTables`) agree with productions [2] [4] [4a] [13] [81] for EVERY natural number, hence
    for every Unicode scalar value.  Re-proved on every run against the freshly extracted tables. -/
namespace XmlRs.C18

set_option maxRecDepth 8000

theorem isChar_spec : ∀ c : Nat, Gen.isChar c = Spec.isChar c := by
  intro c
  simp only [Gen.isChar, Spec.isChar, Gen.charRuns, Spec.charRanges, inRanges, Bool.or_false]
  try (rw [Bool.eq_iff_iff]; simp only [Bool.or_eq_true, Bool.and_eq_true, decide_eq_true_eq]; omega)

theorem isNameStartChar_spec : ∀ c : Nat, Gen.isNameStartChar c = Spec.isNameStartChar c := by
  intro c
  simp only [Gen.isNameStartChar, Spec.isNameStartChar, Gen.nameStartRuns, Spec.nameStartRanges,
    inRanges, Bool.or_false]
  try (rw [Bool.eq_iff_iff]; simp only [Bool.or_eq_true, Bool.and_eq_true, decide_eq_true_eq]; omega)

theorem isNameChar_spec : ∀ c : Nat, Gen.isNameChar c = Spec.isNameChar c := by
  intro c
  simp only [Gen.isNameChar, Spec.isNameChar, Gen.nameCharRuns, Spec.nameCharRanges,
    Spec.nameStartRanges, inRanges, List.cons_append, List.nil_append, Bool.or_false]
  try (rw [Bool.eq_iff_iff]; simp only [Bool.or_eq_true, Bool.and_eq_true, decide_eq_true_eq]; omega)

theorem isPubidChar_spec : ∀ c : Nat, Gen.isPubidChar c = Spec.isPubidChar c := by
  intro c
  simp only [Gen.isPubidChar, Spec.isPubidChar, Gen.pubidRuns, Spec.pubidRanges, inRanges,
    Bool.or_false]
  try (rw [Bool.eq_iff_iff]; simp only [Bool.or_eq_true, Bool.and_eq_true, decide_eq_true_eq]; omega)

theorem isEncNameChar_spec : ∀ c : Nat, Gen.isEncNameChar c = Spec.isEncNameChar c := by
  intro c
  simp only [Gen.isEncNameChar, Spec.isEncNameChar, Gen.encNameRuns, Spec.encNameRanges, inRanges,
    Bool.or_false]
  try (rw [Bool.eq_iff_iff]; simp only [Bool.or_eq_true, Bool.and_eq_true, decide_eq_true_eq]; omega)

-- non-vacuity: the classes are neither empty nor everything
example : Gen.isNameStartChar 0x2FEF = true ∧ Gen.isNameStartChar 0x30 = false ∧
    Gen.isNameChar 0x30 = true ∧ Gen.isChar 0xFFFE = false ∧ Gen.isChar 0x10FFFF = true := by decide

/-! Part 2: the names accepted by the (generated) productions are exactly the strings the
    Recommendations describe.  `Names.matchesAll n s` runs production `n` of the grammar translated
    from the Rust source on `s` and demands that everything is consumed. -/
open Names Gen.Xml

theorem P_nameStart (c : Char) : P.isNameStartChar c = Spec.isNameStartChar c.toNat := isNameStartChar_spec _
theorem P_nameChar (c : Char) : P.isNameChar c = Spec.isNameChar c.toNat := isNameChar_spec _

theorem matchesAll_ncname (s : Str) :
    matchesAll N.ncname s = (match ncnameP s with | some (_, []) => true | _ => false) := by
  unfold matchesAll
  show (match run env (39+1) (.nt N.ncname) s with | .ok _ [] => true | _ => false) = _
  simp only [run]
  rw [show (39 : Nat) = 34 + 5 from rfl, ncname_body]
  cases h : ncnameP s with
  | none => simp
  | some ar => obtain ⟨a, r⟩ := ar; cases r <;> simp

theorem all_ncRest (cs : Str) : cs.all ncRest = (cs.all P.isNameChar && !cs.contains ':') := by
  induction cs with
  | nil => simp
  | cons d cs ih =>
    simp only [List.all_cons, ih, List.contains_cons, ncRest, P.except]
    rw [Bool.eq_iff_iff]
    simp only [Bool.and_eq_true, Bool.not_eq_true', Bool.or_eq_false_iff, List.contains_nil,
      Bool.or_false, beq_eq_false_iff_ne, ne_eq]
    constructor
    · rintro ⟨⟨h1, h2⟩, h3, h4⟩; exact ⟨⟨h1, h3⟩, fun h => h2 h.symm, h4⟩
    · rintro ⟨⟨h1, h3⟩, h2, h4⟩; exact ⟨⟨h1, fun h => h2 h.symm⟩, h3, h4⟩

/-- C18: the strings accepted as NCName are exactly Names without a colon (Namespaces [4]) -/
theorem ncname_accepts_iff (s : Str) : matchesAll N.ncname s = Spec.isNCName s := by
  rw [matchesAll_ncname]
  cases s with
  | nil => simp [ncnameP, Spec.isNCName, Spec.isName]
  | cons c cs =>
    simp only [ncnameP, Spec.isNCName, Spec.isName, List.contains_cons]
    by_cases h1 : (c != ':' && P.isNameStartChar c) = true
    · simp only [h1, ite_true]
      have hrest : (match (spanP ncRest cs).2 with | [] => true | _ => false) = cs.all ncRest := by
        rw [Bool.eq_iff_iff, ← spanP_rest_nil_iff]
        cases (spanP ncRest cs).2 <;> simp
      have hsplit : (match (some (c :: (spanP ncRest cs).1, (spanP ncRest cs).2) : Option (Str × Str)) with
          | some (_, []) => true | _ => false) = (match (spanP ncRest cs).2 with | [] => true | _ => false) := by
        cases (spanP ncRest cs).2 <;> rfl
      rw [hsplit, hrest, all_ncRest]
      simp only [Bool.and_eq_true, bne_iff_ne, ne_eq] at h1
      have hc : (':' == c) = false := by simp [Ne.symm h1.1]
      have hfun : P.isNameChar = fun d => Spec.isNameChar d.toNat := funext P_nameChar
      rw [← P_nameStart, h1.2, hc, hfun]
      simp
    · simp only [h1]
      simp only [Bool.and_eq_true, bne_iff_ne, ne_eq, not_and, Bool.not_eq_true] at h1
      by_cases hc : c = ':'
      · subst hc; simp
      · have := h1 hc; rw [P_nameStart] at this; simp [this]

theorem matchesAll_name (s : Str) :
    matchesAll N.name s = (match (spanP P.isNameChar (spanP P.isNameStartChar s).2).2 with | [] => true | _ => false) := by
  unfold matchesAll
  have h := name_run_rest 34 s
  revert h
  show (match run env 40 (.nt N.name) s with | .ok _ r => some r | _ => none) = _ → _
  cases run env 40 (.nt N.name) s with
  | ok c r =>
    intro h; simp only [Option.some.injEq] at h; subst h
    cases (spanP P.isNameChar (spanP P.isNameStartChar s).2).2 <;> rfl
  | fail => intro h; cases h
  | fuel => intro h; cases h

theorem nameStart_sub_nameChar (c : Char) : P.isNameStartChar c = true → P.isNameChar c = true := by
  rw [P_nameStart, P_nameChar]
  simp only [Spec.isNameStartChar, Spec.isNameChar, Spec.nameCharRanges]
  generalize Spec.nameStartRanges = rs
  induction rs with
  | nil => simp [inRanges]
  | cons r rs ih => obtain ⟨lo, hi⟩ := r; simp only [inRanges, List.cons_append, Bool.or_eq_true]; rintro (h | h); exact .inl h; exact .inr (ih h)

theorem all_of_span_span (s : Str) :
    (spanP P.isNameChar (spanP P.isNameStartChar s).2).2 = [] ↔ s.all P.isNameChar = true := by
  induction s with
  | nil => simp [spanP]
  | cons c cs ih =>
    by_cases h : P.isNameStartChar c = true
    · simp [spanP, h, ih, nameStart_sub_nameChar c h]
    · rw [show spanP P.isNameStartChar (c :: cs) = ([], c :: cs) by simp [spanP, h]]
      exact spanP_rest_nil_iff _ _

/-- C18, what the code does today for production [5] Name (used for PI targets, entity names and
    notation names): `NameStartChar* NameChar*`, i.e. ANY possibly empty run of NameChars.
    The pinned test-suite uses the entity name `1`, so this cannot be repaired without editing a
    test; it is listed in KNOWN_FINDINGS.txt as `name-lax`. -/
theorem name_current_behaviour (s : Str) : matchesAll N.name s = s.all P.isNameChar := by
  rw [matchesAll_name, Bool.eq_iff_iff, ← all_of_span_span]
  cases (spanP P.isNameChar (spanP P.isNameStartChar s).2).2 <;> simp

/-- completeness direction of the full statement: every Name is accepted -/
theorem name_accepts_partial (s : Str) (h : Spec.isName s = true) : matchesAll N.name s = true := by
  rw [name_current_behaviour]
  cases s with
  | nil => simp [Spec.isName] at h
  | cons c cs =>
    simp only [Spec.isName, Bool.and_eq_true] at h
    have hfun : P.isNameChar = fun d => Spec.isNameChar d.toNat := funext P_nameChar
    simp only [List.all_cons, Bool.and_eq_true]
    exact ⟨nameStart_sub_nameChar c (by rw [P_nameStart]; exact h.1), by rw [hfun]; exact h.2⟩

/-- witness for the known finding `name-lax`: `1` and the empty string are accepted as Names -/
theorem name_lax_witness : matchesAll N.name ['1'] = true ∧ Spec.isName ['1'] = false ∧
    matchesAll N.name [] = true ∧ Spec.isName [] = false :=
  ⟨by rw [name_current_behaviour]; decide, by decide, by rw [name_current_behaviour]; rfl, rfl⟩

/-- C18: Nmtoken [7] is exactly a non-empty run of NameChars -/
theorem nmtoken_accepts_iff (s : Str) : matchesAll N.nmtoken s = Spec.isNmtoken s := by
  unfold matchesAll
  have h := nmtoken_run_rest 36 s
  revert h
  show (match run env 40 (.nt N.nmtoken) s with | .ok _ r => some r | _ => none) = _ → _
  have hfun : P.isNameChar = fun d => Spec.isNameChar d.toNat := funext P_nameChar
  cases s with
  | nil => cases run env 40 (.nt N.nmtoken) [] <;> simp [spanP, Spec.isNmtoken]
  | cons c cs =>
    simp only [Spec.isNmtoken, List.isEmpty_cons, Bool.not_false, Bool.true_and, ← hfun]
    cases hr : run env 40 (.nt N.nmtoken) (c :: cs) with
    | ok t r =>
      simp only
      split
      · intro h; cases h
      · next hne =>
        intro h; simp only [Option.some.injEq] at h; subst h
        rw [Bool.eq_iff_iff, ← spanP_rest_nil_iff]
        cases (spanP P.isNameChar (c :: cs)).2 <;> simp
    | fail =>
      simp only
      split
      · next he =>
        intro _
        have : P.isNameChar c = false := by
          simp only [spanP] at he; split at he <;> simp_all
        simp [this]
      · intro h; cases h
    | fuel =>
      simp only
      split
      · next he =>
        intro _
        have : P.isNameChar c = false := by
          simp only [spanP] at he; split at he <;> simp_all
        simp [this]
      · intro h; cases h

/-! Part 3: QName (element and attribute names) -/
theorem matchesAll_qname (s : Str) :
    matchesAll N.qname s = (match qnameP s with | some (_, []) => true | _ => false) := by
  unfold matchesAll
  have h := qname_run_rest 28 s
  revert h
  show (match run env 40 (.nt N.qname) s with | .ok _ r => some r | _ => none) = _ → _
  cases run env 40 (.nt N.qname) s with
  | ok c r =>
    intro h
    cases hq : qnameP s with
    | none => simp [hq] at h
    | some ar =>
      obtain ⟨a, r'⟩ := ar
      simp only [hq, Option.map_some, Option.some.injEq] at h
      subst h
      cases r <;> rfl
  | fail =>
    intro h
    cases hq : qnameP s with
    | none => rfl
    | some ar => simp [hq] at h
  | fuel =>
    intro h
    cases hq : qnameP s with
    | none => rfl
    | some ar => simp [hq] at h

/-- what `ncnameP` hands back: the consumed part is an NCName, and what follows cannot continue it -/
theorem ncnameP_spec (s a r : Str) (h : ncnameP s = some (a, r)) :
    Spec.isNCName a = true ∧ a ++ r = s ∧ (r = [] ∨ ∃ d r', r = d :: r' ∧ ncRest d = false) := by
  have happ := ncnameP_append h
  cases s with
  | nil => simp [ncnameP] at h
  | cons c cs =>
    simp only [ncnameP] at h
    split at h
    · next h1 =>
      simp only [Option.some.injEq, Prod.mk.injEq] at h
      obtain ⟨rfl, rfl⟩ := h
      refine ⟨?_, happ, ?_⟩
      · -- the consumed part alone is accepted by ncname
        have hfull : ncnameP (c :: (spanP ncRest cs).1) = some (c :: (spanP ncRest cs).1, []) := by
          simp only [ncnameP, h1, if_true]
          have hall : ((spanP ncRest cs).1).all ncRest = true := List.all_eq_true.mpr (spanP_all ncRest cs)
          have := spanP_of_all ncRest (spanP ncRest cs).1 [] hall (.inl rfl)
          simp only [List.append_nil] at this
          rw [this]
        have := ncname_accepts_iff (c :: (spanP ncRest cs).1)
        rw [matchesAll_ncname, hfull] at this
        exact this.symm
      · cases hr : (spanP ncRest cs).2 with
        | nil => exact .inl rfl
        | cons d r' =>
          refine .inr ⟨d, r', rfl, ?_⟩
          -- the first character of the remainder stopped the span
          have : ∀ t : Str, ∀ d r', (spanP ncRest t).2 = d :: r' → ncRest d = false := by
            intro t
            induction t with
            | nil => intro d r' h; simp [spanP] at h
            | cons x xs ih =>
              intro d r' h
              simp only [spanP] at h
              split at h
              · exact ih d r' h
              · next hx => simp only [List.cons.injEq] at h; obtain ⟨rfl, _⟩ := h; simpa using hx
          exact this cs d r' hr
    · cases h


theorem isNCName_ncnameP (s : Str) : Spec.isNCName s = (match ncnameP s with | some (_, []) => true | _ => false) := by
  rw [← ncname_accepts_iff, matchesAll_ncname]
  all_goals (cases ncnameP s with
    | none => rfl
    | some ar => obtain ⟨a, r⟩ := ar; cases r <;> rfl)

theorem not_contains_all (a : Str) (h : a.contains ':' = false) : a.all (· != ':') = true := by
  induction a with
  | nil => rfl
  | cons x xs ih =>
    simp only [List.contains_cons, Bool.or_eq_false_iff] at h
    simp only [List.all_cons, Bool.and_eq_true, bne_iff_ne, ne_eq]
    exact ⟨fun e => by subst e; simp at h, ih h.2⟩

theorem span_colon (a r' : Str) (h : a.contains ':' = false) : spanP (· != ':') (a ++ ':' :: r') = (a, ':' :: r') :=
  spanP_of_all (· != ':') a (':' :: r') (not_contains_all a h) (.inr ⟨':', r', rfl, by simp⟩)

theorem isNCName_no_colon (t : Str) (h : Spec.isNCName t = true) : t.contains ':' = false := by
  simp only [Spec.isNCName, Bool.and_eq_true, Bool.not_eq_true'] at h; exact h.2

/-- a string with a character that is not a NameChar behind its first character is no Name -/
theorem isName_false_of_bad (c : Char) (a' : Str) (d : Char) (r' : Str) (hd : P.isNameChar d = false) :
    Spec.isName (c :: a' ++ d :: r') = false := by
  simp only [Spec.isName, List.cons_append, Bool.and_eq_false_iff]
  right
  have hfun : (fun x : Char => Spec.isNameChar x.toNat) = P.isNameChar := (funext P_nameChar).symm
  rw [hfun]
  simp [List.all_append, hd]

theorem ncRest_false_not_colon (d : Char) (h : ncRest d = false) (hd : d ≠ ':') : P.isNameChar d = false := by
  simp only [ncRest, P.except, Bool.and_eq_false_iff, Bool.not_eq_false'] at h
  rcases h with h | h
  · exact h
  · simp only [List.contains_cons, List.contains_nil, Bool.or_false, beq_iff_eq] at h; exact absurd h hd


theorem spanP_append_all' (p : Char → Bool) : ∀ (s t : Str), s.all p = true → spanP p (s ++ t) = (s ++ (spanP p t).1, (spanP p t).2)
  | [], t, _ => by simp
  | c :: cs, t, h => by
    simp only [List.all_cons, Bool.and_eq_true] at h
    simp [spanP, h.1, spanP_append_all' p cs t h.2]

/-- C18: the strings accepted as QName (element and attribute names) are exactly those of Namespaces [7]: an NCName, or two
    NCNames separated by one colon -/
theorem qname_accepts_iff (s : Str) : matchesAll N.qname s = Spec.isQName s := by
  rw [matchesAll_qname]
  cases hn : ncnameP s with
  | none =>
    -- nothing that begins like a name: not an NCName, and no NCName in front of a colon either
    simp only [qnameP, hn]
    have h1 : Spec.isNCName s = false := by rw [isNCName_ncnameP, hn]
    simp only [Spec.isQName, h1, Bool.false_or]
    cases hsp : spanP (· != ':') s with
    | mk p rest =>
      cases rest with
      | nil => rfl
      | cons x l =>
        by_cases hx : x = ':'
        · subst hx
          simp only
          have hp : Spec.isNCName p = false := by
            cases p with
            | nil => simp [Spec.isNCName, Spec.isName]
            | cons c p' =>
              -- c is the first character of s and is not a colon: it is not a NameStartChar
              have happ := spanP_append (· != ':') s
              rw [hsp] at happ
              have hc : (c != ':') = true := by
                have := spanP_all (· != ':') s c (by rw [hsp]; simp)
                exact this
              cases s with
              | nil => simp at happ
              | cons c0 cs =>
                simp only [List.cons_append, List.cons.injEq] at happ
                obtain ⟨rfl, _⟩ := happ
                simp only [ncnameP] at hn
                split at hn
                · cases hn
                · next hbad =>
                  have : P.isNameStartChar c = false := by
                    simp only [Bool.and_eq_true, not_and, Bool.not_eq_true] at hbad
                    exact hbad hc
                  rw [P_nameStart] at this
                  simp [Spec.isNCName, Spec.isName, this]
          simp [hp]
        · split
          · next heq => simp only [Prod.mk.injEq, List.cons.injEq] at heq; exact absurd heq.2.1 hx
          · rfl
  | some ar =>
    obtain ⟨a, r⟩ := ar
    obtain ⟨ha, happ, hr⟩ := ncnameP_spec s a r hn
    have hanc := isNCName_no_colon a ha
    rcases hr with rfl | ⟨d, r', rfl, hd⟩
    · -- the whole string is one NCName
      simp only [List.append_nil] at happ; subst happ
      simp [qnameP, hn, Spec.isQName, ha]
    · by_cases hdc : d = ':'
      · subst hdc
        subst happ
        have hs : Spec.isNCName (a ++ ':' :: r') = false := by
          simp [Spec.isNCName]
        simp only [Spec.isQName, hs, Bool.false_or, span_colon a r' hanc, ha, Bool.true_and]
        simp only [qnameP, hn]
        rw [isNCName_ncnameP r']
        cases hn2 : ncnameP r' with
        | none => rfl
        | some br => obtain ⟨b, r''⟩ := br; cases r'' <;> rfl
      · -- a character that can neither continue the name nor separate two names
        subst happ
        have hbad := ncRest_false_not_colon d hd hdc
        have hq2 : qnameP (a ++ d :: r') = some (a, d :: r') := by
          simp only [qnameP, hn]
          split
          · next heq => simp only [List.cons.injEq] at heq; exact absurd heq.1 hdc
          · rfl
        rw [hq2]
        cases a with
        | nil => simp [Spec.isNCName, Spec.isName] at ha
        | cons c a' =>
          have h1 : Spec.isNCName (c :: a' ++ d :: r') = false := by
            have := isName_false_of_bad c a' d r' hbad
            simp only [Spec.isNCName, this, Bool.false_and]
          simp only [Spec.isQName, h1, Bool.false_or]
          -- the part in front of the first colon (if there is one) still holds d
          have hall : (c :: a').all (· != ':') = true := not_contains_all _ hanc
          cases hsp : spanP (· != ':') (c :: a' ++ d :: r') with
          | mk p rest =>
            have hp : ∃ p'', p = c :: a' ++ d :: p'' := by
              have h2 := spanP_append_all' (· != ':') (c :: a') (d :: r') hall
              rw [hsp] at h2
              simp only [spanP, bne_iff_ne, ne_eq, hdc, not_false_eq_true, decide_true, if_true, Prod.mk.injEq] at h2
              exact ⟨_, h2.1⟩
            obtain ⟨p'', rfl⟩ := hp
            cases rest with
            | nil => rfl
            | cons x l =>
              by_cases hx : x = ':'
              · subst hx
                have h3 : Spec.isNCName (c :: a' ++ d :: p'') = false := by
                  have := isName_false_of_bad c a' d p'' hbad
                  simp only [Spec.isNCName, this, Bool.false_and]
                simp only [h3, Bool.false_and]
              · split
                · next heq => simp only [Prod.mk.injEq, List.cons.injEq] at heq; exact absurd heq.2.1 hx
                · rfl

example : matchesAll N.qname ['p', ':', 'a'] = true ∧ matchesAll N.qname ['p', ':', ':', 'a'] = false ∧ matchesAll N.qname [':', 'a'] = false := by
  rw [qname_accepts_iff, qname_accepts_iff, qname_accepts_iff]; decide

end XmlRs.C18
