import XmlRsModel.AttrNorm
/-! Property C11: attribute values are normalised and defaulted as XML 1.0 3.3.3 / 3.3.2 require.
    The executable model (`normalizedValue`, `expandEnt`, `collapseSpaces`, `elemAttrs`, `attDefsFor`,
    module `AttrNorm`) is characterised here by the sentences of the Recommendation. -/
namespace XmlRs.C11
open XmlRs

/-! ### 3.3.3, white space characters (#x20, #xD, #xA, #x9) become #x20 -/

theorem normWsChar_spec (c : Char) :
    normWsChar c = (if c = '\t' ∨ c = '\n' ∨ c = '\r' then ' ' else c) := by
  unfold normWsChar; by_cases h1 : c = '\t' <;> by_cases h2 : c = '\n' <;> by_cases h3 : c = '\r' <;> simp [h1, h2, h3]

/-- literal white space becomes spaces: the output has the same length, holds no tab / LF / CR, and
    agrees with the input on every other character -/
theorem literal_ws_to_space (s : Str) :
    (normalizeWs s).length = s.length ∧
    (∀ c ∈ normalizeWs s, c ≠ '\t' ∧ c ≠ '\n' ∧ c ≠ '\r') ∧
    (∀ i (h : i < s.length), (normalizeWs s)[i]? =
        some (if s[i] = '\t' ∨ s[i] = '\n' ∨ s[i] = '\r' then ' ' else s[i])) := by
  refine ⟨by simp [normalizeWs], ?_, ?_⟩
  · intro c hc
    simp only [normalizeWs, List.mem_map] at hc
    obtain ⟨d, _, rfl⟩ := hc
    rw [normWsChar_spec]
    split
    · decide
    · next h => simp only [not_or] at h; exact h
  · intro i h
    simp [normalizeWs, List.getElem?_map, List.getElem?_eq_getElem h, normWsChar_spec]

theorem normalizeWs_idempotent (s : Str) : normalizeWs (normalizeWs s) = normalizeWs s := by
  simp only [normalizeWs, List.map_map]
  apply List.map_congr_left
  intro c _
  simp only [Function.comp, normWsChar_spec]
  split
  · decide
  · next h => simp [h]

/-! ### the pieces of a value literal -/

/-- the value is built piece by piece, left to right (CDATA or undeclared attribute) -/
theorem value_append (t : EntTable) (ps qs : List Piece) (a b : Str)
    (ha : normalizedValue.go t ps = .ok a) (hb : normalizedValue.go t qs = .ok b) :
    normalizedValue.go t (ps ++ qs) = .ok (a ++ b) := by
  induction ps generalizing a with
  | nil => simp [normalizedValue.go] at ha; subst ha; simpa using hb
  | cons p ps ih =>
    cases p with
    | text s =>
      simp only [normalizedValue.go, List.cons_append] at ha ⊢
      split at ha
      · next x hx => cases ha; simp [ih _ hx]
      · cases ha
    | charRef d h =>
      simp only [normalizedValue.go, List.cons_append] at ha ⊢
      split at ha
      · cases ha
      · next c hc =>
        split at ha
        · next x hx => cases ha; simp [ih _ hx]
        · cases ha
    | entRef n =>
      simp only [normalizedValue.go, List.cons_append] at ha ⊢
      split at ha
      · cases ha
      · next x hx =>
        split at ha
        · next y hy => cases ha; simp [ih _ hy]
        · cases ha
    | peRef n => simp [normalizedValue.go] at ha

/-- literal text contributes itself with white space replaced by spaces -/
theorem text_piece (t : EntTable) (s : Str) : normalizedValue.go t [.text s] = .ok (normalizeWs s) := by
  simp [normalizedValue.go]

/-- a character reference contributes the referenced character UNCHANGED — also a referenced tab,
    line feed or carriage return (`&#9;` stays a tab) -/
theorem charref_verbatim (t : EntTable) (d : Str) (h : Bool) (c : Char) (hc : charOfRef d h = some c) :
    normalizedValue.go t [.charRef d h] = .ok [c] := by
  simp [normalizedValue.go, hc]

example : normalizedValue [] (some .cdata) [.text "a\tb".toList, .charRef "9".toList false] = .ok "a b\t".toList := by
  rfl

/-- an entity reference contributes its recursively expanded replacement text -/
theorem entref_piece (t : EntTable) (n : Str) :
    normalizedValue.go t [.entRef n] = (match expandEnt t (t.length + 6) [] n with
      | .ok a => .ok a | .error e => .error e) := by
  simp only [normalizedValue.go]
  split <;> simp_all

/-- inside an entity the same three rules apply: literal text of the replacement text has its
    white space normalised, character references inside it are verbatim -/
theorem entity_text_normalised (t : EntTable) (fuel : Nat) (name s : Str)
    (h : lookupEnt t name = some (.internal [.text s])) :
    expandEnt t (fuel + 1) [] name = .ok (normalizeWs s) := by
  simp [expandEnt, h, expandEnt.go]

theorem entity_charref_verbatim (t : EntTable) (fuel : Nat) (name d : Str) (hx : Bool) (c : Char)
    (h : lookupEnt t name = some (.internal [.charRef d hx])) (hc : charOfRef d hx = some c) :
    expandEnt t (fuel + 1) [] name = .ok [c] := by
  simp [expandEnt, h, expandEnt.go, hc]

/-- recursion: an entity whose replacement text is a reference to another entity expands to that
    entity's expansion -/
theorem entity_recursive (t : EntTable) (fuel : Nat) (a b : Str) (_hab : a ≠ b)
    (h : lookupEnt t a = some (.internal [.entRef b])) :
    expandEnt t (fuel + 2) [] a = (match expandEnt t (fuel + 1) [a] b with
      | .ok x => .ok x | .error e => .error e) := by
  rw [expandEnt]
  simp only [List.contains_nil, Bool.false_eq_true, if_false, h, expandEnt.go]
  split <;> simp_all

/-! ### tokenized types: leading and trailing spaces dropped, runs collapsed -/

/-- no two adjacent spaces and no space at the end -/
def collapsedFrom : Str → Bool
  | [] => true
  | [c] => c != ' '
  | c :: d :: r => !(c == ' ' && d == ' ') && collapsedFrom (d :: r)

/-- "leading and trailing space (#x20) characters discarded, sequences of spaces replaced by one" -/
def isCollapsed (s : Str) : Bool := s.head? != some ' ' && collapsedFrom s

private theorem go_collapsed (r : Str) : ∀ (x : Char) (pend : Bool), x ≠ ' ' →
    collapsedFrom (x :: collapseSpaces.go r pend) = true := by
  induction r with
  | nil => intro x pend hx; simp [collapseSpaces.go, collapsedFrom, hx]
  | cons c r ih =>
    intro x pend hx
    simp only [collapseSpaces.go]
    split
    · exact ih x true hx
    · next hc =>
      have hc' : c ≠ ' ' := by simpa using hc
      cases pend
      · simp [collapsedFrom, hx, ih c false hc']
      · simp [collapsedFrom, hx, hc', ih c false hc']

private theorem dropWhile_head {p : Char → Bool} : ∀ (s : Str) c r, s.dropWhile p = c :: r → p c = false
  | [], _, _, h => by simp at h
  | a :: s, c, r, h => by
      simp only [List.dropWhile] at h
      split at h
      · exact dropWhile_head s c r h
      · next hp => simp only [List.cons.injEq] at h; obtain ⟨rfl, _⟩ := h; simpa using hp

/-- for every tokenized type the result has no leading space, no trailing space, no double space -/
theorem collapse_is_collapsed (s : Str) : isCollapsed (collapseSpaces s) = true := by
  unfold collapseSpaces
  split
  · rfl
  · next c r h =>
    have hc : c ≠ ' ' := by simpa using dropWhile_head s c r h
    simp [isCollapsed, hc, go_collapsed r c false hc]

private theorem go_fix (r : Str) : ∀ x : Char, collapsedFrom (x :: r) = true →
    collapseSpaces.go r (x == ' ') = (if x == ' ' then ' ' :: r else r) := by
  induction r with
  | nil => intro x h; simp [collapsedFrom] at h; simp [collapseSpaces.go, h]
  | cons c r ih =>
    intro x h
    simp only [collapsedFrom, Bool.and_eq_true, Bool.not_eq_true', Bool.and_eq_false_iff] at h
    obtain ⟨h1, h2⟩ := h
    have ih' := ih c h2
    by_cases hx : x = ' '
    · subst hx
      have hc : c ≠ ' ' := by simpa using h1
      have hcb : (c == ' ') = false := by simpa using hc
      simp only [hcb, Bool.false_eq_true, if_false] at ih'
      simp [collapseSpaces.go, hcb, ih']
    · have hxb : (x == ' ') = false := by simpa using hx
      simp only [hxb, Bool.false_eq_true, if_false]
      by_cases hc : c = ' '
      · subst hc
        simp only [beq_self_eq_true, if_true] at ih'
        simp [collapseSpaces.go, ih']
      · have hcb : (c == ' ') = false := by simpa using hc
        simp only [hcb, Bool.false_eq_true, if_false] at ih'
        simp [collapseSpaces.go, hcb, ih']

/-- a value that is already in collapsed form is left alone -/
theorem collapse_fixed (s : Str) (h : isCollapsed s = true) : collapseSpaces s = s := by
  cases s with
  | nil => rfl
  | cons c r =>
    simp only [isCollapsed, List.head?_cons, Bool.and_eq_true, bne_iff_ne, ne_eq, Option.some.injEq] at h
    obtain ⟨hc, h2⟩ := h
    have hcb : (c == ' ') = false := by simpa using hc
    have := go_fix r c h2
    simp only [hcb, Bool.false_eq_true, if_false] at this
    simp [collapseSpaces, List.dropWhile, hcb, this]

theorem collapse_idempotent (s : Str) : collapseSpaces (collapseSpaces s) = collapseSpaces s :=
  collapse_fixed _ (collapse_is_collapsed s)

private theorem go_filter (r : Str) : ∀ pend, (collapseSpaces.go r pend).filter (· != ' ') = r.filter (· != ' ') := by
  induction r with
  | nil => intro p; simp [collapseSpaces.go]
  | cons c r ih =>
    intro pend
    simp only [collapseSpaces.go]
    split
    · next hc =>
      have : (c != ' ') = false := by simp [bne, hc]
      rw [List.filter_cons, this, ih]; rfl
    · next hc =>
      have : (c != ' ') = true := by simpa [bne] using hc
      have hsp : ((' ' : Char) != ' ') = false := by decide
      cases pend
      · simp only [Bool.false_eq_true, if_false]
        rw [List.filter_cons, List.filter_cons, this, ih]
      · simp only [if_true]
        rw [List.filter_cons, List.filter_cons, List.filter_cons, hsp, this, ih]; rfl

private theorem dropWhile_filter : ∀ s : Str, (s.dropWhile (· == ' ')).filter (· != ' ') = s.filter (· != ' ')
  | [] => rfl
  | c :: s => by
      simp only [List.dropWhile]
      split
      · next h =>
        have : (c != ' ') = false := by simp [bne, h]
        rw [List.filter_cons, this, dropWhile_filter s]; rfl
      · rfl

/-- collapsing only touches spaces: the other characters are kept, in order -/
theorem collapse_keeps_nonspace (s : Str) :
    (collapseSpaces s).filter (· != ' ') = s.filter (· != ' ') := by
  rw [← dropWhile_filter s]
  unfold collapseSpaces
  split
  · next h => simp [h]
  · next c r h =>
    have hc : (c != ' ') = true := by simp [bne, dropWhile_head s c r h]
    rw [h, List.filter_cons, List.filter_cons, hc, go_filter]

/-- declared type other than CDATA: the CDATA result, then collapsed; CDATA and undeclared
    attributes: nothing further -/
theorem tokenized_collapsed (t : EntTable) (ty : AttType) (vs : List Piece) (hty : ty ≠ .cdata) :
    normalizedValue t (some ty) vs = (match normalizedValue t (some .cdata) vs with
      | .ok v => .ok (collapseSpaces v) | .error e => .error e) := by
  unfold normalizedValue
  cases normalizedValue.go t vs with
  | error e => rfl
  | ok v => cases ty <;> simp_all

theorem tokenized_result_collapsed (t : EntTable) (ty : AttType) (vs : List Piece) (v : Str)
    (hty : ty ≠ .cdata) (h : normalizedValue t (some ty) vs = .ok v) : isCollapsed v = true := by
  rw [tokenized_collapsed t ty vs hty] at h
  split at h
  · cases h; exact collapse_is_collapsed _
  · cases h

theorem cdata_untouched_otherwise (t : EntTable) (vs : List Piece) :
    normalizedValue t (some .cdata) vs = normalizedValue t none vs := by
  unfold normalizedValue; cases normalizedValue.go t vs <;> rfl

example : normalizedValue [] (some .nmtokens) [.text "  a \t b  ".toList] = .ok "a b".toList := by rfl
example : normalizedValue [] (some .cdata) [.text "  a \t b  ".toList] = .ok "  a   b  ".toList := by rfl
example : normalizedValue [] (some .nmtokens) [.text " a".toList, .charRef "32".toList false, .charRef "x20".toList true, .text "b ".toList]
    = .ok "a b".toList := by rfl

/-! ### 3.3.2 defaults -/

/-- the attributes of an element: exactly those written in the tag (flagged specified), plus one per
    attribute definition with a default or #FIXED value whose name is not written (flagged not
    specified, carrying the declared default); nothing for #IMPLIED and #REQUIRED -/
theorem attributes_spec (dt : Option Doctype) (e : QN) (attrs : List Attr) (x : Attr × Bool) :
    x ∈ elemAttrs false dt e attrs ↔
      (x.2 = true ∧ x.1 ∈ attrs) ∨
      (x.2 = false ∧ ∃ d ∈ attDefsFor dt e, ∃ f vs, d.dflt = .value f vs ∧ x.1 = ⟨d.name, vs⟩ ∧
         ∀ a ∈ attrs, a.name ≠ d.name) := by
  obtain ⟨a, b⟩ := x
  simp only [elemAttrs, List.mem_append, List.mem_map, Prod.mk.injEq, List.mem_filterMap]
  constructor
  · rintro (⟨a', ha', rfl, rfl⟩ | ⟨d, hd, h⟩)
    · exact Or.inl ⟨rfl, ha'⟩
    · right
      split at h
      · cases h
      · next hnot =>
        split at h
        · next f vs hv =>
          simp only [Option.some.injEq, Prod.mk.injEq] at h
          obtain ⟨rfl, rfl⟩ := h
          refine ⟨rfl, d, hd, f, vs, hv, rfl, ?_⟩
          intro a ha heq
          apply hnot
          simp only [List.any_eq_true, beq_iff_eq]
          exact ⟨a, ha, heq⟩
        · simp at h
        · cases h
  · rintro (⟨rfl, ha⟩ | ⟨rfl, d, hd, f, vs, hv, rfl, hno⟩)
    · exact Or.inl ⟨a, ha, rfl, rfl⟩
    · right
      refine ⟨d, hd, ?_⟩
      have : attrs.any (fun x => x.name == d.name) = false := by
        rw [Bool.eq_false_iff]
        intro hany
        simp only [List.any_eq_true, beq_iff_eq] at hany
        obtain ⟨a, ha, heq⟩ := hany
        exact hno a ha heq
      simp [this, hv]

/-- #IMPLIED and #REQUIRED attributes appear only when written -/
theorem implied_required_absent (dt : Option Doctype) (e : QN) (attrs : List Attr) (a : Attr)
    (h : (a, false) ∈ elemAttrs false dt e attrs) :
    ∃ d ∈ attDefsFor dt e, d.name = a.name ∧ d.dflt ≠ .implied ∧ d.dflt ≠ .required := by
  rw [attributes_spec] at h
  rcases h with ⟨h, _⟩ | ⟨_, d, hd, f, vs, hv, hx, _⟩
  · cases h
  · simp only at hx
    exact ⟨d, hd, by rw [hx], by rw [hv]; simp, by rw [hv]; simp⟩

/-- an attribute that is written is flagged specified, whatever is declared -/
theorem specified_flag (dt : Option Doctype) (e : QN) (attrs : List Attr) (a : Attr) (h : a ∈ attrs) :
    (a, true) ∈ elemAttrs false dt e attrs := by
  rw [attributes_spec]; exact Or.inl ⟨rfl, h⟩

/-! ### every attribute-list declaration of the element type is consulted; the first definition of a
    name is binding -/

private def mergeDefs (acc : List AttDef) (d : AttDef) : List AttDef :=
  if acc.any (·.name == d.name) then acc else acc ++ [d]

private theorem foldl_merge_spec (ds : List AttDef) : ∀ acc : List AttDef,
    (∀ d ∈ ds.foldl mergeDefs acc, d ∈ acc ∨ d ∈ ds) ∧
    (∀ d ∈ acc, d ∈ ds.foldl mergeDefs acc) ∧
    (∀ d ∈ ds, ∃ d' ∈ ds.foldl mergeDefs acc, d'.name = d.name) := by
  induction ds with
  | nil => intro acc; simp
  | cons x ds ih =>
    intro acc
    obtain ⟨i1, i2, i3⟩ := ih (mergeDefs acc x)
    simp only [List.foldl_cons]
    refine ⟨?_, ?_, ?_⟩
    · intro d hd
      rcases i1 d hd with h | h
      · unfold mergeDefs at h
        split at h
        · exact Or.inl h
        · simp only [List.mem_append, List.mem_singleton] at h
          rcases h with h | rfl
          · exact Or.inl h
          · exact Or.inr (by simp)
      · exact Or.inr (by simp [h])
    · intro d hd
      apply i2
      unfold mergeDefs; split
      · exact hd
      · simp [hd]
    · intro d hd
      simp only [List.mem_cons] at hd
      rcases hd with rfl | hd
      · by_cases hany : acc.any (·.name == d.name) = true
        · simp only [List.any_eq_true, beq_iff_eq] at hany
          obtain ⟨d', hd', hn⟩ := hany
          exact ⟨d', i2 d' (by unfold mergeDefs; split <;> simp [hd']), hn⟩
        · exact ⟨d, i2 d (by unfold mergeDefs; simp [hany]), rfl⟩
      · exact i3 d hd

/-- every definition consulted comes from an ATTLIST for this element type, and every definition
    in ANY ATTLIST for this element type is represented (by the first definition of that name) -/
theorem all_attlists_consulted (dt : Doctype) (e : QN) :
    (∀ d ∈ attDefsFor (some dt) e, ∃ defs, DtdItem.attlist e defs ∈ dt.kids ∧ d ∈ defs) ∧
    (∀ defs d, DtdItem.attlist e defs ∈ dt.kids → d ∈ defs →
       ∃ d' ∈ attDefsFor (some dt) e, d'.name = d.name) := by
  have key := foldl_merge_spec
    (dt.kids.flatMap fun | .attlist n defs => if n == e then defs else [] | _ => []) []
  have hmem : ∀ d, d ∈ (dt.kids.flatMap fun | .attlist n defs => if n == e then defs else [] | _ => []) ↔
      ∃ defs, DtdItem.attlist e defs ∈ dt.kids ∧ d ∈ defs := by
    intro d
    simp only [List.mem_flatMap]
    constructor
    · rintro ⟨k, hk, hd⟩
      cases k with
      | attlist n defs =>
        simp only at hd
        split at hd
        · next hn => have : n = e := by simpa using hn
                     subst this; exact ⟨defs, hk, hd⟩
        · simp at hd
      | _ => simp at hd
    · rintro ⟨defs, hk, hd⟩
      exact ⟨_, hk, by simp [hd]⟩
  obtain ⟨k1, _, k3⟩ := key
  constructor
  · intro d hd
    have : d ∈ ([] : List AttDef) ∨ d ∈ _ := k1 d hd
    rcases this with h | h
    · cases h
    · exact (hmem d).1 h
  · intro defs d hk hd
    exact k3 d ((hmem d).2 ⟨defs, hk, hd⟩)

/-! ### a name declared twice: the first declaration binds (XML 1.0 4.2 for entities, 3.3 for attribute definitions) -/

/-- ENTITIES: whatever is declared after the first declaration of `n` - another declaration of `n` included - does not change
    what `n` stands for -/
theorem first_entity_declaration_binds (before after : EntTable) (n : Str) (e : EntDef)
    (hb : ∀ p ∈ before, p.1 ≠ n) : lookupEnt (before ++ (n, e) :: after) n = some e := by
  unfold lookupEnt
  have : (before ++ (n, e) :: after).find? (·.1 == n) = some (n, e) := by
    induction before with
    | nil => simp
    | cons p r ih =>
      have hp : (p.1 == n) = false := by simpa using hb p (by simp)
      simp only [List.cons_append, List.find?_cons, hp]
      exact ih (fun q hq => hb q (by simp [hq]))
  rw [this]

/-- ... in particular a second declaration of the same entity is without effect, wherever it stands -/
theorem second_entity_declaration_ignored (before mid after : EntTable) (n : Str) (e e' : EntDef)
    (hb : ∀ p ∈ before, p.1 ≠ n) :
    lookupEnt (before ++ (n, e) :: (mid ++ (n, e') :: after)) n = lookupEnt (before ++ (n, e) :: (mid ++ after)) n := by
  rw [first_entity_declaration_binds before _ n e hb, first_entity_declaration_binds before _ n e hb]

/-- a declared entity hides the predefined one of the same name only through its own declaration: without any declaration of
    `n` the predefined table answers -/
theorem undeclared_falls_back_to_predefined (t : EntTable) (n : Str) (h : ∀ p ∈ t, p.1 ≠ n) :
    lookupEnt t n = (predefined.find? (·.1 == n)).map (·.2) := by
  unfold lookupEnt
  have : t.find? (·.1 == n) = none := by
    rw [List.find?_eq_none]
    intro p hp
    simpa using h p hp
  rw [this]

/-- ATTRIBUTE DEFINITIONS: merging keeps, for every name, the definition that came first -/
theorem mergeDefs_keeps_first (acc : List AttDef) (d : AttDef) (h : acc.any (·.name == d.name) = true) :
    (if acc.any (·.name == d.name) then acc else acc ++ [d]) = acc := by
  rw [if_pos h]

theorem foldl_merge_prefix : ∀ (l acc : List AttDef),
    ∃ r, l.foldl (fun acc d => if acc.any (·.name == d.name) then acc else acc ++ [d]) acc = acc ++ r
  | [], acc => ⟨[], by simp⟩
  | d :: l, acc => by
    simp only [List.foldl_cons]
    by_cases h : acc.any (·.name == d.name) = true
    · rw [if_pos h]; exact foldl_merge_prefix l acc
    · rw [if_neg h]
      obtain ⟨r, hr⟩ := foldl_merge_prefix l (acc ++ [d])
      exact ⟨d :: r, by rw [hr]; simp⟩

/-- the first definition of an attribute name for an element type is the one `attDefsFor` reports: definitions already
    collected are never replaced or reordered by what follows -/
theorem first_attribute_definition_binds (l : List AttDef) (d : AttDef) :
    ∃ r, (d :: l).foldl (fun acc x => if acc.any (·.name == x.name) then acc else acc ++ [x]) [] = d :: r := by
  simp only [List.foldl_cons, List.any_nil, Bool.false_eq_true, if_false, List.nil_append]
  obtain ⟨r, hr⟩ := foldl_merge_prefix l [d]
  exact ⟨r, by rw [hr]; rfl⟩

example : lookupEnt [(['e'], .internal [.text ['1']]), (['x'], .internal []), (['e'], .internal [.text ['2']])] ['e'] =
    some (.internal [.text ['1']]) := by decide

end XmlRs.C11
