import XmlRsModel.Cli
import XmlRsModel.Thm.C07
import XmlRsModel.Lemmas.CliIndex
import XmlRsModel.Thm.C04
/-! Property C17: `xe` replaces the children of precisely the selected element / attribute /
    document nodes by the parsed replacement and leaves every other item unchanged; `xq` prints
    exactly the serializations of the selected nodes in document order, or the scalar; both end in
    success or in an error (`CliOut.fail`: message and non-zero status) — never anything else.

    `Cli.xe` / `Cli.xq` are the compositions parser ∘ XPath evaluator ∘ rewrite ∘ printer; every
    function involved is total (structural recursion, no `partial`), which is the model's form of
    "never a crash".  The theorems are about the rewrite on the information-set tree, keyed exactly
    as the XPath evaluator keys nodes (`kidIdx` = the merged-text numbering of `buildItems`). -/
namespace XmlRs.C17
open XmlRs XmlRs.XPath XmlRs.Cli Gen.Xml

/-- a selected key at or below `base` -/
def touches (sel : List Key) (base : Key) : Prop := ∃ k ∈ sel, isPrefix base k = true

theorem isPrefix_append (a b : Key) : isPrefix a (a ++ b) = true := by
  induction a with
  | nil => simp [isPrefix]
  | cons x xs ih => simp [isPrefix, ih]

theorem isPrefix_trans {a b c : Key} (h1 : isPrefix a b = true) (h2 : isPrefix b c = true) :
    isPrefix a c = true := by
  induction a generalizing b c with
  | nil => simp [isPrefix]
  | cons x xs ih =>
    cases b with
    | nil => simp [isPrefix] at h1
    | cons y ys =>
      cases c with
      | nil => simp [isPrefix] at h2
      | cons z zs =>
        simp only [isPrefix, Bool.and_eq_true, beq_iff_eq] at *
        exact ⟨h1.1.trans h2.1, ih h1.2 h2.2⟩

theorem isPrefix_refl (a : Key) : isPrefix a a = true := by
  simpa using isPrefix_append a []

private theorem untouched_sub {sel : List Key} {base : Key} (ext : Key) (h : ¬ touches sel base) :
    ¬ touches sel (base ++ ext) := by
  rintro ⟨k, hk, hp⟩
  exact h ⟨k, hk, isPrefix_trans (isPrefix_append base ext) hp⟩

private theorem not_contains_of_untouched {sel : List Key} {base : Key} (h : ¬ touches sel base) :
    sel.contains base = false := by
  cases hc : sel.contains base with
  | false => rfl
  | true =>
    exfalso; apply h
    exact ⟨base, by simpa using hc, isPrefix_refl base⟩

/-! ### frame: what is not selected is not changed -/

theorem rewriteAttrs_frame (sel : List Key) (repl : Option (List Piece)) (base : Key) (h : ¬ touches sel base)
    (j : Nat) (as : List Attr) : rewriteAttrs sel repl base j as = some as := by
  induction as generalizing j with
  | nil => simp [rewriteAttrs]
  | cons a r ih =>
    have hc : sel.contains (base ++ [1, j]) = false := not_contains_of_untouched (untouched_sub [1, j] h)
    unfold rewriteAttrs
    by_cases hx : xmlnsQ a.name = true
    · simp [hx, ih]
    · have hc' : base ++ [1, j] ∉ sel := by simpa using hc
      simp [hx, hc', ih]

theorem newDefaults_frame (sel : List Key) (repl : Option (List Piece)) (base : Key) (h : ¬ touches sel base)
    (j : Nat) (ds : List (Attr × Bool)) : newDefaults sel repl base j ds = some [] := by
  induction ds generalizing j with
  | nil => simp [newDefaults]
  | cons a r ih =>
    obtain ⟨a, sp⟩ := a
    have hc : sel.contains (base ++ [1, j]) = false := not_contains_of_untouched (untouched_sub [1, j] h)
    unfold newDefaults
    by_cases hx : xmlnsQ a.name = true
    · simp [hx, ih]
    · have hc' : base ++ [1, j] ∉ sel := by simpa using hc
      simp [hx, hc', ih]

mutual
/-- FRAME (elements): an element with no selected node at or below it comes out as it went in -/
theorem rewriteItem_frame (dt : Option Doctype) (req : Bool) (sel : List Key) (repl : List Item) (base : Key) (x : Item)
    (h : ¬ touches sel base) : rewriteItem dt req sel repl base x = some x := by
  cases x with
  | elem n attrs kids =>
    have hc := not_contains_of_untouched h
    simp only [rewriteItem, rewriteAttrs_frame sel _ base h, newDefaults_frame sel _ base h, hc]
    simp [rewriteKids_frame dt req sel repl base kids h 0 false]
  | text s => simp [rewriteItem]
  | cdata s => simp [rewriteItem]
  | charRef d hx => simp [rewriteItem]
  | entRef n => simp [rewriteItem]
  | comment s => simp [rewriteItem]
  | pi t d => simp [rewriteItem]
theorem rewriteKids_frame (dt : Option Doctype) (req : Bool) (sel : List Key) (repl : List Item) (base : Key) (kids : List Item)
    (h : ¬ touches sel base) (n : Nat) (p : Bool) : rewriteKids dt req sel repl base n p kids = some kids := by
  cases kids with
  | nil => simp [rewriteKids]
  | cons x r =>
    unfold rewriteKids
    by_cases ht : isTextLike x = true
    · simp [ht, rewriteKids_frame dt req sel repl base r h]
    · simp [ht, rewriteKids_frame dt req sel repl base r h, rewriteItem_frame dt req sel repl (base ++ [n + 2]) x (untouched_sub _ h)]
end

/-! ### effect: a selected element keeps its name and gets exactly the replacement as children -/

/-- EFFECT (elements): the selected element keeps its name, its attributes are those the attribute
    rewrite yields (followed by defaulted attributes that were selected themselves), and its children
    are exactly the replacement -/
theorem rewriteItem_selected (dt : Option Doctype) (req : Bool) (sel : List Key) (repl : List Item) (base : Key) (n : QN)
    (attrs : List Attr) (kids : List Item) (h : sel.contains base = true) (y : Item)
    (hy : rewriteItem dt req sel repl base (.elem n attrs kids) = some y) :
    ∃ as extra, rewriteAttrs sel (attrPieces repl) base 0 attrs = some as ∧
      newDefaults sel (attrPieces repl) base (defaultsOf dt req n attrs).1 (defaultsOf dt req n attrs).2 = some extra ∧
      y = .elem n (as ++ extra) repl := by
  simp only [rewriteItem] at hy
  cases ha : rewriteAttrs sel (attrPieces repl) base 0 attrs with
  | none => simp [ha] at hy
  | some as =>
    cases hd : newDefaults sel (attrPieces repl) base (defaultsOf dt req n attrs).1 (defaultsOf dt req n attrs).2 with
    | none => simp [ha, hd] at hy
    | some extra =>
      simp only [ha, hd, h, if_true] at hy
      exact ⟨as, extra, rfl, rfl, by injection hy with hy; exact hy.symm⟩

/-- an unselected element keeps its name and recurses into its children (nothing else happens) -/
theorem rewriteItem_unselected (dt : Option Doctype) (req : Bool) (sel : List Key) (repl : List Item) (base : Key) (n : QN)
    (attrs : List Attr) (kids : List Item) (h : sel.contains base = false) (y : Item)
    (hy : rewriteItem dt req sel repl base (.elem n attrs kids) = some y) :
    ∃ as extra ks, rewriteAttrs sel (attrPieces repl) base 0 attrs = some as ∧
      newDefaults sel (attrPieces repl) base (defaultsOf dt req n attrs).1 (defaultsOf dt req n attrs).2 = some extra ∧
      rewriteKids dt req sel repl base 0 false kids = some ks ∧ y = .elem n (as ++ extra) ks := by
  simp only [rewriteItem] at hy
  cases ha : rewriteAttrs sel (attrPieces repl) base 0 attrs with
  | none => simp [ha] at hy
  | some as =>
    cases hd : newDefaults sel (attrPieces repl) base (defaultsOf dt req n attrs).1 (defaultsOf dt req n attrs).2 with
    | none => simp [ha, hd] at hy
    | some extra =>
      simp only [ha, hd, h] at hy
      cases hk : rewriteKids dt req sel repl base 0 false kids with
      | none => simp [hk] at hy
      | some ks =>
        simp [hk] at hy
        exact ⟨as, extra, ks, rfl, rfl, rfl, hy.symm⟩

/-- the attribute rewrite keeps the number, the order and the names of the attributes; only values of
    selected attributes change, and they become the replacement -/
theorem rewriteAttrs_names (sel : List Key) (repl : Option (List Piece)) (base : Key) (j : Nat) (as bs : List Attr)
    (h : rewriteAttrs sel repl base j as = some bs) : bs.map (·.name) = as.map (·.name) := by
  induction as generalizing j bs with
  | nil => simp [rewriteAttrs] at h; simp [h]
  | cons a r ih =>
    unfold rewriteAttrs at h
    by_cases hx : xmlnsQ a.name = true
    · simp only [hx, if_true] at h
      cases hr : rewriteAttrs sel repl base j r with
      | none => simp [hr] at h
      | some rest => simp [hr] at h; subst h; simp [ih j rest hr]
    · simp only [hx] at h
      by_cases hc : sel.contains (base ++ [1, j]) = true
      · simp only [hc, if_true] at h
        cases repl with
        | none => simp at h
        | some ps =>
          cases hr : rewriteAttrs sel (some ps) base (j + 1) r with
          | none => simp [hr] at h
          | some rest => simp [hr] at h; subst h; simp [ih (j + 1) rest hr]
      · simp only [hc] at h
        cases hr : rewriteAttrs sel repl base (j + 1) r with
        | none => simp [hr] at h
        | some rest => simp [hr] at h; subst h; simp [ih (j + 1) rest hr]

/-- the children rewrite keeps the number of children, and keeps every child that is not an element -/
theorem rewriteKids_length (dt : Option Doctype) (req : Bool) (sel : List Key) (repl : List Item) (base : Key) (n : Nat) (p : Bool) (kids ks : List Item)
    (h : rewriteKids dt req sel repl base n p kids = some ks) : ks.length = kids.length := by
  induction kids generalizing n p ks with
  | nil => simp [rewriteKids] at h; simp [h]
  | cons x r ih =>
    unfold rewriteKids at h
    by_cases ht : isTextLike x = true
    · simp only [ht, if_true] at h
      cases hr : rewriteKids dt req sel repl base (if p = true then n else n + 1) true r with
      | none => simp [hr] at h
      | some rest => simp [hr] at h; subst h; simp [ih _ _ rest hr]
    · simp only [ht] at h
      cases hx : rewriteItem dt req sel repl (base ++ [n + 2]) x with
      | none => simp [hx] at h
      | some x' =>
        cases hr : rewriteKids dt req sel repl base (n + 1) false r with
        | none => simp [hx, hr] at h
        | some rest => simp [hx, hr] at h; subst h; simp [ih _ _ rest hr]

/-! ### the keys are the evaluator's keys -/

/-- the child index under which the rewrite addresses an element child (`rewriteKids` numbers the
    children with `kidIdx`) is the position of that child's node in the XPath tree built from the same
    children: a key selected by the evaluator and the key the rewrite compares it with denote the same
    child -/
theorem rewrite_numbering_is_xpath_numbering (cfg : BuildCfg) (scope : List (Str × Str)) (kids : List Item)
    (ns : List XNode) (h : buildItems cfg scope kids none = .ok ns) (j idx : Nat) (x : Item)
    (hj : kids[j]? = some x) (hx : isTextLike x = false) (hidx : (kidIdx 0 false kids)[j]? = some idx) :
    ∃ node, buildItem cfg scope x = .ok node ∧ ns[idx]? = some node :=
  kidIdx_is_xpath_index cfg scope kids none ns h j x idx hj hx (by simpa using hidx)

/-! ### xq -/

/-- what `xq` prints for a node-set: one line per selected node, in the order of the node-set -/
def xqLines (req : Bool) (d : IDoc) (xd : XDoc) (ks : List Key) : Str :=
  ks.flatMap fun k => match locate req d k with
    | some sel => printSel sel d ++ ['\n']
    | none => match lookup xd k with
      | some (.ns _ p u) => printSel (.ns p u) d ++ ['\n']
      | _ => "?\n".toList

/-- `xq` on a usable document and expression: the scalar, or one line per node of the node-set; and the
    node-set is in document order without duplicates (C07), so these are the selected nodes, each once,
    in document order -/
theorem xq_prints_selection (req negz : Bool) (text : Str) (bind : List (Option Str × Str)) (expr : Str)
    (d : IDoc) (xd : XDoc) (hp : parseDoc text = .ok (d, [])) (hb : buildDoc false req d = .ok xd) (ks : List Key)
    (hq : XPath.query ⟨{ xd with negZeroQuirk := negz }, bind⟩ expr = .ok (.nodes ks)) :
    xq req negz text bind expr = .ok (xqLines req d { xd with negZeroQuirk := negz } ks) := by
  simp only [xq, hp, hb, hq, xqLines]
  rfl

/-- unusable input: every failure of a stage is the error outcome -/
theorem xq_unparsable_fails (req negz : Bool) (text : Str) (bind : List (Option Str × Str)) (expr : Str) (e : XErr)
    (hp : parseDoc text = .error e) : xq req negz text bind expr = .fail := by
  simp only [xq, hp]

theorem xq_trailing_fails (req negz : Bool) (text : Str) (bind : List (Option Str × Str)) (expr : Str) (d : IDoc)
    (c : Char) (rest : Str) (hp : parseDoc text = .ok (d, c :: rest)) : xq req negz text bind expr = .fail := by
  simp only [xq, hp]

theorem xq_bad_query_fails (req negz : Bool) (text : Str) (bind : List (Option Str × Str)) (expr : Str)
    (d : IDoc) (xd : XDoc) (hp : parseDoc text = .ok (d, [])) (hb : buildDoc false req d = .ok xd) (e : QErr)
    (hq : XPath.query ⟨{ xd with negZeroQuirk := negz }, bind⟩ expr = .error e) :
    xq req negz text bind expr = .fail := by
  simp only [xq, hp, hb, hq]

/-- whatever `xe` writes on success is the serialization of a document followed by a line feed -/
theorem xe_output_is_a_serialization (req : Bool) (text : Str) (bind : List (Option Str × Str)) (expr value out : Str)
    (h : xe req text bind expr value = .ok out) : ∃ d' : IDoc, out = printDoc d' ++ ['\n'] := by
  unfold xe at h
  repeat' split at h
  all_goals first
    | (cases h; done)
    | (simp only [CliOut.ok.injEq] at h; exact ⟨_, h.symm⟩)
    | (cases h; exact ⟨_, rfl⟩)

/-- ... and that output PARSES BACK to the rewritten document whenever the rewritten document is printable (the profile and the
    side conditions of C04 `print_parse_roundtrip`): the tool never writes, for such a document, something the parser refuses
    or reads as another document -/
theorem xe_output_reparses (d' : IDoc) (cd : CDoc) (out : Str) (ho : out = printDoc d' ++ ['\n'])
    (hc : canonDoc d' = some cd) (hok : cd.ok = true) (hf : d'.kids.all faithfulTop = true)
    (hdepth : cd.root.depth ≤ maxDepth_element) (hgroups : doctypeDepth cd.doctype ≤ maxDepth_children) (hchk : checkDoc d' = .ok ()) :
    ∃ f0, ∀ f, f0 ≤ f → parseDocFuel env false f out = .ok (d', []) := by
  subst ho
  exact C04.print_newline_roundtrip d' cd hc hok hf hdepth hgroups hchk

end XmlRs.C17
