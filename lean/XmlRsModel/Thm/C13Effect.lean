import XmlRsModel.Lemmas.DomEffect
import XmlRsModel.Thm.C12
import XmlRsModel.Lemmas.DomNormal
/-! Property C13, the EFFECT half: a successful tree mutator performs exactly the change DOM Level 1
    specifies, including the move of a node that is already in the tree.  Stated on the child-id
    lists read off the model's forest, for every state satisfying the invariant of C12 (every state
    reachable from a parsed document, `C12.inv_run`). -/
namespace XmlRs.C13
open XmlRs XmlRs.Dom List

/-- `insertBefore(newChild, refChild)`: the parent's children afterwards are its former children
    without `newChild`, in their order, with `newChild` in front of the (adjusted) reference child -/
theorem insertBefore_effect (s s' : St) (p c c' : Nat) (ref : Option Nat) (hi : Inv s)
    (h : insertChild s p c ref = (s', .node c')) :
    ∃ pn pn', s.find p = some pn ∧ s'.find p = some pn' ∧
      pn'.kids.map (·.id) = insertBeforeIds c (adjustRef pn c ref) ((pn.kids.map (·.id)).filter (· != c)) :=
  insertChild_effect s s' p c c' ref hi h

/-- `appendChild(newChild)`: `newChild` becomes the LAST child; if it was a child of this parent
    already it is first removed from its old place; every other child keeps its place -/
theorem appendChild_effect (s s' : St) (p c c' : Nat) (hi : Inv s) (h : step s (.appendChild p c) = (s', .node c')) :
    ∃ pn pn', s.find p = some pn ∧ s'.find p = some pn' ∧
      pn'.kids.map (·.id) = (pn.kids.map (·.id)).filter (· != c) ++ [c] := by
  simp only [step] at h
  obtain ⟨pn, pn', hp, hp', hk⟩ := insertChild_effect s s' p c c' none hi h
  refine ⟨pn, pn', hp, hp', ?_⟩
  rw [hk]
  have : adjustRef pn c none = none := rfl
  rw [this, insertBeforeIds_none]

/-- … and afterwards `newChild` reports that parent (the two views agree, C12) -/
theorem appendChild_sets_parent (s s' : St) (p c c' : Nat) (hi : Inv s) (h : step s (.appendChild p c) = (s', .node c')) :
    s'.parent c = some p := by
  obtain ⟨pn, pn', hp, hp', hk⟩ := appendChild_effect s s' p c c' hi h
  have hi' : Inv s' := by
    have := C12.inv_step s (.appendChild p c) hi
    rw [h] at this; exact this
  apply C12.child_reports_parent s' hi' p c pn' hp'
  have hm : c ∈ pn'.kids.map (·.id) := by rw [hk]; simp
  simp only [List.mem_map] at hm
  obtain ⟨k, hk1, hk2⟩ := hm
  exact List.any_eq_true.mpr ⟨k, hk1, by simpa using hk2⟩

/-- `removeChild(oldChild)`: the parent keeps its other children in their order; what is handed back
    is the very subtree, now the root of a detached tree, without parent -/
theorem removeChild_effect' (s s' : St) (p c c' : Nat) (hi : Inv s) (h : step s (.removeChild p c) = (s', .node c')) :
    ∃ pn pn' cn, s.find p = some pn ∧ s.find c = some cn ∧ s'.find p = some pn' ∧
      pn'.kids.map (·.id) = (pn.kids.map (·.id)).filter (· != c) ∧ cn ∈ s'.detached ∧ s'.parent c = none := by
  simp only [step] at h
  obtain ⟨pn, pn', cn, hp, hc, hp', hk, hdet⟩ := removeChild_effect s s' p c c' hi h
  refine ⟨pn, pn', cn, hp, hc, hp', hk, hdet, ?_⟩
  have hi' : Inv s' := by
    have := C12.inv_step s (.removeChild p c) hi
    simp only [step] at this
    rw [h] at this; exact this
  have hid := (findInL_some c s.roots cn hc).1
  have := C12.root_has_no_parent s' hi' cn (by simp [St.roots, hdet])
  rw [hid] at this; exact this

/-- `replaceChild(newChild, oldChild)` with two different nodes: `oldChild` is handed back, and the parent's children
    afterwards are its former children without `newChild` (if it was among them it is first removed), in their order,
    with `newChild` standing where `oldChild` stood -/
theorem replaceChild_effect (s s' : St) (p new old r : Nat) (hi : Inv s) (hne : new ≠ old)
    (h : step s (.replaceChild p new old) = (s', .node r)) :
    ∃ pn pn', s.find p = some pn ∧ s'.find p = some pn' ∧ r = old ∧
      pn'.kids.map (·.id) = ((pn.kids.map (·.id)).filter (· != new)).map (fun x => if x = old then new else x) := by
  simp only [step] at h
  cases hp : s.find p with
  | none => simp [hp] at h
  | some pn =>
    have hno : (new == old) = false := by simpa using hne
    simp only [hp, hno, Bool.false_eq_true, if_false] at h
    cases hrm : removeChild s p old with
    | mk s1 res1 =>
      simp only [hrm] at h
      cases res1 with
      | node x =>
        simp only at h
        cases hin : insertChild s1 p new
            ((((pn.kids.dropWhile (·.id != old)).drop 1).filter (·.id != new)).head?.map (·.id)) with
        | mk s2 res2 =>
          simp only [hin] at h
          cases res2 with
          | node y =>
            simp only [Prod.mk.injEq, Res.node.injEq] at h
            obtain ⟨rfl, rfl⟩ := h
            obtain ⟨pn0, pn1, cn, hp0, hc0, hp1, hk1, _⟩ := removeChild_effect s s1 p old x hi hrm
            rw [hp] at hp0; cases hp0
            have hi1 : Inv s1 := by
              have := C12.inv_step s (.removeChild p old) hi
              simp only [step, hrm] at this; exact this
            obtain ⟨pn1', pn2, hp1', hp2, hk2⟩ := insertChild_effect s1 s2 p new y _ hi1 hin
            rw [hp1] at hp1'; cases hp1'
            refine ⟨pn, pn2, rfl, hp2, rfl, ?_⟩
            rw [hk2, hk1, ref_ids]
            have hnd := kids_ids_nodup s hi p pn hp
            -- old is a child of p (removeChild succeeded): it is in the list
            have hmem : old ∈ pn.kids.map (·.id) := by
              obtain ⟨pn', s1', x', hp', _, hany, _, _⟩ := removeChild_ok_shape s s1 p old x hrm
              rw [hp] at hp'; cases hp'
              obtain ⟨k, hk, hkc⟩ := List.any_eq_true.mp hany
              exact List.mem_map.mpr ⟨k, hk, by simpa using hkc⟩
            -- the reference is not the new child itself
            have hadj : ∀ (ro : Option Nat), (∀ i, ro = some i → i ≠ new) → adjustRef pn1 new ro = ro := by
              intro ro hro
              cases ro with
              | none => rfl
              | some i =>
                have : (i == new) = false := by simpa using hro i rfl
                simp [adjustRef, this]
            rw [hadj]
            · exact replace_ids old new hne _ hnd hmem
            · intro i hi'
              have := head?_mem_of hi'
              simpa using (List.mem_filter.mp this).2
          | _ => simp at h
      | _ => simp at h

end XmlRs.C13

namespace XmlRs.C13
open XmlRs XmlRs.Dom List

/-- `normalize()`: it always succeeds on a node that exists; the element is afterwards its normalized form, which reads
    exactly as before - same marks (identity, kind, data of every node that is not a Text node, attributes included) and
    same characters in the same places; only the cutting of character data into Text nodes changed -/
theorem normalize_effect (s : St) (e : Nat) (en : Node) (hi : Inv s) (hf : s.find e = some en) :
    (step s (.normalize e)).2 = .ok ∧
    (step s (.normalize e)).1.find e = some (normNode en).1 ∧ tokens (normNode en).1 = tokens en := by
  have hstep : step s (.normalize e) = ({ (s.update e fun n => (normNode n).1) with
      detached := (s.update e fun n => (normNode n).1).detached ++ (normNode en).2 }, .ok) := by
    simp only [step, hf]
  rw [hstep]
  refine ⟨rfl, ?_, normNode_tokens en⟩
  have hk : KeepsId (fun n => (normNode n).1) := by
    intro n; cases n with
    | mk j k d as ks => cases k <;> rfl
  have h1 := find_update s e (fun n => (normNode n).1) hk en hi.1 hf
  unfold St.find at h1 ⊢
  show findInL e ((s.update e fun n => (normNode n).1).doc :: ((s.update e fun n => (normNode n).1).detached ++ (normNode en).2)) = _
  have : (s.update e fun n => (normNode n).1).doc :: ((s.update e fun n => (normNode n).1).detached ++ (normNode en).2)
       = (s.update e fun n => (normNode n).1).roots ++ (normNode en).2 := by simp [St.roots]
  rw [this]
  exact findInL_append_left e _ _ _ h1

/-- … and that form is normal: below the element and in its attribute values no Text node is empty, and no Text node
    follows a Text node it could have been appended to (two stay apart only where their data together would not be
    character data, `a]]` + `>b`) -/
theorem normalize_reaches_normal_form (en : Node) : isNormal (normNode en).1 = true := normNode_normal en

/-- … and no node is lost or duplicated by it: every node is afterwards in the normalized tree or a detached root -/
theorem normalize_preserves_nodes (s : St) (e : Nat) (hi : Inv s) : SameIds s (step s (.normalize e)).1 :=
  normalize_sameIds s e hi

/-! ### the factories and the reads
    A factory call that succeeds makes ONE node: new (its id was never used), outside the document, without parent, children or
    attributes, of the kind and with the name / data asked for; the document and every other tree are as they were.  A name that
    is not a name of the kind is INVALID_CHARACTER_ERR and makes nothing.  A read (`getAttributeNode`, `childNodes.item`) changes
    no tree. -/

/-- the state after a factory call that made node `i` of kind `k` with data `d` -/
def Made (s s' : St) (i : Nat) (k : Kind) (d : Str) : Prop :=
  i = s.next ∧ s'.doc = s.doc ∧ s'.detached = s.detached ++ [.mk i k d [] []] ∧ s'.next = s.next + 1

theorem createElement_effect (s : St) (name : Str) :
    (validQName name = true → ∃ s' i, step s (.createElement name) = (s', .node i) ∧ Made s s' i (.elem name) []) ∧
    (validQName name = false → ∃ s', step s (.createElement name) = (s', .err .invalidChar) ∧ s'.doc = s.doc ∧ s'.detached = s.detached) := by
  constructor
  · intro h; simp only [step, h, if_true, St.fresh]; exact ⟨_, _, rfl, rfl, rfl, rfl, rfl⟩
  · intro h; simp only [step, h, Bool.false_eq_true, if_false]; exact ⟨_, rfl, rfl, rfl⟩

theorem createAttribute_effect (s : St) (name : Str) :
    (validQName name = true → ∃ s' i, step s (.createAttribute name) = (s', .node i) ∧ Made s s' i (.attr name true) []) ∧
    (validQName name = false → ∃ s', step s (.createAttribute name) = (s', .err .invalidChar) ∧ s'.doc = s.doc ∧ s'.detached = s.detached) := by
  constructor
  · intro h; simp only [step, h, if_true, St.fresh]; exact ⟨_, _, rfl, rfl, rfl, rfl, rfl⟩
  · intro h; simp only [step, h, Bool.false_eq_true, if_false]; exact ⟨_, rfl, rfl, rfl⟩

theorem createPI_effect (s : St) (t d : Str) :
    ((validPITarget t && validPI t d) = true → ∃ s' i, step s (.createPI t d) = (s', .node i) ∧ Made s s' i (.pi t) (storedPIData d)) ∧
    ((validPITarget t && validPI t d) = false → ∃ s', step s (.createPI t d) = (s', .err .invalidChar) ∧ s'.doc = s.doc ∧ s'.detached = s.detached) := by
  constructor
  · intro h; simp only [step, h, if_true, St.fresh]; exact ⟨_, _, rfl, rfl, rfl, rfl, rfl⟩
  · intro h; simp only [step, h, Bool.false_eq_true, if_false]; exact ⟨_, rfl, rfl, rfl⟩

theorem createText_effect (s : St) (d : Str) (h : validText d = true) :
    ∃ s' i, step s (.createText d) = (s', .node i) ∧ Made s s' i .text d := by
  simp only [step, h, if_true, St.fresh]; exact ⟨_, _, rfl, rfl, rfl, rfl, rfl⟩

theorem createComment_effect (s : St) (d : Str) (h : validComment d = true) :
    ∃ s' i, step s (.createComment d) = (s', .node i) ∧ Made s s' i .comment d := by
  simp only [step, h, if_true, St.fresh]; exact ⟨_, _, rfl, rfl, rfl, rfl, rfl⟩

theorem createCData_effect (s : St) (d : Str) (h : validCData d = true) :
    ∃ s' i, step s (.createCData d) = (s', .node i) ∧ Made s s' i .cdata d := by
  simp only [step, h, if_true, St.fresh]; exact ⟨_, _, rfl, rfl, rfl, rfl, rfl⟩

/-- an entity reference can be made for a name that is a Name and stands for an entity the document knows (here: the
    predefined ones); a string that is not a Name is INVALID_CHARACTER_ERR whatever it begins with -/
theorem createEntityRef_effect (s : St) (name : Str) :
    (validName name = false → ∃ s', step s (.createEntityRef name) = (s', .err .invalidChar) ∧ s'.doc = s.doc ∧ s'.detached = s.detached) ∧
    (validName name = true → (predefined.find? (·.1 == name)).isSome = true →
       ∃ s' i, step s (.createEntityRef name) = (s', .node i) ∧ Made s s' i (.ref name) []) := by
  constructor
  · intro h; simp only [step, h, Bool.not_false, if_true]; exact ⟨_, rfl, rfl, rfl⟩
  · intro h hp; simp only [step, h, Bool.not_true, Bool.false_eq_true, if_false, hp, if_true, St.fresh]; exact ⟨_, _, rfl, rfl, rfl, rfl, rfl⟩

/-- the reads leave every tree as it is (they only hand out a handle) -/
theorem reads_change_no_tree (s : St) :
    (∀ e name, (step s (.getAttributeNode e name)).1.doc = s.doc ∧ (step s (.getAttributeNode e name)).1.detached = s.detached) ∧
    (∀ n i, (step s (.childAt n i)).1.doc = s.doc ∧ (step s (.childAt n i)).1.detached = s.detached) := by
  constructor
  · intro e name; simp only [step]; repeat' split
    all_goals exact ⟨rfl, rfl⟩
  · intro n i; simp only [step]; repeat' split
    all_goals exact ⟨rfl, rfl⟩

/-! ### the CharacterData mutators on the tree
    A CharacterData call that succeeds changes the data of the ONE node it was made on, to the string the DOM Level 1 function
    computes from the old data (the string functions are the subject of C16); its identity, kind, place and everything else in
    every tree stay. -/

theorem withData_keepsId (d : Str) : KeepsId (Node.withData d) := fun n => by cases n; rfl

/-- the five mutators `setData / appendData / insertData / deleteData / replaceData` go through one function: on success the
    node found under `n` afterwards is the old node with the new data -/
theorem dataOp_effect (s s' : St) (n : Nat) (f : Str → Option Str) (nn : Node) (hi : Inv s) (hf : s.find n = some nn)
    (hk : isCharData nn.kind = true) (h : step.dataOp s n f = (s', .ok)) :
    ∃ d', f nn.data = some d' ∧ validData nn.kind d' = true ∧ s'.find n = some (nn.withData d') := by
  unfold step.dataOp at h
  simp only [hf] at h
  cases hd : f nn.data with
  | none => cases hkk : nn.kind <;> simp_all [isCharData]
  | some d' =>
    by_cases hv : validData nn.kind d' = true
    · refine ⟨d', rfl, hv, ?_⟩
      have key := find_update s n (Node.withData d') (withData_keepsId d') nn hi.1 hf
      cases hkk : nn.kind <;> simp_all [isCharData]
      all_goals (rw [← h]; exact key)
    · cases hkk : nn.kind <;> simp_all [isCharData]

/-- `appendData`: the data afterwards is the old data followed by the argument -/
theorem appendData_effect (s s' : St) (n : Nat) (d : Str) (nn : Node) (hi : Inv s) (hf : s.find n = some nn)
    (hk : isCharData nn.kind = true) (h : step s (.appendData n d) = (s', .ok)) :
    s'.find n = some (nn.withData (nn.data ++ d)) := by
  obtain ⟨d', hd, _, hfind⟩ := dataOp_effect s s' n _ nn hi hf hk (by simpa only [step] using h)
  simp only [Option.some.injEq] at hd
  subst hd
  exact hfind

/-- `setData`: the data afterwards is the argument -/
theorem setData_effect (s s' : St) (n : Nat) (d : Str) (nn : Node) (hi : Inv s) (hf : s.find n = some nn)
    (hk : isCharData nn.kind = true) (h : step s (.setData n d) = (s', .ok)) :
    s'.find n = some (nn.withData d) := by
  obtain ⟨d', hd, _, hfind⟩ := dataOp_effect s s' n _ nn hi hf hk (by simpa only [step] using h)
  simp only [Option.some.injEq] at hd
  subst hd
  exact hfind

/-- `deleteData` / `insertData` / `replaceData`: the data afterwards is what the DOM Level 1 string function gives (C16) -/
theorem deleteData_effect (s s' : St) (n off cnt : Nat) (nn : Node) (hi : Inv s) (hf : s.find n = some nn)
    (hk : isCharData nn.kind = true) (h : step s (.deleteData n off cnt) = (s', .ok)) :
    ∃ d', CharData.deleteData nn.data off cnt = some d' ∧ s'.find n = some (nn.withData d') := by
  obtain ⟨d', hd, _, hfind⟩ := dataOp_effect s s' n _ nn hi hf hk (by simpa only [step] using h)
  exact ⟨d', hd, hfind⟩

theorem insertData_effect (s s' : St) (n off : Nat) (d : Str) (nn : Node) (hi : Inv s) (hf : s.find n = some nn)
    (hk : isCharData nn.kind = true) (h : step s (.insertData n off d) = (s', .ok)) :
    ∃ d', CharData.insertData nn.data off d = some d' ∧ s'.find n = some (nn.withData d') := by
  obtain ⟨d', hd, _, hfind⟩ := dataOp_effect s s' n _ nn hi hf hk (by simpa only [step] using h)
  exact ⟨d', hd, hfind⟩

theorem replaceData_effect (s s' : St) (n off cnt : Nat) (d : Str) (nn : Node) (hi : Inv s) (hf : s.find n = some nn)
    (hk : isCharData nn.kind = true) (h : step s (.replaceData n off cnt d) = (s', .ok)) :
    ∃ d', CharData.replaceData nn.data off cnt d = some d' ∧ s'.find n = some (nn.withData d') := by
  obtain ⟨d', hd, _, hfind⟩ := dataOp_effect s s' n _ nn hi hf hk (by simpa only [step] using h)
  exact ⟨d', hd, hfind⟩

end XmlRs.C13
