import XmlRsModel.Lemmas.DomEffect
import XmlRsModel.Thm.C12
/-! Property C13, the EFFECT half: a successful tree mutator performs exactly the change DOM Level 1
    specifies, including the move of a node that is already in the tree.  Stated on the child-id
    lists read off the model's forest, for every state satisfying the invariant of C12 (every state
    reachable from a parsed document, `C12.inv_run`). -/
namespace XmlRs.C13
open XmlRs XmlRs.Dom List

/-- `insertBefore(newChild, refChild)`: the parent's children afterwards are its former children
    without `newChild`, in their order, with `newChild` in front of the (adjusted) reference child -/
theorem insertBefore_effect (s s' : St) (p c c' : Nat) (ref : Option Nat) (hi : Inv s)
    (h : insertChild s p c ref = (s', .node c')) :
    ∃ pn pn', s.find p = some pn ∧ s'.find p = some pn' ∧
      pn'.kids.map (·.id) = insertBeforeIds c (adjustRef pn c ref) ((pn.kids.map (·.id)).filter (· != c)) :=
  insertChild_effect s s' p c c' ref hi h

/-- `appendChild(newChild)`: `newChild` becomes the LAST child; if it was a child of this parent
    already it is first removed from its old place; every other child keeps its place -/
theorem appendChild_effect (s s' : St) (p c c' : Nat) (hi : Inv s) (h : step s (.appendChild p c) = (s', .node c')) :
    ∃ pn pn', s.find p = some pn ∧ s'.find p = some pn' ∧
      pn'.kids.map (·.id) = (pn.kids.map (·.id)).filter (· != c) ++ [c] := by
  simp only [step] at h
  obtain ⟨pn, pn', hp, hp', hk⟩ := insertChild_effect s s' p c c' none hi h
  refine ⟨pn, pn', hp, hp', ?_⟩
  rw [hk]
  have : adjustRef pn c none = none := rfl
  rw [this, insertBeforeIds_none]

/-- … and afterwards `newChild` reports that parent (the two views agree, C12) -/
theorem appendChild_sets_parent (s s' : St) (p c c' : Nat) (hi : Inv s) (h : step s (.appendChild p c) = (s', .node c')) :
    s'.parent c = some p := by
  obtain ⟨pn, pn', hp, hp', hk⟩ := appendChild_effect s s' p c c' hi h
  have hi' : Inv s' := by
    have := C12.inv_step s (.appendChild p c) hi
    rw [h] at this; exact this
  apply C12.child_reports_parent s' hi' p c pn' hp'
  have hm : c ∈ pn'.kids.map (·.id) := by rw [hk]; simp
  simp only [List.mem_map] at hm
  obtain ⟨k, hk1, hk2⟩ := hm
  exact List.any_eq_true.mpr ⟨k, hk1, by simpa using hk2⟩

/-- `removeChild(oldChild)`: the parent keeps its other children in their order; what is handed back
    is the very subtree, now the root of a detached tree, without parent -/
theorem removeChild_effect' (s s' : St) (p c c' : Nat) (hi : Inv s) (h : step s (.removeChild p c) = (s', .node c')) :
    ∃ pn pn' cn, s.find p = some pn ∧ s.find c = some cn ∧ s'.find p = some pn' ∧
      pn'.kids.map (·.id) = (pn.kids.map (·.id)).filter (· != c) ∧ cn ∈ s'.detached ∧ s'.parent c = none := by
  simp only [step] at h
  obtain ⟨pn, pn', cn, hp, hc, hp', hk, hdet⟩ := removeChild_effect s s' p c c' hi h
  refine ⟨pn, pn', cn, hp, hc, hp', hk, hdet, ?_⟩
  have hi' : Inv s' := by
    have := C12.inv_step s (.removeChild p c) hi
    simp only [step] at this
    rw [h] at this; exact this
  have hid := (findInL_some c s.roots cn hc).1
  have := C12.root_has_no_parent s' hi' cn (by simp [St.roots, hdet])
  rw [hid] at this; exact this

end XmlRs.C13
