import XmlRsModel.XPath.Eval
/-! Property C10: namespaces resolve per Namespaces in XML; name tests match expanded names.
    `inScope` (in-scope namespaces of an element from its own declarations and the inherited ones),
    `expandedName` and `nodeTest` are characterised: nearest declaration wins, the default namespace
    applies to unprefixed elements and never to attributes, `xmlns=""` undeclares it, `xml` stays
    bound, and a name test looks only at the expanded name — never at the prefix the document uses. -/
namespace XmlRs.C10
open XmlRs XmlRs.XPath

/-- a prefix resolves to the nearest enclosing declaration: the element's own declaration wins -/
theorem inScope_own_wins (own inh : List (Str × Str)) (p u : Str) (hu : ¬ (p.isEmpty ∧ u.isEmpty))
    (h : (p, u) ∈ own) : (p, u) ∈ inScope own inh := by
  simp only [inScope, List.mem_filter, List.mem_append]
  refine ⟨Or.inl h, ?_⟩
  simp only [Bool.not_eq_true', Bool.and_eq_false_iff]
  by_cases hp : p.isEmpty
  · right; simpa [hp] using hu
  · left; simpa using hp

/-- ... and what the element does not redeclare is inherited -/
theorem inScope_inherits (own inh : List (Str × Str)) (p u : Str) (hu : ¬ (p.isEmpty ∧ u.isEmpty))
    (h : (p, u) ∈ inh) (hno : ∀ v, (p, v) ∉ own) : (p, u) ∈ inScope own inh := by
  simp only [inScope, List.mem_filter, List.mem_append]
  refine ⟨Or.inr ⟨h, ?_⟩, ?_⟩
  · simp only [Bool.not_eq_true', List.any_eq_false, beq_iff_eq]
    intro x hx heq
    obtain ⟨a, b⟩ := x
    simp only at heq; subst heq
    exact hno b hx
  · simp only [Bool.not_eq_true', Bool.and_eq_false_iff]
    by_cases hp : p.isEmpty
    · right; simpa [hp] using hu
    · left; simpa using hp

/-- a redeclared prefix hides the inherited binding -/
theorem inScope_shadows (own inh : List (Str × Str)) (p u v : Str) (h : (p, v) ∈ own) (hne : ∀ w, (p, w) ∈ own → w ≠ u) :
    (p, u) ∉ inScope own inh := by
  simp only [inScope, List.mem_filter, List.mem_append, not_and, Bool.not_eq_true']
  rintro (h1 | ⟨_, h2⟩)
  · exact absurd rfl (hne u h1)
  · simp only [Bool.not_eq_true', List.any_eq_false, beq_iff_eq] at h2
    exact absurd rfl (h2 (p, v) h)

/-- `xmlns=""` undeclares the default namespace: no binding for the empty prefix survives -/
theorem empty_default_undeclares (own inh : List (Str × Str)) (h : ([], []) ∈ own)
    (honly : ∀ w, ([], w) ∈ own → w = []) (u : Str) : ([], u) ∉ inScope own inh := by
  simp only [inScope, List.mem_filter, List.mem_append, not_and, Bool.not_eq_true']
  rintro (h1 | ⟨_, h2⟩)
  · have := honly u h1; subst this; simp
  · simp only [Bool.not_eq_true', List.any_eq_false, beq_iff_eq] at h2
    exact absurd rfl (h2 ([], []) h)

/-- the `xml` prefix stays bound as long as the element does not redeclare it -/
theorem xml_stays_bound (own inh : List (Str × Str)) (h : ("xml".toList, xmlNsUri) ∈ inh)
    (hno : ∀ v, ("xml".toList, v) ∉ own) : ("xml".toList, xmlNsUri) ∈ inScope own inh :=
  inScope_inherits own inh _ _ (by decide) h hno

theorem xml_bound_at_the_root : ("xml".toList, xmlNsUri) ∈ defaultScope := by simp [defaultScope]

/-- the default namespace never applies to attributes: an unprefixed attribute has no namespace -/
theorem default_not_for_attributes (d : XDoc) (k : Key) (owner : XNode) (l v : Str)
    (h : lookup d k = some (.attr owner ⟨none, l⟩ v)) : expandedName d k = some (l, []) := by
  simp [expandedName, h]

/-- an unprefixed element is in the default namespace that is in scope on it (none: no namespace) -/
theorem default_for_elements (d : XDoc) (k : Key) (l : Str) (ns : List (Str × Str)) (as : List (QN × Str)) (ks : List XNode)
    (h : lookup d k = some (.node (.elem ⟨none, l⟩ ns as ks))) :
    expandedName d k = some (l, ((ns.find? (·.1.isEmpty)).map (·.2)).getD []) := by
  simp [expandedName, h]

/-- a prefixed name is resolved with the element's in-scope namespaces -/
theorem prefixed_element (d : XDoc) (k : Key) (p l : Str) (ns : List (Str × Str)) (as : List (QN × Str)) (ks : List XNode)
    (h : lookup d k = some (.node (.elem ⟨some p, l⟩ ns as ks))) :
    expandedName d k = some (l, ((ns.find? (·.1 == p)).map (·.2)).getD []) := by
  simp [expandedName, h]

/-- name tests compare EXPANDED names with the caller's bindings: two documents (or two nodes) that
    agree on node kind and expanded name give the same answer to every name test, whatever prefixes
    they use — so renaming prefixes consistently in a document cannot change a result -/
theorem nametest_sees_only_expanded_names (env env' : XPath.Env) (a : Axis) (t : NodeTest) (k k' : Key)
    (hns : env.ns = env'.ns)
    (hkind : kindOf env.doc k = kindOf env'.doc k')
    (hname : expandedName env.doc k = expandedName env'.doc k') :
    nodeTest env a t k = nodeTest env' a t k' := by
  cases t <;> simp [nodeTest, bindingOf, hns, hkind, hname]

/-- ... and renaming the prefixes of the expression together with the caller's bindings changes
    nothing either: only the URI a prefix is bound to enters the test -/
theorem nametest_prefix_irrelevant (env env' : XPath.Env) (a : Axis) (p p' l : Str) (k : Key)
    (hdoc : env.doc = env'.doc) (hb : bindingOf env (some p) = bindingOf env' (some p')) :
    nodeTest env a (.name ⟨some p, l⟩) k = nodeTest env' a (.name ⟨some p', l⟩) k ∧
    nodeTest env a (.nsAny p) k = nodeTest env' a (.nsAny p') k := by
  simp [nodeTest, hdoc, hb]

end XmlRs.C10
