import XmlRsModel.XPath.Eval
/-! Property C10: namespaces resolve per Namespaces in XML; name tests match expanded names.
    `inScope` (in-scope namespaces of an element from its own declarations and the inherited ones),
    `expandedName` and `nodeTest` are characterised: nearest declaration wins, the default namespace
    applies to unprefixed elements and never to attributes, `xmlns=""` undeclares it, `xml` stays
    bound, and a name test looks only at the expanded name — never at the prefix the document uses. -/
namespace XmlRs.C10
open XmlRs XmlRs.XPath

/-- a prefix resolves to the nearest enclosing declaration: the element's own declaration wins -/
theorem inScope_own_wins (own inh : List (Str × Str)) (p u : Str) (hu : ¬ (p.isEmpty ∧ u.isEmpty))
    (h : (p, u) ∈ own) : (p, u) ∈ inScope own inh := by
  simp only [inScope, List.mem_filter, List.mem_append]
  refine ⟨Or.inl h, ?_⟩
  simp only [Bool.not_eq_true', Bool.and_eq_false_iff]
  by_cases hp : p.isEmpty
  · right; simpa [hp] using hu
  · left; simpa using hp

/-- ... and what the element does not redeclare is inherited -/
theorem inScope_inherits (own inh : List (Str × Str)) (p u : Str) (hu : ¬ (p.isEmpty ∧ u.isEmpty))
    (h : (p, u) ∈ inh) (hno : ∀ v, (p, v) ∉ own) : (p, u) ∈ inScope own inh := by
  simp only [inScope, List.mem_filter, List.mem_append]
  refine ⟨Or.inr ⟨h, ?_⟩, ?_⟩
  · simp only [Bool.not_eq_true', List.any_eq_false, beq_iff_eq]
    intro x hx heq
    obtain ⟨a, b⟩ := x
    simp only at heq; subst heq
    exact hno b hx
  · simp only [Bool.not_eq_true', Bool.and_eq_false_iff]
    by_cases hp : p.isEmpty
    · right; simpa [hp] using hu
    · left; simpa using hp

/-- a redeclared prefix hides the inherited binding -/
theorem inScope_shadows (own inh : List (Str × Str)) (p u v : Str) (h : (p, v) ∈ own) (hne : ∀ w, (p, w) ∈ own → w ≠ u) :
    (p, u) ∉ inScope own inh := by
  simp only [inScope, List.mem_filter, List.mem_append, not_and, Bool.not_eq_true']
  rintro (h1 | ⟨_, h2⟩)
  · exact absurd rfl (hne u h1)
  · simp only [Bool.not_eq_true', List.any_eq_false, beq_iff_eq] at h2
    exact absurd rfl (h2 (p, v) h)

/-- `xmlns=""` undeclares the default namespace: no binding for the empty prefix survives -/
theorem empty_default_undeclares (own inh : List (Str × Str)) (h : ([], []) ∈ own)
    (honly : ∀ w, ([], w) ∈ own → w = []) (u : Str) : ([], u) ∉ inScope own inh := by
  simp only [inScope, List.mem_filter, List.mem_append, not_and, Bool.not_eq_true']
  rintro (h1 | ⟨_, h2⟩)
  · have := honly u h1; subst this; simp
  · simp only [Bool.not_eq_true', List.any_eq_false, beq_iff_eq] at h2
    exact absurd rfl (h2 ([], []) h)

/-- the `xml` prefix stays bound as long as the element does not redeclare it -/
theorem xml_stays_bound (own inh : List (Str × Str)) (h : ("xml".toList, xmlNsUri) ∈ inh)
    (hno : ∀ v, ("xml".toList, v) ∉ own) : ("xml".toList, xmlNsUri) ∈ inScope own inh :=
  inScope_inherits own inh _ _ (by decide) h hno

theorem xml_bound_at_the_root : ("xml".toList, xmlNsUri) ∈ defaultScope := by simp [defaultScope]

/-- the default namespace never applies to attributes: an unprefixed attribute has no namespace -/
theorem default_not_for_attributes (d : XDoc) (k : Key) (owner : XNode) (l v : Str)
    (h : lookup d k = some (.attr owner ⟨none, l⟩ v)) : expandedName d k = some (l, []) := by
  simp [expandedName, h]

/-- an unprefixed element is in the default namespace that is in scope on it (none: no namespace) -/
theorem default_for_elements (d : XDoc) (k : Key) (l : Str) (ns : List (Str × Str)) (as : List (QN × Str)) (ks : List XNode)
    (h : lookup d k = some (.node (.elem ⟨none, l⟩ ns as ks))) :
    expandedName d k = some (l, ((ns.find? (·.1.isEmpty)).map (·.2)).getD []) := by
  simp [expandedName, h]

/-- a prefixed name is resolved with the element's in-scope namespaces -/
theorem prefixed_element (d : XDoc) (k : Key) (p l : Str) (ns : List (Str × Str)) (as : List (QN × Str)) (ks : List XNode)
    (h : lookup d k = some (.node (.elem ⟨some p, l⟩ ns as ks))) :
    expandedName d k = some (l, ((ns.find? (·.1 == p)).map (·.2)).getD []) := by
  simp [expandedName, h]

/-- name tests compare EXPANDED names with the caller's bindings: two documents (or two nodes) that
    agree on node kind and expanded name give the same answer to every name test, whatever prefixes
    they use — so renaming prefixes consistently in a document cannot change a result -/
theorem nametest_sees_only_expanded_names (env env' : XPath.Env) (a : Axis) (t : NodeTest) (k k' : Key)
    (hns : env.ns = env'.ns)
    (hkind : kindOf env.doc k = kindOf env'.doc k')
    (hname : expandedName env.doc k = expandedName env'.doc k') :
    nodeTest env a t k = nodeTest env' a t k' := by
  cases t <;> simp [nodeTest, bindingOf, hns, hkind, hname]

/-- ... and renaming the prefixes of the expression together with the caller's bindings changes
    nothing either: only the URI a prefix is bound to enters the test -/
theorem nametest_prefix_irrelevant (env env' : XPath.Env) (a : Axis) (p p' l : Str) (k : Key)
    (hdoc : env.doc = env'.doc) (hb : bindingOf env (some p) = bindingOf env' (some p')) :
    nodeTest env a (.name ⟨some p, l⟩) k = nodeTest env' a (.name ⟨some p', l⟩) k ∧
    nodeTest env a (.nsAny p) k = nodeTest env' a (.nsAny p') k := by
  simp [nodeTest, hdoc, hb]

/-! ### the renaming clause on the DOCUMENT side: "results do not change when prefixes are renamed
    consistently in the document".  `renDoc ρ d` renames every prefix of `d` - on element names, on attribute
    names and in the in-scope namespaces of every element - by an injective `ρ` that keeps "no prefix" apart
    from every prefix (`ρ [] = []`).  Every key then denotes a node of the same kind with the same expanded
    name, the document has the same keys in the same order, and so every node test answers as before for every
    node other than a namespace node (whose expanded name IS the prefix: `namespace::p` is the one test the
    renaming is allowed to change, and the checks exempt it for that reason). -/

def renQ (ρ : Str → Str) (q : QN) : QN := ⟨q.pre.map ρ, q.loc⟩
def renNs (ρ : Str → Str) (b : Str × Str) : Str × Str := (ρ b.1, b.2)
def renAt (ρ : Str → Str) (a : QN × Str) : QN × Str := (renQ ρ a.1, a.2)

mutual
def renNode (ρ : Str → Str) : XNode → XNode
  | .elem q ns as ks => .elem (renQ ρ q) (ns.map (renNs ρ)) (as.map (renAt ρ)) (renNodes ρ ks)
  | .text s => .text s
  | .comment s => .comment s
  | .pi t s => .pi t s
def renNodes (ρ : Str → Str) : List XNode → List XNode
  | [] => []
  | n :: r => renNode ρ n :: renNodes ρ r
end

def renDoc (ρ : Str → Str) (d : XDoc) : XDoc := { d with kids := renNodes ρ d.kids }

def renTarget (ρ : Str → Str) : Target → Target
  | .root => .root
  | .node n => .node (renNode ρ n)
  | .attr o q v => .attr (renNode ρ o) (renQ ρ q) v
  | .ns o p u => .ns (renNode ρ o) (ρ p) u

theorem renNodes_map (ρ : Str → Str) : ∀ ks, renNodes ρ ks = ks.map (renNode ρ)
  | [] => rfl
  | n :: r => by simp [renNodes, renNodes_map ρ r]

theorem renNode_kids (ρ : Str → Str) (n : XNode) : (renNode ρ n).kids = renNodes ρ n.kids := by
  cases n <;> simp [renNode, XNode.kids, renNodes]

theorem renNode_attrs (ρ : Str → Str) (n : XNode) : (renNode ρ n).attrs = n.attrs.map (renAt ρ) := by
  cases n <;> simp [renNode, XNode.attrs]

theorem renNode_nss (ρ : Str → Str) (n : XNode) : (renNode ρ n).nss = n.nss.map (renNs ρ) := by
  cases n <;> simp [renNode, XNode.nss]

/-- a key denotes, in the renamed document, the renamed target -/
theorem lookupIn_ren (ρ : Str → Str) : ∀ (ks : List XNode) (k : Key),
    lookupIn (renNodes ρ ks) k = (lookupIn ks k).map (renTarget ρ)
  | _, [] => by simp [lookupIn]
  | ks, [i] => by
    by_cases h : i ≥ 2
    · simp only [lookupIn, if_pos h, renNodes_map, List.getElem?_map, Option.map_map]; rfl
    · simp [lookupIn, h]
  | ks, i :: j :: r => by
    by_cases h : i ≥ 2
    · simp only [lookupIn, if_pos h, renNodes_map, List.getElem?_map]
      cases hn : ks[i - 2]? with
      | none => simp
      | some n =>
        simp only [Option.map_some]
        by_cases hj : (j == 0) = true
        · simp only [hj, if_true]
          match r with
          | [k] => simp only [renNode_nss, List.getElem?_map, Option.map_map]; rfl
          | [] => simp
          | _ :: _ :: _ => simp
        · simp only [hj, Bool.false_eq_true, if_false]
          by_cases hj1 : (j == 1) = true
          · simp only [hj1, if_true]
            match r with
            | [k] => simp only [renNode_attrs, List.getElem?_map, Option.map_map]; rfl
            | [] => simp
            | _ :: _ :: _ => simp
          · simp only [hj1, Bool.false_eq_true, if_false]
            rw [renNode_kids]
            exact lookupIn_ren ρ n.kids (j :: r)
    · simp [lookupIn, h]

theorem lookup_ren (ρ : Str → Str) (d : XDoc) (k : Key) : lookup (renDoc ρ d) k = (lookup d k).map (renTarget ρ) := by
  cases k with
  | nil => simp [lookup, renTarget]
  | cons i r => simp only [lookup, renDoc]; exact lookupIn_ren ρ d.kids (i :: r)

theorem renTarget_kind (ρ : Str → Str) (t : Target) : (renTarget ρ t).kind = t.kind := by
  cases t with
  | node n => cases n <;> rfl
  | _ => rfl

/-- every key denotes a node of the same kind in the renamed document -/
theorem kindOf_ren (ρ : Str → Str) (d : XDoc) (k : Key) : kindOf (renDoc ρ d) k = kindOf d k := by
  unfold kindOf
  rw [lookup_ren]
  cases lookup d k <;> simp [renTarget_kind]

/-- the renamed document has the same keys in the same (document) order -/
theorem keysOf_ren (ρ : Str → Str) (w : Bool) : ∀ (n : XNode) (k : Key), keysOf w k (renNode ρ n) = keysOf w k n
  | .elem q ns as ks, k => by
    simp only [renNode, keysOf, List.length_map]
    rw [keysOfL_ren ρ w ks k 0]
  | .text _, _ => rfl
  | .comment _, _ => rfl
  | .pi _ _, _ => rfl
where keysOfL_ren (ρ : Str → Str) (w : Bool) : ∀ (l : List XNode) (k : Key) (i : Nat), keysOfL w k i (renNodes ρ l) = keysOfL w k i l
  | [], _, _ => rfl
  | n :: r, k, i => by simp only [renNodes, keysOfL]; rw [keysOf_ren ρ w n, keysOfL_ren ρ w r]

theorem allKeys_ren (ρ : Str → Str) (d : XDoc) : allKeys (renDoc ρ d) = allKeys d := by
  simp only [allKeys, renDoc]; rw [keysOf_ren.keysOfL_ren]

/-- what `ρ` must satisfy to be a consistent renaming: different prefixes stay different, and "no prefix" (the
    default namespace's entry, prefix `[]`) is kept apart from every prefix -/
structure Consistent (ρ : Str → Str) : Prop where
  inj : ∀ a b, ρ a = ρ b → a = b
  nil : ρ [] = []

theorem Consistent.isEmpty {ρ : Str → Str} (h : Consistent ρ) (p : Str) : (ρ p).isEmpty = p.isEmpty := by
  cases p with
  | nil => simp [h.nil]
  | cons c r =>
    cases hp : ρ (c :: r) with
    | nil => have := h.inj (c :: r) [] (by rw [hp, h.nil]); cases this
    | cons _ _ => rfl

theorem find_ren {ρ : Str → Str} (h : Consistent ρ) (p : Str) : ∀ ns : List (Str × Str),
    ((ns.map (renNs ρ)).find? (·.1 == ρ p)).map (·.2) = (ns.find? (·.1 == p)).map (·.2)
  | [] => rfl
  | b :: r => by
    simp only [List.map_cons, List.find?_cons, renNs]
    by_cases hb : b.1 = p
    · simp [hb]
    · have h2 : ρ b.1 ≠ ρ p := fun e => hb (h.inj _ _ e)
      have e1 : (ρ b.1 == ρ p) = false := by simpa using h2
      have e2 : (b.1 == p) = false := by simpa using hb
      rw [e1, e2]
      exact find_ren h p r

theorem findDefault_ren {ρ : Str → Str} (h : Consistent ρ) : ∀ ns : List (Str × Str),
    ((ns.map (renNs ρ)).find? (·.1.isEmpty)).map (·.2) = (ns.find? (·.1.isEmpty)).map (·.2)
  | [] => rfl
  | b :: r => by
    simp only [List.map_cons, List.find?_cons, renNs, h.isEmpty]
    cases b.1.isEmpty
    · exact findDefault_ren h r
    · rfl

/-- RENAMING THE DOCUMENT'S PREFIXES: every element, attribute and processing instruction keeps its expanded name -/
theorem expandedName_ren {ρ : Str → Str} (h : Consistent ρ) (d : XDoc) (k : Key) (hk : kindOf d k ≠ .ns) :
    expandedName (renDoc ρ d) k = expandedName d k := by
  unfold expandedName
  rw [lookup_ren]
  unfold kindOf at hk
  cases ht : lookup d k with
  | none => rfl
  | some t =>
    rw [ht] at hk
    cases t with
    | root => rfl
    | ns o p u => exact absurd rfl hk
    | attr o q v =>
      simp only [Option.map_some, renTarget, renQ, renNode_nss]
      cases hq : q.pre with
      | none => rfl
      | some p => simp only [Option.map_some]; rw [find_ren h]
    | node n =>
      cases n with
      | elem q ns as ks =>
        simp only [Option.map_some, renTarget, renNode, renQ]
        cases hq : q.pre with
        | none => simp only [Option.map_none]; rw [findDefault_ren h]
        | some p => simp only [Option.map_some]; rw [find_ren h]
      | _ => rfl

/-- ... and therefore EVERY node test gives the same answer for it, on every axis, whatever the caller's bindings:
    a name test cannot tell the renamed document from the original -/
theorem nodeTest_ren {ρ : Str → Str} (h : Consistent ρ) (env : XPath.Env) (a : Axis) (t : NodeTest) (k : Key)
    (hk : kindOf env.doc k ≠ .ns) :
    nodeTest { env with doc := renDoc ρ env.doc } a t k = nodeTest env a t k :=
  nametest_sees_only_expanded_names _ env a t k k rfl (kindOf_ren ρ env.doc k) (expandedName_ren h env.doc k hk)

theorem textDesc_ren (ρ : Str → Str) : ∀ n : XNode, textDesc (renNode ρ n) = textDesc n
  | .elem _ _ _ ks => by simp only [renNode, textDesc]; exact textDescL_ren ρ ks
  | .text _ => rfl
  | .comment _ => rfl
  | .pi _ _ => rfl
where textDescL_ren (ρ : Str → Str) : ∀ l : List XNode, textDescL (renNodes ρ l) = textDescL l
  | [] => rfl
  | n :: r => by simp only [renNodes, textDescL]; rw [textDesc_ren ρ n, textDescL_ren ρ r]

/-- ... and every node keeps its string-value (namespace nodes included: their value is the URI) -/
theorem strVal_ren (ρ : Str → Str) (d : XDoc) (k : Key) : strVal (renDoc ρ d) k = strVal d k := by
  unfold strVal
  rw [lookup_ren]
  cases ht : lookup d k with
  | none => rfl
  | some t =>
    cases t with
    | root => simp only [Option.map_some, renTarget, renDoc]; exact textDesc_ren.textDescL_ren ρ d.kids
    | node n =>
      cases n with
      | elem q ns as ks => simp only [Option.map_some, renTarget, renNode, strValNode]; exact textDesc_ren.textDescL_ren ρ ks
      | _ => rfl
    | attr o q v => rfl
    | ns o p u => rfl

/-- the hypotheses are met by a renaming that is not the identity: `p` becomes `pp`, everything else stays -/
def exRho (s : Str) : Str := if s = ['p'] then ['p', 'p'] else if s = ['p', 'p'] then ['p'] else s
example : Consistent exRho := by
  refine ⟨fun a b hab => ?_, by decide⟩
  unfold exRho at hab
  by_cases ha1 : a = ['p'] <;> by_cases ha2 : a = ['p', 'p'] <;> by_cases hb1 : b = ['p'] <;> by_cases hb2 : b = ['p', 'p'] <;>
    simp only [ha1, ha2, hb1, hb2, if_true, if_false] at hab <;> first | (subst_vars; rfl) | (subst_vars; contradiction) | simp_all

def exDoc : XDoc := { kids := [.elem ⟨some ['p'], ['a']⟩ [(['p'], ['u']), ([], ['d'])] [(⟨some ['p'], ['x']⟩, ['1'])] [.elem ⟨none, ['b']⟩ [(['p'], ['u']), ([], ['d'])] [] []]] }
example : expandedName exDoc [2] = some (['a'], ['u']) ∧ expandedName (renDoc exRho exDoc) [2] = some (['a'], ['u']) ∧
    expandedName (renDoc exRho exDoc) [2, 1, 0] = some (['x'], ['u']) ∧ expandedName (renDoc exRho exDoc) [2, 2] = some (['b'], ['d']) ∧
    qnameOf (renDoc exRho exDoc) [2] = ['p', 'p', ':', 'a'] := by decide

end XmlRs.C10
