import XmlRsModel.XPath.Eval
import XmlRsModel.XPath.Safe
/-! Property C10: namespaces resolve per Namespaces in XML; name tests match expanded names.
    `inScope` (in-scope namespaces of an element from its own declarations and the inherited ones),
    `expandedName` and `nodeTest` are characterised: nearest declaration wins, the default namespace
    applies to unprefixed elements and never to attributes, `xmlns=""` undeclares it, `xml` stays
    bound, and a name test looks only at the expanded name — never at the prefix the document uses. -/
namespace XmlRs.C10
open XmlRs XmlRs.XPath

/-- a prefix resolves to the nearest enclosing declaration: the element's own declaration wins -/
theorem inScope_own_wins (own inh : List (Str × Str)) (p u : Str) (hu : ¬ (p.isEmpty ∧ u.isEmpty))
    (h : (p, u) ∈ own) : (p, u) ∈ inScope own inh := by
  simp only [inScope, List.mem_filter, List.mem_append]
  refine ⟨Or.inl h, ?_⟩
  simp only [Bool.not_eq_true', Bool.and_eq_false_iff]
  by_cases hp : p.isEmpty
  · right; simpa [hp] using hu
  · left; simpa using hp

/-- ... and what the element does not redeclare is inherited -/
theorem inScope_inherits (own inh : List (Str × Str)) (p u : Str) (hu : ¬ (p.isEmpty ∧ u.isEmpty))
    (h : (p, u) ∈ inh) (hno : ∀ v, (p, v) ∉ own) : (p, u) ∈ inScope own inh := by
  simp only [inScope, List.mem_filter, List.mem_append]
  refine ⟨Or.inr ⟨h, ?_⟩, ?_⟩
  · simp only [Bool.not_eq_true', List.any_eq_false, beq_iff_eq]
    intro x hx heq
    obtain ⟨a, b⟩ := x
    simp only at heq; subst heq
    exact hno b hx
  · simp only [Bool.not_eq_true', Bool.and_eq_false_iff]
    by_cases hp : p.isEmpty
    · right; simpa [hp] using hu
    · left; simpa using hp

/-- a redeclared prefix hides the inherited binding -/
theorem inScope_shadows (own inh : List (Str × Str)) (p u v : Str) (h : (p, v) ∈ own) (hne : ∀ w, (p, w) ∈ own → w ≠ u) :
    (p, u) ∉ inScope own inh := by
  simp only [inScope, List.mem_filter, List.mem_append, not_and, Bool.not_eq_true']
  rintro (h1 | ⟨_, h2⟩)
  · exact absurd rfl (hne u h1)
  · simp only [Bool.not_eq_true', List.any_eq_false, beq_iff_eq] at h2
    exact absurd rfl (h2 (p, v) h)

/-- `xmlns=""` undeclares the default namespace: no binding for the empty prefix survives -/
theorem empty_default_undeclares (own inh : List (Str × Str)) (h : ([], []) ∈ own)
    (honly : ∀ w, ([], w) ∈ own → w = []) (u : Str) : ([], u) ∉ inScope own inh := by
  simp only [inScope, List.mem_filter, List.mem_append, not_and, Bool.not_eq_true']
  rintro (h1 | ⟨_, h2⟩)
  · have := honly u h1; subst this; simp
  · simp only [Bool.not_eq_true', List.any_eq_false, beq_iff_eq] at h2
    exact absurd rfl (h2 ([], []) h)

/-- the `xml` prefix stays bound as long as the element does not redeclare it -/
theorem xml_stays_bound (own inh : List (Str × Str)) (h : ("xml".toList, xmlNsUri) ∈ inh)
    (hno : ∀ v, ("xml".toList, v) ∉ own) : ("xml".toList, xmlNsUri) ∈ inScope own inh :=
  inScope_inherits own inh _ _ (by decide) h hno

theorem xml_bound_at_the_root : ("xml".toList, xmlNsUri) ∈ defaultScope := by simp [defaultScope]

/-- the default namespace never applies to attributes: an unprefixed attribute has no namespace -/
theorem default_not_for_attributes (d : XDoc) (k : Key) (owner : XNode) (l v : Str)
    (h : lookup d k = some (.attr owner ⟨none, l⟩ v)) : expandedName d k = some (l, []) := by
  simp [expandedName, h]

/-- an unprefixed element is in the default namespace that is in scope on it (none: no namespace) -/
theorem default_for_elements (d : XDoc) (k : Key) (l : Str) (ns : List (Str × Str)) (as : List (QN × Str)) (ks : List XNode)
    (h : lookup d k = some (.node (.elem ⟨none, l⟩ ns as ks))) :
    expandedName d k = some (l, ((ns.find? (·.1.isEmpty)).map (·.2)).getD []) := by
  simp [expandedName, h]

/-- a prefixed name is resolved with the element's in-scope namespaces -/
theorem prefixed_element (d : XDoc) (k : Key) (p l : Str) (ns : List (Str × Str)) (as : List (QN × Str)) (ks : List XNode)
    (h : lookup d k = some (.node (.elem ⟨some p, l⟩ ns as ks))) :
    expandedName d k = some (l, ((ns.find? (·.1 == p)).map (·.2)).getD []) := by
  simp [expandedName, h]

/-- name tests compare EXPANDED names with the caller's bindings: two documents (or two nodes) that
    agree on node kind and expanded name give the same answer to every name test, whatever prefixes
    they use — so renaming prefixes consistently in a document cannot change a result -/
theorem nametest_sees_only_expanded_names (env env' : XPath.Env) (a : Axis) (t : NodeTest) (k k' : Key)
    (hns : env.ns = env'.ns)
    (hkind : kindOf env.doc k = kindOf env'.doc k')
    (hname : expandedName env.doc k = expandedName env'.doc k') :
    nodeTest env a t k = nodeTest env' a t k' := by
  cases t <;> simp [nodeTest, bindingOf, hns, hkind, hname]

/-- ... and renaming the prefixes of the expression together with the caller's bindings changes
    nothing either: only the URI a prefix is bound to enters the test -/
theorem nametest_prefix_irrelevant (env env' : XPath.Env) (a : Axis) (p p' l : Str) (k : Key)
    (hdoc : env.doc = env'.doc) (hb : bindingOf env (some p) = bindingOf env' (some p')) :
    nodeTest env a (.name ⟨some p, l⟩) k = nodeTest env' a (.name ⟨some p', l⟩) k ∧
    nodeTest env a (.nsAny p) k = nodeTest env' a (.nsAny p') k := by
  simp [nodeTest, hdoc, hb]

/-! ### the renaming clause on the DOCUMENT side: "results do not change when prefixes are renamed
    consistently in the document".  `renDoc ρ d` renames every prefix of `d` - on element names, on attribute
    names and in the in-scope namespaces of every element - by an injective `ρ` that keeps "no prefix" apart
    from every prefix (`ρ [] = []`).  Every key then denotes a node of the same kind with the same expanded
    name, the document has the same keys in the same order, and so every node test answers as before for every
    node other than a namespace node (whose expanded name IS the prefix: `namespace::p` is the one test the
    renaming is allowed to change, and the checks exempt it for that reason). -/

def renQ (ρ : Str → Str) (q : QN) : QN := ⟨q.pre.map ρ, q.loc⟩
def renNs (ρ : Str → Str) (b : Str × Str) : Str × Str := (ρ b.1, b.2)
def renAt (ρ : Str → Str) (a : QN × Str) : QN × Str := (renQ ρ a.1, a.2)

mutual
def renNode (ρ : Str → Str) : XNode → XNode
  | .elem q ns as ks => .elem (renQ ρ q) (ns.map (renNs ρ)) (as.map (renAt ρ)) (renNodes ρ ks)
  | .text s => .text s
  | .comment s => .comment s
  | .pi t s => .pi t s
def renNodes (ρ : Str → Str) : List XNode → List XNode
  | [] => []
  | n :: r => renNode ρ n :: renNodes ρ r
end

def renDoc (ρ : Str → Str) (d : XDoc) : XDoc := { d with kids := renNodes ρ d.kids }

def renTarget (ρ : Str → Str) : Target → Target
  | .root => .root
  | .node n => .node (renNode ρ n)
  | .attr o q v => .attr (renNode ρ o) (renQ ρ q) v
  | .ns o p u => .ns (renNode ρ o) (ρ p) u

theorem renNodes_map (ρ : Str → Str) : ∀ ks, renNodes ρ ks = ks.map (renNode ρ)
  | [] => rfl
  | n :: r => by simp [renNodes, renNodes_map ρ r]

theorem renNode_kids (ρ : Str → Str) (n : XNode) : (renNode ρ n).kids = renNodes ρ n.kids := by
  cases n <;> simp [renNode, XNode.kids, renNodes]

theorem renNode_attrs (ρ : Str → Str) (n : XNode) : (renNode ρ n).attrs = n.attrs.map (renAt ρ) := by
  cases n <;> simp [renNode, XNode.attrs]

theorem renNode_nss (ρ : Str → Str) (n : XNode) : (renNode ρ n).nss = n.nss.map (renNs ρ) := by
  cases n <;> simp [renNode, XNode.nss]

/-- a key denotes, in the renamed document, the renamed target -/
theorem lookupIn_ren (ρ : Str → Str) : ∀ (ks : List XNode) (k : Key),
    lookupIn (renNodes ρ ks) k = (lookupIn ks k).map (renTarget ρ)
  | _, [] => by simp [lookupIn]
  | ks, [i] => by
    by_cases h : i ≥ 2
    · simp only [lookupIn, if_pos h, renNodes_map, List.getElem?_map, Option.map_map]; rfl
    · simp [lookupIn, h]
  | ks, i :: j :: r => by
    by_cases h : i ≥ 2
    · simp only [lookupIn, if_pos h, renNodes_map, List.getElem?_map]
      cases hn : ks[i - 2]? with
      | none => simp
      | some n =>
        simp only [Option.map_some]
        by_cases hj : (j == 0) = true
        · simp only [hj, if_true]
          match r with
          | [k] => simp only [renNode_nss, List.getElem?_map, Option.map_map]; rfl
          | [] => simp
          | _ :: _ :: _ => simp
        · simp only [hj, Bool.false_eq_true, if_false]
          by_cases hj1 : (j == 1) = true
          · simp only [hj1, if_true]
            match r with
            | [k] => simp only [renNode_attrs, List.getElem?_map, Option.map_map]; rfl
            | [] => simp
            | _ :: _ :: _ => simp
          · simp only [hj1, Bool.false_eq_true, if_false]
            rw [renNode_kids]
            exact lookupIn_ren ρ n.kids (j :: r)
    · simp [lookupIn, h]

theorem lookup_ren (ρ : Str → Str) (d : XDoc) (k : Key) : lookup (renDoc ρ d) k = (lookup d k).map (renTarget ρ) := by
  cases k with
  | nil => simp [lookup, renTarget]
  | cons i r => simp only [lookup, renDoc]; exact lookupIn_ren ρ d.kids (i :: r)

theorem renTarget_kind (ρ : Str → Str) (t : Target) : (renTarget ρ t).kind = t.kind := by
  cases t with
  | node n => cases n <;> rfl
  | _ => rfl

/-- every key denotes a node of the same kind in the renamed document -/
theorem kindOf_ren (ρ : Str → Str) (d : XDoc) (k : Key) : kindOf (renDoc ρ d) k = kindOf d k := by
  unfold kindOf
  rw [lookup_ren]
  cases lookup d k <;> simp [renTarget_kind]

/-- the renamed document has the same keys in the same (document) order -/
theorem keysOf_ren (ρ : Str → Str) (w : Bool) : ∀ (n : XNode) (k : Key), keysOf w k (renNode ρ n) = keysOf w k n
  | .elem q ns as ks, k => by
    simp only [renNode, keysOf, List.length_map]
    rw [keysOfL_ren ρ w ks k 0]
  | .text _, _ => rfl
  | .comment _, _ => rfl
  | .pi _ _, _ => rfl
where keysOfL_ren (ρ : Str → Str) (w : Bool) : ∀ (l : List XNode) (k : Key) (i : Nat), keysOfL w k i (renNodes ρ l) = keysOfL w k i l
  | [], _, _ => rfl
  | n :: r, k, i => by simp only [renNodes, keysOfL]; rw [keysOf_ren ρ w n, keysOfL_ren ρ w r]

theorem allKeys_ren (ρ : Str → Str) (d : XDoc) : allKeys (renDoc ρ d) = allKeys d := by
  simp only [allKeys, renDoc]; rw [keysOf_ren.keysOfL_ren]

/-- what `ρ` must satisfy to be a consistent renaming: different prefixes stay different, and "no prefix" (the
    default namespace's entry, prefix `[]`) is kept apart from every prefix -/
structure Consistent (ρ : Str → Str) : Prop where
  inj : ∀ a b, ρ a = ρ b → a = b
  nil : ρ [] = []

theorem Consistent.isEmpty {ρ : Str → Str} (h : Consistent ρ) (p : Str) : (ρ p).isEmpty = p.isEmpty := by
  cases p with
  | nil => simp [h.nil]
  | cons c r =>
    cases hp : ρ (c :: r) with
    | nil => have := h.inj (c :: r) [] (by rw [hp, h.nil]); cases this
    | cons _ _ => rfl

theorem find_ren {ρ : Str → Str} (h : Consistent ρ) (p : Str) : ∀ ns : List (Str × Str),
    ((ns.map (renNs ρ)).find? (·.1 == ρ p)).map (·.2) = (ns.find? (·.1 == p)).map (·.2)
  | [] => rfl
  | b :: r => by
    simp only [List.map_cons, List.find?_cons, renNs]
    by_cases hb : b.1 = p
    · simp [hb]
    · have h2 : ρ b.1 ≠ ρ p := fun e => hb (h.inj _ _ e)
      have e1 : (ρ b.1 == ρ p) = false := by simpa using h2
      have e2 : (b.1 == p) = false := by simpa using hb
      rw [e1, e2]
      exact find_ren h p r

theorem findDefault_ren {ρ : Str → Str} (h : Consistent ρ) : ∀ ns : List (Str × Str),
    ((ns.map (renNs ρ)).find? (·.1.isEmpty)).map (·.2) = (ns.find? (·.1.isEmpty)).map (·.2)
  | [] => rfl
  | b :: r => by
    simp only [List.map_cons, List.find?_cons, renNs, h.isEmpty]
    cases b.1.isEmpty
    · exact findDefault_ren h r
    · rfl

/-- RENAMING THE DOCUMENT'S PREFIXES: every element, attribute and processing instruction keeps its expanded name -/
theorem expandedName_ren {ρ : Str → Str} (h : Consistent ρ) (d : XDoc) (k : Key) (hk : kindOf d k ≠ .ns) :
    expandedName (renDoc ρ d) k = expandedName d k := by
  unfold expandedName
  rw [lookup_ren]
  unfold kindOf at hk
  cases ht : lookup d k with
  | none => rfl
  | some t =>
    rw [ht] at hk
    cases t with
    | root => rfl
    | ns o p u => exact absurd rfl hk
    | attr o q v =>
      simp only [Option.map_some, renTarget, renQ, renNode_nss]
      cases hq : q.pre with
      | none => rfl
      | some p => simp only [Option.map_some]; rw [find_ren h]
    | node n =>
      cases n with
      | elem q ns as ks =>
        simp only [Option.map_some, renTarget, renNode, renQ]
        cases hq : q.pre with
        | none => simp only [Option.map_none]; rw [findDefault_ren h]
        | some p => simp only [Option.map_some]; rw [find_ren h]
      | _ => rfl

/-- ... and therefore EVERY node test gives the same answer for it, on every axis, whatever the caller's bindings:
    a name test cannot tell the renamed document from the original -/
theorem nodeTest_ren {ρ : Str → Str} (h : Consistent ρ) (env : XPath.Env) (a : Axis) (t : NodeTest) (k : Key)
    (hk : kindOf env.doc k ≠ .ns) :
    nodeTest { env with doc := renDoc ρ env.doc } a t k = nodeTest env a t k :=
  nametest_sees_only_expanded_names _ env a t k k rfl (kindOf_ren ρ env.doc k) (expandedName_ren h env.doc k hk)

theorem textDesc_ren (ρ : Str → Str) : ∀ n : XNode, textDesc (renNode ρ n) = textDesc n
  | .elem _ _ _ ks => by simp only [renNode, textDesc]; exact textDescL_ren ρ ks
  | .text _ => rfl
  | .comment _ => rfl
  | .pi _ _ => rfl
where textDescL_ren (ρ : Str → Str) : ∀ l : List XNode, textDescL (renNodes ρ l) = textDescL l
  | [] => rfl
  | n :: r => by simp only [renNodes, textDescL]; rw [textDesc_ren ρ n, textDescL_ren ρ r]

/-- ... and every node keeps its string-value (namespace nodes included: their value is the URI) -/
theorem strVal_ren (ρ : Str → Str) (d : XDoc) (k : Key) : strVal (renDoc ρ d) k = strVal d k := by
  unfold strVal
  rw [lookup_ren]
  cases ht : lookup d k with
  | none => rfl
  | some t =>
    cases t with
    | root => simp only [Option.map_some, renTarget, renDoc]; exact textDesc_ren.textDescL_ren ρ d.kids
    | node n =>
      cases n with
      | elem q ns as ks => simp only [Option.map_some, renTarget, renNode, strValNode]; exact textDesc_ren.textDescL_ren ρ ks
      | _ => rfl
    | attr o q v => rfl
    | ns o p u => rfl

/-- the hypotheses are met by a renaming that is not the identity: `p` becomes `pp`, everything else stays -/
def exRho (s : Str) : Str := if s = ['p'] then ['p', 'p'] else if s = ['p', 'p'] then ['p'] else s
example : Consistent exRho := by
  refine ⟨fun a b hab => ?_, by decide⟩
  unfold exRho at hab
  by_cases ha1 : a = ['p'] <;> by_cases ha2 : a = ['p', 'p'] <;> by_cases hb1 : b = ['p'] <;> by_cases hb2 : b = ['p', 'p'] <;>
    simp only [ha1, ha2, hb1, hb2, if_true, if_false] at hab <;> first | (subst_vars; rfl) | (subst_vars; contradiction) | simp_all

def exDoc : XDoc := { kids := [.elem ⟨some ['p'], ['a']⟩ [(['p'], ['u']), ([], ['d'])] [(⟨some ['p'], ['x']⟩, ['1'])] [.elem ⟨none, ['b']⟩ [(['p'], ['u']), ([], ['d'])] [] []]] }
example : expandedName exDoc [2] = some (['a'], ['u']) ∧ expandedName (renDoc exRho exDoc) [2] = some (['a'], ['u']) ∧
    expandedName (renDoc exRho exDoc) [2, 1, 0] = some (['x'], ['u']) ∧ expandedName (renDoc exRho exDoc) [2, 2] = some (['b'], ['d']) ∧
    qnameOf (renDoc exRho exDoc) [2] = ['p', 'p', ':', 'a'] := by decide

/-! ### the lift through the evaluator
    Two documents that agree on what the evaluator can observe - keys and their order, the child / attribute /
    namespace keys of every node, kinds, string-values, `xml:lang`, the expanded names of everything but namespace
    nodes and the URI part of every expanded name - give the same value to every expression that does not ask for
    a QName as written (`name()`), for the local part of a namespace node's name (`local-name()`, which IS the
    prefix there) and does not put a name test on the namespace axis. -/

structure Alike (d d' : XDoc) : Prop where
  keys : allKeys d' = allKeys d
  child : childKeys d' = childKeys d
  attr : attrKeys d' = attrKeys d
  nss : nsKeys d' = nsKeys d
  kind : kindOf d' = kindOf d
  sval : strVal d' = strVal d
  lang : xmlLangOf d' = xmlLangOf d
  dt : d'.hasDoctype = d.hasDoctype
  nz : d'.negZeroQuirk = d.negZeroQuirk
  name : ∀ k, kindOf d k ≠ .ns → expandedName d' k = expandedName d k
  uri : ∀ k, (expandedName d' k).map (·.2) = (expandedName d k).map (·.2)

theorem Alike.axis {d d' : XDoc} (h : Alike d d') : axisKeys d' = axisKeys d := by
  funext a c
  simp only [axisKeys, h.keys, h.child, h.attr, h.nss]

theorem Alike.norm {d d' : XDoc} (h : Alike d d') : normalize d' = normalize d := by
  funext ks; simp only [normalize, h.keys]

theorem Alike.toStr {d d' : XDoc} (h : Alike d d') : toStr d' = toStr d := by
  funext v; cases v <;> simp only [XPath.toStr, h.nz, h.sval]

theorem Alike.toNum {d d' : XDoc} (h : Alike d d') : toNum d' = toNum d := by
  funext v; cases v <;> simp only [XPath.toNum, h.toStr]

theorem Alike.cmpScalar {d d' : XDoc} (h : Alike d d') : cmpScalar d' = cmpScalar d := by
  funext op a b; simp only [XPath.cmpScalar, h.toStr, h.toNum]

theorem Alike.compare {d d' : XDoc} (h : Alike d d') : compare d' = compare d := by
  funext op a b; simp only [XPath.compare, h.cmpScalar, h.sval]

theorem Alike.langF {d d' : XDoc} (h : Alike d d') : langF d' = langF d := by
  funext c arg; simp only [XPath.langF, h.keys, h.lang]

theorem principal_ns (a : Axis) (h : a ≠ .namespace) : principal a ≠ .ns := by
  cases a <;> simp_all [principal]

theorem Alike.nodeTest {env env' : XPath.Env} (h : Alike env.doc env'.doc) (hns : env'.ns = env.ns) (a : Axis) (t : NodeTest) (k : Key)
    (hs : ¬ (a = .namespace ∧ isNameTest t = true)) : nodeTest env' a t k = nodeTest env a t k := by
  have hb : ∀ p, bindingOf env' p = bindingOf env p := fun p => by simp only [bindingOf, hns]
  cases t with
  | node => rfl
  | text => simp only [XPath.nodeTest, h.kind]
  | comment => simp only [XPath.nodeTest, h.kind]
  | any => simp only [XPath.nodeTest, h.kind]
  | pi o =>
    cases o with
    | none => simp only [XPath.nodeTest, h.kind]
    | some lit =>
      simp only [XPath.nodeTest, h.kind]
      by_cases hk : kindOf env.doc k = .pi
      · rw [h.name k (by rw [hk]; decide)]
      · have : (kindOf env.doc k == Kind.pi) = false := by simpa using hk
        simp only [this, Bool.false_and]
  | nsAny p => simp only [XPath.nodeTest, h.kind, hb, h.uri]
  | name q =>
    have ha : a ≠ .namespace := fun e => hs ⟨e, rfl⟩
    by_cases hk : kindOf env.doc k = .ns
    · have hne : kindOf env.doc k ≠ principal a := by rw [hk]; exact fun e => principal_ns a ha e.symm
      have e1 : (kindOf env.doc k != principal a) = true := by simpa using hne
      have e2 : (kindOf env.doc k == principal a) = false := by simpa using hne
      cases hq : q.pre with
      | some p => simp only [XPath.nodeTest, h.kind, hq, e1, if_true]
      | none => simp only [XPath.nodeTest, h.kind, hq, e2, Bool.false_and]
    · simp only [XPath.nodeTest, h.kind, hb, h.name k hk]

theorem Alike.applyFunc {env env' : XPath.Env} (h : Alike env.doc env'.doc) (c : Ctx) (name : String) (args : List Value)
    (hs : showsPrefix name = false) : applyFunc env' c name args = applyFunc env c name args := by
  have h1 : name ≠ "name" := fun e => by simp [showsPrefix, e] at hs
  have h2 : name ≠ "local-name" := fun e => by simp [showsPrefix, e] at hs
  unfold XPath.applyFunc
  simp only [h.toStr, h.toNum, h.sval, h.langF, h.dt, h.uri]
  split <;> first | rfl | exact absurd rfl h1 | exact absurd rfl h2

theorem evalStepOn_congr {env env' : XPath.Env} (st : Step) (hst : ∀ k, evalStep env' st k = evalStep env st k) :
    ∀ ks, evalStepOn env' st ks = evalStepOn env st ks
  | [] => by simp only [evalStepOn]
  | k :: r => by simp only [evalStepOn, hst k, evalStepOn_congr st hst r]

theorem filterOne_congr {env env' : XPath.Env} (p : Expr) (hp : ∀ c, eval env' p c = eval env p c) :
    ∀ ks i n, filterOne env' p ks i n = filterOne env p ks i n
  | [], _, _ => by simp only [filterOne]
  | k :: r, i, n => by simp only [filterOne, hp, filterOne_congr p hp r]

theorem tests_congr {env env' : XPath.Env} (a : Axis) (t : NodeTest) (ht : ∀ x, nodeTest env' a t x = nodeTest env a t x) :
    ∀ l, evalStep.tests env' a t l = evalStep.tests env a t l
  | [] => by simp only [evalStep.tests]
  | x :: r => by simp only [evalStep.tests, ht x, tests_congr a t ht r]

set_option linter.unusedSectionVars false
section
variable {env env' : XPath.Env} (h : Alike env.doc env'.doc) (hns : env'.ns = env.ns)
include h hns

mutual
theorem eval_congr : ∀ (e : Expr) (c : Ctx), safeE e = true → eval env' e c = eval env e c
  | .lit _, _, _ => by simp only [eval]
  | .num _, _, _ => by simp only [eval]
  | .var _, _, _ => by simp only [eval]
  | .neg e, c, hs => by
    simp only [safeE] at hs
    simp only [eval, eval_congr e c hs, h.toNum]
  | .bin op a b, c, hs => by
    simp only [safeE, Bool.and_eq_true] at hs
    cases op <;> simp only [eval, eval_congr a c hs.1, eval_congr b c hs.2, h.norm, h.toNum, h.compare]
  | .call f args, c, hs => by
    simp only [safeE, Bool.and_eq_true, Bool.not_eq_true'] at hs
    have hb : ∀ p, bindingOf env' p = bindingOf env p := fun p => by simp only [bindingOf, hns]
    simp only [eval, hb, evalArgs_congr args c hs.2, fun vs => h.applyFunc c (String.ofList f.loc) vs hs.1]
  | .filter e ps, c, hs => by
    simp only [safeE, Bool.and_eq_true] at hs
    simp only [eval, eval_congr e c hs.1, fun rev ks => filterPreds_congr ps rev ks hs.2, h.norm]
  | .path (some e) ab steps, c, hs => by
    simp only [safeE, Bool.and_eq_true] at hs
    simp only [eval, eval_congr e c hs.1, fun ks => evalSteps_congr steps ks hs.2, h.norm]
  | .path none ab steps, c, hs => by
    have hs' : safeSs steps = true := by rw [safeE] at hs; exact hs
    simp only [eval, fun ks => evalSteps_congr steps ks hs', h.norm]
theorem evalArgs_congr : ∀ (es : List Expr) (c : Ctx), safeEs es = true → evalArgs env' es c = evalArgs env es c
  | [], _, _ => by simp only [evalArgs]
  | e :: r, c, hs => by
    simp only [safeEs, Bool.and_eq_true] at hs
    simp only [evalArgs, eval_congr e c hs.1, evalArgs_congr r c hs.2]
theorem evalSteps_congr : ∀ (steps : List Step) (ks : List Key), safeSs steps = true → evalSteps env' steps ks = evalSteps env steps ks
  | [], _, _ => by simp only [evalSteps]
  | st :: r, ks, hs => by
    simp only [safeSs, Bool.and_eq_true] at hs
    simp only [evalSteps, evalStepOn_congr st (fun k => evalStep_congr st k hs.1), fun ks => evalSteps_congr r ks hs.2, h.norm]
theorem evalStep_congr : ∀ (st : Step) (k : Key), safeS st = true → evalStep env' st k = evalStep env st k
  | .mk a t ps, k, hs => by
    simp only [safeS, Bool.and_eq_true, Bool.not_eq_true', Bool.and_eq_false_iff, beq_eq_false_iff_ne] at hs
    have hn : ¬ (a = .namespace ∧ isNameTest t = true) := by
      rintro ⟨ha, ht⟩; rcases hs.1 with h1 | h1
      · exact h1 ha
      · rw [ht] at h1; cases h1
    simp only [evalStep, h.axis, tests_congr a t (fun x => h.nodeTest hns a t x hn), fun rev ks => filterPreds_congr ps rev ks hs.2]
theorem filterPreds_congr : ∀ (ps : List Expr) (rev : Bool) (ks : List Key), safeEs ps = true →
    filterPreds env' ps rev ks = filterPreds env ps rev ks
  | [], _, _, _ => by simp only [filterPreds]
  | p :: r, rev, ks, hs => by
    simp only [safeEs, Bool.and_eq_true] at hs
    simp only [filterPreds, filterOne_congr p (fun c => eval_congr p c hs.1), fun rev ks => filterPreds_congr r rev ks hs.2]
end
end

/-! ### a renamed document is alike -/
theorem renNodes_length (ρ : Str → Str) (l : List XNode) : (renNodes ρ l).length = l.length := by
  rw [renNodes_map, List.length_map]

theorem childKeys_ren (ρ : Str → Str) (d : XDoc) : childKeys (renDoc ρ d) = childKeys d := by
  funext k
  unfold childKeys
  rw [lookup_ren]
  cases lookup d k with
  | none => rfl
  | some t =>
    cases t with
    | root => simp only [Option.map_some, renTarget, renDoc, renNodes_length]
    | node n => simp only [Option.map_some, renTarget, renNode_kids, renNodes_length]
    | attr o q v => rfl
    | ns o p u => rfl

theorem attrKeys_ren (ρ : Str → Str) (d : XDoc) : attrKeys (renDoc ρ d) = attrKeys d := by
  funext k
  unfold attrKeys
  rw [lookup_ren]
  cases lookup d k with
  | none => rfl
  | some t => cases t <;> simp only [Option.map_some, renTarget, renNode_attrs, List.length_map]

theorem nsKeys_ren (ρ : Str → Str) (d : XDoc) : nsKeys (renDoc ρ d) = nsKeys d := by
  funext k
  unfold nsKeys
  rw [lookup_ren]
  cases lookup d k with
  | none => rfl
  | some t => cases t <;> simp only [Option.map_some, renTarget, renNode_nss, List.length_map]

def xmlP : Str := ['x', 'm', 'l']

theorem findLang_ren {ρ : Str → Str} (h : Consistent ρ) (hx : ρ xmlP = xmlP) : ∀ as : List (QN × Str),
    ((as.map (renAt ρ)).find? fun (q, _) => q.pre == some "xml".toList && q.loc == "lang".toList).map (·.2) =
    (as.find? fun (q, _) => q.pre == some "xml".toList && q.loc == "lang".toList).map (·.2)
  | [] => rfl
  | a :: r => by
    have hx' : ("xml".toList : Str) = xmlP := rfl
    have hp : ((renQ ρ a.1).pre == some "xml".toList) = (a.1.pre == some "xml".toList) := by
      rw [hx']
      cases hq : a.1.pre with
      | none => simp [renQ, hq]
      | some p =>
        simp only [renQ, hq, Option.map_some]
        by_cases hpx : p = xmlP
        · simp [hpx, hx]
        · have : ρ p ≠ xmlP := fun e => hpx (h.inj _ _ (e.trans hx.symm))
          have e1 : (ρ p == xmlP) = false := by simpa using this
          have e2 : (p == xmlP) = false := by simpa using hpx
          simp [e1, e2]
    simp only [List.map_cons, List.find?_cons, renAt, hp]
    have hl : (renQ ρ a.1).loc = a.1.loc := rfl
    rw [hl]
    cases (a.1.pre == some "xml".toList && a.1.loc == "lang".toList)
    · exact findLang_ren h hx r
    · rfl

theorem xmlLangOf_ren {ρ : Str → Str} (h : Consistent ρ) (hx : ρ xmlP = xmlP) (d : XDoc) : xmlLangOf (renDoc ρ d) = xmlLangOf d := by
  funext k
  unfold xmlLangOf
  rw [lookup_ren]
  cases lookup d k with
  | none => rfl
  | some t =>
    cases t with
    | node n =>
      cases n with
      | elem q ns as ks => simp only [Option.map_some, renTarget, renNode]; exact findLang_ren h hx as
      | _ => rfl
    | _ => rfl

theorem expandedUri_ren {ρ : Str → Str} (h : Consistent ρ) (d : XDoc) (k : Key) :
    (expandedName (renDoc ρ d) k).map (·.2) = (expandedName d k).map (·.2) := by
  by_cases hk : kindOf d k = .ns
  · unfold expandedName
    rw [lookup_ren]
    unfold kindOf at hk
    cases ht : lookup d k with
    | none => rfl
    | some t =>
      rw [ht] at hk
      cases t with
      | ns o p u => rfl
      | root => rfl
      | attr o q v => cases hk
      | node n => cases n <;> cases hk
  · rw [expandedName_ren h d k hk]

/-- a consistently renamed document is indistinguishable, in the sense of `Alike`, from the original -/
theorem renDoc_alike {ρ : Str → Str} (h : Consistent ρ) (hx : ρ xmlP = xmlP) (d : XDoc) : Alike d (renDoc ρ d) where
  keys := allKeys_ren ρ d
  child := childKeys_ren ρ d
  attr := attrKeys_ren ρ d
  nss := nsKeys_ren ρ d
  kind := by funext k; exact kindOf_ren ρ d k
  sval := by funext k; exact strVal_ren ρ d k
  lang := xmlLangOf_ren h hx d
  dt := rfl
  nz := rfl
  name := fun k hk => expandedName_ren h d k hk
  uri := expandedUri_ren h d

/-- RESULTS DO NOT CHANGE WHEN PREFIXES ARE RENAMED CONSISTENTLY IN THE DOCUMENT: every expression that does not call
    `name()` / `local-name()` and puts no name test on the namespace axis has the same value - the same node-set, string,
    number or boolean, or the same error - on the renamed document, at every context, under the same bindings -/
theorem eval_ren {ρ : Str → Str} (h : Consistent ρ) (hx : ρ xmlP = xmlP) (env : XPath.Env) (e : Expr) (c : Ctx)
    (hs : safeE e = true) : eval { env with doc := renDoc ρ env.doc } e c = eval env e c :=
  eval_congr (env := env) (env' := { env with doc := renDoc ρ env.doc }) (renDoc_alike h hx env.doc) rfl e c hs

/-- ... and so does every query text that parses to such an expression -/
theorem query_ren {ρ : Str → Str} (h : Consistent ρ) (hx : ρ xmlP = xmlP) (env : XPath.Env) (s : Str)
    (hs : ∀ e, parseExpr s = .ok e → safeE e = true) : query { env with doc := renDoc ρ env.doc } s = query env s := by
  unfold query
  cases hp : parseExpr s with
  | error x => cases x <;> rfl
  | ok e => simp only [eval_ren h hx env e _ (hs e hp)]

example : Consistent exRho ∧ exRho xmlP = xmlP := ⟨by
  refine ⟨fun a b hab => ?_, by decide⟩
  unfold exRho at hab
  by_cases ha1 : a = ['p'] <;> by_cases ha2 : a = ['p', 'p'] <;> by_cases hb1 : b = ['p'] <;> by_cases hb2 : b = ['p', 'p'] <;>
    simp only [ha1, ha2, hb1, hb2, if_true, if_false] at hab <;> first | (subst_vars; rfl) | (subst_vars; contradiction) | simp_all, by decide⟩

/-- the premise is met by paths with predicates, functions and prefixed name tests; `name()` is rightly excluded: it shows
    `pp:a` on the renamed example document (see above) -/
example : safeE (.path none true [.mk .descendantOrSelf .node [], .mk .child (.name ⟨some ['q'], ['a']⟩)
    [.bin .eq (.path none false [.mk .attribute (.name ⟨some ['q'], ['x']⟩) []]) (.lit ['1'])]]) = true := by decide
example : safeE (.path none false [.mk .namespace (.name ⟨none, ['p']⟩) []]) = false := by decide

/-! ### the renaming clause on the EXPRESSION side, through the evaluator
    `renE σ e` renames every prefix that the expression uses - in name tests `p:l` and `p:*` and in function names -
    by `σ`; the caller's bindings are renamed with it.  Every expression then has the same value (or error), on every
    document, at every context: no side condition on the expression is needed. -/

def renT (σ : Str → Str) : NodeTest → NodeTest
  | .nsAny p => .nsAny (σ p)
  | .name q => .name ⟨q.pre.map σ, q.loc⟩
  | .any => .any
  | .comment => .comment
  | .text => .text
  | .node => .node
  | .pi t => .pi t

mutual
def renE (σ : Str → Str) : Expr → Expr
  | .bin op a b => .bin op (renE σ a) (renE σ b)
  | .neg e => .neg (renE σ e)
  | .lit s => .lit s
  | .num s => .num s
  | .var q => .var q
  | .call f args => .call ⟨f.pre.map σ, f.loc⟩ (renEs σ args)
  | .filter e ps => .filter (renE σ e) (renEs σ ps)
  | .path (some e) ab steps => .path (some (renE σ e)) ab (renSs σ steps)
  | .path none ab steps => .path none ab (renSs σ steps)
def renEs (σ : Str → Str) : List Expr → List Expr
  | [] => []
  | e :: r => renE σ e :: renEs σ r
def renS (σ : Str → Str) : Step → Step
  | .mk a t ps => .mk a (renT σ t) (renEs σ ps)
def renSs (σ : Str → Str) : List Step → List Step
  | [] => []
  | s :: r => renS σ s :: renSs σ r
end

theorem renEs_length (σ : Str → Str) : ∀ l, (renEs σ l).length = l.length
  | [] => rfl
  | _ :: r => by simp [renEs, renEs_length σ r]

/-- the caller's bindings renamed together with the expression: every prefix is bound, under its new name, to what it was
    bound to; the default binding is untouched; the document is the same -/
structure Rebound (σ : Str → Str) (env env' : XPath.Env) : Prop where
  doc : env'.doc = env.doc
  pre : ∀ p, bindingOf env' (some (σ p)) = bindingOf env (some p)
  dflt : bindingOf env' none = bindingOf env none

theorem Rebound.nodeTest {σ : Str → Str} {env env' : XPath.Env} (h : Rebound σ env env') (a : Axis) (t : NodeTest) (k : Key) :
    nodeTest env' a (renT σ t) k = nodeTest env a t k := by
  cases t with
  | name q =>
    cases hq : q.pre with
    | none => simp only [renT, XPath.nodeTest, hq, Option.map_none, h.doc, h.dflt]
    | some p => simp only [renT, XPath.nodeTest, hq, Option.map_some, h.doc, h.pre]
  | nsAny p => simp only [renT, XPath.nodeTest, h.doc, h.pre]
  | pi o => cases o <;> simp only [renT, XPath.nodeTest, h.doc]
  | _ => simp only [renT, XPath.nodeTest, h.doc]

theorem evalStepOn_congr2 {env env' : XPath.Env} (st st' : Step) (hst : ∀ k, evalStep env' st' k = evalStep env st k) :
    ∀ ks, evalStepOn env' st' ks = evalStepOn env st ks
  | [] => by simp only [evalStepOn]
  | k :: r => by simp only [evalStepOn, hst k, evalStepOn_congr2 st st' hst r]

theorem filterOne_congr2 {env env' : XPath.Env} (p p' : Expr) (hp : ∀ c, eval env' p' c = eval env p c) :
    ∀ ks i n, filterOne env' p' ks i n = filterOne env p ks i n
  | [], _, _ => by simp only [filterOne]
  | k :: r, i, n => by simp only [filterOne, hp, filterOne_congr2 p p' hp r]

theorem tests_congr2 {env env' : XPath.Env} (a : Axis) (t t' : NodeTest) (ht : ∀ x, nodeTest env' a t' x = nodeTest env a t x) :
    ∀ l, evalStep.tests env' a t' l = evalStep.tests env a t l
  | [] => by simp only [evalStep.tests]
  | x :: r => by simp only [evalStep.tests, ht x, tests_congr2 a t t' ht r]

theorem applyFunc_doc {env env' : XPath.Env} (h : env'.doc = env.doc) (c : Ctx) (name : String) (args : List Value) :
    applyFunc env' c name args = applyFunc env c name args := by
  unfold XPath.applyFunc; rw [h]

section
variable {σ : Str → Str} {env env' : XPath.Env} (h : Rebound σ env env')
include h

mutual
theorem eval_rebound : ∀ (e : Expr) (c : Ctx), eval env' (renE σ e) c = eval env e c
  | .lit _, _ => by simp only [renE, eval]
  | .num _, _ => by simp only [renE, eval]
  | .var _, _ => by simp only [renE, eval]
  | .neg e, c => by simp only [renE, eval, eval_rebound e c, h.doc]
  | .bin op a b, c => by
    cases op <;> simp only [renE, eval, eval_rebound a c, eval_rebound b c, h.doc]
  | .call f args, c => by
    cases hf : f.pre with
    | some p => simp only [renE, eval, hf, Option.map_some, h.pre]
    | none =>
      simp only [renE, eval, hf, Option.map_none, renEs_length, evalArgs_rebound args c, fun vs => applyFunc_doc h.doc c (String.ofList f.loc) vs]
  | .filter e ps, c => by
    simp only [renE, eval, eval_rebound e c, fun rev ks => filterPreds_rebound ps rev ks, h.doc]
  | .path (some e) ab steps, c => by
    simp only [renE, eval, eval_rebound e c, fun ks => evalSteps_rebound steps ks, h.doc]
  | .path none ab steps, c => by
    simp only [renE, eval, fun ks => evalSteps_rebound steps ks, h.doc]
theorem evalArgs_rebound : ∀ (es : List Expr) (c : Ctx), evalArgs env' (renEs σ es) c = evalArgs env es c
  | [], _ => by simp only [renEs, evalArgs]
  | e :: r, c => by simp only [renEs, evalArgs, eval_rebound e c, evalArgs_rebound r c]
theorem evalSteps_rebound : ∀ (steps : List Step) (ks : List Key), evalSteps env' (renSs σ steps) ks = evalSteps env steps ks
  | [], _ => by simp only [renSs, evalSteps]
  | st :: r, ks => by
    simp only [renSs, evalSteps, evalStepOn_congr2 st (renS σ st) (fun k => evalStep_rebound st k), fun ks => evalSteps_rebound r ks, h.doc]
theorem evalStep_rebound : ∀ (st : Step) (k : Key), evalStep env' (renS σ st) k = evalStep env st k
  | .mk a t ps, k => by
    simp only [renS, evalStep, h.doc, tests_congr2 a t (renT σ t) (fun x => h.nodeTest a t x), fun rev ks => filterPreds_rebound ps rev ks]
theorem filterPreds_rebound : ∀ (ps : List Expr) (rev : Bool) (ks : List Key),
    filterPreds env' (renEs σ ps) rev ks = filterPreds env ps rev ks
  | [], _, _ => by simp only [renEs, filterPreds]
  | p :: r, rev, ks => by
    simp only [renEs, filterPreds, filterOne_congr2 p (renE σ p) (fun c => eval_rebound p c), fun rev ks => filterPreds_rebound r rev ks]
end
end

/-- the caller's bindings with every prefix renamed -/
def renB (σ : Str → Str) (ns : List (Option Str × Str)) : List (Option Str × Str) := ns.map fun b => (b.1.map σ, b.2)

theorem find_renB {σ : Str → Str} (hinj : ∀ a b, σ a = σ b → a = b) (q : Option Str) : ∀ ns : List (Option Str × Str),
    ((renB σ ns).find? (·.1 == q.map σ)).map (·.2) = (ns.find? (·.1 == q)).map (·.2)
  | [] => rfl
  | b :: r => by
    simp only [renB, List.map_cons, List.find?_cons]
    have e : (b.1.map σ == q.map σ) = (b.1 == q) := by
      cases hb : b.1 with
      | none => cases q <;> simp
      | some x =>
        cases q with
        | none => simp
        | some y =>
          by_cases hxy : x = y
          · simp [hxy]
          · have h2 : σ x ≠ σ y := fun e => hxy (hinj _ _ e)
            have e1 : (σ x == σ y) = false := by simpa using h2
            have e2 : (x == y) = false := by simpa using hxy
            simp [e1, e2]
    rw [e]
    cases (b.1 == q)
    · exact find_renB hinj q r
    · rfl

theorem rebound_of_renB {σ : Str → Str} (hinj : ∀ a b, σ a = σ b → a = b) (env : XPath.Env) :
    Rebound σ env { env with ns := renB σ env.ns } where
  doc := rfl
  pre := fun p => by simpa [bindingOf] using find_renB hinj (some p) env.ns
  dflt := by simpa [bindingOf] using find_renB hinj none env.ns

/-- RESULTS DO NOT CHANGE WHEN PREFIXES ARE RENAMED CONSISTENTLY IN THE EXPRESSION (together with the bindings the caller
    supplies for them): every expression, every document, every context -/
theorem eval_rename_expression {σ : Str → Str} (hinj : ∀ a b, σ a = σ b → a = b) (env : XPath.Env) (e : Expr) (c : Ctx) :
    eval { env with ns := renB σ env.ns } (renE σ e) c = eval env e c :=
  eval_rebound (rebound_of_renB hinj env) e c

/-- the renaming is not the identity on the example: `p:a[@p:x]` becomes `pp:a[@pp:x]`, bindings `p=u` become `pp=u` -/
example : renE exRho (.path none false [.mk .child (.name ⟨some ['p'], ['a']⟩) [.path none false [.mk .attribute (.name ⟨some ['p'], ['x']⟩) []]]]) =
    .path none false [.mk .child (.name ⟨some ['p', 'p'], ['a']⟩) [.path none false [.mk .attribute (.name ⟨some ['p', 'p'], ['x']⟩) []]]] ∧
    renB exRho [(some ['p'], ['u']), (none, ['d'])] = [(some ['p', 'p'], ['u']), (none, ['d'])] := ⟨rfl, by decide⟩

/-! ### renaming commutes with the scope computation
    `renDoc` renames the in-scope namespaces stored on every element.  That this is what renaming the DECLARATIONS produces is
    the following: the in-scope namespaces computed from renamed own declarations and renamed inherited ones are the renamed
    in-scope namespaces - so a document whose `xmlns:p` declarations (and the names using them) are renamed consistently is
    built into the `renDoc` of the original, scope by scope. -/

theorem any_renNs {ρ : Str → Str} (h : Consistent ρ) (own : List (Str × Str)) (p : Str × Str) :
    (own.map (renNs ρ)).any (fun q => q.1 == (renNs ρ p).1) = own.any (fun q => q.1 == p.1) := by
  induction own with
  | nil => rfl
  | cons q r ih =>
    simp only [List.map_cons, List.any_cons, ih, renNs]
    congr 1
    by_cases hq : q.1 = p.1
    · simp [hq]
    · have h2 : ρ q.1 ≠ ρ p.1 := fun e => hq (h.inj _ _ e)
      have e1 : (ρ q.1 == ρ p.1) = false := by simpa using h2
      have e2 : (q.1 == p.1) = false := by simpa using hq
      rw [e1, e2]

theorem filter_map_renNs {ρ : Str → Str} (f g : Str × Str → Bool) (hfg : ∀ p, f (renNs ρ p) = g p) :
    ∀ l : List (Str × Str), (l.map (renNs ρ)).filter f = (l.filter g).map (renNs ρ)
  | [] => rfl
  | p :: r => by
    simp only [List.map_cons, List.filter_cons, hfg p]
    cases g p
    · exact filter_map_renNs f g hfg r
    · simp only [if_true, List.map_cons]; rw [filter_map_renNs f g hfg r]

/-- in-scope namespaces of renamed declarations = renamed in-scope namespaces -/
theorem inScope_ren {ρ : Str → Str} (h : Consistent ρ) (own inh : List (Str × Str)) :
    inScope (own.map (renNs ρ)) (inh.map (renNs ρ)) = (inScope own inh).map (renNs ρ) := by
  unfold inScope
  have h1 : (inh.map (renNs ρ)).filter (fun p => !(own.map (renNs ρ)).any (·.1 == p.1)) =
      (inh.filter (fun p => !own.any (·.1 == p.1))).map (renNs ρ) :=
    filter_map_renNs _ _ (fun p => by rw [any_renNs h own p]) inh
  simp only [h1, ← List.map_append]
  exact filter_map_renNs _ _ (fun p => by simp only [renNs, h.isEmpty]) _

example : inScope ([(['p'], ['u'])].map (renNs exRho)) ([(['x', 'm', 'l'], xmlNsUri), ([], ['d'])].map (renNs exRho)) =
    [(['p', 'p'], ['u']), (['x', 'm', 'l'], xmlNsUri), ([], ['d'])] := by decide

end XmlRs.C10
