import XmlRsModel.XPath.Eval
import XmlRsModel.XmlDoc
/-! Property C19: parsing and querying are deterministic and side-effect free.
    In the model `parseDoc`, `buildDoc`, `parseExpr` and `eval` are FUNCTIONS of their arguments (no
    hidden state exists in a Lean definition), the document is an input only, and the evaluation
    context of a predicate (node, position, size) is passed down and never returned: nothing an inner
    evaluation does — succeed, fail, fail half-way through a predicate — can reach the context of an
    outer or later evaluation.  The theorems below say exactly that in the terms of the property; the
    tie (one real `Context` re-used for a series of queries, including failing ones, against fresh
    contexts) is what shows that the code behaves like this model. -/
namespace XmlRs.C19
open XmlRs XmlRs.XPath

/-- a series of queries on one document and one set of bindings: each answer is the answer of that
    query alone — there is nothing a query could leave behind -/
def runSeries (env : XPath.Env) (qs : List Str) : List (Except QErr Value) := qs.map (XPath.query env)

theorem series_independent (env : XPath.Env) (before after : List Str) (q : Str) :
    (runSeries env (before ++ q :: after))[before.length]? = some (XPath.query env q) := by
  simp [runSeries]

/-- also after a query that failed (at top level or inside a predicate) -/
theorem failure_leaves_nothing (env : XPath.Env) (bad q : Str) :
    (runSeries env [bad, q])[1]? = some (XPath.query env q) := rfl

/-- the context position / size a query sees at top level is the initial one, whatever ran before -/
theorem top_level_position (env : XPath.Env) (c : Ctx) :
    eval env (.call ⟨none, "position".toList⟩ []) c = .ok (.num (ofNat c.pos)) ∧
    eval env (.call ⟨none, "last".toList⟩ []) c = .ok (.num (ofNat c.size)) := by
  constructor <;> simp [eval, funcTable, evalArgs, applyFunc]

/-- both operands of an operator are evaluated in the SAME context the operator was given -/
theorem operands_share_the_context (env : XPath.Env) (a b : Expr) (c : Ctx) :
    eval env (.bin .add a b) c =
      (match eval env a c with
       | .error x => .error x
       | .ok va => match eval env b c with
         | .error x => .error x
         | .ok vb => .ok (.num (addB (toNum env.doc va) (toNum env.doc vb)))) := by
  simp only [eval]
  cases eval env a c with
  | error x => rfl
  | ok va => cases eval env b c <;> rfl

/-- a predicate is evaluated with ITS OWN position and size and cannot change the caller's: in
    `e[p] + position()` the right operand sees the caller's position whatever `e[p]` did -/
theorem predicate_context_is_local (env : XPath.Env) (e p : Expr) (c : Ctx) :
    eval env (.bin .add (.filter e [p]) (.call ⟨none, "position".toList⟩ [])) c =
      (match eval env (.filter e [p]) c with
       | .error x => .error x
       | .ok v => .ok (.num (addB (toNum env.doc v) (ofNat c.pos)))) := by
  rw [operands_share_the_context, (top_level_position env c).1]
  cases eval env (.filter e [p]) c <;> simp [toNum]

/-- parsing is a function: the same text gives the same document and the same serialization -/
theorem parse_deterministic (s : Str) (d1 d2 : IDoc) (r1 r2 : Str)
    (h1 : parseDoc s = .ok (d1, r1)) (h2 : parseDoc s = .ok (d2, r2)) :
    printDoc d1 = printDoc d2 ∧ r1 = r2 := by
  rw [h1] at h2
  simp only [Except.ok.injEq, Prod.mk.injEq] at h2
  obtain ⟨rfl, rfl⟩ := h2
  exact ⟨rfl, rfl⟩

end XmlRs.C19
