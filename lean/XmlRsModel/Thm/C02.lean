import XmlRsModel.XmlDoc
import XmlRsModel.Lemmas.PegSound
import XmlRsModel.Thm.C18
/-! Property C02: ill-formed input is never reported as a completely parsed document.
    Soundness direction: whatever `parseDoc` returns as a document (a) is a derivation of the
    context-free reading of the grammar translated from the Rust source and consumes exactly the text
    before the reported rest, and (b) satisfies the well-formedness constraints the EBNF cannot
    express.  Re-checked against the regenerated grammar on every run. -/
namespace XmlRs.C02
open XmlRs Gen.Xml

/-- (a) generic: an accepted text is derivable, the consumed part and the rest make up the input -/
theorem accepted_is_derivable (ev : Env) (st : Bool) (s : Str) (d : IDoc) (rest : Str)
    (h : parseDocWith ev st s = .ok (d, rest)) :
    ∃ c, Derives ev (.nt N.document) (.node N.document c) ∧ c.flatten ++ rest = s ∧
      absDocument c = .ok d ∧ checkDoc d = .ok () := by
  unfold parseDocWith at h
  split at h
  · cases h
  · cases h
  · next m c r hr =>
    obtain ⟨hd, hf⟩ := (run_sound ev _).1 _ _ _ _ hr
    cases hd with
    | nt n c' hd' =>
      split at h
      · cases h
      split at h
      · cases h
      split at h
      · cases h
      · next d' hd2 =>
        split at h
        · cases h
        · next hc =>
          split at h
          · cases h
          · simp only [Except.ok.injEq, Prod.mk.injEq] at h
            obtain ⟨rfl, rfl⟩ := h
            exact ⟨c, .nt _ _ hd', by simpa [CST.flatten] using hf, hd2, hc⟩
  · cases h

/-- a completely parsed document is the flattening of one derivation tree: nothing of the input
    is skipped or invented -/
theorem complete_parse_is_whole_input (ev : Env) (st : Bool) (s : Str) (d : IDoc)
    (h : parseDocWith ev st s = .ok (d, [])) :
    ∃ c, Derives ev (.nt N.document) (.node N.document c) ∧ c.flatten = s := by
  obtain ⟨c, hd, hf, _, _⟩ := accepted_is_derivable ev st s d [] h
  exact ⟨c, hd, by simpa using hf⟩

/-- the character classes the grammar's terminals test are productions [2] [4] [4a] [13] [81] of the
    Recommendation for EVERY character (tables extracted from the running code on this run, proved
    equal in `Thm/C18`): an accepted text can only contain legal characters in legal positions -/
theorem classes_are_the_recommendation (c : Char) :
    P.isChar c = Spec.isChar c.toNat ∧ P.isNameStartChar c = Spec.isNameStartChar c.toNat ∧
    P.isNameChar c = Spec.isNameChar c.toNat ∧ P.isPubidChar c = Spec.isPubidChar c.toNat ∧
    P.isEncName c = Spec.isEncNameChar c.toNat :=
  ⟨C18.isChar_spec _, C18.isNameStartChar_spec _, C18.isNameChar_spec _, C18.isPubidChar_spec _,
   C18.isEncNameChar_spec _⟩

/-! ### (b) constraints beyond the EBNF -/

inductive WFPieces (t : EntTable) : List Piece → Prop where
  | nil : WFPieces t []
  | text (s r) : WFPieces t r → WFPieces t (.text s :: r)
  | charRef (d h r) : (charOfRef d h).isSome = true → WFPieces t r → WFPieces t (.charRef d h :: r)
  | entRef (n r) : (lookupEnt t n).isSome = true → WFPieces t r → WFPieces t (.entRef n :: r)
  | peRef (n r) : WFPieces t r → WFPieces t (.peRef n :: r)

mutual
/-- WFC Legal Character, Entity Declared, Unique Att Spec, for an item and everything below it -/
inductive WFItem (t : EntTable) : Item → Prop where
  | text (s) : WFItem t (.text s)
  | charRef (d h) : (charOfRef d h).isSome = true → WFItem t (.charRef d h)
  | entRef (n) : (lookupEnt t n).isSome = true → WFItem t (.entRef n)
  | cdata (s) : WFItem t (.cdata s)
  | pi (a b) : WFItem t (.pi a b)
  | comment (s) : WFItem t (.comment s)
  | elem (n attrs kids) : dupName (attrs.map (·.name)) = false → WFAttrs t attrs → WFItems t kids →
      WFItem t (.elem n attrs kids)
inductive WFAttrs (t : EntTable) : List Attr → Prop where
  | nil : WFAttrs t []
  | cons (a r) : WFPieces t a.vals → WFAttrs t r → WFAttrs t (a :: r)
inductive WFItems (t : EntTable) : List Item → Prop where
  | nil : WFItems t []
  | cons (i r) : WFItem t i → WFItems t r → WFItems t (i :: r)
end

theorem checkPieces_sound (t : EntTable) : ∀ ps, checkPieces t ps = .ok () → WFPieces t ps
  | [], _ => .nil
  | .text s :: r, h => .text s r (checkPieces_sound t r (by simpa [checkPieces] using h))
  | .charRef d hx :: r, h => by
      simp only [checkPieces] at h
      split at h
      · next hc => exact .charRef d hx r hc (checkPieces_sound t r h)
      · cases h
  | .entRef n :: r, h => by
      simp only [checkPieces] at h
      split at h
      · next hc => exact .entRef n r hc (checkPieces_sound t r h)
      · cases h
  | .peRef n :: r, h => .peRef n r (checkPieces_sound t r (by simpa [checkPieces] using h))

mutual
theorem checkItem_sound (t : EntTable) : ∀ i, checkItem t i = .ok () → WFItem t i
  | .text s, _ => .text s
  | .charRef d hx, h => by
      simp only [checkItem] at h
      split at h
      · next hc => exact .charRef d hx hc
      · cases h
  | .entRef n, h => by
      simp only [checkItem] at h
      split at h
      · next hc => exact .entRef n hc
      · cases h
  | .cdata s, _ => .cdata s
  | .pi a b, _ => .pi a b
  | .comment s, _ => .comment s
  | .elem n attrs kids, h => by
      simp only [checkItem] at h
      split at h
      · cases h
      · next hd =>
        split at h
        · cases h
        · next ha => exact .elem n attrs kids (by simpa using hd) (checkAttrs_sound t attrs ha) (checkItems_sound t kids h)
theorem checkAttrs_sound (t : EntTable) : ∀ as, checkAttrs t as = .ok () → WFAttrs t as
  | [], _ => .nil
  | a :: r, h => by
      simp only [checkAttrs] at h
      split at h
      · cases h
      · next hp => exact .cons a r (checkPieces_sound t a.vals hp) (checkAttrs_sound t r h)
theorem checkItems_sound (t : EntTable) : ∀ is, checkItems t is = .ok () → WFItems t is
  | [], _ => .nil
  | i :: r, h => by
      simp only [checkItems] at h
      split at h
      · cases h
      · next hi => exact .cons i r (checkItem_sound t i hi) (checkItems_sound t r h)
end

def docTable (d : IDoc) : EntTable :=
  match d.kids.findSome? fun | .doctype x => some x | _ => none with
  | some x => entTableOf x
  | none => []

/-- every reported document has a root element, and the whole element tree satisfies
    Unique Att Spec, Legal Character and Entity Declared -/
theorem accepted_document_wellformed (ev : Env) (st : Bool) (s : Str) (d : IDoc) (rest : Str)
    (h : parseDocWith ev st s = .ok (d, rest)) :
    ∃ root, (d.kids.findSome? fun | .elem e => some e | _ => none) = some root ∧ WFItem (docTable d) root := by
  obtain ⟨c, _, _, _, hc⟩ := accepted_is_derivable ev st s d rest h
  unfold checkDoc at hc
  simp only at hc
  split at hc
  · cases hc
  · split at hc
    · next root hroot => exact ⟨root, hroot, checkItem_sound _ _ hc⟩
    · cases hc

/-! ### constraints carried by the (generated) grammar itself -/

/-- WFC Element Type Match: an element is an empty-element tag, or its end-tag name equals its
    start-tag name -/
theorem element_tags_match (c : CST) (h : Derives env (env N.element_body) c) :
    (∃ t, c = .node N.empty_entity_tag t) ∨ P.tagNamesMatch c = true := by
  rw [env_element_body, Prod.element_body] at h
  cases h with
  | alt gs g c hg hd =>
    simp only [List.mem_cons, List.mem_nil_iff, or_false] at hg
    rcases hg with rfl | rfl
    · cases hd with | nt n c' _ => exact .inl ⟨c', rfl⟩
    · cases hd with | verify g p c _ hp => exact .inr hp

/-- character data never contains `<`, `&` or the CDATA-section-close delimiter `]]>` -/
theorem chardata_no_markup (c : CST) (h : Derives env (env N.char_data) c) :
    ∃ t, c = .leaf t ∧ hasSub [']', ']', '>'] t = false ∧ ∀ ch ∈ t, ch ≠ '<' ∧ ch ≠ '&' := by
  rw [env_char_data, Prod.char_data] at h
  cases h with
  | until0 p stop t hall hsub =>
    refine ⟨t, rfl, hsub (by simp), fun ch hch => ?_⟩
    have := hall ch hch
    simp only [P.except, Bool.and_eq_true, Bool.not_eq_true'] at this
    have h2 := this.2
    constructor
    · rintro rfl; revert h2; decide
    · rintro rfl; revert h2; decide

/-- a PI target is never `xml` in any mix of cases -/
theorem pi_target_not_xml (c : CST) (h : Derives env (env N.pi_target) c) :
    P.eqIgnoreAsciiCase c.flatten ['x', 'm', 'l'] = false := by
  rw [env_pi_target, Prod.pi_target] at h
  cases h with
  | verify g p c _ hp => simpa using hp

theorem all_nodes_of_derivesAll (n : Nat) : ∀ ms, DerivesAll env (.nt n) ms → ∀ m ∈ ms, ∃ b, m = .node n b
  | [], _, m, hm => by simp at hm
  | c :: cs, .cons _ _ _ hc hr, m, hm => by
      simp only [List.mem_cons] at hm
      rcases hm with rfl | hm
      · cases hc with | nt _ b _ => exact ⟨b, rfl⟩
      · exact all_nodes_of_derivesAll n cs hr m hm

/-- the document production: prolog, exactly one root element, then only Misc -/
theorem document_shape (c : CST) (h : Derives env (env N.document) c) :
    ∃ p e ms, c = .seq [.node N.prolog p, .node N.element e, .many ms] ∧
      ∀ m ∈ ms, ∃ b, m = .node N.misc b := by
  rw [env_document, Prod.document] at h
  cases h with
  | seq gs ks hs =>
    cases hs with
    | cons g gs c cs h1 hs =>
      cases hs with
      | cons g gs c cs h2 hs =>
        cases hs with
        | cons g gs c cs h3 hs =>
          cases hs
          cases h1 with | nt _ p _ =>
          cases h2 with | nt _ e _ =>
          cases h3 with | many _ ms hall =>
          exact ⟨p, e, ms, rfl, all_nodes_of_derivesAll _ ms hall⟩

/-- the specification model additionally enforces the entity-usage constraints -/
theorem spec_accepts_only_strict (s : Str) (d : IDoc) (rest : Str) (h : parseDocSpec s = .ok (d, rest)) :
    strictDoc envSpec d = true := by
  unfold parseDocSpec parseDocWith at h
  split at h
  · cases h
  · cases h
  · split at h
    · cases h
    split at h
    · cases h
    split at h
    · cases h
    · split at h
      · cases h
      · split at h
        · cases h
        · next hs =>
          simp only [Except.ok.injEq, Prod.mk.injEq] at h
          obtain ⟨rfl, _⟩ := h
          simpa using hs
  · cases h

-- non-vacuity: the constraint predicates are not trivially true
example : dupName [⟨none, ['x']⟩, ⟨none, ['x']⟩] = true ∧ (charOfRef ['0'] false).isSome = false ∧
    (charOfRef ['6', '5'] false) = some 'A' ∧ (lookupEnt [] ['n', 'o']).isSome = false := by decide

end XmlRs.C02
