import XmlRsModel.XPath.Eval
/-! The command-line tools `xq` (print the selection) and `xe` (replace the children of the selected
    nodes), as compositions of the parser, the XPath evaluator (merged-text view) and the printer.
    Nodes selected by XPath are located in the information-set tree by the same grouping of text-like
    items into merged text nodes that `XPath.buildItems` performs. -/
namespace XmlRs.Cli
open XmlRs XmlRs.XPath

def isTextLike : Item → Bool
  | .text _ | .cdata _ | .charRef _ _ | .entRef _ => true
  | _ => false

/-- the child index the merged-text view gives every item: the text-like items of one maximal run
    share one index.  `n` is the index the next new child gets, `prevText` whether a run is open. -/
def kidIdx : Nat → Bool → List Item → List Nat
  | _, _, [] => []
  | n, prevText, x :: r =>
    if isTextLike x then
      (if prevText then n - 1 else n) :: kidIdx (if prevText then n else n + 1) true r
    else n :: kidIdx (n + 1) false r

/-- the items that make up child `j` of the merged view -/
def kidAt (kids : List Item) (j : Nat) : List Item :=
  ((kids.zip (kidIdx 0 false kids)).filter (·.2 == j)).map (·.1)

/-- what an XPath key denotes in the information-set tree -/
inductive Sel where
  | doc
  | top (t : TopItem)
  | item (i : Item)
  | run (items : List Item)
  | attr (a : Attr) (specified : Bool)
  | ns (pre uri : Str)
  deriving Inhabited

/-- top-level children seen by XPath: comments, PIs and the root element (no DOCTYPE) -/
def xpathTops (d : IDoc) : List TopItem := d.kids.filter fun | .doctype _ => false | _ => true

def docDoctype (d : IDoc) : Option Doctype := d.kids.findSome? fun | .doctype x => some x | _ => none

def locateItem (dt : Option Doctype) (req : Bool) : Key → Item → Option Sel
  | [], i => some (.item i)
  | k :: r, .elem n attrs kids =>
    if k == 1 then
      (match r with
       | [j] =>
         let plain := (elemAttrs req dt n attrs).filter (fun (a, _) => !xmlnsQ a.name)
         (plain[j]?).map fun (a, sp) => .attr a sp
       | _ => none)
    else if k == 0 then none
    else
      match kidAt kids (k - 2) with
      | [] => none
      | [x] => if isTextLike x then (if r.isEmpty then some (.run [x]) else none) else locateItem dt req r x
      | g => if r.isEmpty then some (.run g) else none
  | _ :: _, _ => none

def locate (req : Bool) (d : IDoc) : Key → Option Sel
  | [] => some .doc
  | k :: r =>
    if k < 2 then none else
    match (xpathTops d)[k - 2]? with
    | some (.elem e) => locateItem (docDoctype d) req r e
    | some t => if r.isEmpty then some (.top t) else none
    | none => none

/-! ### xq -/
def printSel : Sel → IDoc → Str
  | .doc, d => printDoc d
  | .top t, _ => printTop t
  | .item i, _ => printItem i
  | .run g, _ => printItems g
  | .attr a _, _ => printAttr a
  | .ns p u, _ => (if p.isEmpty then "xmlns".toList else "xmlns:".toList ++ p) ++ '=' :: escapeQ u

inductive CliOut where
  | ok (stdout : Str)
  | fail            -- an error message and a non-zero exit status
  deriving Inhabited

/-- `xq --no-indent --xpath <expr> [--setns ...] < <text>`: one line per selected node in document
    order, or the scalar -/
def xq (req negz : Bool) (text : Str) (bind : List (Option Str × Str)) (expr : Str) : CliOut :=
  match parseDoc text with
  | .ok (d, []) =>
    (match buildDoc false req d with
     | .error _ => .fail
     | .ok xd =>
       let xd := { xd with negZeroQuirk := negz }
       match XPath.query ⟨xd, bind⟩ expr with
       | .error _ => .fail
       | .ok (.bool b) => .ok ((if b then "true" else "false").toList ++ ['\n'])
       | .ok (.num x) => .ok (toStr xd (.num x) ++ ['\n'])
       | .ok (.str s) => .ok (s ++ ['\n'])
       | .ok (.nodes ks) =>
         .ok (ks.flatMap fun k => match locate req d k with
           | some sel => printSel sel d ++ ['\n']
           | none => match lookup xd k with
             | some (.ns _ p u) => printSel (.ns p u) d ++ ['\n']
             | _ => "?\n".toList))
  | _ => .fail

/-! ### xe -/

/-- the replacement as attribute value items: text and entity references only -/
def attrPieces : List Item → Option (List Piece)
  | [] => some []
  | .text s :: r => (attrPieces r).map (.text s :: ·)
  | .entRef n :: r => (attrPieces r).map (.entRef n :: ·)
  | _ => none

mutual
/-- can the replacement be rebuilt through the DOM interface?  (character references and two
    attributes with one local part on an element are refused by the tool) -/
def rebuildable : Item → Bool
  | .charRef _ _ => false
  | .elem _ attrs kids =>
    ((attrs.map (·.name.loc)).length == (attrs.map (·.name.loc)).eraseDups.length) && rebuildableL kids
  | _ => true
def rebuildableL : List Item → Bool
  | [] => true
  | x :: r => rebuildable x && rebuildableL r
end

/-- the attributes of the element at key `base`; plain (non-namespace) attributes are numbered from `j`
    as XPath numbers them; a selected attribute gets the replacement as its value -/
def rewriteAttrs (sel : List Key) (repl : Option (List Piece)) (base : Key) : Nat → List Attr → Option (List Attr)
  | _, [] => some []
  | j, a :: r =>
    if xmlnsQ a.name then (rewriteAttrs sel repl base j r).map (a :: ·)
    else if sel.contains (base ++ [1, j]) then
      match repl, rewriteAttrs sel repl base (j + 1) r with
      | some ps, some rest => some ({ a with vals := ps } :: rest)
      | _, _ => none
    else (rewriteAttrs sel repl base (j + 1) r).map (a :: ·)

/-- attributes supplied by attribute-list defaults (numbered from `j` after the written ones): a
    selected one is written as a specified attribute of that name with the replacement as its value -/
def newDefaults (sel : List Key) (repl : Option (List Piece)) (base : Key) : Nat → List (Attr × Bool) → Option (List Attr)
  | _, [] => some []
  | j, (a, _) :: r =>
    if xmlnsQ a.name then newDefaults sel repl base j r
    else if sel.contains (base ++ [1, j]) then
      match repl, newDefaults sel repl base (j + 1) r with
      | some ps, some rest => some ({ a with vals := ps } :: rest)
      | _, _ => none
    else newDefaults sel repl base (j + 1) r

/-- the unspecified attributes of an element and the index of the first of them -/
def defaultsOf (dt : Option Doctype) (req : Bool) (n : QN) (attrs : List Attr) : Nat × List (Attr × Bool) :=
  ((attrs.filter fun a => !xmlnsQ a.name).length, (elemAttrs req dt n attrs).drop attrs.length)

mutual
/-- replace the children of the selected nodes at and below the item with key `base` -/
def rewriteItem (dt : Option Doctype) (req : Bool) (sel : List Key) (repl : List Item) (base : Key) : Item → Option Item
  | .elem n attrs kids =>
    match rewriteAttrs sel (attrPieces repl) base 0 attrs,
          newDefaults sel (attrPieces repl) base (defaultsOf dt req n attrs).1 (defaultsOf dt req n attrs).2 with
    | some as, some extra =>
      if sel.contains base then some (.elem n (as ++ extra) repl)
      else (rewriteKids dt req sel repl base 0 false kids).map fun ks => .elem n (as ++ extra) ks
    | _, _ => none
  | i => some i
/-- the children of the element with key `base`, numbered as `kidIdx` numbers them -/
def rewriteKids (dt : Option Doctype) (req : Bool) (sel : List Key) (repl : List Item) (base : Key) :
    Nat → Bool → List Item → Option (List Item)
  | _, _, [] => some []
  | n, prevText, x :: r =>
    if isTextLike x then (rewriteKids dt req sel repl base (if prevText then n else n + 1) true r).map (x :: ·)
    else
      match rewriteItem dt req sel repl (base ++ [n + 2]) x, rewriteKids dt req sel repl base (n + 1) false r with
      | some x', some r' => some (x' :: r')
      | _, _ => none
end

def topOfItem : Item → Option TopItem
  | .comment s => some (.comment s)
  | .pi t d => some (.pi t d)
  | .elem n a k => some (.elem (.elem n a k))
  | _ => none

/-- the top-level items: the DOCTYPE is not a child in the XPath view -/
def rewriteTops (dt : Option Doctype) (req : Bool) (sel : List Key) (repl : List Item) : Nat → List TopItem → Option (List TopItem)
  | _, [] => some []
  | i, .doctype x :: r => (rewriteTops dt req sel repl i r).map (TopItem.doctype x :: ·)
  | i, .elem e :: r =>
    (match rewriteItem dt req sel repl [i + 2] e, rewriteTops dt req sel repl (i + 1) r with
     | some e', some r' => some (.elem e' :: r')
     | _, _ => none)
  | i, t :: r => (rewriteTops dt req sel repl (i + 1) r).map (t :: ·)

/-- the replacement as children of the document node -/
def topsOf : List Item → Option (List TopItem)
  | [] => some []
  | x :: r => match topOfItem x, topsOf r with
    | some t, some ts => some (t :: ts)
    | _, _ => none

mutual
/-- levels of element nesting of an item / of a list of items -/
def itemNest : Item → Nat
  | .elem _ _ kids => itemsNest kids + 1
  | _ => 0
def itemsNest : List Item → Nat
  | [] => 0
  | x :: r => max (itemNest x) (itemsNest r)
end

/-- the DOM refuses to put an element deeper than the parser reads back (`MAX_ELEMENT_DEPTH`), and the tool ends with an
    error then.  The tool works through the node-set in document order; when it reaches a selected element below another
    selected element, that one's children are detached already, so the element's level counts from there. -/
def depthRefused (req : Bool) (d : IDoc) (ks : List Key) (repl : List Item) : Bool :=
  ks.any fun k => match locate req d k with
    | some (.item (.elem _ _ _)) =>
      let anc := ((ks.filter fun a => a.length < k.length && isPrefix a k &&
                    (match locate req d a with | some (.item (.elem _ _ _)) => true | some .doc => true | _ => false)).map (·.length)).foldl max 0
      (k.length - anc) + itemsNest repl > Gen.Xml.maxDepth_element
    | _ => false

/-- `xe --no-indent --xpath <expr> --value <fragment> < <text>` -/
def xe (req : Bool) (text : Str) (bind : List (Option Str × Str)) (expr value : Str) : CliOut :=
  -- the value must be a well-formed fragment
  match parseDoc ("<e>".toList ++ value ++ "</e>".toList) with
  | .ok (vd, []) =>
    (match vd.kids.findSome? fun | .elem (.elem _ _ k) => some k | _ => none with
     | none => .fail
     | some repl =>
       match parseDoc text with
       | .ok (d, []) =>
         (match buildDoc false req d with
          | .error _ => .fail
          | .ok xd =>
            match XPath.query ⟨xd, bind⟩ expr with
            | .ok (.nodes ks) =>
              -- every selected node must be a document, element or attribute node
              if !(ks.all fun k => match locate req d k with
                    | some .doc => true | some (.item (.elem _ _ _)) => true | some (.attr _ _) => true | _ => false) then .fail
              else if ks.isEmpty then .ok (printDoc d ++ ['\n'])
              else if !rebuildableL repl then .fail
              -- a selected attribute takes text and entity references only - also one that lies in a
              -- subtree another selected node has already dropped (the tool works through the whole node-set)
              else if (ks.any fun k => match locate req d k with | some (.attr _ _) => true | _ => false) &&
                      (attrPieces repl).isNone then .fail
              else if ks.contains [] then
                -- the document node: its children are replaced; exactly one root element is required
                (match topsOf repl with
                 | none => .fail
                 | some tops =>
                   if (tops.filter fun | .elem _ => true | _ => false).length != 1 then .fail
                   else .ok (printDoc { d with kids := tops } ++ ['\n']))
              else if depthRefused req d ks repl then .fail
              else
                (match rewriteTops (docDoctype d) req ks repl 0 d.kids with
                 | some ks' => .ok (printDoc { d with kids := ks' } ++ ['\n'])
                 | none => .fail)
            | _ => .fail)
       | _ => .fail)
  | _ => .fail

end XmlRs.Cli
