import XmlRsModel.Infoset
import XmlRsModel.Gen.XmlGrammarRef
/-! Document-level model: the checks `xml_info::XmlDocument::new` performs while it builds the items
    (reference resolution, duplicate attributes, unsupported parameter entities), the top-level
    `parseDoc` = grammar + abstraction + checks, and the compact printer (`fmt::Display`). -/
namespace XmlRs
open Gen.Xml

/-! ### character references -/
def digitVal (c : Char) : Nat :=
  if '0' ≤ c && c ≤ '9' then c.toNat - 48
  else if 'a' ≤ c && c ≤ 'f' then c.toNat - 87
  else if 'A' ≤ c && c ≤ 'F' then c.toNat - 55
  else 0

def parseNat (base : Nat) (s : Str) : Nat := s.foldl (fun acc c => acc * base + digitVal c) 0

/-- the character with code point `n`, if `n` fits `u32`, is a scalar value and an XML Char -/
def charOfNat (n : Nat) : Option Char :=
  if h : n.isValidChar then
    (if n < 4294967296 && Gen.isChar n then some (Char.ofNatAux n h) else none)
  else none

/-- the character a reference denotes -/
def charOfRef (digits : Str) (hex : Bool) : Option Char :=
  charOfNat (parseNat (if hex then 16 else 10) digits)

/-! ### entity table -/
abbrev EntTable := List (Str × EntDef)

def predefined : EntTable :=
  [(['l', 't'], .internal [.text ['<']]), (['g', 't'], .internal [.text ['>']]),
   (['a', 'm', 'p'], .internal [.text ['&']]), (['a', 'p', 'o', 's'], .internal [.text ['\'']]),
   (['q', 'u', 'o', 't'], .internal [.text ['"']])]

def entTableOf (d : Doctype) : EntTable :=
  d.kids.filterMap fun | .entity n e => some (n, e) | _ => none

/-- `Context::entity`: declared entities first (first declaration wins), then the predefined five -/
def lookupEnt (t : EntTable) (name : Str) : Option EntDef :=
  match t.find? (·.1 == name) with
  | some (_, e) => some e
  | none => (predefined.find? (·.1 == name)).map (·.2)

/-! ### checks made while the items are built -/
def checkPieces (t : EntTable) : List Piece → Except XErr Unit
  | [] => .ok ()
  | .text _ :: r => checkPieces t r
  | .charRef d h :: r => if (charOfRef d h).isSome then checkPieces t r else .error .reference
  | .entRef n :: r => if (lookupEnt t n).isSome then checkPieces t r else .error .reference
  | .peRef _ :: r => checkPieces t r

def dupName : List QN → Bool
  | [] => false
  | q :: r => r.contains q || dupName r

mutual
def checkItem (t : EntTable) : Item → Except XErr Unit
  | .text _ => .ok ()
  | .charRef d h => if (charOfRef d h).isSome then .ok () else .error .reference
  | .entRef n => if (lookupEnt t n).isSome then .ok () else .error .reference
  | .cdata _ => .ok ()
  | .pi _ _ => .ok ()
  | .comment _ => .ok ()
  | .elem _ attrs kids =>
      if dupName (attrs.map (·.name)) then .error .duplicateAttr else
      match checkAttrs t attrs with
      | .error e => .error e
      | .ok () => checkItems t kids
def checkAttrs (t : EntTable) : List Attr → Except XErr Unit
  | [] => .ok ()
  | a :: r => match checkPieces t a.vals with
      | .error e => .error e
      | .ok () => checkAttrs t r
def checkItems (t : EntTable) : List Item → Except XErr Unit
  | [] => .ok ()
  | i :: r => match checkItem t i with
      | .error e => .error e
      | .ok () => checkItems t r
end

/-- the internal subset is read in order: an ATTLIST default may refer to the predefined entities and
    to the entities declared before it -/
def checkDtd (t : EntTable) : List DtdItem → Except XErr Unit
  | [] => .ok ()
  | .attlist _ defs :: r =>
      let rec go : List AttDef → Except XErr Unit
        | [] => .ok ()
        | d :: ds => match d.dflt with
            | .value _ vs => (match checkPieces t vs with | .error e => .error e | .ok () => go ds)
            | _ => go ds
      match go defs with
      | .error e => .error e
      | .ok () => checkDtd t r
  | .entity n e :: r => checkDtd (t ++ [(n, e)]) r
  | _ :: r => checkDtd t r

def checkDoc (d : IDoc) : Except XErr Unit :=
  let dt := d.kids.findSome? fun | .doctype x => some x | _ => none
  let t := match dt with | some x => entTableOf x | none => []
  match (match dt with | some x => checkDtd [] x.kids | none => .ok ()) with
  | .error e => .error e
  | .ok () =>
    match d.kids.findSome? fun | .elem e => some e | _ => none with
    | some e => checkItem t e
    | none => .error .shape

def xmlFuel (s : Str) : Nat := 200000 + 256 * s.length

/-- [5] Name ::= NameStartChar (NameChar)*  as the Recommendation has it -/
def specName : G := .seq [.one P.isNameStartChar, .cls0 P.isNameChar]

/-- the grammar with every recorded deviation from the Recommendation repaired (`Quirks.none`):
    today only production [5] Name (finding `name-lax`) -/
def envSpec : Env := fun n => if n = N.name then specName else env n

/-! ### entity-usage constraints (specification side only; the library checks none of them) -/

/-- 4.5: literal entity value to replacement text: character references are included, general
    entity references are bypassed -/
def replacementText : List Piece → Option Str
  | [] => some []
  | .text s :: r => (replacementText r).map (s ++ ·)
  | .charRef d h :: r => match charOfRef d h, replacementText r with
      | some c, some x => some (c :: x)
      | _, _ => none
  | .entRef n :: r => (replacementText r).map (('&' :: n ++ [';']) ++ ·)
  | .peRef n :: r => (replacementText r).map (('%' :: n ++ [';']) ++ ·)

def contentOk (ev : Env) (rt : Str) : Bool :=
  match run ev (xmlFuel rt) (.nt N.content) rt with
  | .ok _ [] => true
  | _ => false

def isPredefinedOnly (t : EntTable) (name : Str) : Bool :=
  (predefined.find? (·.1 == name)).isSome && (t.find? (·.1 == name)).isNone

/-- WFC Entity Declared, Parsed Entity, No Recursion, No External Entity References, No `<` in
    Attribute Values, and well-formedness of the replacement text, for one reference -/
def strictEnt (ev : Env) (t : EntTable) (inAttr : Bool) : Nat → List Str → Str → Bool
  | 0, _, _ => false
  | fuel+1, open_, name =>
    if isPredefinedOnly t name then true
    else if open_.contains name then false
    else match lookupEnt t name with
      | none => false
      | some (.external _ _ nd) => !inAttr && nd.isNone
      | some (.internal vs) =>
        match replacementText vs with
        | none => false
        | some rt =>
          (if inAttr then !rt.contains '<' else contentOk ev rt) &&
          vs.all fun
            | .entRef m => strictEnt ev t inAttr fuel (name :: open_) m
            | _ => true

def strictPieces (ev : Env) (t : EntTable) (ps : List Piece) : Bool :=
  ps.all fun | .entRef n => strictEnt ev t true (t.length + 2) [] n | _ => true

mutual
def strictItem (ev : Env) (t : EntTable) : Item → Bool
  | .entRef n => strictEnt ev t false (t.length + 2) [] n
  | .elem _ attrs kids => attrs.all (fun a => strictPieces ev t a.vals) && strictItems ev t kids
  | _ => true
def strictItems (ev : Env) (t : EntTable) : List Item → Bool
  | [] => true
  | i :: r => strictItem ev t i && strictItems ev t r
end

def strictDoc (ev : Env) (d : IDoc) : Bool :=
  let dt := d.kids.findSome? fun | .doctype x => some x | _ => none
  let t := match dt with | some x => entTableOf x | none => []
  match d.kids.findSome? fun | .elem e => some e | _ => none with
  | some e => strictItem ev t e
  | none => false

/-- `XmlDocument::from_raw` over a grammar environment: (document, unconsumed rest) or an error
    class.  `strict` adds the entity-usage constraints the library does not check (recorded finding
    `entity-wfc`) -/
def parseDocWith (ev : Env) (strict : Bool) (s : Str) : Except XErr (IDoc × Str) :=
  match run ev (xmlFuel s) (.nt N.document) s with
  | .fuel => .error .fuel
  | .fail => .error .syntax
  | .ok (.node _ c) rest =>
      -- the recursion-depth guard of `element`: an element nested deeper than the limit fails, and
      -- with it every enclosing element and the document
      if maxDepth_element != 0 && c.elemDepth > maxDepth_element then .error .syntax else
      -- the same guard on the groups of a content model (`children`)
      if maxDepth_children != 0 && c.ntDepth N.children > maxDepth_children then .error .syntax else
      (match absDocument c with
       | .error e => .error e
       | .ok d => match checkDoc d with
           | .error e => .error e
           | .ok () => if strict && !strictDoc ev d then .error .reference else .ok (d, rest))
  | .ok _ _ => .error .shape

/-- the same with the fuel of the interpreter as a parameter (`parseDocWith` supplies `xmlFuel s`) -/
def parseDocFuel (ev : Env) (strict : Bool) (f : Nat) (s : Str) : Except XErr (IDoc × Str) :=
  match run ev f (.nt N.document) s with
  | .fuel => .error .fuel
  | .fail => .error .syntax
  | .ok (.node _ c) rest =>
      if maxDepth_element != 0 && c.elemDepth > maxDepth_element then .error .syntax else
      if maxDepth_children != 0 && c.ntDepth N.children > maxDepth_children then .error .syntax else
      (match absDocument c with
       | .error e => .error e
       | .ok d => match checkDoc d with
           | .error e => .error e
           | .ok () => if strict && !strictDoc ev d then .error .reference else .ok (d, rest))
  | .ok _ _ => .error .shape

theorem parseDocWith_eq (ev : Env) (strict : Bool) (s : Str) : parseDocWith ev strict s = parseDocFuel ev strict (xmlFuel s) s := rfl

/-- the model of the code as it is (grammar translated from the current source) -/
def parseDoc (s : Str) : Except XErr (IDoc × Str) := parseDocWith env false s

/-- the model with the recorded findings repaired -/
def parseDocSpec (s : Str) : Except XErr (IDoc × Str) := parseDocWith envSpec true s

/-- the same pipeline over the REVIEWED grammar (`Gen/XmlGrammarRef.lean`, from the committed snapshot
    tools/ref/xml.json) with its own nesting limits: the specification-side reference that does not
    move when the source moves.  Shared productions carry the numbers of the current grammar, so the
    semantic actions read its trees. -/
def envRefSpec : Env := fun n => if n = N.name then specName else Gen.XmlRef.env n

def parseDocRef (strict : Bool) (s : Str) : Except XErr (IDoc × Str) :=
  let ev : Env := if strict then envRefSpec else Gen.XmlRef.env
  match run ev (xmlFuel s) (.nt N.document) s with
  | .fuel => .error .fuel
  | .fail => .error .syntax
  | .ok (.node _ c) rest =>
      if Gen.XmlRef.maxDepth_element != 0 && c.elemDepth > Gen.XmlRef.maxDepth_element then .error .syntax else
      if Gen.XmlRef.maxDepth_children != 0 && c.ntDepth N.children > Gen.XmlRef.maxDepth_children then .error .syntax else
      (match absDocument c with
       | .error e => .error e
       | .ok d => match checkDoc d with
           | .error e => .error e
           | .ok () => if strict && !strictDoc ev d then .error .reference else .ok (d, rest))
  | .ok _ _ => .error .shape

/-- current grammar, strict entity checks (used to attribute failures to single findings) -/
def parseDocStrictOnly (s : Str) : Except XErr (IDoc × Str) := parseDocWith env true s

/-! ### the compact printer -/
def escapeQ (v : Str) : Str := if v.contains '"' then '\'' :: v ++ ['\''] else '"' :: v ++ ['"']

def printPiece : Piece → Str
  | .text s => s
  | .charRef d h => (if h then ['&', '#', 'x'] else ['&', '#']) ++ d ++ [';']
  | .entRef n => '&' :: n ++ [';']
  | .peRef n => '%' :: n ++ [';']

def printPieces (ps : List Piece) : Str := ps.flatMap printPiece

/-- an attribute value that holds both kinds of quote is written between double quotes with its
    double quotes as `&quot;` -/
def quoteAttr (v : Str) : Str :=
  if v.contains '"' && v.contains '\'' then
    '"' :: (v.flatMap fun c => if c == '"' then ['&', 'q', 'u', 'o', 't', ';'] else [c]) ++ ['"']
  else escapeQ v

def printAttr (a : Attr) : Str := a.name.text ++ '=' :: quoteAttr (printPieces a.vals)

def printPI (t : Str) (d : Option Str) : Str :=
  ['<', '?'] ++ t ++ (match d with | some x => ' ' :: x | none => []) ++ ['?', '>']

mutual
def printItem : Item → Str
  | .text s => s
  | .charRef d h => printPiece (.charRef d h)
  | .entRef n => printPiece (.entRef n)
  | .cdata s => ['<', '!', '[', 'C', 'D', 'A', 'T', 'A', '['] ++ s ++ [']', ']', '>']
  | .pi t d => printPI t d
  | .comment s => ['<', '!', '-', '-'] ++ s ++ ['-', '-', '>']
  | .elem n attrs kids =>
      let head := '<' :: n.text ++ attrs.flatMap (fun a => ' ' :: printAttr a)
      match kids with
      | [] => head ++ [' ', '/', '>']
      | _ => head ++ '>' :: printItems kids ++ ['<', '/'] ++ n.text ++ ['>']
def printItems : List Item → Str
  | [] => []
  | i :: r => printItem i ++ printItems r
end

def printExtId (pub sys : Option Str) : Str :=
  match pub, sys with
  | some p, some s => [' ', 'P', 'U', 'B', 'L', 'I', 'C', ' '] ++ escapeQ p ++ ' ' :: escapeQ s
  | some p, none => [' ', 'P', 'U', 'B', 'L', 'I', 'C', ' '] ++ escapeQ p
  | none, some s => [' ', 'S', 'Y', 'S', 'T', 'E', 'M', ' '] ++ escapeQ s
  | none, none => []

def sepBy (sep : Str) : List Str → Str
  | [] => []
  | [x] => x
  | x :: r => x ++ sep ++ sepBy sep r

def printAttType : AttType → Str
  | .cdata => ['C', 'D', 'A', 'T', 'A'] | .id => ['I', 'D'] | .idref => ['I', 'D', 'R', 'E', 'F'] | .idrefs => ['I', 'D', 'R', 'E', 'F', 'S']
  | .entity => ['E', 'N', 'T', 'I', 'T', 'Y'] | .entities => ['E', 'N', 'T', 'I', 'T', 'I', 'E', 'S'] | .nmtoken => ['N', 'M', 'T', 'O', 'K', 'E', 'N']
  | .nmtokens => ['N', 'M', 'T', 'O', 'K', 'E', 'N', 'S']
  | .notation ns => ['N', 'O', 'T', 'A', 'T', 'I', 'O', 'N', ' ', '('] ++ sepBy ['|'] ns ++ [')']
  | .enumeration ts => '(' :: sepBy ['|'] ts ++ [')']

def printDefault : AttDefault → Str
  | .required => ['#', 'R', 'E', 'Q', 'U', 'I', 'R', 'E', 'D']
  | .implied => ['#', 'I', 'M', 'P', 'L', 'I', 'E', 'D']
  | .value f vs => (if f then ['#', 'F', 'I', 'X', 'E', 'D', ' '] else []) ++ escapeQ (printPieces vs)

def printDtdItem : DtdItem → Str
  | .attlist e defs => ['<', '!', 'A', 'T', 'T', 'L', 'I', 'S', 'T', ' '] ++ e.text ++
      defs.flatMap (fun d => ' ' :: d.name.text ++ ' ' :: printAttType d.ty ++ ' ' :: printDefault d.dflt) ++ ['>']
  | .entity n (.internal vs) => ['<', '!', 'E', 'N', 'T', 'I', 'T', 'Y', ' '] ++ n ++ ' ' :: escapeQ (printPieces vs) ++ ['>']
  | .entity n (.external p s nd) => ['<', '!', 'E', 'N', 'T', 'I', 'T', 'Y', ' '] ++ n ++ printExtId p (some s) ++
      (match nd with | some x => [' ', 'N', 'D', 'A', 'T', 'A', ' '] ++ x | none => []) ++ ['>']
  | .notation n p s => ['<', '!', 'N', 'O', 'T', 'A', 'T', 'I', 'O', 'N', ' '] ++ n ++ printExtId p s ++ ['>']
  | .pi t d => printPI t d

def printDoctype (d : Doctype) : Str :=
  ['<', '!', 'D', 'O', 'C', 'T', 'Y', 'P', 'E', ' '] ++ d.name.text ++ printExtId d.pub d.sys ++
    (match d.kids with
     | [] => []
     | ks => [' ', '['] ++ ks.flatMap printDtdItem ++ [']']) ++ ['>']

def printTop : TopItem → Str
  | .comment s => ['<', '!', '-', '-'] ++ s ++ ['-', '-', '>']
  | .pi t d => printPI t d
  | .doctype d => printDoctype d
  | .elem e => printItem e

def printDoc (d : IDoc) : Str :=
  (match d.version with
   | some v => ['<', '?', 'x', 'm', 'l', ' ', 'v', 'e', 'r', 's', 'i', 'o', 'n', '=', '"'] ++ v ++ ['"'] ++
       (match d.encoding with | some e => (if e.isEmpty then [] else [' ', 'e', 'n', 'c', 'o', 'd', 'i', 'n', 'g', '=', '"'] ++ e ++ ['"']) | none => []) ++
       (match d.standalone with | some b => [' ', 's', 't', 'a', 'n', 'd', 'a', 'l', 'o', 'n', 'e', '=', '"'] ++ (if b then ['y', 'e', 's'] else ['n', 'o']) ++ ['"'] | none => []) ++
       ['?', '>']
   | none => []) ++ d.kids.flatMap printTop

end XmlRs
