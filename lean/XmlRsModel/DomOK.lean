import XmlRsModel.Dom
/-! Decidable well-formedness of the items of a document, kind by kind, with the validity predicates the DOM applies to
    supplied data (`Dom.validText`, ...): the hypothesis on the initial document of `Thm/C15Valid.lean`, evaluated by the
    driver on every parsed document of a run (op `thm15`). -/
namespace XmlRs.Dom
open XmlRs Gen.Xml

/-- a text character of an attribute value, whatever the quote -/
def avChar (c : Char) : Bool := P.isChar c && c != '<' && c != '&'

def weakText (d : Str) : Bool := d.all avChar

/-- pieces whose text consists of attribute-value characters -/
def pieceOK : Piece → Bool
  | .text s => weakText s
  | _ => true

def attrOK (a : Attr) : Bool := validQName a.name.text && a.vals.all pieceOK

mutual
def itemOK : Item → Bool
  | .text s => weakText s
  | .cdata s => validCData s
  | .comment s => validComment s
  | .pi t d => validPITarget t && validPI t (d.getD [])
  | .charRef _ _ => true
  | .entRef _ => true
  | .elem q attrs kids => validQName q.text && attrs.all attrOK && itemsOK kids
def itemsOK : List Item → Bool
  | [] => true
  | k :: r => itemOK k && itemsOK r
end

def topOK : TopItem → Bool
  | .comment s => validComment s
  | .pi t d => validPITarget t && validPI t (d.getD [])
  | .doctype _ => true
  | .elem e => itemOK e

/-- every item of the document would pass the check the DOM applies to supplied data of its kind -/
def docOK (d : IDoc) : Bool := d.kids.all topOK

end XmlRs.Dom
