/-! Basic helpers shared by every model module. Import-free (core only) so the driver links. -/
namespace XmlRs

abbrev Str := List Char

/-- membership of a code point in a list of inclusive ranges -/
def inRanges : List (Nat × Nat) → Nat → Bool
  | [], _ => false
  | (lo, hi) :: rs, c => (lo ≤ c && c ≤ hi) || inRanges rs c

/-- `stripPrefix p s = some r` iff `s = p ++ r` -/
def stripPrefix : Str → Str → Option Str
  | [], s => some s
  | _ :: _, [] => none
  | a :: as, b :: bs => if a = b then stripPrefix as bs else none

theorem stripPrefix_some : ∀ {p s r : Str}, stripPrefix p s = some r → s = p ++ r
  | [], s, r, h => by simp [stripPrefix] at h; simp [h]
  | _ :: _, [], _, h => by simp [stripPrefix] at h
  | a :: as, b :: bs, r, h => by
      simp only [stripPrefix] at h
      split at h
      · next hab => subst hab; simp [stripPrefix_some h]
      · cases h

theorem stripPrefix_append (p r : Str) : stripPrefix p (p ++ r) = some r := by
  induction p with
  | nil => simp [stripPrefix]
  | cons a as ih => simp [stripPrefix, ih]

/-- longest prefix all of whose characters satisfy `p`, and the remainder -/
def spanP (p : Char → Bool) : Str → Str × Str
  | [] => ([], [])
  | c :: cs => if p c then ((c :: (spanP p cs).1), (spanP p cs).2) else ([], c :: cs)

theorem spanP_append (p : Char → Bool) : ∀ s, (spanP p s).1 ++ (spanP p s).2 = s
  | [] => rfl
  | c :: cs => by
      simp only [spanP]; split
      · simp [spanP_append p cs]
      · rfl

theorem spanP_all (p : Char → Bool) : ∀ s, ∀ c ∈ (spanP p s).1, p c = true
  | [] => by simp [spanP]
  | c :: cs => by
      simp only [spanP]; split
      · next h => intro d hd; simp at hd; rcases hd with rfl | hd; exact h; exact spanP_all p cs d hd
      · simp

theorem spanP_rest (p : Char → Bool) : ∀ s, (spanP p s).2 = [] ∨ ∃ c r, (spanP p s).2 = c :: r ∧ p c = false
  | [] => by simp [spanP]
  | c :: cs => by
      simp only [spanP]; split
      · exact spanP_rest p cs
      · next h => right; exact ⟨c, cs, rfl, by simpa using h⟩

theorem spanP_length_le (p : Char → Bool) (s : Str) : (spanP p s).2.length ≤ s.length := by
  have := congrArg List.length (spanP_append p s); simp at this; omega

/-- index of the first occurrence of `pat` in `s` (in characters) -/
def findSub (pat : Str) : Str → Option Nat
  | [] => if pat = [] then some 0 else none
  | c :: cs => match stripPrefix pat (c :: cs) with
      | some _ => some 0
      | none => (findSub pat cs).map (· + 1)

end XmlRs
