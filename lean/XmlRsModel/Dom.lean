import XmlRsModel.XmlDoc
import XmlRsModel.CharData
/-! DOM Level 1 Core model: a document tree and the detached trees of an edit history, the mutators
    of `NodeMut` / `ElementMut` / `CharacterDataMut` / `TextMut` / `DocumentMut`, their exceptions.
    A failing call returns the state it was given (DOM: "exceptions are raised before any change").
    The validity rules for names and data are the grammar productions the library itself uses to
    validate (generated grammar, `Gen/XmlGrammar.lean`).  Import-free apart from the XML model. -/
namespace XmlRs.Dom
open XmlRs Gen.Xml

inductive Kind where
  | doc
  | elem (name : Str)
  | attr (name : Str) (specified : Bool)
  | text | cdata | comment
  | pi (target : Str)
  /-- entity reference or character reference; `name` is what `nodeName` reports -/
  | ref (name : Str)
  | doctype (name : Str)
  deriving DecidableEq, Inhabited

inductive Node where
  | mk (id : Nat) (kind : Kind) (data : Str) (attrs : List Node) (kids : List Node)
  deriving Inhabited

def Node.id : Node → Nat | .mk i _ _ _ _ => i
def Node.kind : Node → Kind | .mk _ k _ _ _ => k
def Node.data : Node → Str | .mk _ _ d _ _ => d
def Node.attrs : Node → List Node | .mk _ _ _ a _ => a
def Node.kids : Node → List Node | .mk _ _ _ _ k => k

inductive Exc where
  | hierarchy | wrongDoc | notFound | inUse | indexSize | invalidChar | noData | invalid
  deriving DecidableEq, Inhabited, Repr

structure St where
  doc : Node
  detached : List Node
  next : Nat
  /-- handle slot i ↦ node id; an allocating operation consumes one slot whatever its outcome -/
  handles : List (Option Nat)
  deriving Inhabited

/-! ### generic tree functions (attributes and children are both sub-nodes) -/
mutual
def findIn (i : Nat) : Node → Option Node
  | .mk j k d as ks => if i == j then some (.mk j k d as ks) else (findInL i as).orElse fun _ => findInL i ks
def findInL (i : Nat) : List Node → Option Node
  | [] => none
  | n :: r => (findIn i n).orElse fun _ => findInL i r
end

mutual
/-- all ids of a subtree in pre-order: node, attributes (with their items), children -/
def idsOf : Node → List Nat
  | .mk j _ _ as ks => j :: (idsOfL as ++ idsOfL ks)
def idsOfL : List Node → List Nat
  | [] => []
  | n :: r => idsOf n ++ idsOfL r
end

mutual
/-- remove the sub-node with id `i` (a child or an attribute, at any depth): (tree without it, it) -/
def removeIn (i : Nat) : Node → Node × Option Node
  | .mk j k d as ks =>
    match removeInL i as with
    | (as', some x) => (.mk j k d as' ks, some x)
    | (_, none) => match removeInL i ks with
      | (ks', r) => (.mk j k d as ks', r)
def removeInL (i : Nat) : List Node → List Node × Option Node
  | [] => ([], none)
  | n :: r =>
    if n.id == i then (r, some n)
    else match removeIn i n with
      | (n', some x) => (n' :: r, some x)
      | (_, none) => match removeInL i r with
        | (r', x) => (n :: r', x)
end

mutual
/-- apply `f` to the node with id `i` -/
def updateIn (i : Nat) (f : Node → Node) : Node → Node
  | .mk j k d as ks => if i == j then f (.mk j k d as ks) else .mk j k d (updateInL i f as) (updateInL i f ks)
def updateInL (i : Nat) (f : Node → Node) : List Node → List Node
  | [] => []
  | n :: r => updateIn i f n :: updateInL i f r
end

-- id of the node that has `i` as a child (not as an attribute)
mutual
def parentIn (i : Nat) : Node → Option Nat
  | .mk j _ _ as ks => if ks.any (·.id == i) then some j else (parentInL i as).orElse fun _ => parentInL i ks
def parentInL (i : Nat) : List Node → Option Nat
  | [] => none
  | n :: r => (parentIn i n).orElse fun _ => parentInL i r
end

-- id of the element that has `i` as an attribute
mutual
def ownerIn (i : Nat) : Node → Option Nat
  | .mk j _ _ as ks => if as.any (·.id == i) then some j else (ownerInL i as).orElse fun _ => ownerInL i ks
def ownerInL (i : Nat) : List Node → Option Nat
  | [] => none
  | n :: r => (ownerIn i n).orElse fun _ => ownerInL i r
end

def St.roots (s : St) : List Node := s.doc :: s.detached

def St.find (s : St) (i : Nat) : Option Node := findInL i s.roots
def St.parent (s : St) (i : Nat) : Option Nat := parentInL i s.roots
def St.owner (s : St) (i : Nat) : Option Nat := ownerInL i s.roots

/-- is `a` the node `b` or one of its ancestors (through children and attribute ownership)? -/
def St.isAncestorOrSelf (s : St) (a b : Nat) : Bool :=
  match s.find a with
  | some n => (idsOf n).contains b
  | none => false

/-- take the node `i` out of wherever it is (document tree or a detached tree; as a child or as an
    attribute); a detached ROOT is taken off the list of detached trees -/
def St.detach (s : St) (i : Nat) : St × Option Node :=
  match s.detached.find? (·.id == i) with
  | some n => ({ s with detached := s.detached.filter (·.id != i) }, some n)
  | none =>
    match removeIn i s.doc with
    | (d', some x) => ({ s with doc := d' }, some x)
    | (_, none) =>
      match removeInL i s.detached with
      | (det', x) => ({ s with detached := det' }, x)

def St.update (s : St) (i : Nat) (f : Node → Node) : St :=
  { s with doc := updateIn i f s.doc, detached := updateInL i f s.detached }

def Node.mapKids (f : List Node → List Node) : Node → Node | .mk j k d as ks => .mk j k d as (f ks)
def Node.mapAttrs (f : List Node → List Node) : Node → Node | .mk j k d as ks => .mk j k d (f as) ks
def Node.withData (d' : Str) : Node → Node | .mk j k _ as ks => .mk j k d' as ks

def insertBeforeL (x : Node) (ref : Option Nat) : List Node → List Node
  | [] => [x]
  | n :: r => match ref with
    | some i => if n.id == i then x :: n :: r else n :: insertBeforeL x ref r
    | none => n :: insertBeforeL x ref r

/-! ### validity of names and data: the productions the library validates with -/
def fullMatch (n : Nat) (s : Str) : Bool :=
  match run env (100000 + 64 * s.length) (.nt n) s with
  | .ok _ [] => true
  | _ => false

def validQName (s : Str) : Bool := fullMatch N.qname s
def validName (s : Str) : Bool := fullMatch N.name s && !s.isEmpty
def validText (s : Str) : Bool := fullMatch N.char_data s
def validComment (s : Str) : Bool := fullMatch N.comment ("<!--".toList ++ s ++ "-->".toList)
def validCData (s : Str) : Bool := fullMatch N.cdsect ("<![CDATA[".toList ++ s ++ "]]>".toList)
/-- a whole Name: NameStartChar NameChar* -/
def isName (s : Str) : Bool :=
  match s with
  | [] => false
  | c :: r => P.isNameStartChar c && r.all P.isNameChar

/-- a PI target the factory accepts: a Name such that `<?target?>` is a processing instruction -/
def validPITarget (t : Str) : Bool := isName t && fullMatch N.pi ("<?".toList ++ t ++ "?>".toList)

/-- PI data is validated by parsing `<?target data?>` -/
def validPI (target data : Str) : Bool :=
  fullMatch N.pi ("<?".toList ++ target ++ ' ' :: data ++ "?>".toList)

/-- what is stored: the white space that separates target and data belongs to the separator -/
def storedPIData (data : Str) : Str := data.dropWhile isWs

def validData (k : Kind) (s : Str) : Bool :=
  match k with
  | .text => validText s
  | .comment => validComment s
  | .cdata => validCData s
  | .pi t => validPI t s
  | _ => false

/-- the value items of an attribute written as `value`: the attribute production applied to
    `a=<quoted value>`; `none` = not an attribute value (bare `&`, `<`, both kinds of quote) -/
def parseAttrValue (value : Str) : Option (List Piece) :=
  let quoted := escapeQ value
  match run env (100000 + 64 * value.length) (.nt N.att_value) quoted with
  | .ok (.node _ b) [] =>
    let ps := absPieces b
    -- every reference must resolve: the five predefined entities (a document edited through the DOM has
    -- no other general entities here) and character references to XML characters
    if ps.all (fun
        | .entRef n => (predefined.find? (·.1 == n)).isSome
        | .charRef d h => (charOfRef d h).isSome
        | .peRef _ => false
        | .text _ => true) then some ps else none
  | _ => none

def pieceKind : Piece → Kind × Str
  | .text s => (.text, s)
  | .charRef d h => (.ref ((if h then "&#x".toList else "&#".toList) ++ d ++ [';']), [])
  | .entRef n => (.ref n, [])
  | .peRef n => (.ref n, [])

/-- fresh value items for an attribute -/
def mkItems (next : Nat) : List Piece → List Node × Nat
  | [] => ([], next)
  | p :: r =>
    let (k, d) := pieceKind p
    let (rest, n') := mkItems (next + 1) r
    (.mk next k d [] [] :: rest, n')

/-! ### the initial state: a parsed document, ids in pre-order (node, its attributes with their value
    items, its children) -/
/-- a namespace declaration (`xmlns`, `xmlns:p`) is not an attribute node of the DOM view -/
def isNsDecl (q : QN) : Bool := q.pre == some "xmlns".toList || (q.pre == none && q.loc == "xmlns".toList)

def buildAttrs (next : Nat) : List Attr → List Node × Nat
  | [] => ([], next)
  | a :: r =>
    if isNsDecl a.name then buildAttrs next r else
    let items := mkItems (next + 1) a.vals
    let rest := buildAttrs items.2 r
    (Node.mk next (.attr a.name.text true) [] [] items.1 :: rest.1, rest.2)

mutual
def buildNode (next : Nat) : Item → Node × Nat
  | .text s => (.mk next .text s [] [], next + 1)
  | .cdata s => (.mk next .cdata s [] [], next + 1)
  | .comment s => (.mk next .comment s [] [], next + 1)
  | .pi t d => (.mk next (.pi t) (d.getD []) [] [], next + 1)
  | .charRef d h => (.mk next (.ref ((if h then "&#x".toList else "&#".toList) ++ d ++ [';'])) [] [] [], next + 1)
  | .entRef n => (.mk next (.ref n) [] [] [], next + 1)
  | .elem q attrs kids =>
      let as := buildAttrs (next + 1) attrs
      let ks := buildNodes as.2 kids
      (.mk next (.elem q.text) [] as.1 ks.1, ks.2)
def buildNodes (next : Nat) : List Item → List Node × Nat
  | [] => ([], next)
  | k :: r =>
    let x := buildNode next k
    let xs := buildNodes x.2 r
    (x.1 :: xs.1, xs.2)
end

def buildTop (next : Nat) : TopItem → Node × Nat
  | .comment s => (Node.mk next .comment s [] [], next + 1)
  | .pi tg d => (Node.mk next (.pi tg) (d.getD []) [] [], next + 1)
  | .doctype dt => (Node.mk next (.doctype dt.name.text) [] [] [], next + 1)
  | .elem e => buildNode next e

def buildTops (next : Nat) : List TopItem → List Node × Nat
  | [] => ([], next)
  | t :: r =>
    let x := buildTop next t
    let xs := buildTops x.2 r
    (x.1 :: xs.1, xs.2)

/-- the state a history starts from: the document node has id 0, every node has a handle -/
def buildSt (d : IDoc) : St :=
  let ks := buildTops 1 d.kids
  { doc := .mk 0 .doc [] [] ks.1, detached := [], next := ks.2, handles := (List.range ks.2).map some }

/-! ### operations -/
inductive Res where
  | ok
  | node (id : Nat)        -- a node is returned
  | none_                  -- "no node" (e.g. no previous attribute)
  | err (e : Exc)
  | panic                  -- recorded finding: the factories unwrap their validation
  deriving Inhabited

inductive Op where
  | createElement (name : Str) | createText (data : Str) | createComment (data : Str) | createCData (data : Str)
  | createPI (target data : Str) | createAttribute (name : Str) | createEntityRef (name : Str)
  | appendChild (p c : Nat) | insertBefore (p c : Nat) (ref : Option Nat) | replaceChild (p new old : Nat)
  | removeChild (p c : Nat)
  | setAttribute (e : Nat) (name value : Str) | removeAttribute (e : Nat) (name : Str)
  | setAttributeNode (e a : Nat) | removeAttributeNode (e a : Nat) | getAttributeNode (e : Nat) (name : Str)
  | childAt (n i : Nat)
  | setValue (n : Nat) (v : Str)
  | setData (n : Nat) (d : Str) | appendData (n : Nat) (d : Str) | insertData (n off : Nat) (d : Str)
  | deleteData (n off cnt : Nat) | replaceData (n off cnt : Nat) (d : Str) | splitText (n off : Nat)
  | normalize (e : Nat)
  deriving Inhabited

def localName (s : Str) : Str := match (spanP (· != ':') s).2 with | _ :: r => r | [] => s

def St.fresh (s : St) (k : Kind) (d : Str) : St × Nat :=
  ({ s with detached := s.detached ++ [.mk s.next k d [] []], next := s.next + 1 }, s.next)

def isCharData : Kind → Bool | .text | .cdata | .comment => true | _ => false

/-- may a node of kind `c` be a child of a node of kind `p`? -/
def childAllowed (p c : Kind) : Bool :=
  match p, c with
  | .elem _, .elem _ | .elem _, .text | .elem _, .cdata | .elem _, .comment | .elem _, .pi _ | .elem _, .ref _ => true
  | .doc, .comment | .doc, .pi _ | .doc, .elem _ | .doc, .doctype _ => true
  | .attr _ _, .text | .attr _ _, .ref _ => true
  | _, _ => false

def canHaveChildren : Kind → Bool | .elem _ | .doc | .attr _ _ => true | _ => false

/-- the reference node must be a child of the parent -/
def refMissing (pn : Node) (ref : Option Nat) : Bool :=
  match ref with
  | some r => !(pn.kids.any (·.id == r))
  | none => false

/-- the new child is its own reference: it goes in front of the node that follows it -/
def adjustRef (pn : Node) (c : Nat) (ref : Option Nat) : Option Nat :=
  match ref with
  | some r => if r == c then
      (match (pn.kids.dropWhile (·.id != c)).drop 1 with | n :: _ => some n.id | [] => none) else some r
  | none => none

/-- a document holds one element and one document type, the document type first -/
def docRefuses (pn : Node) (ck : Kind) (c : Nat) (ref' : Option Nat) : Bool :=
  pn.kind == .doc && (match ck with
    | .elem _ =>
        pn.kids.any (fun k => (match k.kind with | .elem _ => true | _ => false) && k.id != c) ||
        -- the document element stands after the document type
        (match pn.kids.findIdx? (fun k => match k.kind with | .doctype _ => true | _ => false), ref' with
         | some di, some r => (match pn.kids.findIdx? (·.id == r) with
             | some ri => !decide (di < ri)
             | none => false)
         | _, _ => false)
    | .doctype _ =>
        pn.kids.any (fun k => match k.kind with | .doctype _ => true | _ => false) ||
        (match pn.kids.findIdx? (fun k => match k.kind with | .elem _ => true | _ => false) with
         | none => false
         | some ei => match ref' with
           | none => true
           | some r => match pn.kids.findIdx? (·.id == r) with
             | some ri => decide (ei < ri)
             | none => true)
    | _ => false)

/-! ### nesting depth: elements nest only as deep as the parser reads them back (`MAX_ELEMENT_DEPTH`, translated as
    `maxDepth_element`); an insertion that would make the tree deeper is refused -/
def isElemKind : Kind → Bool | .elem _ => true | _ => false

mutual
/-- levels of element nesting in the subtree (the node itself counts if it is an element); a node that is not an element
    and has no element below it has height 0 -/
def elemHeight : Node → Nat
  | .mk _ k _ as ks => (if isElemKind k then 1 else 0) + max (elemHeightL as) (elemHeightL ks)
def elemHeightL : List Node → Nat
  | [] => 0
  | n :: r => max (elemHeight n) (elemHeightL r)
end

mutual
/-- number of elements on the path from the root of the tree down to node `i`, `i` included -/
def depthIn (i : Nat) : Node → Option Nat
  | .mk j k _ as ks =>
    let me := if isElemKind k then 1 else 0
    if i == j then some me else ((depthInL i as).orElse fun _ => depthInL i ks).map (· + me)
def depthInL (i : Nat) : List Node → Option Nat
  | [] => none
  | n :: r => (depthIn i n).orElse fun _ => depthInL i r
end

def St.elemDepth (s : St) (i : Nat) : Nat := (depthInL i s.roots).getD 0

/-- would the tree become deeper than the parser accepts?  The library makes this check where an ELEMENT receives a child.
    The model makes it for every receiver (and for `setAttributeNode`): on the states a history can reach the extra guards
    never trip - what goes below a document adds to depth 0, and attribute nodes, which hold only text and references, have
    height 0 - but with them the bound is an invariant of the transition relation by itself (`Lemmas/DomHeight`), with no
    second invariant about what attribute nodes may contain.  The tie would show a guard that tripped. -/
def tooDeep (s : St) (pn cn : Node) : Bool :=
  decide (maxDepth_element < s.elemDepth pn.id + elemHeight cn)

/-- `insertBefore` / `appendChild`: checks in the order the library makes them, then the move -/
def insertChild (s : St) (p c : Nat) (ref : Option Nat) : St × Res :=
  match s.find p, s.find c with
  | some pn, some cn =>
    if !canHaveChildren pn.kind then (s, .err .hierarchy) else
    -- the document node itself has no owner document: as a NEW child it is "of another document"; as a reference it is
    -- simply not a child (NOT_FOUND_ERR, `refMissing`)
    if c == s.doc.id then (s, .err .wrongDoc) else
    if ref == some s.doc.id then (s, .err .notFound) else
    if refMissing pn ref then (s, .err .notFound) else
    if s.isAncestorOrSelf c p then (s, .err .hierarchy) else
    if !childAllowed pn.kind cn.kind then (s, .err .hierarchy) else
    if docRefuses pn cn.kind c (adjustRef pn c ref) then (s, .err .hierarchy) else
    match s.detach c with
    | (s1, some x) =>
      -- the depth of the receiver does not change when the new child is taken out of its old place (it is not inside it)
      if tooDeep s1 pn x then (s, .err .hierarchy) else
      (s1.update p (Node.mapKids (insertBeforeL x (adjustRef pn c ref))), .node c)
    | (_, none) => (s, .err .notFound)
  | _, _ => (s, .err .notFound)

def removeChild (s : St) (p c : Nat) : St × Res :=
  match s.find p with
  | some pn =>
    if !canHaveChildren pn.kind then (s, .err .hierarchy) else
    -- the document node is nobody's child
    if c == s.doc.id then (s, .err .notFound) else
    if !(pn.kids.any (·.id == c)) then (s, .err .notFound) else
    match s.detach c with
    | (s1, some x) => ({ s1 with detached := s1.detached ++ [x] }, .node c)
    | (_, none) => (s, .err .notFound)
  | none => (s, .err .notFound)

/-- the attribute of element node `e` with (local) name `name` -/
def findAttr (e : Node) (name : Str) : Option Node :=
  e.attrs.find? fun a => match a.kind with | .attr n _ => localName n == localName name | _ => false

/-- take the node out (if it is there) and keep it as a detached tree -/
def St.detachKeep (s : St) (i : Nat) : St :=
  match s.detach i with
  | (s', some x) => { s' with detached := s'.detached ++ [x] }
  | (s', none) => s'

def St.detachAll (s : St) : List Nat → St
  | [] => s
  | i :: r => (s.detachKeep i).detachAll r

/-- attributes are addressed by local part: the ids of ALL attributes of `e` with the local part of `name` -/
def sameLocalIds (e : Node) (name : Str) : List Nat :=
  (e.attrs.filter fun a => match a.kind with | .attr n _ => localName n == localName name | _ => false).map (·.id)

/-- ... looked up with the name exactly AS SUPPLIED (getAttributeNode, removeAttribute do not take a prefix off the
    name they are given, so a qualified name matches nothing: part of the recorded finding `attr-local-part`) -/
def findAttrRaw (e : Node) (name : Str) : Option Node :=
  e.attrs.find? fun a => match a.kind with | .attr n _ => localName n == name | _ => false

def rawLocalIds (e : Node) (name : Str) : List Nat :=
  (e.attrs.filter fun a => match a.kind with | .attr n _ => localName n == name | _ => false).map (·.id)

/-! ### `Element.normalize` as the library does it: below the element, and in the value of each of its attributes, every
    run of Text nodes is merged INTO THE FIRST node of the run; an empty Text node is dropped; a Text node whose data
    cannot be appended to the run so far (the result would not be character data: `a]]` + `>b`) starts a new run.  CDATA
    sections, comments, PIs, references and elements end a run; elements are normalized in turn.  The dropped nodes
    keep their data and have no parent afterwards.  Result: the new subtree and the dropped nodes. -/
mutual
def normNode : Node → Node × List Node
  | .mk j k d as ks =>
    match k with
    | .elem _ =>
      let a := normAttrs as
      let c := normList none ks
      (.mk j k d a.1 c.1, a.2 ++ c.2)
    | _ => (.mk j k d as ks, [])
def normAttrs : List Node → List Node × List Node
  | [] => ([], [])
  | (.mk j k d as ks) :: r =>
    let v := normList none ks
    let rest := normAttrs r
    (.mk j k d as v.1 :: rest.1, v.2 ++ rest.2)
/-- `prev`: the Text node the current run is being merged into (not yet emitted) -/
def normList (prev : Option Node) : List Node → List Node × List Node
  | [] => (prev.toList, [])
  | (.mk j k d as ks) :: r =>
    match k with
    | .text =>
      if d.isEmpty then
        let x := normList prev r
        (x.1, .mk j k d as ks :: x.2)
      else
        match prev with
        | some p =>
          if validText (p.data ++ d) then
            let x := normList (some (p.withData (p.data ++ d))) r
            (x.1, .mk j k d as ks :: x.2)
          else
            let x := normList (some (.mk j k d as ks)) r
            (p :: x.1, x.2)
        | none => normList (some (.mk j k d as ks)) r
    | .elem _ =>
      let c := normNode (.mk j k d as ks)
      let x := normList none r
      (prev.toList ++ c.1 :: x.1, c.2 ++ x.2)
    | _ =>
      let x := normList none r
      (prev.toList ++ .mk j k d as ks :: x.1, x.2)
end

def step (s : St) : Op → St × Res
  | .createElement name =>
      if validQName name then let (s', i) := s.fresh (.elem name) []; ({ s' with handles := s'.handles ++ [some i] }, .node i)
      else ({ s with handles := s.handles ++ [none] }, .err .invalidChar)
  | .createText d =>
      if validText d then let (s', i) := s.fresh .text d; ({ s' with handles := s'.handles ++ [some i] }, .node i) else ({ s with handles := s.handles ++ [none] }, .panic)
  | .createComment d =>
      if validComment d then let (s', i) := s.fresh .comment d; ({ s' with handles := s'.handles ++ [some i] }, .node i) else ({ s with handles := s.handles ++ [none] }, .panic)
  | .createCData d =>
      if validCData d then let (s', i) := s.fresh .cdata d; ({ s' with handles := s'.handles ++ [some i] }, .node i) else ({ s with handles := s.handles ++ [none] }, .panic)
  | .createPI t d =>
      if validPITarget t && validPI t d then let (s', i) := s.fresh (.pi t) (storedPIData d); ({ s' with handles := s'.handles ++ [some i] }, .node i)
      else ({ s with handles := s.handles ++ [none] }, .err .invalidChar)
  | .createAttribute name =>
      if validQName name then let (s', i) := s.fresh (.attr name true) []; ({ s' with handles := s'.handles ++ [some i] }, .node i)
      else ({ s with handles := s.handles ++ [none] }, .err .invalidChar)
  | .createEntityRef name =>
      if !validName name then ({ s with handles := s.handles ++ [none] }, .err .invalidChar)
      else if (predefined.find? (·.1 == name)).isSome then
        let (s', i) := s.fresh (.ref name) []; ({ s' with handles := s'.handles ++ [some i] }, .node i)
      else ({ s with handles := s.handles ++ [none] }, .err .invalid)
  | .appendChild p c => insertChild s p c none
  | .insertBefore p c r => insertChild s p c r
  | .removeChild p c => removeChild s p c
  | .replaceChild p new old =>
      match s.find p with
      | none => (s, .err .notFound)
      | some pn =>
        if new == old then
          -- a child that replaces itself stays where it is (the checks of insertBefore apply)
          (match insertChild s p new (some old) with
           | (s', .node _) => (s', .node old)
           | r => r)
        else
        -- `old` is taken out, `new` goes in front of the node that followed it; when that is refused
        -- nothing has happened
        let after := ((pn.kids.dropWhile (·.id != old)).drop 1).filter (·.id != new)
        let ref : Option Nat := after.head?.map (·.id)
        match removeChild s p old with
        | (s1, .node _) =>
          (match insertChild s1 p new ref with
           | (s2, .node _) => (s2, .node old)
           | (_, r) => (s, r))
        | (_, r) => (s, r)
  | .setAttribute e name value =>
      match s.find e with
      | some en =>
        (match en.kind with
         | .elem _ =>
           if !validQName name then (s, .err .invalidChar) else
           match parseAttrValue value with
           | none => (s, .err .invalid)
           | some ps =>
             let (items, n') := mkItems (s.next + 1) ps
             let a := Node.mk s.next (.attr name true) [] [] items
             -- every attribute of that local part is replaced (they become detached, anonymous nodes)
             let s1 : St := s.detachAll (sameLocalIds en name)
             ({ (s1.update e (Node.mapAttrs (· ++ [a]))) with next := n' }, .ok)
         | _ => (s, .err .notFound))
      | none => (s, .err .notFound)
  | .removeAttribute e name =>
      match s.find e with
      | some en =>
        (s.detachAll (rawLocalIds en name), .ok)
      | none => (s, .err .notFound)
  | .setAttributeNode e a =>
      match s.find e, s.find a with
      | some en, some an =>
        (match an.kind with
         | .attr name _ =>
           if (s.owner a) == some e then (s, .node a) else         -- already this element's attribute: nothing to do
           if (s.owner a).isSome then (s, .err .inUse) else
           let oldId : Option Nat := (findAttr en name).map (·.id)
           let s1 : St := s.detachAll (sameLocalIds en name)
           (match s1.detach a with
            | (s2, some x) =>
              if tooDeep s2 en x then (s, .err .hierarchy) else     -- never trips, see `tooDeep`
              (s2.update e (Node.mapAttrs (· ++ [x])),
               match oldId with | some o => .node o | none => .none_)
            | (_, none) => (s, .err .notFound))
         | _ => (s, .err .hierarchy))
      | _, _ => (s, .err .notFound)
  | .removeAttributeNode e a =>
      if s.owner a == some e then
        -- removal goes by the node's local part: every attribute of the element with that local part goes with it
        match s.find e, s.find a with
        | some en, some an =>
          (match an.kind with
           | .attr name _ =>
             -- recorded finding `attr-local-part`: the node is looked up by its local part, so only the FIRST attribute
             -- of that local part is found; DOM Level 1 would remove any attribute node of the element
             if (findAttr en name).map (·.id) == some a then (s.detachAll (sameLocalIds en name), .node a)
             else (s, .err .notFound)
           | _ => (s, .err .notFound))
        | _, _ => (s, .err .notFound)
      else (s, .err .notFound)
  | .getAttributeNode e name =>
      match s.find e with
      | some en => (match findAttrRaw en name with
          | some o => ({ s with handles := s.handles ++ [some o.id] }, .node o.id)
          | none => ({ s with handles := s.handles ++ [none] }, .none_))
      | none => ({ s with handles := s.handles ++ [none] }, .err .notFound)
  | .childAt n i =>
      match s.find n with
      | some nn => (match nn.kids[i]? with
          | some k => ({ s with handles := s.handles ++ [some k.id] }, .node k.id)
          | none => ({ s with handles := s.handles ++ [none] }, .none_))
      | none => ({ s with handles := s.handles ++ [none] }, .err .notFound)
  | .setValue n v =>
      match s.find n with
      | some nn =>
        (match nn.kind with
         | .attr _ _ =>
           (match parseAttrValue v with
            | none => (s, .err .invalid)
            | some ps =>
              let (items, n') := mkItems s.next ps
              -- the old value items become detached anonymous nodes
              let s1 := s.update n (Node.mapKids (fun _ => items))
              ({ s1 with next := n', detached := s1.detached ++ nn.kids }, .ok))
         | .text | .cdata | .comment | .pi _ =>
           if validData nn.kind v then
             (s.update n (Node.withData (match nn.kind with | .pi _ => storedPIData v | _ => v)), .ok)
           else (s, .err .invalid)
         | _ => (s, .err .noData))
      | none => (s, .err .notFound)
  | .setData n d => dataOp s n (fun old => some d)
  | .appendData n d => dataOp s n (fun old => some (old ++ d))
  | .insertData n off d => dataOp s n (fun old => CharData.insertData old off d)
  | .deleteData n off cnt => dataOp s n (fun old => CharData.deleteData old off cnt)
  | .replaceData n off cnt d => dataOp s n (fun old => CharData.replaceData old off cnt d)
  | .splitText n off =>
      match s.find n with
      | some nn =>
        (match nn.kind with
         | .text | .cdata =>
           (match CharData.splitText nn.data off with
            | none => ({ s with handles := s.handles ++ [none] }, .err .indexSize)
            | some (l, r) =>
              let new := Node.mk s.next nn.kind r [] []
              let s1 := s.update n (Node.withData l)
              let s2 : St := match s1.parent n with
                | some p => s1.update p (Node.mapKids fun ks =>
                    match (ks.dropWhile (·.id != n)).drop 1 with
                    | nx :: _ => insertBeforeL new (some nx.id) ks
                    | [] => ks ++ [new])
                | none => { s1 with detached := s1.detached ++ [new] }
              ({ s2 with next := s.next + 1, handles := s.handles ++ [some s.next] }, .node s.next))
         | _ => ({ s with handles := s.handles ++ [none] }, .err .hierarchy))
      | none => ({ s with handles := s.handles ++ [none] }, .err .notFound)
  | .normalize e =>
      match s.find e with
      | some en => ({ (s.update e fun n => (normNode n).1) with detached := (s.update e fun n => (normNode n).1).detached ++ (normNode en).2 }, .ok)
      | none => (s, .err .notFound)
where
  /-- a CharacterData edit: INDEX_SIZE_ERR from the offset, then the validity of the OUTCOME -/
  dataOp (s : St) (n : Nat) (f : Str → Option Str) : St × Res :=
    match s.find n with
    | some nn =>
      if isCharData nn.kind || (match nn.kind with | .pi _ => true | _ => false) then
        match f nn.data with
        | none => (s, .err .indexSize)
        | some d' => if validData nn.kind d' then
                       (s.update n (Node.withData (match nn.kind with | .pi _ => storedPIData d' | _ => d')), .ok)
                     else (s, .err .invalid)
      else (s, .err .noData)
    | none => (s, .err .notFound)

/-- `attributes.removeNamedItem(name)` = look the attribute up (NOT_FOUND_ERR if there is none), remove it by that
    name, hand it back; `attributes.setNamedItem` = `setAttributeNode`, `attributes.getNamedItem` = `getAttributeNode` -/
def removeNamedItem (s : St) (e : Nat) (name : Str) : St × Res :=
  match s.find e with
  | some en =>
    (match findAttrRaw en name with
     | some o => ((step s (.removeAttribute e name)).1, .node o.id)
     | none => (s, .err .notFound))
  | none => (s, .err .notFound)

end XmlRs.Dom
