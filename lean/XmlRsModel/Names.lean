import XmlRsModel.Chars
import XmlRsModel.Gen.XmlGrammar
/-! Whole-string matching of single productions of the (generated) XML grammar. -/
namespace XmlRs.Names
open XmlRs Gen.Xml

/-- does production `n` match exactly the whole string?  (fuel 40 exceeds the depth of every
    name production; `Thm/C18` shows the answer is the same for every larger fuel) -/
def matchesAll (n : Nat) (s : Str) : Bool :=
  match run env 40 (.nt n) s with
  | .ok _ [] => true
  | _ => false

end XmlRs.Names
