import XmlRsModel.Lemmas.AbsTag
/-! `abs (cst x) = erase x` for the items of element content, elements, Misc items and whole documents. -/
namespace XmlRs.Lex
open XmlRs Gen.Xml XmlRs.Names

theorem dropLast3 (s : Str) (a b c : Char) : (s ++ [a, b, c]).dropLast.dropLast.dropLast = s := by
  have : s ++ [a, b, c] = ((s ++ [a]) ++ [b]) ++ [c] := by simp
  rw [this, dropLast_snoc, dropLast_snoc, dropLast_snoc]

theorem dropLast2 (s : Str) (a b : Char) : (s ++ [a, b]).dropLast.dropLast = s := by
  have : s ++ [a, b] = (s ++ [a]) ++ [b] := by simp
  rw [this, dropLast_snoc, dropLast_snoc]

def cdataBody (s : Str) : CST := .seq [.leaf cdataOpen, .leaf s, .leaf [']', ']', '>']]
theorem cstCData_eq (s : Str) : cstCData s = .node N.cdsect (cdataBody s) := rfl

theorem absCData_cst (s : Str) : absCData (cdataBody s) = s := by
  have : (cdataBody s).flatten = cdataOpen ++ (s ++ [']', ']', '>']) := by simp [cdataBody, CST.flatten, flattenL]
  simp only [absCData, this]
  have e : (cdataOpen ++ (s ++ [']', ']', '>'])).drop 9 = s ++ [']', ']', '>'] := by simp [cdataOpen]
  rw [e, dropLast3]

def piBodyCst (t b : Str) : CST := .seq [.leaf ['<', '?'], .seq [.node N.pi_target (cstName t), piBody b], .leaf ['?', '>']]
theorem cstPI_eq (t b : Str) : cstPI t b = .node N.pi (piBodyCst t b) := rfl

theorem piBody_flatten (b : Str) : (piBody b).flatten = b := by
  unfold piBody
  split
  · next h => simp [CST.flatten, flattenL, h]
  · simp [CST.flatten, flattenL, spanP_append]

theorem piBody_kidsL (b : Str) : (piBody b).kidsL = [] := by
  unfold piBody
  split <;> simp [CST.kidsL, kidsLL]

theorem absPI_cst (t b : Str) : absPI (piBodyCst t b) = (t, piData b) := by
  have hk : (piBodyCst t b).kidsL = [(N.pi_target, cstName t)] := by
    simp [piBodyCst, CST.kidsL, kidsLL, piBody_kidsL]
  have hf : (piBodyCst t b).flatten = '<' :: '?' :: (t ++ (b ++ ['?', '>'])) := by
    simp [piBodyCst, CST.flatten, flattenL, piBody_flatten, cstName_flatten]
  have hd : ('<' :: '?' :: (t ++ (b ++ ['?', '>']))).drop (2 + t.length) = b ++ ['?', '>'] := by
    rw [show 2 + t.length = t.length + 2 by omega]
    simp
  simp only [absPI, hk, findL, List.find?_cons, beq_self_eq_true, Option.map_some, cstName_flatten, hf, hd, dropLast2]
  cases b <;> rfl

def commentBody (s : Str) : CST := .seq [.leaf ['<', '!', '-', '-'], .many (commentIters s.length s), .leaf C15.dashEnd]
theorem cstComment_eq (s : Str) : cstComment s = .node N.comment (commentBody s) := rfl

theorem absComment_cst (s : Str) (h : okCommentBody s = true) : absComment (commentBody s) = s := by
  have hf : (commentBody s).flatten = commentText s := by
    have := Runs.flatten (runs_comment (s := s) [] h)
    simpa [cstComment_eq, CST.flatten] using this
  simp only [absComment, hf]
  have e : (commentText s).drop 4 = s ++ ['-', '-', '>'] := by simp [commentText]
  rw [e, dropLast3]

/-- the step of `absContent` over the character data in front of the remaining iterations -/
theorem absContent_lead (f : Nat) (l : List CItem) (K : List (Nat × CST)) (hok : okItems l = true)
    (h : absContent f K = eraseL (afterLead l)) :
    absContent f ((N.char_data, .leaf (leadText l)) :: K) = eraseL l := by
  cases l with
  | nil => simpa [absContent, leadText, CST.flatten, afterLead] using h
  | cons i r =>
    cases i with
    | text s =>
      obtain ⟨h1, _, _⟩ := okText_parts (okItems_cons hok).1
      have : s.isEmpty = false := by simpa using h1
      simp only [afterLead] at h
      simp [absContent, leadText, CST.flatten, this, h, eraseL, CItem.erase]
    | _ => simpa [absContent, leadText, CST.flatten, afterLead] using h

theorem afterLead_of_adj_text {s : Str} {rest : List CItem} (hadj : adjTextI (.text s :: rest) = false) : afterLead rest = rest := by
  cases rest with
  | nil => rfl
  | cons j r' =>
    simp only [adjTextI, isTextItem, Bool.true_and, Bool.or_eq_false_iff] at hadj
    cases j <;> simp_all [afterLead, isTextItem]

theorem depthL_cons (i : CItem) (l : List CItem) : depthL (i :: l) = max i.depth (depthL l) := by simp [depthL]

mutual
theorem abs_item : ∀ (i : CItem), okItem i = true → isTextItem i = false → ∀ f, i.depth ≤ f → ∀ tail : List (Nat × CST),
    absContent f ((cstItemNode i).kidsL ++ tail) = i.erase :: absContent f tail
  | .text s, _, ht, _, _, _ => by simp [isTextItem] at ht
  | .charRef d h, hok, _, f, _, tail => by
    have hq : okPiece ' ' (.charRef d h) = true := by simpa [okPiece, okItem] using hok
    have hr := absReference_refBody ' ' (.charRef d h) hq (fun s => by simp)
    have e1 : (N.reference == N.char_data) = false := by decide
    have e2 : (N.reference == N.element) = false := by decide
    rw [show cstItemNode (.charRef d h) = cstRef (.charRef d h) from by simp [cstItemNode],
      cstRef_eq _ (fun s => by simp) (fun s => by simp)]
    simp [CST.kidsL, absContent, e1, e2, hr, CItem.erase]
  | .entRef n, hok, _, f, _, tail => by
    have hq : okPiece ' ' (.entRef n) = true := by simpa [okPiece, okItem] using hok
    have hr := absReference_refBody ' ' (.entRef n) hq (fun s => by simp)
    have e1 : (N.reference == N.char_data) = false := by decide
    have e2 : (N.reference == N.element) = false := by decide
    rw [show cstItemNode (.entRef n) = cstRef (.entRef n) from by simp [cstItemNode],
      cstRef_eq _ (fun s => by simp) (fun s => by simp)]
    simp [CST.kidsL, absContent, e1, e2, hr, CItem.erase]
  | .cdata s, _, _, f, _, tail => by
    have e1 : (N.cdsect == N.char_data) = false := by decide
    have e2 : (N.cdsect == N.element) = false := by decide
    have e3 : (N.cdsect == N.reference) = false := by decide
    simp [cstItemNode, cstCData_eq, CST.kidsL, absContent, e1, e2, e3, absCData_cst, CItem.erase]
  | .pi t b, _, _, f, _, tail => by
    have e1 : (N.pi == N.char_data) = false := by decide
    have e2 : (N.pi == N.element) = false := by decide
    have e3 : (N.pi == N.reference) = false := by decide
    have e4 : (N.pi == N.cdsect) = false := by decide
    simp [cstItemNode, cstPI_eq, CST.kidsL, absContent, e1, e2, e3, e4, absPI_cst, CItem.erase]
  | .comment s, hok, _, f, _, tail => by
    have e1 : (N.comment == N.char_data) = false := by decide
    have e2 : (N.comment == N.element) = false := by decide
    have e3 : (N.comment == N.reference) = false := by decide
    have e4 : (N.comment == N.cdsect) = false := by decide
    have e5 : (N.comment == N.pi) = false := by decide
    have hc := absComment_cst s (by simpa [okItem] using hok)
    simp [cstItemNode, cstComment_eq, CST.kidsL, absContent, e1, e2, e3, e4, e5, hc, CItem.erase]
  | .elem n as w e ks w', hok, _, f, hf, tail => by
    obtain ⟨h1, h2, h3, h4, h5, h6, h7⟩ := okElem_parts hok
    have e1 : (N.element == N.char_data) = false := by decide
    simp only [CItem.depth] at hf
    obtain ⟨f', rfl⟩ : ∃ f', f = f' + 1 := ⟨f - 1, by omega⟩
    have hel : absElement (f' + 1) (.node N.element_body
        (if e then cstEmptyTag n as w
         else .seq [cstSTag n as w, .node N.content (.seq [cstCharData (leadText ks), .many (cstIters ks)]), cstETag n w'])) =
        (CItem.elem n as w e ks w').erase := by
      cases e with
      | true =>
        have hks := h5 rfl
        subst hks
        have ht := absTag_cst n as w ['/', '>'] h2
        simp only [if_true, absElement, elemKids, CST.kidsL, beq_self_eq_true, cstEmptyTag, findL, List.find?_cons,
          Option.map_some]
        rw [show CST.seq [.leaf ['<'], .seq [cstQN n, .many (as.map cstAttrIter)], .seq [.leaf w, .leaf ['/', '>']]] = tagBody n as w ['/', '>'] from rfl, ht]
        simp [CItem.erase, eraseL]
      | false =>
        have ht := absTag_cst n as w ['>'] h2
        have ih := abs_iters ks h6 h7 f' (by omega)
        have hc := absContent_lead f' ks _ h6 ih
        have e2 : (N.stag == N.empty_entity_tag) = false := by decide
        have e3 : (N.content == N.empty_entity_tag) = false := by decide
        have e4 : (N.etag == N.empty_entity_tag) = false := by decide
        have e5 : (N.content == N.stag) = false := by decide
        have e6 : (N.stag == N.content) = false := by decide
        simp only [Bool.false_eq_true, if_false, absElement, elemKids, CST.kidsL, kidsLL, beq_self_eq_true, cstSTag, cstETag,
          List.append_nil, List.cons_append, List.nil_append, findL, List.find?_cons, e2, e3, e4, e5, e6, List.find?_nil,
          Option.map_none, Option.map_some, if_true]
        rw [show CST.seq [.leaf ['<'], .seq [cstQN n, .many (as.map cstAttrIter)], .seq [.leaf w, .leaf ['>']]] = tagBody n as w ['>'] from rfl, ht]
        simp only [cstCharData, CST.kidsL, kidsLL, List.cons_append, List.nil_append, List.append_nil] at hc ⊢
        rw [hc]
        simp [CItem.erase]
    simp only [cstItemNode, CST.kidsL, List.cons_append, List.nil_append, absContent, e1, beq_self_eq_true, if_true,
      Bool.false_eq_true, if_false]
    rw [hel]
theorem abs_iters : ∀ (l : List CItem), okItems l = true → adjTextI l = false → ∀ f, depthL l ≤ f →
    absContent f (kidsLL (cstIters l)) = eraseL (afterLead l)
  | [], _, _, f, _ => by simp [cstIters, kidsLL, absContent, afterLead, eraseL]
  | i :: rest, hok, hadj, f, hf => by
    obtain ⟨hi, hrest⟩ := okItems_cons hok
    have hadj' := adj_tail hadj
    rw [depthL_cons] at hf
    have ih := abs_iters rest hrest hadj' f (by omega)
    cases hti : isTextItem i with
    | true =>
      cases i with
      | text s =>
        rw [afterLead_of_adj_text hadj] at ih
        simpa [cstIters, afterLead] using ih
      | _ => simp [isTextItem] at hti
    | false =>
      have hitem := abs_item i hi hti f (by omega)
      have e1 : afterLead (i :: rest) = i :: rest := by cases i <;> simp_all [afterLead, isTextItem]
      have e2 : cstIters (i :: rest) = .seq [cstItemNode i, cstCharData (leadText rest)] :: cstIters rest := by
        cases i <;> simp_all [cstIters, isTextItem]
      rw [e1, e2]
      simp only [kidsLL, CST.kidsL, cstCharData, List.append_nil, List.append_assoc, List.cons_append, List.nil_append]
      rw [hitem, absContent_lead f rest _ hrest ih]
      rfl
end

end XmlRs.Lex
