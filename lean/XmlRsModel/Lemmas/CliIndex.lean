import XmlRsModel.Cli
/-! The child numbering the `xe` rewrite uses (`Cli.kidIdx`) is the numbering of the XPath tree
    (`XPath.buildItems`). -/
namespace XmlRs.Cli
open XmlRs XmlRs.XPath

theorem textOf_none_iff (t : EntTable) (w : Bool) (x : Item) : textOf t w x = none ↔ isTextLike x = false := by
  cases x <;> simp [textOf, isTextLike]

/-- shifting the start index shifts every index (when a run is open the start is at least 1) -/
theorem kidIdx_shift (k : Nat) : ∀ (l : List Item) (n : Nat) (p : Bool), (p = true → 1 ≤ n) →
    kidIdx (n + k) p l = (kidIdx n p l).map (· + k)
  | [], _, _, _ => by simp [kidIdx]
  | x :: r, n, p, hp => by
    simp only [kidIdx]
    cases ht : isTextLike x with
    | true =>
      simp only [if_true, List.map_cons]
      cases p with
      | true =>
        have := hp rfl
        simp only [if_true]
        rw [kidIdx_shift k r n true (fun _ => this)]
        congr 1; omega
      | false =>
        simp only [Bool.false_eq_true, if_false]
        have e : n + k + 1 = (n + 1) + k := by omega
        rw [e, kidIdx_shift k r (n + 1) true (fun _ => by omega)]
    | false =>
      simp only [Bool.false_eq_true, if_false, List.map_cons]
      have e : n + k + 1 = (n + 1) + k := by omega
      rw [e, kidIdx_shift k r (n + 1) false (fun h => by cases h)]

/-- NUMBERING: the child index `kidIdx` gives an item that is not character data is the position of
    the node `buildItem` makes of it in the child list the XPath evaluator sees (`buildItems`: maximal
    runs of character data are one text node each) -/
theorem kidIdx_is_xpath_index (cfg : BuildCfg) (scope : List (Str × Str)) :
    ∀ (kids : List Item) (pending : Option Str) (ns : List XNode),
      buildItems cfg scope kids pending = .ok ns →
      ∀ (j : Nat) (x : Item) (idx : Nat), kids[j]? = some x → isTextLike x = false →
        (kidIdx (if pending.isSome then 1 else 0) pending.isSome kids)[j]? = some idx →
        ∃ node, buildItem cfg scope x = .ok node ∧ ns[idx]? = some node
  | [], _, _, _, j, x, _, hj, _, _ => by simp at hj
  | i :: r, pending, ns, h, j, x, idx, hj, hx, hidx => by
    simp only [buildItems] at h
    cases ht : textOf cfg.ents cfg.wsQuirk i with
    | some res =>
      have hti : isTextLike i = true := by
        cases hh : isTextLike i with
        | true => rfl
        | false => rw [(textOf_none_iff _ _ i).2 hh] at ht; cases ht
      cases res with
      | error e => simp [ht] at h
      | ok s =>
        simp only [ht] at h
        cases j with
        | zero => simp at hj; subst hj; rw [hti] at hx; cases hx
        | succ j' =>
          simp only [List.getElem?_cons_succ] at hj
          simp only [kidIdx, hti, if_true, List.getElem?_cons_succ] at hidx
          apply kidIdx_is_xpath_index cfg scope r (some (pending.getD [] ++ s)) ns h j' x idx hj hx
          simp only [Option.isSome_some, if_true]
          cases pending with
          | some q => simpa using hidx
          | none => simpa using hidx
    | none =>
      have hti : isTextLike i = false := (textOf_none_iff _ _ i).1 ht
      simp only [ht] at h
      cases hb : buildItem cfg scope i with
      | error e => simp [hb] at h
      | ok n =>
        simp only [hb] at h
        cases hr : buildItems cfg scope r none with
        | error e => simp [hr] at h
        | ok ns' =>
          simp only [hr, Except.ok.injEq] at h
          subst h
          simp only [kidIdx, hti, Bool.false_eq_true, if_false] at hidx
          cases j with
          | zero =>
            simp at hj; subst hj
            simp only [List.getElem?_cons_zero, Option.some.injEq] at hidx
            subst hidx
            refine ⟨n, hb, ?_⟩
            cases pending with
            | some q => simp
            | none => simp
          | succ j' =>
            simp only [List.getElem?_cons_succ] at hj hidx
            -- the indices of the rest are those of the rest alone, shifted past what stands before
            have hs := kidIdx_shift ((if pending.isSome = true then 1 else 0) + 1) r 0 false (fun h => by cases h)
            simp only [Nat.zero_add] at hs
            rw [hs, List.getElem?_map] at hidx
            cases hi0 : (kidIdx 0 false r)[j']? with
            | none => simp [hi0] at hidx
            | some i0 =>
              simp only [hi0, Option.map_some, Option.some.injEq] at hidx
              subst hidx
              obtain ⟨node, hb', hn⟩ := kidIdx_is_xpath_index cfg scope r none ns' hr j' x i0 hj hx (by simpa using hi0)
              refine ⟨node, hb', ?_⟩
              cases pending with
              | some q =>
                simp only [Option.isSome_some, if_true]
                have : i0 + (1 + 1) = (i0 + 1) + 1 := by omega
                rw [this]
                simpa using hn
              | none =>
                simp only [Option.isSome_none, Bool.false_eq_true, if_false, Nat.zero_add]
                simpa using hn

end XmlRs.Cli
