import XmlRsModel.Dom
import XmlRsModel.Lemmas.PegSound
/-! Helper lemmas for the closed forms of the data-validity predicates (C15): the `until0` scanner in front of
    its own stop string, and the comment loop `(('-')? (Char - '-')+)*` run with fuel. -/
namespace XmlRs.C15
open XmlRs XmlRs.Dom Gen.Xml

abbrev suf : Str := [']', ']', '>']

theorem strip_suf_none_append (c : Char) (cs : Str) (h : stripPrefix suf (c :: cs) = none) :
    stripPrefix suf (c :: cs ++ suf) = none := by
  match cs with
  | [] =>
    simp only [suf, stripPrefix, List.cons_append, List.nil_append] at h ⊢
    split
    · simp [stripPrefix]
    · rfl
  | [d] =>
    simp only [suf, stripPrefix, List.cons_append, List.nil_append] at h ⊢
    split
    · split
      · simp [stripPrefix]
      · rfl
    · rfl
  | d :: e :: r =>
    simp only [suf, stripPrefix, List.cons_append] at h ⊢
    repeat' split
    all_goals first | rfl | (rename_i h1 h2 h3; subst h1 h2 h3; simp at h) | simp_all

theorem split_suf_append : ∀ s : Str, splitAtSub suf s = none → splitAtSub suf (s ++ suf) = some (s, suf)
  | [], _ => by decide
  | c :: cs, h => by
    simp only [splitAtSub] at h
    split at h
    · cases h
    · next hn =>
      split at h
      · cases h
      · next hrec =>
        have := split_suf_append cs hrec
        simp only [List.cons_append, splitAtSub]
        rw [show c :: (cs ++ suf) = c :: cs ++ suf from rfl, strip_suf_none_append c cs hn]
        simp [this]


theorem spanP_append_all (p : Char → Bool) : ∀ (s t : Str), s.all p = true → spanP p (s ++ t) = (s ++ (spanP p t).1, (spanP p t).2)
  | [], t, _ => by simp
  | c :: cs, t, h => by
    simp only [List.all_cons, Bool.and_eq_true] at h
    simp [spanP, h.1, spanP_append_all p cs t h.2]

theorem spanP_not_all (p : Char → Bool) : ∀ (s t : Str), s.all p = false →
    ∃ c y, (spanP p (s ++ t)).2 = c :: y ∧ p c = false
  | [], t, h => by simp at h
  | c :: cs, t, h => by
    simp only [List.all_cons, Bool.and_eq_false_iff] at h
    by_cases hc : p c = true
    · have h2 : cs.all p = false := by
        rcases h with h | h
        · simp [hc] at h
        · exact h
      obtain ⟨c', y, h1, h3⟩ := spanP_not_all p cs t h2
      exact ⟨c', y, by simp [spanP, hc, h1], h3⟩
    · exact ⟨c, cs ++ t, by simp [spanP, hc], by simpa using hc⟩

theorem isChar_suf : ∀ c ∈ suf, P.isChar c = true := by decide

theorem spanP_suf : spanP P.isChar suf = (suf, []) := by decide +kernel

theorem until_suf_key (s : Str) :
    stripPrefix suf (runUntil0 P.isChar suf (s ++ suf)).2 = some [] ↔ (s.all P.isChar = true ∧ hasSub suf s = false) := by
  constructor
  · intro h
    have hR := stripPrefix_some h
    simp only [List.append_nil] at hR
    by_cases hall : s.all P.isChar = true
    · refine ⟨hall, ?_⟩
      have hsp := spanP_append_all P.isChar s suf hall
      rw [spanP_suf] at hsp
      simp only [runUntil0, hsp] at hR
      cases hs : splitAtSub suf (s ++ suf) with
      | none => simp [hs] at hR
      | some ab =>
        obtain ⟨a, b⟩ := ab
        simp only [hs, List.append_nil] at hR
        obtain ⟨h1, h2⟩ := splitAtSub_spec suf _ a b hs
        subst hR
        have : a = s := List.append_cancel_right h1
        subst this
        simp [hasSub, h2 (by decide)]
    · exfalso
      have hall' : s.all P.isChar = false := by simpa using hall
      obtain ⟨c, y, h1, h2⟩ := spanP_not_all P.isChar s suf hall'
      have hc : c ∈ (runUntil0 P.isChar suf (s ++ suf)).2 := by
        simp only [runUntil0]
        split <;> simp [h1]
      rw [hR] at hc
      have := isChar_suf c hc
      simp [this] at h2
  · intro ⟨hall, hsub⟩
    have hsp := spanP_append_all P.isChar s suf hall
    rw [spanP_suf] at hsp
    have hn : splitAtSub suf s = none := by
      simp only [hasSub] at hsub
      cases h : splitAtSub suf s with
      | none => rfl
      | some x => simp [h] at hsub
    simp only [runUntil0, hsp, split_suf_append s hn, List.append_nil]
    decide

/-- production [15] of XML 1.0 as a recogniser of the text between `<!--` and `-->`:
    `((Char - '-') | ('-' (Char - '-')))*` -/
def isCommentBody : Str → Bool
  | [] => true
  | ['-'] => false
  | '-' :: d :: r => P.isChar d && d != '-' && isCommentBody r
  | c :: r => P.isChar c && isCommentBody r

abbrev nd : Char → Bool := P.except P.isChar ['-']

theorem nd_iff (c : Char) : nd c = (P.isChar c && c != '-') := by
  by_cases h : c = '-' <;> simp [nd, P.except, h]

theorem spanP_append_stop (p : Char → Bool) (c : Char) (x : Str) (hc : p c = false) :
    ∀ s : Str, spanP p (s ++ c :: x) = ((spanP p s).1, (spanP p s).2 ++ c :: x)
  | [] => by simp [spanP, hc]
  | a :: as => by
    simp only [List.cons_append, spanP]
    split
    · simp [spanP_append_stop p c x hc as]
    · simp

theorem body_nondash (c : Char) (r : Str) (h : c ≠ '-') : isCommentBody (c :: r) = (P.isChar c && isCommentBody r) := by
  conv => lhs; unfold isCommentBody
  split <;> simp_all

theorem body_span : ∀ r : Str, isCommentBody r = isCommentBody (spanP nd r).2
  | [] => by simp [spanP]
  | d :: r' => by
    simp only [spanP]
    split
    · next h =>
      rw [nd_iff] at h
      simp only [Bool.and_eq_true, bne_iff_ne, ne_eq] at h
      rw [body_nondash d r' h.2, h.1, Bool.true_and]
      exact body_span r'
    · rfl


def gC : G := G.seq [G.alt [G.tag ['-'], G.seq []], G.cls1 nd]

theorem iter_dash (k : Nat) (t : Str) :
    run env (k + 4) gC ('-' :: t) =
      if (spanP nd t).1 = [] then .fail else .ok (.seq [.leaf ['-'], .leaf (spanP nd t).1]) (spanP nd t).2 := by
  by_cases he : (spanP nd t).1 = [] <;> simp [gC, run, runSeq, runAlt, stripPrefix, he]

theorem iter_nodash (k : Nat) (c : Char) (t : Str) (h : c ≠ '-') :
    run env (k + 4) gC (c :: t) =
      if (spanP nd (c :: t)).1 = [] then .fail else .ok (.seq [.seq [], .leaf (spanP nd (c :: t)).1]) (spanP nd (c :: t)).2 := by
  have h' : ¬ ('-' = c) := fun e => h e.symm
  by_cases he : (spanP nd (c :: t)).1 = [] <;> simp [gC, run, runSeq, runAlt, stripPrefix, h', he]


abbrev dashEnd : Str := ['-', '-', '>']

theorem nd_dash : nd '-' = false := by decide

theorem spanP_snd_length (p : Char → Bool) (s : Str) : (spanP p s).2.length ≤ s.length := by
  have := congrArg List.length (spanP_append p s)
  simp only [List.length_append] at this
  omega

theorem spanP_fst_nil_iff (p : Char → Bool) (c : Char) (r : Str) : (spanP p (c :: r)).1 = [] ↔ p c = false := by
  simp only [spanP]
  split <;> simp_all

theorem body_dash (d : Char) (r' : Str) (h : nd d = true) : isCommentBody ('-' :: d :: r') = isCommentBody (d :: r') := by
  rw [nd_iff] at h
  simp only [Bool.and_eq_true, bne_iff_ne, ne_eq] at h
  rw [body_nondash d r' h.2]
  conv => lhs; unfold isCommentBody
  simp [h.1, h.2]

theorem body_dash_false (r : Str) (h : (spanP nd r).1 = []) : isCommentBody ('-' :: r) = false := by
  cases r with
  | nil => rfl
  | cons d r' =>
    have hd := (spanP_fst_nil_iff nd d r').1 h
    rw [nd_iff] at hd
    conv => lhs; unfold isCommentBody
    simp only [hd, Bool.false_and]

theorem runMany_step (f : Nat) (g : G) (s : Str) : runMany env (f + 1) g s =
    (match run env f g s with
      | .ok c r => if r.length < s.length then
                     match runMany env f g r with
                     | .ok ks r' => .ok (c :: ks) r'
                     | .fail => .fail
                     | .fuel => .fuel
                   else .fail
      | .fail => .ok [] s
      | .fuel => .fuel) := by
  rw [runMany]; rfl

theorem loop : ∀ (n : Nat) (s : Str), s.length ≤ n → ∀ f, n + 5 ≤ f →
    ∃ ks t', runMany env f gC (s ++ dashEnd) = .ok ks (t' ++ dashEnd) ∧ (t' = [] ↔ isCommentBody s = true) := by
  intro n
  induction n with
  | zero =>
    intro s hs f hf
    have : s = [] := List.eq_nil_of_length_eq_zero (by omega)
    subst this
    obtain ⟨k, rfl⟩ : ∃ k, f = k + 4 + 1 := ⟨f - 5, by omega⟩
    refine ⟨[], [], ?_, by simp [isCommentBody]⟩
    rw [runMany_step]; simp only [List.nil_append, dashEnd, iter_dash]
    simp [spanP, nd_dash]
  | succ n ih =>
    intro s hs f hf
    obtain ⟨k, rfl⟩ : ∃ k, f = k + 4 + 1 := ⟨f - 5, by omega⟩
    match s, hs with
    | [], _ =>
      refine ⟨[], [], ?_, by simp [isCommentBody]⟩
      rw [runMany_step]; simp only [List.nil_append, dashEnd, iter_dash]
      simp [spanP, nd_dash]
    | c :: r, hs =>
      by_cases hc : c = '-'
      · subst hc
        have hsp := spanP_append_stop nd '-' ['-', '>'] nd_dash r
        by_cases he : (spanP nd r).1 = []
        · refine ⟨[], '-' :: r, ?_, ?_⟩
          · rw [runMany_step]; simp only [List.cons_append, iter_dash, dashEnd, hsp, he, if_true]
          · simp [body_dash_false r he]
        · have hlen := spanP_snd_length nd r
          simp only [List.length_cons] at hs
          obtain ⟨ks, t', h1, h2⟩ := ih (spanP nd r).2 (by omega) (k + 4) (by omega)
          refine ⟨CST.seq [.leaf ['-'], .leaf (spanP nd r).1] :: ks, t', ?_, ?_⟩
          · rw [runMany_step]; simp only [List.cons_append, iter_dash, dashEnd, hsp, he, if_false]
            have : ((spanP nd r).2 ++ ['-', '-', '>']).length < ('-' :: (r ++ ['-', '-', '>'])).length := by
              simp only [List.length_append, List.length_cons]; omega
            simp only [this, if_true]
            simp only [dashEnd] at h1
            rw [h1]
          · rw [h2]
            cases r with
            | nil => simp [spanP] at he
            | cons d r' =>
              have hd : nd d = true := by
                by_cases hx : nd d = true
                · exact hx
                · exact absurd ((spanP_fst_nil_iff nd d r').2 (by simpa using hx)) he
              rw [body_dash d r' hd, ← body_span (d :: r')]
      · have hsp := spanP_append_stop nd '-' ['-', '>'] nd_dash (c :: r)
        by_cases he : (spanP nd (c :: r)).1 = []
        · refine ⟨[], c :: r, ?_, ?_⟩
          · simp only [List.cons_append] at hsp
            rw [runMany_step]; simp only [List.cons_append, iter_nodash _ _ _ hc, dashEnd, hsp, he, if_true]
          · have hd := (spanP_fst_nil_iff nd c r).1 he
            rw [nd_iff] at hd
            have : P.isChar c = false := by simpa [hc] using hd
            simp [body_nondash c r hc, this]
        · have hlen := spanP_snd_length nd r
          simp only [List.length_cons] at hs
          have hc' : nd c = true := by
            by_cases hx : nd c = true
            · exact hx
            · exact absurd ((spanP_fst_nil_iff nd c r).2 (by simpa using hx)) he
          have e2 : (spanP nd (c :: r)).2 = (spanP nd r).2 := by simp [spanP, hc']
          obtain ⟨ks, t', h1, h2⟩ := ih (spanP nd r).2 (by omega) (k + 4) (by omega)
          refine ⟨CST.seq [.seq [], .leaf (spanP nd (c :: r)).1] :: ks, t', ?_, ?_⟩
          · simp only [List.cons_append] at hsp
            rw [runMany_step]; simp only [List.cons_append, iter_nodash _ _ _ hc, dashEnd, hsp, he, if_false]
            have : ((spanP nd (c :: r)).2 ++ ['-', '-', '>']).length < (c :: (r ++ ['-', '-', '>'])).length := by
              rw [e2]; simp only [List.length_append, List.length_cons]; omega
            simp only [this, if_true]
            simp only [dashEnd] at h1
            rw [e2, h1]
          · rw [h2, body_span (c :: r), e2]


theorem gC_eq : G.seq [G.alt [G.tag [Char.ofNat 45], G.seq []], G.cls1 (P.except P.isChar [Char.ofNat 45])] = gC := by
  have : Char.ofNat 45 = '-' := by decide
  simp only [gC, nd, this]

abbrev dd : Str := ['-', '-']

theorem hasSub_dd_cons (c : Char) (r : Str) :
    hasSub dd (c :: r) = ((c == '-' && r.head? == some '-') || hasSub dd r) := by
  simp only [hasSub, splitAtSub, dd, stripPrefix]
  cases r with
  | nil =>
    by_cases hc : c = '-' <;> simp [hc, stripPrefix, splitAtSub]
  | cons d r' =>
    by_cases hc : '-' = c
    · subst hc
      by_cases hd : '-' = d
      · subst hd; simp [stripPrefix]
      · have hd' : ¬ d = '-' := fun e => hd e.symm
        simp only [stripPrefix, hd, if_false, if_true, List.head?_cons]
        cases splitAtSub ['-', '-'] (d :: r') <;> simp [hd']
    · have hc' : ¬ c = '-' := fun e => hc e.symm
      simp only [hc, if_false]
      cases splitAtSub ['-', '-'] (d :: r') <;> simp [hc']

theorem isChar_dash : P.isChar '-' = true := by decide

end XmlRs.C15
