import XmlRsModel.Lemmas.AbsDtdItems
/-! `absMarkup`, `absIntSubset`, `absDoctype` on the trees of a rendering. -/
namespace XmlRs.Lex
open XmlRs Gen.Xml XmlRs.Names

/-! ### entity values -/
def peRefBody (n : Str) : CST := .seq [.leaf ['%'], cstName n, .leaf [';']]

def pieceTokE : Piece → Tok
  | .text s => .leaf s
  | .peRef n => .node N.pe_reference (peRefBody n)
  | pc => .node N.reference (refBody pc)

theorem toks_piecesE (q : Char) : ∀ ps : List Piece, ps.all (okPieceE q) = true → toksL (ps.map cstPieceE) = ps.map pieceTokE
  | [], _ => rfl
  | pc :: ps, h => by
    simp only [List.all_cons, Bool.and_eq_true] at h
    simp only [List.map_cons, toksL, toks_piecesE q ps h.2]
    cases pc with
    | text s =>
      simp only [okPieceE, Bool.and_eq_true, Bool.not_eq_true'] at h
      simp [cstPieceE, CST.toks, h.1.1, pieceTokE]
    | peRef n => simp [cstPieceE, cstPeRef, CST.toks, pieceTokE, peRefBody]
    | entRef n => simp [cstPieceE, cstRef, CST.toks, pieceTokE, refBody]
    | charRef d hx => cases hx <;> simp [cstPieceE, cstRef, CST.toks, pieceTokE, refBody]

theorem absPieces_cstE (q : Char) (ps : List Piece) (h : ps.all (okPieceE q) = true) :
    absPieces (.seq [.leaf [q], .many (ps.map cstPieceE), .leaf [q]]) = ps := by
  have ht : (CST.seq [.leaf [q], .many (ps.map cstPieceE), .leaf [q]]).toks = Tok.leaf [q] :: (ps.map pieceTokE ++ [Tok.leaf [q]]) := by
    simp [CST.toks, toksL, toks_piecesE q ps h]
  simp only [absPieces, ht, List.drop_succ_cons, List.drop_zero, List.dropLast_concat]
  clear ht
  induction ps with
  | nil => rfl
  | cons pc ps ih =>
    simp only [List.all_cons, Bool.and_eq_true] at h
    simp only [List.map_cons, ih h.2]
    congr 1
    have e1 : (N.pe_reference == N.reference) = false := by decide
    cases pc with
    | text s => rfl
    | peRef n =>
      simp [pieceTokE, e1, peRefBody, CST.kidsL, kidsLL, cstName_eq, nameBody_flatten]
    | entRef n =>
      simp only [pieceTokE, beq_self_eq_true, if_true]
      exact absReference_refBody ' ' _ (by simpa [okPiece, okPieceE] using h.1) (fun s => by simp)
    | charRef d hx =>
      simp only [pieceTokE, beq_self_eq_true, if_true]
      exact absReference_refBody ' ' _ (by simpa [okPiece, okPieceE] using h.1) (fun s => by simp)

/-! ### markup declarations -/
def markupBody : CDtdItem → CST
  | .ws w => .leaf w
  | .comment s => cstComment s
  | .pi t b => cstPI t b
  | .elementDecl w0 n w1 spec w2 => cstElementDecl w0 n w1 spec w2
  | .attlist w0 e defs w1 => cstAttlist w0 e defs w1
  | .entity w0 n w1 d w2 => cstEntity w0 n w1 d w2
  | .notationDecl w0 n w1 id w2 => cstNotation w0 n w1 id w2

theorem cstDtdItem_eq (i : CDtdItem) : cstDtdItem i = .node (if isWsDtd i then N.decl_sep else N.markup_decl) (markupBody i) := by
  cases i <;> rfl

theorem kidsLL_attdefs (defs : List CAttDef) : kidsLL (defs.map cstAttDef) = defs.map (fun a => (N.att_def, attDefBody a)) := by
  induction defs with
  | nil => rfl
  | cons a r ih => simp [kidsLL, cstAttDef_eq, CST.kidsL, ih]

theorem attdefs_filter_map : ∀ (defs : List CAttDef), defs.all okAttDef = true →
    List.map absAttDef (List.map (fun x => x.snd) (List.filter (fun x => x.fst == N.att_def) (defs.map (fun a => (N.att_def, attDefBody a))))) =
      defs.map CAttDef.erase
  | [], _ => rfl
  | a :: r, h => by
    simp only [List.all_cons, Bool.and_eq_true] at h
    simp only [List.map_cons, List.filter_cons, beq_self_eq_true, if_true, absAttDef_cst a h.1, attdefs_filter_map r h.2]

theorem absMarkup_cst (i : CDtdItem) (hi : okDtdItem i = true) (hnw : isWsDtd i = false) :
    absMarkup (markupBody i) = .ok i.erase := by
  cases i with
  | ws w => simp [isWsDtd] at hnw
  | comment s =>
    have e1 : (N.comment == N.attlist_decl) = false := by decide
    have e2 : (N.comment == N.entity_decl) = false := by decide
    have e3 : (N.comment == N.notation_decl) = false := by decide
    have e4 : (N.comment == N.pi) = false := by decide
    simp [markupBody, cstComment_eq, absMarkup, CST.kidsL, e1, e2, e3, e4, CDtdItem.erase]
  | pi t b =>
    have e1 : (N.pi == N.attlist_decl) = false := by decide
    have e2 : (N.pi == N.entity_decl) = false := by decide
    have e3 : (N.pi == N.notation_decl) = false := by decide
    simp [markupBody, cstPI_eq, absMarkup, CST.kidsL, e1, e2, e3, absPI_cst, CDtdItem.erase]
  | elementDecl w0 n w1 spec w2 =>
    have e1 : (N.element_decl == N.attlist_decl) = false := by decide
    have e2 : (N.element_decl == N.entity_decl) = false := by decide
    have e3 : (N.element_decl == N.notation_decl) = false := by decide
    have e4 : (N.element_decl == N.pi) = false := by decide
    simp [markupBody, cstElementDecl, absMarkup, CST.kidsL, e1, e2, e3, e4, CDtdItem.erase]
  | attlist w0 e defs w1 =>
    obtain ⟨_, _, hd, _⟩ := okDtd_attlist hi
    obtain ⟨b, hb, hq⟩ := cstQN_kidsL e
    have e1 : (N.qname == N.att_def) = false := by decide
    have hk : (CST.seq [.seq [.leaf kwATTLIST, .leaf w0], .seq [cstQN e, .many (defs.map cstAttDef)], .seq [.leaf w1, .leaf ['>']]]).kidsL =
        (N.qname, b) :: defs.map (fun a => (N.att_def, attDefBody a)) := by
      simp [CST.kidsL, kidsLL, hb, kidsLL_attdefs]
    simp only [markupBody, cstAttlist, absMarkup, CST.kidsL, List.append_nil, beq_self_eq_true, if_true]
    simp only [CST.kidsL] at hk
    rw [hk]
    simp only [findL, List.find?_cons, beq_self_eq_true, Option.map_some, hq, allL, List.filter_cons, e1, Bool.false_eq_true, if_false,
      attdefs_filter_map defs hd, CDtdItem.erase]
  | entity w0 n w1 d w2 =>
    obtain ⟨_, _, _, hd, _⟩ := okDtd_entity hi
    have e1 : (N.entity_decl == N.attlist_decl) = false := by decide
    have e2 : (N.name == N.entity_def) = false := by decide
    have e3 : (N.external_id == N.entity_value) = false := by decide
    have hkg : (CST.seq [.seq [.seq [.leaf kwENTITY, .leaf w0], cstName n, .leaf w1], .seq [cstEntDef d, .seq [.leaf w2, .leaf ['>']]]]).kidsL =
        [(N.name, nameBody n), (N.entity_def, match d with
          | .internal q vals => cstEntityValue q vals
          | .external id nd => .seq [cstExtId id, cstNdata nd])] := by
      cases d <;> simp [CST.kidsL, kidsLL, cstName_eq, cstEntDef]
    simp only [markupBody, cstEntity, absMarkup, CST.kidsL, List.append_nil, e1, Bool.false_eq_true, if_false, beq_self_eq_true, if_true]
    simp only [CST.kidsL] at hkg
    rw [hkg]
    simp only [findL, List.find?_cons, beq_self_eq_true, Option.map_some, e2, Bool.false_eq_true, nameBody_flatten]
    cases d with
    | internal q vals =>
      simp only [okEntDef, Bool.and_eq_true] at hd
      have hv := absPieces_cstE q vals hd.1.2
      simp [cstEntityValue, CST.kidsL, hv, CDtdItem.erase, CEntDef.erase]
    | external id nd =>
      have hx := absExternalId_cst id
      cases nd with
      | none =>
        simp [cstNdata, CST.kidsL, kidsLL, cstExtId_eq, e3, hx, CDtdItem.erase, CEntDef.erase]
      | some v =>
        obtain ⟨a, b, nn⟩ := v
        simp [cstNdata, CST.kidsL, kidsLL, cstExtId_eq, hx, cstName_eq, nameBody_flatten, CDtdItem.erase, CEntDef.erase]
  | notationDecl w0 n w1 id w2 =>
    have e1 : (N.notation_decl == N.attlist_decl) = false := by decide
    have e2 : (N.notation_decl == N.entity_decl) = false := by decide
    have e3 : (N.public_id == N.external_id) = false := by decide
    simp only [markupBody, cstNotation, absMarkup, CST.kidsL, List.append_nil, e1, e2, Bool.false_eq_true, if_false, beq_self_eq_true, if_true]
    cases id with
    | ext id =>
      have hx := absExternalId_cst id
      simp [cstNotId, kidsLL, CST.kidsL, cstExtId_eq, cstName_eq, findL, nameBody_flatten, hx, CDtdItem.erase]
    | pubOnly w q p =>
      simp [cstNotId, kidsLL, CST.kidsL, cstName_eq, findL, nameBody_flatten, e3, cstPubLit_eq, pubLitBody_flatten, unquote_quoted, CDtdItem.erase]

/-! ### the internal subset -/
def subsetEntry (i : CDtdItem) : Nat × CST := (if isWsDtd i then N.decl_sep else N.markup_decl, markupBody i)

theorem kidsLL_items (items : List CDtdItem) : kidsLL (items.map cstDtdItem) = items.map subsetEntry := by
  induction items with
  | nil => rfl
  | cons i r ih => simp [kidsLL, cstDtdItem_eq, CST.kidsL, ih, subsetEntry]

theorem absIntSubset_cst : ∀ (items : List CDtdItem), items.all okDtdItem = true →
    absIntSubset (items.map subsetEntry) = .ok (items.filterMap CDtdItem.erase)
  | [], _ => rfl
  | i :: r, h => by
    simp only [List.all_cons, Bool.and_eq_true] at h
    have ih := absIntSubset_cst r h.2
    have e1 : (N.decl_sep == N.markup_decl) = false := by decide
    cases hw : isWsDtd i with
    | true =>
      cases i with
      | ws w =>
        have : (CDtdItem.ws w).erase = none := rfl
        simp [subsetEntry, isWsDtd, absIntSubset, e1, markupBody, CST.kidsL, ih, List.filterMap_cons, this]
      | _ => simp [isWsDtd] at hw
    | false =>
      have hm := absMarkup_cst i h.1 hw
      simp only [List.map_cons, subsetEntry, hw, Bool.false_eq_true, if_false, absIntSubset, beq_self_eq_true, if_true, hm, ih, List.filterMap_cons]
      cases i.erase <;> rfl

/-! ### the DOCTYPE declaration -/
def doctypeBody (d : CDoctype) : CST :=
  .seq [.seq [.seq [.leaf kwDOCTYPE, .leaf d.ws0], cstQN d.name], .seq [cstExtPart d.ext, .leaf d.ws1], .seq [cstSubsetPart d.subset, .leaf ['>']]]

theorem cstDoctype_eq (d : CDoctype) : cstDoctype d = .node N.doctype_decl (doctypeBody d) := rfl

theorem absDoctype_cst (d : CDoctype) (h : okDoctype d = true) : absDoctype (doctypeBody d) = .ok d.erase := by
  obtain ⟨_, _, _, _, hsub⟩ := okDoctype_parts h
  obtain ⟨b, hb, hq⟩ := cstQN_kidsL d.name
  have e1 : (N.qname == N.external_id) = false := by decide
  have e2 : (N.qname == N.int_subset) = false := by decide
  have e3 : (N.external_id == N.int_subset) = false := by decide
  have e4 : (N.int_subset == N.external_id) = false := by decide
  have hk : (doctypeBody d).kidsL = (N.qname, b) ::
      ((match d.ext with | some (_, id) => [(N.external_id, extIdBody id)] | none => []) ++
       (match d.subset with | some (items, _) => [(N.int_subset, CST.many (items.map cstDtdItem))] | none => [])) := by
    cases he : d.ext with
    | none =>
      cases hs : d.subset with
      | none => simp [doctypeBody, CST.kidsL, kidsLL, hb, he, hs, cstExtPart, cstSubsetPart]
      | some v => obtain ⟨items, w2⟩ := v; simp [doctypeBody, CST.kidsL, kidsLL, hb, he, hs, cstExtPart, cstSubsetPart]
    | some v =>
      obtain ⟨w, id⟩ := v
      cases hs : d.subset with
      | none => simp [doctypeBody, CST.kidsL, kidsLL, hb, he, hs, cstExtPart, cstSubsetPart, cstExtId_eq]
      | some v => obtain ⟨items, w2⟩ := v; simp [doctypeBody, CST.kidsL, kidsLL, hb, he, hs, cstExtPart, cstSubsetPart, cstExtId_eq]
  simp only [absDoctype, hk, findL, List.find?_cons, beq_self_eq_true, Option.map_some, hq, e1, e2, Bool.false_eq_true]
  cases he : d.ext with
  | none =>
    cases hs : d.subset with
    | none => simp [CDoctype.erase, extErasePub, extEraseSys, subsetErase, he, hs]
    | some v =>
      obtain ⟨items, w2⟩ := v
      obtain ⟨b1, _, _⟩ := hsub items w2 hs
      simp [CDoctype.erase, extErasePub, extEraseSys, subsetErase, he, hs, e4, CST.kidsL, kidsLL_items, absIntSubset_cst items b1]
  | some v =>
    obtain ⟨w, id⟩ := v
    have hx := absExternalId_cst id
    cases hs : d.subset with
    | none => simp [CDoctype.erase, extErasePub, extEraseSys, subsetErase, he, hs, e3, hx]
    | some v =>
      obtain ⟨items, w2⟩ := v
      obtain ⟨b1, _, _⟩ := hsub items w2 hs
      simp [CDoctype.erase, extErasePub, extEraseSys, subsetErase, he, hs, e3, e4, hx, CST.kidsL, kidsLL_items, absIntSubset_cst items b1]

/-! ### depth of the DOCTYPE tree -/
theorem spec_depth (spec : CSpec) : noElem (cstSpec spec) = true ∧ (cstSpec spec).ntDepth N.children = spec.gdepth := by
  have e1 : (N.content_spec == N.children) = false := by decide
  have e2 : (N.mixed == N.children) = false := by decide
  have e0 : (N.content_spec != N.element) = true := by decide
  have e3 : (N.mixed != N.element) = true := by decide
  cases spec with
  | empty => simp [cstSpec, noElem, CST.ntDepth, e1, e0, CSpec.gdepth]
  | any => simp [cstSpec, noElem, CST.ntDepth, e1, e0, CSpec.gdepth]
  | mixedStar w0 names w1 =>
    have hn : noElL (cstMixedNames names) = true := noEl_sepCsts cstQN noEl_qn names
    have hd := noElL_depth _ hn
    refine ⟨?_, ?_⟩
    · simp [cstSpec, noElem, noElemL, e0, e3, noElemL_of_noElL _ hn]
    · simp [cstSpec, CST.ntDepth, ntDepthL, e1, e2, hd.2, CSpec.gdepth]
  | mixedPlain w0 w1 => simp [cstSpec, noElem, noElemL, CST.ntDepth, ntDepthL, e0, e3, e1, e2, CSpec.gdepth]
  | children w0 f ch rest w1 o =>
    have h := cp_depth (.group w0 f ch rest w1 o)
    rw [cstCp_group] at h
    have e4 : (N.cp != N.element) = true := by decide
    have e5 : (N.cp == N.children) = false := by decide
    simp only [noElem, e4, Bool.true_and, CST.ntDepth, e5, Bool.false_eq_true, if_false] at h
    simp only [cstSpec, noElem, e0, Bool.true_and, CST.ntDepth, e1, Bool.false_eq_true, if_false, CSpec.gdepth]
    exact h

theorem noEl_attlist (w0 : Str) (e : QN) (defs : List CAttDef) (w1 : Str) : noEl (cstAttlist w0 e defs w1) = true := by
  have h : noElL (defs.map cstAttDef) = true := noElL_map _ _ (fun a _ => noEl_attDef a)
  simp [cstAttlist, noEl, noElL, noEl_qn, h, N.attlist_decl, N.element, N.children]

theorem noEl_entity (w0 n w1 : Str) (d : CEntDef) (w2 : Str) : noEl (cstEntity w0 n w1 d w2) = true := by
  simp [cstEntity, noEl, noElL, noEl_name, noEl_entDef, N.entity_decl, N.ge_decl, N.element, N.children]

theorem noEl_notation (w0 n w1 : Str) (id : CNotId) (w2 : Str) : noEl (cstNotation w0 n w1 id w2) = true := by
  simp [cstNotation, noEl, noElL, noEl_name, noEl_notId, N.notation_decl, N.element, N.children]

theorem item_depth (i : CDtdItem) : noElem (cstDtdItem i) = true ∧ (cstDtdItem i).ntDepth N.children = i.gdepth := by
  have e0 : (N.markup_decl != N.element) = true := by decide
  have e1 : (N.markup_decl == N.children) = false := by decide
  have simple : ∀ c : CST, noEl c = true → noElem (.node N.markup_decl c) = true ∧ (CST.node N.markup_decl c).ntDepth N.children = 0 := by
    intro c hc
    have := noEl_depth c hc
    simp [noElem, e0, noElem_of_noEl c hc, CST.ntDepth, e1, this.2]
  cases i with
  | ws w => simp [cstDtdItem, noElem, CST.ntDepth, N.decl_sep, N.element, N.children, CDtdItem.gdepth]
  | comment s => simpa [cstDtdItem, CDtdItem.gdepth] using simple _ (noEl_comment s)
  | pi t b => simpa [cstDtdItem, CDtdItem.gdepth] using simple _ (noEl_pi t b)
  | attlist w0 e defs w1 => simpa [cstDtdItem, CDtdItem.gdepth] using simple _ (noEl_attlist w0 e defs w1)
  | entity w0 n w1 d w2 => simpa [cstDtdItem, CDtdItem.gdepth] using simple _ (noEl_entity w0 n w1 d w2)
  | notationDecl w0 n w1 id w2 => simpa [cstDtdItem, CDtdItem.gdepth] using simple _ (noEl_notation w0 n w1 id w2)
  | elementDecl w0 n w1 spec w2 =>
    have hs := spec_depth spec
    have hq := noEl_depth _ (noEl_qn n)
    have e2 : (N.element_decl != N.element) = true := by decide
    have e3 : (N.element_decl == N.children) = false := by decide
    refine ⟨?_, ?_⟩
    · simp [cstDtdItem, cstElementDecl, noElem, noElemL, e0, e2, noElem_of_noEl _ (noEl_qn n), hs.1]
    · simp [cstDtdItem, cstElementDecl, CST.ntDepth, ntDepthL, e1, e3, hq.2, hs.2, CDtdItem.gdepth]

theorem items_depth : ∀ items : List CDtdItem, noElemL (items.map cstDtdItem) = true ∧ ntDepthL N.children (items.map cstDtdItem) = dtdDepth items
  | [] => by simp [noElemL, ntDepthL, dtdDepth]
  | i :: r => by
    have h1 := item_depth i
    have h2 := items_depth r
    simp [noElemL, ntDepthL, dtdDepth, h1.1, h1.2, h2.1, h2.2]

theorem doctype_depth (d : CDoctype) : noElem (cstDoctype d) = true ∧ (cstDoctype d).ntDepth N.children = d.gdepth := by
  have e0 : (N.doctype_decl != N.element) = true := by decide
  have e1 : (N.doctype_decl == N.children) = false := by decide
  have e2 : (N.int_subset != N.element) = true := by decide
  have e3 : (N.int_subset == N.children) = false := by decide
  have hq := noEl_depth _ (noEl_qn d.name)
  have hext : noElem (cstExtPart d.ext) = true ∧ (cstExtPart d.ext).ntDepth N.children = 0 := by
    cases d.ext with
    | none => simp [cstExtPart, noElem, noElemL, CST.ntDepth, ntDepthL]
    | some v =>
      obtain ⟨w, id⟩ := v
      have := noEl_depth _ (noEl_extId id)
      simp [cstExtPart, noElem, noElemL, noElem_of_noEl _ (noEl_extId id), CST.ntDepth, ntDepthL, this.2]
  have hsub : noElem (cstSubsetPart d.subset) = true ∧ (cstSubsetPart d.subset).ntDepth N.children = d.gdepth := by
    cases hs : d.subset with
    | none => simp [cstSubsetPart, noElem, noElemL, CST.ntDepth, ntDepthL, CDoctype.gdepth, hs]
    | some v =>
      obtain ⟨items, w2⟩ := v
      have := items_depth items
      simp [cstSubsetPart, noElem, noElemL, CST.ntDepth, ntDepthL, e2, e3, this.1, this.2, CDoctype.gdepth, hs]
  refine ⟨?_, ?_⟩
  · simp [cstDoctype, noElem, noElemL, e0, noElem_of_noEl _ (noEl_qn d.name), hext.1, hsub.1]
  · simp [cstDoctype, CST.ntDepth, ntDepthL, e1, hq.2, hext.2, hsub.2]

end XmlRs.Lex
