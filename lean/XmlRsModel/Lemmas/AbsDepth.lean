import XmlRsModel.Infoset
import XmlRsModel.Lemmas.DomHeight
/-! The abstract document nests its elements no deeper than the syntax tree it was read from nests `element` nodes. -/
namespace XmlRs
open Gen.Xml XmlRs.Dom

/-- depth contributed by a labelled child -/
def kidDepth (p : Nat × CST) : Nat := if p.1 == N.element then p.2.elemDepth + 1 else p.2.elemDepth

mutual
theorem kidsL_depth : (c : CST) → ∀ p ∈ c.kidsL, kidDepth p ≤ c.elemDepth
  | .leaf _ => by simp [CST.kidsL]
  | .node n b => by
    intro p hp
    simp only [CST.kidsL, List.mem_singleton] at hp; subst hp
    simp only [kidDepth, CST.elemDepth]; split <;> simp_all
  | .seq ks => by simp only [CST.kidsL, CST.elemDepth]; exact kidsLL_depth ks
  | .many ks => by simp only [CST.kidsL, CST.elemDepth]; exact kidsLL_depth ks
theorem kidsLL_depth : (l : List CST) → ∀ p ∈ kidsLL l, kidDepth p ≤ elemDepthL l
  | [] => by simp [kidsLL]
  | c :: cs => by
    intro p hp
    simp only [kidsLL, List.mem_append] at hp
    simp only [elemDepthL]
    rcases hp with hp | hp
    · have := kidsL_depth c p hp; omega
    · have := kidsLL_depth cs p hp; omega
end

theorem findL_mem (n : Nat) (l : List (Nat × CST)) (b : CST) (h : findL n l = some b) : (n, b) ∈ l := by
  simp only [findL, Option.map_eq_some_iff] at h
  obtain ⟨p, hp, rfl⟩ := h
  have h1 := List.mem_of_find?_eq_some hp
  have h2 := List.find?_some hp
  have : p.1 = n := by simpa using h2
  cases p; simp_all

theorem findL_depth (n : Nat) (c b : CST) (h : findL n c.kidsL = some b) : b.elemDepth ≤ c.elemDepth := by
  have := kidsL_depth c (n, b) (findL_mem n _ b h)
  simp only [kidDepth] at this; split at this <;> omega

theorem absElement_succ (f : Nat) (c : CST) : absElement (f+1) c =
    (match findL N.empty_entity_tag (elemKids c) with
     | some t => .elem (absTag t).1 (absTag t).2 []
     | none =>
       .elem (match findL N.stag (elemKids c) with | some t => absTag t | none => (⟨none, []⟩, [])).1
             (match findL N.stag (elemKids c) with | some t => absTag t | none => (⟨none, []⟩, [])).2
             (match findL N.content (elemKids c) with | some ct => absContent f ct.kidsL | none => [])) := by
  simp only [absElement]
  cases h1 : findL N.empty_entity_tag (elemKids c) with
  | some t => rfl
  | none =>
    simp only []
    cases h2 : findL N.stag (elemKids c) <;> rfl

theorem elemKids_depth (c : CST) : ∀ p ∈ elemKids c, kidDepth p ≤ c.elemDepth := by
  intro p hp
  unfold elemKids at hp
  split at hp
  · next n b hcl =>
    split at hp
    · have hb : kidDepth (n, b) ≤ c.elemDepth := kidsL_depth c (n, b) (by rw [hcl]; simp)
      have := kidsL_depth b p hp
      simp only [kidDepth] at hb
      split at hb <;> omega
    · exact kidsL_depth c p hp
  · exact kidsL_depth c p hp

mutual
theorem absElement_depth : (f : Nat) → (c : CST) → itemDepth (absElement f c) ≤ c.elemDepth + 1
  | 0, c => by simp [absElement, itemDepth, itemDepthL]
  | f+1, c => by
    rw [absElement_succ]
    split
    · simp [itemDepth, itemDepthL]
    · cases hct : findL N.content (elemKids c) with
      | none => simp [itemDepth, itemDepthL]
      | some ct =>
        simp only [itemDepth]
        have hmem := findL_mem N.content _ ct hct
        have hd := elemKids_depth c _ hmem
        have hct_le : ct.elemDepth ≤ c.elemDepth := by
          simp only [kidDepth] at hd; split at hd <;> omega
        have := absContent_depth f ct.kidsL ct.elemDepth (kidsL_depth ct)
        omega
theorem absContent_depth : (f : Nat) → (l : List (Nat × CST)) → (b : Nat) → (∀ p ∈ l, kidDepth p ≤ b) →
    itemDepthL (absContent f l) ≤ b
  | _, [], b, _ => by simp [absContent, itemDepthL]
  | f, (n, cb) :: rest, b, h => by
    have ht := absContent_depth f rest b (fun p hp => h p (by simp [hp]))
    have hh := h (n, cb) (by simp)
    simp only [absContent]
    split
    · split
      · exact ht
      · simp only [itemDepthL, itemDepth]; omega
    · split
      · next hne =>
        have := absElement_depth f cb
        simp only [kidDepth, hne, if_true] at hh
        simp only [itemDepthL]; omega
      · split
        · split <;> first | (simp only [itemDepthL, itemDepth]; omega) | exact ht
        · split
          · simp only [itemDepthL, itemDepth]; omega
          · split
            · simp only [itemDepthL, itemDepth]; omega
            · split
              · simp only [itemDepthL, itemDepth]; omega
              · exact ht
end

theorem topsDepth_append (a b : List TopItem) : topsDepth (a ++ b) = max (topsDepth a) (topsDepth b) := by
  induction a with
  | nil => simp [topsDepth]
  | cons t r ih => simp only [List.cons_append, topsDepth, ih]; omega

theorem absMisc_depth (c : CST) (t : TopItem) (h : absMisc c = some t) : topDepth t = 0 := by
  unfold absMisc at h
  split at h
  · split at h
    · simp only [Option.some.injEq] at h; subst h; rfl
    · split at h
      · simp only [Option.some.injEq] at h; subst h; rfl
      · cases h
  · cases h

theorem absProlog_depth : ∀ (l : List (Nat × CST)) (xs : List TopItem), absProlog l = .ok xs → topsDepth xs = 0
  | [], xs, h => by simp only [absProlog, Except.ok.injEq] at h; subst h; rfl
  | (n, b) :: rest, xs, h => by
    simp only [absProlog] at h
    cases hr : absProlog rest with
    | error e => simp [hr] at h
    | ok ys =>
      have ih := absProlog_depth rest ys hr
      simp only [hr] at h
      split at h
      · simp only [Except.ok.injEq] at h; subst h
        cases hm : absMisc b with
        | none => simpa using ih
        | some i => simp only [topsDepth, absMisc_depth b i hm, ih]; rfl
      · split at h
        · cases hd : absDoctype b with
          | error e => simp [hd] at h
          | ok d => simp only [hd, Except.ok.injEq] at h; subst h; simp only [topsDepth, topDepth, ih]; rfl
        · simp only [Except.ok.injEq] at h; subst h; exact ih

theorem filterMap_absMisc_depth : ∀ (l : List CST), topsDepth (l.filterMap absMisc) = 0
  | [] => rfl
  | c :: r => by
    simp only [List.filterMap]
    cases hm : absMisc c with
    | none => simpa using filterMap_absMisc_depth r
    | some t => simp only [topsDepth, absMisc_depth c t hm, filterMap_absMisc_depth r]; rfl

/-- the abstract document nests its elements no deeper than its syntax tree nests `element` nodes -/
theorem absDocument_depth (c : CST) (d : IDoc) (h : absDocument c = .ok d) : topsDepth d.kids ≤ c.elemDepth := by
  unfold absDocument at h
  simp only at h
  split at h
  · cases h
  · next heads hp =>
    simp only [Except.ok.injEq] at h; subst h
    simp only [topsDepth_append, absProlog_depth _ heads hp, filterMap_absMisc_depth]
    cases he : findL N.element c.kidsL with
    | none => simp [topsDepth]
    | some e =>
      simp only [topsDepth, topDepth]
      have h1 := absElement_depth (e.size + 1) e
      have h2 := kidsL_depth c (N.element, e) (findL_mem _ _ _ he)
      simp only [kidDepth, beq_self_eq_true, if_true] at h2
      omega

end XmlRs
