import XmlRsModel.Lemmas.XRunsHeads
/-! COMPLETENESS of the XPath expression grammar generated from the source: every spelling (concrete expression) is
    parsed to the tree `cstX`, whatever abbreviations, white space and redundant parentheses it uses. -/
namespace XmlRs.XLex
open XmlRs XmlRs.XPath XmlRs.Lex
open Gen.XPath

/-- operator production and operand nonterminal of a chain layer; 7 = union -/
def opG' (l : Nat) : G := if l = 7 then G.tag ['|'] else opG l
def operandNt' (l : Nat) : Nat := if l = 7 then N.path_expr else operandNt l
def iterG (l : Nat) : G := G.seq [G.seq [G.cls0 P.isSpace, opG' l, G.cls0 P.isSpace], G.nt (operandNt' l)]

theorem chainG_eq (l : Nat) (hl : l ≤ 5) : chainG l = G.seq [G.nt (operandNt' l), G.many0 (iterG l)] := by
  have : l ≠ 7 := by omega
  simp [chainG, iterG, opG', operandNt', this]

theorem union_prod : Prod.union_expr = G.seq [G.nt (operandNt' 7), G.many0 (iterG 7)] := rfl

theorem operandNt'_eq (l : Nat) (hl : l ≤ 5 ∨ l = 7) : operandNt' l = ntOfLevel (l + 1) := by
  rcases hl with hl | rfl
  · have : l ≠ 7 := by omega
    simp only [operandNt', this, if_false]
    match l, hl with
    | 0, _ => rfl | 1, _ => rfl | 2, _ => rfl | 3, _ => rfl | 4, _ => rfl | 5, _ => rfl
    | n + 6, h => omega
  · rfl

theorem runs_op' (op : BinOp) (l : Nat) (hl : opLevel op = l) (hl5 : l ≤ 5 ∨ l = 7) (Y : Str) (hY : Stops (· == '=') Y) :
    Runs env (opG' l) (opText op ++ Y) (.ok (.leaf (opText op)) Y) := by
  rcases hl5 with h5 | rfl
  · have : l ≠ 7 := by omega
    simp only [opG', this, if_false]
    exact runs_op op l hl h5 Y hY
  · simp only [opG', if_true]
    cases op <;> simp [opLevel] at hl
    exact Runs.tag_ok ['|'] Y

theorem op_fails' (l : Nat) (hl : l ≤ 5 ∨ l = 7) {T : Str} (h : Stops (fun c => (opHeads l).contains c) T) : Runs env (opG' l) T .fail := by
  rcases hl with h5 | rfl
  · have : l ≠ 7 := by omega
    simp only [opG', this, if_false]
    exact op_fails l h5 h
  · simp only [opG', if_true]
    exact tag_fails_of_heads h '|' _ (by decide)

theorem mem_levels (l : Nat) (hl : l ≤ 10) : l ∈ allLevels := by
  simp only [allLevels, List.mem_cons, List.mem_nil_iff, or_false]; omega

/-- an iteration of a chain loop fails at a continuation of the layer -/
theorem iter_fails (l : Nat) (hl : l ≤ 5 ∨ l = 7) {Y : Str} (hY : Cont l Y) : Runs env (iterG l) Y .fail := by
  obtain ⟨w, T, rfl, hw, hs, hh, _⟩ := hY.split
  have hl10 : l ≤ 10 := by omega
  exact Runs.seq_fail (RunsSeq.fail_head (Runs.seq_fail (RunsSeq.fail_tail (runs_cls0 hw hs)
    (RunsSeq.fail_head (op_fails' l hl (hh l (mem_levels l hl10) (Nat.le_refl _)))))))

theorem unary_prod : Prod.unary_expr = G.seq [G.many0 (G.seq [G.tag ['-'], G.cls0 P.isSpace]), G.nt N.union_expr] := rfl
theorem path_prod : Prod.path_expr = G.alt [
    G.seq [G.nt N.filter_expr, G.alt [G.seq [G.seq [G.cls0 P.isSpace, G.alt [G.tag ['/', '/'], G.tag ['/']], G.cls0 P.isSpace], G.nt N.relative_location_path], G.seq []]],
    G.seq [G.seq [G.alt [G.tag ['/', '/'], G.tag ['/']], G.cls0 P.isSpace], G.nt N.relative_location_path],
    G.nt N.relative_location_path, G.tag ['/']] := rfl
theorem filter_prod : Prod.filter_expr = G.seq [G.nt N.primary_expr, G.many0 (G.seq [G.cls0 P.isSpace, G.nt N.predicate])] := rfl
theorem predicate_prod : Prod.predicate = G.seq [G.seq [G.tag ['['], G.cls0 P.isSpace], G.nt N.predicate_expr, G.seq [G.cls0 P.isSpace, G.tag [']']]] := rfl
theorem expr_prod : Prod.expr = G.nt N.or_expr := rfl
theorem predicate_expr_prod : Prod.predicate_expr = G.nt N.expr := rfl
theorem argument_prod : Prod.argument = G.nt N.expr := rfl
theorem variable_prod : Prod.variable_reference = G.seq [G.tag ['$'], G.nt N.qname] := rfl

def slashG : G := G.alt [G.tag ['/', '/'], G.tag ['/']]

theorem runs_slash (ds : Bool) (Y : Str) (hY : Stops (· == '/') Y) : Runs env slashG (slashText ds ++ Y) (.ok (.leaf (slashText ds)) Y) := by
  unfold slashG
  cases ds with
  | true => exact Runs.alt (RunsAlt.hit (Runs.tag_ok ['/', '/'] Y))
  | false =>
    refine Runs.alt (RunsAlt.skip (Runs.tag_fail ?_) (RunsAlt.hit (Runs.tag_ok ['/'] Y)))
    rcases hY with rfl | ⟨c, r, rfl, hc⟩
    · rfl
    · have : c ≠ '/' := by intro e; subst e; simp at hc
      simp [slashText, stripPrefix, Ne.symm this]

theorem slash_fails {T : Str} (h : Stops (· == '/') T) : Runs env slashG T .fail := by
  unfold slashG
  exact Runs.alt (RunsAlt.skip (runs_tag_fail_head h) (RunsAlt.skip (runs_tag_fail_head h) (RunsAlt.nil _)))

theorem stops_of_ne {c d : Char} (h : c ≠ d) (r : Str) : Stops (· == d) (c :: r) := Stops.cons _ (by simpa using h)

theorem stops_ws_or {w : Str} (hw : okWs w = true) {p : Char → Bool} (hp : ∀ c, P.isSpace c = true → p c = false) {R : Str} (hR : Stops p R) :
    Stops p (w ++ R) := by
  cases w with
  | nil => simpa using hR
  | cons d ds =>
    simp only [okWs, List.all_cons, Bool.and_eq_true] at hw
    exact Stops.cons _ (hp d hw.1)

theorem space_ne_eq (c : Char) (h : P.isSpace c = true) : (c == '=') = false := by
  obtain hh | hh | hh | hh := C15.space_cases c h <;> subst hh <;> decide
theorem space_ne_slash (c : Char) (h : P.isSpace c = true) : (c == '/') = false := by
  obtain hh | hh | hh | hh := C15.space_cases c h <;> subst hh <;> decide

/-- `primary_expr` fails on `/` -/
theorem primary_fails_slash (R : Str) : Runs env (.nt N.primary_expr) ('/' :: R) .fail :=
  primary_fails (Stops.cons _ (by decide)) (Stops.cons _ (by decide)) (Stops.cons _ (by decide)) (number_fails (Stops.cons _ (by decide)))
    (function_call_fails_noname (noNameStart_cons _ (by decide)))

theorem filter_fails_of_primary {I : Str} (h : Runs env (.nt N.primary_expr) I .fail) : Runs env (.nt N.filter_expr) I .fail := by
  apply Runs.nt_fail_of env_filter_expr
  rw [filter_prod]
  exact Runs.seq_fail (RunsSeq.fail_head h)

/-- `expr` fails on `)` (an empty argument list) -/
theorem expr_fails_rpar (R : Str) : Runs env (.nt N.expr) (')' :: R) .fail := by
  have hprim : Runs env (.nt N.primary_expr) (')' :: R) .fail :=
    primary_fails (Stops.cons _ (by decide)) (Stops.cons _ (by decide)) (Stops.cons _ (by decide)) (number_fails (Stops.cons _ (by decide)))
      (function_call_fails_noname (noNameStart_cons _ (by decide)))
  have hpath : Runs env (.nt N.path_expr) (')' :: R) .fail := by
    apply Runs.nt_fail_of env_path_expr
    rw [path_prod]
    refine Runs.alt (RunsAlt.skip (Runs.seq_fail (RunsSeq.fail_head (filter_fails_of_primary hprim))) (RunsAlt.skip ?_ (RunsAlt.skip ?_ (RunsAlt.skip ?_ (RunsAlt.nil _)))))
    · exact Runs.seq_fail (RunsSeq.fail_head (Runs.seq_fail (RunsSeq.fail_head (slash_fails (Stops.cons _ (by decide))))))
    · exact rel_fails (Stops.cons _ (by decide)) (Stops.cons _ (by decide))
    · exact Runs.tag_fail (strip_cons_ne _ _ (by decide))
  have hunion : Runs env (.nt N.union_expr) (')' :: R) .fail := by
    apply Runs.nt_fail_of env_union_expr
    rw [union_prod]
    exact Runs.seq_fail (RunsSeq.fail_head hpath)
  have hunary : Runs env (.nt N.unary_expr) (')' :: R) .fail := by
    apply Runs.nt_fail_of env_unary_expr
    rw [unary_prod]
    refine Runs.seq_fail (RunsSeq.fail_tail (Runs.many (RunsMany.stop (Runs.seq_fail (RunsSeq.fail_head (Runs.tag_fail (strip_cons_ne _ _ (by decide))))))) (RunsSeq.fail_head hunion))
  have lvl : ∀ l, l ≤ 5 → Runs env (.nt (operandNt l)) (')' :: R) .fail → Runs env (.nt (levelNt l)) (')' :: R) .fail := by
    intro l hl h
    apply Runs.nt_fail_of (env_level l hl)
    unfold chainG
    exact Runs.seq_fail (RunsSeq.fail_head h)
  have h5 := lvl 5 (by omega) hunary
  have h4 := lvl 4 (by omega) h5
  have h3 := lvl 3 (by omega) h4
  have h2 := lvl 2 (by omega) h3
  have h1 := lvl 1 (by omega) h2
  have h0 := lvl 0 (by omega) h1
  apply Runs.nt_fail_of env_expr
  rw [expr_prod]
  exact h0

end XmlRs.XLex
