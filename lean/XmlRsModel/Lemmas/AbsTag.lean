import XmlRsModel.Lemmas.AbsCst
/-! `abs (cst x) = erase x` for names, attribute values, attributes and tags. -/
namespace XmlRs.Lex
open XmlRs Gen.Xml XmlRs.Names

def ncBody (a : Str) : CST := .seq [.leaf (a.take 1), if a.drop 1 = [] then .seq [] else .leaf (a.drop 1)]

theorem cstNc_eq (a : Str) : cstNc a = .node N.ncname (ncBody a) := rfl

theorem ncBody_flatten (a : Str) : (ncBody a).flatten = a := by
  have key := List.take_append_drop 1 a
  simp only [ncBody, CST.flatten, flattenL]
  split
  · next h => simp only [CST.flatten, flattenL, List.append_nil]; rw [h, List.append_nil] at key; exact key
  · simp only [CST.flatten, List.append_nil]; exact key

theorem ncBody_kidsL (a : Str) : (ncBody a).kidsL = [] := by
  simp only [ncBody, CST.kidsL, kidsLL]
  split <;> simp [CST.kidsL, kidsLL]

theorem absQName_cst (q : QN) (b : CST) (h : cstQN q = .node N.qname b) : absQName b = q := by
  obtain ⟨pre, loc⟩ := q
  cases pre with
  | none =>
    simp only [cstQN, cstNc_eq, CST.node.injEq, true_and] at h
    subst h
    simp [absQName, CST.kidsL, ncBody_kidsL, ncBody_flatten]
  | some p =>
    simp only [cstQN, cstNc_eq, CST.node.injEq, true_and] at h
    subst h
    simp [absQName, CST.kidsL, kidsLL, ncBody_flatten]

theorem cstQN_kidsL (q : QN) : ∃ b, (cstQN q).kidsL = [(N.qname, b)] ∧ absQName b = q := by
  obtain ⟨b, hb⟩ := cstQN_node q
  exact ⟨b, by rw [hb]; rfl, absQName_cst q b hb⟩

/-! ### attribute values -/
def refBody : Piece → CST
  | .entRef n => .node N.entity_ref (.seq [.leaf ['&'], cstName n, .leaf [';']])
  | .charRef d false => .node N.char_ref (.seq [.leaf ['&', '#'], .leaf d, .leaf [';']])
  | .charRef d true => .node N.char_ref (.seq [.leaf ['&', '#', 'x'], .leaf d, .leaf [';']])
  | _ => .leaf []

theorem cstRef_eq (pc : Piece) (h : ∀ s, pc ≠ .text s) (h2 : ∀ s, pc ≠ .peRef s) : cstRef pc = .node N.reference (refBody pc) := by
  cases pc with
  | text s => exact absurd rfl (h s)
  | peRef s => exact absurd rfl (h2 s)
  | entRef n => rfl
  | charRef d hx => cases hx <;> rfl

theorem dropLast_snoc (s : Str) (c : Char) : (s ++ [c]).dropLast = s := by simp

theorem isDigit_ne_x {c : Char} (h : P.isDigit c = true) : c ≠ 'x' := by
  intro e; subst e; revert h; decide

theorem absCharRef_dec (c : Char) (d' : Str) (hc : c ≠ 'x') :
    absCharRef (.seq [.leaf ['&', '#'], .leaf (c :: d'), .leaf [';']]) = .charRef (c :: d') false := by
  have hf : (CST.seq [.leaf ['&', '#'], .leaf (c :: d'), .leaf [';']]).flatten = '&' :: '#' :: c :: (d' ++ [';']) := by
    simp [CST.flatten, flattenL]
  unfold absCharRef
  simp only [hf]
  split
  · next r heq => simp only [List.cons.injEq, true_and] at heq; exact absurd heq.1 hc
  · next r heq =>
    simp only [List.cons.injEq, true_and] at heq
    subst heq
    rw [show c :: (d' ++ [';']) = (c :: d') ++ [';'] from rfl, dropLast_snoc]
  · next h1 h2 => exact absurd rfl (h2 _)

theorem absReference_refBody (q : Char) (pc : Piece) (hok : okPiece q pc = true) (h : ∀ s, pc ≠ .text s) :
    absReference (refBody pc) = pc := by
  cases pc with
  | text s => exact absurd rfl (h s)
  | peRef s => simp [okPiece] at hok
  | entRef n =>
    have e1 : (N.entity_ref == N.char_ref) = false := by decide
    simp [refBody, absReference, CST.kidsL, kidsLL, cstName, e1, CST.flatten, flattenL, spanP_append]
  | charRef d hx =>
    simp only [okPiece, Bool.and_eq_true, Bool.not_eq_true', List.isEmpty_eq_false_iff] at hok
    cases hx with
    | true =>
      simp [refBody, absReference, CST.kidsL, kidsLL, absCharRef, CST.flatten, flattenL]
    | false =>
      cases d with
      | nil => exact absurd rfl hok.1
      | cons c d' =>
        have hc : c ≠ 'x' := by
          simp only [Bool.false_eq_true, if_false, List.all_cons, Bool.and_eq_true] at hok
          exact isDigit_ne_x hok.2.1
        simp only [refBody, absReference, CST.kidsL, kidsLL, List.append_nil, beq_self_eq_true, if_true]
        exact absCharRef_dec c d' hc

def pieceTok : Piece → Tok
  | .text s => .leaf s
  | pc => .node N.reference (refBody pc)

theorem toks_pieces (q : Char) : ∀ ps : List Piece, ps.all (okPiece q) = true → toksL (ps.map cstPiece) = ps.map pieceTok
  | [], _ => rfl
  | pc :: ps, h => by
    simp only [List.all_cons, Bool.and_eq_true] at h
    simp only [List.map_cons, toksL, toks_pieces q ps h.2]
    cases pc with
    | text s =>
      simp only [okPiece, Bool.and_eq_true, Bool.not_eq_true'] at h
      simp [cstPiece, CST.toks, h.1.1, pieceTok]
    | peRef s => simp [okPiece] at h
    | entRef n => simp [cstPiece, cstRef, CST.toks, pieceTok, refBody]
    | charRef d hx => cases hx <;> simp [cstPiece, cstRef, CST.toks, pieceTok, refBody]

theorem absPieces_cst (q : Char) (ps : List Piece) (h : ps.all (okPiece q) = true) :
    absPieces (.seq [.leaf [q], .many (ps.map cstPiece), .leaf [q]]) = ps := by
  have ht : (CST.seq [.leaf [q], .many (ps.map cstPiece), .leaf [q]]).toks = Tok.leaf [q] :: (ps.map pieceTok ++ [Tok.leaf [q]]) := by
    simp [CST.toks, toksL, toks_pieces q ps h]
  simp only [absPieces, ht, List.drop_succ_cons, List.drop_zero, List.dropLast_concat]
  clear ht
  induction ps with
  | nil => rfl
  | cons pc ps ih =>
    simp only [List.all_cons, Bool.and_eq_true] at h
    simp only [List.map_cons, ih h.2]
    congr 1
    cases pc with
    | text s => rfl
    | peRef s => simp [okPiece] at h
    | entRef n =>
      simp only [pieceTok, beq_self_eq_true, if_true]
      exact absReference_refBody q _ h.1 (fun s => by simp)
    | charRef d hx =>
      simp only [pieceTok, beq_self_eq_true, if_true]
      exact absReference_refBody q _ h.1 (fun s => by simp)

/-! ### attributes -/
def attrBody (a : CAttr) : CST := .seq [cstAttrName a.name, .seq [cstEq a.ws1 a.ws2, cstAttValue a.q a.vals]]

theorem cstAttr_eq (a : CAttr) : cstAttr a = .node N.attribute_ (attrBody a) := rfl

theorem absAttribute_cst (a : CAttr) (h : okAttr a = true) : absAttribute (attrBody a) = a.erase := by
  obtain ⟨_, _, h3, _, _, _, h7, _⟩ := okAttr_parts h
  have hv := absPieces_cst a.q a.vals h7
  obtain ⟨ws, ⟨pre, loc⟩, ws1, ws2, q, vals⟩ := a
  simp only at h3 hv ⊢
  have e1 : (N.ns_att_name == N.att_value) = false := by decide
  have e2 : (N.eq == N.att_value) = false := by decide
  have e3 : (N.qname == N.att_value) = false := by decide
  have e4 : (N.qname == N.ns_att_name) = false := by decide
  by_cases hA : pre = some xmlnsL
  · subst hA
    simp [absAttribute, attrBody, cstAttrName, cstEq, cstAttValue, CST.kidsL, kidsLL, findL, e1, e2, absNsAttName, cstNc_eq,
      ncBody_flatten, hv, CAttr.erase, xmlnsS_eq]
  by_cases hB : pre = none ∧ loc = xmlnsL
  · obtain ⟨rfl, rfl⟩ := hB
    simp [absAttribute, attrBody, cstAttrName, cstEq, cstAttValue, CST.kidsL, kidsLL, findL, e1, e2, absNsAttName, hv,
      CAttr.erase, xmlnsS_eq]
  · obtain ⟨b, hb, hq⟩ := cstQN_kidsL ⟨pre, loc⟩
    simp [absAttribute, attrBody, cstAttrName, hA, hB, cstEq, cstAttValue, CST.kidsL, kidsLL, findL, hb, e2, e3, e4, hq, hv,
      CAttr.erase]

/-! ### tags -/
def tagBody (n : QN) (as : List CAttr) (w : Str) (close : Str) : CST :=
  .seq [.leaf ['<'], .seq [cstQN n, .many (as.map cstAttrIter)], .seq [.leaf w, .leaf close]]

theorem kidsLL_attrIters (as : List CAttr) : kidsLL (as.map cstAttrIter) = as.map (fun a => (N.attribute_, attrBody a)) := by
  induction as with
  | nil => rfl
  | cons a as ih => simp [kidsLL, cstAttrIter, CST.kidsL, cstAttr_eq, ih]

theorem attrs_filter_map : ∀ (as : List CAttr), as.all okAttr = true →
    List.map absAttribute (List.map (fun x => x.snd)
      (List.filter (fun x => x.fst == N.attribute_) (List.map (fun a => (N.attribute_, attrBody a)) as))) = List.map CAttr.erase as
  | [], _ => rfl
  | a :: as, h => by
    simp only [List.all_cons, Bool.and_eq_true] at h
    simp only [List.map_cons, List.filter_cons, beq_self_eq_true, if_true, absAttribute_cst a h.1, attrs_filter_map as h.2]

theorem absTag_cst (n : QN) (as : List CAttr) (w close : Str) (has : as.all okAttr = true) :
    absTag (tagBody n as w close) = (n, as.map CAttr.erase) := by
  obtain ⟨b, hb, hq⟩ := cstQN_kidsL n
  have e1 : (N.qname == N.attribute_) = false := by decide
  have hk : (tagBody n as w close).kidsL = (N.qname, b) :: as.map (fun a => (N.attribute_, attrBody a)) := by
    simp [tagBody, CST.kidsL, kidsLL, hb, kidsLL_attrIters]
  simp only [absTag, hk, findL, List.find?_cons, beq_self_eq_true, Option.map_some, hq, allL, List.filter_cons, e1]
  congr 1
  exact attrs_filter_map as has

end XmlRs.Lex
