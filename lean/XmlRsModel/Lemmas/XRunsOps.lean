import XmlRsModel.Lemmas.XRunsLex
/-! What may follow an XPath expression of a given grammar layer (`Cont`), and the operator productions. -/
namespace XmlRs.XLex
open XmlRs XmlRs.XPath XmlRs.Lex
open Gen.XPath

/-- first characters of the tokens that continue an expression at layer `L`: 0 or, 1 and, 2 = !=, 3 < <= > >=,
    4 + -, 5 * div mod, 7 |, 8 / //, 9 [ (predicate), 10 ( (function call) -/
def opHeads : Nat → List Char
  | 0 => ['o'] | 1 => ['a'] | 2 => ['=', '!'] | 3 => ['<', '>'] | 4 => ['+', '-'] | 5 => ['*', 'd', 'm']
  | 7 => ['|'] | 8 => ['/'] | 9 => ['['] | 10 => ['(']
  | _ => []

def allLevels : List Nat := [0, 1, 2, 3, 4, 5, 6, 7, 8, 9, 10]

/-- `c` starts a continuation token of some layer `≥ l` -/
def isHeadFrom (l : Nat) (c : Char) : Bool := allLevels.any fun L => decide (l ≤ L) && (opHeads L).contains c

theorem isHeadFrom_mono {l l' : Nat} (h : l ≤ l') (c : Char) (hc : isHeadFrom l c = false) : isHeadFrom l' c = false := by
  simp only [isHeadFrom, List.any_eq_false, Bool.and_eq_true, decide_eq_true_eq, not_and, Bool.not_eq_true] at hc ⊢
  intro L hL hle
  exact hc L hL (by omega)

theorem not_head_at {l L : Nat} (hL : L ∈ allLevels) (hle : l ≤ L) {c : Char} (hc : isHeadFrom l c = false) : (opHeads L).contains c = false := by
  simp only [isHeadFrom, List.any_eq_false, Bool.and_eq_true, decide_eq_true_eq, not_and, Bool.not_eq_true] at hc
  exact hc L hL hle

/-- what may follow an expression of layer `l`: optional white space, then the end of the input or a character that
    does not start a continuation token of a layer `≥ l`, is not `:`, and - directly behind the expression - cannot
    continue a name or a number -/
def Cont (l : Nat) (Y : Str) : Prop :=
  ∃ w T, Y = w ++ T ∧ okWs w = true ∧
    (T = [] ∨ ∃ c T', T = c :: T' ∧ P.isSpace c = false ∧ isHeadFrom l c = false ∧ c ≠ ':' ∧ (w = [] → P.isNameChar c = false))

theorem Cont.nil (l : Nat) : Cont l [] := ⟨[], [], rfl, rfl, .inl rfl⟩

theorem Cont.mono {l l' : Nat} (h : l ≤ l') {Y : Str} (hY : Cont l Y) : Cont l' Y := by
  obtain ⟨w, T, rfl, hw, hT⟩ := hY
  refine ⟨w, T, rfl, hw, ?_⟩
  rcases hT with rfl | ⟨c, T', rfl, h1, h2, h3, h4⟩
  · exact .inl rfl
  · exact .inr ⟨c, T', rfl, h1, isHeadFrom_mono h c h2, h3, h4⟩

theorem Cont.stops_nc {l : Nat} {Y : Str} (hY : Cont l Y) : Stops P.isNameChar Y := by
  obtain ⟨w, T, rfl, hw, hT⟩ := hY
  cases w with
  | nil =>
    rcases hT with rfl | ⟨c, T', rfl, _, _, _, h4⟩
    · exact Stops.nil
    · exact Stops.cons _ (h4 rfl)
  | cons d ds =>
    simp only [okWs, List.all_cons, Bool.and_eq_true] at hw
    apply Stops.cons
    cases h : P.isNameChar d with
    | false => rfl
    | true => have := space_not_nameChar d h; simp [hw.1] at this

/-- a continuation in front of which white space was consumed -/
theorem Cont.split {l : Nat} {Y : Str} (hY : Cont l Y) :
    ∃ w T, Y = w ++ T ∧ okWs w = true ∧ Stops P.isSpace T ∧
      (∀ L, L ∈ allLevels → l ≤ L → Stops (fun c => (opHeads L).contains c) T) ∧ Stops (· == ':') T := by
  obtain ⟨w, T, rfl, hw, hT⟩ := hY
  refine ⟨w, T, rfl, hw, ?_, ?_, ?_⟩
  · rcases hT with rfl | ⟨c, T', rfl, h1, _, _, _⟩
    · exact Stops.nil
    · exact Stops.cons _ h1
  · intro L hL hle
    rcases hT with rfl | ⟨c, T', rfl, _, h2, _, _⟩
    · exact Stops.nil
    · exact Stops.cons _ (not_head_at hL hle h2)
  · rcases hT with rfl | ⟨c, T', rfl, _, _, h3, _⟩
    · exact Stops.nil
    · exact Stops.cons _ (by simpa using h3)

/-- a tag whose first character is one of the layer's heads fails where no head of the layer stands -/
theorem tag_fails_of_heads {L : Nat} {T : Str} (h : Stops (fun c => (opHeads L).contains c) T) (c : Char) (t : Str)
    (hc : (opHeads L).contains c = true) : Runs env (.tag (c :: t)) T .fail := by
  apply runs_tag_fail_head
  exact h.mono fun d hd => by
    cases hdc : d == c with
    | false => rfl
    | true => simp only [beq_iff_eq] at hdc; subst hdc; rw [hc] at hd; cases hd

/-! ### operators -/
def levelNt : Nat → Nat
  | 0 => N.or_expr | 1 => N.and_expr | 2 => N.equality_expr | 3 => N.relation_expr | 4 => N.additive_expr | _ => N.multiplicative_expr

def operandNt : Nat → Nat
  | 0 => N.and_expr | 1 => N.equality_expr | 2 => N.relation_expr | 3 => N.additive_expr | 4 => N.multiplicative_expr | _ => N.unary_expr

def opG : Nat → G
  | 0 => G.tag ['o', 'r']
  | 1 => G.tag ['a', 'n', 'd']
  | 2 => G.alt [G.tag ['='], G.tag ['!', '=']]
  | 3 => G.alt [G.tag ['<', '='], G.tag ['>', '='], G.tag ['<'], G.tag ['>']]
  | 4 => G.alt [G.tag ['+'], G.tag ['-']]
  | _ => G.alt [G.tag ['*'], G.tag ['d', 'i', 'v'], G.tag ['m', 'o', 'd']]

def chainG (l : Nat) : G :=
  G.seq [G.nt (operandNt l), G.many0 (G.seq [G.seq [G.cls0 P.isSpace, opG l, G.cls0 P.isSpace], G.nt (operandNt l)])]

theorem env_level : ∀ l, l ≤ 5 → env (levelNt l) = chainG l
  | 0, _ => rfl | 1, _ => rfl | 2, _ => rfl | 3, _ => rfl | 4, _ => rfl | 5, _ => rfl
  | n + 6, h => by omega

/-- the operator token of layer `l`; after `<` and `>` no `=` may follow -/
theorem runs_op (op : BinOp) (l : Nat) (hl : opLevel op = l) (hl5 : l ≤ 5) (Y : Str) (hY : Stops (· == '=') Y) :
    Runs env (opG l) (opText op ++ Y) (.ok (.leaf (opText op)) Y) := by
  subst hl
  have hlt : stripPrefix ['<', '='] ('<' :: Y) = none := by
    rcases hY with rfl | ⟨c, r, rfl, hc⟩
    · rfl
    · have : c ≠ '=' := by intro e; subst e; simp at hc
      simp [stripPrefix, Ne.symm this]
  have hgt : stripPrefix ['>', '='] ('>' :: Y) = none := by
    rcases hY with rfl | ⟨c, r, rfl, hc⟩
    · rfl
    · have : c ≠ '=' := by intro e; subst e; simp at hc
      simp [stripPrefix, Ne.symm this]
  cases op <;> simp only [opLevel] at hl5 ⊢ <;> simp only [opG, opText]
  · exact Runs.tag_ok _ _
  · exact Runs.tag_ok _ _
  · exact Runs.alt (RunsAlt.hit (Runs.tag_ok _ _))
  · exact Runs.alt (RunsAlt.skip (Runs.tag_fail (by simp [stripPrefix])) (RunsAlt.hit (Runs.tag_ok _ _)))
  · exact Runs.alt (RunsAlt.skip (Runs.tag_fail hlt) (RunsAlt.skip (Runs.tag_fail (by simp [stripPrefix])) (RunsAlt.hit (Runs.tag_ok _ _))))
  · exact Runs.alt (RunsAlt.hit (Runs.tag_ok _ _))
  · exact Runs.alt (RunsAlt.skip (Runs.tag_fail (by simp [stripPrefix])) (RunsAlt.skip (Runs.tag_fail hgt)
      (RunsAlt.skip (Runs.tag_fail (by simp [stripPrefix])) (RunsAlt.hit (Runs.tag_ok _ _)))))
  · exact Runs.alt (RunsAlt.skip (Runs.tag_fail (by simp [stripPrefix])) (RunsAlt.hit (Runs.tag_ok _ _)))
  · exact Runs.alt (RunsAlt.hit (Runs.tag_ok _ _))
  · exact Runs.alt (RunsAlt.skip (Runs.tag_fail (by simp [stripPrefix])) (RunsAlt.hit (Runs.tag_ok _ _)))
  · exact Runs.alt (RunsAlt.hit (Runs.tag_ok _ _))
  · exact Runs.alt (RunsAlt.skip (Runs.tag_fail (by simp [stripPrefix])) (RunsAlt.hit (Runs.tag_ok _ _)))
  · exact Runs.alt (RunsAlt.skip (Runs.tag_fail (by simp [stripPrefix])) (RunsAlt.skip (Runs.tag_fail (by simp [stripPrefix])) (RunsAlt.hit (Runs.tag_ok _ _))))
  · omega

/-- the operator production of layer `l` fails where no operator of the layer starts -/
theorem op_fails (l : Nat) (hl : l ≤ 5) {T : Str} (h : Stops (fun c => (opHeads l).contains c) T) : Runs env (opG l) T .fail := by
  match l, hl with
  | 0, _ => exact tag_fails_of_heads h 'o' _ (by decide)
  | 1, _ => exact tag_fails_of_heads h 'a' _ (by decide)
  | 2, _ => exact Runs.alt (RunsAlt.skip (tag_fails_of_heads h '=' _ (by decide)) (RunsAlt.skip (tag_fails_of_heads h '!' _ (by decide)) (RunsAlt.nil _)))
  | 3, _ => exact Runs.alt (RunsAlt.skip (tag_fails_of_heads h '<' _ (by decide)) (RunsAlt.skip (tag_fails_of_heads h '>' _ (by decide))
      (RunsAlt.skip (tag_fails_of_heads h '<' _ (by decide)) (RunsAlt.skip (tag_fails_of_heads h '>' _ (by decide)) (RunsAlt.nil _)))))
  | 4, _ => exact Runs.alt (RunsAlt.skip (tag_fails_of_heads h '+' _ (by decide)) (RunsAlt.skip (tag_fails_of_heads h '-' _ (by decide)) (RunsAlt.nil _)))
  | 5, _ => exact Runs.alt (RunsAlt.skip (tag_fails_of_heads h '*' _ (by decide)) (RunsAlt.skip (tag_fails_of_heads h 'd' _ (by decide))
      (RunsAlt.skip (tag_fails_of_heads h 'm' _ (by decide)) (RunsAlt.nil _))))
  | n + 6, h6 => omega

/-- the first character of an operator -/
def opHead : BinOp → Char
  | .or => 'o' | .and => 'a' | .eq => '=' | .ne => '!' | .lt => '<' | .le => '<' | .gt => '>' | .ge => '>'
  | .add => '+' | .sub => '-' | .mul => '*' | .div => 'd' | .mod => 'm' | .union => '|'

theorem opText_head (op : BinOp) : ∃ t, opText op = opHead op :: t := by cases op <;> exact ⟨_, rfl⟩

/-- an operator of layer `l0` is a continuation for every deeper layer -/
theorem opHead_not_from (op : BinOp) (l : Nat) (h : opLevel op < l) : isHeadFrom l (opHead op) = false := by
  simp only [isHeadFrom, List.any_eq_false, Bool.and_eq_true, decide_eq_true_eq, not_and, Bool.not_eq_true]
  intro L hL hle
  simp only [allLevels, List.mem_cons, List.mem_nil_iff, or_false] at hL
  cases op <;> simp only [opLevel] at h <;> rcases hL with rfl | rfl | rfl | rfl | rfl | rfl | rfl | rfl | rfl | rfl | rfl <;>
    first | omega | decide

theorem opHead_props (op : BinOp) : P.isSpace (opHead op) = false ∧ opHead op ≠ ':' ∧ (opNeedsSpace op = false → P.isNameChar (opHead op) = false) := by
  cases op <;> refine ⟨by decide, by decide, ?_⟩ <;> simp [opNeedsSpace, opHead] <;> decide

theorem cont_of_op (op : BinOp) (l : Nat) (h : opLevel op < l) {w1 : Str} (hw : okWs w1 = true)
    (hsp : opNeedsSpace op = true → w1 ≠ []) (R : Str) : Cont l (w1 ++ (opText op ++ R)) := by
  obtain ⟨t, ht⟩ := opText_head op
  obtain ⟨p1, p2, p3⟩ := opHead_props op
  refine ⟨w1, opText op ++ R, rfl, hw, .inr ⟨opHead op, t ++ R, by rw [ht]; rfl, p1, opHead_not_from op l h, p2, ?_⟩⟩
  intro hw1
  cases hn : opNeedsSpace op with
  | false => exact p3 hn
  | true => exact absurd hw1 (hsp hn)

/-- closing tokens continue every layer -/
theorem cont_of_closer (l : Nat) {w : Str} (hw : okWs w = true) (c : Char) (hc : c = ')' ∨ c = ']' ∨ c = ',') (R : Str) :
    Cont l (w ++ c :: R) := by
  refine ⟨w, c :: R, rfl, hw, .inr ⟨c, R, rfl, ?_, ?_, ?_, fun _ => ?_⟩⟩ <;> rcases hc with rfl | rfl | rfl <;> first | decide | skip
  all_goals
    simp only [isHeadFrom, List.any_eq_false, Bool.and_eq_true, decide_eq_true_eq, not_and, Bool.not_eq_true]
    intro L hL _
    simp only [allLevels, List.mem_cons, List.mem_nil_iff, or_false] at hL
    rcases hL with rfl | rfl | rfl | rfl | rfl | rfl | rfl | rfl | rfl | rfl | rfl <;> decide

end XmlRs.XLex
