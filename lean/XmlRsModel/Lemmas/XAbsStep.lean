import XmlRsModel.Lemmas.XAbsBasic
/-! Reading node tests and axis specifiers back. -/
namespace XmlRs.XLex
open XmlRs XmlRs.XPath XmlRs.Lex
open Gen.XPath

def testBody : CTest → CST
  | .star => .node N.name_test (.leaf ['*'])
  | .nsStar p => .node N.name_test (.seq [cstNc p, .leaf [':', '*']])
  | .name q => .node N.name_test (cstQN q)
  | .typeTest t w1 w2 => .seq [.node N.node_type (.leaf (typeText t)), .seq [.leaf w1, .leaf ['('], .leaf w2, .leaf [')']]]
  | .piLit w1 w2 q s w3 => .seq [.seq [.leaf (typeText .pi), .leaf w1, .leaf ['('], .leaf w2], cstLit q s, .seq [.leaf w3, .leaf [')']]]

theorem cstTest_eq (t : CTest) : cstTest t = .node N.node_test (testBody t) := by cases t <;> rfl

theorem sig_lpar : sigToks (.leaf ['(']) = [.leaf ['(']] := sig_leaf_tok (by decide) (by decide)
theorem sig_rpar : sigToks (.leaf [')']) = [.leaf [')']] := sig_leaf_tok (by decide) (by decide)
theorem sig_type (t : NodeType) : sigToks (.leaf (typeText t)) = [.leaf (typeText t)] := by
  cases t <;> exact sig_leaf_tok (by decide) (by decide)

theorem absNodeTest_cst (t : CTest) (h : okTest t = true) : absNodeTest (testBody t) = t.erase := by
  cases t with
  | star =>
    have h1 : sigToks (.leaf ['*']) = [.leaf ['*']] := sig_leaf_tok (by decide) (by decide)
    simp [testBody, absNodeTest, sig_node, absNameTest, h1, CTest.erase]
  | nsStar p =>
    have h1 : sigToks (.leaf [':', '*']) = [.leaf [':', '*']] := sig_leaf_tok (by decide) (by decide)
    simp [testBody, absNodeTest, sig_node, absNameTest, sig_seq_cons, sig_seq_nil, cstNcX_eq, h1, ncBodyX_flatten, CTest.erase]
  | name q =>
    obtain ⟨b, hb, hq⟩ := cstQNX_node q
    simp [testBody, absNodeTest, sig_node, absNameTest, hb, hq, CTest.erase]
  | typeTest t w1 w2 =>
    simp only [okTest, Bool.and_eq_true] at h
    have hts : sigToks (testBody (.typeTest t w1 w2)) = [.node N.node_type (.leaf (typeText t)), .leaf ['('], .leaf [')']] := by
      simp [testBody, sig_seq_cons, sig_seq_nil, sig_node, sig_leaf_ws h.1, sig_leaf_ws h.2, sig_lpar, sig_rpar]
    simp only [absNodeTest, hts]
    cases t <;> simp [List.findSome?, N.literal, N.node_type, CST.flatten, typeText, CTest.erase]
  | piLit w1 w2 q s w3 =>
    simp only [okTest, Bool.and_eq_true] at h
    obtain ⟨⟨⟨⟨h1, h2⟩, _⟩, _⟩, h3⟩ := h
    have hts : sigToks (testBody (.piLit w1 w2 q s w3)) = [.leaf (typeText .pi), .leaf ['('], .node N.literal (litBody q s), .leaf [')']] := by
      simp [testBody, sig_seq_cons, sig_seq_nil, sig_node, sig_leaf_ws h1, sig_leaf_ws h2, sig_leaf_ws h3, sig_lpar, sig_rpar, sig_type, cstLit_eq]
    simp [absNodeTest, hts, List.findSome?, N.literal, absLiteral_lit, CTest.erase]

def axisBody : CAxis → CST
  | .named a w => .seq [.node N.axis_name (.leaf (axisText a)), .seq [.leaf w, .leaf [':', ':']]]
  | .attr => .leaf ['@']
  | .omitted => .seq []

theorem cstAxis_eq (a : CAxis) : cstAxis a = .node N.axis_specifier (axisBody a) := by cases a <;> rfl

theorem axisOfStr_text (a : Axis) : axisOfStr (axisText a) = a := by cases a <;> decide

/-- the axis that `absStep` reads from an axis-specifier body -/
def axisOfBody (a : CST) : Axis :=
  match a.kidsL with
  | [(_, nm)] => axisOfStr nm.flatten
  | _ => if a.flatten == ['@'] then Axis.attribute else Axis.child

theorem axisOfBody_cst (a : CAxis) : axisOfBody (axisBody a) = a.erase := by
  cases a with
  | named ax w => simp [axisOfBody, axisBody, CST.kidsL, kidsLL, CST.flatten, axisOfStr_text, CAxis.erase]
  | attr => simp [axisOfBody, axisBody, CST.kidsL, CST.flatten, CAxis.erase]
  | omitted => simp [axisOfBody, axisBody, CST.kidsL, kidsLL, CST.flatten, flattenL, CAxis.erase]

end XmlRs.XLex
