import XmlRsModel.Lemmas.DomForest
/-! The invariant of the DOM model and its preservation by the state-level primitives
    (`St.detach`, `St.update`, `St.fresh`) and by the tree mutators. -/
namespace XmlRs.Dom
open List

/-- every node id occurs at most once in the forest (document tree and detached trees), and every
    id in use is below the allocation counter -/
def Inv (s : St) : Prop := (∀ a, cntL a s.roots ≤ 1) ∧ (∀ a, 0 < cntL a s.roots → a < s.next)

/-- `s'` holds no id more often than `s` does (nothing is duplicated, nothing is invented) -/
def NoNew (s s' : St) : Prop := s'.next = s.next ∧ ∀ a, cntL a s'.roots ≤ cntL a s.roots

/-- `s'` holds exactly the ids of `s` (nothing lost either) -/
def SameIds (s s' : St) : Prop := s'.next = s.next ∧ ∀ a, cntL a s'.roots = cntL a s.roots

theorem SameIds.noNew {s s' : St} (h : SameIds s s') : NoNew s s' := ⟨h.1, fun a => Nat.le_of_eq (h.2 a)⟩
theorem NoNew.refl (s : St) : NoNew s s := ⟨rfl, fun _ => Nat.le_refl _⟩
theorem SameIds.refl (s : St) : SameIds s s := ⟨rfl, fun _ => rfl⟩
theorem NoNew.trans {a b c : St} (h1 : NoNew a b) (h2 : NoNew b c) : NoNew a c :=
  ⟨h2.1.trans h1.1, fun x => Nat.le_trans (h2.2 x) (h1.2 x)⟩
theorem SameIds.trans {a b c : St} (h1 : SameIds a b) (h2 : SameIds b c) : SameIds a c :=
  ⟨h2.1.trans h1.1, fun x => (h2.2 x).trans (h1.2 x)⟩

theorem Inv.of_noNew {s s' : St} (hi : Inv s) (h : NoNew s s') : Inv s' := by
  refine ⟨fun a => Nat.le_trans (h.2 a) (hi.1 a), fun a ha => ?_⟩
  rw [h.1]; exact hi.2 a (Nat.lt_of_lt_of_le ha (h.2 a))

theorem roots_eq (s : St) : s.roots = s.doc :: s.detached := rfl

theorem cntL_roots (s : St) (a : Nat) : cntL a s.roots = cnt a s.doc + cntL a s.detached := by
  rw [roots_eq, cntL_cons]

/-! ### update -/
theorem update_roots (s : St) (i : Nat) (f : Node → Node) : (s.update i f).roots = updateInL i f s.roots := by
  simp [St.update, St.roots, updateInL]

theorem update_next (s : St) (i : Nat) (f : Node → Node) : (s.update i f).next = s.next := rfl

theorem update_count (s : St) (i : Nat) (f : Node → Node) (nn : Node) (lost extra : List Nat)
    (hnd : ∀ a, cntL a s.roots ≤ 1) (hfind : s.find i = some nn)
    (hf : ∀ a, cnt a (f nn) + count a lost = cnt a nn + count a extra) (a : Nat) :
    cntL a (s.update i f).roots + count a lost = cntL a s.roots + count a extra := by
  rw [update_roots]
  exact updateInL_count i f nn lost extra hf s.roots hnd hfind a

theorem update_absent (s : St) (i : Nat) (f : Node → Node) (h : s.find i = none) :
    (s.update i f).roots = s.roots := by
  rw [update_roots]
  apply updateInL_absent
  cases hc : cntL i s.roots with
  | zero => rfl
  | succ m =>
    obtain ⟨n, hn⟩ := findInL_of_pos i s.roots (by omega)
    simp [St.find, hn] at h

/-- an update whose function does not change the ids of the node it is applied to -/
theorem update_sameIds (s : St) (i : Nat) (f : Node → Node) (hnd : ∀ a, cntL a s.roots ≤ 1)
    (hf : ∀ n a, cnt a (f n) = cnt a n) : SameIds s (s.update i f) := by
  refine ⟨rfl, fun a => ?_⟩
  cases hfind : s.find i with
  | none => rw [update_absent s i f hfind]
  | some nn =>
    have := update_count s i f nn [] [] hnd hfind (fun b => by simp [hf nn b]) a
    simpa using this

/-- an update that adds the ids `extra` to the node it is applied to: if the node is there they are
    added, if it is not nothing happens -/
theorem update_le (s : St) (i : Nat) (f : Node → Node) (extra : List Nat) (hnd : ∀ a, cntL a s.roots ≤ 1)
    (hf : ∀ n a, cnt a (f n) = cnt a n + count a extra) (a : Nat) :
    cntL a (s.update i f).roots ≤ cntL a s.roots + count a extra := by
  cases hfind : s.find i with
  | none => rw [update_absent s i f hfind]; omega
  | some nn =>
    have := update_count s i f nn [] extra hnd hfind (fun b => by simp [hf nn b]) a
    simp at this; omega

theorem cnt_withData (d : Str) (n : Node) (a : Nat) : cnt a (n.withData d) = cnt a n := by
  cases n with
  | mk j k d0 as ks => simp [Node.withData, cnt_mk]

theorem cntL_insertBeforeL (x : Node) (ref : Option Nat) (l : List Node) (a : Nat) :
    cntL a (insertBeforeL x ref l) = cntL a l + cnt a x := by
  induction l with
  | nil => simp [insertBeforeL, cntL_cons, cntL_nil]
  | cons n r ih =>
    cases ref with
    | none => simp only [insertBeforeL, cntL_cons, ih]; omega
    | some i =>
      simp only [insertBeforeL]
      split
      · simp only [cntL_cons]; omega
      · simp only [cntL_cons, ih]; omega

theorem cnt_mapKids (g : List Node → List Node) (n : Node) (a : Nat) :
    cnt a (n.mapKids g) + cntL a n.kids = cnt a n + cntL a (g n.kids) := by
  cases n with
  | mk j k d as ks => simp [Node.mapKids, Node.kids, cnt_mk]; omega

theorem cnt_mapAttrs (g : List Node → List Node) (n : Node) (a : Nat) :
    cnt a (n.mapAttrs g) + cntL a n.attrs = cnt a n + cntL a (g n.attrs) := by
  cases n with
  | mk j k d as ks => simp [Node.mapAttrs, Node.attrs, cnt_mk]; omega

/-! ### detach -/
theorem filter_root_absent (i : Nat) (l : List Node) (h : cntL i l = 0) : l.filter (·.id != i) = l := by
  induction l with
  | nil => rfl
  | cons t r ih =>
    rw [cntL_cons] at h
    have ht : t.id ≠ i := by
      intro he
      have := cnt_id_pos t
      rw [he] at this; omega
    have hb : (t.id != i) = true := by simp [ht]
    simp only [List.filter, hb]
    rw [ih (by omega)]

theorem filter_root_count (i : Nat) (l : List Node) (n : Node) (hnd : ∀ a, cntL a l ≤ 1)
    (hf : l.find? (·.id == i) = some n) (a : Nat) :
    cntL a (l.filter (·.id != i)) + cnt a n = cntL a l := by
  induction l with
  | nil => simp at hf
  | cons t r ih =>
    have hr : ∀ b, cntL b r ≤ 1 := fun b => by have := hnd b; rw [cntL_cons] at this; omega
    by_cases ht : (t.id == i) = true
    · simp only [List.find?, ht, Option.some.injEq] at hf
      subst hf
      have hti : t.id = i := by simpa using ht
      have h1 := hnd i
      rw [cntL_cons] at h1
      have h2 := cnt_id_pos t
      rw [hti] at h2
      have : (t.id != i) = false := by simp [hti]
      simp only [List.filter, this]
      rw [filter_root_absent i r (by omega), cntL_cons]; omega
    · have hne : (t.id == i) = false := by simpa using ht
      simp only [List.find?, hne] at hf
      have : (t.id != i) = true := by simp [bne, hne]
      simp only [List.filter, this, cntL_cons]
      have := ih hr hf
      omega

theorem find?_root_find (i : Nat) (l : List Node) (n : Node) (hnd : ∀ a, cntL a l ≤ 1)
    (hf : l.find? (·.id == i) = some n) : findInL i l = some n := by
  induction l with
  | nil => simp at hf
  | cons t r ih =>
    have hr : ∀ b, cntL b r ≤ 1 := fun b => by have := hnd b; rw [cntL_cons] at this; omega
    by_cases ht : (t.id == i) = true
    · simp only [List.find?, ht, Option.some.injEq] at hf
      subst hf
      have hti : t.id = i := by simpa using ht
      simp [findInL, ← hti, findIn_root]
    · have hne : (t.id == i) = false := by simpa using ht
      simp only [List.find?, hne] at hf
      have hn := ih hr hf
      have hpos := findInL_some_mem i r n hn
      have h1 := hnd i
      rw [cntL_cons] at h1
      simp [findInL, findIn_none i t (by omega), hn]

/-- DETACH: what is taken out and what stays add up to what there was; a miss changes nothing -/
theorem detach_count (s s1 : St) (i : Nat) (x : Option Node) (hnd : ∀ a, cntL a s.roots ≤ 1)
    (h : s.detach i = (s1, x)) :
    s1.next = s.next ∧ s1.handles = s.handles ∧
    (∀ n, x = some n → n.id = i ∧ ∀ a, cntL a s1.roots + cnt a n = cntL a s.roots) ∧
    (x = none → s1 = s) := by
  unfold St.detach at h
  have hdet : ∀ b, cntL b s.detached ≤ 1 := fun b => by have := hnd b; rw [cntL_roots] at this; omega
  split at h
  · next n hF =>
    simp only [Prod.mk.injEq] at h
    obtain ⟨rfl, rfl⟩ := h
    have hid : n.id = i := by
      have := List.find?_some hF
      simpa using this
    refine ⟨rfl, rfl, fun m hm => ?_, fun hx => by simp at hx⟩
    simp only [Option.some.injEq] at hm
    subst hm
    refine ⟨hid, fun a => ?_⟩
    have := filter_root_count i s.detached n hdet hF a
    simp only [cntL_roots]
    omega
  · next hF =>
    split at h
    · next d' n hR =>
      simp only [Prod.mk.injEq] at h
      obtain ⟨rfl, rfl⟩ := h
      have hc := removeIn_count i s.doc d' (some n) hR
      simp only at hc
      refine ⟨rfl, rfl, fun m hm => ?_, fun hx => by simp at hx⟩
      simp only [Option.some.injEq] at hm
      subst hm
      refine ⟨hc.1, fun a => ?_⟩
      have := hc.2 a
      simp only [cntL_roots]; omega
    · next d' hR =>
      split at h
      next det' xr hD =>
      simp only [Prod.mk.injEq] at h
      obtain ⟨rfl, rfl⟩ := h
      have hd := removeInL_count i s.detached det' xr hD
      refine ⟨rfl, rfl, fun m hm => ?_, fun hx => ?_⟩
      · subst hm
        simp only at hd
        refine ⟨hd.1, fun a => ?_⟩
        have := hd.2 a
        simp only [cntL_roots]; omega
      · subst hx
        simp only at hd
        rw [hd]

/-- what `detach` takes out is the node `find` returns (for any node but the document node itself) -/
theorem detach_find (s s1 : St) (i : Nat) (x : Option Node) (hnd : ∀ a, cntL a s.roots ≤ 1)
    (hne : s.doc.id ≠ i) (h : s.detach i = (s1, x)) : s.find i = x := by
  unfold St.detach at h
  have hdet : ∀ b, cntL b s.detached ≤ 1 := fun b => by have := hnd b; rw [cntL_roots] at this; omega
  split at h
  · next n hF =>
    simp only [Prod.mk.injEq] at h
    obtain ⟨_, rfl⟩ := h
    have hfd := find?_root_find i s.detached n hdet hF
    have hpos := findInL_some_mem i s.detached n hfd
    have h1 := hnd i
    rw [cntL_roots] at h1
    simp [St.find, St.roots, findInL, findIn_none i s.doc (by omega), hfd]
  · next hF =>
    split at h
    · next d' n hR =>
      simp only [Prod.mk.injEq] at h
      obtain ⟨_, rfl⟩ := h
      have hf := removeIn_find i s.doc d' (some n) hR hne
      simp [St.find, St.roots, findInL, hf]
    · next d' hR =>
      have hf := removeIn_find i s.doc d' none hR hne
      split at h
      next det' xr hD =>
      simp only [Prod.mk.injEq] at h
      obtain ⟨_, rfl⟩ := h
      have hd := removeInL_find i s.detached det' xr hD
      simp [St.find, St.roots, findInL, hf, hd]

/-! ### insertChild / removeChild -/
theorem insert_core (s s1 : St) (p c : Nat) (x : Node) (r : Option Nat) (hi : Inv s)
    (hd : s.detach c = (s1, some x)) (hp : 0 < cntL p s.roots) (hx : cnt p x = 0) :
    SameIds s (s1.update p (Node.mapKids (insertBeforeL x r))) := by
  obtain ⟨hn, hh, hsome, _⟩ := detach_count s s1 c (some x) hi.1 hd
  obtain ⟨hid, hcnt⟩ := hsome x rfl
  have hnd1 : ∀ a, cntL a s1.roots ≤ 1 := fun a => by have := hcnt a; have := hi.1 a; omega
  have hp1 : 0 < cntL p s1.roots := by have := hcnt p; omega
  obtain ⟨pn, hpn⟩ := findInL_of_pos p s1.roots hp1
  refine ⟨by rw [update_next, hn], fun a => ?_⟩
  have := update_count s1 p (Node.mapKids (insertBeforeL x r)) pn [] (idsOf x) hnd1 hpn
    (fun b => by
      have := cnt_mapKids (insertBeforeL x r) pn b
      rw [cntL_insertBeforeL] at this
      simp only [count_nil]
      show cnt b (Node.mapKids (insertBeforeL x r) pn) + 0 = cnt b pn + cnt b x
      omega) a
  simp only [count_nil] at this
  have h2 := hcnt a
  show cntL a (s1.update p (Node.mapKids (insertBeforeL x r))).roots = cntL a s.roots
  have h3 : count a (idsOf x) = cnt a x := rfl
  omega

theorem insertChild_shape (s : St) (p c : Nat) (ref : Option Nat) :
    (insertChild s p c ref).1 = s ∨
    ∃ pn cn s1 x r', s.find p = some pn ∧ s.find c = some cn ∧ (c == s.doc.id) = false ∧
      s.isAncestorOrSelf c p = false ∧ s.detach c = (s1, some x) ∧
      (insertChild s p c ref).1 = s1.update p (Node.mapKids (insertBeforeL x r')) := by
  unfold insertChild
  repeat' split
  all_goals first
    | exact Or.inl rfl
    | (right
       refine ⟨_, _, _, _, _, by assumption, by assumption, ?_, ?_, by assumption, rfl⟩
       · simp_all
       · simp_all)

theorem not_contains_cnt (l : List Nat) (a : Nat) (h : l.contains a = false) : count a l = 0 := by
  rw [List.count_eq_zero]
  intro hm
  have : l.contains a = true := by simpa using hm
  rw [h] at this; cases this

/-- a successful `insertBefore` / `appendChild` MOVES the node: the forest holds exactly the ids it
    held before (nothing duplicated, nothing lost); a refused one changes nothing -/
theorem insertChild_sameIds (s : St) (p c : Nat) (ref : Option Nat) (hi : Inv s) :
    SameIds s (insertChild s p c ref).1 := by
  rcases insertChild_shape s p c ref with h | ⟨pn, cn, s1, x, r', hp, hc, hdoc, hanc, hd, heq⟩
  · rw [h]; exact SameIds.refl s
  · rw [heq]
    have hne : s.doc.id ≠ c := by
      intro he; rw [he] at hdoc; simp at hdoc
    have hfx := detach_find s s1 c (some x) hi.1 hne hd
    rw [hc] at hfx
    simp only [Option.some.injEq] at hfx
    subst hfx
    have hx : cnt p cn = 0 := by
      unfold St.isAncestorOrSelf at hanc
      rw [hc] at hanc
      exact not_contains_cnt _ _ hanc
    exact insert_core s s1 p c cn r' hi hd (findInL_some_mem p s.roots pn hp) hx

theorem removeChild_shape (s : St) (p c : Nat) :
    (∃ e, removeChild s p c = (s, .err e)) ∨
    ∃ s1 x, s.detach c = (s1, some x) ∧
      removeChild s p c = ({ s1 with detached := s1.detached ++ [x] }, .node c) := by
  unfold removeChild
  repeat' split
  all_goals first
    | exact Or.inl ⟨_, rfl⟩
    | exact Or.inr ⟨_, _, by assumption, rfl⟩

/-- detaching a node and keeping it as a detached tree holds exactly the same ids -/
theorem detach_keep_sameIds (s s1 : St) (c : Nat) (x : Node) (hi : Inv s) (hd : s.detach c = (s1, some x)) :
    SameIds s { s1 with detached := s1.detached ++ [x] } := by
  obtain ⟨hn, _, hsome, _⟩ := detach_count s s1 c (some x) hi.1 hd
  obtain ⟨_, hcnt⟩ := hsome x rfl
  refine ⟨hn, fun a => ?_⟩
  have := hcnt a
  simp only [cntL_roots] at this ⊢
  rw [cntL_append, cntL_cons, cntL_nil]
  omega

theorem removeChild_sameIds (s : St) (p c : Nat) (hi : Inv s) : SameIds s (removeChild s p c).1 := by
  rcases removeChild_shape s p c with ⟨e, h⟩ | ⟨s1, x, hd, heq⟩
  · rw [h]; exact SameIds.refl s
  · rw [heq]; exact detach_keep_sameIds s s1 c x hi hd

theorem Inv.of_sameIds {s s' : St} (hi : Inv s) (h : SameIds s s') : Inv s' := hi.of_noNew h.noNew

end XmlRs.Dom
