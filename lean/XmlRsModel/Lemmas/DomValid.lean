import XmlRsModel.Lemmas.DomHeight
/-! A node-local predicate `Q kind data` that holds of every node of every tree of the state, and the conditions on `Q`
    under which every DOM operation keeps it (used for C15: what every node of a reachable state holds was validated). -/
namespace XmlRs.Dom
open List

variable (Q : Kind → Str → Bool)

mutual
def allQ : Node → Bool
  | .mk _ k d as ks => Q k d && allQL as && allQL ks
def allQL : List Node → Bool
  | [] => true
  | n :: r => allQ n && allQL r
end

/-- every node of the document tree and of every detached tree satisfies `Q` -/
def ValidInv (s : St) : Prop := ∀ t ∈ s.roots, allQ Q t = true

theorem allQL_cons (n : Node) (r : List Node) : allQL Q (n :: r) = (allQ Q n && allQL Q r) := by simp [allQL]

theorem allQL_iff (l : List Node) : allQL Q l = true ↔ ∀ n ∈ l, allQ Q n = true := by
  induction l with
  | nil => simp [allQL]
  | cons x r ih => simp [allQL_cons, ih]

theorem allQL_append (a b : List Node) : allQL Q (a ++ b) = (allQL Q a && allQL Q b) := by
  induction a with
  | nil => simp [allQL]
  | cons x r ih => simp [allQL_cons, ih, Bool.and_assoc]

theorem allQ_mk (j : Nat) (k : Kind) (d : Str) (as ks : List Node) :
    allQ Q (.mk j k d as ks) = (Q k d && allQL Q as && allQL Q ks) := by simp [allQ]

theorem validInv_iff (s : St) : ValidInv Q s ↔ allQ Q s.doc = true ∧ allQL Q s.detached = true := by
  unfold ValidInv St.roots
  rw [allQL_iff]
  constructor
  · intro h; exact ⟨h _ (by simp), fun n hn => h n (by simp [hn])⟩
  · intro ⟨h1, h2⟩ t ht
    rcases List.mem_cons.mp ht with rfl | ht
    · exact h1
    · exact h2 t ht

theorem validInv_roots (s : St) : ValidInv Q s ↔ allQL Q s.roots = true := by
  rw [allQL_iff]; rfl

/-! ### taking a node out -/
mutual
theorem removeIn_allQ (i : Nat) : (t : Node) → allQ Q t = true →
    allQ Q (removeIn i t).1 = true ∧ ∀ x, (removeIn i t).2 = some x → allQ Q x = true
  | .mk j k d as ks, h => by
    simp only [allQ_mk, Bool.and_eq_true] at h
    unfold removeIn
    have ha := removeInL_allQ i as h.1.2
    have hk := removeInL_allQ i ks h.2
    split
    · next as' x hA =>
      rw [hA] at ha
      refine ⟨by simp only [allQ_mk, Bool.and_eq_true]; exact ⟨⟨h.1.1, ha.1⟩, h.2⟩, ?_⟩
      intro y hy; simp only [Option.some.injEq] at hy; subst hy; exact ha.2 x rfl
    · split
      next ks' r hK =>
      rw [hK] at hk
      refine ⟨by simp only [allQ_mk, Bool.and_eq_true]; exact ⟨⟨h.1.1, h.1.2⟩, hk.1⟩, ?_⟩
      intro y hy; simp only at hy; subst hy; exact hk.2 y rfl
theorem removeInL_allQ (i : Nat) : (l : List Node) → allQL Q l = true →
    allQL Q (removeInL i l).1 = true ∧ ∀ x, (removeInL i l).2 = some x → allQ Q x = true
  | [], _ => by simp [removeInL, allQL]
  | n :: r, h => by
    simp only [allQL_cons, Bool.and_eq_true] at h
    unfold removeInL
    split
    · refine ⟨h.2, ?_⟩
      intro x hx; simp only [Option.some.injEq] at hx; subst hx; exact h.1
    · have hn := removeIn_allQ i n h.1
      have hr := removeInL_allQ i r h.2
      split
      · next n' x hN =>
        rw [hN] at hn
        refine ⟨by simp only [allQL_cons, Bool.and_eq_true]; exact ⟨hn.1, h.2⟩, ?_⟩
        intro y hy; simp only [Option.some.injEq] at hy; subst hy; exact hn.2 x rfl
      · split
        next r' x hR =>
        rw [hR] at hr
        refine ⟨by simp only [allQL_cons, Bool.and_eq_true]; exact ⟨h.1, hr.1⟩, ?_⟩
        intro y hy; simp only at hy; subst hy; exact hr.2 y rfl
end

/-! ### finding and updating -/
mutual
theorem findIn_allQ (i : Nat) : (t n : Node) → findIn i t = some n → allQ Q t = true → allQ Q n = true
  | .mk j k d as ks, n, hf, h => by
    simp only [findIn] at hf
    split at hf
    · simp only [Option.some.injEq] at hf; subst hf; exact h
    · simp only [allQ_mk, Bool.and_eq_true] at h
      cases hA : findInL i as with
      | some x => simp [hA] at hf; subst hf; exact findInL_allQ i as x hA h.1.2
      | none => simp [hA] at hf; exact findInL_allQ i ks n hf h.2
theorem findInL_allQ (i : Nat) : (l : List Node) → (n : Node) → findInL i l = some n → allQL Q l = true → allQ Q n = true
  | [], n, hf, _ => by simp [findInL] at hf
  | t :: r, n, hf, h => by
    simp only [allQL_cons, Bool.and_eq_true] at h
    simp only [findInL] at hf
    cases hA : findIn i t with
    | some x => simp [hA] at hf; subst hf; exact findIn_allQ i t x hA h.1
    | none => simp [hA] at hf; exact findInL_allQ i r n hf h.2
end

mutual
theorem updateIn_allQ (i : Nat) (f : Node → Node) (hf : ∀ n, allQ Q n = true → allQ Q (f n) = true) :
    (t : Node) → allQ Q t = true → allQ Q (updateIn i f t) = true
  | .mk j k d as ks, h => by
    unfold updateIn
    split
    · exact hf _ h
    · simp only [allQ_mk, Bool.and_eq_true] at h ⊢
      exact ⟨⟨h.1.1, updateInL_allQ i f hf as h.1.2⟩, updateInL_allQ i f hf ks h.2⟩
theorem updateInL_allQ (i : Nat) (f : Node → Node) (hf : ∀ n, allQ Q n = true → allQ Q (f n) = true) :
    (l : List Node) → allQL Q l = true → allQL Q (updateInL i f l) = true
  | [], _ => by simp [updateInL, allQL]
  | n :: r, h => by
    simp only [allQL_cons, Bool.and_eq_true] at h
    simp only [updateInL, allQL_cons, Bool.and_eq_true]
    exact ⟨updateIn_allQ i f hf n h.1, updateInL_allQ i f hf r h.2⟩
end

theorem insertBeforeL_allQ (x : Node) (ref : Option Nat) (hx : allQ Q x = true) :
    (l : List Node) → allQL Q l = true → allQL Q (insertBeforeL x ref l) = true
  | [], _ => by simp [insertBeforeL, allQL, hx]
  | n :: r, h => by
    simp only [allQL_cons, Bool.and_eq_true] at h
    unfold insertBeforeL
    split
    · split
      · simp only [allQL_cons, Bool.and_eq_true]; exact ⟨hx, h.1, h.2⟩
      · simp only [allQL_cons, Bool.and_eq_true]; exact ⟨h.1, insertBeforeL_allQ x _ hx r h.2⟩
    · simp only [allQL_cons, Bool.and_eq_true]; exact ⟨h.1, insertBeforeL_allQ x _ hx r h.2⟩

theorem allQL_filter (p : Node → Bool) (l : List Node) (h : allQL Q l = true) : allQL Q (l.filter p) = true := by
  rw [allQL_iff] at h ⊢
  intro n hn; exact h n (List.mem_filter.mp hn).1

/-! ### the state-level operations -/
theorem ValidInv.same {s s' : St} (h : ValidInv Q s) (e1 : s'.doc = s.doc) (e2 : s'.detached = s.detached) : ValidInv Q s' := by
  unfold ValidInv St.roots at *; rw [e1, e2]; exact h

theorem ValidInv.add_detached {s : St} (h : ValidInv Q s) (l : List Node) (hl : allQL Q l = true) (nx : Nat) (hs : List (Option Nat)) :
    ValidInv Q { s with detached := s.detached ++ l, next := nx, handles := hs } := by
  rw [validInv_iff] at h ⊢
  exact ⟨h.1, by simp only [allQL_append, Bool.and_eq_true]; exact ⟨h.2, hl⟩⟩

theorem ValidInv.handles {s : St} (h : ValidInv Q s) (hs : List (Option Nat)) : ValidInv Q { s with handles := hs } := h.same Q rfl rfl
theorem ValidInv.next {s : St} (h : ValidInv Q s) (nx : Nat) : ValidInv Q { s with next := nx } := h.same Q rfl rfl

theorem detach_valid (s s1 : St) (i : Nat) (x : Option Node) (h : s.detach i = (s1, x)) (hi : ValidInv Q s) :
    ValidInv Q s1 ∧ ∀ n, x = some n → allQ Q n = true := by
  rw [validInv_iff] at hi ⊢
  unfold St.detach at h
  split at h
  · next n hf =>
    simp only [Prod.mk.injEq] at h; obtain ⟨rfl, rfl⟩ := h
    refine ⟨⟨hi.1, allQL_filter Q _ _ hi.2⟩, ?_⟩
    intro m hm; simp only [Option.some.injEq] at hm; subst hm
    exact (allQL_iff Q _).mp hi.2 _ (List.mem_of_find?_eq_some hf)
  · split at h
    · next d' n hR =>
      simp only [Prod.mk.injEq] at h; obtain ⟨rfl, rfl⟩ := h
      have hh := removeIn_allQ Q i s.doc hi.1
      rw [hR] at hh
      refine ⟨⟨hh.1, hi.2⟩, ?_⟩
      intro m hm; simp only [Option.some.injEq] at hm; subst hm
      exact hh.2 n rfl
    · split at h
      next det' y hR =>
      simp only [Prod.mk.injEq] at h; obtain ⟨rfl, rfl⟩ := h
      have hh := removeInL_allQ Q i s.detached hi.2
      rw [hR] at hh
      refine ⟨⟨hi.1, hh.1⟩, ?_⟩
      intro m hm; subst hm
      exact hh.2 m rfl

theorem update_valid (s : St) (i : Nat) (f : Node → Node) (hf : ∀ n, allQ Q n = true → allQ Q (f n) = true)
    (hi : ValidInv Q s) : ValidInv Q (s.update i f) := by
  rw [validInv_iff] at hi ⊢
  exact ⟨updateIn_allQ Q i f hf s.doc hi.1, updateInL_allQ Q i f hf s.detached hi.2⟩

theorem found_valid (s : St) (hi : ValidInv Q s) (i : Nat) (n : Node) (hf : s.find i = some n) : allQ Q n = true :=
  findInL_allQ Q i s.roots n hf ((validInv_roots Q s).mp hi)

theorem fresh_valid (s : St) (k : Kind) (d : Str) (hq : Q k d = true) (hi : ValidInv Q s) : ValidInv Q (s.fresh k d).1 := by
  unfold St.fresh
  exact hi.add_detached Q _ (by simp [allQL, allQ, hq]) _ _

theorem mapKids_allQ (g : List Node → List Node) (hg : ∀ ks, allQL Q ks = true → allQL Q (g ks) = true) (n : Node)
    (h : allQ Q n = true) : allQ Q (n.mapKids g) = true := by
  cases n with
  | mk j k d as ks =>
    simp only [Node.mapKids, allQ_mk, Bool.and_eq_true] at h ⊢
    exact ⟨h.1, hg ks h.2⟩

theorem mapAttrs_allQ (g : List Node → List Node) (hg : ∀ ks, allQL Q ks = true → allQL Q (g ks) = true) (n : Node)
    (h : allQ Q n = true) : allQ Q (n.mapAttrs g) = true := by
  cases n with
  | mk j k d as ks =>
    simp only [Node.mapAttrs, allQ_mk, Bool.and_eq_true] at h ⊢
    exact ⟨⟨h.1.1, hg as h.1.2⟩, h.2⟩

theorem withData_allQ (d' : Str) (n : Node) (hq : Q n.kind d' = true) (h : allQ Q n = true) : allQ Q (n.withData d') = true := by
  cases n with
  | mk j k d as ks =>
    simp only [Node.withData, Node.kind, allQ_mk, Bool.and_eq_true] at h hq ⊢
    exact ⟨⟨hq, h.1.2⟩, h.2⟩

theorem kids_allQ (n : Node) (h : allQ Q n = true) : allQL Q n.kids = true := by
  cases n; simp only [allQ_mk, Bool.and_eq_true, Node.kids] at h ⊢; exact h.2

theorem own_Q (n : Node) (h : allQ Q n = true) : Q n.kind n.data = true := by
  cases n; simp only [allQ_mk, Bool.and_eq_true, Node.kind, Node.data] at h ⊢; exact h.1.1

theorem detachKeep_valid (s : St) (i : Nat) (hh : ValidInv Q s) : ValidInv Q (s.detachKeep i) := by
  unfold St.detachKeep
  cases hd : s.detach i with
  | mk s1 x =>
    obtain ⟨hh1, hx⟩ := detach_valid Q s s1 i x hd hh
    cases x with
    | none => exact hh1
    | some n =>
      have := hh1.add_detached Q [n] (by simp [allQL, hx n rfl]) s1.next s1.handles
      exact this.same Q rfl rfl

theorem detachAll_valid (l : List Nat) : ∀ (s : St), ValidInv Q s → ValidInv Q (s.detachAll l) := by
  induction l with
  | nil => intro s h; exact h
  | cons i r ih => intro s h; exact ih _ (detachKeep_valid Q s i h)

theorem insertChild_valid (s : St) (p c : Nat) (ref : Option Nat) (hh : ValidInv Q s) : ValidInv Q (insertChild s p c ref).1 := by
  rcases insertChild_shape3 s p c ref with h | ⟨pn, s1, x, r, hp, hd, htd, heq⟩
  · rw [h]; exact hh
  · rw [heq]
    obtain ⟨hh1, hx⟩ := detach_valid Q s s1 c (some x) hd hh
    exact update_valid Q s1 p _ (mapKids_allQ Q _ (insertBeforeL_allQ Q x r (hx x rfl))) hh1

theorem removeChild_valid (s : St) (p c : Nat) (hh : ValidInv Q s) : ValidInv Q (removeChild s p c).1 := by
  rcases removeChild_shape s p c with ⟨e, h⟩ | ⟨s1, x, hd, heq⟩
  · rw [h]; exact hh
  · rw [heq]
    obtain ⟨hh1, hx⟩ := detach_valid Q s s1 c (some x) hd hh
    have := hh1.add_detached Q [x] (by simp [allQL, hx x rfl]) s1.next s1.handles
    exact this.same Q rfl rfl

end XmlRs.Dom
