import XmlRsModel.Lemmas.RunsDtdItems
/-! Completeness of element declarations: content models (choice / sequence groups with occurrence indicators, mixed
    content). -/
namespace XmlRs.Lex
open XmlRs Gen.Xml XmlRs.Names

def occG : G := G.alt [G.alt [G.tag ['?'], G.tag ['*'], G.tag ['+']], G.seq []]

def cstOcc : Occ → CST
  | .one => .seq []
  | .opt => .leaf ['?']
  | .star => .leaf ['*']
  | .plus => .leaf ['+']

abbrev occOrName (c : Char) : Bool := P.isNameChar c || c == '?' || c == '*' || c == '+'

theorem runs_occ (o : Occ) (Y : Str) (hY : o = .one → Stops occOrName Y) : Runs env occG (o.str ++ Y) (.ok (cstOcc o) Y) := by
  unfold occG
  cases o with
  | one =>
    have h := hY rfl
    have h1 : Stops (· == '?') Y := h.mono fun c hc => by simp only [occOrName, Bool.or_eq_false_iff] at hc; exact hc.1.1.2
    have h2 : Stops (· == '*') Y := h.mono fun c hc => by simp only [occOrName, Bool.or_eq_false_iff] at hc; exact hc.1.2
    have h3 : Stops (· == '+') Y := h.mono fun c hc => by simp only [occOrName, Bool.or_eq_false_iff] at hc; exact hc.2
    simp only [Occ.str, List.nil_append, cstOcc]
    exact Runs.opt_none (Runs.alt (RunsAlt.skip (runs_tag_fail_head h1) (RunsAlt.skip (runs_tag_fail_head h2)
      (RunsAlt.skip (runs_tag_fail_head h3) (RunsAlt.nil _)))))
  | opt => exact Runs.opt_some (Runs.alt (RunsAlt.hit (Runs.tag_ok ['?'] Y)))
  | star => exact Runs.opt_some (Runs.alt (RunsAlt.skip (Runs.tag_fail (strip_cons_ne _ _ (by decide))) (RunsAlt.hit (Runs.tag_ok ['*'] Y))))
  | plus => exact Runs.opt_some (Runs.alt (RunsAlt.skip (Runs.tag_fail (strip_cons_ne _ _ (by decide)))
      (RunsAlt.skip (Runs.tag_fail (strip_cons_ne _ _ (by decide))) (RunsAlt.hit (Runs.tag_ok ['+'] Y)))))

def sepG (ch : Bool) : G := G.seq [G.cls0 P.isSpace, G.tag [sepChar ch], G.cls0 P.isSpace]
def cstSep (ch : Bool) (a b : Str) : CST := .seq [.leaf a, .leaf [sepChar ch], .leaf b]

theorem sp_sep (ch : Bool) : P.isSpace (sepChar ch) = false := by cases ch <;> decide
theorem occ_sep (ch : Bool) : occOrName (sepChar ch) = false := by cases ch <;> decide
theorem occ_rpar : occOrName ')' = false := by decide
theorem occ_gt : occOrName '>' = false := by decide

theorem runs_sep (ch : Bool) {a b Y : Str} (ha : okWs a = true) (hb : okWs b = true) (hY : Stops P.isSpace Y) :
    Runs env (sepG ch) (a ++ (sepChar ch :: (b ++ Y))) (.ok (cstSep ch a b) Y) :=
  Runs.seq (RunsSeq.cons (runs_cls0 ha (Stops.cons _ (sp_sep ch))) (RunsSeq.cons (Runs.tag_ok [sepChar ch] _) (RunsSeq.cons (runs_cls0 hb hY) (RunsSeq.nil _))))

theorem sep_fails_at_rpar (ch : Bool) {w : Str} (hw : okWs w = true) (Y : Str) : Runs env (sepG ch) (w ++ ')' :: Y) .fail :=
  Runs.seq_fail (RunsSeq.fail_tail (runs_cls0 hw (Stops.cons _ sp_rpar)) (RunsSeq.fail_head (Runs.tag_fail (strip_cons_ne _ _ (by cases ch <;> decide)))))

/-- the tree of a group: after the first particle either `(sep cp) (sep cp)*` (choice) or `(sep cp)*` (sequence) -/
def groupMid (ch : Bool) (tl : List CST) : CST :=
  if ch then (match tl with | [] => .many [] | x :: xs => .seq [x, .many xs]) else .many tl

def mkGroupBody (w0 : Str) (cf : CST) (ch : Bool) (tl : List CST) (w1 : Str) (o : Occ) : CST :=
  .node N.children_body (.seq [
    .node N.group (.seq [.seq [.leaf ['('], .leaf w0], .seq [cf, groupMid ch tl], .seq [.leaf w1, .leaf [')']]]),
    cstOcc o])

mutual
def cstCp : CCp → CST
  | .name n o => .node N.cp (.seq [cstQN n, cstOcc o])
  | .group w0 f ch rest w1 o => .node N.cp (.node N.children (mkGroupBody w0 (cstCp f) ch (cstTail ch rest) w1 o))
def cstTail (ch : Bool) : CCpTail → List CST
  | .nil => []
  | .cons a b p t => .seq [cstSep ch a b, cstCp p] :: cstTail ch t
end

theorem cstCp_group (w0 : Str) (f : CCp) (ch : Bool) (rest : CCpTail) (w1 : Str) (o : Occ) :
    cstCp (.group w0 f ch rest w1 o) = .node N.cp (.node N.children (mkGroupBody w0 (cstCp f) ch (cstTail ch rest) w1 o)) := by
  rw [cstCp]

/-- the first character of a content particle: `(` or the beginning of a name -/
theorem cp_head (p : CCp) (h : okCp p = true) : ∃ c t, p.str = c :: t ∧ P.isSpace c = false ∧ c ≠ '#' ∧ c ≠ '|' ∧ c ≠ ',' := by
  cases p with
  | name n o =>
    simp only [okCp] at h
    obtain ⟨c, t, e, hc⟩ := okQN_text_head h
    refine ⟨c, t ++ o.str, by simp [CCp.str, e], sp_of_ns hc, ?_, ?_, ?_⟩ <;> (intro e'; subst e'; revert hc; decide)
  | group w0 f ch rest w1 o => exact ⟨'(', _, rfl, by decide, by decide, by decide, by decide⟩

/-- what can follow a content particle inside a group -/
def CpEnd (Y : Str) : Prop := Stops occOrName Y

theorem cpEnd_ws_then {w : Str} (hw : okWs w = true) {c : Char} (hc : occOrName c = false) (Y : Str) : CpEnd (w ++ c :: Y) := by
  cases w with
  | nil => exact Stops.cons _ hc
  | cons d ds =>
    simp only [okWs, List.all_cons, Bool.and_eq_true] at hw
    apply Stops.cons
    have hd := C15.space_cases d hw.1
    rcases hd with rfl | rfl | rfl | rfl <;> decide

theorem cpEnd_tail (ch : Bool) (t : CCpTail) (h : okTail t = true) {w1 : Str} (hw : okWs w1 = true) (Y : Str) :
    CpEnd (CCpTail.str ch t ++ (w1 ++ ')' :: Y)) := by
  cases t with
  | nil => simpa [CCpTail.str] using cpEnd_ws_then hw occ_rpar Y
  | cons a b p t' =>
    simp only [okTail, Bool.and_eq_true] at h
    simp only [CCpTail.str, List.append_assoc, List.cons_append]
    exact cpEnd_ws_then h.1.1.1 (occ_sep ch) _

theorem cpEnd_nc {Y : Str} (h : CpEnd Y) : Stops P.isNameChar Y :=
  h.mono fun c hc => by simp only [occOrName, Bool.or_eq_false_iff] at hc; exact hc.1.1.1

theorem okGroup_parts {w0 : Str} {f : CCp} {ch : Bool} {rest : CCpTail} {w1 : Str} {o : Occ} (h : okCp (.group w0 f ch rest w1 o) = true) :
    okWs w0 = true ∧ okCp f = true ∧ okTail rest = true ∧ okWs w1 = true ∧ (ch = true → rest ≠ .nil) := by
  simp only [okCp, Bool.and_eq_true, Bool.or_eq_true, Bool.not_eq_true'] at h
  obtain ⟨⟨⟨⟨h1, h2⟩, h3⟩, h4⟩, h5⟩ := h
  refine ⟨h1, h2, h3, h4, ?_⟩
  intro hc e
  subst hc e
  simp at h5

def groupMidG : G :=
  G.alt [G.seq [G.seq [sepG true, G.nt N.cp], G.many0 (G.seq [sepG true, G.nt N.cp])], G.many0 (G.seq [sepG false, G.nt N.cp])]

/-- assembling a group from its parts -/
theorem group_assemble (w0 : Str) (f : CCp) (w1 : Str) (o : Occ) (mid : CST) (T : Str) (h0 : okWs w0 = true) (hf : okCp f = true)
    (h1 : okWs w1 = true) (Y : Str) (hY : CpEnd Y)
    (hfirst : Runs env (.nt N.cp) (f.str ++ (T ++ (w1 ++ ')' :: (o.str ++ Y)))) (.ok (cstCp f) (T ++ (w1 ++ ')' :: (o.str ++ Y)))))
    (hmid : Runs env groupMidG (T ++ (w1 ++ ')' :: (o.str ++ Y))) (.ok mid (w1 ++ ')' :: (o.str ++ Y)))) :
    Runs env (.nt N.children_body) ('(' :: (w0 ++ (f.str ++ (T ++ (w1 ++ ')' :: (o.str ++ Y))))))
      (.ok (.node N.children_body (.seq [.node N.group (.seq [.seq [.leaf ['('], .leaf w0], .seq [cstCp f, mid], .seq [.leaf w1, .leaf [')']]]), cstOcc o])) Y) := by
  have e40 : [Char.ofNat 40] = ['('] := rfl
  have e41 : [Char.ofNat 41] = [')'] := rfl
  have e124 : [Char.ofNat 124] = [sepChar true] := rfl
  have e44 : [Char.ofNat 44] = [sepChar false] := rfl
  apply Runs.nt_of env_children_body
  unfold Prod.children_body
  refine Runs.seq (RunsSeq.cons ?_ (RunsSeq.cons (runs_occ o Y (fun _ => hY)) (RunsSeq.nil _)))
  apply Runs.nt_of env_group
  unfold Prod.group
  rw [e40, e41, e124, e44]
  obtain ⟨c, t, ec, hc1, _, _, _⟩ := cp_head f hf
  have hopen : Runs env (.seq [.tag ['('], .cls0 P.isSpace]) ('(' :: (w0 ++ (f.str ++ (T ++ (w1 ++ ')' :: (o.str ++ Y))))))
      (.ok (.seq [.leaf ['('], .leaf w0]) (f.str ++ (T ++ (w1 ++ ')' :: (o.str ++ Y))))) := by
    refine Runs.seq (RunsSeq.cons (Runs.tag_ok ['('] _) (RunsSeq.cons (runs_cls0 h0 ?_) (RunsSeq.nil _)))
    rw [ec]; exact Stops.cons _ hc1
  have hclose : Runs env (.seq [.cls0 P.isSpace, .tag [')']]) (w1 ++ ')' :: (o.str ++ Y)) (.ok (.seq [.leaf w1, .leaf [')']]) (o.str ++ Y)) :=
    Runs.seq (RunsSeq.cons (runs_cls0 h1 (Stops.cons _ sp_rpar)) (RunsSeq.cons (Runs.tag_ok [')'] _) (RunsSeq.nil _)))
  unfold groupMidG sepG at hmid
  exact Runs.seq (RunsSeq.cons hopen (RunsSeq.cons (Runs.seq (RunsSeq.cons hfirst (RunsSeq.cons hmid (RunsSeq.nil _)))) (RunsSeq.cons hclose (RunsSeq.nil _))))

theorem group_str (w0 : Str) (f : CCp) (ch : Bool) (rest : CCpTail) (w1 : Str) (o : Occ) (Y : Str) :
    (CCp.group w0 f ch rest w1 o).str ++ Y = '(' :: (w0 ++ (f.str ++ (CCpTail.str ch rest ++ (w1 ++ ')' :: (o.str ++ Y))))) := by
  simp [CCp.str]

mutual
theorem runs_cp : ∀ (p : CCp), okCp p = true → ∀ Y : Str, CpEnd Y → Runs env (.nt N.cp) (p.str ++ Y) (.ok (cstCp p) Y)
  | .name n o, h, Y, hY => by
    simp only [okCp] at h
    obtain ⟨c, t, e, hc⟩ := okQN_text_head h
    have hch : Runs env (.nt N.children) ((CCp.name n o).str ++ Y) .fail := by
      apply Runs.nt_fail_of env_children
      unfold Prod.children
      apply Runs.nt_fail_of env_children_body
      unfold Prod.children_body
      refine Runs.seq_fail (RunsSeq.fail_head ?_)
      apply Runs.nt_fail_of env_group
      unfold Prod.group
      refine Runs.seq_fail (RunsSeq.fail_head (Runs.seq_fail (RunsSeq.fail_head (Runs.tag_fail ?_))))
      simp only [CCp.str, e, List.cons_append]
      exact strip_cons_ne _ _ (by intro e'; subst e'; revert hc; decide)
    apply Runs.nt_of env_cp
    unfold Prod.cp
    refine Runs.alt (RunsAlt.skip hch (RunsAlt.hit ?_))
    have hst : Stops P.isNameChar (o.str ++ Y) := by
      cases o with
      | one => simpa [Occ.str] using cpEnd_nc hY
      | opt => exact Stops.cons _ (by decide)
      | star => exact Stops.cons _ (by decide)
      | plus => exact Stops.cons _ (by decide)
    simp only [CCp.str, List.append_assoc]
    exact Runs.seq (RunsSeq.cons (runs_qname h hst) (RunsSeq.cons (runs_occ o Y (fun _ => hY)) (RunsSeq.nil _)))
  | .group w0 f ch rest w1 o, h, Y, hY => by
    rw [cstCp_group]
    apply Runs.nt_of env_cp
    unfold Prod.cp
    refine Runs.alt (RunsAlt.hit ?_)
    apply Runs.nt_of env_children
    unfold Prod.children
    exact runs_children_body w0 f ch rest w1 o h Y hY
termination_by p => 2 * sizeOf p
decreasing_by all_goals simp_wf; omega
theorem runs_children_body : ∀ (w0 : Str) (f : CCp) (ch : Bool) (rest : CCpTail) (w1 : Str) (o : Occ),
    okCp (.group w0 f ch rest w1 o) = true → ∀ Y : Str, CpEnd Y →
    Runs env (.nt N.children_body) ((CCp.group w0 f ch rest w1 o).str ++ Y)
      (.ok (mkGroupBody w0 (cstCp f) ch (cstTail ch rest) w1 o) Y)
  | w0, f, true, .nil, w1, o, h, Y, hY => by
    obtain ⟨_, _, _, _, hch⟩ := okGroup_parts h
    exact absurd rfl (hch rfl)
  | w0, f, true, .cons a b p t, w1, o, h, Y, hY => by
    obtain ⟨h0, hf, hr, h1, _⟩ := okGroup_parts h
    simp only [okTail, Bool.and_eq_true] at hr
    obtain ⟨⟨⟨ha, hb⟩, hp⟩, ht⟩ := hr
    have hr' : okTail (.cons a b p t) = true := by simp [okTail, ha, hb, hp, ht]
    obtain ⟨c', t', ec', hc1', _, _, _⟩ := cp_head p hp
    have hsep : Runs env (sepG true) (a ++ (sepChar true :: (b ++ (p.str ++ (CCpTail.str true t ++ (w1 ++ ')' :: (o.str ++ Y)))))))
        (.ok (cstSep true a b) (p.str ++ (CCpTail.str true t ++ (w1 ++ ')' :: (o.str ++ Y))))) :=
      runs_sep true ha hb (by rw [ec']; exact Stops.cons _ hc1')
    have hp' := runs_cp p hp (CCpTail.str true t ++ (w1 ++ ')' :: (o.str ++ Y))) (cpEnd_tail true t ht h1 _)
    have hloop := runs_tail true t ht w1 (o.str ++ Y) h1
    have hfirst := runs_cp f hf (CCpTail.str true (.cons a b p t) ++ (w1 ++ ')' :: (o.str ++ Y))) (cpEnd_tail true _ hr' h1 _)
    rw [group_str]
    unfold mkGroupBody groupMid
    simp only [if_true, cstTail]
    refine group_assemble w0 f w1 o _ (CCpTail.str true (.cons a b p t)) h0 hf h1 Y hY hfirst ?_
    unfold groupMidG
    simp only [CCpTail.str, List.append_assoc, List.cons_append]
    exact Runs.alt (RunsAlt.hit (Runs.seq (RunsSeq.cons (Runs.seq (RunsSeq.cons hsep (RunsSeq.cons hp' (RunsSeq.nil _))))
      (RunsSeq.cons (Runs.many hloop) (RunsSeq.nil _)))))
  | w0, f, false, rest, w1, o, h, Y, hY => by
    obtain ⟨h0, hf, hr, h1, _⟩ := okGroup_parts h
    have hloop := runs_tail false rest hr w1 (o.str ++ Y) h1
    have hfirst := runs_cp f hf (CCpTail.str false rest ++ (w1 ++ ')' :: (o.str ++ Y))) (cpEnd_tail false rest hr h1 _)
    rw [group_str]
    unfold mkGroupBody groupMid
    simp only [Bool.false_eq_true, if_false]
    refine group_assemble w0 f w1 o _ (CCpTail.str false rest) h0 hf h1 Y hY hfirst ?_
    unfold groupMidG
    refine Runs.alt (RunsAlt.skip ?_ (RunsAlt.hit (Runs.many hloop)))
    -- the choice alternative fails: no `|` follows the first particle
    refine Runs.seq_fail (RunsSeq.fail_head (Runs.seq_fail (RunsSeq.fail_head ?_)))
    cases rest with
    | nil => simpa [CCpTail.str] using sep_fails_at_rpar true h1 (o.str ++ Y)
    | cons a b p t =>
      simp only [okTail, Bool.and_eq_true] at hr
      simp only [CCpTail.str, List.append_assoc, List.cons_append]
      exact Runs.seq_fail (RunsSeq.fail_tail (runs_cls0 hr.1.1.1 (Stops.cons _ (sp_sep false)))
        (RunsSeq.fail_head (Runs.tag_fail (strip_cons_ne _ _ (by decide)))))
termination_by w0 f ch rest => 2 * (sizeOf f + sizeOf rest) + 1
decreasing_by all_goals simp_wf; omega
theorem runs_tail : ∀ (ch : Bool) (t : CCpTail), okTail t = true → ∀ (w1 Y : Str), okWs w1 = true →
    RunsMany env (.seq [sepG ch, .nt N.cp]) (CCpTail.str ch t ++ (w1 ++ ')' :: Y)) (.ok (cstTail ch t) (w1 ++ ')' :: Y))
  | ch, .nil, _, w1, Y, hw => by
    simp only [CCpTail.str, List.nil_append, cstTail]
    exact RunsMany.stop (Runs.seq_fail (RunsSeq.fail_head (sep_fails_at_rpar ch hw Y)))
  | ch, .cons a b p t, h, w1, Y, hw => by
    simp only [okTail, Bool.and_eq_true] at h
    obtain ⟨⟨⟨ha, hb⟩, hp⟩, ht⟩ := h
    obtain ⟨c', t', ec', hc1', _, _, _⟩ := cp_head p hp
    have hsep : Runs env (sepG ch) (a ++ (sepChar ch :: (b ++ (p.str ++ (CCpTail.str ch t ++ (w1 ++ ')' :: Y))))))
        (.ok (cstSep ch a b) (p.str ++ (CCpTail.str ch t ++ (w1 ++ ')' :: Y)))) :=
      runs_sep ch ha hb (by rw [ec']; exact Stops.cons _ hc1')
    have hp' := runs_cp p hp (CCpTail.str ch t ++ (w1 ++ ')' :: Y)) (cpEnd_tail ch t ht hw Y)
    have ih := runs_tail ch t ht w1 Y hw
    simp only [CCpTail.str, List.append_assoc, List.cons_append, cstTail]
    refine RunsMany.step (r := CCpTail.str ch t ++ (w1 ++ ')' :: Y)) ?_ ?_ ih
    · exact Runs.seq (RunsSeq.cons hsep (RunsSeq.cons hp' (RunsSeq.nil _)))
    · simp only [List.length_append, List.length_cons]; omega
termination_by ch t => 2 * sizeOf t
decreasing_by all_goals simp_wf; omega
end

end XmlRs.Lex
