import XmlRsModel.Lemmas.XRunsMain
/-! Reading the trees of concrete XPath expressions back: token-level facts about `sigToks` and the leaf productions. -/
namespace XmlRs.XLex
open XmlRs XmlRs.XPath XmlRs.Lex
open Gen.XPath

theorem isWsStr_eq (w : Str) : isWsStr w = okWs w := rfl

theorem sig_leaf_ws {w : Str} (h : okWs w = true) : sigToks (.leaf w) = [] := by
  unfold sigToks
  simp only [CST.toks]
  split
  · rfl
  · simp [isWsStr_eq, h]

theorem sig_leaf_tok {s : Str} (hne : s ≠ []) (hnw : isWsStr s = false) : sigToks (.leaf s) = [.leaf s] := by
  unfold sigToks
  have : s.isEmpty = false := by simpa using hne
  simp [CST.toks, this, hnw]

theorem sig_node (n : Nat) (c : CST) : sigToks (.node n c) = [.node n c] := by
  simp [sigToks, CST.toks]

theorem sig_seq_nil : sigToks (.seq []) = [] := by simp [sigToks, CST.toks, toksL]
theorem sig_many_nil : sigToks (.many []) = [] := by simp [sigToks, CST.toks, toksL]

theorem sig_seq_cons (c : CST) (cs : List CST) : sigToks (.seq (c :: cs)) = sigToks c ++ sigToks (.seq cs) := by
  simp [sigToks, CST.toks, toksL]

theorem sig_many_cons (c : CST) (cs : List CST) : sigToks (.many (c :: cs)) = sigToks c ++ sigToks (.many cs) := by
  simp [sigToks, CST.toks, toksL]

theorem sig_many_eq_seq (cs : List CST) : sigToks (.many cs) = sigToks (.seq cs) := by simp [sigToks, CST.toks]

/-- the token of an operator / punctuation leaf -/
theorem sig_op (op : BinOp) : sigToks (.leaf (opText op)) = [.leaf (opText op)] := by
  cases op <;> exact sig_leaf_tok (by decide) (by decide)

theorem sig_slash (ds : Bool) : sigToks (.leaf (slashText ds)) = [.leaf (slashText ds)] := by
  cases ds <;> exact sig_leaf_tok (by decide) (by decide)

/-! ### names -/
def ncBodyX (a : Str) : CST := .seq [.leaf (a.take 1), if a.drop 1 = [] then .seq [] else .leaf (a.drop 1)]
theorem cstNcX_eq (a : Str) : cstNc a = .node N.ncname (ncBodyX a) := rfl

theorem ncBodyX_flatten (a : Str) : (ncBodyX a).flatten = a := by
  have key := List.take_append_drop 1 a
  simp only [ncBodyX, CST.flatten, flattenL]
  split
  · next h => simp only [CST.flatten, flattenL, List.append_nil]; rw [h, List.append_nil] at key; exact key
  · simp only [CST.flatten, List.append_nil]; exact key

theorem ncBodyX_kidsL (a : Str) : (ncBodyX a).kidsL = [] := by
  simp only [ncBodyX, CST.kidsL, kidsLL]
  split <;> simp [CST.kidsL, kidsLL]

theorem cstQNX_node (q : QN) : ∃ b, cstQN q = .node N.qname b ∧ absQ b = q := by
  obtain ⟨pre, loc⟩ := q
  cases pre with
  | none =>
    refine ⟨cstNc loc, rfl, ?_⟩
    simp [absQ, absQName, cstNcX_eq, CST.kidsL, ncBodyX_kidsL, ncBodyX_flatten]
  | some p =>
    refine ⟨.node N.prefixed_name (.seq [cstNc p, .seq [.leaf [':'], cstNc loc]]), rfl, ?_⟩
    simp [absQ, absQName, cstNcX_eq, CST.kidsL, kidsLL, ncBodyX_flatten]

/-! ### literals and numbers -/
def litBody (q : Char) (s : Str) : CST := .seq [.leaf [q], .leaf s, .leaf [q]]
theorem cstLit_eq (q : Char) (s : Str) : cstLit q s = .node N.literal (litBody q s) := rfl

theorem absLiteral_lit (q : Char) (s : Str) : absLiteral (litBody q s) = s := by
  simp [absLiteral, litBody, CST.flatten, flattenL]

theorem cstNum_node {s : Str} (h : okNumber s = true) : ∃ nb, cstNum s = .node N.number nb ∧ nb.flatten = s := by
  have hsplit := spanP_append P.isDigit s
  unfold cstNum
  rcases okNumber_cases h with ⟨hb, _⟩ | ⟨r, hb, _, _⟩
  · rw [hb] at hsplit ⊢
    simp only [List.append_nil] at hsplit
    exact ⟨.seq [.leaf (spanP P.isDigit s).1, .seq []], rfl, by simp [CST.flatten, flattenL, hsplit]⟩
  · rw [hb] at hsplit ⊢
    simp only [numCst]
    split
    · next ha => exact ⟨_, rfl, by rw [ha] at hsplit; simpa [CST.flatten, flattenL] using hsplit⟩
    · exact ⟨_, rfl, by simpa [CST.flatten, flattenL] using hsplit⟩

end XmlRs.XLex
