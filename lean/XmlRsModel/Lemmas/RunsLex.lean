import XmlRsModel.Concrete
import XmlRsModel.Lemmas.Runs
import XmlRsModel.Lemmas.Names
import XmlRsModel.Thm.C18
/-! Completeness of the lexical productions of the generated XML grammar, in the fuel-free reading `Runs`:
    white space, names, references, attribute values, attributes.  Every lemma says: the text of a well-formed
    piece of concrete syntax, followed by anything that cannot continue it, is parsed to exactly this tree,
    leaving exactly that rest. -/
namespace XmlRs.Lex
open XmlRs Gen.Xml XmlRs.Names

/-- `r` cannot continue a run of `p` characters -/
def Stops (p : Char → Bool) (r : Str) : Prop := r = [] ∨ ∃ c r', r = c :: r' ∧ p c = false

theorem Stops.cons {p : Char → Bool} {c : Char} (r : Str) (h : p c = false) : Stops p (c :: r) := .inr ⟨c, r, rfl, h⟩
theorem Stops.nil {p : Char → Bool} : Stops p [] := .inl rfl

theorem Stops.mono {p q : Char → Bool} {r : Str} (h : Stops p r) (hpq : ∀ c, p c = false → q c = false) : Stops q r := by
  rcases h with rfl | ⟨c, r', rfl, hc⟩
  · exact .inl rfl
  · exact .inr ⟨c, r', rfl, hpq c hc⟩

theorem span_stop {p : Char → Bool} {s r : Str} (hs : s.all p = true) (hr : Stops p r) : spanP p (s ++ r) = (s, r) :=
  spanP_of_all p s r hs hr

theorem span_append_stops (p : Char → Bool) {r : Str} (hr : Stops p r) : ∀ s : Str,
    spanP p (s ++ r) = ((spanP p s).1, (spanP p s).2 ++ r)
  | [] => by
    rcases hr with rfl | ⟨c, r', rfl, hc⟩
    · simp [spanP]
    · simp [spanP, hc]
  | a :: as => by
    simp only [List.cons_append, spanP]
    split
    · simp [span_append_stops p hr as]
    · simp

theorem span_nil_of_stops {p : Char → Bool} {r : Str} (hr : Stops p r) : spanP p r = ([], r) := by
  have := span_append_stops p hr []
  simpa [spanP] using this

/-! ### character classes with a known split -/
theorem runs_cls0 {env : Env} {p : Char → Bool} {s r : Str} (hs : s.all p = true) (hr : Stops p r) :
    Runs env (.cls0 p) (s ++ r) (.ok (.leaf s) r) := by
  have := Runs.cls0 (env := env) p (s ++ r)
  rwa [span_stop hs hr] at this

theorem runs_cls1 {env : Env} {p : Char → Bool} {s r : Str} (hne : s ≠ []) (hs : s.all p = true) (hr : Stops p r) :
    Runs env (.cls1 p) (s ++ r) (.ok (.leaf s) r) := by
  have := Runs.cls1_ok (env := env) (p := p) (s := s ++ r) (by rw [span_stop hs hr]; exact hne)
  rwa [span_stop hs hr] at this

theorem runs_cls1_fail {env : Env} {p : Char → Bool} {r : Str} (hr : Stops p r) : Runs env (.cls1 p) r .fail :=
  Runs.cls1_fail (by rw [span_nil_of_stops hr])

theorem strip_cons_ne {c d : Char} (t r : Str) (h : c ≠ d) : stripPrefix (c :: t) (d :: r) = none := by
  simp [stripPrefix, h]

theorem strip_nil (c : Char) (t : Str) : stripPrefix (c :: t) [] = none := rfl

/-- a tag whose first character differs from the first character of the input (or the input is empty) fails -/
theorem runs_tag_fail_head {env : Env} {c : Char} {t : Str} {r : Str} (h : Stops (· == c) r) : Runs env (.tag (c :: t)) r .fail := by
  rcases h with rfl | ⟨d, r', rfl, hd⟩
  · exact Runs.tag_fail rfl
  · exact Runs.tag_fail (strip_cons_ne t r' (by intro e; subst e; simp at hd))

/-! ### white space -/
theorem space_not_nameChar (c : Char) (h : P.isNameChar c = true) : P.isSpace c = false := by
  cases hs : P.isSpace c with
  | false => rfl
  | true =>
    exfalso
    simp only [P.isSpace, Bool.or_eq_true, beq_iff_eq] at hs
    rcases hs with ((rfl | rfl) | rfl) | rfl <;> revert h <;> decide

/-! ### NCName, QName -/
def cstNc (a : Str) : CST :=
  .node N.ncname (.seq [.leaf (a.take 1), if a.drop 1 = [] then .seq [] else .leaf (a.drop 1)])

theorem ncnameP_ok {a r : Str} (ha : okNc a = true) (hr : Stops ncRestC r) : ncnameP (a ++ r) = some (a, r) := by
  cases a with
  | nil => simp [okNc] at ha
  | cons c cs =>
    simp only [okNc, Bool.and_eq_true] at ha
    have h1 : (c != ':' && P.isNameStartChar c) = true := by simpa using ha.1
    simp only [List.cons_append, ncnameP, h1, if_true]
    rw [span_stop (p := ncRest) ha.2 hr]

theorem runs_ncname {a r : Str} (ha : okNc a = true) (hr : Stops ncRestC r) :
    Runs env (.nt N.ncname) (a ++ r) (.ok (cstNc a) r) := by
  apply Runs.nt
  apply Runs.of_forall 5
  intro f
  rw [ncname_body, ncnameP_ok ha hr]

theorem runs_ncname_fail {r : Str} (hr : Stops (fun c => c != ':' && P.isNameStartChar c) r) :
    Runs env (.nt N.ncname) r .fail := by
  apply Runs.nt_fail
  apply Runs.of_forall 5
  intro f
  rw [ncname_body]
  rcases hr with rfl | ⟨c, r', rfl, hc⟩
  · simp [ncnameP]
  · simp only [ncnameP]
    simp only [hc]
    simp

def cstQN (q : QN) : CST :=
  match q.pre with
  | none => .node N.qname (cstNc q.loc)
  | some p => .node N.qname (.node N.prefixed_name (.seq [cstNc p, .seq [.leaf [':'], cstNc q.loc]]))

theorem nameChar_colon : P.isNameChar ':' = true := by decide

theorem stops_ncRest_of_nameChar {r : Str} (h : Stops P.isNameChar r) : Stops ncRestC r :=
  h.mono fun c hc => by simp [ncRestC, P.except, hc]

theorem stops_colon_of_nameChar {r : Str} (h : Stops P.isNameChar r) : Stops (· == ':') r :=
  h.mono fun c hc => by
    cases hcc : c == ':' with
    | false => rfl
    | true => simp only [beq_iff_eq] at hcc; subst hcc; simp [nameChar_colon] at hc

theorem ncRest_colon : ncRestC ':' = false := by decide

theorem runs_qname {q : QN} {r : Str} (hq : okQN q = true) (hr : Stops P.isNameChar r) :
    Runs env (.nt N.qname) (q.text ++ r) (.ok (cstQN q) r) := by
  have h58 : Char.ofNat 58 = ':' := rfl
  obtain ⟨pre, loc⟩ := q
  simp only [okQN, Bool.and_eq_true] at hq
  cases pre with
  | none =>
    simp only [QN.text, cstQN]
    apply Runs.nt_of env_qname
    unfold Prod.qname
    apply Runs.alt
    have hnc := runs_ncname hq.2 (stops_ncRest_of_nameChar hr)
    refine RunsAlt.skip ?_ (RunsAlt.hit hnc)
    apply Runs.nt_fail_of env_prefixed_name
    unfold Prod.prefixed_name
    apply Runs.seq_fail
    refine RunsSeq.fail_tail hnc (RunsSeq.fail_head (Runs.seq_fail (RunsSeq.fail_head ?_)))
    rw [h58]
    exact runs_tag_fail_head (stops_colon_of_nameChar hr)
  | some p =>
    simp only [QN.text, cstQN, List.append_assoc, List.cons_append]
    apply Runs.nt_of env_qname
    unfold Prod.qname
    apply Runs.alt
    refine RunsAlt.hit ?_
    apply Runs.nt_of env_prefixed_name
    unfold Prod.prefixed_name
    apply Runs.seq
    refine RunsSeq.cons (runs_ncname hq.1 (Stops.cons _ ncRest_colon)) (RunsSeq.cons (Runs.seq ?_) (RunsSeq.nil _))
    rw [h58]
    exact RunsSeq.cons (Runs.tag_ok [':'] _) (RunsSeq.cons (runs_ncname hq.2 (stops_ncRest_of_nameChar hr)) (RunsSeq.nil _))

theorem nameStart_sub (c : Char) (h : P.isNameChar c = false) : P.isNameStartChar c = false := by
  cases hs : P.isNameStartChar c with
  | false => rfl
  | true =>
    have := C18.nameStart_sub_nameChar c hs
    simp [this] at h

/-- `qname` fails where no NCName starts -/
theorem runs_qname_fail {r : Str} (hr : Stops (fun c => c != ':' && P.isNameStartChar c) r) :
    Runs env (.nt N.qname) r .fail := by
  apply Runs.nt_fail_of env_qname
  unfold Prod.qname
  apply Runs.alt
  refine RunsAlt.skip ?_ (RunsAlt.skip (runs_ncname_fail hr) (RunsAlt.nil _))
  apply Runs.nt_fail_of env_prefixed_name
  unfold Prod.prefixed_name
  exact Runs.seq_fail (RunsSeq.fail_head (runs_ncname_fail hr))

/-! ### Name as the code reads it (NameStartChar* NameChar*) -/
def cstName (t : Str) : CST :=
  .node N.name (.seq [.node N.multinamestartchar0 (.leaf (spanP P.isNameStartChar t).1),
                      .node N.multinamechar0 (.leaf (spanP P.isNameStartChar t).2)])

theorem all_of_all_span (p q : Char → Bool) : ∀ t : Str, t.all q = true → (spanP p t).2.all q = true
  | [], _ => by simp [spanP]
  | c :: cs, h => by
    simp only [List.all_cons, Bool.and_eq_true] at h
    simp only [spanP]
    split
    · exact all_of_all_span p q cs h.2
    · simp [h.1, h.2]

theorem runs_name {t r : Str} (ht : t.all P.isNameChar = true) (hr : Stops P.isNameChar r) :
    Runs env (.nt N.name) (t ++ r) (.ok (cstName t) r) := by
  apply Runs.nt_of env_name
  unfold Prod.name
  have hr' : Stops P.isNameStartChar r := hr.mono nameStart_sub
  have h1 : Runs env (.nt N.multinamestartchar0) (t ++ r)
      (.ok (.node N.multinamestartchar0 (.leaf (spanP P.isNameStartChar t).1)) ((spanP P.isNameStartChar t).2 ++ r)) := by
    apply Runs.nt_of env_multinamestartchar0
    have := Runs.cls0 (env := env) P.isNameStartChar (t ++ r)
    rwa [span_append_stops _ hr'] at this
  have h2 : Runs env (.nt N.multinamechar0) ((spanP P.isNameStartChar t).2 ++ r)
      (.ok (.node N.multinamechar0 (.leaf (spanP P.isNameStartChar t).2)) r) := by
    apply Runs.nt_of env_multinamechar0
    exact runs_cls0 (all_of_all_span _ _ t ht) hr
  exact Runs.seq (RunsSeq.cons h1 (RunsSeq.cons h2 (RunsSeq.nil _)))

theorem cstName_flatten (t : Str) : (cstName t).flatten = t := by
  simp [cstName, CST.flatten, flattenL, spanP_append]

/-! ### references -/
def cstRef : Piece → CST
  | .entRef n => .node N.reference (.node N.entity_ref (.seq [.leaf ['&'], cstName n, .leaf [';']]))
  | .charRef d false => .node N.reference (.node N.char_ref (.seq [.leaf ['&', '#'], .leaf d, .leaf [';']]))
  | .charRef d true => .node N.reference (.node N.char_ref (.seq [.leaf ['&', '#', 'x'], .leaf d, .leaf [';']]))
  | _ => .leaf []

theorem nc_semicolon : P.isNameChar ';' = false := by decide
theorem nc_hash : P.isNameChar '#' = false := by decide
theorem digit_semicolon : P.isDigit ';' = false := by decide
theorem hex_semicolon : P.isHexDigit ';' = false := by decide
theorem digit_x : P.isDigit 'x' = false := by decide

/-- `entity_ref` reads an empty name in front of `#` and then misses the `;` -/
theorem entity_ref_fails_on_hash (r : Str) : Runs env (.nt N.entity_ref) ('&' :: '#' :: r) .fail := by
  apply Runs.nt_fail_of env_entity_ref
  unfold Prod.entity_ref
  have h38 : Char.ofNat 38 = '&' := rfl
  have h59 : Char.ofNat 59 = ';' := rfl
  rw [h38, h59]
  apply Runs.seq_fail
  refine RunsSeq.fail_tail (Runs.tag_ok ['&'] _) (RunsSeq.fail_tail (runs_name (t := []) rfl (Stops.cons r nc_hash)) ?_)
  exact RunsSeq.fail_head (Runs.tag_fail (strip_cons_ne _ _ (by decide)))

theorem runs_reference (pc : Piece) (r : Str) (hok : ∀ q, okPiece q pc = true) (hne : ∀ s, pc ≠ .text s) :
    Runs env (.nt N.reference) (printPiece pc ++ r) (.ok (cstRef pc) r) := by
  have h38 : Char.ofNat 38 = '&' := rfl
  have h59 : Char.ofNat 59 = ';' := rfl
  have h35 : Char.ofNat 35 = '#' := rfl
  have h120 : Char.ofNat 120 = 'x' := rfl
  have e1 : "&#x".toList = ['&', '#', 'x'] := rfl
  have e2 : "&#".toList = ['&', '#'] := rfl
  cases pc with
  | text s => exact absurd rfl (hne s)
  | peRef n => have := hok ' '; simp [okPiece] at this
  | entRef n =>
    have hn : n.all P.isNameChar = true := by simpa [okPiece] using hok ' '
    simp only [printPiece, cstRef, List.cons_append, List.append_assoc]
    apply Runs.nt_of env_reference
    unfold Prod.reference
    refine Runs.alt (RunsAlt.hit ?_)
    apply Runs.nt_of env_entity_ref
    unfold Prod.entity_ref
    rw [h38, h59]
    exact Runs.seq (RunsSeq.cons (Runs.tag_ok ['&'] _) (RunsSeq.cons (runs_name hn (Stops.cons _ nc_semicolon))
      (RunsSeq.cons (Runs.tag_ok [';'] r) (RunsSeq.nil _))))
  | charRef d h =>
    have hd := hok ' '
    simp only [okPiece, Bool.and_eq_true, Bool.not_eq_true', List.isEmpty_eq_false_iff] at hd
    cases h with
    | false =>
      simp only [printPiece, cstRef, e2, Bool.false_eq_true, if_false, List.cons_append, List.append_assoc, List.nil_append]
      apply Runs.nt_of env_reference
      unfold Prod.reference
      refine Runs.alt (RunsAlt.skip (entity_ref_fails_on_hash _) (RunsAlt.hit ?_))
      apply Runs.nt_of env_char_ref
      unfold Prod.char_ref
      rw [h38, h59, h35]
      refine Runs.alt (RunsAlt.hit (Runs.seq ?_))
      refine RunsSeq.cons (Runs.tag_ok ['&', '#'] _) (RunsSeq.cons (runs_cls1 hd.1 ?_ (Stops.cons _ digit_semicolon))
        (RunsSeq.cons (Runs.tag_ok [';'] r) (RunsSeq.nil _)))
      simpa using hd.2
    | true =>
      simp only [printPiece, cstRef, e1, if_true, List.cons_append, List.append_assoc, List.nil_append]
      apply Runs.nt_of env_reference
      unfold Prod.reference
      refine Runs.alt (RunsAlt.skip (entity_ref_fails_on_hash _) (RunsAlt.hit ?_))
      apply Runs.nt_of env_char_ref
      unfold Prod.char_ref
      rw [h38, h59, h35, h120]
      refine Runs.alt (RunsAlt.skip (Runs.seq_fail ?_) (RunsAlt.hit (Runs.seq ?_)))
      · exact RunsSeq.fail_tail (Runs.tag_ok ['&', '#'] _) (RunsSeq.fail_head (runs_cls1_fail (Stops.cons _ digit_x)))
      · refine RunsSeq.cons (Runs.tag_ok ['&', '#', 'x'] _) (RunsSeq.cons (runs_cls1 hd.1 ?_ (Stops.cons _ hex_semicolon))
          (RunsSeq.cons (Runs.tag_ok [';'] r) (RunsSeq.nil _)))
        simpa using hd.2

/-- `reference` fails on anything that does not start with `&` -/
theorem runs_reference_fail {r : Str} (hr : Stops (· == '&') r) : Runs env (.nt N.reference) r .fail := by
  have h38 : Char.ofNat 38 = '&' := rfl
  apply Runs.nt_fail_of env_reference
  unfold Prod.reference
  refine Runs.alt (RunsAlt.skip ?_ (RunsAlt.skip ?_ (RunsAlt.nil _)))
  · apply Runs.nt_fail_of env_entity_ref
    unfold Prod.entity_ref
    rw [h38]
    exact Runs.seq_fail (RunsSeq.fail_head (runs_tag_fail_head hr))
  · apply Runs.nt_fail_of env_char_ref
    unfold Prod.char_ref
    rw [h38]
    refine Runs.alt (RunsAlt.skip (Runs.seq_fail (RunsSeq.fail_head (runs_tag_fail_head hr)))
      (RunsAlt.skip (Runs.seq_fail (RunsSeq.fail_head (runs_tag_fail_head hr))) (RunsAlt.nil _)))

/-! ### attribute values -/
def cstPiece : Piece → CST
  | .text s => .leaf s
  | pc => cstRef pc

def cstAttValue (q : Char) (ps : List Piece) : CST :=
  .node N.att_value (.seq [.leaf [q], .many (ps.map cstPiece), .leaf [q]])

abbrev avChar (q : Char) : Char → Bool := P.except P.isChar ['<', '&', q]

def avItem (q : Char) : G := G.alt [G.cls1 (avChar q), G.nt N.reference]

theorem avChar_amp (q : Char) : avChar q '&' = false := by simp [avChar, P.except]
theorem avChar_q (q : Char) : avChar q q = false := by simp [avChar, P.except]

theorem printPiece_ref_head (pc : Piece) (hok : ∀ q, okPiece q pc = true) (hne : ∀ s, pc ≠ .text s) :
    ∃ t, printPiece pc = '&' :: t := by
  cases pc with
  | text s => exact absurd rfl (hne s)
  | peRef n => have := hok ' '; simp [okPiece] at this
  | entRef n => exact ⟨_, rfl⟩
  | charRef d h => cases h <;> exact ⟨_, rfl⟩

theorem printPiece_length_pos (q : Char) (pc : Piece) (hok : okPiece q pc = true) : 0 < (printPiece pc).length := by
  cases pc with
  | text s => simp only [okPiece, Bool.and_eq_true, Bool.not_eq_true', List.isEmpty_eq_false_iff] at hok
              simp only [printPiece]; exact List.length_pos_iff.mpr hok.1
  | peRef n => simp [okPiece] at hok
  | entRef n => simp [printPiece]
  | charRef d h => simp only [printPiece, List.length_append, List.length_cons, List.length_nil]; omega

/-- what follows a text piece stops it: the closing quote, or a reference -/
theorem stops_after_text (q : Char) (ps : List Piece) (r : Str) (hall : ps.all (okPiece q) = true)
    (hhead : ∀ s ps', ps ≠ .text s :: ps') : Stops (avChar q) (printPieces ps ++ q :: r) := by
  cases ps with
  | nil => exact Stops.cons _ (avChar_q q)
  | cons pc ps' =>
    simp only [List.all_cons, Bool.and_eq_true] at hall
    have hne : ∀ s, pc ≠ .text s := fun s e => hhead s ps' (by rw [e])
    have hokq : ∀ q', okPiece q' pc = true := by
      intro q'
      cases pc with
      | text s => exact absurd rfl (hne s)
      | peRef n => simp [okPiece] at hall
      | entRef n => simpa [okPiece] using hall.1
      | charRef d h => simpa [okPiece] using hall.1
    obtain ⟨t, ht⟩ := printPiece_ref_head pc hokq hne
    simp only [printPieces, List.flatMap_cons, ht, List.cons_append]
    exact Stops.cons _ (avChar_amp q)

theorem runs_av_loop (q : Char) (hq : q = '"' ∨ q = '\'') (r : Str) : ∀ ps : List Piece,
    ps.all (okPiece q) = true → adjText ps = false →
    RunsMany env (avItem q) (printPieces ps ++ q :: r) (.ok (ps.map cstPiece) (q :: r))
  | [], _, _ => by
    simp only [printPieces, List.flatMap_nil, List.nil_append, List.map_nil]
    apply RunsMany.stop
    refine Runs.alt (RunsAlt.skip (runs_cls1_fail (Stops.cons _ (avChar_q q))) (RunsAlt.skip ?_ (RunsAlt.nil _)))
    apply runs_reference_fail
    apply Stops.cons
    rcases hq with rfl | rfl <;> decide
  | pc :: ps, hall, hadj => by
    have hall' := hall
    simp only [List.all_cons, Bool.and_eq_true] at hall
    have hadj' : adjText ps = false := by
      cases pc <;> cases ps <;> simp_all [adjText]
      all_goals (rename_i hd tl; cases hd <;> simp_all [adjText])
    have ih := runs_av_loop q hq r ps hall.2 hadj'
    have hlen : (printPieces ps ++ q :: r).length < (printPieces (pc :: ps) ++ q :: r).length := by
      have := printPiece_length_pos q pc hall.1
      simp only [printPieces, List.flatMap_cons, List.length_append] at *
      omega
    simp only [List.map_cons]
    have htxt : printPieces (pc :: ps) ++ q :: r = printPiece pc ++ (printPieces ps ++ q :: r) := by
      simp [printPieces]
    rw [htxt] at hlen ⊢
    refine RunsMany.step ?_ hlen ih
    by_cases hne : ∃ s, pc = .text s
    · obtain ⟨s, rfl⟩ := hne
      simp only [okPiece, Bool.and_eq_true, Bool.not_eq_true', List.isEmpty_eq_false_iff] at hall
      have hst : Stops (avChar q) (printPieces ps ++ q :: r) := by
        apply stops_after_text q ps r hall.2
        intro s' ps' e
        subst e
        simp [adjText] at hadj
      exact Runs.alt (RunsAlt.hit (runs_cls1 hall.1.1 hall.1.2 hst))
    · have hne' : ∀ s, pc ≠ .text s := fun s e => hne ⟨s, e⟩
      have hokq : ∀ q', okPiece q' pc = true := by
        intro q'
        cases pc with
        | text s => exact absurd rfl (hne' s)
        | peRef n => simp [okPiece] at hall
        | entRef n => simpa [okPiece] using hall.1
        | charRef d h => simpa [okPiece] using hall.1
      obtain ⟨t, ht⟩ := printPiece_ref_head pc hokq hne'
      have hc : cstPiece pc = cstRef pc := by cases pc <;> first | rfl | exact absurd rfl (hne' _)
      rw [hc]
      refine Runs.alt (RunsAlt.skip ?_ (RunsAlt.hit (runs_reference pc _ hokq hne')))
      rw [ht]
      exact runs_cls1_fail (Stops.cons _ (avChar_amp q))

theorem runs_att_value (q : Char) (hq : q = '"' ∨ q = '\'') (ps : List Piece) (r : Str)
    (hall : ps.all (okPiece q) = true) (hadj : adjText ps = false) :
    Runs env (.nt N.att_value) (q :: (printPieces ps ++ q :: r)) (.ok (cstAttValue q ps) r) := by
  have h34 : Char.ofNat 34 = '"' := rfl
  have h39 : Char.ofNat 39 = '\'' := rfl
  have h60 : Char.ofNat 60 = '<' := rfl
  have h38 : Char.ofNat 38 = '&' := rfl
  apply Runs.nt_of env_att_value
  unfold Prod.att_value
  rw [h34, h39, h60, h38]
  have body : ∀ q', q' = q → RunsSeq env [G.tag [q'], G.many0 (G.alt [G.cls1 (P.except P.isChar ['<', '&', q']), G.nt N.reference]), G.tag [q']]
      (q :: (printPieces ps ++ q :: r)) (.ok [.leaf [q], .many (ps.map cstPiece), .leaf [q]] r) := by
    intro q' e; subst e
    exact RunsSeq.cons (Runs.tag_ok [q'] _) (RunsSeq.cons (Runs.many (runs_av_loop q' hq r ps hall hadj))
      (RunsSeq.cons (Runs.tag_ok [q'] r) (RunsSeq.nil _)))
  rcases hq with rfl | rfl
  · exact Runs.alt (RunsAlt.hit (Runs.seq (body _ rfl)))
  · refine Runs.alt (RunsAlt.skip ?_ (RunsAlt.hit (Runs.seq (body _ rfl))))
    exact Runs.seq_fail (RunsSeq.fail_head (Runs.tag_fail (strip_cons_ne _ _ (by decide))))

/-! ### Eq -/
def cstEq (w1 w2 : Str) : CST := .node N.eq (.seq [.leaf w1, .leaf ['='], .leaf w2])

theorem space_eq : P.isSpace '=' = false := by decide

theorem runs_eq {w1 w2 r : Str} (h1 : okWs w1 = true) (h2 : okWs w2 = true) (hr : Stops P.isSpace r) :
    Runs env (.nt N.eq) (w1 ++ ('=' :: (w2 ++ r))) (.ok (cstEq w1 w2) r) := by
  have h61 : Char.ofNat 61 = '=' := rfl
  apply Runs.nt_of env_eq
  unfold Prod.eq
  rw [h61]
  exact Runs.seq (RunsSeq.cons (runs_cls0 h1 (Stops.cons _ space_eq)) (RunsSeq.cons (Runs.tag_ok ['='] _)
    (RunsSeq.cons (runs_cls0 h2 hr) (RunsSeq.nil _))))

end XmlRs.Lex
