import XmlRsModel.Lemmas.XAbsShapes
/-! `absNode (tree of a spelling) = the abstract expression the spelling denotes` (mutual over expressions, tails,
    arguments, relative paths, steps and predicates). -/
namespace XmlRs.XLex
open XmlRs XmlRs.XPath XmlRs.Lex
open Gen.XPath

theorem ok9_label {f : CX} (h : okAt 9 f = true) : xLabel f = N.filter_expr := by
  cases f <;> simp_all [okAt, xLabel]

theorem ok10_label {f : CX} (h : okAt 10 f = true) : xLabel f = N.primary_expr := by
  cases f <;> simp_all [okAt, xLabel]

theorem size_pos : ∀ c : CST, 0 < c.size
  | .leaf _ => by simp [CST.size]
  | .node _ _ => by simp [CST.size]
  | .seq _ => by simp [CST.size]
  | .many _ => by simp [CST.size]

theorem go_nil (g : Nat) (ops : List (Str × BinOp)) (acc : Option Expr) (p : Option BinOp) : absChain.go g ops acc p [] = acc := by
  simp [absChain.go]

theorem go_leaf (g : Nat) (ops : List (Str × BinOp)) (acc : Option Expr) (p : Option BinOp) (s : Str) (r : List Tok) :
    absChain.go g ops acc p (.leaf s :: r) = absChain.go g ops acc (((ops.find? (fun q => q.1 == s)).map (·.2)) <|> p) r := by
  simp [absChain.go]

theorem go_node_first (g : Nat) (ops : List (Str × BinOp)) (n : Nat) (b : CST) (r : List Tok) :
    absChain.go g ops none none (.node n b :: r) = absChain.go g ops (some (absNode g n b)) none r := by
  simp [absChain.go]

theorem go_node_op (g : Nat) (ops : List (Str × BinOp)) (a : Expr) (op : BinOp) (n : Nat) (b : CST) (r : List Tok) :
    absChain.go g ops (some a) (some op) (.node n b :: r) = absChain.go g ops (some (.bin op a (absNode g n b))) none r := by
  simp [absChain.go]

theorem absChain_eq (g : Nat) (ops : List (Str × BinOp)) (c : CST) :
    absChain (g + 1) ops c = (absChain.go g ops none none (sigToks c)).getD (.lit []) := by
  simp [absChain]

theorem absRel_eq (g : Nat) (c : CST) : absRel (g + 1) c = absRel.go g (sigToks c) := by simp [absRel]

theorem absRel_go_nil (g : Nat) : absRel.go g [] = [] := by simp [absRel.go]

mutual
theorem abs_x : ∀ (e : CX) (l : Nat), okAt l e = true → ∀ f, (cstX e).size ≤ f → absNode f (xLabel e) (xBody e) = e.erase
  | .chain l' a r, l, hok, f, hf => by
    simp only [okAt, Bool.and_eq_true, beq_iff_eq, decide_eq_true_eq] at hok
    obtain ⟨⟨⟨hl, hl5⟩, ha⟩, hr⟩ := hok
    subst hl
    simp only [cstX, CST.size, sizeL] at hf
    obtain ⟨g, rfl⟩ : ∃ g, f = g + 3 := ⟨f - 3, by omega⟩
    have iha := abs_x a (l + 1) ha (g + 1) (by omega)
    have ihr := abs_tail r l (endsRoot a) hr (Or.inl hl5) (g + 1) (by omega) a.erase
    simp only [xLabel, xBody, CX.erase]
    rw [absNode_level l hl5, absChain_eq, sig_seq_cons, sig_seq_cons, sig_seq_nil, cstX_eq a, sig_node]
    simp only [List.cons_append, List.nil_append, List.append_nil]
    rw [go_node_first, iha, ihr]; rfl
  | .unary ms e, l, hok, f, hf => by
    simp only [okAt, Bool.and_eq_true, beq_iff_eq] at hok
    obtain ⟨⟨hl, hms⟩, he⟩ := hok
    simp only [cstX, CST.size, sizeL] at hf
    obtain ⟨g, rfl⟩ : ∃ g, f = g + 1 := ⟨f - 1, by omega⟩
    have ih := abs_x e 7 he g (by omega)
    simp only [xLabel, xBody, CX.erase]
    rw [cstX_eq e, absNode_unary_cst g ms hms, ih]
  | .union a r, l, hok, f, hf => by
    simp only [okAt, Bool.and_eq_true, beq_iff_eq] at hok
    obtain ⟨⟨hl, ha⟩, hr⟩ := hok
    simp only [cstX, CST.size, sizeL] at hf
    obtain ⟨g, rfl⟩ : ∃ g, f = g + 3 := ⟨f - 3, by omega⟩
    have iha := abs_x a 8 ha (g + 1) (by omega)
    have ihr := abs_tail r 7 (endsRoot a) hr (Or.inr rfl) (g + 1) (by omega) a.erase
    simp only [xLabel, xBody, CX.erase]
    rw [absNode_union, absChain_eq, sig_seq_cons, sig_seq_cons, sig_seq_nil, cstX_eq a, sig_node]
    simp only [List.cons_append, List.nil_append, List.append_nil]
    rw [go_node_first, iha, ihr]; rfl
  | .pathF a, l, hok, f, hf => by
    simp only [okAt, Bool.and_eq_true, beq_iff_eq] at hok
    simp only [cstX, CST.size, sizeL] at hf
    obtain ⟨g, rfl⟩ : ∃ g, f = g + 3 := ⟨f - 3, by omega⟩
    have iha := abs_x a 9 hok.2 (g + 2) (by omega)
    rw [ok9_label hok.2, absNode_filter] at iha
    simp only [xLabel, xBody, CX.erase]
    rw [absNode_path, cstX_eq a, ok9_label hok.2, absPath_F, iha]
  | .pathFR a w1 ds w2 rel, l, hok, f, hf => by
    simp only [okAt, Bool.and_eq_true, beq_iff_eq] at hok
    obtain ⟨⟨⟨⟨hl, ha⟩, h1⟩, h2⟩, hrel⟩ := hok
    simp only [cstX, CST.size, sizeL] at hf
    rw [cstRel_eq] at hf
    simp only [CST.size] at hf
    obtain ⟨g, rfl⟩ : ∃ g, f = g + 3 := ⟨f - 3, by omega⟩
    have iha := abs_x a 9 ha (g + 2) (by omega)
    rw [ok9_label ha, absNode_filter] at iha
    have ihr := abs_rel rel hrel (g + 1) (by omega)
    simp only [xLabel, xBody, CX.erase]
    rw [absNode_path, cstX_eq a, ok9_label ha, absPath_FR _ _ _ _ _ _ h1 h2, iha, ihr]
  | .pathAbs ds w rel, l, hok, f, hf => by
    simp only [okAt, Bool.and_eq_true, beq_iff_eq] at hok
    obtain ⟨⟨hl, h1⟩, hrel⟩ := hok
    simp only [cstX, CST.size, sizeL] at hf
    rw [cstRel_eq] at hf
    simp only [CST.size] at hf
    obtain ⟨g, rfl⟩ : ∃ g, f = g + 2 := ⟨f - 2, by omega⟩
    have ihr := abs_rel rel hrel g (by omega)
    simp only [xLabel, xBody, CX.erase]
    rw [absNode_path, absPath_Abs _ _ _ _ h1, ihr]
  | .pathRel rel, l, hok, f, hf => by
    simp only [okAt, Bool.and_eq_true, beq_iff_eq] at hok
    simp only [cstX, CST.size] at hf
    rw [cstRel_eq] at hf
    simp only [CST.size] at hf
    obtain ⟨g, rfl⟩ : ∃ g, f = g + 2 := ⟨f - 2, by omega⟩
    have ihr := abs_rel rel hok.2 g (by omega)
    simp only [xLabel, xBody, CX.erase]
    rw [absNode_path, absPath_Rel, ihr]
  | .pathRoot, l, hok, f, hf => by
    simp only [cstX, CST.size] at hf
    obtain ⟨g, rfl⟩ : ∃ g, f = g + 2 := ⟨f - 2, by omega⟩
    simp only [xLabel, xBody, CX.erase]
    rw [absNode_path, absPath_Root]
  | .filter p preds, l, hok, f, hf => by
    simp only [okAt, Bool.and_eq_true, beq_iff_eq] at hok
    obtain ⟨⟨hl, hp⟩, hpr⟩ := hok
    simp only [cstX, CST.size, sizeL] at hf
    obtain ⟨g, rfl⟩ : ∃ g, f = g + 2 := ⟨f - 2, by omega⟩
    have ihp := abs_x p 10 hp g (by omega)
    have ihpr := abs_preds preds hpr g (by omega)
    rw [ok10_label hp] at ihp
    simp only [xLabel, xBody]
    rw [absNode_filter, cstX_eq p, ok10_label hp, absFilter_body, ihp, ihpr]
    cases preds with
    | nil => simp [predBodies, CX.erase]
    | cons w w1 e w2 t => simp [predBodies, CX.erase]
  | .var q, l, hok, f, hf => by
    simp only [cstX, CST.size, sizeL] at hf
    obtain ⟨g, rfl⟩ : ∃ g, f = g + 3 := ⟨f - 3, by omega⟩
    simp only [xLabel, xBody, CX.erase]
    rw [absNode_primary, absPrimary_node, absNode_var_cst]
  | .paren w1 e w2, l, hok, f, hf => by
    simp only [okAt, Bool.and_eq_true, beq_iff_eq] at hok
    obtain ⟨⟨⟨hl, h1⟩, he⟩, h2⟩ := hok
    simp only [cstX, CST.size, sizeL] at hf
    obtain ⟨g, rfl⟩ : ∃ g, f = g + 4 := ⟨f - 4, by omega⟩
    have ih := abs_x e 0 he g (by omega)
    simp only [xLabel, xBody, CX.erase]
    rw [absNode_primary, absPrimary_paren, cstX_eq e, absNode_expr, ih]
  | .lit q s, l, hok, f, hf => by
    simp only [cstX, CST.size, sizeL, cstLit] at hf
    obtain ⟨g, rfl⟩ : ∃ g, f = g + 3 := ⟨f - 3, by omega⟩
    simp only [xLabel, xBody, CX.erase]
    rw [absNode_primary, cstLit_eq, absPrimary_node, absNode_literal, absLiteral_lit]
  | .num s, l, hok, f, hf => by
    simp only [okAt, Bool.and_eq_true, beq_iff_eq] at hok
    obtain ⟨nb, hnb, hfl⟩ := cstNum_node hok.2
    simp only [cstX, hnb, CST.size] at hf
    have := size_pos nb
    obtain ⟨g, rfl⟩ : ∃ g, f = g + 3 := ⟨f - 3, by omega⟩
    simp only [xLabel, xBody, CX.erase]
    rw [absNode_primary, hnb, absPrimary_node, absNode_number, hfl]
  | .call fn w1 w2 args w3, l, hok, f, hf => by
    simp only [okAt, Bool.and_eq_true, beq_iff_eq] at hok
    have hargs : okArgs args = true := hok.1.1.2
    simp only [cstX, CST.size, sizeL] at hf
    obtain ⟨g, rfl⟩ : ∃ g, f = g + 4 := ⟨f - 4, by omega⟩
    have ih := abs_args args hargs g (by omega)
    simp only [xLabel, xBody, CX.erase]
    rw [absNode_primary, absPrimary_node, absNode_call, absCall_body, ih]
termination_by e => 2 * sizeOf e + 1
decreasing_by all_goals (simp_wf <;> omega)
theorem abs_tail : ∀ (t : CXTail) (l : Nat) (b : Bool), XPath.okTail l (l + 1) b t = true → (l ≤ 5 ∨ l = 7) → ∀ g, sizeL (cstTail t) ≤ g → ∀ acc : Expr,
    absChain.go g (opsOf l) (some acc) none (sigToks (.many (cstTail t))) = some (t.erase acc)
  | .nil, l, b, _, _, g, _, acc => by simp [cstTail, sig_many_nil, go_nil, CXTail.erase]
  | .cons w1 op w2 e t, l, b, hok, hl, g, hg, acc => by
    simp only [XPath.okTail, Bool.and_eq_true, beq_iff_eq] at hok
    obtain ⟨⟨⟨⟨⟨⟨hop, h1⟩, _⟩, _⟩, h2⟩, he⟩, ht⟩ := hok
    simp only [cstTail, sizeL, CST.size] at hg
    have ih := abs_x e (l + 1) he g (by omega)
    have iht := abs_tail t l (endsRoot e) ht hl g (by omega) (.bin op acc e.erase)
    rw [sig_tail_cons _ _ _ _ _ h1 h2, go_leaf, opsOf_find op l hop hl]
    show absChain.go g (opsOf l) (some acc) (some op) _ = _
    rw [go_node_op, ih, iht]; rfl
termination_by t => 2 * sizeOf t
decreasing_by all_goals (simp_wf <;> omega)
theorem abs_args : ∀ (a : CArgs), okArgs a = true → ∀ g, (cstArgs a).size ≤ g → (cstArgs a).kidsL.map (fun (n, b) => absNode g n b) = a.erase
  | .none, _, g, _ => by simp [cstArgs, CST.kidsL, kidsLL, CArgs.erase]
  | .some a r, hok, g, hg => by
    simp only [okArgs, Bool.and_eq_true] at hok
    simp only [cstArgs, CST.size, sizeL] at hg
    obtain ⟨k, rfl⟩ : ∃ k, g = k + 4 := ⟨g - 4, by omega⟩
    have ih := abs_x a 0 hok.1 k (by omega)
    have iht := abs_argtail r hok.2 (k + 4) (by omega)
    simp only [cstArgs, CST.kidsL, kidsLL, List.append_nil, List.cons_append, List.nil_append, List.map_cons, CArgs.erase]
    rw [cstX_eq a, absNode_argument, absNode_expr, ih, iht]
termination_by a => 2 * sizeOf a
decreasing_by all_goals (simp_wf <;> omega)
theorem abs_argtail : ∀ (t : CArgTail), okArgTail t = true → ∀ g, sizeL (cstArgTail t) ≤ g → (kidsLL (cstArgTail t)).map (fun (n, b) => absNode g n b) = t.erase
  | .nil, _, g, _ => by simp [cstArgTail, kidsLL, CArgTail.erase]
  | .cons w1 w2 e t, hok, g, hg => by
    simp only [okArgTail, Bool.and_eq_true] at hok
    simp only [cstArgTail, CST.size, sizeL] at hg
    obtain ⟨k, rfl⟩ : ∃ k, g = k + 4 := ⟨g - 4, by omega⟩
    have ih := abs_x e 0 hok.1.2 k (by omega)
    have iht := abs_argtail t hok.2 (k + 4) (by omega)
    simp only [cstArgTail, CST.kidsL, kidsLL, List.append_nil, List.cons_append, List.nil_append, List.map_cons, CArgTail.erase]
    rw [cstX_eq e, absNode_argument, absNode_expr, ih, iht]
termination_by t => 2 * sizeOf t
decreasing_by all_goals (simp_wf <;> omega)
theorem abs_rel : ∀ (r : CRel), okRel r = true → ∀ g, (relBody r).size ≤ g → absRel g (relBody r) = r.erase
  | .mk s t, hok, g, hg => by
    simp only [okRel, Bool.and_eq_true] at hok
    simp only [relBody, CST.size, sizeL] at hg
    rw [cstStep_eq] at hg
    simp only [CST.size] at hg
    obtain ⟨k, rfl⟩ : ∃ k, g = k + 1 := ⟨g - 1, by omega⟩
    have ih := abs_step s hok.1 k (by omega)
    have iht := abs_reltail t hok.2 k (by omega)
    simp only [relBody, CRel.erase]
    rw [absRel_eq, sig_seq_cons, sig_seq_cons, sig_seq_nil, cstStep_eq, sig_node]
    simp only [List.cons_append, List.nil_append, List.append_nil]
    rw [absRel_go_step, ih, iht]
termination_by r => 2 * sizeOf r
decreasing_by all_goals (simp_wf <;> omega)
theorem abs_reltail : ∀ (t : CRelTail), okRelTail t = true → ∀ g, sizeL (cstRelTail t) ≤ g → absRel.go g (sigToks (.many (cstRelTail t))) = t.erase
  | .nil, _, g, _ => by simp [cstRelTail, sig_many_nil, absRel_go_nil, CRelTail.erase]
  | .cons w1 ds w2 s t, hok, g, hg => by
    simp only [okRelTail, Bool.and_eq_true] at hok
    obtain ⟨⟨⟨h1, h2⟩, hs⟩, ht⟩ := hok
    simp only [cstRelTail, CST.size, sizeL] at hg
    rw [cstStep_eq] at hg
    simp only [CST.size] at hg
    have ih := abs_step s hs g (by omega)
    have iht := abs_reltail t ht g (by omega)
    rw [sig_reltail_cons _ _ _ _ _ h1 h2, absRel_go_leaf, absRel_go_step, ih, iht]
    simp [CRelTail.erase]
termination_by t => 2 * sizeOf t
decreasing_by all_goals (simp_wf <;> omega)
theorem abs_step : ∀ (s : CStep), okStep s = true → ∀ g, (stepBody s).size ≤ g → absStep g (stepBody s) = s.erase
  | .dot, _, g, hg => by
    simp only [stepBody, CST.size] at hg
    obtain ⟨k, rfl⟩ : ∃ k, g = k + 1 := ⟨g - 1, by omega⟩
    rw [absStep_dot]; rfl
  | .dotdot, _, g, hg => by
    simp only [stepBody, CST.size] at hg
    obtain ⟨k, rfl⟩ : ∃ k, g = k + 1 := ⟨g - 1, by omega⟩
    rw [absStep_dotdot]; rfl
  | .full ax w test preds, hok, g, hg => by
    simp only [okStep, Bool.and_eq_true] at hok
    obtain ⟨⟨⟨⟨_, hw⟩, ht⟩, hp⟩, _⟩ := hok
    simp only [stepBody, CST.size, sizeL] at hg
    obtain ⟨k, rfl⟩ : ∃ k, g = k + 1 := ⟨g - 1, by omega⟩
    have ih := abs_preds preds hp k (by omega)
    rw [absStep_full _ _ _ _ _ hw ht hp, ih]; rfl
termination_by s => 2 * sizeOf s
decreasing_by all_goals (simp_wf <;> omega)
theorem abs_preds : ∀ (p : CPreds), okPreds p = true → ∀ g, sizeL (cstPreds p) ≤ g → (predBodies p).map (absPred g) = p.erase
  | .nil, _, g, _ => by simp [predBodies, CPreds.erase]
  | .cons w w1 e w2 t, hok, g, hg => by
    simp only [okPreds, Bool.and_eq_true] at hok
    obtain ⟨⟨⟨⟨_, _⟩, he⟩, _⟩, ht⟩ := hok
    simp only [cstPreds, CST.size, sizeL] at hg
    obtain ⟨k, rfl⟩ : ∃ k, g = k + 5 := ⟨g - 5, by omega⟩
    have ih := abs_x e 0 he k (by omega)
    have iht := abs_preds t ht (k + 5) (by omega)
    simp only [predBodies, List.map_cons, CPreds.erase]
    rw [absPred_body, absNode_predicate_expr, cstX_eq e, absNode_expr, ih, iht]
termination_by p => 2 * sizeOf p
decreasing_by all_goals (simp_wf <;> omega)
end

end XmlRs.XLex
