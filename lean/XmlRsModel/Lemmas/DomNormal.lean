import XmlRsModel.Lemmas.DomNorm
import XmlRsModel.Thm.C15
/-! `Element.normalize` reaches a normal form: below the element (and in its attribute values) no Text node is empty and
    no two Text nodes stand side by side whose data could be written as one. -/
namespace XmlRs.Dom
open List

theorem stripPrefix_isSome_append {pat s : Str} (t : Str) (h : (stripPrefix pat s).isSome = true) :
    (stripPrefix pat (s ++ t)).isSome = true := by
  induction pat generalizing s with
  | nil => simp [stripPrefix]
  | cons p ps ih =>
    cases s with
    | nil => simp [stripPrefix] at h
    | cons x xs =>
      simp only [stripPrefix, List.cons_append] at h ⊢
      split
      · next hpx => simp only [hpx, if_true] at h; exact ih h
      · next hpx => simp [hpx] at h

theorem hasSub_append_right (pat : Str) : ∀ (s t : Str), hasSub pat s = true → hasSub pat (s ++ t) = true
  | [], t, h => by
    simp only [hasSub, splitAtSub] at h
    split at h
    · next hp =>
      subst hp
      cases t with
      | nil => rfl
      | cons a b => simp [hasSub, splitAtSub, stripPrefix]
    · simp at h
  | c :: cs, t, h => by
    simp only [hasSub, splitAtSub, List.cons_append] at h ⊢
    cases hs : stripPrefix pat (c :: cs) with
    | some r =>
      have h0 : (stripPrefix pat (c :: cs)).isSome = true := by rw [hs]; rfl
      have := stripPrefix_isSome_append (s := c :: cs) t h0
      simp only [List.cons_append] at this
      cases hs2 : stripPrefix pat (c :: (cs ++ t)) with
      | some r2 => simp
      | none => simp [hs2] at this
    | none =>
      simp only [hs] at h
      cases hs2 : stripPrefix pat (c :: (cs ++ t)) with
      | some r2 => simp
      | none =>
        have ih := hasSub_append_right pat cs t (by
          simp only [hasSub]
          cases h3 : splitAtSub pat cs with
          | some ab => simp
          | none => simp [h3] at h)
        simp only [hasSub] at ih
        cases h4 : splitAtSub pat (cs ++ t) with
        | some ab => obtain ⟨a, b⟩ := ab; simp
        | none => simp [h4] at ih

/-- character data that is not valid stays invalid however it is continued -/
theorem validText_append_false (x y : Str) (h : validText x = false) : validText (x ++ y) = false := by
  rw [C15.validText_iff] at h ⊢
  simp only [Bool.and_eq_false_iff, Bool.not_eq_false', List.all_append] at h ⊢
  rcases h with h | h
  · exact .inl (by simp [h])
  · exact .inr (hasSub_append_right _ x y h)

/-! ### the normal form -/
mutual
/-- below the node every element is in normal form: its attribute values and its child list -/
def isNormal : Node → Bool
  | .mk _ k _ as ks => match k with | .elem _ => normalA as && normalL none ks | _ => true
def normalA : List Node → Bool
  | [] => true
  | (.mk _ _ _ _ ks) :: r => normalL none ks && normalA r
/-- `prevData`: the data of the node just before, if that is a Text node.  No Text node is empty; a Text node that follows a
    Text node could not have been appended to it (the two together are not character data) -/
def normalL (prevData : Option Str) : List Node → Bool
  | [] => true
  | (.mk j k d as ks) :: r =>
    match k with
    | .text => !d.isEmpty && (match prevData with | some p => !validText (p ++ d) | none => true) && normalL (some d) r
    | .elem _ => isNormal (.mk j k d as ks) && normalL none r
    | _ => normalL none r
end

/-- what is known about the pending Text node of `normList`, relative to the data `pd` of the Text node emitted before it -/
def PrevOk (prev : Option Node) (pd : Option Str) : Prop :=
  match prev with
  | none => pd = none
  | some p => p.kind = .text ∧ p.data ≠ [] ∧ ∀ q, pd = some q → validText (q ++ p.data) = false

theorem normalL_text (pd : Option Str) (p : Node) (r : List Node) (hk : p.kind = .text) :
    normalL pd (p :: r) = (!p.data.isEmpty && (match pd with | some q => !validText (q ++ p.data) | none => true) && normalL (some p.data) r) := by
  cases p with
  | mk j k d as ks => simp only [Node.kind] at hk; subst hk; simp [normalL, Node.data]

theorem normalL_prev (pd : Option Str) (p : Node) (r : List Node) (h : PrevOk (some p) pd) :
    normalL pd (p :: r) = normalL (some p.data) r := by
  obtain ⟨hk, hne, hq⟩ := h
  rw [normalL_text pd p r hk]
  have h1 : p.data.isEmpty = false := by cases hd : p.data with | nil => exact absurd hd hne | cons a b => rfl
  cases pd with
  | none => simp [h1]
  | some q => simp [h1, hq q rfl]

mutual
theorem normNode_normal : (n : Node) → isNormal (normNode n).1 = true
  | .mk j k d as ks => by
    unfold normNode
    split
    · next nm =>
      have h1 := normAttrs_normal as
      have h2 := normList_normal none none (by simp [PrevOk]) ks
      simp [isNormal, h1, h2]
    · next hne => cases k <;> simp_all [isNormal]
theorem normAttrs_normal : (l : List Node) → normalA (normAttrs l).1 = true
  | [] => rfl
  | (.mk j k d as ks) :: r => by
    have h1 := normList_normal none none (by simp [PrevOk]) ks
    have h2 := normAttrs_normal r
    simp [normAttrs, normalA, h1, h2]
theorem normList_normal : (prev : Option Node) → (pd : Option Str) → PrevOk prev pd → (l : List Node) →
    normalL pd (normList prev l).1 = true
  | prev, pd, hp, [] => by
    cases prev with
    | none => simp [normList, normalL]
    | some p => simp only [normList, Option.toList]; rw [normalL_prev pd p [] hp]; rfl
  | prev, pd, hp, (.mk j k d as ks) :: r => by
    unfold normList
    split
    · split
      · exact normList_normal prev pd hp r
      · next hne =>
        have hd : d ≠ [] := by intro h0; subst h0; simp at hne
        split
        · next p =>
          obtain ⟨hk, hpne, hq⟩ := hp
          split
          · -- merged into p
            apply normList_normal (some (p.withData (p.data ++ d))) pd _ r
            refine ⟨by cases p; simpa [Node.withData, Node.kind] using hk, ?_, ?_⟩
            · cases p; simp [Node.withData, Node.data]; intro h0; exact absurd h0 (by simpa [Node.data] using hpne)
            · intro q hq'
              have := hq q hq'
              have h2 := validText_append_false (q ++ p.data) d this
              cases p; simpa [Node.withData, Node.data, List.append_assoc] using h2
          · next hinv =>
            -- p is emitted, the node becomes the pending one
            show normalL pd (p :: (normList (some (.mk j .text d as ks)) r).1) = true
            rw [normalL_prev pd p _ ⟨hk, hpne, hq⟩]
            apply normList_normal (some (.mk j .text d as ks)) (some p.data) _ r
            exact ⟨rfl, hd, fun q hq' => by cases hq'; simpa [Node.data] using hinv⟩
        · have hpd : pd = none := hp
          subst hpd
          exact normList_normal (some (.mk j .text d as ks)) none ⟨rfl, hd, fun q hq' => by cases hq'⟩ r
    · next nm =>
      have h1 := normNode_normal (.mk j (.elem nm) d as ks)
      have h2 := normList_normal none none (by simp [PrevOk]) r
      have key : ∀ pd', normalL pd' ((normNode (.mk j (.elem nm) d as ks)).1 :: (normList none r).1) = true := by
        intro pd'
        have hkk : ((normNode (.mk j (.elem nm) d as ks)).1).kind = .elem nm := by simp [normNode, Node.kind]
        cases hc : (normNode (.mk j (.elem nm) d as ks)).1 with
        | mk j' k' d' as' ks' =>
          rw [hc] at hkk h1; simp only [Node.kind] at hkk; subst hkk
          simp [normalL, h1, h2]
      cases prev with
      | none => simpa [Option.toList] using key pd
      | some p =>
        simp only [Option.toList, List.cons_append, List.nil_append]
        rw [normalL_prev pd p _ hp]; exact key _
    · next hnt hne =>
      have h2 := normList_normal none none (by simp [PrevOk]) r
      have key : ∀ pd', normalL pd' (.mk j k d as ks :: (normList none r).1) = true := by
        intro pd'
        cases k <;> simp_all [normalL]
      cases prev with
      | none => simpa [Option.toList] using key pd
      | some p =>
        simp only [Option.toList, List.cons_append, List.nil_append]
        rw [normalL_prev pd p _ hp]; exact key _
end

end XmlRs.Dom
