import XmlRsModel.Lemmas.RunsDtdDecl
/-! Completeness of attribute-list, entity and notation declarations. -/
namespace XmlRs.Lex
open XmlRs Gen.Xml XmlRs.Names

theorem sp_of_ns {c : Char} (h : P.isNameChar c = true) : P.isSpace c = false := space_not_nameChar c h

/-- `S? >` : where a declaration ends -/
theorem runs_close {w : Str} (hw : okWs w = true) (Y : Str) :
    Runs env (.seq [.cls0 P.isSpace, .tag ['>']]) (w ++ '>' :: Y) (.ok (.seq [.leaf w, .leaf ['>']]) Y) :=
  Runs.seq (RunsSeq.cons (runs_cls0 hw (Stops.cons _ sp_gt)) (RunsSeq.cons (Runs.tag_ok ['>'] Y) (RunsSeq.nil _)))

/-! ### <!ATTLIST -/
def cstAttlist (w0 : Str) (e : QN) (defs : List CAttDef) (w1 : Str) : CST :=
  .node N.attlist_decl (.seq [.seq [.leaf kwATTLIST, .leaf w0], .seq [cstQN e, .many (defs.map cstAttDef)], .seq [.leaf w1, .leaf ['>']]])

theorem att_def_fails_at_close {w : Str} (hw : okWs w = true) (Y : Str) : Runs env (.nt N.att_def) (w ++ '>' :: Y) .fail := by
  apply Runs.nt_fail_of env_att_def
  unfold Prod.att_def
  refine Runs.seq_fail (RunsSeq.fail_head (Runs.seq_fail ?_))
  have hq : Runs env (.alt [.nt N.qname, .nt N.ns_att_name]) ('>' :: Y) .fail := by
    refine Runs.alt (RunsAlt.skip (runs_qname_fail (Stops.cons _ (by simp [ns_gt]))) (RunsAlt.skip ?_ (RunsAlt.nil _)))
    apply Runs.nt_fail_of env_ns_att_name
    unfold Prod.ns_att_name
    exact Runs.alt (RunsAlt.skip (Runs.seq_fail (RunsSeq.fail_head (Runs.tag_fail (strip_cons_ne _ _ (by decide)))))
      (RunsAlt.skip (Runs.tag_fail (strip_cons_ne _ _ (by decide))) (RunsAlt.nil _)))
  cases w with
  | nil => exact RunsSeq.fail_head (runs_cls1_fail (Stops.cons _ sp_gt))
  | cons c cs => exact RunsSeq.fail_tail (runs_cls1 (by simp) hw (Stops.cons _ sp_gt)) (RunsSeq.fail_head hq)

theorem att_def_str_length (a : CAttDef) (h : okAttDef a = true) : 0 < a.str.length := by
  obtain ⟨h0, _⟩ := okAttDef_parts h
  obtain ⟨a1, _⟩ := okWs1_parts h0
  have := List.length_pos_iff.mpr a1
  simp only [CAttDef.str, List.length_append]; omega

theorem runs_att_defs : ∀ (defs : List CAttDef) (w1 Y : Str), defs.all okAttDef = true → okWs w1 = true →
    RunsMany env (.nt N.att_def) (attDefsText defs ++ (w1 ++ '>' :: Y)) (.ok (defs.map cstAttDef) (w1 ++ '>' :: Y))
  | [], w1, Y, _, hw => by
    simp only [attDefsText, List.nil_append, List.map_nil]
    exact RunsMany.stop (att_def_fails_at_close hw Y)
  | a :: r, w1, Y, h, hw => by
    simp only [List.all_cons, Bool.and_eq_true] at h
    have ih := runs_att_defs r w1 Y h.2 hw
    simp only [attDefsText, List.map_cons, List.append_assoc]
    refine RunsMany.step (runs_att_def h.1 _) ?_ ih
    have := att_def_str_length a h.1
    simp only [List.length_append] at this ⊢; omega

theorem stops_nc_attdefs (defs : List CAttDef) (w1 Y : Str) (h : defs.all okAttDef = true) (hw : okWs w1 = true) :
    Stops P.isNameChar (attDefsText defs ++ (w1 ++ '>' :: Y)) := by
  cases defs with
  | nil => exact stops_nc_of_ws_then hw nc_gt Y
  | cons a r =>
    simp only [List.all_cons, Bool.and_eq_true] at h
    obtain ⟨h0, _⟩ := okAttDef_parts h.1
    simp only [attDefsText, CAttDef.str, List.append_assoc]
    exact stops_nc_ws1 h0 _

theorem runs_attlist {w0 : Str} {e : QN} {defs : List CAttDef} {w1 : Str} (h0 : okWs1 w0 = true) (he : okQN e = true)
    (hd : defs.all okAttDef = true) (h1 : okWs w1 = true) (Y : Str) :
    Runs env (.nt N.attlist_decl) ((CDtdItem.attlist w0 e defs w1).str ++ Y) (.ok (cstAttlist w0 e defs w1) Y) := by
  have e0 : [Char.ofNat 60,Char.ofNat 33,Char.ofNat 65,Char.ofNat 84,Char.ofNat 84,Char.ofNat 76,Char.ofNat 73,Char.ofNat 83,Char.ofNat 84] = kwATTLIST := rfl
  have e1 : [Char.ofNat 62] = ['>'] := rfl
  obtain ⟨a1, a2⟩ := okWs1_parts h0
  apply Runs.nt_of env_attlist_decl
  unfold Prod.attlist_decl
  rw [e0, e1]
  have htxt : (CDtdItem.attlist w0 e defs w1).str ++ Y = kwATTLIST ++ (w0 ++ (e.text ++ (attDefsText defs ++ (w1 ++ '>' :: Y)))) := by
    simp [CDtdItem.str]
  rw [htxt]
  exact Runs.seq (RunsSeq.cons (Runs.seq (RunsSeq.cons (Runs.tag_ok kwATTLIST _) (RunsSeq.cons (runs_cls1 a1 a2 (stops_space_name he _)) (RunsSeq.nil _))))
    (RunsSeq.cons (Runs.seq (RunsSeq.cons (runs_qname he (stops_nc_attdefs defs w1 Y hd h1)) (RunsSeq.cons (Runs.many (runs_att_defs defs w1 Y hd h1)) (RunsSeq.nil _))))
    (RunsSeq.cons (runs_close h1 Y) (RunsSeq.nil _))))

/-! ### <!ENTITY -/
def cstNdata : Option (Str × Str × Str) → CST
  | none => .seq []
  | some (a, b, n) => .node N.ndata_decl (.seq [.seq [.leaf a, .leaf kwNDATA, .leaf b], cstName n])

def cstEntDef : CEntDef → CST
  | .internal q vals => .node N.entity_def (cstEntityValue q vals)
  | .external id nd => .node N.entity_def (.seq [cstExtId id, cstNdata nd])

def cstEntity (w0 n w1 : Str) (d : CEntDef) (w2 : Str) : CST :=
  .node N.entity_decl (.node N.ge_decl (.seq [.seq [.seq [.leaf kwENTITY, .leaf w0], cstName n, .leaf w1], .seq [cstEntDef d, .seq [.leaf w2, .leaf ['>']]]]))

theorem okNameTok_stops_space {n : Str} (h : okNameTok n = true) (Y : Str) : Stops P.isSpace (n ++ Y) := by
  obtain ⟨c, t, e, hc⟩ := okNameTok_head h
  simp only [id] at e
  rw [e]; exact Stops.cons _ (sp_of_ns hc)

theorem extId_head (id : CExtId) : ∃ c t, id.str = c :: t ∧ (c = 'S' ∨ c = 'P') := by
  cases id with
  | sysId w q l => exact ⟨'S', _, rfl, .inl rfl⟩
  | pubId w qp p w2 qs l => exact ⟨'P', _, rfl, .inr rfl⟩

theorem entity_value_fails {Y : Str} (hY : Stops (fun c => c == '"' || c == '\'') Y) : Runs env (.nt N.entity_value) Y .fail := by
  have h34 : Char.ofNat 34 = '"' := rfl
  have h39 : Char.ofNat 39 = '\'' := rfl
  apply Runs.nt_fail_of env_entity_value
  unfold Prod.entity_value
  rw [h34, h39]
  have h1 : Stops (· == '"') Y := hY.mono fun c hc => by simp only [Bool.or_eq_false_iff] at hc; exact hc.1
  have h2 : Stops (· == '\'') Y := hY.mono fun c hc => by simp only [Bool.or_eq_false_iff] at hc; exact hc.2
  exact Runs.alt (RunsAlt.skip (Runs.seq_fail (RunsSeq.fail_head (runs_tag_fail_head h1)))
    (RunsAlt.skip (Runs.seq_fail (RunsSeq.fail_head (runs_tag_fail_head h2))) (RunsAlt.nil _)))

theorem runs_ent_def {d : CEntDef} (h : okEntDef d = true) {w2 : Str} (hw2 : okWs w2 = true) (Y : Str) :
    Runs env (.nt N.entity_def) (d.str ++ (w2 ++ '>' :: Y)) (.ok (cstEntDef d) (w2 ++ '>' :: Y)) := by
  have eN : [Char.ofNat 78,Char.ofNat 68,Char.ofNat 65,Char.ofNat 84,Char.ofNat 65] = kwNDATA := rfl
  cases d with
  | internal q vals =>
    simp only [okEntDef, Bool.and_eq_true, Bool.not_eq_true'] at h
    have htxt : (CEntDef.internal q vals).str ++ (w2 ++ '>' :: Y) = q :: (printPieces vals ++ q :: (w2 ++ '>' :: Y)) := by simp [CEntDef.str]
    rw [htxt]
    apply Runs.nt_of env_entity_def
    unfold Prod.entity_def
    exact Runs.alt (RunsAlt.hit (runs_entity_value q h.1.1 vals _ h.1.2 h.2))
  | external id nd =>
    simp only [okEntDef, Bool.and_eq_true] at h
    obtain ⟨c, t, ec, hc⟩ := extId_head id
    have hev : Runs env (.nt N.entity_value) ((CEntDef.external id nd).str ++ (w2 ++ '>' :: Y)) .fail := by
      apply entity_value_fails
      simp only [CEntDef.str, ec, List.cons_append, List.append_assoc]
      exact Stops.cons _ (by rcases hc with rfl | rfl <;> decide)
    apply Runs.nt_of env_entity_def
    unfold Prod.entity_def
    refine Runs.alt (RunsAlt.skip hev (RunsAlt.hit ?_))
    cases nd with
    | none =>
      have htxt : (CEntDef.external id none).str ++ (w2 ++ '>' :: Y) = id.str ++ (w2 ++ '>' :: Y) := by simp [CEntDef.str]
      rw [htxt]
      refine Runs.seq (RunsSeq.cons (runs_external_id h.1 _) (RunsSeq.cons (Runs.opt_none ?_) (RunsSeq.nil _)))
      apply Runs.nt_fail_of env_ndata_decl
      unfold Prod.ndata_decl
      rw [eN]
      refine Runs.seq_fail (RunsSeq.fail_head (Runs.seq_fail ?_))
      cases w2 with
      | nil => exact RunsSeq.fail_head (runs_cls1_fail (Stops.cons _ sp_gt))
      | cons x xs => exact RunsSeq.fail_tail (runs_cls1 (by simp) hw2 (Stops.cons _ sp_gt)) (RunsSeq.fail_head (Runs.tag_fail (strip_cons_ne _ _ (by decide))))
    | some v =>
      obtain ⟨a, b, n⟩ := v
      simp only [Bool.and_eq_true] at h
      obtain ⟨hid, ⟨ha, hb⟩, hn⟩ := h
      obtain ⟨a1, a2⟩ := okWs1_parts ha
      obtain ⟨b1, b2⟩ := okWs1_parts hb
      have htxt : (CEntDef.external id (some (a, b, n))).str ++ (w2 ++ '>' :: Y) = id.str ++ (a ++ (kwNDATA ++ (b ++ (n ++ (w2 ++ '>' :: Y))))) := by
        simp [CEntDef.str]
      rw [htxt]
      refine Runs.seq (RunsSeq.cons (runs_external_id hid _) (RunsSeq.cons (Runs.opt_some ?_) (RunsSeq.nil _)))
      apply Runs.nt_of env_ndata_decl
      unfold Prod.ndata_decl
      rw [eN]
      refine Runs.seq (RunsSeq.cons (Runs.seq (RunsSeq.cons (runs_cls1 a1 a2 (Stops.cons _ (by decide))) (RunsSeq.cons (Runs.tag_ok kwNDATA _)
        (RunsSeq.cons (runs_cls1 b1 b2 (okNameTok_stops_space hn _)) (RunsSeq.nil _))))) (RunsSeq.cons ?_ (RunsSeq.nil _)))
      exact runs_name (okNameTok_parts hn).2 (stops_nc_of_ws_then hw2 nc_gt Y)

theorem entDef_stops_space {d : CEntDef} (h : okEntDef d = true) (Y : Str) : Stops P.isSpace (d.str ++ Y) := by
  cases d with
  | internal q vals =>
    simp only [okEntDef, Bool.and_eq_true] at h
    exact Stops.cons _ (sp_of_quote h.1.1)
  | external id nd =>
    obtain ⟨c, t, ec, hc⟩ := extId_head id
    simp only [CEntDef.str, ec, List.cons_append, List.append_assoc]
    exact Stops.cons _ (by rcases hc with rfl | rfl <;> decide)

theorem runs_entity {w0 n w1 : Str} {d : CEntDef} {w2 : Str} (h0 : okWs1 w0 = true) (hn : okNameTok n = true) (h1 : okWs1 w1 = true)
    (hd : okEntDef d = true) (h2 : okWs w2 = true) (Y : Str) :
    Runs env (.nt N.entity_decl) ((CDtdItem.entity w0 n w1 d w2).str ++ Y) (.ok (cstEntity w0 n w1 d w2) Y) := by
  have e0 : [Char.ofNat 60,Char.ofNat 33,Char.ofNat 69,Char.ofNat 78,Char.ofNat 84,Char.ofNat 73,Char.ofNat 84,Char.ofNat 89] = kwENTITY := rfl
  have e1 : [Char.ofNat 62] = ['>'] := rfl
  obtain ⟨a1, a2⟩ := okWs1_parts h0
  obtain ⟨b1, b2⟩ := okWs1_parts h1
  apply Runs.nt_of env_entity_decl
  unfold Prod.entity_decl
  refine Runs.alt (RunsAlt.hit ?_)
  apply Runs.nt_of env_ge_decl
  unfold Prod.ge_decl
  rw [e0, e1]
  have htxt : (CDtdItem.entity w0 n w1 d w2).str ++ Y = kwENTITY ++ (w0 ++ (n ++ (w1 ++ (d.str ++ (w2 ++ '>' :: Y))))) := by simp [CDtdItem.str]
  rw [htxt]
  refine Runs.seq (RunsSeq.cons (Runs.seq (RunsSeq.cons (Runs.seq (RunsSeq.cons (Runs.tag_ok kwENTITY _) (RunsSeq.cons (runs_cls1 a1 a2 (okNameTok_stops_space hn _)) (RunsSeq.nil _))))
    (RunsSeq.cons (runs_name (okNameTok_parts hn).2 (stops_nc_ws1 h1 _)) (RunsSeq.cons (runs_cls1 b1 b2 (entDef_stops_space hd _)) (RunsSeq.nil _)))))
    (RunsSeq.cons (Runs.seq (RunsSeq.cons (runs_ent_def hd h2 Y) (RunsSeq.cons (runs_close h2 Y) (RunsSeq.nil _)))) (RunsSeq.nil _)))

/-! ### <!NOTATION -/
def cstNotId : CNotId → CST
  | .ext id => cstExtId id
  | .pubOnly w q p => .node N.public_id (.seq [.seq [.leaf kwPUBLIC, .leaf w], cstPubLit q p])

def cstNotation (w0 n w1 : Str) (id : CNotId) (w2 : Str) : CST :=
  .node N.notation_decl (.seq [.seq [.seq [.leaf kwNOTATION, .leaf w0], cstName n], .seq [.leaf w1, cstNotId id, .seq [.leaf w2, .leaf ['>']]]])

theorem runs_not_id {id : CNotId} (h : okNotId id = true) {w2 : Str} (hw2 : okWs w2 = true) (Y : Str) :
    Runs env (.alt [.nt N.external_id, .nt N.public_id]) (id.str ++ (w2 ++ '>' :: Y)) (.ok (cstNotId id) (w2 ++ '>' :: Y)) := by
  have e2 : [Char.ofNat 80,Char.ofNat 85,Char.ofNat 66,Char.ofNat 76,Char.ofNat 73,Char.ofNat 67] = kwPUBLIC := rfl
  cases id with
  | ext id => exact Runs.alt (RunsAlt.hit (runs_external_id (by simpa [okNotId] using h) _))
  | pubOnly w q p =>
    simp only [okNotId, Bool.and_eq_true] at h
    obtain ⟨⟨hw, hq⟩, hp⟩ := h
    obtain ⟨a1, a2⟩ := okWs1_parts hw
    have htxt : (CNotId.pubOnly w q p).str ++ (w2 ++ '>' :: Y) = kwPUBLIC ++ (w ++ (q :: (p ++ q :: (w2 ++ '>' :: Y)))) := by simp [CNotId.str]
    rw [htxt]
    refine Runs.alt (RunsAlt.skip (external_id_fails_on_public hw hq hp hw2 Y) (RunsAlt.hit ?_))
    apply Runs.nt_of env_public_id
    unfold Prod.public_id
    rw [e2]
    exact Runs.seq (RunsSeq.cons (Runs.seq (RunsSeq.cons (Runs.tag_ok kwPUBLIC _) (RunsSeq.cons (runs_cls1 a1 a2 (Stops.cons _ (sp_of_quote hq))) (RunsSeq.nil _))))
      (RunsSeq.cons (runs_pubid_literal hq hp _) (RunsSeq.nil _)))

theorem notId_stops_space (id : CNotId) (Y : Str) : Stops P.isSpace (id.str ++ Y) := by
  cases id with
  | ext id =>
    obtain ⟨c, t, ec, hc⟩ := extId_head id
    simp only [CNotId.str, ec, List.cons_append]
    exact Stops.cons _ (by rcases hc with rfl | rfl <;> decide)
  | pubOnly w q p => exact Stops.cons _ (by decide)

theorem runs_notation {w0 n w1 : Str} {id : CNotId} {w2 : Str} (h0 : okWs1 w0 = true) (hn : okNameTok n = true) (h1 : okWs1 w1 = true)
    (hid : okNotId id = true) (h2 : okWs w2 = true) (Y : Str) :
    Runs env (.nt N.notation_decl) ((CDtdItem.notationDecl w0 n w1 id w2).str ++ Y) (.ok (cstNotation w0 n w1 id w2) Y) := by
  have e0 : [Char.ofNat 60,Char.ofNat 33,Char.ofNat 78,Char.ofNat 79,Char.ofNat 84,Char.ofNat 65,Char.ofNat 84,Char.ofNat 73,Char.ofNat 79,Char.ofNat 78] = kwNOTATION := rfl
  have e1 : [Char.ofNat 62] = ['>'] := rfl
  obtain ⟨a1, a2⟩ := okWs1_parts h0
  obtain ⟨b1, b2⟩ := okWs1_parts h1
  apply Runs.nt_of env_notation_decl
  unfold Prod.notation_decl
  rw [e0, e1]
  have htxt : (CDtdItem.notationDecl w0 n w1 id w2).str ++ Y = kwNOTATION ++ (w0 ++ (n ++ (w1 ++ (id.str ++ (w2 ++ '>' :: Y))))) := by simp [CDtdItem.str]
  rw [htxt]
  exact Runs.seq (RunsSeq.cons (Runs.seq (RunsSeq.cons (Runs.seq (RunsSeq.cons (Runs.tag_ok kwNOTATION _) (RunsSeq.cons (runs_cls1 a1 a2 (okNameTok_stops_space hn _)) (RunsSeq.nil _))))
    (RunsSeq.cons (runs_name (okNameTok_parts hn).2 (stops_nc_ws1 h1 _)) (RunsSeq.nil _))))
    (RunsSeq.cons (Runs.seq (RunsSeq.cons (runs_cls1 b1 b2 (notId_stops_space id _)) (RunsSeq.cons (runs_not_id hid h2 Y) (RunsSeq.cons (runs_close h2 Y) (RunsSeq.nil _))))) (RunsSeq.nil _)))

end XmlRs.Lex
