import XmlRsModel.Lemmas.AbsContent
/-! `absDocument (tree of a rendering) = the abstract document`, and the size/depth facts `parseDoc` asks for. -/
namespace XmlRs.Lex
open XmlRs Gen.Xml XmlRs.Names

def miscBody : CMisc → CST
  | .comment s => cstComment s
  | .pi t b => cstPI t b
  | .ws w => .leaf w

theorem cstMisc_eq (m : CMisc) : cstMisc m = .node N.misc (miscBody m) := by cases m <;> rfl

theorem absMisc_cst (m : CMisc) (h : okMisc m = true) : absMisc (miscBody m) = m.erase := by
  cases m with
  | comment s =>
    have hc := absComment_cst s (by simpa [okMisc] using h)
    simp [miscBody, cstComment_eq, absMisc, CST.kidsL, hc, CMisc.erase]
  | pi t b =>
    have e1 : (N.pi == N.comment) = false := by decide
    simp [miscBody, cstPI_eq, absMisc, CST.kidsL, e1, absPI_cst, CMisc.erase]
  | ws w => simp [miscBody, absMisc, CST.kidsL, CMisc.erase]

theorem kidsLL_misc (ms : List CMisc) : kidsLL (ms.map cstMisc) = ms.map (fun m => (N.misc, miscBody m)) := by
  induction ms with
  | nil => rfl
  | cons m ms ih => simp [kidsLL, cstMisc_eq, CST.kidsL, ih]

theorem absProlog_misc : ∀ (ms : List CMisc), ms.all okMisc = true →
    absProlog (ms.map (fun m => (N.misc, miscBody m))) = .ok (ms.filterMap CMisc.erase)
  | [], _ => rfl
  | m :: ms, h => by
    simp only [List.all_cons, Bool.and_eq_true] at h
    simp only [List.map_cons, absProlog, absProlog_misc ms h.2, beq_self_eq_true, if_true, absMisc_cst m h.1, List.filterMap_cons]
    cases m.erase <;> rfl

theorem filterMap_misc : ∀ (ms : List CMisc), ms.all okMisc = true →
    (ms.map miscBody).filterMap absMisc = ms.filterMap CMisc.erase
  | [], _ => rfl
  | m :: ms, h => by
    simp only [List.all_cons, Bool.and_eq_true] at h
    simp only [List.map_cons, List.filterMap_cons, absMisc_cst m h.1, filterMap_misc ms h.2]

theorem find_misc_none (n : Nat) (hn : (N.misc == n) = false) (ms : List CMisc) :
    (ms.map (fun m => (N.misc, miscBody m))).find? (fun x => x.1 == n) = none := by
  induction ms with
  | nil => rfl
  | cons m ms ih => simp [List.find?_cons, hn, ih]

theorem filter_misc_all (ms : List CMisc) :
    ((ms.map (fun m => (N.misc, miscBody m))).filter (fun x => x.1 == N.misc)).map (·.2) = ms.map miscBody := by
  induction ms with
  | nil => rfl
  | cons m ms ih => simp [List.filter_cons, ih]

def rootBody (i : CItem) : CST :=
  match i with
  | .elem n as w e ks w' => .node N.element_body
        (if e then cstEmptyTag n as w
         else .seq [cstSTag n as w, .node N.content (.seq [cstCharData (leadText ks), .many (cstIters ks)]), cstETag n w'])
  | _ => .leaf []

theorem cstItemNode_elem (i : CItem) (h : isElemItem i = true) : cstItemNode i = .node N.element (rootBody i) := by
  cases i <;> simp_all [isElemItem, cstItemNode, rootBody]

/-- the document element, read back -/
theorem absElement_root (i : CItem) (hi : isElemItem i = true) (hok : okItem i = true) (f : Nat) (hf : i.depth ≤ f) :
    absElement f (rootBody i) = i.erase := by
  have h := abs_item i hok (by cases i <;> simp_all [isElemItem, isTextItem]) f hf []
  have e1 : (N.element == N.char_data) = false := by decide
  rw [cstItemNode_elem i hi] at h
  simp only [CST.kidsL, List.append_nil, absContent, e1, beq_self_eq_true, if_true, Bool.false_eq_true, if_false,
    List.cons.injEq, and_true] at h
  exact h

/-! ### the size of the tree bounds the nesting depth (fuel of `absElement` at the root) -/
mutual
theorem size_item : ∀ i : CItem, okItem i = true → i.depth ≤ (cstItemNode i).size
  | .text _, _ => by simp [CItem.depth]
  | .charRef _ _, _ => by simp [CItem.depth]
  | .entRef _, _ => by simp [CItem.depth]
  | .cdata _, _ => by simp [CItem.depth]
  | .pi _ _, _ => by simp [CItem.depth]
  | .comment _, _ => by simp [CItem.depth]
  | .elem n as w e ks w', hok => by
    obtain ⟨_, _, _, _, h5, h6, _⟩ := okElem_parts hok
    have ih := size_iters ks h6
    cases e with
    | true =>
      have := h5 rfl; subst this
      simp [CItem.depth, depthL, cstItemNode, CST.size]
    | false =>
      simp only [CItem.depth, cstItemNode, Bool.false_eq_true, if_false, CST.size, sizeL]
      omega
theorem size_iters : ∀ l : List CItem, okItems l = true → depthL l ≤ sizeL (cstIters l)
  | [], _ => by simp [depthL]
  | i :: rest, hok => by
    obtain ⟨hi, hrest⟩ := okItems_cons hok
    have ih := size_iters rest hrest
    have h1 := size_item i hi
    cases i with
    | text s => simp only [depthL, CItem.depth, cstIters]; omega
    | _ => simp only [depthL, cstIters, sizeL, CST.size] at *; omega
end

def docBody (d : CDoc) : CST :=
  .seq [.node N.prolog (.seq [.seq [], .many (d.before.map cstMisc), .seq []]), cstItemNode d.root, .many (d.after.map cstMisc)]

theorem cstDoc_eq (d : CDoc) : cstDoc d = .node N.document (docBody d) := rfl

theorem absDocument_cst (d : CDoc) (h : d.ok = true) : absDocument (docBody d) = .ok d.erase := by
  obtain ⟨_, h2, _, h4, h5, h6, _⟩ := CDoc.ok_parts h
  have hk : (docBody d).kidsL = (N.prolog, CST.seq [.seq [], .many (d.before.map cstMisc), .seq []]) ::
      (N.element, rootBody d.root) :: d.after.map (fun m => (N.misc, miscBody m)) := by
    simp [docBody, CST.kidsL, kidsLL, cstItemNode_elem d.root h4, kidsLL_misc]
  have hp : (CST.seq [.seq [], .many (d.before.map cstMisc), .seq []]).kidsL = d.before.map (fun m => (N.misc, miscBody m)) := by
    simp [CST.kidsL, kidsLL, kidsLL_misc]
  have e1 : (N.prolog == N.element) = false := by decide
  have e2 : (N.prolog == N.misc) = false := by decide
  have e3 : (N.element == N.misc) = false := by decide
  have hsize : d.root.depth ≤ (rootBody d.root).size + 1 := by
    have := size_item d.root h5
    rw [cstItemNode_elem d.root h4] at this
    simpa [CST.size] using this
  have hroot := absElement_root d.root h4 h5 _ hsize
  simp only [absDocument, hk, findL, List.find?_cons, beq_self_eq_true, Option.map_some, hp,
    find_misc_none N.xml_decl (by decide), Option.map_none, Option.bind_none, absProlog_misc d.before h2, e1,
    allL, List.filter_cons, e2, e3, Bool.false_eq_true, if_false, filter_misc_all, filterMap_misc d.after h6, hroot]
  rfl

/-- depth facts about the whole tree -/
theorem docBody_depth (d : CDoc) : (docBody d).elemDepth ≤ d.root.depth ∧ (docBody d).ntDepth N.children = 0 := by
  have h1 : noElL (d.before.map cstMisc) = true := noElL_map _ _ (fun m _ => noEl_misc m)
  have h2 : noElL (d.after.map cstMisc) = true := noElL_map _ _ (fun m _ => noEl_misc m)
  have d1 := noElL_depth _ h1
  have d2 := noElL_depth _ h2
  have d3 := depth_item d.root
  have e1 : (N.prolog == N.element) = false := by decide
  have e2 : (N.prolog == N.children) = false := by decide
  simp only [docBody, CST.elemDepth, CST.ntDepth, elemDepthL, ntDepthL, e1, e2, d1, d2, d3.2, Bool.false_eq_true, if_false]
  refine ⟨?_, by simp⟩
  have := d3.1
  simp only [Nat.max_zero, Nat.zero_max]
  exact this

end XmlRs.Lex
