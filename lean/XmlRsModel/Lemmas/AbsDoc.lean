import XmlRsModel.Lemmas.AbsDoctype
/-! `absDocument (tree of a rendering) = the abstract document`, and the size/depth facts `parseDoc` asks for. -/
namespace XmlRs.Lex
open XmlRs Gen.Xml XmlRs.Names

def miscBody : CMisc → CST
  | .comment s => cstComment s
  | .pi t b => cstPI t b
  | .ws w => .leaf w

theorem cstMisc_eq (m : CMisc) : cstMisc m = .node N.misc (miscBody m) := by cases m <;> rfl

theorem absMisc_cst (m : CMisc) (h : okMisc m = true) : absMisc (miscBody m) = m.erase := by
  cases m with
  | comment s =>
    have hc := absComment_cst s (by simpa [okMisc] using h)
    simp [miscBody, cstComment_eq, absMisc, CST.kidsL, hc, CMisc.erase]
  | pi t b =>
    have e1 : (N.pi == N.comment) = false := by decide
    simp [miscBody, cstPI_eq, absMisc, CST.kidsL, e1, absPI_cst, CMisc.erase]
  | ws w => simp [miscBody, absMisc, CST.kidsL, CMisc.erase]

theorem kidsLL_misc (ms : List CMisc) : kidsLL (ms.map cstMisc) = ms.map (fun m => (N.misc, miscBody m)) := by
  induction ms with
  | nil => rfl
  | cons m ms ih => simp [kidsLL, cstMisc_eq, CST.kidsL, ih]

theorem absProlog_misc : ∀ (ms : List CMisc), ms.all okMisc = true →
    absProlog (ms.map (fun m => (N.misc, miscBody m))) = .ok (ms.filterMap CMisc.erase)
  | [], _ => rfl
  | m :: ms, h => by
    simp only [List.all_cons, Bool.and_eq_true] at h
    simp only [List.map_cons, absProlog, absProlog_misc ms h.2, beq_self_eq_true, if_true, absMisc_cst m h.1, List.filterMap_cons]
    cases m.erase <;> rfl

theorem filterMap_misc : ∀ (ms : List CMisc), ms.all okMisc = true →
    (ms.map miscBody).filterMap absMisc = ms.filterMap CMisc.erase
  | [], _ => rfl
  | m :: ms, h => by
    simp only [List.all_cons, Bool.and_eq_true] at h
    simp only [List.map_cons, List.filterMap_cons, absMisc_cst m h.1, filterMap_misc ms h.2]

theorem find_misc_none (n : Nat) (hn : (N.misc == n) = false) (ms : List CMisc) :
    (ms.map (fun m => (N.misc, miscBody m))).find? (fun x => x.1 == n) = none := by
  induction ms with
  | nil => rfl
  | cons m ms ih => simp [List.find?_cons, hn, ih]

theorem filter_misc_all (ms : List CMisc) :
    ((ms.map (fun m => (N.misc, miscBody m))).filter (fun x => x.1 == N.misc)).map (·.2) = ms.map miscBody := by
  induction ms with
  | nil => rfl
  | cons m ms ih => simp [List.filter_cons, ih]

def rootBody (i : CItem) : CST :=
  match i with
  | .elem n as w e ks w' => .node N.element_body
        (if e then cstEmptyTag n as w
         else .seq [cstSTag n as w, .node N.content (.seq [cstCharData (leadText ks), .many (cstIters ks)]), cstETag n w'])
  | _ => .leaf []

theorem cstItemNode_elem (i : CItem) (h : isElemItem i = true) : cstItemNode i = .node N.element (rootBody i) := by
  cases i <;> simp_all [isElemItem, cstItemNode, rootBody]

/-- the document element, read back -/
theorem absElement_root (i : CItem) (hi : isElemItem i = true) (hok : okItem i = true) (f : Nat) (hf : i.depth ≤ f) :
    absElement f (rootBody i) = i.erase := by
  have h := abs_item i hok (by cases i <;> simp_all [isElemItem, isTextItem]) f hf []
  have e1 : (N.element == N.char_data) = false := by decide
  rw [cstItemNode_elem i hi] at h
  simp only [CST.kidsL, List.append_nil, absContent, e1, beq_self_eq_true, if_true, Bool.false_eq_true, if_false,
    List.cons.injEq, and_true] at h
  exact h

/-! ### the size of the tree bounds the nesting depth (fuel of `absElement` at the root) -/
mutual
theorem size_item : ∀ i : CItem, okItem i = true → i.depth ≤ (cstItemNode i).size
  | .text _, _ => by simp [CItem.depth]
  | .charRef _ _, _ => by simp [CItem.depth]
  | .entRef _, _ => by simp [CItem.depth]
  | .cdata _, _ => by simp [CItem.depth]
  | .pi _ _, _ => by simp [CItem.depth]
  | .comment _, _ => by simp [CItem.depth]
  | .elem n as w e ks w', hok => by
    obtain ⟨_, _, _, _, h5, h6, _⟩ := okElem_parts hok
    have ih := size_iters ks h6
    cases e with
    | true =>
      have := h5 rfl; subst this
      simp [CItem.depth, depthL, cstItemNode, CST.size]
    | false =>
      simp only [CItem.depth, cstItemNode, Bool.false_eq_true, if_false, CST.size, sizeL]
      omega
theorem size_iters : ∀ l : List CItem, okItems l = true → depthL l ≤ sizeL (cstIters l)
  | [], _ => by simp [depthL]
  | i :: rest, hok => by
    obtain ⟨hi, hrest⟩ := okItems_cons hok
    have ih := size_iters rest hrest
    have h1 := size_item i hi
    cases i with
    | text s => simp only [depthL, CItem.depth, cstIters]; omega
    | _ => simp only [depthL, cstIters, sizeL, CST.size] at *; omega
end

/-! ### the XML declaration, read back -/
def viBody (x : CDecl) : CST :=
  .seq [.seq [.leaf x.wsV, .leaf kwVersion, cstEq x.eqV1 x.eqV2],
    .seq [.leaf [x.qV], .node N.version_num (.seq [.leaf ['1', '.'], .leaf x.minor]), .leaf [x.qV]]]

def encKids : Option (Str × Str × Str × Char × Str) → List (Nat × CST)
  | none => []
  | some (w, e1, e2, q, name) => [(N.encoding_decl, .seq [.seq [.leaf w, .leaf kwEncoding, cstEq e1 e2],
      .seq [.leaf [q], .node N.enc_name (.seq [.leaf (encAlpha name), .leaf (encRest name)]), .leaf [q]]])]

def sdKids : Option (Str × Str × Str × Char × Bool) → List (Nat × CST)
  | none => []
  | some (w, e1, e2, q, b) => [(N.sd_decl, .seq [.seq [.leaf w, .leaf kwStandalone, cstEq e1 e2], .seq [.leaf [q], .leaf (yesNo b), .leaf [q]]])]

def declBody (x : CDecl) : CST :=
  .seq [.leaf ['<', '?', 'x', 'm', 'l'], .seq [cstVersionInfo x, cstEnc x.enc, cstSd x.sd], .seq [.leaf x.wsEnd, .leaf ['?', '>']]]

theorem cstDecl_eq (x : CDecl) : cstDecl x = .node N.xml_decl (declBody x) := rfl

theorem declBody_kidsL (x : CDecl) : (declBody x).kidsL = (N.version_info, viBody x) :: (encKids x.enc ++ sdKids x.sd) := by
  have h1 : (cstEnc x.enc).kidsL = encKids x.enc := by
    cases x.enc with
    | none => rfl
    | some v => obtain ⟨w, e1, e2, q, name⟩ := v; rfl
  have h2 : (cstSd x.sd).kidsL = sdKids x.sd := by
    cases x.sd with
    | none => rfl
    | some v => obtain ⟨w, e1, e2, q, b⟩ := v; rfl
  simp [declBody, CST.kidsL, kidsLL, cstVersionInfo, viBody, h1, h2]

theorem decl_version (x : CDecl) :
    ((findL N.version_info (declBody x).kidsL).bind fun v => (findL N.version_num v.kidsL).map (·.flatten)) = some ('1' :: '.' :: x.minor) := by
  have e1 : (N.eq == N.version_num) = false := by decide
  simp [declBody_kidsL, findL, viBody, CST.kidsL, kidsLL, cstEq, e1, CST.flatten, flattenL]

theorem decl_encoding (x : CDecl) :
    ((findL N.encoding_decl (declBody x).kidsL).bind fun v => (findL N.enc_name v.kidsL).map (·.flatten)) = x.enc.map (fun e => e.2.2.2.2) := by
  have e1 : (N.version_info == N.encoding_decl) = false := by decide
  have e2 : (N.sd_decl == N.encoding_decl) = false := by decide
  have e3 : (N.eq == N.enc_name) = false := by decide
  rw [declBody_kidsL]
  cases x.enc with
  | none =>
    cases x.sd with
    | none => simp [findL, encKids, sdKids, e1]
    | some v => obtain ⟨w, e1', e2', q, b⟩ := v; simp [findL, encKids, sdKids, e1, e2]
  | some v =>
    obtain ⟨w, e1', e2', q, name⟩ := v
    simp [findL, encKids, e1, CST.kidsL, kidsLL, cstEq, e3, CST.flatten, flattenL, encAlpha, encRest, spanP_append]

theorem hasSub_no_head (c : Char) (t : Str) : ∀ s : Str, c ∉ s → hasSub (c :: t) s = false
  | [], _ => by simp [hasSub, splitAtSub]
  | d :: ds, h => by
    have hd : c ≠ d := fun e => h (by simp [e])
    have ih := hasSub_no_head c t ds (fun hm => h (by simp [hm]))
    simp only [hasSub] at ih ⊢
    simp only [splitAtSub, stripPrefix, hd, if_false]
    cases hs : splitAtSub (c :: t) ds with
    | none => rfl
    | some v => simp [hs] at ih

theorem hasSub_mid (pat : Str) : ∀ (a b : Str), hasSub pat (a ++ (pat ++ b)) = true
  | [], b => by
    cases pat with
    | nil => cases b <;> simp [hasSub, splitAtSub, stripPrefix]
    | cons c t =>
      simp only [hasSub, List.nil_append, List.cons_append, splitAtSub]
      have := stripPrefix_append (c :: t) b
      simp only [List.cons_append] at this
      rw [this]; rfl
  | d :: ds, b => by
    have ih := hasSub_mid pat ds b
    simp only [hasSub, List.cons_append, splitAtSub] at ih ⊢
    cases stripPrefix pat (d :: (ds ++ (pat ++ b))) with
    | some _ => rfl
    | none =>
      cases hs : splitAtSub pat (ds ++ (pat ++ b)) with
      | none => simp [hs] at ih
      | some v => rfl

theorem ws_no_y {w : Str} (h : okWs w = true) : 'y' ∉ w := by
  intro hm
  have := (List.all_eq_true.mp h) 'y' hm
  revert this; decide

theorem all_ne_y_of_ws {w : Str} (h : okWs w = true) : w.all (fun c => c != 'y') = true := by
  unfold okWs at h
  rw [List.all_eq_true] at h ⊢
  intro c hc
  have := h c hc
  cases hy : c != 'y' with
  | true => rfl
  | false =>
    have : c = 'y' := by simpa using hy
    subst this
    revert this; decide

theorem not_mem_of_all_ne {s : Str} {c : Char} (h : s.all (fun d => d != c) = true) : c ∉ s := by
  intro hm
  have := (List.all_eq_true.mp h) c hm
  simp at this

theorem decl_standalone (x : CDecl) (h : okDecl x = true) :
    ((findL N.sd_decl (declBody x).kidsL).map fun v => hasSub ['y', 'e', 's'] v.flatten) = x.sd.map (fun e => e.2.2.2.2) := by
  obtain ⟨_, _, _, _, _, _, _, _, hsd, _⟩ := okDecl_parts h
  have e1 : (N.version_info == N.sd_decl) = false := by decide
  have e2 : (N.encoding_decl == N.sd_decl) = false := by decide
  rw [declBody_kidsL]
  have key : (findL N.sd_decl (sdKids x.sd)).map (fun v => hasSub ['y', 'e', 's'] v.flatten) = x.sd.map (fun e => e.2.2.2.2) := by
    cases hs : x.sd with
    | none => rfl
    | some v =>
      obtain ⟨w, e1', e2', q, b⟩ := v
      obtain ⟨_, a2, a3, a4, a5⟩ := hsd w e1' e2' q b hs
      simp only [sdKids, findL, List.find?_cons, beq_self_eq_true, Option.map_some, Option.some.injEq]
      have hf : (CST.seq [.seq [.leaf w, .leaf kwStandalone, cstEq e1' e2'], .seq [.leaf [q], .leaf (yesNo b), .leaf [q]]]).flatten =
          (w ++ (kwStandalone ++ (e1' ++ ('=' :: (e2' ++ [q]))))) ++ (yesNo b ++ [q]) := by
        simp [CST.flatten, flattenL, cstEq]
      rw [hf]
      cases b with
      | true => exact hasSub_mid ['y', 'e', 's'] _ [q]
      | false =>
        apply hasSub_no_head
        apply not_mem_of_all_ne
        have hq : (q != 'y') = true := by rcases isQuote_cases a5 with rfl | rfl <;> decide
        simp [List.all_append, all_ne_y_of_ws a2, all_ne_y_of_ws a3, all_ne_y_of_ws a4, yesNo, kwStandalone, hq]
  cases he : x.enc with
  | none => simpa [findL, encKids, e1] using key
  | some v =>
    obtain ⟨w, e1', e2', q, name⟩ := v
    simpa [findL, encKids, e1, e2] using key

def docBody (d : CDoc) : CST :=
  .seq [.node N.prolog (.seq [cstDeclOpt d.decl, .many (d.before.map cstMisc), cstDoctypePart d.doctype]), cstItemNode d.root, .many (d.after.map cstMisc)]

theorem cstDoc_eq (d : CDoc) : cstDoc d = .node N.document (docBody d) := rfl

def miscEntries (ms : List CMisc) : List (Nat × CST) := ms.map (fun m => (N.misc, miscBody m))

def declEntry : Option CDecl → List (Nat × CST)
  | none => []
  | some x => [(N.xml_decl, declBody x)]

def doctypeEntries : Option (CDoctype × List CMisc) → List (Nat × CST)
  | none => []
  | some (dt, ms) => (N.doctype_decl, doctypeBody dt) :: miscEntries ms

theorem prolog_kidsL (d : CDoc) :
    (CST.seq [cstDeclOpt d.decl, .many (d.before.map cstMisc), cstDoctypePart d.doctype]).kidsL =
      declEntry d.decl ++ (miscEntries d.before ++ doctypeEntries d.doctype) := by
  have h1 : (cstDeclOpt d.decl).kidsL = declEntry d.decl := by
    cases d.decl with
    | none => rfl
    | some x => simp [cstDeclOpt, cstDecl_eq, CST.kidsL, declEntry]
  have h2 : (cstDoctypePart d.doctype).kidsL = doctypeEntries d.doctype := by
    cases d.doctype with
    | none => rfl
    | some v => obtain ⟨dt, ms⟩ := v; simp [cstDoctypePart, cstDoctype_eq, CST.kidsL, kidsLL, kidsLL_misc, doctypeEntries, miscEntries]
  simp only [CST.kidsL, kidsLL, h1, h2, kidsLL_misc, miscEntries, List.append_nil]

theorem absProlog_misc_append : ∀ (ms : List CMisc) (rest : List (Nat × CST)) (xs : List TopItem), ms.all okMisc = true →
    absProlog rest = .ok xs → absProlog (miscEntries ms ++ rest) = .ok (ms.filterMap CMisc.erase ++ xs)
  | [], rest, xs, _, hr => by simpa [miscEntries] using hr
  | m :: ms, rest, xs, h, hr => by
    simp only [List.all_cons, Bool.and_eq_true] at h
    have ih := absProlog_misc_append ms rest xs h.2 hr
    simp only [miscEntries, List.map_cons, List.cons_append] at ih ⊢
    simp only [absProlog, ih, beq_self_eq_true, if_true, absMisc_cst m h.1, List.filterMap_cons]
    cases m.erase <;> rfl

theorem absProlog_doctype (d : CDoc) (h : d.ok = true) : absProlog (doctypeEntries d.doctype) = .ok (doctypeErase d.doctype) := by
  cases hd : d.doctype with
  | none => rfl
  | some v =>
    obtain ⟨dt, ms⟩ := v
    obtain ⟨b1, b2, _⟩ := CDoc.ok_doctype h dt ms hd
    have hm := absProlog_misc_append ms [] [] b2 rfl
    simp only [List.append_nil] at hm
    have e1 : (N.doctype_decl == N.misc) = false := by decide
    simp only [doctypeEntries, absProlog, hm, e1, Bool.false_eq_true, if_false, beq_self_eq_true, if_true, absDoctype_cst dt b1, doctypeErase]

theorem absProlog_skip_decl (b : CST) (rest : List (Nat × CST)) : absProlog ((N.xml_decl, b) :: rest) = absProlog rest := by
  have e1 : (N.xml_decl == N.misc) = false := by decide
  have e2 : (N.xml_decl == N.doctype_decl) = false := by decide
  simp only [absProlog, e1, e2, Bool.false_eq_true, if_false]
  cases absProlog rest <;> rfl

theorem absProlog_all (d : CDoc) (h : d.ok = true) :
    absProlog (declEntry d.decl ++ (miscEntries d.before ++ doctypeEntries d.doctype)) =
      .ok (d.before.filterMap CMisc.erase ++ doctypeErase d.doctype) := by
  obtain ⟨_, h2, _⟩ := CDoc.ok_parts h
  have hm := absProlog_misc_append d.before _ _ h2 (absProlog_doctype d h)
  cases d.decl with
  | none => simpa [declEntry] using hm
  | some x => simp only [declEntry, List.cons_append, List.nil_append, absProlog_skip_decl]; exact hm

theorem find_entries_none (n : Nat) (h1 : (N.misc == n) = false) (h2 : (N.doctype_decl == n) = false) (d : CDoc) :
    (miscEntries d.before ++ doctypeEntries d.doctype).find? (fun x => x.1 == n) = none := by
  have a : ∀ ms : List CMisc, (miscEntries ms).find? (fun x => x.1 == n) = none := fun ms => find_misc_none n h1 ms
  rw [List.find?_append, a]
  cases d.doctype with
  | none => rfl
  | some v => obtain ⟨dt, ms⟩ := v; simp [doctypeEntries, List.find?_cons, h2, a]

theorem absDocument_cst (d : CDoc) (h : d.ok = true) : absDocument (docBody d) = .ok d.erase := by
  obtain ⟨h1, h2, _, h4, h5, h6, _⟩ := CDoc.ok_parts h
  have e1 : (N.prolog == N.element) = false := by decide
  have e2 : (N.prolog == N.misc) = false := by decide
  have e3 : (N.element == N.misc) = false := by decide
  have hsize : d.root.depth ≤ (rootBody d.root).size + 1 := by
    have := size_item d.root h5
    rw [cstItemNode_elem d.root h4] at this
    simpa [CST.size] using this
  have hroot := absElement_root d.root h4 h5 _ hsize
  have hk : (docBody d).kidsL = (N.prolog, CST.seq [cstDeclOpt d.decl, .many (d.before.map cstMisc), cstDoctypePart d.doctype]) ::
      (N.element, rootBody d.root) :: d.after.map (fun m => (N.misc, miscBody m)) := by
    simp [docBody, CST.kidsL, kidsLL, cstItemNode_elem d.root h4, kidsLL_misc]
  have hp := prolog_kidsL d
  have hpro := absProlog_all d h
  have hnone := find_entries_none N.xml_decl (by decide) (by decide) d
  cases hd : d.decl with
  | none =>
    rw [hd] at hp hpro hk
    simp only [declEntry, List.nil_append] at hp hpro
    simp only [absDocument, hk, findL, List.find?_cons, beq_self_eq_true, Option.map_some, hp, hnone,
      Option.map_none, Option.bind_none, hpro, e1,
      allL, List.filter_cons, e2, e3, Bool.false_eq_true, if_false, filter_misc_all, filterMap_misc d.after h6, hroot]
    simp [CDoc.erase, hd]
  | some x =>
    have hx := h1 x hd
    rw [hd] at hp hpro hk
    simp only [declEntry, List.cons_append, List.nil_append] at hp hpro
    have hv := decl_version x
    have he := decl_encoding x
    have hs := decl_standalone x hx
    simp only [absDocument, hk, findL, List.find?_cons, beq_self_eq_true, Option.map_some, hp, Option.bind_some,
      hpro, e1, allL, List.filter_cons, e2, e3, Bool.false_eq_true, if_false, filter_misc_all, filterMap_misc d.after h6, hroot]
    simp only [findL] at hv he hs
    rw [hv, he, hs]
    simp [CDoc.erase, hd]

/-- depth facts about the whole tree -/
theorem docBody_depth (d : CDoc) : (docBody d).elemDepth ≤ d.root.depth ∧ (docBody d).ntDepth N.children = doctypeDepth d.doctype := by
  have h1 : noElL (d.before.map cstMisc) = true := noElL_map _ _ (fun m _ => noEl_misc m)
  have h2 : noElL (d.after.map cstMisc) = true := noElL_map _ _ (fun m _ => noEl_misc m)
  have d1 := noElL_depth _ h1
  have d2 := noElL_depth _ h2
  have d3 := depth_item d.root
  have e1 : (N.prolog == N.element) = false := by decide
  have e2 : (N.prolog == N.children) = false := by decide
  have d0 : (cstDeclOpt d.decl).elemDepth = 0 ∧ (cstDeclOpt d.decl).ntDepth N.children = 0 := by
    apply noEl_depth
    cases d.decl with
    | none => rfl
    | some x =>
      have hq : ∀ a b, noEl (cstEq a b) = true := fun a b => by simp [cstEq, noEl, noElL, N.eq, N.element, N.children]
      have he : noEl (cstEnc x.enc) = true := by
        cases x.enc with
        | none => rfl
        | some v => obtain ⟨w, e1, e2, q, name⟩ := v; simp [cstEnc, noEl, noElL, hq, N.encoding_decl, N.enc_name, N.element, N.children]
      have hs : noEl (cstSd x.sd) = true := by
        cases x.sd with
        | none => rfl
        | some v => obtain ⟨w, e1, e2, q, b⟩ := v; simp [cstSd, noEl, noElL, hq, N.sd_decl, N.element, N.children]
      simp [cstDeclOpt, cstDecl, cstVersionInfo, noEl, noElL, hq, he, hs, N.xml_decl, N.version_info, N.version_num, N.element, N.children]
  have d4 : (cstDoctypePart d.doctype).elemDepth = 0 ∧ (cstDoctypePart d.doctype).ntDepth N.children = doctypeDepth d.doctype := by
    cases d.doctype with
    | none => simp [cstDoctypePart, CST.elemDepth, elemDepthL, CST.ntDepth, ntDepthL, doctypeDepth]
    | some v =>
      obtain ⟨dt, ms⟩ := v
      have hm : noElL (ms.map cstMisc) = true := noElL_map _ _ (fun m _ => noEl_misc m)
      have dm := noElL_depth _ hm
      have hdt := doctype_depth dt
      have := noElem_depth _ hdt.1
      simp [cstDoctypePart, CST.elemDepth, elemDepthL, CST.ntDepth, ntDepthL, this, hdt.2, dm.1, dm.2, doctypeDepth]
  simp only [docBody, CST.elemDepth, CST.ntDepth, elemDepthL, ntDepthL, e1, e2, d0, d1, d2, d3.2, d4, Bool.false_eq_true, if_false]
  refine ⟨?_, by simp⟩
  have := d3.1
  simp only [Nat.max_zero, Nat.zero_max]
  exact this

end XmlRs.Lex
