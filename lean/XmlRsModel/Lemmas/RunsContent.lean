import XmlRsModel.Lemmas.RunsItems
/-! Completeness of `content` and `element`: every rendering of an element (concrete item) is parsed by the generated
    grammar to the tree `cstItemNode`, leaving exactly what follows it. -/
namespace XmlRs.Lex
open XmlRs Gen.Xml XmlRs.Names

def leadText : List CItem → Str
  | .text s :: _ => s
  | _ => []

def afterLead : List CItem → List CItem
  | .text _ :: r => r
  | l => l

mutual
/-- the tree of a non-text item, as produced by the alternatives of `content` -/
def cstItemNode : CItem → CST
  | .text _ => .leaf []
  | .charRef d h => cstRef (.charRef d h)
  | .entRef n => cstRef (.entRef n)
  | .cdata s => cstCData s
  | .pi t b => cstPI t b
  | .comment s => cstComment s
  | .elem n as w e ks w' =>
      .node N.element (.node N.element_body
        (if e then cstEmptyTag n as w
         else .seq [cstSTag n as w, .node N.content (.seq [cstCharData (leadText ks), .many (cstIters ks)]), cstETag n w']))
/-- the iterations of the `content` loop: an item followed by the (possibly empty) character data behind it;
    a leading text is not an iteration (it is read before the loop, or by the iteration in front of it) -/
def cstIters : List CItem → List CST
  | [] => []
  | .text _ :: rest => cstIters rest
  | i :: rest => .seq [cstItemNode i, cstCharData (leadText rest)] :: cstIters rest
end

def contentAltG : G := G.alt [G.nt N.element, G.nt N.reference, G.nt N.cdsect, G.nt N.pi, G.nt N.comment]
def optCharData : G := G.alt [G.nt N.char_data, G.seq []]
def contentIterG : G := G.seq [contentAltG, optCharData]

/-- where the content of an element ends -/
def ContentEnd (R : Str) : Prop := ∃ R', R = '<' :: '/' :: R'

theorem strL_lead (l : List CItem) : strL l = leadText l ++ strL (afterLead l) := by
  cases l with
  | nil => rfl
  | cons i r => cases i <;> simp [strL, leadText, afterLead, CItem.str]

/-- a non-text item starts with `<` or `&` -/
theorem nontext_head (i : CItem) (h : isTextItem i = false) : ∃ c t, i.str = c :: t ∧ cdChar c = false := by
  cases i with
  | text s => simp [isTextItem] at h
  | charRef d hx => cases hx <;> exact ⟨'&', _, rfl, cd_amp⟩
  | entRef n => exact ⟨'&', _, rfl, cd_amp⟩
  | cdata s => exact ⟨'<', _, rfl, cd_lt⟩
  | pi t b => exact ⟨'<', _, rfl, cd_lt⟩
  | comment s => exact ⟨'<', _, rfl, cd_lt⟩
  | elem n as w e ks w' => exact ⟨'<', _, rfl, cd_lt⟩

theorem adj_tail {i : CItem} {l : List CItem} (h : adjTextI (i :: l) = false) : adjTextI l = false := by
  simp only [adjTextI, Bool.or_eq_false_iff] at h; exact h.2

theorem afterLead_head {l : List CItem} (hadj : adjTextI l = false) :
    afterLead l = [] ∨ ∃ j r, afterLead l = j :: r ∧ isTextItem j = false := by
  cases l with
  | nil => exact .inl rfl
  | cons i r =>
    cases hi : isTextItem i with
    | false => right; refine ⟨i, r, ?_, hi⟩; cases i <;> simp_all [afterLead, isTextItem]
    | true =>
      cases i with
      | text s =>
        simp only [afterLead]
        cases r with
        | nil => exact .inl rfl
        | cons j r' =>
          right; refine ⟨j, r', rfl, ?_⟩
          simp only [adjTextI, isTextItem, Bool.true_and, Bool.or_eq_false_iff] at hadj
          exact hadj.1
      | _ => simp [isTextItem] at hi

/-- what follows the leading text of a list of items stops character data -/
theorem stops_after_lead {l : List CItem} (hadj : adjTextI l = false) {R : Str} (hR : ContentEnd R) :
    Stops cdChar (strL (afterLead l) ++ R) := by
  rcases afterLead_head hadj with h | ⟨j, r, h, hj⟩
  · obtain ⟨R', rfl⟩ := hR
    rw [h]; exact Stops.cons _ cd_lt
  · obtain ⟨c, t, e, hc⟩ := nontext_head j hj
    rw [h]; simp only [strL, e, List.cons_append]
    exact Stops.cons _ hc

theorem okItems_cons {i : CItem} {l : List CItem} (h : okItems (i :: l) = true) : okItem i = true ∧ okItems l = true := by
  simpa [okItems] using h

theorem okText_parts {s : Str} (h : okItem (.text s) = true) : s ≠ [] ∧ s.all cdChar = true ∧ hasSub C15.suf s = false := by
  simp only [okItem, Bool.and_eq_true, Bool.not_eq_true', List.isEmpty_eq_false_iff] at h
  exact ⟨h.1.1, h.1.2, h.2⟩

/-- the optional character data behind an item: the next text item if there is one -/
theorem runs_opt_char_data {l : List CItem} (hok : okItems l = true) (hadj : adjTextI l = false) {R : Str} (hR : ContentEnd R) :
    Runs env optCharData (strL l ++ R) (.ok (cstCharData (leadText l)) (strL (afterLead l) ++ R)) := by
  unfold optCharData
  apply Runs.opt_some
  have hst := stops_after_lead hadj hR
  rw [strL_lead l, List.append_assoc]
  cases l with
  | nil => exact runs_char_data (s := []) rfl (by decide) hst
  | cons i r =>
    cases i with
    | text s =>
      obtain ⟨_, h2, h3⟩ := okText_parts (okItems_cons hok).1
      exact runs_char_data h2 h3 hst
    | _ => exact runs_char_data (s := []) rfl (by decide) hst

theorem cstQN_node (q : QN) : ∃ b, cstQN q = .node N.qname b := by
  obtain ⟨pre, loc⟩ := q
  cases pre <;> exact ⟨_, rfl⟩

theorem tagNamesMatch_ok (n : QN) (as : List CAttr) (w w' : Str) (c : CST) :
    P.tagNamesMatch (.seq [cstSTag n as w, c, cstETag n w']) = true := by
  obtain ⟨b, hb⟩ := cstQN_node n
  simp [P.tagNamesMatch, cstSTag, cstETag, CST.kidsL, kidsLL, hb]

theorem okElem_parts {n : QN} {as : List CAttr} {w w' : Str} {e : Bool} {ks : List CItem} (h : okItem (.elem n as w e ks w') = true) :
    okQN n = true ∧ as.all okAttr = true ∧ okWs w = true ∧ okWs w' = true ∧ (e = true → ks = []) ∧ okItems ks = true ∧ adjTextI ks = false := by
  simp only [okItem, Bool.and_eq_true, Bool.not_eq_true', Bool.or_eq_true, List.isEmpty_iff] at h
  obtain ⟨⟨⟨⟨⟨⟨h1, h2⟩, h3⟩, h4⟩, h5⟩, h6⟩, h7⟩ := h
  refine ⟨h1, h2, h3, h4, ?_, h6, h7⟩
  intro he; subst he; simpa using h5

theorem cdsect_fails_on (c : Char) (r : Str) (hc : c ≠ '!') : Runs env (.nt N.cdsect) ('<' :: c :: r) .fail := by
  have e0 : [Char.ofNat 60,Char.ofNat 33,Char.ofNat 91,Char.ofNat 67,Char.ofNat 68,Char.ofNat 65,Char.ofNat 84,Char.ofNat 65,Char.ofNat 91] = cdataOpen := rfl
  apply Runs.nt_fail_of env_cdsect
  unfold Prod.cdsect
  rw [e0]
  refine Runs.seq_fail (RunsSeq.fail_head (Runs.tag_fail ?_))
  simp [cdataOpen, stripPrefix, Ne.symm hc]

theorem cdsect_fails_on_comment (r : Str) : Runs env (.nt N.cdsect) ('<' :: '!' :: '-' :: r) .fail := by
  have e0 : [Char.ofNat 60,Char.ofNat 33,Char.ofNat 91,Char.ofNat 67,Char.ofNat 68,Char.ofNat 65,Char.ofNat 84,Char.ofNat 65,Char.ofNat 91] = cdataOpen := rfl
  apply Runs.nt_fail_of env_cdsect
  unfold Prod.cdsect
  rw [e0]
  exact Runs.seq_fail (RunsSeq.fail_head (Runs.tag_fail (by simp [cdataOpen, stripPrefix])))

theorem pi_fails_on (c : Char) (r : Str) (hc : c ≠ '?') : Runs env (.nt N.pi) ('<' :: c :: r) .fail := by
  have e0 : [Char.ofNat 60, Char.ofNat 63] = ['<', '?'] := rfl
  apply Runs.nt_fail_of env_pi
  unfold Prod.pi
  rw [e0]
  refine Runs.seq_fail (RunsSeq.fail_head (Runs.tag_fail ?_))
  simp [stripPrefix, Ne.symm hc]

theorem comment_fails_on (c : Char) (r : Str) (hc : c ≠ '!') : Runs env (.nt N.comment) ('<' :: c :: r) .fail := by
  have e0 : [Char.ofNat 60, Char.ofNat 33, Char.ofNat 45, Char.ofNat 45] = ['<', '!', '-', '-'] := rfl
  apply Runs.nt_fail_of env_comment
  unfold Prod.comment
  rw [e0]
  refine Runs.seq_fail (RunsSeq.fail_head (Runs.tag_fail ?_))
  simp [stripPrefix, Ne.symm hc]

theorem ns_bang : P.isNameStartChar '!' = false := by decide
theorem ns_q : P.isNameStartChar '?' = false := by decide

/-- the content loop stops in front of an end tag -/
theorem content_alt_fails_at_end {R : Str} (hR : ContentEnd R) : Runs env contentAltG R .fail := by
  obtain ⟨R', rfl⟩ := hR
  unfold contentAltG
  refine Runs.alt (RunsAlt.skip (runs_element_fail (.inr ⟨_, rfl, Stops.cons _ ns_slash⟩))
    (RunsAlt.skip (runs_reference_fail (Stops.cons _ (by decide)))
    (RunsAlt.skip (cdsect_fails_on '/' R' (by decide))
    (RunsAlt.skip (pi_fails_on '/' R' (by decide))
    (RunsAlt.skip (comment_fails_on '/' R' (by decide)) (RunsAlt.nil _))))))

mutual
theorem runs_item : ∀ (i : CItem), okItem i = true → isTextItem i = false → ∀ X : Str,
    Runs env contentAltG (i.str ++ X) (.ok (cstItemNode i) X)
  | .text s, _, ht, _ => by simp [isTextItem] at ht
  | .charRef d h, hok, _, X => by
    unfold contentAltG
    have hq : ∀ q, okPiece q (.charRef d h) = true := fun q => by simpa [okPiece, okItem] using hok
    have hr := runs_reference (.charRef d h) X hq (fun s => by simp)
    obtain ⟨t, ht⟩ := printPiece_ref_head (.charRef d h) hq (fun s => by simp)
    simp only [CItem.str, cstItemNode]
    refine Runs.alt (RunsAlt.skip ?_ (RunsAlt.hit hr))
    rw [ht]
    exact runs_element_fail (.inl (Stops.cons _ (by decide)))
  | .entRef n, hok, _, X => by
    unfold contentAltG
    have hq : ∀ q, okPiece q (.entRef n) = true := fun q => by simpa [okPiece, okItem] using hok
    have hr := runs_reference (.entRef n) X hq (fun s => by simp)
    simp only [CItem.str, cstItemNode]
    refine Runs.alt (RunsAlt.skip ?_ (RunsAlt.hit hr))
    exact runs_element_fail (.inl (Stops.cons _ (by decide)))
  | .cdata s, hok, _, X => by
    unfold contentAltG
    simp only [okItem, Bool.and_eq_true, Bool.not_eq_true'] at hok
    simp only [CItem.str, cstItemNode]
    have hc := runs_cdsect (s := s) X hok.1 hok.2
    refine Runs.alt (RunsAlt.skip ?_ (RunsAlt.skip ?_ (RunsAlt.hit hc)))
    · exact runs_element_fail (.inr ⟨_, rfl, Stops.cons _ ns_bang⟩)
    · exact runs_reference_fail (Stops.cons _ (by decide))
  | .pi t b, hok, _, X => by
    unfold contentAltG
    simp only [okItem] at hok
    simp only [CItem.str, cstItemNode]
    have hp := runs_pi (t := t) (b := b) X hok
    refine Runs.alt (RunsAlt.skip ?_ (RunsAlt.skip ?_ (RunsAlt.skip ?_ (RunsAlt.hit hp))))
    · exact runs_element_fail (.inr ⟨_, rfl, Stops.cons _ ns_q⟩)
    · exact runs_reference_fail (Stops.cons _ (by decide))
    · exact cdsect_fails_on '?' _ (by decide)
  | .comment s, hok, _, X => by
    unfold contentAltG
    simp only [okItem] at hok
    simp only [CItem.str, cstItemNode]
    have hp := runs_comment (s := s) X hok
    refine Runs.alt (RunsAlt.skip ?_ (RunsAlt.skip ?_ (RunsAlt.skip ?_ (RunsAlt.skip ?_ (RunsAlt.hit hp)))))
    · exact runs_element_fail (.inr ⟨_, rfl, Stops.cons _ ns_bang⟩)
    · exact runs_reference_fail (Stops.cons _ (by decide))
    · exact cdsect_fails_on_comment _
    · exact pi_fails_on '!' _ (by decide)
  | .elem n as w e ks w', hok, _, X => by
    unfold contentAltG
    exact Runs.alt (RunsAlt.hit (runs_element n as w e ks w' hok X))
theorem runs_element : ∀ (n : QN) (as : List CAttr) (w : Str) (e : Bool) (ks : List CItem) (w' : Str),
    okItem (.elem n as w e ks w') = true → ∀ X : Str,
    Runs env (.nt N.element) ((CItem.elem n as w e ks w').str ++ X) (.ok (cstItemNode (.elem n as w e ks w')) X)
  | n, as, w, e, ks, w', hok, X => by
    obtain ⟨h1, h2, h3, h4, h5, h6, h7⟩ := okElem_parts hok
    apply Runs.nt_of env_element
    unfold Prod.element
    apply Runs.nt_of env_element_body
    unfold Prod.element_body
    cases e with
    | true =>
      simp only [CItem.str, if_true, List.cons_append, List.append_assoc, List.nil_append]
      exact Runs.alt (RunsAlt.hit (runs_empty_tag h1 h2 h3))
    | false =>
      simp only [CItem.str, Bool.false_eq_true, if_false, List.cons_append, List.append_assoc, List.nil_append]
      refine Runs.alt (RunsAlt.skip (runs_empty_tag_fail_on_stag h1 h2 h3) (RunsAlt.hit ?_))
      refine Runs.verify_ok ?_ (tagNamesMatch_ok n as w w' _)
      have hend : ContentEnd ('<' :: '/' :: (n.text ++ (w' ++ '>' :: X))) := ⟨_, rfl⟩
      have hcontent : Runs env (.nt N.content) (strL ks ++ '<' :: '/' :: (n.text ++ (w' ++ '>' :: X)))
          (.ok (.node N.content (.seq [cstCharData (leadText ks), .many (cstIters ks)])) ('<' :: '/' :: (n.text ++ (w' ++ '>' :: X)))) := by
        apply Runs.nt_of env_content
        unfold Prod.content
        exact Runs.seq (RunsSeq.cons (runs_opt_char_data h6 h7 hend) (RunsSeq.cons (Runs.many (runs_iters ks h6 h7 _ hend)) (RunsSeq.nil _)))
      exact Runs.seq (RunsSeq.cons (runs_stag h1 h2 h3) (RunsSeq.cons hcontent (RunsSeq.cons (runs_etag h1 h4) (RunsSeq.nil _))))
theorem runs_iters : ∀ (l : List CItem), okItems l = true → adjTextI l = false → ∀ R : Str, ContentEnd R →
    RunsMany env contentIterG (strL (afterLead l) ++ R) (.ok (cstIters l) R)
  | [], _, _, R, hR => by
    simp only [afterLead, strL, List.nil_append, cstIters]
    exact RunsMany.stop (Runs.seq_fail (RunsSeq.fail_head (content_alt_fails_at_end hR)))
  | i :: rest, hok, hadj, R, hR => by
    obtain ⟨hi, hrest⟩ := okItems_cons hok
    have hadj' := adj_tail hadj
    have ih := runs_iters rest hrest hadj' R hR
    cases hti : isTextItem i with
    | true =>
      cases i with
      | text s =>
        simp only [afterLead, cstIters]
        -- the rest does not start with a text: `afterLead rest = rest`
        have : afterLead rest = rest := by
          cases rest with
          | nil => rfl
          | cons j r' =>
            simp only [adjTextI, isTextItem, Bool.true_and, Bool.or_eq_false_iff] at hadj
            cases j <;> simp_all [afterLead, isTextItem]
        rw [this] at ih
        exact ih
      | _ => simp [isTextItem] at hti
    | false =>
      have hitem := runs_item i hi hti (strL rest ++ R)
      have hcd := runs_opt_char_data hrest hadj' hR
      have e1 : afterLead (i :: rest) = i :: rest := by cases i <;> simp_all [afterLead, isTextItem]
      have e2 : cstIters (i :: rest) = .seq [cstItemNode i, cstCharData (leadText rest)] :: cstIters rest := by
        cases i <;> simp_all [cstIters, isTextItem]
      rw [e1, e2]
      simp only [strL, List.append_assoc]
      refine RunsMany.step (r := strL (afterLead rest) ++ R) ?_ ?_ ih
      · unfold contentIterG
        exact Runs.seq (RunsSeq.cons hitem (RunsSeq.cons hcd (RunsSeq.nil _)))
      · obtain ⟨c, t, e, _⟩ := nontext_head i hti
        have hl := congrArg List.length (strL_lead rest)
        simp only [List.length_append] at hl ⊢
        rw [e]; simp only [List.length_cons]; omega
end

theorem sp_lt : P.isSpace '<' = false := by decide

theorem comment_fails_nil : Runs env (.nt N.comment) [] .fail := by
  apply Runs.nt_fail_of env_comment
  unfold Prod.comment
  exact Runs.seq_fail (RunsSeq.fail_head (Runs.tag_fail rfl))

theorem pi_fails_nil : Runs env (.nt N.pi) [] .fail := by
  apply Runs.nt_fail_of env_pi
  unfold Prod.pi
  exact Runs.seq_fail (RunsSeq.fail_head (Runs.tag_fail rfl))

theorem comment_fails_nonlt {c : Char} (r : Str) (hc : c ≠ '<') : Runs env (.nt N.comment) (c :: r) .fail := by
  have e0 : [Char.ofNat 60, Char.ofNat 33, Char.ofNat 45, Char.ofNat 45] = ['<', '!', '-', '-'] := rfl
  apply Runs.nt_fail_of env_comment
  unfold Prod.comment
  rw [e0]
  exact Runs.seq_fail (RunsSeq.fail_head (Runs.tag_fail (strip_cons_ne _ _ (Ne.symm hc))))

theorem pi_fails_nonlt {c : Char} (r : Str) (hc : c ≠ '<') : Runs env (.nt N.pi) (c :: r) .fail := by
  have e0 : [Char.ofNat 60, Char.ofNat 63] = ['<', '?'] := rfl
  apply Runs.nt_fail_of env_pi
  unfold Prod.pi
  rw [e0]
  exact Runs.seq_fail (RunsSeq.fail_head (Runs.tag_fail (strip_cons_ne _ _ (Ne.symm hc))))


end XmlRs.Lex
