import XmlRsModel.Lemmas.DomStep
/-! The initial state of a history (a parsed document numbered in pre-order) satisfies the invariant:
    the ids of the tree built from `start` are exactly the interval `[start, end)`, each once. -/
namespace XmlRs.Dom
open List

/-- indicator of the half-open interval -/
def ivl (lo hi a : Nat) : Nat := if lo ≤ a ∧ a < hi then 1 else 0

theorem ivl_add (lo mid hi a : Nat) (h1 : lo ≤ mid) (h2 : mid ≤ hi) : ivl lo mid a + ivl mid hi a = ivl lo hi a := by
  unfold ivl
  by_cases c1 : lo ≤ a ∧ a < mid
  · have : ¬ (mid ≤ a ∧ a < hi) := by omega
    have : lo ≤ a ∧ a < hi := by omega
    simp [*]
  · by_cases c2 : mid ≤ a ∧ a < hi
    · have : lo ≤ a ∧ a < hi := by omega
      simp [*]
    · have : ¬ (lo ≤ a ∧ a < hi) := by omega
      simp [*]

theorem ivl_empty (lo a : Nat) : ivl lo lo a = 0 := by
  unfold ivl; rw [if_neg (by omega)]

theorem ivl_one (lo a : Nat) : (if lo == a then 1 else 0) = ivl lo (lo + 1) a := by
  unfold ivl
  by_cases h : lo = a
  · subst h; simp
  · have : (lo == a) = false := by simpa using h
    have : ¬ (lo ≤ a ∧ a < lo + 1) := by omega
    simp [*]

theorem mkItems_ivl (start : Nat) (ps : List Piece) :
    start ≤ (mkItems start ps).2 ∧ ∀ a, cntL a (mkItems start ps).1 = ivl start (mkItems start ps).2 a := by
  obtain ⟨h1, h2⟩ := mkItems_spec start ps
  refine ⟨by omega, fun a => ?_⟩
  rw [h2 a, h1]; rfl

theorem leaf_ivl (next : Nat) (k : Kind) (d : Str) (a : Nat) : cnt a (Node.mk next k d [] []) = ivl next (next + 1) a := by
  rw [cnt_mk, cntL_nil, ← ivl_one]; omega

theorem buildAttrs_spec (start : Nat) (as : List Attr) :
    start ≤ (buildAttrs start as).2 ∧ ∀ a, cntL a (buildAttrs start as).1 = ivl start (buildAttrs start as).2 a := by
  induction as generalizing start with
  | nil => exact ⟨Nat.le_refl _, fun a => by simp [buildAttrs, cntL_nil, ivl_empty]⟩
  | cons x r ih =>
    simp only [buildAttrs]
    by_cases hns : isNsDecl x.name = true
    · simp only [hns, if_true]; exact ih start
    · simp only [hns]
      obtain ⟨m1, m2⟩ := mkItems_ivl (start + 1) x.vals
      obtain ⟨r1, r2⟩ := ih (mkItems (start + 1) x.vals).2
      refine ⟨by simp only [Bool.false_eq_true, if_false]; omega, fun a => ?_⟩
      simp only [Bool.false_eq_true, if_false]
      rw [cntL_cons, cnt_mk, cntL_nil, r2 a, m2 a, ivl_one]
      have e1 := ivl_add start (start + 1) (mkItems (start + 1) x.vals).2 a (by omega) m1
      have e2 := ivl_add start (mkItems (start + 1) x.vals).2 (buildAttrs (mkItems (start + 1) x.vals).2 r).2 a (by omega) r1
      omega

mutual
theorem buildNode_spec (start : Nat) : (i : Item) →
    start < (buildNode start i).2 ∧ ∀ a, cnt a (buildNode start i).1 = ivl start (buildNode start i).2 a
  | .text s => ⟨by simp [buildNode], fun a => by simp only [buildNode]; exact leaf_ivl _ _ _ a⟩
  | .cdata s => ⟨by simp [buildNode], fun a => by simp only [buildNode]; exact leaf_ivl _ _ _ a⟩
  | .comment s => ⟨by simp [buildNode], fun a => by simp only [buildNode]; exact leaf_ivl _ _ _ a⟩
  | .pi t d => ⟨by simp [buildNode], fun a => by simp only [buildNode]; exact leaf_ivl _ _ _ a⟩
  | .charRef d h => ⟨by simp [buildNode], fun a => by simp only [buildNode]; exact leaf_ivl _ _ _ a⟩
  | .entRef n => ⟨by simp [buildNode], fun a => by simp only [buildNode]; exact leaf_ivl _ _ _ a⟩
  | .elem q attrs kids => by
    obtain ⟨a1, a2⟩ := buildAttrs_spec (start + 1) attrs
    obtain ⟨k1, k2⟩ := buildNodes_spec (buildAttrs (start + 1) attrs).2 kids
    simp only [buildNode]
    refine ⟨by omega, fun a => ?_⟩
    rw [cnt_mk, a2 a, k2 a, ivl_one]
    have e1 := ivl_add start (start + 1) (buildAttrs (start + 1) attrs).2 a (by omega) a1
    have e2 := ivl_add start (buildAttrs (start + 1) attrs).2 (buildNodes (buildAttrs (start + 1) attrs).2 kids).2 a (by omega) k1
    omega
theorem buildNodes_spec (start : Nat) : (l : List Item) →
    start ≤ (buildNodes start l).2 ∧ ∀ a, cntL a (buildNodes start l).1 = ivl start (buildNodes start l).2 a
  | [] => ⟨Nat.le_refl _, fun a => by simp [buildNodes, cntL_nil, ivl_empty]⟩
  | k :: r => by
    obtain ⟨x1, x2⟩ := buildNode_spec start k
    obtain ⟨r1, r2⟩ := buildNodes_spec (buildNode start k).2 r
    simp only [buildNodes]
    refine ⟨by omega, fun a => ?_⟩
    rw [cntL_cons, x2 a, r2 a]
    exact ivl_add start _ _ a (by omega) r1
end

theorem buildTop_spec (start : Nat) (t : TopItem) :
    start < (buildTop start t).2 ∧ ∀ a, cnt a (buildTop start t).1 = ivl start (buildTop start t).2 a := by
  cases t with
  | comment s => exact ⟨by simp [buildTop], fun a => leaf_ivl _ _ _ a⟩
  | pi tg d => exact ⟨by simp [buildTop], fun a => leaf_ivl _ _ _ a⟩
  | doctype dt => exact ⟨by simp [buildTop], fun a => leaf_ivl _ _ _ a⟩
  | elem e => exact buildNode_spec start e

theorem buildTops_spec (start : Nat) (l : List TopItem) :
    start ≤ (buildTops start l).2 ∧ ∀ a, cntL a (buildTops start l).1 = ivl start (buildTops start l).2 a := by
  induction l generalizing start with
  | nil => exact ⟨Nat.le_refl _, fun a => by simp [buildTops, cntL_nil, ivl_empty]⟩
  | cons t r ih =>
    obtain ⟨x1, x2⟩ := buildTop_spec start t
    obtain ⟨r1, r2⟩ := ih (buildTop start t).2
    simp only [buildTops]
    refine ⟨by omega, fun a => ?_⟩
    rw [cntL_cons, x2 a, r2 a]
    exact ivl_add start _ _ a (by omega) r1

/-- the state every history starts from satisfies the invariant -/
theorem buildSt_inv (d : IDoc) : Inv (buildSt d) := by
  obtain ⟨h1, h2⟩ := buildTops_spec 1 d.kids
  have hc : ∀ a, cntL a (buildSt d).roots = ivl 0 (buildTops 1 d.kids).2 a := fun a => by
    simp only [buildSt, cntL_roots, cnt_mk, cntL_nil, h2 a]
    have := ivl_one 0 a
    have e := ivl_add 0 1 (buildTops 1 d.kids).2 a (by omega) h1
    simp only [Nat.zero_add] at this
    omega
  refine ⟨fun a => ?_, fun a ha => ?_⟩
  · rw [hc a]; unfold ivl; split <;> omega
  · rw [hc a] at ha
    unfold ivl at ha
    split at ha
    · show a < (buildTops 1 d.kids).2; omega
    · omega

end XmlRs.Dom
