import XmlRsModel.Lemmas.XRunsStep
/-! Completeness of node tests, and the failure of keyword alternatives on names that merely begin with the keyword. -/
namespace XmlRs.XLex
open XmlRs XmlRs.XPath XmlRs.Lex
open Gen.XPath

/-- no `::` inside -/
def noDC : Str → Bool
  | ':' :: ':' :: _ => false
  | _ :: r => noDC r
  | [] => true

theorem noDC_after : ∀ (a : Str) (d : Char) (r : Str), noDC (a ++ ':' :: d :: r) = true → d ≠ ':'
  | [], d, r, h => by
    intro e; subst e; simp [noDC] at h
  | c :: a, d, r, h => by
    have : noDC (a ++ ':' :: d :: r) = true := by
      simp only [List.cons_append] at h
      unfold noDC at h
      split at h
      · cases h
      · next heq => simp only [List.cons.injEq] at heq; rw [heq.2]; exact h
      · next heq => cases heq
    exact noDC_after a d r this

theorem noDC_no_colon : ∀ (a : Str), a.contains ':' = false → noDC a = true
  | [], _ => rfl
  | c :: a, h => by
    simp only [List.contains_cons, Bool.or_eq_false_iff, beq_eq_false_iff_ne, ne_eq] at h
    have ih := noDC_no_colon a h.2
    unfold noDC
    split
    · next heq => simp only [List.cons.injEq] at heq; exact absurd heq.1.symm h.1
    · next heq => simp only [List.cons.injEq] at heq; rw [← heq.2]; exact ih
    · next heq => cases heq

theorem noDC_one_colon : ∀ (a b : Str), a.contains ':' = false → b.contains ':' = false → noDC (a ++ ':' :: b) = true
  | [], b, _, hb => by
    cases b with
    | nil => rfl
    | cons d r =>
      simp only [List.contains_cons, Bool.or_eq_false_iff, beq_eq_false_iff_ne, ne_eq] at hb
      have := noDC_no_colon r hb.2
      simp only [List.nil_append]
      unfold noDC
      split
      · next heq => simp only [List.cons.injEq] at heq; exact absurd heq.2.1.symm hb.1
      · next heq =>
        simp only [List.cons.injEq] at heq
        rw [← heq.2]
        unfold noDC
        split
        · next heq2 => simp only [List.cons.injEq] at heq2; exact absurd heq2.1.symm hb.1
        · next heq2 => simp only [List.cons.injEq] at heq2; rw [← heq2.2]; exact this
        · next heq2 => cases heq2
      · next heq => cases heq
  | c :: a, b, ha, hb => by
    simp only [List.contains_cons, Bool.or_eq_false_iff, beq_eq_false_iff_ne, ne_eq] at ha
    have ih := noDC_one_colon a b ha.2 hb
    simp only [List.cons_append]
    unfold noDC
    split
    · next heq => simp only [List.cons.injEq] at heq; exact absurd heq.1.symm ha.1
    · next heq => simp only [List.cons.injEq] at heq; rw [← heq.2]; exact ih
    · next heq => cases heq

theorem qn_noDC {q : QN} (h : okQN q = true) : noDC q.text = true := by
  obtain ⟨pre, loc⟩ := q
  simp only [okQN, Bool.and_eq_true] at h
  cases pre with
  | none => exact noDC_no_colon loc (okNc_no_colon h.2)
  | some p => exact noDC_one_colon p loc (okNc_no_colon h.1) (okNc_no_colon h.2)

theorem axisTags_nameChars : ∀ t ∈ axisTags, t.all P.isNameChar = true := by decide

/-- what follows a name inside a step: no `::` and no `(` after optional white space, and nothing that continues the name -/
def NameCont (Z : Str) : Prop :=
  Stops P.isNameChar Z ∧ ∃ w T, Z = w ++ T ∧ okWs w = true ∧ Stops P.isSpace T ∧ Stops (· == ':') T ∧ Stops (· == '(') T

theorem nameCont_of_cont {l : Nat} (hl : l ≤ 10) {Z : Str} (h : Cont l Z) : NameCont Z := by
  refine ⟨h.stops_nc, ?_⟩
  obtain ⟨w, T, e, hw, hs, hh, hc⟩ := h.split
  refine ⟨w, T, e, hw, hs, hc, ?_⟩
  exact (hh 10 (by simp [allLevels]) hl).mono fun c hc => by simpa [opHeads] using hc

/-- a keyword of name characters in front of a name: what is left after the keyword does not continue with `ws* ::` -/
theorem name_no_dcolon {Nm Z : Str} (hN : Nm.all P.isNameChar = true) (hdc : noDC Nm = true) (hZ : NameCont Z) :
    ∀ t ∈ axisTags, ∀ U, stripPrefix t (Nm ++ Z) = some U → Runs env dcolon U .fail := by
  intro t ht U hU
  obtain ⟨u, hNu, rfl⟩ := strip_kw_name (axisTags_nameChars t ht) hZ.1 hU
  obtain ⟨hZ1, w, T, hZe, hw, hs, hc, _⟩ := hZ
  cases u with
  | nil => exact ws_tag_fails _ ⟨w, T, by simpa using hZe, hw, hs, hc⟩
  | cons c u' =>
    have hcN : P.isNameChar c = true := by
      rw [hNu] at hN
      simp only [List.all_append, List.all_cons, Bool.and_eq_true] at hN
      exact hN.2.1
    have hsp : Stops P.isSpace ((c :: u') ++ Z) := Stops.cons _ (space_not_nameChar c hcN)
    have h0 := Runs.cls0 (env := env) P.isSpace ((c :: u') ++ Z)
    rw [span_nil_of_stops hsp] at h0
    refine Runs.seq_fail (RunsSeq.fail_tail h0 (RunsSeq.fail_head (Runs.tag_fail ?_)))
    by_cases hcc : c = ':'
    · subst hcc
      cases u' with
      | nil =>
        rcases hZ1 with rfl | ⟨d, Z', rfl, hd⟩
        · rfl
        · have : d ≠ ':' := by intro e; subst e; simp [nameChar_colon] at hd
          simp [stripPrefix, Ne.symm this]
      | cons d u'' =>
        rw [hNu] at hdc
        have := noDC_after t d u'' hdc
        simp [stripPrefix, Ne.symm this]
    · simp [stripPrefix, Ne.symm hcc]

/-- `ws* (` does not follow a keyword that begins a name -/
theorem name_no_paren {t Nm Z U : Str} (ht : t.all P.isNameChar = true) (hN : Nm.all P.isNameChar = true) (hZ : NameCont Z)
    (hU : stripPrefix t (Nm ++ Z) = some U) (rest : List G) :
    RunsSeq env (G.cls0 P.isSpace :: G.tag ['('] :: rest) U .fail := by
  obtain ⟨u, hNu, rfl⟩ := strip_kw_name ht hZ.1 hU
  obtain ⟨hZ1, w, T, hZe, hw, hs, _, hp⟩ := hZ
  cases u with
  | nil =>
    simp only [List.nil_append]
    rw [hZe]
    exact RunsSeq.fail_tail (runs_cls0 hw hs) (RunsSeq.fail_head (runs_tag_fail_head hp))
  | cons c u' =>
    have hcN : P.isNameChar c = true := by
      rw [hNu] at hN
      simp only [List.all_append, List.all_cons, Bool.and_eq_true] at hN
      exact hN.2.1
    have hsp : Stops P.isSpace ((c :: u') ++ Z) := Stops.cons _ (space_not_nameChar c hcN)
    have h0 := Runs.cls0 (env := env) P.isSpace ((c :: u') ++ Z)
    rw [span_nil_of_stops hsp] at h0
    refine RunsSeq.fail_tail h0 (RunsSeq.fail_head (Runs.tag_fail (strip_cons_ne _ _ ?_)))
    intro e; subst e; revert hcN; decide

/-! ### node tests -/
def typeTags : List Str := [typeText .comment, typeText .text, typeText .pi, typeText .node]

theorem node_type_prod : Prod.node_type = G.alt (typeTags.map G.tag) := rfl

def cstTest : CTest → CST
  | .star => .node N.node_test (.node N.name_test (.leaf ['*']))
  | .nsStar p => .node N.node_test (.node N.name_test (.seq [cstNc p, .leaf [':', '*']]))
  | .name q => .node N.node_test (.node N.name_test (cstQN q))
  | .typeTest t w1 w2 => .node N.node_test (.seq [.node N.node_type (.leaf (typeText t)), .seq [.leaf w1, .leaf ['('], .leaf w2, .leaf [')']]])
  | .piLit w1 w2 q s w3 => .node N.node_test (.seq [.seq [.leaf (typeText .pi), .leaf w1, .leaf ['('], .leaf w2], cstLit q s, .seq [.leaf w3, .leaf [')']]])

def piHeadG : G := G.seq [G.tag (typeText .pi), G.cls0 P.isSpace, G.tag ['('], G.cls0 P.isSpace]
def parensG : G := G.seq [G.cls0 P.isSpace, G.tag ['('], G.cls0 P.isSpace, G.tag [')']]

theorem node_test_prod : Prod.node_test = G.alt [G.seq [piHeadG, G.nt N.literal, G.seq [G.cls0 P.isSpace, G.tag [')']]],
    G.seq [G.nt N.node_type, parensG], G.nt N.name_test] := rfl

theorem name_test_prod : Prod.name_test = G.alt [G.tag ['*'], G.seq [G.nt N.ncname, G.tag [':', '*']], G.nt N.qname] := rfl

theorem firstTag_type (t : NodeType) (Y : Str) (hY : Stops P.isNameChar Y) : firstTag typeTags (typeText t ++ Y) = some (typeText t, Y) := by
  cases t <;> simp [firstTag, typeTags, typeText, stripPrefix]

theorem sp_lpar' : P.isSpace '(' = false := by decide
theorem sp_rpar' : P.isSpace ')' = false := by decide

/-- the two keyword alternatives of `node_test` fail on a name test followed by a name continuation -/
theorem keyword_alts_fail {Nm Z : Str} (hN : Nm.all P.isNameChar = true) (hZ : NameCont Z) :
    Runs env (G.seq [piHeadG, G.nt N.literal, G.seq [G.cls0 P.isSpace, G.tag [')']]]) (Nm ++ Z) .fail ∧
    Runs env (G.seq [G.nt N.node_type, parensG]) (Nm ++ Z) .fail := by
  constructor
  · refine Runs.seq_fail (RunsSeq.fail_head ?_)
    unfold piHeadG
    cases hs : stripPrefix (typeText .pi) (Nm ++ Z) with
    | none => exact Runs.seq_fail (RunsSeq.fail_head (Runs.tag_fail hs))
    | some U =>
      have htag : Runs env (.tag (typeText .pi)) (Nm ++ Z) (.ok (.leaf (typeText .pi)) U) := by
        rw [stripPrefix_some hs]; exact Runs.tag_ok _ _
      exact Runs.seq_fail (RunsSeq.fail_tail htag (name_no_paren (t := typeText .pi) (by decide) hN hZ hs [G.cls0 P.isSpace]))
  · have halt := runs_alt_tags (ev := env) typeTags (Nm ++ Z)
    cases hf : firstTag typeTags (Nm ++ Z) with
    | none =>
      rw [hf] at halt
      refine Runs.seq_fail (RunsSeq.fail_head ?_)
      apply Runs.nt_fail_of env_node_type
      rw [node_type_prod]
      exact Runs.alt halt
    | some v =>
      obtain ⟨t, U⟩ := v
      rw [hf] at halt
      obtain ⟨h1, h2⟩ := firstTag_some typeTags (Nm ++ Z) t U hf
      have ht : t.all P.isNameChar = true := by
        simp only [typeTags, List.mem_cons, List.mem_nil_iff, or_false] at h1
        rcases h1 with rfl | rfl | rfl | rfl <;> decide
      refine Runs.seq_fail (RunsSeq.fail_tail (c := .node N.node_type (.leaf t)) (r := U) ?_ (RunsSeq.fail_head ?_))
      · apply Runs.nt_of env_node_type
        rw [node_type_prod]
        exact Runs.alt halt
      · unfold parensG
        exact Runs.seq_fail (name_no_paren ht hN hZ h2 _)

end XmlRs.XLex
