import XmlRsModel.Lemmas.DataValid
import XmlRsModel.Thm.C18
/-! Helper lemmas for the closed forms of PI target and PI data validity (C15): the `until0` scanner in front of
    `?>`, the run of `name` / `pi_target` in front of a character that cannot continue a name. -/
namespace XmlRs.C15
open XmlRs XmlRs.Dom Gen.Xml XmlRs.Names

abbrev qg : Str := ['?', '>']
abbrev xmlS : Str := ['x', 'm', 'l']

theorem strip_qg_none_append (c : Char) (cs : Str) (h : stripPrefix qg (c :: cs) = none) :
    stripPrefix qg (c :: cs ++ qg) = none := by
  match cs with
  | [] =>
    simp only [qg, stripPrefix, List.cons_append, List.nil_append] at h ⊢
    split
    · simp [stripPrefix]
    · rfl
  | d :: r =>
    simp only [qg, stripPrefix, List.cons_append] at h ⊢
    repeat' split
    all_goals first | rfl | (rename_i h1 h2; subst h1 h2; simp at h) | simp_all

theorem split_qg_append : ∀ s : Str, splitAtSub qg s = none → splitAtSub qg (s ++ qg) = some (s, qg)
  | [], _ => by decide
  | c :: cs, h => by
    simp only [splitAtSub] at h
    split at h
    · cases h
    · next hn =>
      split at h
      · cases h
      · next hrec =>
        have := split_qg_append cs hrec
        simp only [List.cons_append, splitAtSub]
        rw [show c :: (cs ++ qg) = c :: cs ++ qg from rfl, strip_qg_none_append c cs hn]
        simp [this]

theorem isChar_qg : ∀ c ∈ qg, P.isChar c = true := by decide
theorem spanP_qg : spanP P.isChar qg = (qg, []) := by decide +kernel

theorem until_qg_key (s : Str) :
    stripPrefix qg (runUntil0 P.isChar qg (s ++ qg)).2 = some [] ↔ (s.all P.isChar = true ∧ hasSub qg s = false) := by
  constructor
  · intro h
    have hR := stripPrefix_some h
    simp only [List.append_nil] at hR
    by_cases hall : s.all P.isChar = true
    · refine ⟨hall, ?_⟩
      have hsp := spanP_append_all P.isChar s qg hall
      rw [spanP_qg] at hsp
      simp only [runUntil0, hsp] at hR
      cases hs : splitAtSub qg (s ++ qg) with
      | none => simp [hs] at hR
      | some ab =>
        obtain ⟨a, b⟩ := ab
        simp only [hs, List.append_nil] at hR
        obtain ⟨h1, h2⟩ := splitAtSub_spec qg _ a b hs
        subst hR
        have : a = s := List.append_cancel_right h1
        subst this
        simp [hasSub, h2 (by decide)]
    · exfalso
      have hall' : s.all P.isChar = false := by simpa using hall
      obtain ⟨c, y, h1, h2⟩ := spanP_not_all P.isChar s qg hall'
      have hc : c ∈ (runUntil0 P.isChar qg (s ++ qg)).2 := by
        simp only [runUntil0]
        split <;> simp [h1]
      rw [hR] at hc
      have := isChar_qg c hc
      simp [this] at h2
  · intro ⟨hall, hsub⟩
    have hsp := spanP_append_all P.isChar s qg hall
    rw [spanP_qg] at hsp
    have hn : splitAtSub qg s = none := by
      simp only [hasSub] at hsub
      cases h : splitAtSub qg s with
      | none => rfl
      | some x => simp [h] at hsub
    simp only [runUntil0, hsp, split_qg_append s hn, List.append_nil]
    decide


theorem name_run_full (f : Nat) (s : Str) :
    run env (f+6) (.nt N.name) s =
      .ok (.node N.name (.seq [.node N.multinamestartchar0 (.leaf (spanP P.isNameStartChar s).1),
                               .node N.multinamechar0 (.leaf (spanP P.isNameChar (spanP P.isNameStartChar s).2).1)]))
          (spanP P.isNameChar (spanP P.isNameStartChar s).2).2 := by
  simp [run, env_name, Prod.name, env_multinamestartchar0, Prod.multinamestartchar0, env_multinamechar0, Prod.multinamechar0, runSeq]

theorem span_span_split (c : Char) (rest : Str) (hc : P.isNameChar c = false) : ∀ t : Str, t.all P.isNameChar = true →
    (spanP P.isNameStartChar (t ++ c :: rest)).1 ++ (spanP P.isNameChar (spanP P.isNameStartChar (t ++ c :: rest)).2).1 = t ∧
    (spanP P.isNameChar (spanP P.isNameStartChar (t ++ c :: rest)).2).2 = c :: rest
  | [], _ => by
    have hs : P.isNameStartChar c = false := by
      cases h : P.isNameStartChar c with
      | false => rfl
      | true => have := C18.nameStart_sub_nameChar c h; simp [this] at hc
    simp [spanP, hs, hc]
  | x :: xs, h => by
    simp only [List.all_cons, Bool.and_eq_true] at h
    by_cases hx : P.isNameStartChar x = true
    · obtain ⟨h1, h2⟩ := span_span_split c rest hc xs h.2
      simp only [List.cons_append, spanP, hx, if_true]
      exact ⟨by simp [h1], h2⟩
    · have := spanP_of_all P.isNameChar (x :: xs) (c :: rest) (by simp [h.1, h.2]) (.inr ⟨c, rest, rfl, hc⟩)
      simp only [List.cons_append] at this
      simp [List.cons_append, spanP, hx, this]

theorem pi_target_run (f : Nat) (t : Str) (c : Char) (rest : Str) (ht : t.all P.isNameChar = true) (hc : P.isNameChar c = false) :
    (∃ cst, run env (f+8) (.nt N.pi_target) (t ++ c :: rest) =
      if P.eqIgnoreAsciiCase t xmlS then .fail else .ok cst (c :: rest)) := by
  obtain ⟨h1, h2⟩ := span_span_split c rest hc t ht
  have e : [Char.ofNat 120, Char.ofNat 109, Char.ofNat 108] = xmlS := by decide
  simp only [run, env_pi_target, Prod.pi_target, name_run_full, CST.flatten, flattenL, List.append_nil, h1, h2, e]
  by_cases hx : P.eqIgnoreAsciiCase t xmlS = true
  · exact ⟨.leaf [], by simp [hx]⟩
  · exact ⟨_, by simp [hx]; rfl⟩


theorem space_cases (c : Char) (h : P.isSpace c = true) : c = ' ' ∨ c = '\t' ∨ c = '\r' ∨ c = '\n' := by
  simp only [P.isSpace, Bool.or_eq_true, beq_iff_eq] at h
  rcases h with ((h | h) | h) | h
  · exact .inl h
  · exact .inr (.inl h)
  · exact .inr (.inr (.inl h))
  · exact .inr (.inr (.inr h))

theorem ws_prefix : ∀ d : Str, d.all P.isChar = ((spanP P.isSpace d).2).all P.isChar ∧ hasSub qg d = hasSub qg (spanP P.isSpace d).2
  | [] => by simp [spanP]
  | c :: r => by
    simp only [spanP]
    split
    · next h =>
      obtain ⟨h1, h2⟩ := ws_prefix r
      have hc : P.isChar c = true := by
        rcases space_cases c h with rfl | rfl | rfl | rfl <;> decide
      have hq : ¬ ('?' = c) := by
        rcases space_cases c h with rfl | rfl | rfl | rfl <;> decide
      refine ⟨by simp [hc, h1], ?_⟩
      rw [← h2]
      simp only [hasSub, splitAtSub, qg, stripPrefix, hq, if_false]
      cases splitAtSub ['?', '>'] r <;> rfl
    · exact ⟨rfl, rfl⟩

theorem sp_q : P.isSpace '?' = false := by decide
theorem nc_sp : P.isNameChar ' ' = false := by decide
theorem nc_q : P.isNameChar '?' = false := by decide

/-- what `<?target data?>` accepts as data, for a target that is a name other than xml: closed form -/
theorem pi_data_run (t d : Str) (ht : t.all P.isNameChar = true) (hx : P.eqIgnoreAsciiCase t xmlS = false) :
    validPI t d = (d.all P.isChar && !hasSub ['?', '>'] d) := by
  have e0 : "<?".toList = [Char.ofNat 60,Char.ofNat 63] := by decide +kernel
  have e1 : [Char.ofNat 63,Char.ofNat 62] = qg := by decide +kernel
  have e2 : "?>".toList = qg := by decide +kernel
  simp only [validPI, fullMatch]
  generalize hF : 100000 + 64 * ("<?".toList ++ t ++ ' ' :: d ++ "?>".toList).length = F
  obtain ⟨f, rfl⟩ : ∃ f, F = f + 11 := ⟨F - 11, by omega⟩
  obtain ⟨h1, h2⟩ := span_span_split ' ' (d ++ qg) nc_sp t ht
  have hin : "<?".toList ++ t ++ ' ' :: d ++ "?>".toList = "<?".toList ++ (t ++ ' ' :: (d ++ qg)) := by simp [e2]
  rw [hin]
  have ex : [Char.ofNat 120, Char.ofNat 109, Char.ofNat 108] = xmlS := by decide
  have hsp := spanP_append_stop P.isSpace '?' ['>'] sp_q d
  simp only [run, env_pi, Prod.pi, runSeq, runAlt, e0, e1, e2, List.append_assoc, stripPrefix_append,
    env_pi_target, Prod.pi_target, env_name, Prod.name, env_multinamestartchar0, Prod.multinamestartchar0,
    env_multinamechar0, Prod.multinamechar0, CST.flatten, flattenL, List.append_nil, h1, h2, ex, hx]
  have hsp' : spanP P.isSpace (' ' :: (d ++ qg)) = (' ' :: (spanP P.isSpace d).1, (spanP P.isSpace d).2 ++ qg) := by
    have : P.isSpace ' ' = true := by decide
    simp only [spanP, this, if_true, hsp]
  simp only [Bool.not_false, if_true, hsp', List.cons_ne_nil, if_false]
  obtain ⟨w1, w2⟩ := ws_prefix d
  have key := until_qg_key (spanP P.isSpace d).2
  rw [w1, w2]
  cases hs : stripPrefix qg (runUntil0 P.isChar qg ((spanP P.isSpace d).2 ++ qg)).2 with
  | none =>
    have : ¬ (((spanP P.isSpace d).2).all P.isChar = true ∧ hasSub qg (spanP P.isSpace d).2 = false) := fun h => by simp [key.2 h] at hs
    cases h1 : ((spanP P.isSpace d).2).all P.isChar <;> cases h2 : hasSub qg (spanP P.isSpace d).2 <;> simp_all
  | some r =>
    cases r with
    | nil =>
      obtain ⟨h1, h2⟩ := key.1 hs
      simp [h1, h2]
    | cons x xs =>
      have : ¬ (((spanP P.isSpace d).2).all P.isChar = true ∧ hasSub qg (spanP P.isSpace d).2 = false) := fun h => by simp [key.2 h] at hs
      cases h1 : ((spanP P.isSpace d).2).all P.isChar <;> cases h2 : hasSub qg (spanP P.isSpace d).2 <;> simp_all


theorem target_not_xml (t : Str) (ht : t.all P.isNameChar = true)
    (hm : fullMatch N.pi ("<?".toList ++ t ++ "?>".toList) = true) : P.eqIgnoreAsciiCase t xmlS = false := by
  cases hx : P.eqIgnoreAsciiCase t xmlS with
  | false => rfl
  | true =>
    exfalso
    have e0 : "<?".toList = [Char.ofNat 60,Char.ofNat 63] := by decide +kernel
    have e1 : [Char.ofNat 63,Char.ofNat 62] = qg := by decide +kernel
    have e2 : "?>".toList = qg := by decide +kernel
    simp only [fullMatch] at hm
    generalize hF : 100000 + 64 * ("<?".toList ++ t ++ "?>".toList).length = F at hm
    obtain ⟨f, rfl⟩ : ∃ f, F = f + 11 := ⟨F - 11, by omega⟩
    obtain ⟨h1, h2⟩ := span_span_split '?' ['>'] nc_q t ht
    have hin : "<?".toList ++ t ++ "?>".toList = "<?".toList ++ (t ++ '?' :: ['>']) := by simp [e2]
    rw [hin] at hm
    have ex : [Char.ofNat 120, Char.ofNat 109, Char.ofNat 108] = xmlS := by decide
    simp only [run, env_pi, Prod.pi, runSeq, runAlt, e0, e1, e2, List.append_assoc, stripPrefix_append,
      env_pi_target, Prod.pi_target, env_name, Prod.name, env_multinamestartchar0, Prod.multinamestartchar0,
      env_multinamechar0, Prod.multinamechar0, CST.flatten, flattenL, List.append_nil, h1, h2, ex, hx] at hm
    simp at hm

theorem isName_all (t : Str) (h : isName t = true) : t.all P.isNameChar = true := by
  cases t with
  | nil => simp [isName] at h
  | cons c r =>
    simp only [isName, Bool.and_eq_true] at h
    simp [C18.nameStart_sub_nameChar c h.1, h.2]

end XmlRs.C15
