import XmlRsModel.Lemmas.DomStep
/-! The document node keeps at most one document element and at most one document type. -/
namespace XmlRs.Dom
open List

def isElemK : Kind → Bool | .elem _ => true | _ => false
def isDoctypeK : Kind → Bool | .doctype _ => true | _ => false

/-- what the top level of a tree looks like from outside: ids and kinds of the children -/
def sig (l : List Node) : List (Nat × Kind) := l.map fun n => (n.id, n.kind)

def cntK (P : Kind → Bool) (l : List Node) : Nat := (sig l).countP (fun p => P p.2)

theorem cntK_nil (P : Kind → Bool) : cntK P [] = 0 := rfl
theorem cntK_cons (P : Kind → Bool) (n : Node) (r : List Node) :
    cntK P (n :: r) = (if P n.kind then 1 else 0) + cntK P r := by
  simp only [cntK, sig, List.map_cons, List.countP_cons]; omega
theorem cntK_append (P : Kind → Bool) (a b : List Node) : cntK P (a ++ b) = cntK P a + cntK P b := by
  simp [cntK, sig, List.countP_append]

theorem cntK_le_of_sublist (P : Kind → Bool) {a b : List Node} (h : (sig a).Sublist (sig b)) : cntK P a ≤ cntK P b :=
  h.countP_le

/-- a function on nodes that changes neither the id nor the kind of the node it is applied to -/
def KeepsIdKind (f : Node → Node) : Prop := ∀ n, (f n).id = n.id ∧ (f n).kind = n.kind

theorem keeps_mapKids (g : List Node → List Node) : KeepsIdKind (Node.mapKids g) := by
  intro n; cases n; exact ⟨rfl, rfl⟩
theorem keeps_mapAttrs (g : List Node → List Node) : KeepsIdKind (Node.mapAttrs g) := by
  intro n; cases n; exact ⟨rfl, rfl⟩
theorem keeps_withData (d : Str) : KeepsIdKind (Node.withData d) := by
  intro n; cases n; exact ⟨rfl, rfl⟩

mutual
theorem updateIn_idKind (i : Nat) (f : Node → Node) (hf : KeepsIdKind f) : (t : Node) →
    (updateIn i f t).id = t.id ∧ (updateIn i f t).kind = t.kind
  | .mk j k d as ks => by
    simp only [updateIn]
    split
    · exact hf _
    · exact ⟨rfl, rfl⟩
theorem updateInL_sig (i : Nat) (f : Node → Node) (hf : KeepsIdKind f) : (l : List Node) → sig (updateInL i f l) = sig l
  | [] => rfl
  | n :: r => by
    have h1 := updateIn_idKind i f hf n
    have h2 := updateInL_sig i f hf r
    simp only [sig, List.map_cons, updateInL] at *
    rw [h1.1, h1.2, h2]
end

mutual
theorem removeIn_idKind (i : Nat) : (t : Node) → (removeIn i t).1.id = t.id ∧ (removeIn i t).1.kind = t.kind
  | .mk j k d as ks => by
    simp only [removeIn]
    split
    · exact ⟨rfl, rfl⟩
    · exact ⟨rfl, rfl⟩
theorem removeInL_sig (i : Nat) : (l : List Node) → (sig (removeInL i l).1).Sublist (sig l)
  | [] => by simp [removeInL, sig]
  | n :: r => by
    simp only [removeInL]
    split
    · simp only [sig, List.map_cons]; exact List.sublist_cons_self _ _
    · split
      · next n' x hrm =>
        have := removeIn_idKind i n
        rw [hrm] at this
        simp only [sig, List.map_cons, this.1, this.2]
        exact List.Sublist.refl _
      · have := removeInL_sig i r
        simp only [sig, List.map_cons] at *
        exact this.cons₂ _
end

/-- the kids of `removeIn i t` as seen from outside are a sublist of those of `t` -/
theorem removeIn_kids_sig (i : Nat) (t : Node) : (sig (removeIn i t).1.kids).Sublist (sig t.kids) := by
  cases t with
  | mk j k d as ks =>
    simp only [removeIn]
    split
    · exact List.Sublist.refl _
    · exact removeInL_sig i ks

/-- "the top level of the document only shrinks" -/
def TopLe (s s' : St) : Prop :=
  s'.doc.id = s.doc.id ∧ s'.doc.kind = s.doc.kind ∧ (sig s'.doc.kids).Sublist (sig s.doc.kids)

theorem TopLe.refl (s : St) : TopLe s s := ⟨rfl, rfl, List.Sublist.refl _⟩
theorem TopLe.trans {a b c : St} (h1 : TopLe a b) (h2 : TopLe b c) : TopLe a c :=
  ⟨h2.1.trans h1.1, h2.2.1.trans h1.2.1, h2.2.2.trans h1.2.2⟩

/-- the document node is the document, with at most one element and one document type below it -/
def DocInv (s : St) : Prop :=
  s.doc.kind = .doc ∧ cntK isElemK s.doc.kids ≤ 1 ∧ cntK isDoctypeK s.doc.kids ≤ 1

theorem DocInv.of_topLe {s s' : St} (h : DocInv s) (t : TopLe s s') : DocInv s' :=
  ⟨t.2.1.trans h.1, Nat.le_trans (cntK_le_of_sublist _ t.2.2) h.2.1, Nat.le_trans (cntK_le_of_sublist _ t.2.2) h.2.2⟩

theorem detach_topLe (s s1 : St) (i : Nat) (x : Option Node) (h : s.detach i = (s1, x)) : TopLe s s1 := by
  unfold St.detach at h
  split at h
  · simp only [Prod.mk.injEq] at h; obtain ⟨rfl, _⟩ := h; exact TopLe.refl s
  · split at h
    · next d' n hR =>
      simp only [Prod.mk.injEq] at h; obtain ⟨rfl, _⟩ := h
      have h1 := removeIn_idKind i s.doc
      have h2 := removeIn_kids_sig i s.doc
      rw [hR] at h1 h2
      exact ⟨h1.1, h1.2, h2⟩
    · split at h
      simp only [Prod.mk.injEq] at h; obtain ⟨rfl, _⟩ := h; exact TopLe.refl s

/-- an update somewhere below the document node, or one at the document node that keeps the child list -/
theorem update_topLe (s : St) (i : Nat) (f : Node → Node) (hf : KeepsIdKind f)
    (hdoc : i = s.doc.id → sig (f s.doc).kids = sig s.doc.kids) : TopLe s (s.update i f) := by
  have hk := updateIn_idKind i f hf s.doc
  refine ⟨hk.1, hk.2, ?_⟩
  show (sig (updateIn i f s.doc).kids).Sublist _
  cases hs : s.doc with
  | mk j k d as ks =>
    simp only [updateIn]
    split
    · next hij =>
      have : i = s.doc.id := by rw [hs]; simpa [Node.id] using hij
      have := hdoc this
      rw [hs] at this
      rw [this]; exact List.Sublist.refl _
    · simp only [Node.kids]
      rw [updateInL_sig i f hf ks]; exact List.Sublist.refl _

theorem kids_mapAttrs (g : List Node → List Node) (n : Node) : (n.mapAttrs g).kids = n.kids := by cases n; rfl
theorem kids_withData (d : Str) (n : Node) : (n.withData d).kids = n.kids := by cases n; rfl
theorem kids_mapKids (g : List Node → List Node) (n : Node) : (n.mapKids g).kids = g n.kids := by cases n; rfl

theorem find_doc (s : St) : s.find s.doc.id = some s.doc := by
  simp [St.find, St.roots, findInL, findIn_root]

/-- the document's child list after an update with `mapKids g` -/
theorem update_mapKids_doc (s : St) (p : Nat) (g : List Node → List Node) :
    (s.update p (Node.mapKids g)).doc.kind = s.doc.kind ∧
    ((p = s.doc.id ∧ (s.update p (Node.mapKids g)).doc.kids = g s.doc.kids) ∨
     (p ≠ s.doc.id ∧ sig (s.update p (Node.mapKids g)).doc.kids = sig s.doc.kids)) := by
  have hk := updateIn_idKind p (Node.mapKids g) (keeps_mapKids g) s.doc
  refine ⟨hk.2, ?_⟩
  show (p = s.doc.id ∧ (updateIn p (Node.mapKids g) s.doc).kids = _) ∨ (p ≠ s.doc.id ∧ sig (updateIn p (Node.mapKids g) s.doc).kids = _)
  cases hs : s.doc with
  | mk j k d as ks =>
    simp only [updateIn]
    by_cases hij : (p == j) = true
    · left
      simp only [hij, if_true]
      exact ⟨by simpa [Node.id] using hij, rfl⟩
    · right
      simp only [hij]
      exact ⟨by simpa [Node.id] using hij, updateInL_sig p _ (keeps_mapKids g) ks⟩

theorem cntK_insertBeforeL (P : Kind → Bool) (x : Node) (ref : Option Nat) (l : List Node) :
    cntK P (insertBeforeL x ref l) = cntK P l + (if P x.kind then 1 else 0) := by
  induction l with
  | nil => simp [insertBeforeL, cntK_cons, cntK_nil]
  | cons n r ih =>
    cases ref with
    | none => simp only [insertBeforeL, cntK_cons, ih]; omega
    | some i =>
      simp only [insertBeforeL]
      split
      · simp only [cntK_cons]; omega
      · simp only [cntK_cons, ih]; omega

theorem cntK_splitPlace (P : Kind → Bool) (n : Nat) (new : Node) (ks : List Node) :
    cntK P (splitPlace n new ks) = cntK P ks + (if P new.kind then 1 else 0) := by
  unfold splitPlace
  split
  · rw [cntK_insertBeforeL]
  · rw [cntK_append, cntK_cons, cntK_nil]; omega

/-- a member of the signature is a node of the list -/
theorem sig_mem_cnt (l : List Node) (i : Nat) (k : Kind) (h : (i, k) ∈ sig l) : 0 < cntL i l := by
  induction l with
  | nil => simp [sig] at h
  | cons n r ih =>
    simp only [sig, List.map_cons, List.mem_cons, Prod.mk.injEq] at h
    rw [cntL_cons]
    rcases h with ⟨h1, _⟩ | h
    · have := cnt_id_pos n; rw [← h1] at this; omega
    · have := ih (by simpa [sig] using h); omega

theorem cntK_zero_of (P : Kind → Bool) (l : List Node) (h : ∀ p ∈ sig l, P p.2 = false) : cntK P l = 0 := by
  unfold cntK
  rw [List.countP_eq_zero]
  intro p hp
  simp [h p hp]

theorem cntK_zero_iff_any (P : Kind → Bool) (l : List Node) (h : l.any (fun k => P k.kind) = false) : cntK P l = 0 := by
  apply cntK_zero_of
  intro p hp
  simp only [sig, List.mem_map] at hp
  obtain ⟨n, hn, rfl⟩ := hp
  have := List.any_eq_false.mp h n hn
  simpa using this

theorem cntL_kids_le (a : Nat) (t : Node) : cntL a t.kids ≤ cnt a t := by
  cases t with
  | mk j k d as ks => rw [cnt_mk]; simp only [Node.kids]; omega

theorem insertChild_shape2 (s : St) (p c : Nat) (ref : Option Nat) :
    (insertChild s p c ref).1 = s ∨
    ∃ pn cn s1 x, s.find p = some pn ∧ s.find c = some cn ∧ (c == s.doc.id) = false ∧
      docRefuses pn cn.kind c (adjustRef pn c ref) = false ∧ s.detach c = (s1, some x) ∧
      (insertChild s p c ref).1 = s1.update p (Node.mapKids (insertBeforeL x (adjustRef pn c ref))) := by
  unfold insertChild
  repeat' split
  all_goals first
    | exact Or.inl rfl
    | (right
       refine ⟨_, _, _, _, by assumption, by assumption, ?_, ?_, by assumption, rfl⟩
       · simp_all
       · simp_all)

theorem insertChild_docInv (s : St) (p c : Nat) (ref : Option Nat) (hi : Inv s) (hd : DocInv s) :
    DocInv (insertChild s p c ref).1 := by
  rcases insertChild_shape2 s p c ref with h | ⟨pn, cn, s1, x, hp, hc, hdoc, href, hdt, heq⟩
  · rw [h]; exact hd
  · rw [heq]
    have hne : s.doc.id ≠ c := by intro he; rw [he] at hdoc; simp at hdoc
    have hfx := detach_find s s1 c (some x) hi.1 hne hdt
    rw [hc] at hfx
    simp only [Option.some.injEq] at hfx
    subst hfx
    have ht := detach_topLe s s1 c (some cn) hdt
    have hd1 : DocInv s1 := hd.of_topLe ht
    obtain ⟨hn, _, hsome, _⟩ := detach_count s s1 c (some cn) hi.1 hdt
    obtain ⟨hid, hcnt⟩ := hsome cn rfl
    have hc0 : cntL c s1.roots = 0 := by
      have := hcnt c; have := hi.1 c; have h3 := cnt_id_pos cn; rw [hid] at h3; omega
    obtain ⟨hk, hcase⟩ := update_mapKids_doc s1 p (insertBeforeL cn (adjustRef pn c ref))
    rcases hcase with ⟨hpd, hkids⟩ | ⟨hpd, hsig⟩
    · -- the parent is the document node
      have hpn : pn = s.doc := by
        rw [hpd, ht.1] at hp
        rw [find_doc] at hp
        exact (Option.some.inj hp).symm
      subst hpn
      have hkd : s.doc.kind = .doc := hd.1
      unfold docRefuses at href
      simp only [hkd, beq_self_eq_true, Bool.true_and] at href
      refine ⟨hk.trans hd1.1, ?_, ?_⟩
      · rw [hkids, cntK_insertBeforeL]
        by_cases he : isElemK cn.kind = true
        · -- no other element below the document: every element child was `c`, and `c` is out
          have hz : cntK isElemK s1.doc.kids = 0 := by
            apply cntK_zero_of
            intro q hq
            cases hqk : isElemK q.2 with
            | false => rfl
            | true =>
              exfalso
              have hq' := ht.2.2.subset hq
              simp only [sig, List.mem_map] at hq'
              obtain ⟨n, hn', rfl⟩ := hq'
              cases hck : cn.kind with
              | elem nm =>
                rw [hck] at href
                simp only [Bool.or_eq_false_iff] at href
                have hall := List.any_eq_false.mp href.1 n hn'
                have hidc : n.id = c := by
                  simp only at hqk
                  cases hnkind : n.kind with
                  | elem nm2 => rw [hnkind] at hall; simpa using hall
                  | _ => rw [hnkind] at hqk; simp [isElemK] at hqk
                have hpos := sig_mem_cnt s1.doc.kids n.id n.kind hq
                have h5 : cntL n.id s1.roots ≥ cntL n.id s1.doc.kids := by
                  rw [cntL_roots]
                  have := cntL_kids_le n.id s1.doc
                  omega
                rw [hidc] at hpos h5
                omega
              | _ => rw [hck] at he; simp [isElemK] at he
          rw [hz]; split <;> omega
        · have : isElemK cn.kind = false := by simpa using he
          simp only [this, Bool.false_eq_true, if_false]
          exact hd1.2.1
      · rw [hkids, cntK_insertBeforeL]
        by_cases he : isDoctypeK cn.kind = true
        · have hz : cntK isDoctypeK s.doc.kids = 0 := by
            cases hck : cn.kind with
            | doctype nm =>
              rw [hck] at href
              simp only [Bool.or_eq_false_iff] at href
              apply cntK_zero_iff_any
              have hfun : (fun k : Node => isDoctypeK k.kind) = (fun k => match k.kind with | .doctype _ => true | _ => false) := by
                funext k; cases k.kind <;> rfl
              rw [hfun]; exact href.1
            | _ => rw [hck] at he; simp [isDoctypeK] at he
          have := cntK_le_of_sublist isDoctypeK ht.2.2
          split <;> omega
        · have : isDoctypeK cn.kind = false := by simpa using he
          simp only [this, Bool.false_eq_true, if_false]
          exact hd1.2.2
    · refine ⟨hk.trans hd1.1, ?_, ?_⟩
      · show cntK isElemK _ ≤ 1
        unfold cntK; rw [hsig]; exact hd1.2.1
      · show cntK isDoctypeK _ ≤ 1
        unfold cntK; rw [hsig]; exact hd1.2.2

theorem DocInv.same_doc {s s' : St} (h : DocInv s) (e : s'.doc = s.doc) : DocInv s' := by
  unfold DocInv; rw [e]; exact h

theorem removeChild_docInv (s : St) (p c : Nat) (hd : DocInv s) : DocInv (removeChild s p c).1 := by
  rcases removeChild_shape s p c with ⟨e, h⟩ | ⟨s1, x, hdt, heq⟩
  · rw [h]; exact hd
  · rw [heq]; exact (hd.of_topLe (detach_topLe s s1 c (some x) hdt)).same_doc rfl

theorem detachKeep_topLe (s : St) (i : Nat) : TopLe s (s.detachKeep i) := by
  unfold St.detachKeep
  cases hdt : s.detach i with
  | mk s' x =>
    have := detach_topLe s s' i x hdt
    cases x <;> exact this

theorem detachAll_topLe (l : List Nat) : ∀ (s : St), TopLe s (s.detachAll l) := by
  induction l with
  | nil => intro s; exact TopLe.refl s
  | cons i r ih => intro s; exact (detachKeep_topLe s i).trans (ih _)

theorem update_attrs_topLe (s : St) (e : Nat) (g : List Node → List Node) : TopLe s (s.update e (Node.mapAttrs g)) :=
  update_topLe s e _ (keeps_mapAttrs g) (fun _ => by rw [kids_mapAttrs])

theorem update_data_topLe (s : St) (n : Nat) (d : Str) : TopLe s (s.update n (Node.withData d)) :=
  update_topLe s n _ (keeps_withData d) (fun _ => by rw [kids_withData])

theorem dataOp_docInv (s : St) (n : Nat) (f : Str → Option Str) (hd : DocInv s) : DocInv (step.dataOp s n f).1 := by
  unfold step.dataOp
  repeat' split
  all_goals first
    | exact hd
    | exact hd.of_topLe (update_data_topLe s n _)

theorem replaceChild_docInv (s : St) (p new old : Nat) (hi : Inv s) (hd : DocInv s) :
    DocInv (step s (.replaceChild p new old)).1 := by
  simp only [step]
  split
  · exact hd
  · next pn hp =>
    split
    · have h := insertChild_docInv s p new (some old) hi hd
      cases hic : insertChild s p new (some old) with
      | mk s' r =>
        rw [hic] at h
        cases r <;> exact h
    · have h1 := removeChild_docInv s p old hd
      have hs1 := removeChild_sameIds s p old hi
      cases hrc : removeChild s p old with
      | mk s1 r1 =>
        rw [hrc] at h1 hs1
        cases r1 with
        | node i =>
          simp only
          have hi1 : Inv s1 := hi.of_sameIds hs1
          generalize (Option.map (fun x => x.id) (List.filter (fun x => x.id != new) (List.drop 1 (List.dropWhile (fun x => x.id != old) pn.kids))).head?) = ref
          have h2 := insertChild_docInv s1 p new ref hi1 h1
          cases hic : insertChild s1 p new ref with
          | mk s2 r2 =>
            rw [hic] at h2
            cases r2 <;> first | exact hd | exact h2
        | _ => exact hd

theorem sAN_docInv (s s1 : St) (hd : DocInv s) (ht : TopLe s s1) (oldId : Option Nat) (a e : Nat) (en : Node) :
    DocInv (match s1.detach a with
      | (s2, some x) =>
        if tooDeep s2 en x then (s, Res.err Exc.hierarchy) else
        (s2.update e (Node.mapAttrs (· ++ [x])), (match oldId with | some o => Res.node o | none => Res.none_))
      | (_, none) => (s, Res.err Exc.notFound)).1 := by
  cases hd2 : s1.detach a with
  | mk s2 x =>
    cases x with
    | none => exact hd
    | some n =>
      show DocInv (if tooDeep s2 en n then (s, Res.err Exc.hierarchy) else _).1
      split
      · exact hd
      · exact hd.of_topLe ((ht.trans (detach_topLe s1 s2 a (some n) hd2)).trans (update_attrs_topLe s2 e _))

theorem setValue_attr_docInv (s : St) (hd : DocInv s) (n : Nat) (nn : Node) (hf : s.find n = some nn)
    (nm : Str) (sp : Bool) (hk : nn.kind = .attr nm sp) (items : List Node) (n' : Nat) :
    DocInv { (s.update n (Node.mapKids (fun _ => items))) with
              next := n', detached := (s.update n (Node.mapKids (fun _ => items))).detached ++ nn.kids } := by
  have hne : n ≠ s.doc.id := by
    intro he
    rw [he, find_doc] at hf
    have : s.doc = nn := Option.some.inj hf
    rw [← this, hd.1] at hk
    cases hk
  obtain ⟨hkind, hcase⟩ := update_mapKids_doc s n (fun _ => items)
  rcases hcase with ⟨hp, _⟩ | ⟨_, hsig⟩
  · exact absurd hp hne
  · refine ⟨hkind.trans hd.1, ?_, ?_⟩
    · show cntK isElemK (s.update n _).doc.kids ≤ 1
      unfold cntK; rw [hsig]; exact hd.2.1
    · show cntK isDoctypeK (s.update n _).doc.kids ≤ 1
      unfold cntK; rw [hsig]; exact hd.2.2

theorem split_docInv (s s1 : St) (hd1 : DocInv s1) (n : Nat) (k : Kind) (hk : k = .text ∨ k = .cdata) (r : Str) (nx : Nat) :
    DocInv { (match s1.parent n with
              | some p => s1.update p (Node.mapKids (splitPlace n (Node.mk nx k r [] [])))
              | none => { s1 with detached := s1.detached ++ [Node.mk nx k r [] []] }) with next := s.next + 1 } := by
  have hP1 : isElemK k = false := by rcases hk with rfl | rfl <;> rfl
  have hP2 : isDoctypeK k = false := by rcases hk with rfl | rfl <;> rfl
  cases hp : s1.parent n with
  | none => exact hd1.same_doc rfl
  | some p =>
    obtain ⟨hkind, hcase⟩ := update_mapKids_doc s1 p (splitPlace n (Node.mk nx k r [] []))
    refine ⟨hkind.trans hd1.1, ?_, ?_⟩
    · show cntK isElemK (s1.update p _).doc.kids ≤ 1
      rcases hcase with ⟨_, hkids⟩ | ⟨_, hsig⟩
      · rw [hkids, cntK_splitPlace]; simp only [Node.kind, hP1, Bool.false_eq_true, if_false]; exact hd1.2.1
      · unfold cntK; rw [hsig]; exact hd1.2.1
    · show cntK isDoctypeK (s1.update p _).doc.kids ≤ 1
      rcases hcase with ⟨_, hkids⟩ | ⟨_, hsig⟩
      · rw [hkids, cntK_splitPlace]; simp only [Node.kind, hP2, Bool.false_eq_true, if_false]; exact hd1.2.2
      · unfold cntK; rw [hsig]; exact hd1.2.2

theorem step_docInv (s : St) (op : Op) (hi : Inv s) (hd : DocInv s) : DocInv (step s op).1 := by
  cases op with
  | createElement name => simp only [step]; split <;> exact hd
  | createText d => simp only [step]; split <;> exact hd
  | createComment d => simp only [step]; split <;> exact hd
  | createCData d => simp only [step]; split <;> exact hd
  | createPI t d => simp only [step]; split <;> exact hd
  | createAttribute name => simp only [step]; split <;> exact hd
  | createEntityRef name => simp only [step]; repeat' split
                            all_goals exact hd
  | appendChild p c => simp only [step]; exact insertChild_docInv s p c none hi hd
  | insertBefore p c r => simp only [step]; exact insertChild_docInv s p c r hi hd
  | removeChild p c => simp only [step]; exact removeChild_docInv s p c hd
  | replaceChild p new old => exact replaceChild_docInv s p new old hi hd
  | normalize e =>
    simp only [step]
    cases hf : s.find e with
    | none => exact hd
    | some en =>
      have hk : KeepsIdKind (fun n => (normNode n).1) := by
        intro n; cases n with
        | mk j k d as ks => cases k <;> exact ⟨rfl, rfl⟩
      have ht := update_topLe s e (fun n => (normNode n).1) hk (fun _ => by
        have hkd := hd.1
        cases hs : s.doc with
        | mk j k d as ks =>
          rw [hs] at hkd
          simp only [Node.kind] at hkd
          subst hkd
          simp [normNode])
      exact (hd.of_topLe ht).same_doc rfl
  | setData n d => simp only [step]; exact dataOp_docInv s n _ hd
  | appendData n d => simp only [step]; exact dataOp_docInv s n _ hd
  | insertData n off d => simp only [step]; exact dataOp_docInv s n _ hd
  | deleteData n off cnt => simp only [step]; exact dataOp_docInv s n _ hd
  | replaceData n off cnt d => simp only [step]; exact dataOp_docInv s n _ hd
  | getAttributeNode e name => simp only [step]; repeat' split
                               all_goals exact hd
  | childAt n i => simp only [step]; repeat' split
                   all_goals exact hd
  | removeAttribute e name =>
    simp only [step]
    split
    · exact hd.of_topLe (detachAll_topLe _ s)
    · exact hd
  | removeAttributeNode e a =>
    simp only [step]
    repeat' split
    all_goals first
      | exact hd
      | exact hd.of_topLe (detachAll_topLe _ s)
  | setAttribute e name value =>
    simp only [step]
    split
    · next en hf =>
      split
      · split
        · exact hd
        · split
          · exact hd
          · next ps hps =>
            exact (hd.of_topLe ((detachAll_topLe (sameLocalIds en name) s).trans (update_attrs_topLe _ e _))).same_doc rfl
      · exact hd
    · exact hd
  | setAttributeNode e a =>
    simp only [step]
    split
    · next en an hfe hfa =>
      split
      · next nm sp hk =>
        split
        · exact hd
        · split
          · exact hd
          · exact sAN_docInv s _ hd (detachAll_topLe (sameLocalIds en nm) s) _ a e en
      · exact hd
    · exact hd
  | setValue n v =>
    simp only [step]
    split
    · next nn hf =>
      split
      · next nm sp hk =>
        split
        · exact hd
        · next ps hps => exact setValue_attr_docInv s hd n nn hf nm sp hk _ _
      all_goals (first
        | exact hd
        | (split
           · exact hd.of_topLe (update_data_topLe s n _)
           · exact hd))
    · exact hd
  | splitText n off =>
    simp only [step]
    split
    · next nn hf =>
      split
      all_goals (first
        | exact hd
        | (split
           · exact hd
           · next l r hsp =>
             exact split_docInv s (s.update n (Node.withData l)) (hd.of_topLe (update_data_topLe s n l)) n nn.kind
               (by first | exact Or.inl (by assumption) | exact Or.inr (by assumption)) r s.next))
    · exact hd


/-! ### the initial state -/
def isElemTop : TopItem → Bool | .elem _ => true | _ => false
def isDoctypeTop : TopItem → Bool | .doctype _ => true | _ => false

/-- a document as the parser delivers it: at most one document element, at most one document type -/
def OneRoot (d : IDoc) : Prop := d.kids.countP isElemTop ≤ 1 ∧ d.kids.countP isDoctypeTop ≤ 1

theorem buildNode_kind_elem (st : Nat) (i : Item) (h : isElemK (buildNode st i).1.kind = true) : ∃ q as ks, i = .elem q as ks := by
  cases i with
  | elem q as ks => exact ⟨q, as, ks, rfl⟩
  | _ => simp [buildNode, Node.kind, isElemK] at h

theorem buildTop_kinds (st : Nat) (t : TopItem) :
    (isElemK (buildTop st t).1.kind = true → isElemTop t = true) ∧
    (isDoctypeK (buildTop st t).1.kind = true → isDoctypeTop t = true) := by
  cases t with
  | comment s => simp [buildTop, Node.kind, isElemK, isDoctypeK]
  | pi tg d => simp [buildTop, Node.kind, isElemK, isDoctypeK]
  | doctype dt => simp [buildTop, Node.kind, isElemK, isDoctypeK, isDoctypeTop]
  | elem e =>
    refine ⟨fun _ => rfl, fun h => ?_⟩
    cases e <;> simp [buildTop, buildNode, Node.kind, isDoctypeK] at h

theorem buildTops_counts (st : Nat) (l : List TopItem) :
    cntK isElemK (buildTops st l).1 ≤ l.countP isElemTop ∧ cntK isDoctypeK (buildTops st l).1 ≤ l.countP isDoctypeTop := by
  induction l generalizing st with
  | nil => simp [buildTops, cntK_nil]
  | cons t r ih =>
    obtain ⟨h1, h2⟩ := ih (buildTop st t).2
    obtain ⟨k1, k2⟩ := buildTop_kinds st t
    simp only [buildTops, cntK_cons, List.countP_cons]
    constructor
    · by_cases he : isElemK (buildTop st t).1.kind = true
      · rw [if_pos he, if_pos (k1 he)]; omega
      · rw [if_neg he]; omega
    · by_cases he : isDoctypeK (buildTop st t).1.kind = true
      · rw [if_pos he, if_pos (k2 he)]; omega
      · rw [if_neg he]; omega

theorem buildSt_docInv (d : IDoc) (h : OneRoot d) : DocInv (buildSt d) := by
  obtain ⟨h1, h2⟩ := buildTops_counts 1 d.kids
  exact ⟨rfl, Nat.le_trans h1 h.1, Nat.le_trans h2 h.2⟩

end XmlRs.Dom
