import XmlRsModel.Lemmas.XRunsTest
/-! Completeness of `node_test`; the facts an omitted axis needs about the text of the node test. -/
namespace XmlRs.XLex
open XmlRs XmlRs.XPath XmlRs.Lex
open Gen.XPath

theorem nameCont_star (Z : Str) : NameCont ('*' :: Z) :=
  ⟨Stops.cons _ (by decide), [], '*' :: Z, rfl, rfl, Stops.cons _ (by decide), Stops.cons _ (by decide), Stops.cons _ (by decide)⟩

theorem stops_nc_ws_then {w : Str} (hw : okWs w = true) {c : Char} (hc : P.isNameChar c = false) (Y : Str) :
    Stops P.isNameChar (w ++ c :: Y) := by
  cases w with
  | nil => exact Stops.cons _ hc
  | cons d ds =>
    simp only [okWs, List.all_cons, Bool.and_eq_true] at hw
    apply Stops.cons
    cases h : P.isNameChar d with
    | false => rfl
    | true => have := space_not_nameChar d h; simp [hw.1] at this

theorem nameCont_ws_lpar {w : Str} (hw : okWs w = true) (Z : Str) : Stops P.isNameChar (w ++ '(' :: Z) :=
  stops_nc_ws_then hw (by decide) Z

theorem ncStart_star : ('*' != ':' && P.isNameStartChar '*') = false := by decide

theorem okNc_head {a : Str} (h : okNc a = true) : ∃ c t, a = c :: t ∧ (c != ':' && P.isNameStartChar c) = true := by
  cases a with
  | nil => simp [okNc] at h
  | cons c t => simp only [okNc, Bool.and_eq_true] at h; exact ⟨c, t, rfl, by simpa using h.1⟩

theorem runs_name_test_star (Z : Str) : Runs env (.nt N.name_test) ('*' :: Z) (.ok (.node N.name_test (.leaf ['*'])) Z) := by
  apply Runs.nt_of env_name_test
  rw [name_test_prod]
  exact Runs.alt (RunsAlt.hit (Runs.tag_ok ['*'] Z))

theorem runs_name_test_ns {p : Str} (hp : okNc p = true) (Z : Str) :
    Runs env (.nt N.name_test) (p ++ (':' :: '*' :: Z)) (.ok (.node N.name_test (.seq [cstNc p, .leaf [':', '*']])) Z) := by
  obtain ⟨c, t, e, hc⟩ := okNc_head hp
  apply Runs.nt_of env_name_test
  rw [name_test_prod]
  refine Runs.alt (RunsAlt.skip (Runs.tag_fail ?_) (RunsAlt.hit ?_))
  · rw [e]; exact strip_cons_ne _ _ (by intro e'; subst e'; revert hc; decide)
  · exact Runs.seq (RunsSeq.cons (runs_ncname hp (Stops.cons _ ncRest_colon)) (RunsSeq.cons (Runs.tag_ok [':', '*'] Z) (RunsSeq.nil _)))

theorem runs_name_test_q {q : QN} (hq : okQN q = true) {Z : Str} (hZ : Stops P.isNameChar Z) :
    Runs env (.nt N.name_test) (q.text ++ Z) (.ok (.node N.name_test (cstQN q)) Z) := by
  obtain ⟨c, t, e, hc⟩ := okQN_text_head hq
  have hstar : Runs env (.tag ['*']) (q.text ++ Z) .fail := by
    rw [e]; exact Runs.tag_fail (strip_cons_ne _ _ (by intro e'; subst e'; revert hc; decide))
  apply Runs.nt_of env_name_test
  rw [name_test_prod]
  refine Runs.alt (RunsAlt.skip hstar (RunsAlt.skip (Runs.seq_fail ?_) (RunsAlt.hit (runs_qname hq hZ))))
  obtain ⟨pre, loc⟩ := q
  simp only [okQN, Bool.and_eq_true] at hq
  cases pre with
  | none =>
    refine RunsSeq.fail_tail (runs_ncname hq.2 (stops_ncRest_of_nameChar hZ)) (RunsSeq.fail_head ?_)
    exact runs_tag_fail_head (stops_colon_of_nameChar hZ)
  | some p =>
    obtain ⟨c', t', e', hc'⟩ := okNc_head hq.2
    have : (QN.mk (some p) loc).text ++ Z = p ++ (':' :: (loc ++ Z)) := by simp [QN.text]
    rw [this]
    refine RunsSeq.fail_tail (runs_ncname hq.1 (Stops.cons _ ncRest_colon)) (RunsSeq.fail_head (Runs.tag_fail ?_))
    rw [e']
    have : c' ≠ '*' := by intro e''; subst e''; revert hc'; decide
    simp [stripPrefix, Ne.symm this]

theorem literal_fails_rpar (Z : Str) : Runs env (.nt N.literal) (')' :: Z) .fail := literal_fails (Stops.cons _ (by decide))

theorem runs_node_test (test : CTest) (h : okTest test = true) {Z : Str} (hZ : NameCont Z) :
    Runs env (.nt N.node_test) (test.str ++ Z) (.ok (cstTest test) Z) := by
  cases test with
  | star =>
    apply Runs.nt_of env_node_test
    rw [node_test_prod]
    refine Runs.alt (RunsAlt.skip ?_ (RunsAlt.skip ?_ (RunsAlt.hit (runs_name_test_star Z))))
    · exact Runs.seq_fail (RunsSeq.fail_head (Runs.seq_fail (RunsSeq.fail_head (Runs.tag_fail (by simp [CTest.str, typeText, stripPrefix])))))
    · refine Runs.seq_fail (RunsSeq.fail_head ?_)
      apply Runs.nt_fail_of env_node_type
      rw [node_type_prod]
      have := runs_alt_tags (ev := env) typeTags (CTest.star.str ++ Z)
      have hf : firstTag typeTags (CTest.star.str ++ Z) = none := by simp [firstTag, typeTags, typeText, CTest.str, stripPrefix]
      rw [hf] at this
      exact Runs.alt this
  | nsStar p =>
    simp only [okTest] at h
    have hall : (p ++ [':']).all P.isNameChar = true := by simp [okNc_all h, nameChar_colon]
    have htxt : (CTest.nsStar p).str ++ Z = (p ++ [':']) ++ ('*' :: Z) := by simp [CTest.str]
    obtain ⟨k1, k2⟩ := keyword_alts_fail hall (nameCont_star Z)
    apply Runs.nt_of env_node_test
    rw [node_test_prod, htxt]
    refine Runs.alt (RunsAlt.skip k1 (RunsAlt.skip k2 (RunsAlt.hit ?_)))
    have : (p ++ [':']) ++ ('*' :: Z) = p ++ (':' :: '*' :: Z) := by simp
    rw [this]
    exact runs_name_test_ns h Z
  | name q =>
    simp only [okTest] at h
    obtain ⟨k1, k2⟩ := keyword_alts_fail (okQN_all h) hZ
    apply Runs.nt_of env_node_test
    rw [node_test_prod]
    exact Runs.alt (RunsAlt.skip k1 (RunsAlt.skip k2 (RunsAlt.hit (runs_name_test_q h hZ.1))))
  | typeTest t w1 w2 =>
    simp only [okTest, Bool.and_eq_true] at h
    have htxt : (CTest.typeTest t w1 w2).str ++ Z = typeText t ++ (w1 ++ ('(' :: (w2 ++ (')' :: Z)))) := by simp [CTest.str]
    apply Runs.nt_of env_node_test
    rw [node_test_prod, htxt]
    have hparens : Runs env parensG (w1 ++ ('(' :: (w2 ++ (')' :: Z)))) (.ok (.seq [.leaf w1, .leaf ['('], .leaf w2, .leaf [')']]) Z) :=
      Runs.seq (RunsSeq.cons (runs_cls0 h.1 (Stops.cons _ sp_lpar')) (RunsSeq.cons (Runs.tag_ok ['('] _)
        (RunsSeq.cons (runs_cls0 h.2 (Stops.cons _ sp_rpar')) (RunsSeq.cons (Runs.tag_ok [')'] Z) (RunsSeq.nil _)))))
    have htype : Runs env (.nt N.node_type) (typeText t ++ (w1 ++ ('(' :: (w2 ++ (')' :: Z))))) (.ok (.node N.node_type (.leaf (typeText t))) (w1 ++ ('(' :: (w2 ++ (')' :: Z))))) := by
      apply Runs.nt_of env_node_type
      rw [node_type_prod]
      have := runs_alt_tags (ev := env) typeTags (typeText t ++ (w1 ++ ('(' :: (w2 ++ (')' :: Z)))))
      rw [firstTag_type t _ (nameCont_ws_lpar h.1 _)] at this
      exact Runs.alt this
    refine Runs.alt (RunsAlt.skip ?_ (RunsAlt.hit (Runs.seq (RunsSeq.cons htype (RunsSeq.cons hparens (RunsSeq.nil _))))))
    -- the `processing-instruction(literal)` alternative
    cases t with
    | pi =>
      have hhead : Runs env piHeadG (typeText .pi ++ (w1 ++ ('(' :: (w2 ++ (')' :: Z))))) (.ok (.seq [.leaf (typeText .pi), .leaf w1, .leaf ['('], .leaf w2]) (')' :: Z)) :=
        Runs.seq (RunsSeq.cons (Runs.tag_ok _ _) (RunsSeq.cons (runs_cls0 h.1 (Stops.cons _ sp_lpar')) (RunsSeq.cons (Runs.tag_ok ['('] _)
          (RunsSeq.cons (runs_cls0 h.2 (Stops.cons _ sp_rpar')) (RunsSeq.nil _)))))
      exact Runs.seq_fail (RunsSeq.fail_tail hhead (RunsSeq.fail_head (literal_fails_rpar Z)))
    | comment => exact Runs.seq_fail (RunsSeq.fail_head (Runs.seq_fail (RunsSeq.fail_head (Runs.tag_fail (by simp [typeText, stripPrefix])))))
    | text => exact Runs.seq_fail (RunsSeq.fail_head (Runs.seq_fail (RunsSeq.fail_head (Runs.tag_fail (by simp [typeText, stripPrefix])))))
    | node => exact Runs.seq_fail (RunsSeq.fail_head (Runs.seq_fail (RunsSeq.fail_head (Runs.tag_fail (by simp [typeText, stripPrefix])))))
  | piLit w1 w2 q s w3 =>
    simp only [okTest, Bool.and_eq_true] at h
    obtain ⟨⟨⟨⟨h1, h2⟩, hq⟩, hs⟩, h3⟩ := h
    have htxt : (CTest.piLit w1 w2 q s w3).str ++ Z = typeText .pi ++ (w1 ++ ('(' :: (w2 ++ (q :: (s ++ (q :: (w3 ++ (')' :: Z)))))))) := by simp [CTest.str]
    apply Runs.nt_of env_node_test
    rw [node_test_prod, htxt]
    have hhead : Runs env piHeadG (typeText .pi ++ (w1 ++ ('(' :: (w2 ++ (q :: (s ++ (q :: (w3 ++ (')' :: Z))))))))) (.ok (.seq [.leaf (typeText .pi), .leaf w1, .leaf ['('], .leaf w2]) (q :: (s ++ (q :: (w3 ++ (')' :: Z)))))) :=
      Runs.seq (RunsSeq.cons (Runs.tag_ok _ _) (RunsSeq.cons (runs_cls0 h1 (Stops.cons _ sp_lpar')) (RunsSeq.cons (Runs.tag_ok ['('] _)
        (RunsSeq.cons (runs_cls0 h2 (Stops.cons _ (sp_of_quote hq))) (RunsSeq.nil _)))))
    refine Runs.alt (RunsAlt.hit (Runs.seq (RunsSeq.cons hhead (RunsSeq.cons (runs_literal hq hs _) (RunsSeq.cons ?_ (RunsSeq.nil _))))))
    exact Runs.seq (RunsSeq.cons (runs_cls0 h3 (Stops.cons _ sp_rpar')) (RunsSeq.cons (Runs.tag_ok [')'] Z) (RunsSeq.nil _)))

/-- what an omitted axis needs to know about the text of the node test behind it -/
theorem test_axis_facts (test : CTest) (h : okTest test = true) {Z : Str} (hZ : NameCont Z) :
    (∀ t ∈ axisTags, ∀ U, stripPrefix t (test.str ++ Z) = some U → Runs env dcolon U .fail) ∧ Stops (· == '@') (test.str ++ Z) := by
  have novac : ∀ (I : Str), (∀ t ∈ axisTags, stripPrefix t I = none) → ∀ t ∈ axisTags, ∀ U, stripPrefix t I = some U → Runs env dcolon U .fail := by
    intro I hI t ht U hU; rw [hI t ht] at hU; cases hU
  cases test with
  | star =>
    refine ⟨novac _ ?_, Stops.cons _ (by decide)⟩
    intro t ht
    simp only [axisTags, List.mem_cons, List.mem_nil_iff, or_false] at ht
    rcases ht with rfl | rfl | rfl | rfl | rfl | rfl | rfl | rfl | rfl | rfl | rfl | rfl | rfl <;> simp [CTest.str, stripPrefix]
  | nsStar p =>
    simp only [okTest] at h
    obtain ⟨c, t, e, hc⟩ := okNc_head h
    have hall : (p ++ [':']).all P.isNameChar = true := by simp [okNc_all h, nameChar_colon]
    have hdc : noDC (p ++ [':']) = true := noDC_one_colon p [] (okNc_no_colon h) rfl
    have htxt : (CTest.nsStar p).str ++ Z = (p ++ [':']) ++ ('*' :: Z) := by simp [CTest.str]
    rw [htxt]
    refine ⟨name_no_dcolon hall hdc (nameCont_star Z), ?_⟩
    rw [e]; exact Stops.cons _ (by cases hcc : c == '@' with
      | false => rfl
      | true => simp only [beq_iff_eq] at hcc; subst hcc; revert hc; decide)
  | name q =>
    simp only [okTest] at h
    obtain ⟨c, t, e, hc⟩ := okQN_text_head h
    refine ⟨name_no_dcolon (okQN_all h) (qn_noDC h) hZ, ?_⟩
    simp only [CTest.str, e, List.cons_append]
    exact Stops.cons _ (by cases hcc : c == '@' with
      | false => rfl
      | true => simp only [beq_iff_eq] at hcc; subst hcc; revert hc; decide)
  | typeTest t w1 w2 =>
    refine ⟨novac _ ?_, ?_⟩
    · intro t' ht
      simp only [axisTags, List.mem_cons, List.mem_nil_iff, or_false] at ht
      cases t <;> rcases ht with rfl | rfl | rfl | rfl | rfl | rfl | rfl | rfl | rfl | rfl | rfl | rfl | rfl <;> simp [CTest.str, typeText, stripPrefix]
    · cases t <;> exact Stops.cons _ (by decide)
  | piLit w1 w2 q s w3 =>
    refine ⟨novac _ ?_, Stops.cons _ (by decide)⟩
    intro t' ht
    simp only [axisTags, List.mem_cons, List.mem_nil_iff, or_false] at ht
    rcases ht with rfl | rfl | rfl | rfl | rfl | rfl | rfl | rfl | rfl | rfl | rfl | rfl | rfl <;> simp [CTest.str, typeText, stripPrefix]

end XmlRs.XLex
