import XmlRsModel.Lemmas.DomInv
import XmlRsModel.Lemmas.DomNorm
/-! Every operation of the DOM model keeps the invariant: `step_grow` says what a step may do to
    the multiset of node ids (keep them, and add ids drawn from the allocation counter only). -/
namespace XmlRs.Dom
open List

/-- `s'` holds the ids of `s` at most as often as `s` did, plus at most once each id allocated in between -/
def Grow (s s' : St) : Prop :=
  s.next ≤ s'.next ∧ ∀ a, cntL a s'.roots ≤ cntL a s.roots + (if s.next ≤ a ∧ a < s'.next then 1 else 0)

theorem Inv.of_grow {s s' : St} (hi : Inv s) (h : Grow s s') : Inv s' := by
  refine ⟨fun a => ?_, fun a ha => ?_⟩
  · have h1 := h.2 a
    have h2 := hi.1 a
    by_cases hlt : a < s.next
    · have : ¬ (s.next ≤ a ∧ a < s'.next) := by omega
      simp only [this, if_false] at h1; omega
    · have h3 : cntL a s.roots = 0 := by
        cases hc : cntL a s.roots with
        | zero => rfl
        | succ m => have := hi.2 a (by omega); omega
      split at h1 <;> omega
  · have h1 := h.2 a
    have h0 := h.1
    by_cases hp : 0 < cntL a s.roots
    · have := hi.2 a hp; omega
    · split at h1 <;> omega

theorem NoNew.grow {s s' : St} (h : NoNew s s') : Grow s s' :=
  ⟨Nat.le_of_eq h.1.symm, fun a => Nat.le_trans (h.2 a) (Nat.le_add_right _ _)⟩

theorem SameIds.grow {s s' : St} (h : SameIds s s') : Grow s s' := h.noNew.grow

theorem Grow.refl (s : St) : Grow s s := (NoNew.refl s).grow

/-- the handle table is the caller's business: it does not enter the invariant -/
theorem Grow.with_handles {s s' : St} (h : Grow s s') (hs : List (Option Nat)) : Grow s { s' with handles := hs } := h

theorem fresh_grow (s : St) (k : Kind) (d : Str) : Grow s (s.fresh k d).1 := by
  refine ⟨by simp [St.fresh], fun a => ?_⟩
  simp only [St.fresh, cntL_roots, cntL_append, cntL_cons, cntL_nil, cnt_mk]
  by_cases h : s.next = a
  · subst h; simp; omega
  · have : (s.next == a) = false := by simpa using h
    simp [this]

/-- the ids of freshly made attribute value items: one each from `start` on -/
theorem mkItems_spec (start : Nat) (ps : List Piece) :
    (mkItems start ps).2 = start + ps.length ∧
    ∀ a, cntL a (mkItems start ps).1 = if start ≤ a ∧ a < start + ps.length then 1 else 0 := by
  induction ps generalizing start with
  | nil => simp [mkItems, cntL_nil]
  | cons p r ih =>
    obtain ⟨h1, h2⟩ := ih (start + 1)
    simp only [mkItems]
    refine ⟨by simp [h1]; omega, fun a => ?_⟩
    simp only [cntL_cons, cnt_mk, cntL_nil, h2 a, List.length_cons]
    by_cases h : start = a
    · subst h; simp; omega
    · have : (start == a) = false := by simpa using h
      simp only [this, Bool.false_eq_true, if_false]
      by_cases h3 : start + 1 ≤ a ∧ a < start + 1 + r.length
      · have : start ≤ a ∧ a < start + (r.length + 1) := by omega
        simp [h3, this]
      · have : ¬ (start ≤ a ∧ a < start + (r.length + 1)) := by omega
        simp [h3, this]

theorem replaceChild_sameIds (s : St) (p new old : Nat) (hi : Inv s) :
    SameIds s (step s (.replaceChild p new old)).1 := by
  simp only [step]
  split
  · exact SameIds.refl s
  · next pn hp =>
    split
    · have h := insertChild_sameIds s p new (some old) hi
      cases hic : insertChild s p new (some old) with
      | mk s' r =>
        rw [hic] at h
        cases r <;> exact h
    · have h1 := removeChild_sameIds s p old hi
      cases hrc : removeChild s p old with
      | mk s1 r1 =>
        rw [hrc] at h1
        cases r1 with
        | node i =>
          simp only
          have hi1 : Inv s1 := hi.of_sameIds h1
          generalize hr : (Option.map (fun x => x.id) (List.filter (fun x => x.id != new) (List.drop 1 (List.dropWhile (fun x => x.id != old) pn.kids))).head?) = ref
          have h2 := insertChild_sameIds s1 p new ref hi1
          cases hic : insertChild s1 p new ref with
          | mk s2 r2 =>
            rw [hic] at h2
            cases r2 <;> first | exact SameIds.refl s | exact h1.trans h2
        | _ => exact SameIds.refl s

theorem cnt_mapAttrs_snoc (x n : Node) (a : Nat) : cnt a (n.mapAttrs (· ++ [x])) = cnt a n + cnt a x := by
  have := cnt_mapAttrs (· ++ [x]) n a
  simp only [cntL_append, cntL_cons, cntL_nil] at this
  omega

theorem detachKeep_sameIds (s : St) (i : Nat) (hi : Inv s) : SameIds s (s.detachKeep i) := by
  unfold St.detachKeep
  cases hd : s.detach i with
  | mk s' x =>
    cases x with
    | some n => exact detach_keep_sameIds s s' i n hi hd
    | none =>
      obtain ⟨_, _, _, hnone⟩ := detach_count s s' i none hi.1 hd
      simp only [hnone rfl]; exact SameIds.refl s

theorem detachAll_sameIds (l : List Nat) : ∀ (s : St), Inv s → SameIds s (s.detachAll l) := by
  induction l with
  | nil => intro s _; exact SameIds.refl s
  | cons i r ih =>
    intro s hi
    have h1 := detachKeep_sameIds s i hi
    exact h1.trans (ih _ (hi.of_sameIds h1))

theorem setAttr_core (s s1 : St) (hs : SameIds s s1) (hi : Inv s) (e : Nat) (k : Kind) (ps : List Piece) :
    Grow s { (s1.update e (Node.mapAttrs (· ++ [Node.mk s.next k [] [] (mkItems (s.next + 1) ps).1]))) with
              next := (mkItems (s.next + 1) ps).2 } := by
  obtain ⟨hn, hc⟩ := mkItems_spec (s.next + 1) ps
  have hi1 : Inv s1 := hi.of_sameIds hs
  refine ⟨by simp only [hn]; omega, fun a => ?_⟩
  have := update_le s1 e (Node.mapAttrs (· ++ [Node.mk s.next k [] [] (mkItems (s.next + 1) ps).1]))
    (idsOf (Node.mk s.next k [] [] (mkItems (s.next + 1) ps).1)) hi1.1 (fun n b => cnt_mapAttrs_snoc _ n b) a
  have h2 := hs.2 a
  have h3 : count a (idsOf (Node.mk s.next k [] [] (mkItems (s.next + 1) ps).1)) =
      (if s.next ≤ a ∧ a < (mkItems (s.next + 1) ps).2 then 1 else 0) := by
    show cnt a (Node.mk s.next k [] [] (mkItems (s.next + 1) ps).1) = _
    rw [cnt_mk, cntL_nil, hc a, hn]
    by_cases h : s.next = a
    · subst h
      have e1 : ¬ (s.next + 1 ≤ s.next ∧ s.next < s.next + 1 + ps.length) := by omega
      have e2 : s.next ≤ s.next ∧ s.next < s.next + 1 + ps.length := by omega
      simp [e1, e2]
    · have : (s.next == a) = false := by simpa using h
      simp only [this, Bool.false_eq_true, if_false]
      by_cases h3 : s.next + 1 ≤ a ∧ a < s.next + 1 + ps.length
      · have : s.next ≤ a ∧ a < s.next + 1 + ps.length := by omega
        simp [h3, this]
      · have : ¬ (s.next ≤ a ∧ a < s.next + 1 + ps.length) := by omega
        simp [h3, this]
  show cntL a (s1.update e _).roots ≤ cntL a s.roots + (if s.next ≤ a ∧ a < (mkItems (s.next + 1) ps).2 then 1 else 0)
  rw [h3] at this
  omega

/-- take `a` out of wherever it is and make it an attribute of `e` -/
theorem attach_core (s1 s2 : St) (hi1 : Inv s1) (a e : Nat) (x : Node) (hd : s1.detach a = (s2, some x)) :
    NoNew s1 (s2.update e (Node.mapAttrs (· ++ [x]))) := by
  obtain ⟨hn, _, hsome, _⟩ := detach_count s1 s2 a (some x) hi1.1 hd
  obtain ⟨_, hcnt⟩ := hsome x rfl
  have hnd2 : ∀ b, cntL b s2.roots ≤ 1 := fun b => by have := hcnt b; have := hi1.1 b; omega
  refine ⟨by rw [update_next, hn], fun b => ?_⟩
  have := update_le s2 e (Node.mapAttrs (· ++ [x])) (idsOf x) hnd2 (fun n c => cnt_mapAttrs_snoc x n c) b
  have h2 := hcnt b
  have h3 : count b (idsOf x) = cnt b x := rfl
  omega

theorem setValue_core (s : St) (hi : Inv s) (n : Nat) (nn : Node) (hf : s.find n = some nn) (ps : List Piece) :
    Grow s { (s.update n (Node.mapKids (fun _ => (mkItems s.next ps).1))) with
              next := (mkItems s.next ps).2,
              detached := (s.update n (Node.mapKids (fun _ => (mkItems s.next ps).1))).detached ++ nn.kids } := by
  obtain ⟨hn, hc⟩ := mkItems_spec s.next ps
  refine ⟨by simp only [hn]; omega, fun a => ?_⟩
  have := update_count s n (Node.mapKids (fun _ => (mkItems s.next ps).1)) nn (idsOfL nn.kids) (idsOfL (mkItems s.next ps).1)
    hi.1 hf (fun b => cnt_mapKids (fun _ => (mkItems s.next ps).1) nn b) a
  have h2 := hc a
  show cntL a (St.roots { (s.update n (Node.mapKids (fun _ => (mkItems s.next ps).1))) with
              next := (mkItems s.next ps).2,
              detached := (s.update n (Node.mapKids (fun _ => (mkItems s.next ps).1))).detached ++ nn.kids }) ≤
       cntL a s.roots + (if s.next ≤ a ∧ a < (mkItems s.next ps).2 then 1 else 0)
  rw [hn]
  simp only [cntL_roots, cntL_append] at this ⊢
  have e1 : count a (idsOfL nn.kids) = cntL a nn.kids := rfl
  have e2 : count a (idsOfL (mkItems s.next ps).1) = cntL a (mkItems s.next ps).1 := rfl
  omega

/-- where `splitText` puts the second half among the children of the parent -/
def splitPlace (n : Nat) (new : Node) (ks : List Node) : List Node :=
  match (ks.dropWhile (·.id != n)).drop 1 with
  | nx :: _ => insertBeforeL new (some nx.id) ks
  | [] => ks ++ [new]

theorem cntL_splitPlace (n : Nat) (new : Node) (ks : List Node) (a : Nat) :
    cntL a (splitPlace n new ks) = cntL a ks + cnt a new := by
  unfold splitPlace
  split
  · rw [cntL_insertBeforeL]
  · rw [cntL_append, cntL_cons, cntL_nil]; omega

theorem split_core (s s1 : St) (hs : SameIds s s1) (hi : Inv s) (n : Nat) (k : Kind) (r : Str) :
    Grow s { (match s1.parent n with
              | some p => s1.update p (Node.mapKids (splitPlace n (Node.mk s.next k r [] [])))
              | none => { s1 with detached := s1.detached ++ [Node.mk s.next k r [] []] }) with next := s.next + 1 } := by
  have hi1 : Inv s1 := hi.of_sameIds hs
  refine ⟨by simp, fun a => ?_⟩
  have hnew : cnt a (Node.mk s.next k r [] []) = if s.next ≤ a ∧ a < s.next + 1 then 1 else 0 := by
    rw [cnt_mk, cntL_nil]
    by_cases h : s.next = a
    · subst h; simp
    · have : (s.next == a) = false := by simpa using h
      have e : ¬ (s.next ≤ a ∧ a < s.next + 1) := by omega
      simp [this, e]
  have h2 := hs.2 a
  cases hp : s1.parent n with
  | none =>
    show cntL a (St.roots { s1 with detached := s1.detached ++ [Node.mk s.next k r [] []] }) ≤ _
    simp only [cntL_roots, cntL_append, cntL_cons, cntL_nil] at h2 ⊢
    show _ ≤ _ + (if s.next ≤ a ∧ a < s.next + 1 then 1 else 0)
    omega
  | some p =>
    have := update_le s1 p (Node.mapKids (splitPlace n (Node.mk s.next k r [] []))) (idsOf (Node.mk s.next k r [] [])) hi1.1
      (fun m b => by
        have := cnt_mapKids (splitPlace n (Node.mk s.next k r [] [])) m b
        rw [cntL_splitPlace] at this
        show cnt b (Node.mapKids (splitPlace n (Node.mk s.next k r [] [])) m) = cnt b m + cnt b (Node.mk s.next k r [] [])
        omega) a
    have e : count a (idsOf (Node.mk s.next k r [] [])) = cnt a (Node.mk s.next k r [] []) := rfl
    show cntL a (s1.update p _).roots ≤ _ + (if s.next ≤ a ∧ a < s.next + 1 then 1 else 0)
    omega


theorem dataOp_sameIds (s : St) (n : Nat) (f : Str → Option Str) (hi : Inv s) : SameIds s (step.dataOp s n f).1 := by
  unfold step.dataOp
  repeat' split
  all_goals first
    | exact SameIds.refl s
    | exact update_sameIds s n _ hi.1 (fun m a => cnt_withData _ m a)

theorem sAN_core (s s1 : St) (hi : Inv s) (hs : SameIds s s1) (oldId : Option Nat) (a e : Nat) (en : Node) :
    Grow s (match s1.detach a with
      | (s2, some x) =>
        if tooDeep s2 en x then (s, Res.err Exc.hierarchy) else
        (s2.update e (Node.mapAttrs (· ++ [x])), (match oldId with | some o => Res.node o | none => Res.none_))
      | (_, none) => (s, Res.err Exc.notFound)).1 := by
  cases hd2 : s1.detach a with
  | mk s2 x =>
    cases x with
    | none => exact Grow.refl s
    | some n =>
      show Grow s (if tooDeep s2 en n then (s, Res.err Exc.hierarchy) else _).1
      split
      · exact Grow.refl s
      · exact (hs.noNew.trans (attach_core s1 s2 (hi.of_sameIds hs) a e n hd2)).grow

theorem step_grow (s : St) (op : Op) (hi : Inv s) : Grow s (step s op).1 := by
  cases op with
  | createElement name => simp only [step]; split <;> first | exact fresh_grow s _ _ | exact Grow.refl s
  | createText d => simp only [step]; split <;> first | exact fresh_grow s _ _ | exact Grow.refl s
  | createComment d => simp only [step]; split <;> first | exact fresh_grow s _ _ | exact Grow.refl s
  | createCData d => simp only [step]; split <;> first | exact fresh_grow s _ _ | exact Grow.refl s
  | createPI t d => simp only [step]; split <;> first | exact fresh_grow s _ _ | exact Grow.refl s
  | createAttribute name => simp only [step]; split <;> first | exact fresh_grow s _ _ | exact Grow.refl s
  | createEntityRef name => simp only [step]; repeat' split
                            all_goals first | exact fresh_grow s _ _ | exact Grow.refl s
  | appendChild p c => simp only [step]; exact (insertChild_sameIds s p c none hi).grow
  | insertBefore p c r => simp only [step]; exact (insertChild_sameIds s p c r hi).grow
  | removeChild p c => simp only [step]; exact (removeChild_sameIds s p c hi).grow
  | replaceChild p new old => exact (replaceChild_sameIds s p new old hi).grow
  | normalize e => exact (normalize_sameIds s e hi).grow
  | setData n d => simp only [step]; exact (dataOp_sameIds s n _ hi).grow
  | appendData n d => simp only [step]; exact (dataOp_sameIds s n _ hi).grow
  | insertData n off d => simp only [step]; exact (dataOp_sameIds s n _ hi).grow
  | deleteData n off cnt => simp only [step]; exact (dataOp_sameIds s n _ hi).grow
  | replaceData n off cnt d => simp only [step]; exact (dataOp_sameIds s n _ hi).grow
  | getAttributeNode e name => simp only [step]; repeat' split
                               all_goals exact Grow.refl s
  | childAt n i => simp only [step]; repeat' split
                   all_goals exact Grow.refl s
  | removeAttribute e name =>
    simp only [step]
    split
    · exact (detachAll_sameIds _ s hi).grow
    · exact Grow.refl s
  | removeAttributeNode e a =>
    simp only [step]
    repeat' split
    all_goals first
      | exact Grow.refl s
      | exact (detachAll_sameIds _ s hi).grow
  | setAttribute e name value =>
    simp only [step]
    split
    · next en hf =>
      split
      · split
        · exact Grow.refl s
        · split
          · exact Grow.refl s
          · next ps hps =>
            exact setAttr_core s _ (detachAll_sameIds (sameLocalIds en name) s hi) hi e _ ps
      · exact Grow.refl s
    · exact Grow.refl s
  | setAttributeNode e a =>
    simp only [step]
    split
    · next en an hfe hfa =>
      split
      · next nm sp hk =>
        split
        · exact Grow.refl s
        · split
          · exact Grow.refl s
          · exact sAN_core s _ hi (detachAll_sameIds (sameLocalIds en nm) s hi) _ a e en
      · exact Grow.refl s
    · exact Grow.refl s
  | setValue n v =>
    simp only [step]
    split
    · next nn hf =>
      split
      · split
        · exact Grow.refl s
        · next ps hps => exact setValue_core s hi n nn hf ps
      all_goals (first
        | exact Grow.refl s
        | (split
           · exact (update_sameIds s n _ hi.1 (fun m a => cnt_withData _ m a)).grow
           · exact Grow.refl s))
    · exact Grow.refl s
  | splitText n off =>
    simp only [step]
    split
    · next nn hf =>
      split
      all_goals (first
        | exact Grow.refl s
        | (split
           · exact Grow.refl s
           · next l r hsp =>
             exact split_core s (s.update n (Node.withData l)) (update_sameIds s n _ hi.1 (fun m a => cnt_withData _ m a)) hi n nn.kind r))
    · exact Grow.refl s

end XmlRs.Dom
