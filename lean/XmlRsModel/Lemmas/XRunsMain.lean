import XmlRsModel.Lemmas.XRunsExpr
/-! The main completeness theorem of the XPath grammar (mutual over expressions, operator tails, arguments, relative
    paths, steps and predicates). -/
namespace XmlRs.XLex
open XmlRs XmlRs.XPath XmlRs.Lex
open Gen.XPath

def argSepG : G := G.seq [G.cls0 P.isSpace, G.tag [','], G.cls0 P.isSpace]
def argIterG : G := G.seq [argSepG, G.nt N.argument]
def argsAltG : G := G.alt [G.seq [G.nt N.argument, G.many0 argIterG], G.seq []]
def relIterG : G := G.seq [G.seq [G.cls0 P.isSpace, slashG, G.cls0 P.isSpace], G.nt N.step]
def predIterG : G := G.seq [G.cls0 P.isSpace, G.nt N.predicate]

theorem function_call_prod' : Prod.function_call = G.seq [G.nt N.function_name, G.seq [callOpen, argsAltG, G.seq [G.cls0 P.isSpace, G.tag [')']]]] := rfl
theorem rel_prod' : Prod.relative_location_path = G.seq [G.nt N.step, G.many0 relIterG] := rfl
theorem step_prod' : Prod.step = G.alt [G.tag ['.', '.'], G.tag ['.'],
    G.seq [G.nt N.axis_specifier, G.seq [G.cls0 P.isSpace, G.nt N.node_test], G.many0 predIterG]] := rfl
theorem filter_prod' : Prod.filter_expr = G.seq [G.nt N.primary_expr, G.many0 predIterG] := rfl
theorem path_prod' : Prod.path_expr = G.alt [
    G.seq [G.nt N.filter_expr, G.alt [G.seq [G.seq [G.cls0 P.isSpace, slashG, G.cls0 P.isSpace], G.nt N.relative_location_path], G.seq []]],
    G.seq [G.seq [slashG, G.cls0 P.isSpace], G.nt N.relative_location_path],
    G.nt N.relative_location_path, G.tag ['/']] := rfl

theorem sp_lbr : P.isSpace '[' = false := by decide
theorem sp_rbr : P.isSpace ']' = false := by decide
theorem sp_comma : P.isSpace ',' = false := by decide
theorem sp_minus : P.isSpace '-' = false := by decide
theorem sp_slash' : P.isSpace '/' = false := by decide

/-- the continuation in front of a predicate or of a path separator -/
theorem cont_ws_head (l : Nat) {w : Str} (hw : okWs w = true) (c : Char) (R : Str) (h1 : P.isSpace c = false) (h2 : isHeadFrom l c = false)
    (h3 : c ≠ ':') (h4 : P.isNameChar c = false) : Cont l (w ++ c :: R) :=
  ⟨w, c :: R, rfl, hw, .inr ⟨c, R, rfl, h1, h2, h3, fun _ => h4⟩⟩

theorem slashText_head (ds : Bool) : ∃ t, slashText ds = '/' :: t := by cases ds <;> exact ⟨_, rfl⟩

theorem cont9_slash {w : Str} (hw : okWs w = true) (ds : Bool) (R : Str) : Cont 9 (w ++ (slashText ds ++ R)) := by
  obtain ⟨t, e⟩ := slashText_head ds
  rw [e]
  exact cont_ws_head 9 hw '/' _ (by decide) (by decide) (by decide) (by decide)

theorem cont10_lbr {w : Str} (hw : okWs w = true) (R : Str) : Cont 10 (w ++ '[' :: R) :=
  cont_ws_head 10 hw '[' _ (by decide) (by decide) (by decide) (by decide)

theorem cont_preds (preds : CPreds) (h : okPreds preds = true) {Z : Str} (hZ : Cont 9 Z) : Cont 10 (preds.str ++ Z) := by
  cases preds with
  | nil => simpa [CPreds.str] using hZ.mono (by omega)
  | cons w w1 e w2 t =>
    simp only [okPreds, Bool.and_eq_true] at h
    simp only [CPreds.str, List.append_assoc, List.cons_append]
    exact cont10_lbr h.1.1.1.1 _

theorem numEnd_of_cont {l : Nat} {Y : Str} (h : Cont l Y) : NumEnd Y :=
  h.stops_nc.mono fun c hc => by
    have h1 := digit_nameChar c hc
    have h2 : (c == '.') = false := by
      cases hd : c == '.' with
      | false => rfl
      | true => simp only [beq_iff_eq] at hd; subst hd; revert hc; decide
    simp [h1, h2]

theorem endsRoot_ok9 {f : CX} (h : okAt 9 f = true) : endsRoot f = false := by
  cases f <;> simp_all [okAt, endsRoot]

theorem endsRoot_ok10 {f : CX} (h : okAt 10 f = true) : endsRoot f = false := by
  cases f <;> simp_all [okAt, endsRoot]

mutual
theorem runs_x : ∀ (e : CX) (l : Nat), okAt l e = true → ∀ Y : Str, Cont l Y → (endsRoot e = true → RootSafe Y) →
    Runs env (.nt (ntOfLevel l)) (e.str ++ Y) (.ok (cstX e) Y)
  | .chain l' f r, l, hok, Y, hY, hR => by
    simp only [okAt, Bool.and_eq_true, beq_iff_eq, decide_eq_true_eq] at hok
    obtain ⟨⟨⟨rfl, hl5⟩, hf⟩, hr⟩ := hok
    have hnt : ntOfLevel l = levelNt l := by
      match l, hl5 with
      | 0, _ => rfl | 1, _ => rfl | 2, _ => rfl | 3, _ => rfl | 4, _ => rfl | 5, _ => rfl
      | n + 6, h => omega
    rw [hnt]
    simp only [cstX]
    apply Runs.nt_of (env_level l hl5)
    rw [chainG_eq l hl5]
    have htail := runs_tail r l (.inl hl5) (endsRoot f) hr Y hY (by simpa [endsRoot] using hR)
    have hfirst : Runs env (.nt (operandNt' l)) (f.str ++ (r.str ++ Y)) (.ok (cstX f) (r.str ++ Y)) := by
      rw [operandNt'_eq l (.inl hl5)]
      refine runs_x f (l + 1) hf (r.str ++ Y) ?_ ?_
      · cases r with
        | nil => simpa [CXTail.str] using hY.mono (Nat.le_succ l)
        | cons w1 op w2 e t =>
          simp only [XPath.okTail, Bool.and_eq_true, beq_iff_eq, Bool.or_eq_true, Bool.not_eq_true'] at hr
          simp only [CXTail.str, List.append_assoc]
          exact cont_of_op op (l + 1) (by omega) hr.1.1.1.1.1.2 (fun hn => by
            have := hr.1.1.1.1.2; rcases this with h | h; (rw [hn] at h; cases h); simpa using h) _
      · intro hroot
        cases r with
        | nil => simpa [CXTail.str] using hR (by simpa [endsRoot, endsRootTail] using hroot)
        | cons w1 op w2 e t =>
          simp only [XPath.okTail, Bool.and_eq_true, beq_iff_eq, Bool.or_eq_true, Bool.not_eq_true'] at hr
          simp only [CXTail.str, List.append_assoc]
          have hsafe : opRootSafe op = true := by
            have := hr.1.1.1.2; rcases this with h | h; (rw [hroot] at h; cases h); exact h
          exact rootSafe_of_op op hsafe hr.1.1.1.1.1.2 _
    simp only [CX.str, List.append_assoc]
    exact Runs.seq (RunsSeq.cons hfirst (RunsSeq.cons (Runs.many htail) (RunsSeq.nil _)))
  | .unary ms e, l, hok, Y, hY, hR => by
    simp only [okAt, Bool.and_eq_true, beq_iff_eq] at hok
    obtain ⟨⟨rfl, hms⟩, he⟩ := hok
    simp only [ntOfLevel, cstX]
    apply Runs.nt_of env_unary_expr
    rw [unary_prod]
    have hinner := runs_x e 7 he Y (hY.mono (by omega)) (by simpa [endsRoot] using hR)
    simp only [ntOfLevel] at hinner
    obtain ⟨c, t, ec, hc1, _, hc3⟩ := x_head e 7 he Y
    -- the loop of minus signs
    have hloop : ∀ ms : List Str, ms.all okWs = true →
        RunsMany env (G.seq [G.tag ['-'], G.cls0 P.isSpace]) (minusText ms ++ (e.str ++ Y)) (.ok (cstMinus ms) (e.str ++ Y)) := by
      intro ms
      induction ms with
      | nil =>
        intro _
        simp only [minusText, List.nil_append, cstMinus, List.map_nil]
        rw [ec]
        exact RunsMany.stop (Runs.seq_fail (RunsSeq.fail_head (Runs.tag_fail (strip_cons_ne _ _ (Ne.symm (hc3 (Nat.le_refl _)))))))
      | cons w r ih =>
        intro h
        simp only [List.all_cons, Bool.and_eq_true] at h
        have hst : Stops P.isSpace (minusText r ++ (e.str ++ Y)) := by
          cases r with
          | nil => simp only [minusText, List.nil_append]; rw [ec]; exact Stops.cons _ hc1
          | cons w' r' => exact Stops.cons _ sp_minus
        simp only [minusText, cstMinus, List.map_cons, List.cons_append, List.append_assoc]
        refine RunsMany.step (r := minusText r ++ (e.str ++ Y)) ?_ ?_ (ih h.2)
        · exact Runs.seq (RunsSeq.cons (Runs.tag_ok ['-'] _) (RunsSeq.cons (runs_cls0 h.1 hst) (RunsSeq.nil _)))
        · simp only [List.length_cons, List.length_append]; omega
    simp only [CX.str, List.append_assoc]
    exact Runs.seq (RunsSeq.cons (Runs.many (hloop ms hms)) (RunsSeq.cons hinner (RunsSeq.nil _)))
  | .union f r, l, hok, Y, hY, hR => by
    simp only [okAt, Bool.and_eq_true, beq_iff_eq] at hok
    obtain ⟨⟨rfl, hf⟩, hr⟩ := hok
    simp only [ntOfLevel, cstX]
    apply Runs.nt_of env_union_expr
    rw [union_prod]
    have htail := runs_tail r 7 (.inr rfl) (endsRoot f) hr Y hY (by simpa [endsRoot] using hR)
    have hfirst : Runs env (.nt (operandNt' 7)) (f.str ++ (r.str ++ Y)) (.ok (cstX f) (r.str ++ Y)) := by
      rw [operandNt'_eq 7 (.inr rfl)]
      refine runs_x f 8 hf (r.str ++ Y) ?_ ?_
      · cases r with
        | nil => simpa [CXTail.str] using hY.mono (by omega)
        | cons w1 op w2 e t =>
          simp only [XPath.okTail, Bool.and_eq_true, beq_iff_eq, Bool.or_eq_true, Bool.not_eq_true'] at hr
          simp only [CXTail.str, List.append_assoc]
          exact cont_of_op op 8 (by omega) hr.1.1.1.1.1.2 (fun hn => by
            have := hr.1.1.1.1.2; rcases this with h | h; (rw [hn] at h; cases h); simpa using h) _
      · intro hroot
        cases r with
        | nil => simpa [CXTail.str] using hR (by simpa [endsRoot, endsRootTail] using hroot)
        | cons w1 op w2 e t =>
          simp only [XPath.okTail, Bool.and_eq_true, beq_iff_eq, Bool.or_eq_true, Bool.not_eq_true'] at hr
          simp only [CXTail.str, List.append_assoc]
          have hsafe : opRootSafe op = true := by
            have := hr.1.1.1.2; rcases this with h | h; (rw [hroot] at h; cases h); exact h
          exact rootSafe_of_op op hsafe hr.1.1.1.1.1.2 _
    simp only [CX.str, List.append_assoc]
    exact Runs.seq (RunsSeq.cons hfirst (RunsSeq.cons (Runs.many htail) (RunsSeq.nil _)))
  | .pathF f, l, hok, Y, hY, _ => by
    simp only [okAt, Bool.and_eq_true, beq_iff_eq] at hok
    obtain ⟨rfl, hf⟩ := hok
    simp only [ntOfLevel, cstX, CX.str]
    apply Runs.nt_of env_path_expr
    rw [path_prod']
    have hfil := runs_x f 9 hf Y (hY.mono (by omega)) (fun h => by rw [endsRoot_ok9 hf] at h; cases h)
    simp only [ntOfLevel] at hfil
    obtain ⟨w, T, rfl, hw, hs, hh, _⟩ := hY.split
    have hsl : Stops (· == '/') T := (hh 8 (mem_levels 8 (by omega)) (Nat.le_refl _)).mono fun c hc => by simpa [opHeads] using hc
    refine Runs.alt (RunsAlt.hit (Runs.seq (RunsSeq.cons hfil (RunsSeq.cons (Runs.opt_none ?_) (RunsSeq.nil _)))))
    exact Runs.seq_fail (RunsSeq.fail_head (Runs.seq_fail (RunsSeq.fail_tail (runs_cls0 hw hs) (RunsSeq.fail_head (slash_fails hsl)))))
  | .pathFR f w1 ds w2 rel, l, hok, Y, hY, _ => by
    simp only [okAt, Bool.and_eq_true, beq_iff_eq] at hok
    obtain ⟨⟨⟨⟨rfl, hf⟩, h1⟩, h2⟩, hrel⟩ := hok
    simp only [ntOfLevel, cstX]
    apply Runs.nt_of env_path_expr
    rw [path_prod']
    have hfil := runs_x f 9 hf (w1 ++ (slashText ds ++ (w2 ++ (rel.str ++ Y)))) (cont9_slash h1 ds _) (fun h => by rw [endsRoot_ok9 hf] at h; cases h)
    simp only [ntOfLevel] at hfil
    obtain ⟨c, t, ec, hc1, hc2, _, _⟩ := rel_head rel hrel Y
    have hrelr := runs_rel rel hrel Y hY
    have hsep : Runs env (G.seq [G.cls0 P.isSpace, slashG, G.cls0 P.isSpace]) (w1 ++ (slashText ds ++ (w2 ++ (rel.str ++ Y))))
        (.ok (.seq [.leaf w1, .leaf (slashText ds), .leaf w2]) (rel.str ++ Y)) := by
      obtain ⟨t', e'⟩ := slashText_head ds
      refine Runs.seq (RunsSeq.cons (runs_cls0 h1 (by rw [e']; exact Stops.cons _ sp_slash')) (RunsSeq.cons (runs_slash ds _ ?_)
        (RunsSeq.cons (runs_cls0 h2 (by rw [ec]; exact Stops.cons _ hc1)) (RunsSeq.nil _))))
      exact stops_ws_or h2 space_ne_slash (by rw [ec]; exact stops_of_ne hc2 _)
    simp only [CX.str, List.append_assoc]
    exact Runs.alt (RunsAlt.hit (Runs.seq (RunsSeq.cons hfil (RunsSeq.cons (Runs.opt_some (Runs.seq (RunsSeq.cons hsep (RunsSeq.cons hrelr (RunsSeq.nil _))))) (RunsSeq.nil _)))))
  | .pathAbs ds w rel, l, hok, Y, hY, _ => by
    simp only [okAt, Bool.and_eq_true, beq_iff_eq] at hok
    obtain ⟨⟨rfl, hw⟩, hrel⟩ := hok
    simp only [ntOfLevel, cstX]
    apply Runs.nt_of env_path_expr
    rw [path_prod']
    obtain ⟨c, t, ec, hc1, hc2, _, _⟩ := rel_head rel hrel Y
    obtain ⟨t', e'⟩ := slashText_head ds
    have hrelr := runs_rel rel hrel Y hY
    have hfail : Runs env (.nt N.filter_expr) ((CX.pathAbs ds w rel).str ++ Y) .fail := by
      simp only [CX.str, List.append_assoc, e', List.cons_append]
      exact filter_fails_of_primary (primary_fails_slash _)
    simp only [CX.str, List.append_assoc] at hfail ⊢
    refine Runs.alt (RunsAlt.skip (Runs.seq_fail (RunsSeq.fail_head hfail)) (RunsAlt.hit ?_))
    refine Runs.seq (RunsSeq.cons (Runs.seq (RunsSeq.cons (runs_slash ds _ ?_) (RunsSeq.cons (runs_cls0 hw (by rw [ec]; exact Stops.cons _ hc1)) (RunsSeq.nil _))))
      (RunsSeq.cons hrelr (RunsSeq.nil _)))
    exact stops_ws_or hw space_ne_slash (by rw [ec]; exact stops_of_ne hc2 _)
  | .pathRel rel, l, hok, Y, hY, _ => by
    simp only [okAt, Bool.and_eq_true, beq_iff_eq] at hok
    obtain ⟨rfl, hrel⟩ := hok
    simp only [ntOfLevel, cstX, CX.str]
    apply Runs.nt_of env_path_expr
    rw [path_prod']
    obtain ⟨c, t, ec, hc1, hc2, _, _⟩ := rel_head rel hrel Y
    have hrelr := runs_rel rel hrel Y hY
    have hprim : Runs env (.nt N.primary_expr) (rel.str ++ Y) .fail := by
      cases rel with
      | mk f rest =>
        simp only [okRel, Bool.and_eq_true] at hrel
        have hcont : Cont 9 (rest.str ++ Y) := by
          cases rest with
          | nil => simpa [CRelTail.str] using hY.mono (by omega)
          | cons w1 ds w2 s t' =>
            simp only [okRelTail, Bool.and_eq_true] at hrel
            simp only [CRelTail.str, List.append_assoc]
            exact cont9_slash hrel.2.1.1.1 ds _
        have := primary_fails_on_step f hrel.1 (nameCont_of_cont (by omega) hcont)
        simpa [CRel.str] using this
    refine Runs.alt (RunsAlt.skip (Runs.seq_fail (RunsSeq.fail_head (filter_fails_of_primary hprim))) (RunsAlt.skip ?_ (RunsAlt.hit hrelr)))
    rw [ec]
    exact Runs.seq_fail (RunsSeq.fail_head (Runs.seq_fail (RunsSeq.fail_head (slash_fails (stops_of_ne hc2 _)))))
  | .pathRoot, l, hok, Y, hY, hR => by
    simp only [okAt, beq_iff_eq] at hok
    subst hok
    simp only [ntOfLevel, cstX, CX.str, List.cons_append, List.nil_append]
    apply Runs.nt_of env_path_expr
    rw [path_prod']
    obtain ⟨w, T, rfl, hw, hs, hst⟩ := hR rfl
    obtain ⟨_, _, h3, _⟩ := stepStart_parts hst
    have hnsl : Stops (· == '/') (w ++ T) := by
      obtain ⟨w', T', e, hw', hs', hh, _⟩ := hY.split
      rw [e]
      exact stops_ws_or hw' space_ne_slash ((hh 8 (mem_levels 8 (by omega)) (Nat.le_refl _)).mono fun c hc => by simpa [opHeads] using hc)
    refine Runs.alt (RunsAlt.skip (Runs.seq_fail (RunsSeq.fail_head (filter_fails_of_primary (primary_fails_slash _)))) (RunsAlt.skip ?_
      (RunsAlt.skip ?_ (RunsAlt.hit (Runs.tag_ok ['/'] _)))))
    · have hsl := runs_slash false (w ++ T) hnsl
      simp only [slashText, Bool.false_eq_true, if_false, List.cons_append, List.nil_append] at hsl
      exact Runs.seq_fail (RunsSeq.fail_tail (Runs.seq (RunsSeq.cons hsl (RunsSeq.cons (runs_cls0 hw hs) (RunsSeq.nil _)))) (RunsSeq.fail_head (rel_fails hs hst)))
    · exact rel_fails (Stops.cons _ (by decide)) (Stops.cons _ (by decide))
  | .filter p preds, l, hok, Y, hY, _ => by
    simp only [okAt, Bool.and_eq_true, beq_iff_eq] at hok
    obtain ⟨⟨rfl, hp⟩, hpreds⟩ := hok
    simp only [ntOfLevel, cstX]
    apply Runs.nt_of env_filter_expr
    rw [filter_prod']
    have hprim := runs_x p 10 hp (preds.str ++ Y) (cont_preds preds hpreds hY) (fun h => by rw [endsRoot_ok10 hp] at h; cases h)
    simp only [ntOfLevel] at hprim
    have hloop := runs_preds preds hpreds Y hY
    simp only [CX.str, List.append_assoc]
    exact Runs.seq (RunsSeq.cons hprim (RunsSeq.cons (Runs.many hloop) (RunsSeq.nil _)))
  | .var q, l, hok, Y, hY, _ => by
    simp only [okAt, Bool.and_eq_true, beq_iff_eq] at hok
    obtain ⟨rfl, hq⟩ := hok
    simp only [ntOfLevel, cstX, CX.str, List.cons_append]
    apply Runs.nt_of env_primary_expr
    rw [primary_prod]
    refine Runs.alt (RunsAlt.hit ?_)
    apply Runs.nt_of env_variable_reference
    rw [variable_prod]
    exact Runs.seq (RunsSeq.cons (Runs.tag_ok ['$'] _) (RunsSeq.cons (runs_qname hq hY.stops_nc) (RunsSeq.nil _)))
  | .paren w1 e w2, l, hok, Y, hY, _ => by
    simp only [okAt, Bool.and_eq_true, beq_iff_eq] at hok
    obtain ⟨⟨⟨rfl, h1⟩, he⟩, h2⟩ := hok
    simp only [ntOfLevel, cstX, CX.str, List.cons_append, List.append_assoc, List.nil_append]
    apply Runs.nt_of env_primary_expr
    rw [primary_prod]
    obtain ⟨c, t, ec, hc1, _, _⟩ := x_head e 0 he (w2 ++ (')' :: Y))
    have hinner := runs_x e 0 he (w2 ++ (')' :: Y)) (cont_of_closer 0 h2 ')' (.inl rfl) Y) (fun _ => rootSafe_of_closer h2 ')' (.inl rfl) Y)
    simp only [ntOfLevel, levelNt] at hinner
    have hexpr : Runs env (.nt N.expr) (e.str ++ (w2 ++ (')' :: Y))) (.ok (.node N.expr (cstX e)) (w2 ++ (')' :: Y))) := by
      apply Runs.nt_of env_expr
      rw [expr_prod]
      exact hinner
    refine Runs.alt (RunsAlt.skip (variable_fails (Stops.cons _ (by decide))) (RunsAlt.hit ?_))
    refine Runs.seq (RunsSeq.cons (Runs.seq (RunsSeq.cons (Runs.tag_ok ['('] _) (RunsSeq.cons (runs_cls0 h1 (by rw [ec]; exact Stops.cons _ hc1)) (RunsSeq.nil _))))
      (RunsSeq.cons hexpr (RunsSeq.cons (Runs.seq (RunsSeq.cons (runs_cls0 h2 (Stops.cons _ sp_rpar')) (RunsSeq.cons (Runs.tag_ok [')'] Y) (RunsSeq.nil _)))) (RunsSeq.nil _))))
  | .lit q s, l, hok, Y, hY, _ => by
    simp only [okAt, Bool.and_eq_true, beq_iff_eq] at hok
    obtain ⟨⟨rfl, hq⟩, hs⟩ := hok
    have hqq := isQuote_cases hq
    simp only [ntOfLevel, cstX, CX.str, List.cons_append, List.append_assoc, List.nil_append]
    apply Runs.nt_of env_primary_expr
    rw [primary_prod]
    refine Runs.alt (RunsAlt.skip (variable_fails (Stops.cons _ (by rcases hqq with rfl | rfl <;> decide))) (RunsAlt.skip ?_ (RunsAlt.hit (runs_literal hq hs Y))))
    exact Runs.seq_fail (RunsSeq.fail_head (Runs.seq_fail (RunsSeq.fail_head (Runs.tag_fail (strip_cons_ne _ _ (by rcases hqq with rfl | rfl <;> decide))))))
  | .num s, l, hok, Y, hY, _ => by
    simp only [okAt, Bool.and_eq_true, beq_iff_eq] at hok
    obtain ⟨rfl, hs⟩ := hok
    obtain ⟨c, t, ec, hc⟩ := okNumber_head hs
    obtain ⟨_, _, _, f4, f5, f6, f7⟩ := digit_facts hc
    have hnum := runs_number hs (numEnd_of_cont hY)
    simp only [ntOfLevel, cstX, CX.str]
    apply Runs.nt_of env_primary_expr
    rw [primary_prod]
    refine Runs.alt (RunsAlt.skip (variable_fails ?_) (RunsAlt.skip ?_ (RunsAlt.skip (literal_fails ?_) (RunsAlt.hit hnum))))
    · rw [ec]; exact stops_of_ne f4 _
    · rw [ec]; exact Runs.seq_fail (RunsSeq.fail_head (Runs.seq_fail (RunsSeq.fail_head (Runs.tag_fail (strip_cons_ne _ _ (Ne.symm f5))))))
    · rw [ec]; exact Stops.cons _ (by simp [f6, f7])
  | .call f w1 w2 args w3, l, hok, Y, hY, _ => by
    simp only [okAt, Bool.and_eq_true, beq_iff_eq, Bool.not_eq_true'] at hok
    obtain ⟨⟨⟨⟨⟨⟨⟨rfl, hq⟩, hnt⟩, h1⟩, h2⟩, hargs⟩, h3⟩, hw3⟩ := hok
    simp only [ntOfLevel, cstX]
    obtain ⟨c, t, ec, hcN⟩ := okQN_text_head hq
    have hcs : (c != ':' && P.isNameStartChar c) = true := by
      obtain ⟨pre, loc⟩ := f
      have hq' := hq
      simp only [okQN, Bool.and_eq_true] at hq'
      cases pre with
      | none => obtain ⟨c', t', e', hc'⟩ := okNc_head hq'.2; simp only [QN.text] at ec; rw [e'] at ec; cases ec; exact hc'
      | some p => obtain ⟨c', t', e', hc'⟩ := okNc_head hq'.1; simp only [QN.text] at ec; rw [e'] at ec; cases ec; exact hc'
    obtain ⟨f1, f2, f3, f4, f5, _, _, _, _, _, f11, _⟩ := nameStart_facts hcs
    have htxt : (CX.call f w1 w2 args w3).str ++ Y = f.text ++ (w1 ++ ('(' :: (w2 ++ (args.str ++ (w3 ++ (')' :: Y)))))) := by simp [CX.str]
    rw [htxt]
    have hfn : Runs env (.nt N.function_name) (f.text ++ (w1 ++ ('(' :: (w2 ++ (args.str ++ (w3 ++ (')' :: Y)))))))
        (.ok (.node N.function_name (cstQN f)) (w1 ++ ('(' :: (w2 ++ (args.str ++ (w3 ++ (')' :: Y))))))) := by
      apply Runs.nt_of env_function_name
      rw [function_name_prod]
      refine Runs.verify_ok (runs_qname hq (nameCont_ws_lpar h1 _)) ?_
      rw [cstQN_flatten, contains_typeNames f hq, hnt]; rfl
    have hargsr := runs_args args hargs w3 Y h3 (by cases args <;> simp_all)
    -- what follows `(` ws: the first argument or `)`
    have hopen : Runs env callOpen (w1 ++ ('(' :: (w2 ++ (args.str ++ (w3 ++ (')' :: Y))))))
        (.ok (.seq [.leaf w1, .leaf ['('], .leaf w2]) (args.str ++ (w3 ++ (')' :: Y)))) := by
      unfold callOpen
      refine Runs.seq (RunsSeq.cons (runs_cls0 h1 (Stops.cons _ sp_lpar')) (RunsSeq.cons (Runs.tag_ok ['('] _) (RunsSeq.cons (runs_cls0 h2 ?_) (RunsSeq.nil _))))
      cases args with
      | none =>
        have : w3 = [] := by simpa using hw3
        subst this
        exact Stops.cons _ sp_rpar'
      | some a r =>
        simp only [okArgs, Bool.and_eq_true] at hargs
        obtain ⟨c', t', ec', hc1', _, _⟩ := x_head a 0 hargs.1 (r.str ++ (w3 ++ (')' :: Y)))
        simp only [CArgs.str, List.append_assoc]
        rw [ec']; exact Stops.cons _ hc1'
    have hclose : Runs env (G.seq [G.cls0 P.isSpace, G.tag [')']]) (w3 ++ (')' :: Y)) (.ok (.seq [.leaf w3, .leaf [')']]) Y) :=
      Runs.seq (RunsSeq.cons (runs_cls0 h3 (Stops.cons _ sp_rpar')) (RunsSeq.cons (Runs.tag_ok [')'] Y) (RunsSeq.nil _)))
    apply Runs.nt_of env_primary_expr
    rw [primary_prod, ec]
    refine Runs.alt (RunsAlt.skip (variable_fails (stops_of_ne f1 _)) (RunsAlt.skip ?_ (RunsAlt.skip (literal_fails (Stops.cons _ (by simp [f3, f4])))
      (RunsAlt.skip (number_fails (Stops.cons _ (by simp [f11, f5]))) (RunsAlt.hit ?_)))))
    · exact Runs.seq_fail (RunsSeq.fail_head (Runs.seq_fail (RunsSeq.fail_head (Runs.tag_fail (strip_cons_ne _ _ (Ne.symm f2))))))
    · rw [← ec]
      apply Runs.nt_of env_function_call
      rw [function_call_prod']
      exact Runs.seq (RunsSeq.cons hfn (RunsSeq.cons (Runs.seq (RunsSeq.cons hopen (RunsSeq.cons hargsr (RunsSeq.cons hclose (RunsSeq.nil _))))) (RunsSeq.nil _)))
termination_by e => 2 * sizeOf e + 1
decreasing_by all_goals (simp_wf <;> omega)
theorem runs_tail : ∀ (t : CXTail) (l : Nat), (l ≤ 5 ∨ l = 7) → ∀ (b : Bool), XPath.okTail l (l + 1) b t = true → ∀ Y : Str, Cont l Y →
    (endsRootTail b t = true → RootSafe Y) → RunsMany env (iterG l) (t.str ++ Y) (.ok (cstTail t) Y)
  | .nil, l, hl, b, _, Y, hY, _ => by
    simp only [CXTail.str, List.nil_append, cstTail]
    exact RunsMany.stop (iter_fails l hl hY)
  | .cons w1 op w2 e t, l, hl, b, hok, Y, hY, hR => by
    simp only [XPath.okTail, Bool.and_eq_true, beq_iff_eq, Bool.or_eq_true, Bool.not_eq_true'] at hok
    obtain ⟨⟨⟨⟨⟨⟨hlv, h1⟩, hsp⟩, hroot⟩, h2⟩, he⟩, ht⟩ := hok
    have hl10 : l ≤ 10 := by omega
    obtain ⟨c, tt, ec, hc1, hc2, _⟩ := x_head e (l + 1) he (t.str ++ Y)
    obtain ⟨ot, eo⟩ := opText_head op
    have ih := runs_tail t l hl (endsRoot e) ht Y hY (by simpa [endsRootTail] using hR)
    have hoperand : Runs env (.nt (operandNt' l)) (e.str ++ (t.str ++ Y)) (.ok (cstX e) (t.str ++ Y)) := by
      rw [operandNt'_eq l hl]
      refine runs_x e (l + 1) he (t.str ++ Y) ?_ ?_
      · cases t with
        | nil => simpa [CXTail.str] using hY.mono (Nat.le_succ l)
        | cons w1' op' w2' e' t' =>
          simp only [XPath.okTail, Bool.and_eq_true, beq_iff_eq, Bool.or_eq_true, Bool.not_eq_true'] at ht
          simp only [CXTail.str, List.append_assoc]
          exact cont_of_op op' (l + 1) (by omega) ht.1.1.1.1.1.2 (fun hn => by
            have := ht.1.1.1.1.2; rcases this with h | h; (rw [hn] at h; cases h); simpa using h) _
      · intro hr
        cases t with
        | nil => simpa [CXTail.str] using hR (by simpa [endsRootTail] using hr)
        | cons w1' op' w2' e' t' =>
          simp only [XPath.okTail, Bool.and_eq_true, beq_iff_eq, Bool.or_eq_true, Bool.not_eq_true'] at ht
          simp only [CXTail.str, List.append_assoc]
          have hsafe : opRootSafe op' = true := by
            have := ht.1.1.1.2; rcases this with h | h; (rw [hr] at h; cases h); exact h
          exact rootSafe_of_op op' hsafe ht.1.1.1.1.1.2 _
    have hsep : Runs env (G.seq [G.cls0 P.isSpace, opG' l, G.cls0 P.isSpace]) (w1 ++ (opText op ++ (w2 ++ (e.str ++ (t.str ++ Y)))))
        (.ok (.seq [.leaf w1, .leaf (opText op), .leaf w2]) (e.str ++ (t.str ++ Y))) := by
      refine Runs.seq (RunsSeq.cons (runs_cls0 h1 (by rw [eo]; exact Stops.cons _ (opHead_props op).1)) (RunsSeq.cons (runs_op' op l hlv hl _ ?_)
        (RunsSeq.cons (runs_cls0 h2 (by rw [ec]; exact Stops.cons _ hc1)) (RunsSeq.nil _))))
      exact stops_ws_or h2 space_ne_eq (by rw [ec]; exact stops_of_ne hc2 _)
    simp only [CXTail.str, List.append_assoc, cstTail]
    refine RunsMany.step (r := t.str ++ Y) ?_ ?_ ih
    · unfold iterG
      exact Runs.seq (RunsSeq.cons hsep (RunsSeq.cons hoperand (RunsSeq.nil _)))
    · rw [eo]; simp only [List.length_append, List.length_cons]; omega
termination_by t => 2 * sizeOf t
decreasing_by all_goals (simp_wf <;> omega)
theorem runs_args : ∀ (a : CArgs), okArgs a = true → ∀ (w3 Y : Str), okWs w3 = true → (a = .none → w3 = []) →
    Runs env argsAltG (a.str ++ (w3 ++ (')' :: Y))) (.ok (cstArgs a) (w3 ++ (')' :: Y)))
  | .none, _, w3, Y, _, hw => by
    have := hw rfl
    subst this
    simp only [CArgs.str, List.nil_append, cstArgs]
    unfold argsAltG
    refine Runs.opt_none (Runs.seq_fail (RunsSeq.fail_head ?_))
    apply Runs.nt_fail_of env_argument
    rw [argument_prod]
    exact expr_fails_rpar Y
  | .some f r, hok, w3, Y, h3, _ => by
    simp only [okArgs, Bool.and_eq_true] at hok
    have hcont : Cont 0 (r.str ++ (w3 ++ (')' :: Y))) ∧ RootSafe (r.str ++ (w3 ++ (')' :: Y))) := by
      cases r with
      | nil => exact ⟨by simpa [CArgTail.str] using cont_of_closer 0 h3 ')' (.inl rfl) Y, by simpa [CArgTail.str] using rootSafe_of_closer h3 ')' (.inl rfl) Y⟩
      | cons w1 w2 e t =>
        have hr := hok.2
        simp only [okArgTail, Bool.and_eq_true] at hr
        simp only [CArgTail.str, List.append_assoc, List.cons_append]
        exact ⟨cont_of_closer 0 hr.1.1.1 ',' (.inr (.inr rfl)) _, rootSafe_of_closer hr.1.1.1 ',' (.inr (.inr rfl)) _⟩
    have hinner := runs_x f 0 hok.1 (r.str ++ (w3 ++ (')' :: Y))) hcont.1 (fun _ => hcont.2)
    simp only [ntOfLevel, levelNt] at hinner
    have harg : Runs env (.nt N.argument) (f.str ++ (r.str ++ (w3 ++ (')' :: Y)))) (.ok (.node N.argument (.node N.expr (cstX f))) (r.str ++ (w3 ++ (')' :: Y)))) := by
      apply Runs.nt_of env_argument
      rw [argument_prod]
      apply Runs.nt_of env_expr
      rw [expr_prod]
      exact hinner
    have hloop := runs_argtail r hok.2 w3 Y h3
    simp only [CArgs.str, List.append_assoc, cstArgs]
    unfold argsAltG
    exact Runs.opt_some (Runs.seq (RunsSeq.cons harg (RunsSeq.cons (Runs.many hloop) (RunsSeq.nil _))))
termination_by a => 2 * sizeOf a
decreasing_by all_goals (simp_wf <;> omega)
theorem runs_argtail : ∀ (t : CArgTail), okArgTail t = true → ∀ (w3 Y : Str), okWs w3 = true →
    RunsMany env argIterG (t.str ++ (w3 ++ (')' :: Y))) (.ok (cstArgTail t) (w3 ++ (')' :: Y)))
  | .nil, _, w3, Y, h3 => by
    simp only [CArgTail.str, List.nil_append, cstArgTail]
    apply RunsMany.stop
    unfold argIterG argSepG
    exact Runs.seq_fail (RunsSeq.fail_head (Runs.seq_fail (RunsSeq.fail_tail (runs_cls0 h3 (Stops.cons _ sp_rpar')) (RunsSeq.fail_head (Runs.tag_fail (strip_cons_ne _ _ (by decide)))))))
  | .cons w1 w2 e t, hok, w3, Y, h3 => by
    simp only [okArgTail, Bool.and_eq_true] at hok
    obtain ⟨⟨⟨h1, h2⟩, he⟩, ht⟩ := hok
    have hcont : Cont 0 (t.str ++ (w3 ++ (')' :: Y))) ∧ RootSafe (t.str ++ (w3 ++ (')' :: Y))) := by
      cases t with
      | nil => exact ⟨by simpa [CArgTail.str] using cont_of_closer 0 h3 ')' (.inl rfl) Y, by simpa [CArgTail.str] using rootSafe_of_closer h3 ')' (.inl rfl) Y⟩
      | cons w1' w2' e' t' =>
        simp only [okArgTail, Bool.and_eq_true] at ht
        simp only [CArgTail.str, List.append_assoc, List.cons_append]
        exact ⟨cont_of_closer 0 ht.1.1.1 ',' (.inr (.inr rfl)) _, rootSafe_of_closer ht.1.1.1 ',' (.inr (.inr rfl)) _⟩
    obtain ⟨c, tt, ec, hc1, _, _⟩ := x_head e 0 he (t.str ++ (w3 ++ (')' :: Y)))
    have hinner := runs_x e 0 he (t.str ++ (w3 ++ (')' :: Y))) hcont.1 (fun _ => hcont.2)
    simp only [ntOfLevel, levelNt] at hinner
    have harg : Runs env (.nt N.argument) (e.str ++ (t.str ++ (w3 ++ (')' :: Y)))) (.ok (.node N.argument (.node N.expr (cstX e))) (t.str ++ (w3 ++ (')' :: Y)))) := by
      apply Runs.nt_of env_argument
      rw [argument_prod]
      apply Runs.nt_of env_expr
      rw [expr_prod]
      exact hinner
    have ih := runs_argtail t ht w3 Y h3
    simp only [CArgTail.str, List.append_assoc, List.cons_append, cstArgTail]
    refine RunsMany.step (r := t.str ++ (w3 ++ (')' :: Y))) ?_ ?_ ih
    · unfold argIterG argSepG
      refine Runs.seq (RunsSeq.cons (Runs.seq (RunsSeq.cons (runs_cls0 h1 (Stops.cons _ sp_comma)) (RunsSeq.cons (Runs.tag_ok [','] _)
        (RunsSeq.cons (runs_cls0 h2 (by rw [ec]; exact Stops.cons _ hc1)) (RunsSeq.nil _))))) (RunsSeq.cons harg (RunsSeq.nil _)))
    · simp only [List.length_append, List.length_cons]; omega
termination_by t => 2 * sizeOf t
decreasing_by all_goals (simp_wf <;> omega)
theorem runs_rel : ∀ (r : CRel), okRel r = true → ∀ Y : Str, Cont 8 Y →
    Runs env (.nt N.relative_location_path) (r.str ++ Y) (.ok (cstRel r) Y)
  | .mk f rest, hok, Y, hY => by
    simp only [okRel, Bool.and_eq_true] at hok
    have hcont : Cont 9 (rest.str ++ Y) := by
      cases rest with
      | nil => simpa [CRelTail.str] using hY.mono (by omega)
      | cons w1 ds w2 s t =>
        have hr := hok.2
        simp only [okRelTail, Bool.and_eq_true] at hr
        simp only [CRelTail.str, List.append_assoc]
        exact cont9_slash hr.1.1.1 ds _
    simp only [cstRel, CRel.str, List.append_assoc]
    apply Runs.nt_of env_relative_location_path
    rw [rel_prod']
    exact Runs.seq (RunsSeq.cons (runs_step f hok.1 (rest.str ++ Y) hcont) (RunsSeq.cons (Runs.many (runs_reltail rest hok.2 Y hY)) (RunsSeq.nil _)))
termination_by r => 2 * sizeOf r
decreasing_by all_goals (simp_wf <;> omega)
theorem runs_reltail : ∀ (t : CRelTail), okRelTail t = true → ∀ Y : Str, Cont 8 Y →
    RunsMany env relIterG (t.str ++ Y) (.ok (cstRelTail t) Y)
  | .nil, _, Y, hY => by
    simp only [CRelTail.str, List.nil_append, cstRelTail]
    obtain ⟨w, T, rfl, hw, hs, hh, _⟩ := hY.split
    have hsl : Stops (· == '/') T := (hh 8 (mem_levels 8 (by omega)) (Nat.le_refl _)).mono fun c hc => by simpa [opHeads] using hc
    apply RunsMany.stop
    unfold relIterG
    exact Runs.seq_fail (RunsSeq.fail_head (Runs.seq_fail (RunsSeq.fail_tail (runs_cls0 hw hs) (RunsSeq.fail_head (slash_fails hsl)))))
  | .cons w1 ds w2 s t, hok, Y, hY => by
    simp only [okRelTail, Bool.and_eq_true] at hok
    obtain ⟨⟨⟨h1, h2⟩, hs⟩, ht⟩ := hok
    have hcont : Cont 9 (t.str ++ Y) := by
      cases t with
      | nil => simpa [CRelTail.str] using hY.mono (by omega)
      | cons w1' ds' w2' s' t' =>
        simp only [okRelTail, Bool.and_eq_true] at ht
        simp only [CRelTail.str, List.append_assoc]
        exact cont9_slash ht.1.1.1 ds' _
    obtain ⟨c, tt, ec, hc1, hc2, _, _, _⟩ := step_head s hs (t.str ++ Y)
    obtain ⟨t', e'⟩ := slashText_head ds
    have ih := runs_reltail t ht Y hY
    simp only [CRelTail.str, List.append_assoc, cstRelTail]
    refine RunsMany.step (r := t.str ++ Y) ?_ ?_ ih
    · unfold relIterG
      refine Runs.seq (RunsSeq.cons (Runs.seq (RunsSeq.cons (runs_cls0 h1 (by rw [e']; exact Stops.cons _ sp_slash')) (RunsSeq.cons (runs_slash ds _ ?_)
        (RunsSeq.cons (runs_cls0 h2 (by rw [ec]; exact Stops.cons _ hc1)) (RunsSeq.nil _))))) (RunsSeq.cons (runs_step s hs (t.str ++ Y) hcont) (RunsSeq.nil _)))
      exact stops_ws_or h2 space_ne_slash (by rw [ec]; exact stops_of_ne hc2 _)
    · rw [e']; simp only [List.length_append, List.length_cons]; omega
termination_by t => 2 * sizeOf t
decreasing_by all_goals (simp_wf <;> omega)
theorem runs_step : ∀ (s : CStep), okStep s = true → ∀ Z : Str, Cont 9 Z → Runs env (.nt N.step) (s.str ++ Z) (.ok (cstStep s) Z)
  | .dot, _, Z, hZ => by
    have hdot : Stops (· == '.') Z := hZ.stops_nc.mono fun c hc => by
      cases hd : c == '.' with
      | false => rfl
      | true => simp only [beq_iff_eq] at hd; subst hd; revert hc; decide
    simp only [cstStep, CStep.str, List.cons_append, List.nil_append]
    apply Runs.nt_of env_step
    rw [step_prod']
    refine Runs.alt (RunsAlt.skip (Runs.tag_fail ?_) (RunsAlt.hit (Runs.tag_ok ['.'] Z)))
    rcases hdot with rfl | ⟨c, r, rfl, hc⟩
    · rfl
    · have : c ≠ '.' := by intro e; subst e; simp at hc
      simp [stripPrefix, Ne.symm this]
  | .dotdot, _, Z, _ => by
    simp only [cstStep, CStep.str, List.cons_append, List.nil_append]
    apply Runs.nt_of env_step
    rw [step_prod']
    exact Runs.alt (RunsAlt.hit (Runs.tag_ok ['.', '.'] Z))
  | .full ax w test preds, hok, Z, hZ => by
    obtain ⟨c, tt, ec, _, _, _, _, hdot⟩ := step_head (.full ax w test preds) hok Z
    have hnd : c ≠ '.' := hdot ⟨ax, w, test, preds, rfl⟩
    simp only [okStep, Bool.and_eq_true] at hok
    obtain ⟨⟨⟨⟨hax, hw⟩, htest⟩, hpreds⟩, hwe⟩ := hok
    have hZ' : NameCont (preds.str ++ Z) := nameCont_preds preds hpreds (nameCont_of_cont (by omega) hZ)
    have htestr := runs_node_test test htest hZ'
    have hloop := runs_preds preds hpreds Z hZ
    -- white space in front of the node test
    have hthead : Stops P.isSpace (test.str ++ (preds.str ++ Z)) := by
      cases test with
      | star => exact Stops.cons _ (by decide)
      | nsStar p => simp only [okTest] at htest; obtain ⟨c', t', e', hc'⟩ := okNc_head htest; simp only [CTest.str, e', List.cons_append]; exact Stops.cons _ (nameStart_facts hc').2.2.2.2.2.2.2.2.2.2.2
      | name q => simp only [okTest] at htest; exact stops_space_name htest _
      | typeTest t w1 w2 => obtain ⟨c', r', e', hc'⟩ := type_head t; simp only [CTest.str, e', List.cons_append]; exact Stops.cons _ (nameStart_facts hc').2.2.2.2.2.2.2.2.2.2.2
      | piLit w1 w2 q s w3 => obtain ⟨c', r', e', hc'⟩ := type_head .pi; simp only [CTest.str, e', List.cons_append]; exact Stops.cons _ (nameStart_facts hc').2.2.2.2.2.2.2.2.2.2.2
    have hws : Runs env (G.seq [G.cls0 P.isSpace, G.nt N.node_test]) (w ++ (test.str ++ (preds.str ++ Z))) (.ok (.seq [.leaf w, cstTest test]) (preds.str ++ Z)) :=
      Runs.seq (RunsSeq.cons (runs_cls0 hw hthead) (RunsSeq.cons htestr (RunsSeq.nil _)))
    have haxis : Runs env (.nt N.axis_specifier) (ax.str ++ (w ++ (test.str ++ (preds.str ++ Z)))) (.ok (cstAxis ax) (w ++ (test.str ++ (preds.str ++ Z)))) := by
      cases ax with
      | named a w0 =>
        simp only [okAxis] at hax
        have := runs_axis_named a hax (w ++ (test.str ++ (preds.str ++ Z)))
        simpa [CAxis.str] using this
      | attr => exact runs_axis_at _
      | omitted =>
        have hw0 : w = [] := by simpa using hwe
        subst hw0
        obtain ⟨k1, k2⟩ := test_axis_facts test htest hZ'
        simpa [CAxis.str] using runs_axis_omitted _ k1 k2
    have htxt : (CStep.full ax w test preds).str ++ Z = ax.str ++ (w ++ (test.str ++ (preds.str ++ Z))) := by simp [CStep.str]
    simp only [cstStep]
    apply Runs.nt_of env_step
    rw [step_prod']
    have hd1 : Runs env (.tag ['.', '.']) ((CStep.full ax w test preds).str ++ Z) .fail := by rw [ec]; exact Runs.tag_fail (strip_cons_ne _ _ (Ne.symm hnd))
    have hd2 : Runs env (.tag ['.']) ((CStep.full ax w test preds).str ++ Z) .fail := by rw [ec]; exact Runs.tag_fail (strip_cons_ne _ _ (Ne.symm hnd))
    refine Runs.alt (RunsAlt.skip hd1 (RunsAlt.skip hd2 (RunsAlt.hit ?_)))
    rw [htxt]
    exact Runs.seq (RunsSeq.cons haxis (RunsSeq.cons hws (RunsSeq.cons (Runs.many hloop) (RunsSeq.nil _))))
termination_by s => 2 * sizeOf s
decreasing_by all_goals (simp_wf <;> omega)
theorem runs_preds : ∀ (p : CPreds), okPreds p = true → ∀ Z : Str, Cont 9 Z → RunsMany env predIterG (p.str ++ Z) (.ok (cstPreds p) Z)
  | .nil, _, Z, hZ => by
    simp only [CPreds.str, List.nil_append, cstPreds]
    obtain ⟨w, T, rfl, hw, hs, hh, _⟩ := hZ.split
    have hbr : Stops (· == '[') T := (hh 9 (mem_levels 9 (by omega)) (Nat.le_refl _)).mono fun c hc => by simpa [opHeads] using hc
    apply RunsMany.stop
    unfold predIterG
    refine Runs.seq_fail (RunsSeq.fail_tail (runs_cls0 hw hs) (RunsSeq.fail_head ?_))
    apply Runs.nt_fail_of env_predicate
    rw [predicate_prod]
    exact Runs.seq_fail (RunsSeq.fail_head (Runs.seq_fail (RunsSeq.fail_head (runs_tag_fail_head hbr))))
  | .cons w w1 e w2 t, hok, Z, hZ => by
    simp only [okPreds, Bool.and_eq_true] at hok
    obtain ⟨⟨⟨⟨hw, h1⟩, he⟩, h2⟩, ht⟩ := hok
    obtain ⟨c, tt, ec, hc1, _, _⟩ := x_head e 0 he (w2 ++ (']' :: (t.str ++ Z)))
    have hinner := runs_x e 0 he (w2 ++ (']' :: (t.str ++ Z))) (cont_of_closer 0 h2 ']' (.inr (.inl rfl)) _) (fun _ => rootSafe_of_closer h2 ']' (.inr (.inl rfl)) _)
    simp only [ntOfLevel, levelNt] at hinner
    have hpe : Runs env (.nt N.predicate_expr) (e.str ++ (w2 ++ (']' :: (t.str ++ Z)))) (.ok (.node N.predicate_expr (.node N.expr (cstX e))) (w2 ++ (']' :: (t.str ++ Z)))) := by
      apply Runs.nt_of env_predicate_expr
      rw [predicate_expr_prod]
      apply Runs.nt_of env_expr
      rw [expr_prod]
      exact hinner
    have hpred : Runs env (.nt N.predicate) ('[' :: (w1 ++ (e.str ++ (w2 ++ (']' :: (t.str ++ Z))))))
        (.ok (.node N.predicate (.seq [.seq [.leaf ['['], .leaf w1], .node N.predicate_expr (.node N.expr (cstX e)), .seq [.leaf w2, .leaf [']']]])) (t.str ++ Z)) := by
      apply Runs.nt_of env_predicate
      rw [predicate_prod]
      exact Runs.seq (RunsSeq.cons (Runs.seq (RunsSeq.cons (Runs.tag_ok ['['] _) (RunsSeq.cons (runs_cls0 h1 (by rw [ec]; exact Stops.cons _ hc1)) (RunsSeq.nil _))))
        (RunsSeq.cons hpe (RunsSeq.cons (Runs.seq (RunsSeq.cons (runs_cls0 h2 (Stops.cons _ sp_rbr)) (RunsSeq.cons (Runs.tag_ok [']'] _) (RunsSeq.nil _)))) (RunsSeq.nil _))))
    have ih := runs_preds t ht Z hZ
    simp only [CPreds.str, List.append_assoc, List.cons_append, cstPreds]
    refine RunsMany.step (r := t.str ++ Z) ?_ ?_ ih
    · unfold predIterG
      exact Runs.seq (RunsSeq.cons (runs_cls0 hw (Stops.cons _ sp_lbr)) (RunsSeq.cons hpred (RunsSeq.nil _)))
    · simp only [List.length_append, List.length_cons]; omega
termination_by p => 2 * sizeOf p
decreasing_by all_goals (simp_wf <;> omega)
end

end XmlRs.XLex
