import XmlRsModel.Lemmas.XAbsExpr
/-! The `abs` functions on the trees the expression parser builds: one equation per shape, recursion left symbolic. -/
namespace XmlRs.XLex
open XmlRs XmlRs.XPath XmlRs.Lex
open Gen.XPath

theorem sig_rel (r : CRel) : sigToks (cstRel r) = [.node N.relative_location_path (relBody r)] := by rw [cstRel_eq, sig_node]

theorem sig_s1 : sigToks (.leaf ['/']) = [.leaf ['/']] := sig_leaf_tok (by decide) (by decide)
theorem sig_s2 : sigToks (.leaf ['/', '/']) = [.leaf ['/', '/']] := sig_leaf_tok (by decide) (by decide)

/-! ### path_expr -/
theorem absPath_F (g : Nat) (fb : CST) : absPath (g + 1) (.seq [.node N.filter_expr fb, .seq []]) = absFilter g fb := by
  simp [absPath, sig_seq_cons, sig_seq_nil, sig_node, List.findSome?, N.filter_expr, N.relative_location_path]

theorem absPath_FR (g : Nat) (fb : CST) (w1 w2 : Str) (ds : Bool) (rel : CRel) (h1 : okWs w1 = true) (h2 : okWs w2 = true) :
    absPath (g + 1) (.seq [.node N.filter_expr fb, .seq [.seq [.leaf w1, .leaf (slashText ds), .leaf w2], cstRel rel]]) =
      .path (some (absFilter g fb)) false ((if ds then [dosStep] else []) ++ absRel g (relBody rel)) := by
  cases ds <;>
  simp [absPath, sig_seq_cons, sig_seq_nil, sig_node, sig_rel, sig_leaf_ws h1, sig_leaf_ws h2, sig_s1, sig_s2, List.findSome?, N.filter_expr, N.relative_location_path, slashText]

theorem absPath_Abs (g : Nat) (w : Str) (ds : Bool) (rel : CRel) (h1 : okWs w = true) :
    absPath (g + 1) (.seq [.seq [.leaf (slashText ds), .leaf w], cstRel rel]) =
      .path none true ((if ds then [dosStep] else []) ++ absRel g (relBody rel)) := by
  cases ds <;>
  simp [absPath, sig_seq_cons, sig_seq_nil, sig_rel, sig_leaf_ws h1, sig_s1, sig_s2, List.findSome?, N.filter_expr, N.relative_location_path, slashText]

theorem absPath_Rel (g : Nat) (rel : CRel) : absPath (g + 1) (cstRel rel) = .path none false (absRel g (relBody rel)) := by
  simp [absPath, sig_rel, List.findSome?, N.filter_expr, N.relative_location_path]

theorem absPath_Root (g : Nat) : absPath (g + 1) (.leaf ['/']) = .path none true [] := by
  have h : sigToks (.leaf ['/']) = [.leaf ['/']] := sig_leaf_tok (by decide) (by decide)
  simp [absPath, h, List.findSome?]

/-! ### primary_expr -/
theorem absPrimary_node (g : Nat) (n : Nat) (b : CST) : absPrimary (g + 1) (.node n b) = absNode g n b := by
  simp [absPrimary, CST.kidsL]

theorem absPrimary_paren (g : Nat) (w1 w2 : Str) (X : CST) :
    absPrimary (g + 1) (.seq [.seq [.leaf ['('], .leaf w1], .node N.expr X, .seq [.leaf w2, .leaf [')']]]) = absNode g N.expr X := by
  simp [absPrimary, CST.kidsL, kidsLL]

/-! ### predicate -/
theorem absPred_body (g : Nat) (w1 : Str) (e : CX) (w2 : Str) : absPred (g + 1) (predBody w1 e w2) = absNode g N.predicate_expr (.node N.expr (cstX e)) := by
  simp [absPred, predBody_kidsL]

end XmlRs.XLex

namespace XmlRs.XLex
open XmlRs XmlRs.XPath XmlRs.Lex
open Gen.XPath

theorem filterMap_map_some {α β γ : Type} (f : β → Option γ) (k : α → β) (h : α → γ) (hk : ∀ a, f (k a) = some (h a)) :
    ∀ l : List α, (l.map k).filterMap f = l.map h
  | [] => rfl
  | a :: r => by simp [List.filterMap_cons, hk, filterMap_map_some f k h hk r]

/-! ### filter_expr -/
theorem absFilter_body (g : Nat) (pb : CST) (preds : CPreds) :
    absFilter (g + 1) (.seq [.node N.primary_expr pb, .many (cstPreds preds)]) =
      if (predBodies preds).isEmpty then absNode g N.primary_expr pb
      else .filter (absNode g N.primary_expr pb) ((predBodies preds).map (absPred g)) := by
  have hk : (CST.seq [.node N.primary_expr pb, .many (cstPreds preds)]).kidsL = (N.primary_expr, pb) :: (predBodies preds).map (fun b => (N.predicate, b)) := by
    simp [CST.kidsL, kidsLL, kidsLL_preds]
  simp only [absFilter, hk, List.head?_cons, List.drop_one, List.tail_cons]
  rw [filterMap_map_some _ (fun b => (N.predicate, b)) (absPred g) (by intro a; simp)]
  cases hp : predBodies preds with
  | nil => simp
  | cons a r => simp

/-! ### function_call -/
theorem absCall_body (g : Nat) (f : QN) (w1 w2 w3 : Str) (args : CArgs) :
    absCall (g + 1) (.seq [.node N.function_name (cstQN f), .seq [.seq [.leaf w1, .leaf ['('], .leaf w2], cstArgs args, .seq [.leaf w3, .leaf [')']]]]) =
      .call f ((cstArgs args).kidsL.map fun (n, b) => absNode g n b) := by
  obtain ⟨b, hb, hq⟩ := cstQNX_node f
  simp [absCall, CST.kidsL, kidsLL, hb, hq]

/-! ### step -/
theorem absStep_dot (g : Nat) : absStep (g + 1) (stepBody .dot) = .mk .self .node [] := by
  have h : sigToks (.leaf ['.']) = [.leaf ['.']] := sig_leaf_tok (by decide) (by decide)
  simp [absStep, stepBody, h]

theorem absStep_dotdot (g : Nat) : absStep (g + 1) (stepBody .dotdot) = .mk .parent .node [] := by
  have h : sigToks (.leaf ['.', '.']) = [.leaf ['.', '.']] := sig_leaf_tok (by decide) (by decide)
  simp [absStep, stepBody, h]

theorem sig_step_full (ax : CAxis) (w : Str) (test : CTest) (preds : CPreds) (hw : okWs w = true) (hp : okPreds preds = true) :
    sigToks (stepBody (.full ax w test preds)) =
      Tok.node N.axis_specifier (axisBody ax) :: Tok.node N.node_test (testBody test) :: (predBodies preds).map (fun b => Tok.node N.predicate b) := by
  simp only [stepBody]
  simp only [sig_seq_cons, sig_seq_nil, cstAxis_eq, cstTest_eq, sig_node, sig_leaf_ws hw, sig_preds preds hp]
  simp

theorem absStep_full (g : Nat) (ax : CAxis) (w : Str) (test : CTest) (preds : CPreds) (hw : okWs w = true) (ht : okTest test = true) (hp : okPreds preds = true) :
    absStep (g + 1) (stepBody (.full ax w test preds)) = .mk ax.erase test.erase ((predBodies preds).map (absPred g)) := by
  have hts := sig_step_full ax w test preds hw hp
  have hax := axisOfBody_cst ax
  have htest := absNodeTest_cst test ht
  unfold absStep
  rw [hts]
  simp only [List.findSome?, List.filterMap_cons]
  rw [filterMap_map_some _ (fun b => Tok.node N.predicate b) (absPred g) (by intro a; simp)]
  simp [N.axis_specifier, N.node_test, N.predicate]
  refine ⟨?_, htest⟩
  cases ax with
  | named a w => simp [axisBody, CST.kidsL, kidsLL, CST.flatten, axisOfStr_text, CAxis.erase]
  | attr => simp [axisBody, CST.kidsL, CST.flatten, CAxis.erase]
  | omitted => simp [axisBody, CST.kidsL, kidsLL, CST.flatten, flattenL, CAxis.erase]

end XmlRs.XLex
