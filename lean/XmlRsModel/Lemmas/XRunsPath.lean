import XmlRsModel.Lemmas.XRunsPrim
/-! A relative location path is first tried as a filter expression: `primary_expr` fails on the text of every step. -/
namespace XmlRs.XLex
open XmlRs XmlRs.XPath XmlRs.Lex
open Gen.XPath

theorem digit_nameChar (c : Char) (h : P.isNameChar c = false) : P.isDigit c = false := by
  cases hd : P.isDigit c with
  | false => rfl
  | true =>
    exfalso
    simp only [P.isDigit, Bool.and_eq_true, decide_eq_true_eq] at hd
    have h1 : ∀ a b : Char, a ≤ b ↔ a.toNat ≤ b.toNat := fun a b => Char.le_def
    rw [h1, h1] at hd
    have hn := C18.isNameChar_spec c.toNat
    simp only [P.isNameChar] at h
    rw [hn] at h
    simp only [Spec.isNameChar, Spec.nameCharRanges, Spec.nameStartRanges, List.cons_append, List.nil_append, inRanges, Bool.or_eq_false_iff,
      Bool.and_eq_false_iff, decide_eq_false_iff_not] at h
    have e1 : '0'.toNat = 48 := rfl
    have e2 : '9'.toNat = 57 := rfl
    rw [e1, e2] at hd
    omega

theorem nameCont_preds (preds : CPreds) (h : okPreds preds = true) {Z : Str} (hZ : NameCont Z) : NameCont (preds.str ++ Z) := by
  cases preds with
  | nil => simpa [CPreds.str] using hZ
  | cons w w1 e w2 t =>
    simp only [okPreds, Bool.and_eq_true] at h
    have hw := h.1.1.1.1
    simp only [CPreds.str, List.append_assoc, List.cons_append]
    exact ⟨stops_nc_ws_then hw (by decide) _, w, _, rfl, hw, Stops.cons _ (by decide), Stops.cons _ (by decide), Stops.cons _ (by decide)⟩

theorem axis_okNc (a : Axis) : okNc (axisText a) = true := by cases a <;> decide
theorem axis_not_type (a : Axis) : typeNames.contains (axisText a) = false := by cases a <;> decide
theorem type_okNc (t : NodeType) : okNc (typeText t) = true := by cases t <;> decide
theorem type_is_type (t : NodeType) : typeNames.contains (typeText t) = true := by cases t <;> decide

/-- `function_call` fails behind a node-type name: `function_name` rejects it -/
theorem function_call_fails_type {I : Str} {c : CST} {U : Str} (hq : Runs env (.nt N.qname) I (.ok c U))
    (hc : typeNames.contains c.flatten = true) : Runs env (.nt N.function_call) I .fail := by
  apply Runs.nt_fail_of env_function_call
  rw [function_call_prod]
  refine Runs.seq_fail (RunsSeq.fail_head ?_)
  apply Runs.nt_fail_of env_function_name
  rw [function_name_prod]
  exact Runs.verify_reject hq (by rw [hc]; rfl)

theorem nameStart_facts {c : Char} (h : (c != ':' && P.isNameStartChar c) = true) :
    c ≠ '$' ∧ c ≠ '(' ∧ c ≠ '"' ∧ c ≠ '\'' ∧ c ≠ '.' ∧ c ≠ '/' ∧ c ≠ '@' ∧ c ≠ '*' ∧ c ≠ '-' ∧ c ≠ '=' ∧ P.isDigit c = false ∧ P.isSpace c = false := by
  refine ⟨?_, ?_, ?_, ?_, ?_, ?_, ?_, ?_, ?_, ?_, ?_, ?_⟩
  all_goals first
    | (intro e; subst e; revert h; decide)
    | skip
  · cases hd : P.isDigit c with
    | false => rfl
    | true =>
      exfalso
      simp only [P.isDigit, Bool.and_eq_true, decide_eq_true_eq] at hd
      simp only [Bool.and_eq_true] at h
      have h1 : ∀ a b : Char, a ≤ b ↔ a.toNat ≤ b.toNat := fun a b => Char.le_def
      rw [h1, h1] at hd
      have hn := C18.isNameStartChar_spec c.toNat
      have h2 := h.2
      simp only [P.isNameStartChar] at h2
      rw [hn] at h2
      simp only [Spec.isNameStartChar, Spec.nameStartRanges, inRanges, Bool.or_eq_true, Bool.and_eq_true, decide_eq_true_eq, Bool.or_false] at h2
      have e1 : '0'.toNat = 48 := rfl
      have e2 : '9'.toNat = 57 := rfl
      rw [e1, e2] at hd
      omega
  · simp only [Bool.and_eq_true] at h
    exact space_not_nameChar c (C18.nameStart_sub_nameChar c h.2)

/-- the five alternatives of `primary_expr` fail on text that starts with a name when `function_call` fails there -/
theorem primary_fails_name {c : Char} {t : Str} (hc : (c != ':' && P.isNameStartChar c) = true)
    (h5 : Runs env (.nt N.function_call) (c :: t) .fail) : Runs env (.nt N.primary_expr) (c :: t) .fail := by
  obtain ⟨f1, f2, f3, f4, f5, _, _, _, _, _, f11, _⟩ := nameStart_facts hc
  refine primary_fails (Stops.cons _ (by simpa using f1)) (Stops.cons _ (by simpa using f2)) (Stops.cons _ (by simp [f3, f4])) ?_ h5
  exact number_fails (Stops.cons _ (by simp [f11, f5]))

theorem axis_head (a : Axis) : ∃ c t, axisText a = c :: t ∧ (c != ':' && P.isNameStartChar c) = true := by
  cases a <;> exact ⟨_, _, rfl, by decide⟩

theorem type_head (t : NodeType) : ∃ c r, typeText t = c :: r ∧ (c != ':' && P.isNameStartChar c) = true := by
  cases t <;> exact ⟨_, _, rfl, by decide⟩

theorem primary_fails_on_step (s : CStep) (hs : okStep s = true) {Z : Str} (hZ : NameCont Z) :
    Runs env (.nt N.primary_expr) (s.str ++ Z) .fail := by
  cases s with
  | dot =>
    have hd : Stops P.isDigit Z := hZ.1.mono digit_nameChar
    refine primary_fails (Stops.cons _ (by decide)) (Stops.cons _ (by decide)) (Stops.cons _ (by decide)) (number_fails_dot hd) ?_
    exact function_call_fails_noname (noNameStart_cons _ (by decide))
  | dotdot =>
    refine primary_fails (Stops.cons _ (by decide)) (Stops.cons _ (by decide)) (Stops.cons _ (by decide)) (number_fails_dot (Stops.cons _ digit_dot)) ?_
    exact function_call_fails_noname (noNameStart_cons _ (by decide))
  | full ax w test preds =>
    simp only [okStep, Bool.and_eq_true] at hs
    obtain ⟨⟨⟨⟨hax, hw⟩, htest⟩, hpreds⟩, hwe⟩ := hs
    have hZ' := nameCont_preds preds hpreds hZ
    have htxt : (CStep.full ax w test preds).str ++ Z = ax.str ++ (w ++ (test.str ++ (preds.str ++ Z))) := by simp [CStep.str]
    rw [htxt]
    cases ax with
    | attr =>
      simp only [CAxis.str, List.cons_append, List.nil_append]
      refine primary_fails (Stops.cons _ (by decide)) (Stops.cons _ (by decide)) (Stops.cons _ (by decide)) (number_fails (Stops.cons _ (by decide))) ?_
      exact function_call_fails_noname (noNameStart_cons _ (by decide))
    | named a w0 =>
      simp only [okAxis] at hax
      obtain ⟨c, t, e, hc⟩ := axis_head a
      have htx : (CAxis.named a w0).str ++ (w ++ (test.str ++ (preds.str ++ Z))) = axisText a ++ (w0 ++ (':' :: ':' :: (w ++ (test.str ++ (preds.str ++ Z))))) := by
        simp [CAxis.str]
      rw [htx]
      have hfc : Runs env (.nt N.function_call) (axisText a ++ (w0 ++ (':' :: ':' :: (w ++ (test.str ++ (preds.str ++ Z)))))) .fail := by
        have hU : ∃ w' T, w0 ++ (':' :: ':' :: (w ++ (test.str ++ (preds.str ++ Z)))) = w' ++ T ∧ okWs w' = true ∧ Stops P.isSpace T ∧ Stops (· == '(') T :=
          ⟨w0, _, rfl, hax, Stops.cons _ (by decide), Stops.cons _ (by decide)⟩
        cases hw0 : w0 with
        | nil =>
          rw [hw0] at hU
          have hq := runs_qname_colon (axis_okNc a) ':' (by decide) (w ++ (test.str ++ (preds.str ++ Z)))
          simp only [List.nil_append] at hU ⊢
          exact function_call_fails_after hq hU
        | cons d ds =>
          rw [hw0] at hU hax
          have hdsp : P.isNameChar d = false := by
            simp only [okWs, List.all_cons, Bool.and_eq_true] at hax
            cases hn : P.isNameChar d with
            | false => rfl
            | true => have := space_not_nameChar d hn; simp [hax.1] at this
          have hq := runs_qname (q := ⟨none, axisText a⟩) (r := (d :: ds) ++ (':' :: ':' :: (w ++ (test.str ++ (preds.str ++ Z)))))
            (by simp [okQN, axis_okNc]) (Stops.cons _ hdsp)
          simp only [QN.text] at hq
          exact function_call_fails_after hq hU
      rw [e] at hfc ⊢
      exact primary_fails_name hc hfc
    | omitted =>
      have hw0 : w = [] := by simpa using hwe
      subst hw0
      simp only [CAxis.str, List.nil_append]
      cases test with
      | star =>
        simp only [CTest.str, List.cons_append, List.nil_append]
        refine primary_fails (Stops.cons _ (by decide)) (Stops.cons _ (by decide)) (Stops.cons _ (by decide)) (number_fails (Stops.cons _ (by decide))) ?_
        exact function_call_fails_noname (noNameStart_cons _ (by decide))
      | name q =>
        simp only [okTest] at htest
        obtain ⟨c, t, e, hc⟩ := okQN_text_head htest
        have hcs : (c != ':' && P.isNameStartChar c) = true := by
          obtain ⟨pre, loc⟩ := q
          simp only [okQN, Bool.and_eq_true] at htest
          cases pre with
          | none => obtain ⟨c', t', e', hc'⟩ := okNc_head htest.2; simp only [QN.text] at e; rw [e'] at e; cases e; exact hc'
          | some p => obtain ⟨c', t', e', hc'⟩ := okNc_head htest.1; simp only [QN.text] at e; rw [e'] at e; cases e; exact hc'
        have hqn := runs_qname htest hZ'.1
        obtain ⟨_, w', T, hZe, hw', hs', _, hp'⟩ := hZ'
        have hfc := function_call_fails_after hqn ⟨w', T, hZe, hw', hs', hp'⟩
        simp only [CTest.str]
        rw [e] at hfc ⊢
        exact primary_fails_name hcs hfc
      | nsStar p =>
        simp only [okTest] at htest
        obtain ⟨c, t, e, hc⟩ := okNc_head htest
        have htx : (CTest.nsStar p).str ++ (preds.str ++ Z) = p ++ (':' :: '*' :: (preds.str ++ Z)) := by simp [CTest.str]
        rw [htx]
        have hfc := function_call_fails_after (runs_qname_colon htest '*' (by decide) (preds.str ++ Z))
          ⟨[], _, rfl, rfl, Stops.cons _ (by decide), Stops.cons _ (by decide)⟩
        rw [e] at hfc ⊢
        exact primary_fails_name hc hfc
      | typeTest t w1 w2 =>
        simp only [okTest, Bool.and_eq_true] at htest
        obtain ⟨c, r, e, hc⟩ := type_head t
        have htx : (CTest.typeTest t w1 w2).str ++ (preds.str ++ Z) = typeText t ++ (w1 ++ ('(' :: (w2 ++ (')' :: (preds.str ++ Z))))) := by simp [CTest.str]
        rw [htx]
        have hq := runs_qname (q := ⟨none, typeText t⟩) (r := w1 ++ ('(' :: (w2 ++ (')' :: (preds.str ++ Z))))) (by simp [okQN, type_okNc])
          (nameCont_ws_lpar htest.1 _)
        simp only [QN.text] at hq
        have hfc := function_call_fails_type hq (by rw [cstQN_flatten]; exact type_is_type t)
        rw [e] at hfc ⊢
        exact primary_fails_name hc hfc
      | piLit w1 w2 q s w3 =>
        simp only [okTest, Bool.and_eq_true] at htest
        obtain ⟨c, r, e, hc⟩ := type_head .pi
        have htx : (CTest.piLit w1 w2 q s w3).str ++ (preds.str ++ Z) = typeText .pi ++ (w1 ++ ('(' :: (w2 ++ (q :: (s ++ (q :: (w3 ++ (')' :: (preds.str ++ Z))))))))) := by
          simp [CTest.str]
        rw [htx]
        have hq := runs_qname (q := ⟨none, typeText .pi⟩) (r := w1 ++ ('(' :: (w2 ++ (q :: (s ++ (q :: (w3 ++ (')' :: (preds.str ++ Z)))))))))
          (by simp [okQN, type_okNc]) (nameCont_ws_lpar htest.1.1.1.1 _)
        simp only [QN.text] at hq
        have hfc := function_call_fails_type hq (by rw [cstQN_flatten]; exact type_is_type .pi)
        rw [e] at hfc ⊢
        exact primary_fails_name hc hfc

end XmlRs.XLex
