import XmlRsModel.XPath.Concrete
import XmlRsModel.Lemmas.RunsDtdLex
/-! Completeness of the lexical productions of the XPath grammar generated from the source (`Gen/XPathGrammar.lean`):
    names, literals, numbers, operators; and the continuation predicate `Cont` that says what may follow an expression
    of a given grammar layer. -/
namespace XmlRs.XLex
open XmlRs XmlRs.XPath XmlRs.Lex
open Gen.XPath

/-! ### names -/
def cstNc (a : Str) : CST :=
  .node N.ncname (.seq [.leaf (a.take 1), if a.drop 1 = [] then .seq [] else .leaf (a.drop 1)])

theorem runs_ncname {a r : Str} (ha : okNc a = true) (hr : Stops ncRestC r) :
    Runs env (.nt N.ncname) (a ++ r) (.ok (cstNc a) r) := by
  have h58 : Char.ofNat 58 = ':' := rfl
  cases a with
  | nil => simp [okNc] at ha
  | cons c cs =>
    simp only [okNc, Bool.and_eq_true] at ha
    apply Runs.nt_of Gen.XPath.env_ncname
    unfold Gen.XPath.Prod.ncname
    rw [h58]
    simp only [cstNc, List.take_succ_cons, List.take_zero, List.drop_succ_cons, List.drop_zero, List.cons_append]
    have h1 : (c != ':' && P.isNameStartChar c) = true := by simpa using ha.1
    refine Runs.seq (RunsSeq.cons (Runs.one_ok _ h1) (RunsSeq.cons ?_ (RunsSeq.nil _)))
    by_cases hcs : cs = []
    · subst hcs
      simp only [if_true, List.nil_append]
      exact Runs.opt_none (runs_cls1_fail hr)
    · simp only [hcs, if_false]
      exact Runs.opt_some (runs_cls1 hcs ha.2 hr)

theorem runs_ncname_fail {r : Str} (hr : Stops (fun c => c != ':' && P.isNameStartChar c) r) :
    Runs env (.nt N.ncname) r .fail := by
  have h58 : Char.ofNat 58 = ':' := rfl
  apply Runs.nt_fail_of Gen.XPath.env_ncname
  unfold Gen.XPath.Prod.ncname
  rw [h58]
  refine Runs.seq_fail (RunsSeq.fail_head ?_)
  rcases hr with rfl | ⟨c, r', rfl, hc⟩
  · exact Runs.one_nil
  · exact Runs.one_fail _ hc

def cstQN (q : QN) : CST :=
  match q.pre with
  | none => .node N.qname (cstNc q.loc)
  | some p => .node N.qname (.node N.prefixed_name (.seq [cstNc p, .seq [.leaf [':'], cstNc q.loc]]))

theorem runs_qname {q : QN} {r : Str} (hq : okQN q = true) (hr : Stops P.isNameChar r) :
    Runs env (.nt N.qname) (q.text ++ r) (.ok (cstQN q) r) := by
  have h58 : Char.ofNat 58 = ':' := rfl
  obtain ⟨pre, loc⟩ := q
  simp only [okQN, Bool.and_eq_true] at hq
  cases pre with
  | none =>
    simp only [QN.text, cstQN]
    apply Runs.nt_of Gen.XPath.env_qname
    unfold Gen.XPath.Prod.qname
    apply Runs.alt
    have hnc := runs_ncname hq.2 (stops_ncRest_of_nameChar hr)
    refine RunsAlt.skip ?_ (RunsAlt.hit hnc)
    apply Runs.nt_fail_of Gen.XPath.env_prefixed_name
    unfold Gen.XPath.Prod.prefixed_name
    apply Runs.seq_fail
    refine RunsSeq.fail_tail hnc (RunsSeq.fail_head (Runs.seq_fail (RunsSeq.fail_head ?_)))
    rw [h58]
    exact runs_tag_fail_head (stops_colon_of_nameChar hr)
  | some p =>
    simp only [QN.text, cstQN, List.append_assoc, List.cons_append]
    apply Runs.nt_of Gen.XPath.env_qname
    unfold Gen.XPath.Prod.qname
    apply Runs.alt
    refine RunsAlt.hit ?_
    apply Runs.nt_of Gen.XPath.env_prefixed_name
    unfold Gen.XPath.Prod.prefixed_name
    apply Runs.seq
    refine RunsSeq.cons (runs_ncname hq.1 (Stops.cons _ ncRest_colon)) (RunsSeq.cons (Runs.seq ?_) (RunsSeq.nil _))
    rw [h58]
    exact RunsSeq.cons (Runs.tag_ok [':'] _) (RunsSeq.cons (runs_ncname hq.2 (stops_ncRest_of_nameChar hr)) (RunsSeq.nil _))

theorem runs_qname_fail {r : Str} (hr : Stops (fun c => c != ':' && P.isNameStartChar c) r) :
    Runs env (.nt N.qname) r .fail := by
  apply Runs.nt_fail_of Gen.XPath.env_qname
  unfold Gen.XPath.Prod.qname
  apply Runs.alt
  refine RunsAlt.skip ?_ (RunsAlt.skip (runs_ncname_fail hr) (RunsAlt.nil _))
  apply Runs.nt_fail_of Gen.XPath.env_prefixed_name
  unfold Gen.XPath.Prod.prefixed_name
  exact Runs.seq_fail (RunsSeq.fail_head (runs_ncname_fail hr))

/-- no name starts with this character -/
def NoNameStart (r : Str) : Prop := Stops (fun c => c != ':' && P.isNameStartChar c) r

theorem noNameStart_cons {c : Char} (r : Str) (h : P.isNameStartChar c = false) : NoNameStart (c :: r) :=
  Stops.cons _ (by simp [h])

/-! ### literals and numbers -/
def cstLit (q : Char) (s : Str) : CST := .node N.literal (.seq [.leaf [q], .leaf s, .leaf [q]])

theorem runs_literal {q : Char} (hq : isQuote q = true) {s : Str} (hs : s.all (· != q) = true) (Y : Str) :
    Runs env (.nt N.literal) (q :: (s ++ q :: Y)) (.ok (cstLit q s) Y) := by
  have e1 : [Char.ofNat 34] = ['"'] := rfl
  have e2 : [Char.ofNat 39] = ['\''] := rfl
  have e3 : Char.ofNat 34 = '"' := rfl
  have e4 : Char.ofNat 39 = '\'' := rfl
  apply Runs.nt_of Gen.XPath.env_literal
  unfold Gen.XPath.Prod.literal
  rw [e1, e2, e3, e4]
  apply runs_two_quotes_dq hq
  rcases isQuote_cases hq with rfl | rfl
  · simp only [if_true]; exact runs_cls0 hs (Stops.cons _ (by simp))
  · have hne : ('\'' : Char) ≠ '"' := by decide
    simp only [hne, if_false]; exact runs_cls0 hs (Stops.cons _ (by simp))

theorem literal_fails {r : Str} (hr : Stops (fun c => c == '"' || c == '\'') r) : Runs env (.nt N.literal) r .fail := by
  have e1 : [Char.ofNat 34] = ['"'] := rfl
  have e2 : [Char.ofNat 39] = ['\''] := rfl
  apply Runs.nt_fail_of Gen.XPath.env_literal
  unfold Gen.XPath.Prod.literal
  rw [e1, e2]
  have h1 : Stops (· == '"') r := hr.mono fun c hc => by simp only [Bool.or_eq_false_iff] at hc; exact hc.1
  have h2 : Stops (· == '\'') r := hr.mono fun c hc => by simp only [Bool.or_eq_false_iff] at hc; exact hc.2
  exact Runs.alt (RunsAlt.skip (Runs.seq_fail (RunsSeq.fail_head (runs_tag_fail_head h1)))
    (RunsAlt.skip (Runs.seq_fail (RunsSeq.fail_head (runs_tag_fail_head h2))) (RunsAlt.nil _)))

/-- the tree of a number: digits with an optional fraction, or `.digits` -/
def numCst (a : Str) : Str → CST
  | '.' :: r => if a = [] then .node N.number (.seq [.leaf ['.'], .leaf r])
                else .node N.number (.seq [.leaf a, .seq [.leaf ['.'], .leaf r]])
  | _ => .node N.number (.seq [.leaf a, .seq []])

def cstNum (s : Str) : CST := numCst (spanP P.isDigit s).1 (spanP P.isDigit s).2

theorem digit_dot : P.isDigit '.' = false := by decide

/-- what follows a number: not a digit and not a dot -/
def NumEnd (Y : Str) : Prop := Stops (fun c => P.isDigit c || c == '.') Y

theorem okNumber_cases {s : Str} (hs : okNumber s = true) :
    ((spanP P.isDigit s).2 = [] ∧ (spanP P.isDigit s).1 ≠ []) ∨
    (∃ r, (spanP P.isDigit s).2 = '.' :: r ∧ r.all P.isDigit = true ∧ ((spanP P.isDigit s).1 ≠ [] ∨ r ≠ [])) := by
  unfold okNumber at hs
  generalize spanP P.isDigit s = sp at hs
  obtain ⟨a, b⟩ := sp
  simp only at hs ⊢
  split at hs
  · next a' h => simp only [Prod.mk.injEq] at h; obtain ⟨rfl, rfl⟩ := h; left; exact ⟨rfl, by simpa using hs⟩
  · next a' r h =>
    simp only [Prod.mk.injEq] at h; obtain ⟨rfl, rfl⟩ := h
    simp only [Bool.and_eq_true, Bool.or_eq_true, Bool.not_eq_true', List.isEmpty_eq_false_iff] at hs
    right; exact ⟨r, rfl, hs.1, hs.2⟩
  · cases hs

theorem runs_number {s : Str} (hs : okNumber s = true) {Y : Str} (hY : NumEnd Y) :
    Runs env (.nt N.number) (s ++ Y) (.ok (cstNum s) Y) := by
  have e1 : [Char.ofNat 46] = ['.'] := rfl
  have hYd : Stops P.isDigit Y := hY.mono fun c hc => by simp only [Bool.or_eq_false_iff] at hc; exact hc.1
  have hYdot : Stops (· == '.') Y := hY.mono fun c hc => by simp only [Bool.or_eq_false_iff] at hc; exact hc.2
  obtain ⟨a, b, hsp⟩ : ∃ a b, spanP P.isDigit s = (a, b) := ⟨_, _, rfl⟩
  have hs' : s = a ++ b := by have := spanP_append P.isDigit s; rw [hsp] at this; exact this.symm
  have ha : a.all P.isDigit = true := by
    have := spanP_all P.isDigit s; rw [hsp] at this; exact List.all_eq_true.mpr this
  have hc : cstNum s = numCst a b := by simp [cstNum, hsp]
  have hcases := okNumber_cases hs
  rw [hsp] at hcases
  simp only at hcases
  rw [hc, hs']
  clear hc hsp hs hs'
  rcases hcases with ⟨hb, hne⟩ | ⟨r, hb, hr, hne⟩
  · subst hb
    simp only [List.append_nil, numCst]
    apply Runs.nt_of Gen.XPath.env_number
    unfold Gen.XPath.Prod.number
    rw [e1]
    refine Runs.alt (RunsAlt.hit (Runs.seq (RunsSeq.cons (runs_cls1 hne ha hYd) (RunsSeq.cons (Runs.opt_none ?_) (RunsSeq.nil _)))))
    exact Runs.seq_fail (RunsSeq.fail_head (runs_tag_fail_head hYdot))
  · subst hb
    by_cases hae : a = []
    · subst hae
      have hrne : r ≠ [] := by rcases hne with h | h; exact absurd rfl h; exact h
      simp only [List.nil_append, numCst, if_true, List.cons_append]
      apply Runs.nt_of Gen.XPath.env_number
      unfold Gen.XPath.Prod.number
      rw [e1]
      refine Runs.alt (RunsAlt.skip (Runs.seq_fail (RunsSeq.fail_head (runs_cls1_fail (Stops.cons _ digit_dot)))) (RunsAlt.hit ?_))
      exact Runs.seq (RunsSeq.cons (Runs.tag_ok ['.'] _) (RunsSeq.cons (runs_cls1 hrne hr hYd) (RunsSeq.nil _)))
    · simp only [numCst, hae, if_false, List.append_assoc, List.cons_append]
      apply Runs.nt_of Gen.XPath.env_number
      unfold Gen.XPath.Prod.number
      rw [e1]
      refine Runs.alt (RunsAlt.hit (Runs.seq (RunsSeq.cons (runs_cls1 hae ha (Stops.cons _ digit_dot)) (RunsSeq.cons (Runs.opt_some ?_) (RunsSeq.nil _)))))
      exact Runs.seq (RunsSeq.cons (Runs.tag_ok ['.'] _) (RunsSeq.cons (runs_cls0 hr hYd) (RunsSeq.nil _)))

/-- `number` fails where neither a digit nor `.digit` starts -/
theorem number_fails {r : Str} (hr : Stops (fun c => P.isDigit c || c == '.') r) : Runs env (.nt N.number) r .fail := by
  have e1 : [Char.ofNat 46] = ['.'] := rfl
  have hd : Stops P.isDigit r := hr.mono fun c hc => by simp only [Bool.or_eq_false_iff] at hc; exact hc.1
  have hdot : Stops (· == '.') r := hr.mono fun c hc => by simp only [Bool.or_eq_false_iff] at hc; exact hc.2
  apply Runs.nt_fail_of Gen.XPath.env_number
  unfold Gen.XPath.Prod.number
  rw [e1]
  exact Runs.alt (RunsAlt.skip (Runs.seq_fail (RunsSeq.fail_head (runs_cls1_fail hd)))
    (RunsAlt.skip (Runs.seq_fail (RunsSeq.fail_head (runs_tag_fail_head hdot))) (RunsAlt.nil _)))

/-- `number` fails on `.` when no digit follows (the steps `.` and `..`) -/
theorem number_fails_dot {r : Str} (hr : Stops P.isDigit r) : Runs env (.nt N.number) ('.' :: r) .fail := by
  have e1 : [Char.ofNat 46] = ['.'] := rfl
  apply Runs.nt_fail_of Gen.XPath.env_number
  unfold Gen.XPath.Prod.number
  rw [e1]
  exact Runs.alt (RunsAlt.skip (Runs.seq_fail (RunsSeq.fail_head (runs_cls1_fail (Stops.cons _ digit_dot))))
    (RunsAlt.skip (Runs.seq_fail (RunsSeq.fail_tail (Runs.tag_ok ['.'] r) (RunsSeq.fail_head (runs_cls1_fail hr)))) (RunsAlt.nil _)))

end XmlRs.XLex
