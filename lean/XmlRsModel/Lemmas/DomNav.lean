import XmlRsModel.Lemmas.DomInv
/-! Navigation in a forest whose ids are pairwise distinct: the parent view (`parentIn`) and the
    child-list view (`findIn` + `kids`) agree. -/
namespace XmlRs.Dom
open List

/-- occurrences of `a` strictly below the root of `t` -/
def below (a : Nat) (t : Node) : Nat := cntL a t.attrs + cntL a t.kids

theorem cnt_eq_below (a : Nat) (t : Node) : cnt a t = (if t.id == a then 1 else 0) + below a t := by
  cases t with
  | mk j k d as ks => simp [cnt_mk, below, Node.id, Node.attrs, Node.kids]; omega

/-- occurrences of `a` as the id of a member of the list / strictly below the members -/
def rootCnt (a : Nat) : List Node → Nat
  | [] => 0
  | n :: r => (if n.id == a then 1 else 0) + rootCnt a r
def insideL (a : Nat) : List Node → Nat
  | [] => 0
  | n :: r => below a n + insideL a r

theorem cntL_split (a : Nat) (l : List Node) : cntL a l = rootCnt a l + insideL a l := by
  induction l with
  | nil => simp [cntL_nil, rootCnt, insideL]
  | cons n r ih => rw [cntL_cons, cnt_eq_below, ih]; simp only [rootCnt, insideL]; omega

theorem rootCnt_pos_of_any (c : Nat) (l : List Node) (h : l.any (·.id == c) = true) : 0 < rootCnt c l := by
  induction l with
  | nil => simp at h
  | cons n r ih =>
    simp only [List.any_cons, Bool.or_eq_true] at h
    simp only [rootCnt]
    rcases h with h | h
    · simp [h]; omega
    · have := ih h; omega

theorem any_of_rootCnt_pos (c : Nat) (l : List Node) (h : 0 < rootCnt c l) : l.any (·.id == c) = true := by
  induction l with
  | nil => simp [rootCnt] at h
  | cons n r ih =>
    simp only [rootCnt] at h
    simp only [List.any_cons, Bool.or_eq_true]
    by_cases hn : (n.id == c) = true
    · exact Or.inl hn
    · simp only [hn] at h
      exact Or.inr (ih (by simpa using h))

theorem below_pos_of_kid (c : Nat) (n : Node) (h : n.kids.any (·.id == c) = true) : 0 < below c n := by
  have := rootCnt_pos_of_any c n.kids h
  have h2 := cntL_split c n.kids
  unfold below; omega

mutual
theorem findIn_below (p a : Nat) : (t pn : Node) → findIn p t = some pn → below a pn ≤ below a t
  | .mk j k d as ks, pn, h => by
    simp only [findIn] at h
    by_cases hij : (p == j) = true
    · simp only [hij, if_true, Option.some.injEq] at h
      subst h; exact Nat.le_refl _
    · simp only [hij] at h
      cases hA : findInL p as with
      | some x =>
        simp [hA] at h; subst h
        have := (findInL_some p as x hA).2 a
        have h2 := cnt_eq_below a x
        simp only [below, Node.attrs, Node.kids] at *
        omega
      | none =>
        simp [hA] at h
        have := (findInL_some p ks pn h).2 a
        have h2 := cnt_eq_below a pn
        simp only [below, Node.attrs, Node.kids] at *
        omega
theorem findInL_inside (p a : Nat) : (l : List Node) → (pn : Node) → findInL p l = some pn → below a pn ≤ insideL a l
  | [], pn, h => by simp [findInL] at h
  | t :: r, pn, h => by
    simp only [findInL] at h
    simp only [insideL]
    cases hA : findIn p t with
    | some x =>
      simp [hA] at h; subst h
      have := findIn_below p a t x hA
      omega
    | none =>
      simp [hA] at h
      have := findInL_inside p a r pn h
      omega
end

mutual
/-- a parent is only reported for an id that occurs in the tree -/
theorem parentIn_none (c : Nat) : (t : Node) → below c t = 0 → parentIn c t = none
  | .mk j k d as ks, h => by
    simp only [below, Node.attrs, Node.kids] at h
    have hks : ks.any (·.id == c) = false := by
      cases hx : ks.any (·.id == c) with
      | false => rfl
      | true =>
        have := rootCnt_pos_of_any c ks hx
        have := cntL_split c ks
        omega
    have ha : insideL c as = 0 := by have := cntL_split c as; omega
    have hk : insideL c ks = 0 := by have := cntL_split c ks; omega
    simp [parentIn, hks, parentInL_none c as ha, parentInL_none c ks hk]
theorem parentInL_none (c : Nat) : (l : List Node) → insideL c l = 0 → parentInL c l = none
  | [], _ => by simp [parentInL]
  | t :: r, h => by
    simp only [insideL] at h
    simp [parentInL, parentIn_none c t (by omega), parentInL_none c r (by omega)]
end

mutual
/-- CHILD ⇒ PARENT: in a tree with pairwise distinct ids, the node whose child list holds `c` is
    the parent reported for `c` -/
theorem parentIn_of_kid (p c : Nat) : (t pn : Node) → (∀ a, cnt a t ≤ 1) → findIn p t = some pn →
    pn.kids.any (·.id == c) = true → parentIn c t = some p
  | .mk j k d as ks, pn, hnd, hf, hk => by
    have hb := below_pos_of_kid c pn hk
    simp only [findIn] at hf
    by_cases hij : (p == j) = true
    · simp only [hij, if_true, Option.some.injEq] at hf
      subst hf
      have : j = p := by simpa using (beq_iff_eq.mp hij).symm
      simp only [parentIn]
      simp only [Node.kids] at hk
      simp [hk, this]
    · simp only [hij] at hf
      have hc := hnd c
      rw [cnt_mk] at hc
      cases hA : findInL p as with
      | some x =>
        simp [hA] at hf; subst hf
        have h1 := findInL_inside p c as x hA
        have h2 := cntL_split c as
        have hks : ks.any (·.id == c) = false := by
          cases hx : ks.any (·.id == c) with
          | false => rfl
          | true =>
            have := rootCnt_pos_of_any c ks hx
            have := cntL_split c ks
            omega
        have ih := parentInL_of_kid p c as x (fun b => by have := hnd b; rw [cnt_mk] at this; omega) hA hk
        simp [parentIn, hks, ih]
      | none =>
        simp [hA] at hf
        have h1 := findInL_inside p c ks pn hf
        have h2 := cntL_split c ks
        have hks : ks.any (·.id == c) = false := by
          cases hx : ks.any (·.id == c) with
          | false => rfl
          | true =>
            have := rootCnt_pos_of_any c ks hx
            omega
        have has : parentInL c as = none := parentInL_none c as (by have := cntL_split c as; omega)
        have ih := parentInL_of_kid p c ks pn (fun b => by have := hnd b; rw [cnt_mk] at this; omega) hf hk
        simp [parentIn, hks, has, ih]
theorem parentInL_of_kid (p c : Nat) : (l : List Node) → (pn : Node) → (∀ a, cntL a l ≤ 1) → findInL p l = some pn →
    pn.kids.any (·.id == c) = true → parentInL c l = some p
  | [], pn, _, hf, _ => by simp [findInL] at hf
  | t :: r, pn, hnd, hf, hk => by
    have hb := below_pos_of_kid c pn hk
    simp only [findInL] at hf
    have hc := hnd c
    rw [cntL_cons] at hc
    cases hA : findIn p t with
    | some x =>
      simp [hA] at hf; subst hf
      have ih := parentIn_of_kid p c t x (fun b => by have := hnd b; rw [cntL_cons] at this; omega) hA hk
      simp [parentInL, ih]
    | none =>
      simp [hA] at hf
      have h1 := findInL_inside p c r pn hf
      have h2 := cntL_split c r
      have h3 := cnt_eq_below c t
      have ht : parentIn c t = none := parentIn_none c t (by omega)
      have ih := parentInL_of_kid p c r pn (fun b => by have := hnd b; rw [cntL_cons] at this; omega) hf hk
      simp [parentInL, ht, ih]
end

mutual
/-- PARENT ⇒ CHILD: the parent reported for `c` is a node of the tree whose child list holds `c` -/
theorem kid_of_parentIn (p c : Nat) : (t : Node) → (∀ a, cnt a t ≤ 1) → parentIn c t = some p →
    ∃ pn, findIn p t = some pn ∧ pn.kids.any (·.id == c) = true
  | .mk j k d as ks, hnd, hp => by
    simp only [parentIn] at hp
    by_cases hk : ks.any (·.id == c) = true
    · simp only [hk, if_true, Option.some.injEq] at hp
      subst hp
      exact ⟨.mk j k d as ks, by simp [findIn], by simpa [Node.kids] using hk⟩
    · simp only [hk] at hp
      have hpp := hnd p
      rw [cnt_mk] at hpp
      cases hA : parentInL c as with
      | some q =>
        simp [hA] at hp; subst hp
        obtain ⟨pn, hf, hkid⟩ := kid_of_parentInL q c as (fun b => by have := hnd b; rw [cnt_mk] at this; omega) hA
        have hm := findInL_some_mem q as pn hf
        have hjq : (q == j) = false := by
          cases hx : (q == j) with
          | false => rfl
          | true =>
            have : j = q := by simpa using (beq_iff_eq.mp hx).symm
            subst this; simp at hpp; omega
        exact ⟨pn, by simp [findIn, hjq, hf], hkid⟩
      | none =>
        simp [hA] at hp
        obtain ⟨pn, hf, hkid⟩ := kid_of_parentInL p c ks (fun b => by have := hnd b; rw [cnt_mk] at this; omega) hp
        have hm := findInL_some_mem p ks pn hf
        have hjp : (p == j) = false := by
          cases hx : (p == j) with
          | false => rfl
          | true =>
            have : j = p := by simpa using (beq_iff_eq.mp hx).symm
            subst this; simp at hpp; omega
        have has : findInL p as = none := findInL_none p as (by omega)
        exact ⟨pn, by simp [findIn, hjp, has, hf], hkid⟩
theorem kid_of_parentInL (p c : Nat) : (l : List Node) → (∀ a, cntL a l ≤ 1) → parentInL c l = some p →
    ∃ pn, findInL p l = some pn ∧ pn.kids.any (·.id == c) = true
  | [], _, hp => by simp [parentInL] at hp
  | t :: r, hnd, hp => by
    simp only [parentInL] at hp
    have hpp := hnd p
    rw [cntL_cons] at hpp
    cases hA : parentIn c t with
    | some q =>
      simp [hA] at hp; subst hp
      obtain ⟨pn, hf, hkid⟩ := kid_of_parentIn q c t (fun b => by have := hnd b; rw [cntL_cons] at this; omega) hA
      exact ⟨pn, by simp [findInL, hf], hkid⟩
    | none =>
      simp [hA] at hp
      obtain ⟨pn, hf, hkid⟩ := kid_of_parentInL p c r (fun b => by have := hnd b; rw [cntL_cons] at this; omega) hp
      have hm := findInL_some_mem p r pn hf
      have ht : findIn p t = none := findIn_none p t (by omega)
      exact ⟨pn, by simp [findInL, ht, hf], hkid⟩
end

theorem rootCnt_pos_of_mem (r : Node) (l : List Node) (h : r ∈ l) : 0 < rootCnt r.id l := by
  induction l with
  | nil => cases h
  | cons n t ih =>
    simp only [rootCnt]
    rcases List.mem_cons.mp h with rfl | h
    · simp; omega
    · have := ih h; omega

/-- a root of the forest has no parent -/
theorem root_no_parent (l : List Node) (hnd : ∀ a, cntL a l ≤ 1) (r : Node) (h : r ∈ l) : parentInL r.id l = none := by
  apply parentInL_none
  have := rootCnt_pos_of_mem r l h
  have := cntL_split r.id l
  have := hnd r.id
  omega

/-- no node beneath itself: below a node of the forest its own id does not occur -/
theorem not_below_itself (l : List Node) (hnd : ∀ a, cntL a l ≤ 1) (p : Nat) (pn : Node) (h : findInL p l = some pn) :
    below p pn = 0 := by
  have h1 := findInL_some p l pn h
  have h2 := h1.2 p
  have h3 := cnt_eq_below p pn
  have h4 := hnd p
  rw [h1.1] at h3
  simp at h3
  omega

end XmlRs.Dom
