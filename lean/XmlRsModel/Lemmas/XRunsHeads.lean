import XmlRsModel.Lemmas.XRunsPath
/-! First characters of concrete XPath expressions, what may follow a bare `/`, and the failure of `expr` on `)`. -/
namespace XmlRs.XLex
open XmlRs XmlRs.XPath XmlRs.Lex
open Gen.XPath

/-- characters with which a location step can start -/
def stepStart (c : Char) : Bool := (c != ':' && P.isNameStartChar c) || c == '*' || c == '.' || c == '@'

/-- after a bare `/`: behind optional white space no location step starts -/
def RootSafe (Y : Str) : Prop := ∃ w T, Y = w ++ T ∧ okWs w = true ∧ Stops P.isSpace T ∧ Stops stepStart T

theorem step_prod : Prod.step = G.alt [G.tag ['.', '.'], G.tag ['.'],
    G.seq [G.nt N.axis_specifier, G.seq [G.cls0 P.isSpace, G.nt N.node_test], G.many0 (G.seq [G.cls0 P.isSpace, G.nt N.predicate])]] := rfl

theorem rel_prod : Prod.relative_location_path = G.seq [G.nt N.step,
    G.many0 (G.seq [G.seq [G.cls0 P.isSpace, G.alt [G.tag ['/', '/'], G.tag ['/']], G.cls0 P.isSpace], G.nt N.step])] := rfl

theorem stepStart_parts {T : Str} (h : Stops stepStart T) :
    NoNameStart T ∧ Stops (· == '*') T ∧ Stops (· == '.') T ∧ Stops (· == '@') T := by
  refine ⟨h.mono ?_, h.mono ?_, h.mono ?_, h.mono ?_⟩ <;> intro c hc <;> simp only [stepStart, Bool.or_eq_false_iff] at hc
  · exact hc.1.1.1
  · exact hc.1.1.2
  · exact hc.1.2
  · exact hc.2

theorem head_of {s : Str} {c : Char} (h : s.head? = some c) : ∃ t, s = c :: t := by
  cases s with
  | nil => simp at h
  | cons d t => simp only [List.head?_cons, Option.some.injEq] at h; exact ⟨t, by rw [h]⟩

theorem axisTags_head : ∀ t ∈ axisTags, ∃ c r, t = c :: r ∧ (c != ':' && P.isNameStartChar c) = true := by
  intro t ht
  simp only [axisTags, List.mem_cons, List.mem_nil_iff, or_false] at ht
  rcases ht with rfl | rfl | rfl | rfl | rfl | rfl | rfl | rfl | rfl | rfl | rfl | rfl | rfl <;> exact ⟨_, _, rfl, by decide⟩

theorem typeTags_head : ∀ t ∈ typeTags, ∃ c r, t = c :: r ∧ (c != ':' && P.isNameStartChar c) = true := by
  intro t ht
  simp only [typeTags, List.mem_cons, List.mem_nil_iff, or_false] at ht
  rcases ht with rfl | rfl | rfl | rfl <;> exact ⟨_, _, rfl, by decide⟩

/-- no relative location path starts where no step can start (and the input does not start with white space) -/
theorem rel_fails {T : Str} (hs : Stops P.isSpace T) (h : Stops stepStart T) : Runs env (.nt N.relative_location_path) T .fail := by
  obtain ⟨h1, h2, h3, h4⟩ := stepStart_parts h
  apply Runs.nt_fail_of env_relative_location_path
  rw [rel_prod]
  refine Runs.seq_fail (RunsSeq.fail_head ?_)
  apply Runs.nt_fail_of env_step
  rw [step_prod]
  refine Runs.alt (RunsAlt.skip (runs_tag_fail_head h3) (RunsAlt.skip (runs_tag_fail_head h3) (RunsAlt.skip (Runs.seq_fail ?_) (RunsAlt.nil _))))
  -- the axis is read as omitted, then no node test starts
  have hax : Runs env (.nt N.axis_specifier) T (.ok (cstAxis .omitted) T) := by
    apply runs_axis_omitted T ?_ h4
    intro t ht U hU
    exfalso
    obtain ⟨c, r, rfl, hc⟩ := axisTags_head t ht
    rcases h1 with rfl | ⟨d, T', rfl, hd⟩
    · simp [stripPrefix] at hU
    · have : c ≠ d := by intro e; subst e; simp [hc] at hd
      simp [stripPrefix, this] at hU
  refine RunsSeq.fail_tail hax (RunsSeq.fail_head (Runs.seq_fail ?_))
  have hcls := Runs.cls0 (env := env) P.isSpace T
  rw [span_nil_of_stops hs] at hcls
  refine RunsSeq.fail_tail hcls (RunsSeq.fail_head ?_)
  apply Runs.nt_fail_of env_node_test
  rw [node_test_prod]
  have hp : Stops (· == 'p') T := h1.mono fun c hc => by
    cases hcc : c == 'p' with
    | false => rfl
    | true => simp only [beq_iff_eq] at hcc; subst hcc; revert hc; decide
  refine Runs.alt (RunsAlt.skip (Runs.seq_fail (RunsSeq.fail_head (Runs.seq_fail (RunsSeq.fail_head (runs_tag_fail_head hp)))))
    (RunsAlt.skip (Runs.seq_fail (RunsSeq.fail_head ?_)) (RunsAlt.skip ?_ (RunsAlt.nil _))))
  · apply Runs.nt_fail_of env_node_type
    rw [node_type_prod]
    have := runs_alt_tags (ev := env) typeTags T
    have hf : firstTag typeTags T = none := by
      have hnone : ∀ t ∈ typeTags, stripPrefix t T = none := by
        intro t ht
        obtain ⟨c, r, rfl, hc⟩ := typeTags_head t ht
        rcases h1 with rfl | ⟨d, T', rfl, hd⟩
        · rfl
        · have : c ≠ d := by intro e; subst e; simp [hc] at hd
          simp [stripPrefix, this]
      have n1 := hnone (typeText .comment) (by simp [typeTags])
      have n2 := hnone (typeText .text) (by simp [typeTags])
      have n3 := hnone (typeText .pi) (by simp [typeTags])
      have n4 := hnone (typeText .node) (by simp [typeTags])
      simp [firstTag, typeTags, n1, n2, n3, n4]
    rw [hf] at this
    exact Runs.alt this
  · apply Runs.nt_fail_of env_name_test
    rw [name_test_prod]
    exact Runs.alt (RunsAlt.skip (runs_tag_fail_head h2) (RunsAlt.skip (Runs.seq_fail (RunsSeq.fail_head (runs_ncname_fail h1)))
      (RunsAlt.skip (runs_qname_fail h1) (RunsAlt.nil _))))

theorem rootSafe_of_closer {w : Str} (hw : okWs w = true) (c : Char) (hc : c = ')' ∨ c = ']' ∨ c = ',') (R : Str) : RootSafe (w ++ c :: R) :=
  ⟨w, c :: R, rfl, hw, Stops.cons _ (by rcases hc with rfl | rfl | rfl <;> decide), Stops.cons _ (by rcases hc with rfl | rfl | rfl <;> decide)⟩

theorem rootSafe_nil : RootSafe [] := ⟨[], [], rfl, rfl, Stops.nil, Stops.nil⟩

theorem rootSafe_of_op (op : BinOp) (h : opRootSafe op = true) {w1 : Str} (hw : okWs w1 = true) (R : Str) : RootSafe (w1 ++ (opText op ++ R)) := by
  obtain ⟨t, ht⟩ := opText_head op
  refine ⟨w1, opText op ++ R, rfl, hw, ?_, ?_⟩
  · rw [ht]; exact Stops.cons _ (opHead_props op).1
  · rw [ht]; exact Stops.cons _ (by cases op <;> simp [opRootSafe] at h <;> decide)

/-! ### first characters -/
theorem okNumber_head {s : Str} (h : okNumber s = true) : ∃ c t, s = c :: t ∧ (P.isDigit c = true ∨ c = '.') := by
  have hsplit := spanP_append P.isDigit s
  have hall := spanP_all P.isDigit s
  rcases okNumber_cases h with ⟨hb, hne⟩ | ⟨r, hb, _, _⟩
  · rw [hb, List.append_nil] at hsplit
    cases hs : s with
    | nil => rw [hs] at hsplit; simp only [spanP] at hsplit; rw [hs] at hne; simp [spanP] at hne
    | cons c t =>
      refine ⟨c, t, rfl, .inl ?_⟩
      apply hall
      rw [hsplit, hs]; simp
  · rw [hb] at hsplit
    cases ha : (spanP P.isDigit s).1 with
    | nil => rw [ha] at hsplit; exact ⟨'.', r, by simpa using hsplit.symm, .inr rfl⟩
    | cons c t =>
      rw [ha] at hsplit
      exact ⟨c, t ++ '.' :: r, by simpa using hsplit.symm, .inl (hall c (by rw [ha]; simp))⟩

theorem digit_facts {c : Char} (h : P.isDigit c = true ∨ c = '.') : P.isSpace c = false ∧ c ≠ '=' ∧ c ≠ '-' ∧ c ≠ '$' ∧ c ≠ '(' ∧ c ≠ '"' ∧ c ≠ '\'' := by
  rcases h with h | rfl
  · simp only [P.isDigit, Bool.and_eq_true, decide_eq_true_eq] at h
    have h1 : ∀ a b : Char, a ≤ b ↔ a.toNat ≤ b.toNat := fun a b => Char.le_def
    rw [h1, h1] at h
    have e1 : '0'.toNat = 48 := rfl
    have e2 : '9'.toNat = 57 := rfl
    rw [e1, e2] at h
    refine ⟨?_, ?_, ?_, ?_, ?_, ?_, ?_⟩
    · cases hs : P.isSpace c with
      | false => rfl
      | true => obtain hh | hh | hh | hh := C15.space_cases c hs <;> (subst hh; simp at h)
    all_goals (intro e; subst e; simp at h)
  · decide

/-- the head of a step (with what follows it) -/
theorem step_head (s : CStep) (hs : okStep s = true) (Z : Str) :
    ∃ c t, s.str ++ Z = c :: t ∧ P.isSpace c = false ∧ c ≠ '/' ∧ c ≠ '=' ∧ c ≠ '-' ∧
      ((∃ ax w test preds, s = .full ax w test preds) → c ≠ '.') := by
  cases s with
  | dot => exact ⟨'.', Z, rfl, by decide, by decide, by decide, by decide, fun ⟨_, _, _, _, h⟩ => by cases h⟩
  | dotdot => exact ⟨'.', '.' :: Z, rfl, by decide, by decide, by decide, by decide, fun ⟨_, _, _, _, h⟩ => by cases h⟩
  | full ax w test preds =>
    simp only [okStep, Bool.and_eq_true] at hs
    obtain ⟨⟨⟨⟨_, _⟩, htest⟩, _⟩, hwe⟩ := hs
    have mk : ∀ (c : Char), ((CStep.full ax w test preds).str ++ Z).head? = some c → (c != ':' && P.isNameStartChar c) = true ∨ c = '@' ∨ c = '*' →
        ∃ c t, (CStep.full ax w test preds).str ++ Z = c :: t ∧ P.isSpace c = false ∧ c ≠ '/' ∧ c ≠ '=' ∧ c ≠ '-' ∧
          ((∃ ax' w' test' preds', CStep.full ax w test preds = .full ax' w' test' preds') → c ≠ '.') := by
      intro c e hc
      obtain ⟨t, e⟩ := head_of e
      refine ⟨c, t, e, ?_⟩
      rcases hc with hc | rfl | rfl
      · obtain ⟨_, _, _, _, f5, f6, _, _, f9, f10, _, f12⟩ := nameStart_facts hc
        exact ⟨f12, f6, f10, f9, fun _ => f5⟩
      · exact ⟨by decide, by decide, by decide, by decide, fun _ => by decide⟩
      · exact ⟨by decide, by decide, by decide, by decide, fun _ => by decide⟩
    cases ax with
    | named a w0 =>
      obtain ⟨c, t, e, hc⟩ := axis_head a
      exact mk c (by simp [CStep.str, CAxis.str, e]) (.inl hc)
    | attr => exact mk '@' (by simp [CStep.str, CAxis.str]) (.inr (.inl rfl))
    | omitted =>
      have hw0 : w = [] := by simpa using hwe
      subst hw0
      cases test with
      | star => exact mk '*' (by simp [CStep.str, CAxis.str, CTest.str]) (.inr (.inr rfl))
      | nsStar p =>
        simp only [okTest] at htest
        obtain ⟨c, t, e, hc⟩ := okNc_head htest
        exact mk c (by simp [CStep.str, CAxis.str, CTest.str, e]) (.inl hc)
      | name q =>
        simp only [okTest] at htest
        obtain ⟨pre, loc⟩ := q
        simp only [okQN, Bool.and_eq_true] at htest
        cases pre with
        | none => obtain ⟨c, t, e, hc⟩ := okNc_head htest.2; exact mk c (by simp [CStep.str, CAxis.str, CTest.str, QN.text, e]) (.inl hc)
        | some p => obtain ⟨c, t, e, hc⟩ := okNc_head htest.1; exact mk c (by simp [CStep.str, CAxis.str, CTest.str, QN.text, e]) (.inl hc)
      | typeTest t w1 w2 =>
        obtain ⟨c, r, e, hc⟩ := type_head t
        exact mk c (by simp [CStep.str, CAxis.str, CTest.str, e]) (.inl hc)
      | piLit w1 w2 q s w3 =>
        obtain ⟨c, r, e, hc⟩ := type_head .pi
        exact mk c (by simp [CStep.str, CAxis.str, CTest.str, e]) (.inl hc)

theorem rel_head (r : CRel) (hr : okRel r = true) (Z : Str) :
    ∃ c t, r.str ++ Z = c :: t ∧ P.isSpace c = false ∧ c ≠ '/' ∧ c ≠ '=' ∧ c ≠ '-' := by
  cases r with
  | mk f rest =>
    simp only [okRel, Bool.and_eq_true] at hr
    obtain ⟨c, t, e, h1, h2, h3, h4, _⟩ := step_head f hr.1 (rest.str ++ Z)
    exact ⟨c, t, by simpa [CRel.str] using e, h1, h2, h3, h4⟩

/-- the head of an expression of layer `l`: no white space, not `=`, and from the union layer on not `-` -/
theorem x_head : ∀ (e : CX) (l : Nat), okAt l e = true → ∀ Y : Str,
    ∃ c t, e.str ++ Y = c :: t ∧ P.isSpace c = false ∧ c ≠ '=' ∧ (7 ≤ l → c ≠ '-')
  | .chain l' f r, l, h, Y => by
    simp only [okAt, Bool.and_eq_true, beq_iff_eq, decide_eq_true_eq] at h
    obtain ⟨⟨⟨hl, hl5⟩, hf⟩, _⟩ := h
    obtain ⟨c, t, e, h1, h2, _⟩ := x_head f (l + 1) hf (r.str ++ Y)
    exact ⟨c, t, by simpa [CX.str] using e, h1, h2, fun h7 => by omega⟩
  | .unary ms e', l, h, Y => by
    simp only [okAt, Bool.and_eq_true, beq_iff_eq] at h
    obtain ⟨⟨hl, _⟩, he⟩ := h
    cases ms with
    | nil =>
      obtain ⟨c, t, e, h1, h2, _⟩ := x_head e' 7 he Y
      exact ⟨c, t, by simpa [CX.str, minusText] using e, h1, h2, fun h7 => by omega⟩
    | cons w ms' => exact ⟨'-', w ++ (minusText ms' ++ (e'.str ++ Y)), by simp [CX.str, minusText], by decide, by decide, fun h7 => by omega⟩
  | .union f r, l, h, Y => by
    simp only [okAt, Bool.and_eq_true, beq_iff_eq] at h
    obtain ⟨⟨hl, hf⟩, _⟩ := h
    obtain ⟨c, t, e, h1, h2, h3⟩ := x_head f 8 hf (r.str ++ Y)
    exact ⟨c, t, by simpa [CX.str] using e, h1, h2, fun _ => h3 (by omega)⟩
  | .pathF f, l, h, Y => by
    simp only [okAt, Bool.and_eq_true, beq_iff_eq] at h
    obtain ⟨c, t, e, h1, h2, h3⟩ := x_head f 9 h.2 Y
    exact ⟨c, t, by simpa [CX.str] using e, h1, h2, fun _ => h3 (by omega)⟩
  | .pathFR f w1 ds w2 rel, l, h, Y => by
    simp only [okAt, Bool.and_eq_true, beq_iff_eq] at h
    obtain ⟨c, t, e, h1, h2, h3⟩ := x_head f 9 h.1.1.1.2 (w1 ++ (slashText ds ++ (w2 ++ (rel.str ++ Y))))
    exact ⟨c, t, by simpa [CX.str] using e, h1, h2, fun _ => h3 (by omega)⟩
  | .pathAbs ds w rel, l, h, Y => by
    cases ds
    · exact ⟨'/', w ++ (rel.str ++ Y), by simp [CX.str, slashText], by decide, by decide, fun _ => by decide⟩
    · exact ⟨'/', '/' :: (w ++ (rel.str ++ Y)), by simp [CX.str, slashText], by decide, by decide, fun _ => by decide⟩
  | .pathRel rel, l, h, Y => by
    simp only [okAt, Bool.and_eq_true, beq_iff_eq] at h
    obtain ⟨c, t, e, h1, _, h3, h4⟩ := rel_head rel h.2 Y
    exact ⟨c, t, by simpa [CX.str] using e, h1, h3, fun _ => h4⟩
  | .pathRoot, l, h, Y => ⟨'/', Y, by simp [CX.str], by decide, by decide, fun _ => by decide⟩
  | .filter p preds, l, h, Y => by
    simp only [okAt, Bool.and_eq_true, beq_iff_eq] at h
    obtain ⟨c, t, e, h1, h2, h3⟩ := x_head p 10 h.1.2 (preds.str ++ Y)
    exact ⟨c, t, by simpa [CX.str] using e, h1, h2, fun _ => h3 (by omega)⟩
  | .var q, l, h, Y => ⟨'$', q.text ++ Y, by simp [CX.str], by decide, by decide, fun _ => by decide⟩
  | .paren w1 e' w2, l, h, Y => ⟨'(', w1 ++ (e'.str ++ (w2 ++ (')' :: Y))), by simp [CX.str], by decide, by decide, fun _ => by decide⟩
  | .lit q s, l, h, Y => by
    simp only [okAt, Bool.and_eq_true, beq_iff_eq] at h
    have hq := isQuote_cases h.1.2
    exact ⟨q, s ++ (q :: Y), by simp [CX.str], sp_of_quote h.1.2, by rcases hq with rfl | rfl <;> decide, fun _ => by rcases hq with rfl | rfl <;> decide⟩
  | .num s, l, h, Y => by
    simp only [okAt, Bool.and_eq_true, beq_iff_eq] at h
    obtain ⟨c, t, e, hc⟩ := okNumber_head h.2
    obtain ⟨f1, f2, f3, _⟩ := digit_facts hc
    exact ⟨c, t ++ Y, by simp [CX.str, e], f1, f2, fun _ => f3⟩
  | .call f w1 w2 args w3, l, h, Y => by
    simp only [okAt, Bool.and_eq_true, beq_iff_eq] at h
    have hq : okQN f = true := h.1.1.1.1.1.1.2
    obtain ⟨pre, loc⟩ := f
    have hq' := hq
    simp only [okQN, Bool.and_eq_true] at hq'
    have key : ∀ (c : Char) (t : Str), (QN.mk pre loc).text = c :: t → (c != ':' && P.isNameStartChar c) = true →
        ∃ c t, (CX.call ⟨pre, loc⟩ w1 w2 args w3).str ++ Y = c :: t ∧ P.isSpace c = false ∧ c ≠ '=' ∧ (7 ≤ l → c ≠ '-') := by
      intro c t e hc
      obtain ⟨_, _, _, _, _, _, _, _, f9, f10, _, f12⟩ := nameStart_facts hc
      exact ⟨c, t ++ (w1 ++ ('(' :: (w2 ++ (args.str ++ (w3 ++ (')' :: Y)))))), by simp [CX.str, e], f12, f10, fun _ => f9⟩
    cases pre with
    | none => obtain ⟨c, t, e, hc⟩ := okNc_head hq'.2; exact key c t (by simp [QN.text, e]) hc
    | some p => obtain ⟨c, t, e, hc⟩ := okNc_head hq'.1; exact key c (t ++ (':' :: loc)) (by simp [QN.text, e]) hc

end XmlRs.XLex
