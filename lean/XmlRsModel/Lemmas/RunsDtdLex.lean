import XmlRsModel.Lemmas.RunsDecl
/-! Completeness of the lexical productions of the internal subset: system and public identifier literals, external
    identifiers, entity values, token lists. -/
namespace XmlRs.Lex
open XmlRs Gen.Xml XmlRs.Names

/-- a literal between two equal quotes where the grammar tries the DOUBLE quote first and reads the body with a
    production that depends on the quote -/
theorem runs_two_quotes_dq {ev : Env} {gD gS : G} {q : Char} (hq : isQuote q = true) {s Y : Str} {c : CST}
    (h : Runs ev (if q = '"' then gD else gS) (s ++ q :: Y) (.ok c (q :: Y))) :
    Runs ev (.alt [.seq [.tag ['"'], gD, .tag ['"']], .seq [.tag ['\''], gS, .tag ['\'']]]) (q :: (s ++ q :: Y))
      (.ok (.seq [.leaf [q], c, .leaf [q]]) Y) := by
  rcases isQuote_cases hq with rfl | rfl
  · simp only [if_true] at h
    exact Runs.alt (RunsAlt.hit (Runs.seq (RunsSeq.cons (Runs.tag_ok ['"'] _) (RunsSeq.cons h (RunsSeq.cons (Runs.tag_ok ['"'] Y) (RunsSeq.nil _))))))
  · have hne : ('\'' : Char) ≠ '"' := by decide
    simp only [hne, if_false] at h
    refine Runs.alt (RunsAlt.skip ?_ (RunsAlt.hit (Runs.seq (RunsSeq.cons (Runs.tag_ok ['\''] _) (RunsSeq.cons h (RunsSeq.cons (Runs.tag_ok ['\''] Y) (RunsSeq.nil _)))))))
    exact Runs.seq_fail (RunsSeq.fail_head (Runs.tag_fail (strip_cons_ne _ _ (by decide))))

theorem except_self (p : Char → Bool) (q : Char) : P.except p [q] q = false := by simp [P.except]

def cstSysLit (q : Char) (l : Str) : CST := .node N.system_literal (.seq [.leaf [q], .leaf l, .leaf [q]])

theorem runs_system_literal {q : Char} (hq : isQuote q = true) {l : Str} (hl : l.all (P.except P.isChar [q]) = true) (Y : Str) :
    Runs env (.nt N.system_literal) (q :: (l ++ q :: Y)) (.ok (cstSysLit q l) Y) := by
  have e1 : [Char.ofNat 34] = ['"'] := rfl
  have e2 : [Char.ofNat 39] = ['\''] := rfl
  apply Runs.nt_of env_system_literal
  unfold Prod.system_literal
  rw [e1, e2]
  apply runs_two_quotes_dq hq
  rcases isQuote_cases hq with rfl | rfl
  · simp only [if_true]; exact runs_cls0 hl (Stops.cons _ (except_self _ _))
  · have hne : ('\'' : Char) ≠ '"' := by decide
    simp only [hne, if_false]; exact runs_cls0 hl (Stops.cons _ (except_self _ _))

def cstPubLit (q : Char) (p : Str) : CST :=
  .node N.pubid_literal (.seq [.leaf [q], if q = '"' then .node N.multipubidchar0 (.leaf p) else .leaf p, .leaf [q]])

theorem pubid_dq : P.isPubidChar '"' = false := by decide

theorem runs_pubid_literal {q : Char} (hq : isQuote q = true) {p : Str} (hp : p.all (P.except P.isPubidChar [q]) = true) (Y : Str) :
    Runs env (.nt N.pubid_literal) (q :: (p ++ q :: Y)) (.ok (cstPubLit q p) Y) := by
  have e1 : [Char.ofNat 34] = ['"'] := rfl
  have e2 : [Char.ofNat 39] = ['\''] := rfl
  apply Runs.nt_of env_pubid_literal
  unfold Prod.pubid_literal
  rw [e1, e2]
  apply runs_two_quotes_dq hq
  rcases isQuote_cases hq with rfl | rfl
  · simp only [if_true]
    apply Runs.nt_of env_multipubidchar0
    unfold Prod.multipubidchar0
    have hp' : p.all P.isPubidChar = true := by
      rw [List.all_eq_true] at hp ⊢
      intro c hc; have := hp c hc; simp only [P.except, Bool.and_eq_true] at this; exact this.1
    exact runs_cls0 hp' (Stops.cons _ pubid_dq)
  · have hne : ('\'' : Char) ≠ '"' := by decide
    simp only [hne, if_false]; exact runs_cls0 hp (Stops.cons _ (except_self _ _))

/-! ### external identifiers -/
def cstExtId : CExtId → CST
  | .sysId w q l => .node N.external_id (.seq [.seq [.leaf kwSYSTEM, .leaf w], cstSysLit q l])
  | .pubId w qp p w2 qs l => .node N.external_id (.seq [.seq [.leaf kwPUBLIC, .leaf w], .seq [cstPubLit qp p, .seq [.leaf w2, cstSysLit qs l]]])

theorem okWs1_parts {w : Str} (h : okWs1 w = true) : w ≠ [] ∧ okWs w = true := by
  simpa [okWs1] using h

theorem runs_external_id {id : CExtId} (h : okExtId id = true) (Y : Str) :
    Runs env (.nt N.external_id) (id.str ++ Y) (.ok (cstExtId id) Y) := by
  have e1 : [Char.ofNat 83,Char.ofNat 89,Char.ofNat 83,Char.ofNat 84,Char.ofNat 69,Char.ofNat 77] = kwSYSTEM := rfl
  have e2 : [Char.ofNat 80,Char.ofNat 85,Char.ofNat 66,Char.ofNat 76,Char.ofNat 73,Char.ofNat 67] = kwPUBLIC := rfl
  cases id with
  | sysId w q l =>
    simp only [okExtId, Bool.and_eq_true] at h
    obtain ⟨⟨h1, h2⟩, h3⟩ := h
    obtain ⟨a1, a2⟩ := okWs1_parts h1
    have htxt : (CExtId.sysId w q l).str ++ Y = kwSYSTEM ++ (w ++ (q :: (l ++ q :: Y))) := by simp [CExtId.str]
    rw [htxt]
    apply Runs.nt_of env_external_id
    unfold Prod.external_id
    rw [e1, e2]
    refine Runs.alt (RunsAlt.hit (Runs.seq (RunsSeq.cons (Runs.seq (RunsSeq.cons (Runs.tag_ok kwSYSTEM _)
      (RunsSeq.cons (runs_cls1 a1 a2 (Stops.cons _ (sp_of_quote h2))) (RunsSeq.nil _)))) (RunsSeq.cons (runs_system_literal h2 h3 Y) (RunsSeq.nil _)))))
  | pubId w qp p w2 qs l =>
    simp only [okExtId, Bool.and_eq_true] at h
    obtain ⟨⟨⟨⟨⟨h1, h2⟩, h3⟩, h4⟩, h5⟩, h6⟩ := h
    obtain ⟨a1, a2⟩ := okWs1_parts h1
    obtain ⟨b1, b2⟩ := okWs1_parts h4
    have htxt : (CExtId.pubId w qp p w2 qs l).str ++ Y = kwPUBLIC ++ (w ++ (qp :: (p ++ qp :: (w2 ++ (qs :: (l ++ qs :: Y)))))) := by simp [CExtId.str]
    rw [htxt]
    apply Runs.nt_of env_external_id
    unfold Prod.external_id
    rw [e1, e2]
    refine Runs.alt (RunsAlt.skip (Runs.seq_fail (RunsSeq.fail_head (Runs.seq_fail (RunsSeq.fail_head (Runs.tag_fail (by simp [kwSYSTEM, kwPUBLIC, stripPrefix])))))) (RunsAlt.hit ?_))
    refine Runs.seq (RunsSeq.cons (Runs.seq (RunsSeq.cons (Runs.tag_ok kwPUBLIC _)
      (RunsSeq.cons (runs_cls1 a1 a2 (Stops.cons _ (sp_of_quote h2))) (RunsSeq.nil _)))) (RunsSeq.cons (Runs.seq ?_) (RunsSeq.nil _)))
    exact RunsSeq.cons (runs_pubid_literal h2 h3 _) (RunsSeq.cons (Runs.seq (RunsSeq.cons (runs_cls1 b1 b2 (Stops.cons _ (sp_of_quote h5)))
      (RunsSeq.cons (runs_system_literal h5 h6 Y) (RunsSeq.nil _)))) (RunsSeq.nil _))

/-- `external_id` fails on `PUBLIC S pubid` when no system literal follows (a notation's public identifier) -/
theorem external_id_fails_on_public {w : Str} {q : Char} {p : Str} (hw : okWs1 w = true) (hq : isQuote q = true)
    (hp : p.all (P.except P.isPubidChar [q]) = true) {w2 : Str} (hw2 : okWs w2 = true) (Y : Str) :
    Runs env (.nt N.external_id) (kwPUBLIC ++ (w ++ (q :: (p ++ q :: (w2 ++ '>' :: Y))))) .fail := by
  have e1 : [Char.ofNat 83,Char.ofNat 89,Char.ofNat 83,Char.ofNat 84,Char.ofNat 69,Char.ofNat 77] = kwSYSTEM := rfl
  have e2 : [Char.ofNat 80,Char.ofNat 85,Char.ofNat 66,Char.ofNat 76,Char.ofNat 73,Char.ofNat 67] = kwPUBLIC := rfl
  obtain ⟨a1, a2⟩ := okWs1_parts hw
  apply Runs.nt_fail_of env_external_id
  unfold Prod.external_id
  rw [e1, e2]
  refine Runs.alt (RunsAlt.skip (Runs.seq_fail (RunsSeq.fail_head (Runs.seq_fail (RunsSeq.fail_head (Runs.tag_fail (by simp [kwSYSTEM, kwPUBLIC, stripPrefix]))))))
    (RunsAlt.skip ?_ (RunsAlt.nil _)))
  refine Runs.seq_fail (RunsSeq.fail_tail (Runs.seq (RunsSeq.cons (Runs.tag_ok kwPUBLIC _)
      (RunsSeq.cons (runs_cls1 a1 a2 (Stops.cons _ (sp_of_quote hq))) (RunsSeq.nil _)))) (RunsSeq.fail_head (Runs.seq_fail ?_)))
  refine RunsSeq.fail_tail (runs_pubid_literal hq hp _) (RunsSeq.fail_head (Runs.seq_fail ?_))
  have e3 : [Char.ofNat 34] = ['"'] := rfl
  have e4 : [Char.ofNat 39] = ['\''] := rfl
  have hsys : Runs env (.nt N.system_literal) ('>' :: Y) .fail := by
    apply Runs.nt_fail_of env_system_literal
    unfold Prod.system_literal
    rw [e3, e4]
    exact Runs.alt (RunsAlt.skip (Runs.seq_fail (RunsSeq.fail_head (Runs.tag_fail (strip_cons_ne _ _ (by decide)))))
      (RunsAlt.skip (Runs.seq_fail (RunsSeq.fail_head (Runs.tag_fail (strip_cons_ne _ _ (by decide))))) (RunsAlt.nil _)))
  cases w2 with
  | nil => exact RunsSeq.fail_head (runs_cls1_fail (Stops.cons _ sp_gt))
  | cons c cs => exact RunsSeq.fail_tail (runs_cls1 (by simp) hw2 (Stops.cons _ sp_gt)) (RunsSeq.fail_head hsys)

/-! ### entity values -/
def cstPeRef (n : Str) : CST := .node N.pe_reference (.seq [.leaf ['%'], cstName n, .leaf [';']])

def cstPieceE : Piece → CST
  | .text s => .leaf s
  | .peRef n => cstPeRef n
  | pc => cstRef pc

abbrev evChar (q : Char) : Char → Bool := P.except P.isChar ['%', '&', q]

def evItem (q : Char) : G := G.alt [G.cls1 (evChar q), G.nt N.pe_reference, G.nt N.reference]

theorem evChar_amp (q : Char) : evChar q '&' = false := by simp [evChar, P.except]
theorem evChar_pct (q : Char) : evChar q '%' = false := by simp [evChar, P.except]
theorem evChar_q (q : Char) : evChar q q = false := by simp [evChar, P.except]

theorem runs_pe_reference {n : Str} (hn : n.all P.isNameChar = true) (Y : Str) :
    Runs env (.nt N.pe_reference) ('%' :: (n ++ ';' :: Y)) (.ok (cstPeRef n) Y) := by
  have h37 : Char.ofNat 37 = '%' := rfl
  have h59 : Char.ofNat 59 = ';' := rfl
  apply Runs.nt_of env_pe_reference
  unfold Prod.pe_reference
  rw [h37, h59]
  exact Runs.seq (RunsSeq.cons (Runs.tag_ok ['%'] _) (RunsSeq.cons (runs_name hn (Stops.cons _ nc_semicolon))
    (RunsSeq.cons (Runs.tag_ok [';'] Y) (RunsSeq.nil _))))

theorem pe_reference_fail {r : Str} (hr : Stops (· == '%') r) : Runs env (.nt N.pe_reference) r .fail := by
  have h37 : Char.ofNat 37 = '%' := rfl
  apply Runs.nt_fail_of env_pe_reference
  unfold Prod.pe_reference
  rw [h37]
  exact Runs.seq_fail (RunsSeq.fail_head (runs_tag_fail_head hr))

/-- the first character of a printed piece that is not text: `&` or `%` -/
theorem printPieceE_head (q : Char) (pc : Piece) (hok : okPieceE q pc = true) (hne : ∀ s, pc ≠ .text s) :
    ∃ c t, printPiece pc = c :: t ∧ evChar q c = false := by
  cases pc with
  | text s => exact absurd rfl (hne s)
  | peRef n => exact ⟨'%', _, rfl, evChar_pct q⟩
  | entRef n => exact ⟨'&', _, rfl, evChar_amp q⟩
  | charRef d h => cases h <;> exact ⟨'&', _, rfl, evChar_amp q⟩

theorem printPieceE_length_pos (q : Char) (pc : Piece) (hok : okPieceE q pc = true) : 0 < (printPiece pc).length := by
  cases pc with
  | text s => simp only [okPieceE, Bool.and_eq_true, Bool.not_eq_true', List.isEmpty_eq_false_iff] at hok
              simp only [printPiece]; exact List.length_pos_iff.mpr hok.1
  | peRef n => simp [printPiece]
  | entRef n => simp [printPiece]
  | charRef d h => simp only [printPiece, List.length_append, List.length_cons, List.length_nil]; omega

theorem stops_after_textE (q : Char) (ps : List Piece) (r : Str) (hall : ps.all (okPieceE q) = true)
    (hhead : ∀ s ps', ps ≠ .text s :: ps') : Stops (evChar q) (printPieces ps ++ q :: r) := by
  cases ps with
  | nil => exact Stops.cons _ (evChar_q q)
  | cons pc ps' =>
    simp only [List.all_cons, Bool.and_eq_true] at hall
    have hne : ∀ s, pc ≠ .text s := fun s e => hhead s ps' (by rw [e])
    obtain ⟨c, t, ht, hc⟩ := printPieceE_head q pc hall.1 hne
    simp only [printPieces, List.flatMap_cons, ht, List.cons_append]
    exact Stops.cons _ hc

theorem okPieceE_ref (q : Char) (pc : Piece) (h : okPieceE q pc = true) (h1 : ∀ s, pc ≠ .text s) (h2 : ∀ s, pc ≠ .peRef s) :
    ∀ q', okPiece q' pc = true := by
  intro q'
  cases pc with
  | text s => exact absurd rfl (h1 s)
  | peRef s => exact absurd rfl (h2 s)
  | entRef n => simpa [okPiece, okPieceE] using h
  | charRef d hx => simpa [okPiece, okPieceE] using h

theorem runs_ev_loop (q : Char) (hq : isQuote q = true) (r : Str) : ∀ ps : List Piece,
    ps.all (okPieceE q) = true → adjText ps = false →
    RunsMany env (evItem q) (printPieces ps ++ q :: r) (.ok (ps.map cstPieceE) (q :: r))
  | [], _, _ => by
    simp only [printPieces, List.flatMap_nil, List.nil_append, List.map_nil]
    apply RunsMany.stop
    have hq1 : Stops (· == '%') (q :: r) := Stops.cons _ (by rcases isQuote_cases hq with rfl | rfl <;> decide)
    have hq2 : Stops (· == '&') (q :: r) := Stops.cons _ (by rcases isQuote_cases hq with rfl | rfl <;> decide)
    exact Runs.alt (RunsAlt.skip (runs_cls1_fail (Stops.cons _ (evChar_q q))) (RunsAlt.skip (pe_reference_fail hq1)
      (RunsAlt.skip (runs_reference_fail hq2) (RunsAlt.nil _))))
  | pc :: ps, hall, hadj => by
    simp only [List.all_cons, Bool.and_eq_true] at hall
    have hadj' : adjText ps = false := by
      cases pc <;> cases ps <;> simp_all [adjText]
      all_goals (rename_i hd tl; cases hd <;> simp_all [adjText])
    have ih := runs_ev_loop q hq r ps hall.2 hadj'
    have hlen : (printPieces ps ++ q :: r).length < (printPiece pc ++ (printPieces ps ++ q :: r)).length := by
      have := printPieceE_length_pos q pc hall.1
      simp only [List.length_append] at *
      omega
    simp only [List.map_cons]
    have htxt : printPieces (pc :: ps) ++ q :: r = printPiece pc ++ (printPieces ps ++ q :: r) := by simp [printPieces]
    rw [htxt]
    refine RunsMany.step ?_ hlen ih
    by_cases hne : ∃ s, pc = .text s
    · obtain ⟨s, rfl⟩ := hne
      simp only [okPieceE, Bool.and_eq_true, Bool.not_eq_true', List.isEmpty_eq_false_iff] at hall
      have hst : Stops (evChar q) (printPieces ps ++ q :: r) := by
        apply stops_after_textE q ps r hall.2
        intro s' ps' e; subst e; simp [adjText] at hadj
      exact Runs.alt (RunsAlt.hit (runs_cls1 hall.1.1 hall.1.2 hst))
    · have hne' : ∀ s, pc ≠ .text s := fun s e => hne ⟨s, e⟩
      obtain ⟨c, t, ht, hc⟩ := printPieceE_head q pc hall.1 hne'
      have hcls : Runs env (.cls1 (evChar q)) (printPiece pc ++ (printPieces ps ++ q :: r)) .fail := by
        rw [ht]; exact runs_cls1_fail (Stops.cons _ hc)
      by_cases hpe : ∃ n, pc = .peRef n
      · obtain ⟨n, rfl⟩ := hpe
        have hn : n.all P.isNameChar = true := by simpa [okPieceE] using hall.1
        have : printPiece (.peRef n) ++ (printPieces ps ++ q :: r) = '%' :: (n ++ ';' :: (printPieces ps ++ q :: r)) := by simp [printPiece]
        rw [this] at hcls ⊢
        exact Runs.alt (RunsAlt.skip hcls (RunsAlt.hit (runs_pe_reference hn _)))
      · have hpe' : ∀ n, pc ≠ .peRef n := fun n e => hpe ⟨n, e⟩
        have hokq := okPieceE_ref q pc hall.1 hne' hpe'
        have hcst : cstPieceE pc = cstRef pc := by
          cases pc with
          | text s => exact absurd rfl (hne' s)
          | peRef n => exact absurd rfl (hpe' n)
          | entRef n => rfl
          | charRef d h => rfl
        rw [hcst]
        obtain ⟨t', ht'⟩ := printPiece_ref_head pc hokq hne'
        refine Runs.alt (RunsAlt.skip hcls (RunsAlt.skip ?_ (RunsAlt.hit (runs_reference pc _ hokq hne'))))
        rw [ht']
        exact pe_reference_fail (Stops.cons _ (by decide))

def cstEntityValue (q : Char) (ps : List Piece) : CST :=
  .node N.entity_value (.seq [.leaf [q], .many (ps.map cstPieceE), .leaf [q]])

theorem runs_entity_value (q : Char) (hq : isQuote q = true) (ps : List Piece) (Y : Str)
    (hall : ps.all (okPieceE q) = true) (hadj : adjText ps = false) :
    Runs env (.nt N.entity_value) (q :: (printPieces ps ++ q :: Y)) (.ok (cstEntityValue q ps) Y) := by
  have h34 : Char.ofNat 34 = '"' := rfl
  have h39 : Char.ofNat 39 = '\'' := rfl
  have h37 : Char.ofNat 37 = '%' := rfl
  have h38 : Char.ofNat 38 = '&' := rfl
  apply Runs.nt_of env_entity_value
  unfold Prod.entity_value
  rw [h34, h39, h37, h38]
  have hloop := runs_ev_loop q hq Y ps hall hadj
  apply runs_two_quotes_dq (gD := G.many0 (evItem '"')) (gS := G.many0 (evItem '\'')) hq
  rcases isQuote_cases hq with rfl | rfl
  · simp only [if_true]; exact Runs.many hloop
  · have hne : ('\'' : Char) ≠ '"' := by decide
    simp only [hne, if_false]; exact Runs.many hloop

end XmlRs.Lex
