import XmlRsModel.Peg
/-! Generic soundness of the PEG interpreter: whatever `run` accepts is a derivation of the
    context-free reading of the same grammar, and it consumes exactly the text it returns. -/
namespace XmlRs

theorem stripPrefix_none_of_append {pat a : Str} (b : Str) :
    stripPrefix pat (a ++ b) = none → stripPrefix pat a = none := by
  induction pat generalizing a with
  | nil => simp [stripPrefix]
  | cons p ps ih =>
    cases a with
    | nil => intro _; simp [stripPrefix]
    | cons x xs =>
      simp only [List.cons_append, stripPrefix]
      split
      · exact ih
      · intro _; rfl

theorem splitAtSub_spec (pat : Str) : ∀ (s a b : Str), splitAtSub pat s = some (a, b) →
    a ++ b = s ∧ (pat ≠ [] → splitAtSub pat a = none)
  | [], a, b, h => by
      simp only [splitAtSub] at h
      split at h
      · next hp => simp at h; obtain ⟨rfl, rfl⟩ := h; exact ⟨rfl, fun hne => absurd hp hne⟩
      · cases h
  | c :: cs, a, b, h => by
      simp only [splitAtSub] at h
      split at h
      · simp at h; obtain ⟨rfl, rfl⟩ := h
        refine ⟨rfl, fun hne => ?_⟩
        simp [splitAtSub, hne]
      · next hnone =>
        split at h
        · next a' b' hrec =>
          simp only [Option.some.injEq, Prod.mk.injEq] at h
          obtain ⟨rfl, rfl⟩ := h
          obtain ⟨h1, h2⟩ := splitAtSub_spec pat cs a' b' hrec
          refine ⟨by simp [h1], fun hne => ?_⟩
          have hn : stripPrefix pat (c :: a') = none := by
            apply stripPrefix_none_of_append b'
            simpa [h1] using hnone
          simp [splitAtSub, hn, h2 hne]
        · cases h

theorem runUntil0_spec (p : Char → Bool) (stop s : Str) :
    ∃ t, (runUntil0 p stop s).1 = .leaf t ∧ t ++ (runUntil0 p stop s).2 = s ∧
      (∀ c ∈ t, p c = true) ∧ (stop ≠ [] → hasSub stop t = false) := by
  unfold runUntil0
  split
  · next a b h =>
    obtain ⟨h1, h2⟩ := splitAtSub_spec stop _ a b h
    refine ⟨a, rfl, ?_, ?_, ?_⟩
    · have := spanP_append p s
      simp only [← List.append_assoc, h1]; exact this
    · intro c hc; apply spanP_all p s; rw [← h1]; simp [hc]
    · intro hne; simp [hasSub, h2 hne]
  · next h =>
    refine ⟨_, rfl, spanP_append p s, spanP_all p s, fun _ => ?_⟩
    simp [hasSub, h]

theorem run_sound (env : Env) : ∀ f,
    (∀ g s c r, run env f g s = .ok c r → Derives env g c ∧ c.flatten ++ r = s) ∧
    (∀ gs s ks r, runSeq env f gs s = .ok ks r → DerivesSeq env gs ks ∧ flattenL ks ++ r = s) ∧
    (∀ gs s c r, runAlt env f gs s = .ok c r → (∃ g ∈ gs, Derives env g c) ∧ c.flatten ++ r = s) ∧
    (∀ g s ks r, runMany env f g s = .ok ks r → DerivesAll env g ks ∧ flattenL ks ++ r = s) := by
  intro f
  induction f with
  | zero =>
    refine ⟨?_, ?_, ?_, ?_⟩
    · intro g s c r h; simp [run] at h
    · intro gs; induction gs with
      | nil => intro s ks r h; simp [runSeq] at h; obtain ⟨rfl, rfl⟩ := h; exact ⟨.nil, by simp [flattenL]⟩
      | cons g gs ih => intro s ks r h; simp [runSeq, run] at h
    · intro gs; induction gs with
      | nil => intro s c r h; simp [runAlt] at h
      | cons g gs ih => intro s c r h; simp [runAlt, run] at h
    · intro g s ks r h; simp [runMany] at h
  | succ f ih =>
    obtain ⟨ihRun, ihSeq, ihAlt, ihMany⟩ := ih
    have hRun : ∀ g s c r, run env (f+1) g s = .ok c r → Derives env g c ∧ c.flatten ++ r = s := by
      intro g s c r h
      cases g with
      | tag t =>
        simp only [run] at h; split at h
        · next r' hs => cases h; exact ⟨.tag t, by simpa [CST.flatten] using (stripPrefix_some hs).symm⟩
        · cases h
      | one p =>
        cases s with
        | nil => simp [run] at h
        | cons c0 r0 =>
          simp only [run] at h; split at h
          · next hp => cases h; exact ⟨.one p _ hp, by simp [CST.flatten]⟩
          · cases h
      | cls0 p => simp only [run] at h; cases h; exact ⟨.cls0 p _ (spanP_all p s), by simpa [CST.flatten] using spanP_append p s⟩
      | cls1 p =>
        simp only [run] at h; split at h
        · cases h
        · next hne => cases h; exact ⟨.cls1 p _ hne (spanP_all p s), by simpa [CST.flatten] using spanP_append p s⟩
      | until0 p stop =>
        simp only [run] at h; cases h
        obtain ⟨t, ht, happ, hall, hsub⟩ := runUntil0_spec p stop s
        rw [ht]; exact ⟨.until0 p stop t hall hsub, by simpa [CST.flatten] using happ⟩
      | seq gs =>
        simp only [run] at h; split at h
        · next ks r' hs => cases h; obtain ⟨h1, h2⟩ := ihSeq _ _ _ _ hs; exact ⟨.seq _ _ h1, by simpa [CST.flatten] using h2⟩
        · cases h
        · cases h
      | alt gs =>
        simp only [run] at h
        obtain ⟨⟨g, hg, hd⟩, h2⟩ := ihAlt _ _ _ _ h
        exact ⟨.alt _ g _ hg hd, h2⟩
      | many0 g =>
        simp only [run] at h; split at h
        · next ks r' hm => cases h; obtain ⟨h1, h2⟩ := ihMany _ _ _ _ hm; exact ⟨.many _ _ h1, by simpa [CST.flatten] using h2⟩
        · cases h
        · cases h
      | verify g p =>
        simp only [run] at h; split at h
        · next c' r' hr =>
          split at h
          · next hp => cases h; obtain ⟨h1, h2⟩ := ihRun _ _ _ _ hr; exact ⟨.verify _ _ _ h1 hp, h2⟩
          · cases h
        · cases h
        · cases h
      | nt n =>
        simp only [run] at h; split at h
        · next c' r' hr => cases h; obtain ⟨h1, h2⟩ := ihRun _ _ _ _ hr; exact ⟨.nt _ _ h1, by simpa [CST.flatten] using h2⟩
        · cases h
        · cases h
    have hSeq : ∀ gs s ks r, runSeq env (f+1) gs s = .ok ks r → DerivesSeq env gs ks ∧ flattenL ks ++ r = s := by
      intro gs; induction gs with
      | nil => intro s ks r h; simp [runSeq] at h; obtain ⟨rfl, rfl⟩ := h; exact ⟨.nil, by simp [flattenL]⟩
      | cons g gs ihg =>
        intro s ks r h
        simp only [runSeq] at h
        split at h
        · next c r1 hr =>
          split at h
          · next ks' r2 hs =>
            cases h
            obtain ⟨h1, h2⟩ := hRun _ _ _ _ hr
            obtain ⟨h3, h4⟩ := ihg _ _ _ hs
            exact ⟨.cons _ _ _ _ h1 h3, by simp [flattenL, ← h2, ← h4]⟩
          · cases h
          · cases h
        · cases h
        · cases h
    refine ⟨hRun, hSeq, ?_, ?_⟩
    · intro gs; induction gs with
      | nil => intro s c r h; simp [runAlt] at h
      | cons g gs ihg =>
        intro s c r h
        simp only [runAlt] at h
        split at h
        · next c' r' hr => cases h; obtain ⟨h1, h2⟩ := hRun _ _ _ _ hr; exact ⟨⟨g, by simp, h1⟩, h2⟩
        · obtain ⟨⟨g', hg', hd⟩, h2⟩ := ihg _ _ _ h; exact ⟨⟨g', by simp [hg'], hd⟩, h2⟩
        · cases h
    · intro g s ks r h
      simp only [runMany] at h
      split at h
      · next c r1 hr =>
        split at h
        · split at h
          · next ks' r2 hm =>
            cases h
            obtain ⟨h1, h2⟩ := ihRun _ _ _ _ hr
            obtain ⟨h3, h4⟩ := ihMany _ _ _ _ hm
            exact ⟨.cons _ _ _ h1 h3, by simp [flattenL, ← h2, ← h4]⟩
          · cases h
          · cases h
        · cases h
      · cases h; exact ⟨.nil _, by simp [flattenL]⟩
      · cases h

/-- more fuel never changes an answer that is not `fuel` -/
theorem run_mono (env : Env) : ∀ f,
    (∀ g s out, run env f g s = out → out ≠ .fuel → run env (f+1) g s = out) ∧
    (∀ gs s out, runSeq env f gs s = out → out ≠ .fuel → runSeq env (f+1) gs s = out) ∧
    (∀ gs s out, runAlt env f gs s = out → out ≠ .fuel → runAlt env (f+1) gs s = out) ∧
    (∀ g s out, runMany env f g s = out → out ≠ .fuel → runMany env (f+1) g s = out) := by
  intro f
  induction f with
  | zero =>
    refine ⟨?_, ?_, ?_, ?_⟩
    · intro g s out h hne; simp [run] at h; exact absurd h.symm hne
    · intro gs; induction gs with
      | nil => intro s out h _; simpa [runSeq] using h
      | cons g gs ih => intro s out h hne; simp [runSeq, run] at h; exact absurd h.symm hne
    · intro gs; induction gs with
      | nil => intro s out h _; simpa [runAlt] using h
      | cons g gs ih => intro s out h hne; simp [runAlt, run] at h; exact absurd h.symm hne
    · intro g s out h hne; simp [runMany] at h; exact absurd h.symm hne
  | succ f ih =>
    obtain ⟨ihRun, ihSeq, ihAlt, ihMany⟩ := ih
    have hRun : ∀ g s out, run env (f+1) g s = out → out ≠ .fuel → run env (f+1+1) g s = out := by
      intro g s out h hne
      cases g with
      | tag t => simpa [run] using h
      | one p => cases s <;> simpa [run] using h
      | cls0 p => simpa [run] using h
      | cls1 p => simpa [run] using h
      | until0 p stop => simpa [run] using h
      | seq gs =>
        simp only [run] at h ⊢
        cases hs : runSeq env f gs s with
        | ok ks r => rw [ihSeq gs s _ hs (by simp)]; simpa [hs] using h
        | fail => rw [ihSeq gs s _ hs (by simp)]; simpa [hs] using h
        | fuel => simp [hs] at h; exact absurd h.symm hne
      | alt gs =>
        simp only [run] at h ⊢
        exact ihAlt gs s out h hne
      | many0 g =>
        simp only [run] at h ⊢
        cases hs : runMany env f g s with
        | ok ks r => rw [ihMany g s _ hs (by simp)]; simpa [hs] using h
        | fail => rw [ihMany g s _ hs (by simp)]; simpa [hs] using h
        | fuel => simp [hs] at h; exact absurd h.symm hne
      | verify g p =>
        simp only [run] at h ⊢
        cases hs : run env f g s with
        | ok c r => rw [ihRun g s _ hs (by simp)]; simpa [hs] using h
        | fail => rw [ihRun g s _ hs (by simp)]; simpa [hs] using h
        | fuel => simp [hs] at h; exact absurd h.symm hne
      | nt n =>
        simp only [run] at h ⊢
        cases hs : run env f (env n) s with
        | ok c r => rw [ihRun _ s _ hs (by simp)]; simpa [hs] using h
        | fail => rw [ihRun _ s _ hs (by simp)]; simpa [hs] using h
        | fuel => simp [hs] at h; exact absurd h.symm hne
    have hSeq : ∀ gs s out, runSeq env (f+1) gs s = out → out ≠ .fuel → runSeq env (f+1+1) gs s = out := by
      intro gs; induction gs with
      | nil => intro s out h _; simpa [runSeq] using h
      | cons g gs ihg =>
        intro s out h hne
        simp only [runSeq] at h ⊢
        cases hr : run env (f+1) g s with
        | ok c r =>
          have h1 := hRun g s _ hr (by simp)
          simp only [hr] at h
          cases hs : runSeq env (f+1) gs r with
          | ok ks r' => have h2 := ihg r _ hs (by simp); simp only [h1, h2]; simpa [hs] using h
          | fail => have h2 := ihg r _ hs (by simp); simp only [h1, h2]; simpa [hs] using h
          | fuel => simp [hs] at h; exact absurd h.symm hne
        | fail => rw [hRun g s _ hr (by simp)]; simpa [hr] using h
        | fuel => simp [hr] at h; exact absurd h.symm hne
    refine ⟨hRun, hSeq, ?_, ?_⟩
    · intro gs; induction gs with
      | nil => intro s out h _; simpa [runAlt] using h
      | cons g gs ihg =>
        intro s out h hne
        simp only [runAlt] at h ⊢
        cases hr : run env (f+1) g s with
        | ok c r => rw [hRun g s _ hr (by simp)]; simpa [hr] using h
        | fail => rw [hRun g s _ hr (by simp)]; simp only [hr] at h; exact ihg s out h hne
        | fuel => simp [hr] at h; exact absurd h.symm hne
    · intro g s out h hne
      rw [runMany] at h ⊢
      cases hr : run env f g s with
      | ok c r =>
        have h1 := ihRun g s _ hr (by simp)
        simp only [hr] at h
        simp only [h1]
        by_cases hl : r.length < s.length
        · simp only [hl, ite_true] at h ⊢
          cases hs : runMany env f g r with
          | ok ks r' => have h2 := ihMany g r _ hs (by simp); simp only [h2]; simpa [hs] using h
          | fail => have h2 := ihMany g r _ hs (by simp); simp only [h2]; simpa [hs] using h
          | fuel => simp [hs] at h; exact absurd h.symm hne
        · simp only [hl, ite_false] at h ⊢; exact h
      | fail => have h1 := ihRun g s _ hr (by simp); simp only [h1]; simpa [hr] using h
      | fuel => simp [hr] at h; exact absurd h.symm hne

theorem run_mono_le (env : Env) {f f' : Nat} (hle : f ≤ f') {g : G} {s : Str} {out : Res CST}
    (h : run env f g s = out) (hne : out ≠ .fuel) : run env f' g s = out := by
  induction hle with
  | refl => exact h
  | step _ ih => exact (run_mono env _).1 g s out ih hne

end XmlRs
